import CffiVerif.Model.Opcode

/-!
Helper lemmas for C11: invariants of `collect_type_table` (the two layout passes) and of the
rendering of the placeholders into opcode words.
-/
set_option linter.unusedSimpArgs false
namespace CffiVerif.Opcode
open CffiVerif.Generated.Opcodes

/-! ### layout invariants -/

theorem getElem?_append_of_some {α} {l e : List α} {i : Nat} {x : α} (h : l[i]? = some x) :
    (l ++ e)[i]? = some x := by
  have hi : i < l.length := by
    rcases List.getElem?_eq_some_iff.mp h with ⟨hi, _⟩; exact hi
  rw [List.getElem?_append_left hi]; exact h

/-- What `collect_type_table` guarantees about every assigned index. -/
structure Inv (L : Layout) : Prop where
  own : ∀ T i, L.idx T = some i → L.slots[i]? = some (.ty T)
  arr : ∀ t n i, L.idx (.array t n) = some i → L.slots[i+1]? = some (.len n)
  fn : ∀ r as f i, L.idx (.func r as f) = some i →
        (∀ k a, as[k]? = some a → L.slots[i+1+k]? = some (.ty a)) ∧
        L.slots[i+1+as.length]? = some (.fend f) ∧ as.all Ty.isArgOk = true

/-- The facts a freshly assigned key must satisfy. -/
def NewOk (slots : List PH) (T : Ty) (i : Nat) : Prop :=
  slots[i]? = some (.ty T) ∧
  (∀ t n, T = .array t n → slots[i+1]? = some (.len n)) ∧
  (∀ r as f, T = .func r as f →
    (∀ k a, as[k]? = some a → slots[i+1+k]? = some (.ty a)) ∧
    slots[i+1+as.length]? = some (.fend f) ∧ as.all Ty.isArgOk = true)

theorem Inv.of_ext {L L' : Layout} (h : Inv L) (e : List PH) (hs : L'.slots = L.slots ++ e)
    (hnew : ∀ T i, L'.idx T = some i → L.idx T = some i ∨ NewOk L'.slots T i) : Inv L' := by
  constructor
  · intro T i hi
    rcases hnew T i hi with ho | hn
    · rw [hs]; exact getElem?_append_of_some (h.own T i ho)
    · exact hn.1
  · intro t n i hi
    rcases hnew _ i hi with ho | hn
    · rw [hs]; exact getElem?_append_of_some (h.arr t n i ho)
    · exact hn.2.1 t n rfl
  · intro r as f i hi
    rcases hnew _ i hi with ho | hn
    · obtain ⟨h1, h2, h3⟩ := h.fn r as f i ho
      refine ⟨fun k a hk => ?_, ?_, h3⟩
      · rw [hs]; exact getElem?_append_of_some (h1 k a hk)
      · rw [hs]; exact getElem?_append_of_some h2
    · exact hn.2.2 r as f rfl

theorem Inv.empty : Inv Layout.empty := by
  constructor <;> intros <;> simp [Layout.empty] at *

theorem assign_eq (L : Layout) (T X : Ty) (i : Nat) (h : L.assign T X = some i) :
    (X = T ∧ i = L.slots.length) ∨ L.idx X = some i := by
  unfold Layout.assign at h
  by_cases hx : X = T
  · simp only [hx, if_true, Option.some.injEq] at h
    exact Or.inl ⟨hx, h.symm⟩
  · simp only [hx, if_false] at h
    exact Or.inr h

theorem assign_mono (L : Layout) (T X : Ty) (i : Nat) (hT : L.idx T = none) (h : L.idx X = some i) :
    L.assign T X = some i := by
  unfold Layout.assign
  by_cases hx : X = T
  · rw [hx, hT] at h; cases h
  · simp [hx, h]

/-! #### `addArg` and the fold over the arguments -/

theorem addArg_slots (L : Layout) (a : Ty) : (addArg L a).slots = L.slots ++ [.ty a] := rfl

theorem addArg_mono (L : Layout) (a X : Ty) (i : Nat) (h : L.idx X = some i) : (addArg L a).idx X = some i := by
  unfold addArg
  by_cases ha : (L.idx a).isSome = true
  · simp [ha, h]
  · simp only [ha, if_false]
    have : L.idx a = none := by simpa using ha
    exact assign_mono L a X i this h

theorem addArg_new (L : Layout) (a X : Ty) (i : Nat) (h : (addArg L a).idx X = some i) :
    L.idx X = some i ∨ (X = a ∧ i = L.slots.length) := by
  unfold addArg at h
  by_cases ha : (L.idx a).isSome = true
  · simp only [ha, if_true] at h; exact Or.inl h
  · simp only [ha, if_false] at h
    rcases assign_eq L a X i h with h1 | h1
    · exact Or.inr h1
    · exact Or.inl h1

theorem foldl_addArg (as : List Ty) (L1 : Layout) :
    (as.foldl addArg L1).slots = L1.slots ++ as.map PH.ty ∧
    (∀ X i, L1.idx X = some i → (as.foldl addArg L1).idx X = some i) ∧
    (∀ X i, (as.foldl addArg L1).idx X = some i →
      L1.idx X = some i ∨ ∃ k, as[k]? = some X ∧ i = L1.slots.length + k) := by
  induction as generalizing L1 with
  | nil => simp
  | cons a r ih =>
    obtain ⟨h1, h2, h3⟩ := ih (addArg L1 a)
    simp only [List.foldl_cons]
    refine ⟨?_, ?_, ?_⟩
    · rw [h1, addArg_slots]; simp
    · intro X i hX; exact h2 X i (addArg_mono L1 a X i hX)
    · intro X i hX
      rcases h3 X i hX with h | ⟨k, hk, hi⟩
      · rcases addArg_new L1 a X i h with h' | ⟨hx, hi⟩
        · exact Or.inl h'
        · exact Or.inr ⟨0, by simp [hx], by simpa using hi⟩
      · refine Or.inr ⟨k + 1, by simpa using hk, ?_⟩
        rw [hi, addArg_slots]; simp; omega

/-! #### `addFunc` -/

theorem isArgOk_of_all {as : List Ty} (h : as.all Ty.isArgOk = true) {k : Nat} {a : Ty} (hk : as[k]? = some a) :
    a.isArgOk = true := by
  have hm : a ∈ as := List.mem_of_getElem? hk
  exact List.all_eq_true.mp h a hm

theorem addFunc_spec (L L' : Layout) (r : Ty) (as : List Ty) (f : Nat)
    (h : addFunc L (.func r as f) = some L') :
    L.idx (.func r as f) = none ∧ as.all Ty.isArgOk = true ∧
    L'.slots = L.slots ++ (PH.ty (.func r as f) :: (as.map PH.ty ++ [PH.fend f])) ∧
    (∀ X i, L.idx X = some i → L'.idx X = some i) ∧
    L'.idx (.func r as f) = some L.slots.length ∧
    (∀ X i, L'.idx X = some i → L.idx X = some i ∨ (X = .func r as f ∧ i = L.slots.length) ∨
      ∃ k, as[k]? = some X ∧ i = L.slots.length + 1 + k) := by
  unfold addFunc at h
  by_cases h1 : (L.idx (.func r as f)).isSome = true
  · simp [h1] at h
  · by_cases h2 : (!(as.all Ty.isArgOk)) = true
    · simp [h1, h2] at h
    · simp only [] at h
      rw [if_neg h1, if_neg h2] at h
      simp only [Option.some.injEq] at h
      have hnone : L.idx (.func r as f) = none := by simpa using h1
      have hall : as.all Ty.isArgOk = true := by simpa using h2
      obtain ⟨f1, f2, f3⟩ := foldl_addArg as
        { idx := L.assign (.func r as f), slots := L.slots ++ [PH.ty (.func r as f)] }
      subst h
      refine ⟨hnone, hall, ?_, ?_, ?_, ?_⟩
      · simp only [f1]; simp
      · intro X i hX
        exact f2 X i (assign_mono L _ X i hnone hX)
      · apply f2
        simp [Layout.assign]
      · intro X i hX
        rcases f3 X i hX with h | ⟨k, hk, hi⟩
        · rcases assign_eq L _ X i h with h' | h'
          · exact Or.inr (Or.inl h')
          · exact Or.inl h'
        · refine Or.inr (Or.inr ⟨k, hk, ?_⟩)
          rw [hi]; simp only [List.length_append, List.length_cons, List.length_nil]

theorem slots_at_head (l : List PH) (x : PH) (t : List PH) : (l ++ x :: t)[l.length]? = some x := by
  simp

theorem slots_at_tail (l : List PH) (x : PH) (t : List PH) (k : Nat) :
    (l ++ x :: t)[l.length + 1 + k]? = t[k]? := by
  rw [List.getElem?_append_right (by omega)]
  have : l.length + 1 + k - l.length = k + 1 := by omega
  rw [this]; simp

theorem addFunc_inv (L L' : Layout) (T : Ty) (hI : Inv L) (h : addFunc L T = some L') : Inv L' := by
  cases T with
  | func r as f =>
    obtain ⟨hnone, hall, hs, hmono, hself, hnew⟩ := addFunc_spec L L' r as f h
    refine Inv.of_ext hI _ hs ?_
    intro X i hX
    rcases hnew X i hX with ho | ⟨hx, hi⟩ | ⟨k, hk, hi⟩
    · exact Or.inl ho
    · right
      subst hx; subst hi
      refine ⟨?_, ?_, ?_⟩
      · rw [hs]; exact slots_at_head _ _ _
      · intro t n e; cases e
      · intro r' as' f' e
        injection e with e1 e2 e3
        subst e1; subst e2; subst e3
        refine ⟨?_, ?_, hall⟩
        · intro k a hk
          rw [hs, slots_at_tail]
          have hk' : k < as.length := by
            rcases List.getElem?_eq_some_iff.mp hk with ⟨hk', _⟩; exact hk'
          rw [List.getElem?_append_left (by simpa using hk')]
          simp [hk]
        · rw [hs, slots_at_tail]
          rw [List.getElem?_append_right (by simp)]
          simp
    · right
      have hok := isArgOk_of_all hall hk
      have hk' : k < as.length := by
        rcases List.getElem?_eq_some_iff.mp hk with ⟨hk', _⟩; exact hk'
      refine ⟨?_, ?_, ?_⟩
      · rw [hs, hi, slots_at_tail, List.getElem?_append_left (by simpa using hk')]
        simp [hk]
      · intro t n e; subst e; simp [Ty.isArgOk] at hok
      · intro r' as' f' e; subst e; simp [Ty.isArgOk] at hok
  | prim _ | ptr _ _ | array _ _ | openArray _ | su _ | enum _ =>
    simp only [addFunc, Option.some.injEq] at h
    subst h; exact hI

theorem addFunc_mono (L L' : Layout) (T X : Ty) (i : Nat) (h : addFunc L T = some L') (hX : L.idx X = some i) :
    L'.idx X = some i := by
  cases T with
  | func r as f => exact (addFunc_spec L L' r as f h).2.2.2.1 X i hX
  | prim _ | ptr _ _ | array _ _ | openArray _ | su _ | enum _ =>
    simp only [addFunc, Option.some.injEq] at h
    subst h; exact hX

theorem layoutFuncs_inv (S : List Ty) (L L' : Layout) (hI : Inv L) (h : layoutFuncs L S = some L') : Inv L' := by
  induction S generalizing L with
  | nil => simp only [layoutFuncs, Option.some.injEq] at h; subst h; exact hI
  | cons T rest ih =>
    simp only [layoutFuncs] at h
    cases hf : addFunc L T with
    | none => simp [hf] at h
    | some L1 =>
      simp only [hf] at h
      exact ih L1 (addFunc_inv L L1 T hI hf) h

theorem layoutFuncs_mono (S : List Ty) (L L' : Layout) (X : Ty) (i : Nat) (h : layoutFuncs L S = some L')
    (hX : L.idx X = some i) : L'.idx X = some i := by
  induction S generalizing L with
  | nil => simp only [layoutFuncs, Option.some.injEq] at h; subst h; exact hX
  | cons T rest ih =>
    simp only [layoutFuncs] at h
    cases hf : addFunc L T with
    | none => simp [hf] at h
    | some L1 =>
      simp only [hf] at h
      exact ih L1 h (addFunc_mono L L1 T X i hf hX)

theorem layoutFuncs_assigns (S : List Ty) (L L' : Layout) (h : layoutFuncs L S = some L')
    (T : Ty) (hT : T ∈ S) (hf : T.isFunc = true) : (L'.idx T).isSome = true := by
  induction S generalizing L with
  | nil => cases hT
  | cons T0 rest ih =>
    simp only [layoutFuncs] at h
    cases hf0 : addFunc L T0 with
    | none => simp [hf0] at h
    | some L1 =>
      simp only [hf0] at h
      rcases List.mem_cons.mp hT with e | hm
      · subst e
        cases T with
        | func r as f =>
          have := (addFunc_spec L L1 r as f hf0).2.2.2.2.1
          rw [layoutFuncs_mono rest L1 L' _ _ h this]; rfl
        | prim _ | ptr _ _ | array _ _ | openArray _ | su _ | enum _ => simp [Ty.isFunc] at hf
      · exact ih L1 h hm

/-! #### `addOther` and the whole layout -/

theorem slots_concat_len (l : List PH) (x : PH) : (l ++ [x])[l.length]? = some x := by simp

theorem addOther_simple (L : Layout) (T : Ty) (hnone : L.idx T = none) (hf : T.isFunc = false)
    (ha : ∀ t n, T ≠ .array t n) :
    addOther L T = { idx := L.assign T, slots := L.slots ++ [.ty T] } := by
  cases T with
  | func _ _ _ => simp [Ty.isFunc] at hf
  | array t n => exact absurd rfl (ha t n)
  | prim _ | ptr _ _ | openArray _ | su _ | enum _ => simp [addOther, hnone]

theorem addOther_spec (L : Layout) (T : Ty) :
    (∃ e, (addOther L T).slots = L.slots ++ e) ∧
    (∀ X i, L.idx X = some i → (addOther L T).idx X = some i) ∧
    (T.isFunc = false → ((addOther L T).idx T).isSome = true) ∧
    (∀ X i, (addOther L T).idx X = some i → L.idx X = some i ∨ NewOk (addOther L T).slots X i) := by
  by_cases hs : (L.idx T).isSome = true
  · have e : addOther L T = L := by
      cases T <;> simp [addOther, hs]
    rw [e]
    exact ⟨⟨[], by simp⟩, fun _ _ h => h, fun _ => hs, fun _ _ h => Or.inl h⟩
  · have hnone : L.idx T = none := by simpa using hs
    cases T with
    | func r as f =>
      have e : addOther L (.func r as f) = L := by simp [addOther]
      rw [e]
      exact ⟨⟨[], by simp⟩, fun _ _ h => h, fun h => by simp [Ty.isFunc] at h, fun _ _ h => Or.inl h⟩
    | array t n =>
      have e : addOther L (.array t n) =
          { idx := L.assign (.array t n), slots := L.slots ++ [.ty (.array t n), .len n] } := by
        simp [addOther, hs]
      rw [e]
      refine ⟨⟨_, rfl⟩, fun X i h => assign_mono L _ X i hnone h, fun _ => by simp [Layout.assign], ?_⟩
      intro X i h
      rcases assign_eq L _ X i h with ⟨hx, hi⟩ | h'
      · right
        subst hx; subst hi
        unfold NewOk
        refine ⟨by simp, ?_, ?_⟩
        · intro t' n' e'; injection e' with e1 e2; subst e2
          show (L.slots ++ [PH.ty (.array t n), PH.len n])[L.slots.length + 1]? = _
          rw [List.getElem?_append_right (by omega)]
          have : L.slots.length + 1 - L.slots.length = 1 := by omega
          rw [this]; rfl
        · intro r as f e'; cases e'
      · exact Or.inl h'
    | prim _ | ptr _ _ | openArray _ | su _ | enum _ =>
      all_goals
        rw [addOther_simple L _ hnone rfl (fun _ _ e' => by cases e')]
        refine ⟨⟨_, rfl⟩, fun X i h => assign_mono L _ X i hnone h, fun _ => by simp [Layout.assign], ?_⟩
        intro X i h
        rcases assign_eq L _ X i h with ⟨hx, hi⟩ | h'
        · right; subst hx; subst hi
          unfold NewOk
          exact ⟨by simp, (fun _ _ e' => by cases e'), (fun _ _ _ e' => by cases e')⟩
        · exact Or.inl h'

theorem addOther_inv (L : Layout) (T : Ty) (hI : Inv L) : Inv (addOther L T) := by
  obtain ⟨⟨e, he⟩, _, _, hnew⟩ := addOther_spec L T
  exact Inv.of_ext hI e he hnew

theorem foldl_addOther (S : List Ty) (L : Layout) (hI : Inv L) :
    Inv (S.foldl addOther L) ∧
    (∀ X i, L.idx X = some i → (S.foldl addOther L).idx X = some i) ∧
    (∀ T ∈ S, T.isFunc = false → ((S.foldl addOther L).idx T).isSome = true) := by
  induction S generalizing L with
  | nil => exact ⟨hI, fun _ _ h => h, fun _ h => by cases h⟩
  | cons T rest ih =>
    obtain ⟨h1, h2, h3⟩ := ih (addOther L T) (addOther_inv L T hI)
    obtain ⟨_, m1, m2, _⟩ := addOther_spec L T
    simp only [List.foldl_cons]
    refine ⟨h1, fun X i h => h2 X i (m1 X i h), ?_⟩
    intro T' hT' hf
    rcases List.mem_cons.mp hT' with e | hm
    · subst e
      have := m2 hf
      cases hx : (addOther L T').idx T' with
      | none => simp [hx] at this
      | some i => rw [h2 T' i hx]; rfl
    · exact h3 T' hm hf

theorem layout_spec (S : List Ty) (L : Layout) (h : layout S = some L) :
    Inv L ∧ ∀ T ∈ S, (L.idx T).isSome = true := by
  unfold layout at h
  cases hf : layoutFuncs Layout.empty S with
  | none => simp [hf] at h
  | some L1 =>
    simp only [hf, Option.map_some, Option.some.injEq] at h
    subst h
    have hI1 := layoutFuncs_inv S _ L1 Inv.empty hf
    obtain ⟨h1, h2, h3⟩ := foldl_addOther S L1 hI1
    refine ⟨h1, ?_⟩
    intro T hT
    by_cases hfn : T.isFunc = true
    · have := layoutFuncs_assigns S _ L1 hf T hT hfn
      cases hx : L1.idx T with
      | none => simp [hx] at this
      | some i => rw [h2 T i hx]; rfl
    · exact h3 T hT (by simpa using hfn)

theorem renderFrom_spec (idx : Ty → Option Nat) (slots : List PH) (j : Nat) (ws : List Int)
    (h : renderFrom idx j slots = some ws) :
    ws.length = slots.length ∧
    ∀ k ph, slots[k]? = some ph → ∃ w, ws[k]? = some w ∧ render idx (j + k) ph = some w := by
  induction slots generalizing j ws with
  | nil =>
    simp only [renderFrom, Option.some.injEq] at h
    subst h
    exact ⟨rfl, fun k ph hk => by simp at hk⟩
  | cons ph rest ih =>
    simp only [renderFrom] at h
    cases hr : render idx j ph with
    | none => simp [hr] at h
    | some w =>
      cases hrest : renderFrom idx (j + 1) rest with
      | none => simp [hr, hrest] at h
      | some ws' =>
        simp only [hr, hrest, Option.some.injEq] at h
        subst h
        obtain ⟨l1, l2⟩ := ih (j + 1) ws' hrest
        refine ⟨by simp [l1], ?_⟩
        intro k ph' hk
        cases k with
        | zero =>
          simp only [List.getElem?_cons_zero, Option.some.injEq] at hk
          subst hk
          exact ⟨w, by simp, by simpa using hr⟩
        | succ k =>
          simp only [List.getElem?_cons_succ] at hk
          obtain ⟨w', a1, a2⟩ := l2 k ph' hk
          refine ⟨w', by simpa using a1, ?_⟩
          have : j + (k + 1) = j + 1 + k := by omega
          rw [this]; exact a2

/-- Everything the realisation proof needs to know about an emitted table. -/
structure Emitted (idx : Ty → Option Nat) (slots : List PH) (ws : List Int) : Prop where
  inv : Inv ⟨idx, slots⟩
  rend : ∀ k ph, slots[k]? = some ph → ∃ w, ws[k]? = some w ∧ render idx k ph = some w

theorem emitWords_emitted (S : List Ty) (ws : List Int) (idx : Ty → Option Nat)
    (h : emitWords S = some (ws, idx)) :
    ∃ slots, Emitted idx slots ws ∧ ∀ T ∈ S, (idx T).isSome = true := by
  unfold emitWords at h
  cases hl : layout S with
  | none => simp [hl] at h
  | some L =>
    simp only [hl] at h
    cases hr : renderFrom L.idx 0 L.slots with
    | none => simp [hr] at h
    | some ws' =>
      simp only [hr, Option.map_some, Option.some.injEq, Prod.mk.injEq] at h
      obtain ⟨e1, e2⟩ := h
      subst e1; subst e2
      obtain ⟨hI, hall⟩ := layout_spec S L hl
      obtain ⟨_, hrend⟩ := renderFrom_spec L.idx L.slots 0 ws' hr
      refine ⟨L.slots, ⟨hI, ?_⟩, hall⟩
      intro k ph hk
      obtain ⟨w, a1, a2⟩ := hrend k ph hk
      exact ⟨w, a1, by simpa using a2⟩

end CffiVerif.Opcode
