import CffiVerif.Model.Compare

/-!
Meaning lemmas for `Generated/CompareExprs.lean`: what the expressions
re-extracted from `cdata_richcompare` / `cdata_hash` must mean for the theorems
of `Props/C17.lean` to hold.  A change of the C source that alters one of the
expressions makes the corresponding lemma (and everything built on it) fail.
-/
namespace CffiVerif.Compare
open CffiVerif.Generated

theorem vIsPtrTest_eq (f : Nat) : CompareExprs.vIsPtrTest f = isPtrFlags f := by
  unfold CompareExprs.vIsPtrTest isPtrFlags CompareExprs.CT_PRIMITIVE_ANY
  cases h : (f &&& (CompareExprs.CT_PRIMITIVE_SIGNED ||| CompareExprs.CT_PRIMITIVE_UNSIGNED |||
    CompareExprs.CT_PRIMITIVE_CHAR ||| CompareExprs.CT_PRIMITIVE_FLOAT ||| CompareExprs.CT_PRIMITIVE_COMPLEX) == 0) <;>
    simp_all

theorem wIsPtrTest_eq (c : Bool) (f : Nat) : CompareExprs.wIsPtrTest c f = (c && isPtrFlags f) := by
  have := vIsPtrTest_eq f
  unfold CompareExprs.vIsPtrTest at this
  unfold CompareExprs.wIsPtrTest
  rw [this]

theorem hashPrimTest_eq (f : Nat) : CompareExprs.hashPrimTest f = !isPtrFlags f := by
  have := vIsPtrTest_eq f
  unfold CompareExprs.vIsPtrTest at this
  unfold CompareExprs.hashPrimTest
  rw [← this]; simp

theorem bothPtr_eq (a b : Bool) : CompareExprs.bothPtr a b = (a && b) := rfl
theorem onePtr_eq (a b : Bool) : CompareExprs.onePtr a b = (a || b) := rfl

theorem delegate_order {α} (a b : α) :
    sel CompareExprs.delegateLeft a b = a ∧ sel CompareExprs.delegateRight a b = b := by
  constructor <;> rfl

theorem hashedPointer_eq (c_data self : Nat) : CompareExprs.hashedPointer c_data self = c_data := rfl

/-- The extracted comparisons are the six orderings of the two addresses. -/
theorem addrCmp_spec (a b : Nat) :
    (addrCmp .eq a b = true ↔ a = b) ∧ (addrCmp .ne a b = true ↔ a ≠ b) ∧
    (addrCmp .lt a b = true ↔ a < b) ∧ (addrCmp .le a b = true ↔ a ≤ b) ∧
    (addrCmp .gt a b = true ↔ a > b) ∧ (addrCmp .ge a b = true ↔ a ≥ b) := by
  refine ⟨?_, ?_, ?_, ?_, ?_, ?_⟩ <;>
    simp [addrCmp, CompareExprs.cmp_Py_EQ, CompareExprs.cmp_Py_NE, CompareExprs.cmp_Py_LT,
      CompareExprs.cmp_Py_LE, CompareExprs.cmp_Py_GT, CompareExprs.cmp_Py_GE]

/-- The reflected comparison of two addresses is the same comparison. -/
theorem addrCmp_swap (op : Op) (a b : Nat) : addrCmp op.swap b a = addrCmp op a b := by
  obtain ⟨h1, h2, h3, h4, h5, h6⟩ := addrCmp_spec a b
  obtain ⟨g1, g2, g3, g4, g5, g6⟩ := addrCmp_spec b a
  rw [Bool.eq_iff_iff]
  cases op <;> simp only [Op.swap]
  · rw [h1, g1]; exact eq_comm
  · rw [h2, g2]; exact ne_comm
  · rw [h3, g5]
  · rw [h4, g6]
  · rw [h5, g3]
  · rw [h6, g4]

theorem isPtr_cdata {V} (c : CData V) (o : Nat) : (Obj.cdata o c).isPtr = c.isPtr := by
  simp [Obj.isPtr, CData.isPtr, wIsPtrTest_eq, vIsPtrTest_eq]

theorem isPtr_py {V} (v : V) (o : Nat) : (Obj.py o v).isPtr = false := by
  simp [Obj.isPtr, wIsPtrTest_eq]

theorem isPtr_flags {V} (c : CData V) : c.isPtr = isPtrFlags c.flags := vIsPtrTest_eq _

end CffiVerif.Compare
