/-
Helper lemmas about the UTF-16 model (`Model/Utf16.lean`): the bit operations of
the C loops in arithmetic form, the length of what the encoder writes, and the
two round trips.
-/
import CffiVerif.Model.Utf16
namespace CffiVerif.Utf16

open CffiVerif.Generated.CharExprs

/-! ### what the generated definitions mean
(`Generated/CharExprs.lean` is rewritten from the C source on every run; these lemmas are where a
changed test or a changed constant stops the proofs.) -/

@[simp] theorem szAstral_eq (c : Nat) : szAstral c = decide (c > 0xFFFF) := by unfold szAstral; rfl
@[simp] theorem encAstral_eq (c : Nat) : encAstral c = decide (c > 0xFFFF) := by unfold encAstral; rfl
@[simp] theorem encOutOfRange_eq (c : Nat) : encOutOfRange c = decide (c > 0x10FFFF) := by unfold encOutOfRange; rfl
@[simp] theorem encSub_eq (c : Nat) : encSub c = c - 0x10000 := by unfold encSub; rfl
@[simp] theorem encHigh_eq (o : Nat) : encHigh o = 0xD800 ||| (o >>> 10) := by unfold encHigh; rfl
@[simp] theorem encLow_eq (o : Nat) : encLow o = 0xDC00 ||| (o &&& 0x3FF) := by unfold encLow; rfl
/-- The terminator is written iff the units written so far leave room — a count of *units*
(`result - start`), not of code points. -/
@[simp] theorem encTerminator_eq (written len resultlen : Nat) :
    encTerminator written len resultlen = decide (written < resultlen) := by unfold encTerminator; rfl
@[simp] theorem copyNull_eq (resultlen len : Nat) : copyNull resultlen len = decide (resultlen > len) := by unfold copyNull; rfl
@[simp] theorem decPairCount_eq (a b : Nat) : decPairCount a b = (isHigh a && isLow b) := by
  simp [decPairCount, isHigh, isLow, Bool.and_assoc]
@[simp] theorem decHigh_next (a : Nat) : decHigh a true = isHigh a := by simp [decHigh, isHigh]
/-- On the last unit the `i < size - 1` guard keeps the loop from reading `w[size]`. -/
@[simp] theorem decHigh_last (a : Nat) : decHigh a false = false := by simp [decHigh]
@[simp] theorem decLow_eq (b : Nat) : decLow b = isLow b := by unfold decLow; rfl
@[simp] theorem decJoin_eq (a b : Nat) :
    decJoin a b = (((a &&& 0x3FF) <<< 10) ||| (b &&& 0x3FF)) + 0x10000 := by unfold decJoin; rfl

/-- The encoder's step, with the generated tests spelled out. -/
theorem encode16_cons (c : Nat) (cs : Str) :
    encode16 (c :: cs) =
      if c > 0xFFFF then
        if c > 0x10FFFF then .error .valueError
        else match encode16 cs with
          | .ok r => .ok (encHigh (encSub c) :: encLow (encSub c) :: r)
          | .error e => .error e
      else match encode16 cs with
        | .ok r => .ok (c :: r)
        | .error e => .error e := by
  rw [encode16]
  by_cases h1 : c > 0xFFFF
  · have e1 : encAstral c = true := by simp [h1]
    by_cases h2 : c > 0x10FFFF
    · have e2 : encOutOfRange c = true := by simp [h2]
      simp only [e1, e2, if_true, h1, h2]
    · have e2 : encOutOfRange c = false := by simp [h2]
      simp only [e1, e2, if_true, h1, h2, if_false, Bool.false_eq_true]
      cases encode16 cs <;> rfl
  · have e1 : encAstral c = false := by simp [h1]
    simp only [e1, h1, if_false, Bool.false_eq_true]
    cases encode16 cs <;> rfl

theorem countAstral_cons (c : Nat) (cs : Str) :
    countAstral (c :: cs) = if c > 0xFFFF then countAstral cs + 1 else countAstral cs := by
  simp [countAstral]

theorem asChar16_eq (s : Str) (resultlen : Nat) :
    asChar16 s resultlen = match encode16 s with
      | .ok u => .ok (if u.length < resultlen then u ++ [0] else u)
      | .error e => .error e := by
  unfold asChar16
  cases encode16 s <;> simp

theorem asChar32_eq (s : Str) (resultlen : Nat) :
    asChar32 s resultlen =
      if resultlen < (if resultlen > s.length then s.length + 1 else s.length) then .error .systemError
      else .ok (if resultlen > s.length then s ++ [0] else s) := by
  simp [asChar32]

theorem or_D800 (x : Nat) (hx : x < 1024) : 0xD800 ||| x = 0xD800 + x := by
  have := Nat.two_pow_add_eq_or_of_lt (i := 10) (b := x) (by omega) 54
  rw [show (2:Nat)^10 * 54 = 0xD800 from by decide] at this
  omega

theorem or_DC00 (x : Nat) (hx : x < 1024) : 0xDC00 ||| x = 0xDC00 + x := by
  have := Nat.two_pow_add_eq_or_of_lt (i := 10) (b := x) (by omega) 55
  rw [show (2:Nat)^10 * 55 = 0xDC00 from by decide] at this
  omega

theorem and_3FF (x : Nat) : x &&& 0x3FF = x % 1024 := by
  have := Nat.and_two_pow_sub_one_eq_mod x 10
  simpa using this

theorem shl10_or (a b : Nat) (hb : b < 1024) : (a <<< 10) ||| b = a * 1024 + b := by
  have := Nat.shiftLeft_add_eq_or_of_lt (i := 10) (b := b) (by omega) a
  rw [← this, Nat.shiftLeft_eq]

theorem shr10 (a : Nat) : a >>> 10 = a / 1024 := by
  rw [Nat.shiftRight_eq_div_pow]

theorem isHigh_iff (u : Nat) : isHigh u = true ↔ 0xD800 ≤ u ∧ u ≤ 0xDBFF := by simp [isHigh]
theorem isLow_iff (u : Nat) : isLow u = true ↔ 0xDC00 ≤ u ∧ u ≤ 0xDFFF := by simp [isLow]

/-- The two units written for an astral code point, in arithmetic form. -/
theorem hi_eq (c : Nat) (h1 : 0xFFFF < c) (h2 : c ≤ 0x10FFFF) :
    0xD800 ||| ((c - 0x10000) >>> 10) = 0xD800 + (c - 0x10000) / 1024 := by
  rw [shr10, or_D800 _ (by omega)]

theorem lo_eq (c : Nat) :
    0xDC00 ||| ((c - 0x10000) &&& 0x3FF) = 0xDC00 + (c - 0x10000) % 1024 := by
  rw [and_3FF, or_DC00 _ (by omega)]

/-- The value the decoder computes from a surrogate pair, in arithmetic form. -/
theorem join_eq (a b : Nat) : (((a &&& 0x3FF) <<< 10) ||| (b &&& 0x3FF)) + 0x10000
    = (a % 1024) * 1024 + b % 1024 + 0x10000 := by
  rw [and_3FF, and_3FF, shl10_or _ _ (by omega)]

theorem encode16_cons_astral (c : Nat) (cs : Str) (h1 : 0xFFFF < c) (h2 : c ≤ 0x10FFFF) :
    encode16 (c :: cs) = (match encode16 cs with
      | .ok r => .ok ((0xD800 + (c - 0x10000) / 1024) :: (0xDC00 + (c - 0x10000) % 1024) :: r)
      | .error e => .error e) := by
  rw [encode16_cons]
  have : ¬ c > 0x10FFFF := by omega
  simp only [show c > 0xFFFF from h1, if_true, this, if_false, encSub_eq, encHigh_eq, encLow_eq, hi_eq c h1 h2, lo_eq]

theorem encode16_cons_bmp (c : Nat) (cs : Str) (h1 : c ≤ 0xFFFF) :
    encode16 (c :: cs) = (match encode16 cs with
      | .ok r => .ok (c :: r)
      | .error e => .error e) := by
  rw [encode16_cons]
  have : ¬ c > 0xFFFF := by omega
  simp only [this, if_false]

theorem encode16_ok_of_valid (s : Str) (hv : ValidStr s) : ∃ u, encode16 s = .ok u := by
  induction s with
  | nil => exact ⟨[], rfl⟩
  | cons c cs ih =>
    obtain ⟨r, hr⟩ := ih (fun x hx => hv x (by simp [hx]))
    have hc : c ≤ 0x10FFFF := hv c (by simp)
    by_cases h : c ≤ 0xFFFF
    · exact ⟨_, by rw [encode16_cons_bmp c cs h, hr]⟩
    · exact ⟨_, by rw [encode16_cons_astral c cs (by omega) hc, hr]⟩

theorem encode16_length (s : Str) (u : Units) (h : encode16 s = .ok u) : u.length = size16 s := by
  induction s generalizing u with
  | nil => simp [encode16] at h; subst h; rfl
  | cons c cs ih =>
    by_cases hb : c ≤ 0xFFFF
    · rw [encode16_cons_bmp c cs hb] at h
      cases hr : encode16 cs with
      | error e => simp [hr] at h
      | ok r =>
        simp only [hr] at h
        injection h with h; subst h
        have := ih r hr
        have hn : ¬ c > 0xFFFF := by omega
        simp only [size16, countAstral_cons, List.length_cons, hn, if_false] at *
        omega
    · by_cases hv : c ≤ 0x10FFFF
      · rw [encode16_cons_astral c cs (by omega) hv] at h
        cases hr : encode16 cs with
        | error e => simp [hr] at h
        | ok r =>
          simp only [hr] at h
          injection h with h; subst h
          have := ih r hr
          have hn : c > 0xFFFF := by omega
          simp only [size16, countAstral_cons, List.length_cons, hn, if_true] at *
          omega
      · rw [encode16_cons] at h
        have h1 : c > 0xFFFF := by omega
        have h2 : c > 0x10FFFF := by omega
        simp [h1, h2] at h


theorem decodeLoop_cons_cons (a b : Nat) (rest : Units) :
    decodeLoop (a :: b :: rest) =
      if isHigh a && isLow b then
        ((((a &&& 0x3FF) <<< 10) ||| (b &&& 0x3FF)) + 0x10000) :: decodeLoop rest
      else a :: decodeLoop (b :: rest) := by
  rw [decodeLoop]; simp only [decHigh_next, decLow_eq, decJoin_eq]

theorem countPairs_cons_cons (a b : Nat) (rest : Units) :
    countPairs (a :: b :: rest) = (if isHigh a && isLow b then 1 else 0) + countPairs (b :: rest) := by
  rw [countPairs]; simp only [decPairCount_eq]

/-- A low surrogate does not start a pair. -/
theorem countPairs_cons_low (b : Nat) (rest : Units) (hb : isLow b = true) :
    countPairs (b :: rest) = countPairs rest := by
  have hnb : isHigh b = false := by
    rw [isLow_iff] at hb
    cases h : isHigh b with
    | false => rfl
    | true => rw [isHigh_iff] at h; omega
  cases rest with
  | nil => rfl
  | cons c r => rw [countPairs_cons_cons, hnb]; simp

theorem decodeLoop_eq_self (w : Units) (h : countPairs w = 0) : decodeLoop w = w := by
  induction w with
  | nil => rfl
  | cons a tl ih =>
    cases tl with
    | nil => rfl
    | cons b rest =>
      rw [countPairs_cons_cons] at h
      rw [decodeLoop_cons_cons]
      by_cases hp : (isHigh a && isLow b) = true
      · simp [hp] at h
      · simp only [hp] at h ⊢
        simp only [Bool.false_eq_true, if_false, Nat.zero_add] at h ⊢
        rw [ih h]

/-- The fast path of `_my_PyUnicode_FromChar16` agrees with its slow path. -/
theorem decode16_eq_decodeLoop (w : Units) : decode16 w = decodeLoop w := by
  unfold decode16
  split
  · next h => exact (decodeLoop_eq_self w h).symm
  · rfl

/-- `PyUnicode_New(size - count_surrogates, …)` is exactly as long as what the loop stores. -/
theorem decodeLoop_length (w : Units) : (decodeLoop w).length + countPairs w = w.length := by
  fun_induction decodeLoop w with
  | case1 => rfl
  | case2 a => rfl
  | case3 a b rest hp ih =>
    have hp' : (isHigh a && isLow b) = true := by simpa using hp
    rw [countPairs_cons_cons, hp']
    have hb : isLow b = true := by simp at hp; exact hp.2
    rw [countPairs_cons_low b rest hb]
    simp only [List.length_cons, if_true]
    omega
  | case4 a b rest hp ih =>
    rw [countPairs_cons_cons]
    have hp' : (isHigh a && isLow b) = false := by simpa using hp
    simp only [hp', List.length_cons, Bool.false_eq_true, if_false] at *
    omega

theorem noAdj_cons_cons (a b : Nat) (rest : Str) :
    noAdjacentLoneSurrogatePair (a :: b :: rest) =
      (!(isHigh a && isLow b) && noAdjacentLoneSurrogatePair (b :: rest)) := by
  rw [noAdjacentLoneSurrogatePair]

theorem noAdj_tail (a : Nat) (tl : Str) (h : noAdjacentLoneSurrogatePair (a :: tl) = true) :
    noAdjacentLoneSurrogatePair tl = true := by
  cases tl with
  | nil => rfl
  | cons b rest => rw [noAdj_cons_cons] at h; simp at h; exact h.2

/-- The first unit written for `d :: ds` is `d` itself or a high surrogate. -/
theorem encode16_head (d : Nat) (ds : Str) (r : Units) (h : encode16 (d :: ds) = .ok r) :
    ∃ b rest, r = b :: rest ∧ (isLow b = true → b = d) := by
  by_cases hb : d ≤ 0xFFFF
  · rw [encode16_cons_bmp d ds hb] at h
    cases hr : encode16 ds with
    | error e => simp [hr] at h
    | ok r' => simp only [hr] at h; injection h with h; exact ⟨d, r', h.symm, fun _ => rfl⟩
  · by_cases hv : d ≤ 0x10FFFF
    · rw [encode16_cons_astral d ds (by omega) hv] at h
      cases hr : encode16 ds with
      | error e => simp [hr] at h
      | ok r' =>
        simp only [hr] at h; injection h with h
        refine ⟨_, _, h.symm, ?_⟩
        intro hl; rw [isLow_iff] at hl; omega
    · rw [encode16_cons] at h
      have h1 : d > 0xFFFF := by omega
      have h2 : d > 0x10FFFF := by omega
      simp [h1, h2] at h

/-- Decoding what the encoder wrote gives the string back, provided the string has no
lone high surrogate directly followed by a lone low surrogate. -/
theorem decodeLoop_encode16 (s : Str) (u : Units) (hn : noAdjacentLoneSurrogatePair s = true)
    (h : encode16 s = .ok u) : decodeLoop u = s := by
  induction s generalizing u with
  | nil => simp [encode16] at h; subst h; rfl
  | cons c cs ih =>
    have hn' := noAdj_tail c cs hn
    by_cases hb : c ≤ 0xFFFF
    · rw [encode16_cons_bmp c cs hb] at h
      cases hr : encode16 cs with
      | error e => simp [hr] at h
      | ok r =>
        simp only [hr] at h; injection h with h; subst h
        have ihr := ih r hn' hr
        cases cs with
        | nil => simp [encode16] at hr; subst hr; rfl
        | cons d ds =>
          obtain ⟨b, rest, hbr, hlow⟩ := encode16_head d ds r hr
          subst hbr
          rw [decodeLoop_cons_cons]
          have hnp : (isHigh c && isLow b) = false := by
            cases hcb : (isHigh c && isLow b) with
            | false => rfl
            | true =>
              simp at hcb
              have hbd := hlow hcb.2
              subst hbd
              rw [noAdj_cons_cons] at hn
              simp [hcb.1, hcb.2] at hn
          simp only [hnp, Bool.false_eq_true, if_false, ihr]
    · by_cases hv : c ≤ 0x10FFFF
      · rw [encode16_cons_astral c cs (by omega) hv] at h
        cases hr : encode16 cs with
        | error e => simp [hr] at h
        | ok r =>
          simp only [hr] at h; injection h with h; subst h
          rw [decodeLoop_cons_cons, join_eq, ih r hn' hr]
          have h1 : isHigh (0xD800 + (c - 0x10000) / 1024) = true := by rw [isHigh_iff]; omega
          have h2 : isLow (0xDC00 + (c - 0x10000) % 1024) = true := by rw [isLow_iff]; omega
          simp only [h1, h2, Bool.and_self, if_true]
          have hj : (0xD800 + (c - 0x10000) / 1024) % 1024 * 1024 + (0xDC00 + (c - 0x10000) % 1024) % 1024 + 0x10000 = c := by
            omega
          rw [hj]
      · rw [encode16_cons] at h
        have h1 : c > 0xFFFF := by omega
        have h2 : c > 0x10FFFF := by omega
        simp [h1, h2] at h

/-- Encoding what the decoder produced gives the units back, for *every* unit
sequence (lone surrogates included). -/
theorem encode16_decodeLoop (w : Units) (hw : Units16 w) : encode16 (decodeLoop w) = .ok w := by
  fun_induction decodeLoop w with
  | case1 => rfl
  | case2 a =>
    have : a < 0x10000 := hw a (by simp)
    rw [encode16_cons_bmp a [] (by omega)]; rfl
  | case3 a b rest hp ih =>
    have ha : isHigh a = true := by simp at hp; exact hp.1
    have hb : isLow b = true := by simp at hp; exact hp.2
    rw [isHigh_iff] at ha; rw [isLow_iff] at hb
    rw [decJoin_eq, join_eq, encode16_cons_astral _ _ (by omega) (by omega),
      ih (fun x hx => hw x (by simp [hx]))]
    have e1 : 0xD800 + (a % 1024 * 1024 + b % 1024 + 0x10000 - 0x10000) / 1024 = a := by omega
    have e2 : 0xDC00 + (a % 1024 * 1024 + b % 1024 + 0x10000 - 0x10000) % 1024 = b := by omega
    simp only [e1, e2]
  | case4 a b rest hp ih =>
    have : a < 0x10000 := hw a (by simp)
    rw [encode16_cons_bmp a _ (by omega), ih (fun x hx => hw x (by simp [hx]))]

end CffiVerif.Utf16
