import CffiVerif.Model.Enum
import CffiVerif.Spec.GccEnum
import CffiVerif.Proofs.ConstExpr
import CffiVerif.Proofs.ConstExprNoWrap

/-! Helper lemmas for C10. -/
namespace CffiVerif.Enum
open CffiVerif.ConstExpr CffiVerif.CConstExpr
open CffiVerif.GccEnum (isLeaf exprOk itemsOk)

open CffiVerif.Generated in
/-! ### `build_baseinttype` as translated from model.py, in closed form -/

/-- `smallest_value >= ((-1) << (8*size-1)) and largest_value < (1 << (8*size-sign))`. -/
def fits (size sign : Nat) (lo hi : Int) : Bool :=
  decide (lo ≥ -(2 ^ (8 * size - 1) : Int)) && decide (hi < (2 ^ (8 * size - sign) : Int))

def baseOfRangeSpec (lo hi : Int) : Except Err Base :=
  if lo < 0 then
    if fits Base.int.size 1 lo hi then .ok .int
    else if fits Base.long.size 1 lo hi then .ok .long
    else .error .cdef
  else
    if fits Base.uint.size 0 lo hi then .ok .uint
    else if fits Base.ulong.size 0 lo hi then .ok .ulong
    else .error .cdef

theorem baseOfRange_def (lo hi : Int) : baseOfRange lo hi = baseOfRangeSpec lo hi := by
  have s1 : lp64Sizeof "int" = 4 := by decide
  have s2 : lp64Sizeof "long" = 8 := by decide
  have s3 : lp64Sizeof "unsigned int" = 4 := by decide
  have s4 : lp64Sizeof "unsigned long" = 8 := by decide
  have n1 : Base.ofCName "int" = some .int := by decide
  have n2 : Base.ofCName "long" = some .long := by decide
  have n3 : Base.ofCName "unsigned int" = some .uint := by decide
  have n4 : Base.ofCName "unsigned long" = some .ulong := by decide
  have p31 : pyShl (-(1 : Int)) ((8 : Int) * 4 - 1) = -2147483648 := by decide
  have p63 : pyShl (-(1 : Int)) ((8 : Int) * 8 - 1) = -9223372036854775808 := by decide
  have q31 : pyShl (1 : Int) ((8 : Int) * 4 - 1) = 2147483648 := by decide
  have q63 : pyShl (1 : Int) ((8 : Int) * 8 - 1) = 9223372036854775808 := by decide
  have q32 : pyShl (1 : Int) ((8 : Int) * 4 - 0) = 4294967296 := by decide
  have q64 : pyShl (1 : Int) ((8 : Int) * 8 - 0) = 18446744073709551616 := by decide
  unfold baseOfRange Generated.ConstExprPy.build_baseinttype baseOfRangeSpec fits
  by_cases hlo : lo < 0
  · simp only [hlo, decide_true, if_true, s1, s2, p31, p63, q31, q63, Base.size]
    by_cases a1 : lo ≥ -2147483648 <;> by_cases a2 : hi < 2147483648 <;>
      by_cases a3 : lo ≥ -9223372036854775808 <;> by_cases a4 : hi < 9223372036854775808 <;>
      simp [a1, a2, a3, a4, n1, n2]
  · simp only [hlo, decide_false, if_false, Bool.false_eq_true, s3, s4, p31, p63, q32, q64, Base.size]
    by_cases a1 : lo ≥ -2147483648 <;> by_cases a2 : hi < 4294967296 <;>
      by_cases a3 : lo ≥ -9223372036854775808 <;> by_cases a4 : hi < 18446744073709551616 <;>
      simp [a1, a2, a3, a4, n3, n4]

/-! ### gcc's minimum precision vs. range tests -/

theorem natPrec_le (a k s : Nat) (hk : 1 ≤ k) :
    (if a = 0 then 1 else Nat.log2 a + 1 + s) ≤ k + s ↔ a < 2 ^ k := by
  by_cases ha : a = 0
  · subst ha
    simp only [if_true]
    have : 0 < 2 ^ k := Nat.two_pow_pos k
    omega
  · simp only [ha, if_false]
    have := @Nat.log2_lt a k ha
    omega

theorem minPrecision_unsigned (v : Int) (hv : 0 ≤ v) (k : Nat) (hk : 1 ≤ k) :
    GccEnum.minPrecision v false ≤ k ↔ v < 2 ^ k := by
  unfold GccEnum.minPrecision
  have hneg : ¬ v < 0 := by omega
  simp only [hneg, if_false, Bool.false_eq_true]
  have h := natPrec_le v.toNat k 0 hk
  simp only [Nat.add_zero] at h
  rw [h]
  have h2 : ((2 ^ k : Nat) : Int) = (2 : Int) ^ k := by simp
  rw [← h2]
  omega

theorem minPrecision_signed (v : Int) (k : Nat) (hk : 1 ≤ k) :
    GccEnum.minPrecision v true ≤ k + 1 ↔ (-(2 ^ k : Int) ≤ v ∧ v < 2 ^ k) := by
  unfold GccEnum.minPrecision
  have h2 : ((2 ^ k : Nat) : Int) = (2 : Int) ^ k := by simp
  rw [← h2]
  by_cases hneg : v < 0
  · simp only [hneg, if_true]
    have h := natPrec_le (-v - 1).toNat k 1 hk
    rw [h]
    omega
  · simp only [hneg, if_false, if_true]
    have h := natPrec_le v.toNat k 1 hk
    rw [h]
    omega

def Base.toCType : Base → CType
  | .int => CType.int | .uint => CType.uint | .long => CType.long | .ulong => CType.ulong

/-- `build_baseinttype` chooses exactly gcc's underlying type, and fails exactly when gcc has none. -/
theorem baseType_eq (lo hi : Int) (h : lo ≤ hi) :
    GccEnum.baseType lo hi =
      (match baseOfRange lo hi with
       | .ok b => some b.toCType
       | .error _ => none) := by
  rw [baseOfRange_def]
  unfold GccEnum.baseType baseOfRangeSpec fits
  by_cases hlo : lo < 0
  · have e32 : max (GccEnum.minPrecision lo true) (GccEnum.minPrecision hi true) ≤ 32 ↔
        (-2147483648 ≤ lo ∧ hi < 2147483648) := by
      have a := minPrecision_signed lo 31 (by decide)
      have b := minPrecision_signed hi 31 (by decide)
      simp only [Nat.reduceAdd, Int.reducePow] at a b
      rw [Nat.max_le, a, b]; omega
    have e64 : max (GccEnum.minPrecision lo true) (GccEnum.minPrecision hi true) ≤ 64 ↔
        (-9223372036854775808 ≤ lo ∧ hi < 9223372036854775808) := by
      have a := minPrecision_signed lo 63 (by decide)
      have b := minPrecision_signed hi 63 (by decide)
      simp only [Nat.reduceAdd, Int.reducePow] at a b
      rw [Nat.max_le, a, b]; omega
    simp only [hlo, decide_true, if_true, e32, e64, Base.size]
    by_cases a1 : -2147483648 ≤ lo <;> by_cases a2 : hi < 2147483648 <;>
      by_cases a3 : -9223372036854775808 ≤ lo <;> by_cases a4 : hi < 9223372036854775808 <;>
      simp [a1, a2, a3, a4, Base.toCType]
  · have hlo' : 0 ≤ lo := by omega
    have hhi' : 0 ≤ hi := by omega
    have e32 : max (GccEnum.minPrecision lo false) (GccEnum.minPrecision hi false) ≤ 32 ↔
        hi < 4294967296 := by
      have a := minPrecision_unsigned lo hlo' 32 (by decide)
      have b := minPrecision_unsigned hi hhi' 32 (by decide)
      simp only [Int.reducePow] at a b
      rw [Nat.max_le, a, b]; omega
    have e64 : max (GccEnum.minPrecision lo false) (GccEnum.minPrecision hi false) ≤ 64 ↔
        hi < 18446744073709551616 := by
      have a := minPrecision_unsigned lo hlo' 64 (by decide)
      have b := minPrecision_unsigned hi hhi' 64 (by decide)
      simp only [Int.reducePow] at a b
      rw [Nat.max_le, a, b]; omega
    simp only [hlo, decide_false, if_false, e32, e64, Base.size, Bool.false_eq_true]
    have g1 : -2147483648 ≤ lo := by omega
    have g2 : -9223372036854775808 ≤ lo := by omega
    by_cases a2 : hi < 4294967296 <;> by_cases a4 : hi < 18446744073709551616 <;>
      simp [g1, g2, a2, a4, Base.toCType]

/-! ### min / max of the value list -/

theorem listMin_le (m : Int) (xs : List Int) : listMin m xs ≤ m ∧ ∀ x ∈ xs, listMin m xs ≤ x := by
  induction xs generalizing m with
  | nil => simp [listMin]
  | cons y ys ih =>
    simp only [listMin]
    have := ih (if y < m then y else m)
    by_cases hym : y < m <;> simp only [hym, if_true, if_false] at this ⊢
    all_goals
      constructor
      · omega
      · intro x hx
        rcases List.mem_cons.mp hx with rfl | hx
        · omega
        · exact this.2 x hx

theorem le_listMax (m : Int) (xs : List Int) : m ≤ listMax m xs ∧ ∀ x ∈ xs, x ≤ listMax m xs := by
  induction xs generalizing m with
  | nil => simp [listMax]
  | cons y ys ih =>
    simp only [listMax]
    have := ih (if y > m then y else m)
    by_cases hym : y > m <;> simp only [hym, if_true, if_false] at this ⊢
    all_goals
      constructor
      · omega
      · intro x hx
        rcases List.mem_cons.mp hx with rfl | hx
        · omega
        · exact this.2 x hx

theorem range_le (vals : List Int) : (range vals).1 ≤ (range vals).2 := by
  cases vals with
  | nil => simp [range]
  | cons v vs =>
    simp only [range]
    have := (listMin_le v vs).1
    have := (le_listMax v vs).1
    omega

/-! ### value -> name dictionary -/

theorem find?_filter_ne (d : List (Int × String)) (k k' : Int) (h : ¬ k = k') :
    (d.filter (fun p => p.1 != k')).find? (fun p => p.1 == k) = d.find? (fun p => p.1 == k) := by
  induction d with
  | nil => rfl
  | cons p ps ih =>
    by_cases hp : p.1 = k'
    · have hk : (p.1 == k) = false := by
        simp only [beq_eq_false_iff_ne, ne_eq]; rw [hp]; exact fun e => h e.symm
      have hf : (p.1 != k') = false := by simp [hp]
      rw [List.filter_cons_of_neg (by simp [hf]), List.find?_cons, hk, ih]
    · have hf : (p.1 != k') = true := by simp [hp]
      rw [List.filter_cons_of_pos (p := fun p : Int × String => p.1 != k') hf,
        List.find?_cons, List.find?_cons, ih]

theorem dictGet_dictSet (d : List (Int × String)) (k k' : Int) (n : String) :
    dictGet (dictSet d k' n) k = if k = k' then some n else dictGet d k := by
  unfold dictGet dictSet
  by_cases h : k = k'
  · subst h; simp
  · have hb : ((k', n).1 == k) = false := by
      simp only [beq_eq_false_iff_ne, ne_eq]; exact fun e => h e.symm
    rw [List.find?_cons, hb, find?_filter_ne d k k' h]
    simp [h]

theorem valueToName_cons (e : String × Int) (es : List (String × Int)) :
    valueToName (e :: es) = dictSet (valueToName es) e.2 e.1 := by
  simp [valueToName, List.foldl_append]

theorem dictGet_valueToName (es : List (String × Int)) (v : Int) :
    dictGet (valueToName es) v = (es.find? (fun e => e.2 == v)).map (·.1) := by
  induction es with
  | nil => rfl
  | cons e es ih =>
    rw [valueToName_cons, dictGet_dictSet, ih]
    by_cases h : v = e.2
    · subst h; simp
    · have : ¬ e.2 = v := fun x => h x.symm
      simp [h, this]

/-! ### enumerator values: cffi's loop vs. gcc's -/

open CffiVerif.GccEnum in
def CItem.toModel (it : GccEnum.CItem) : Item := ⟨it.name, it.value.map CExpr.toModel⟩

/-- Both scopes know the same names, with the same values. -/
def EnvSame (cenv : CConstExpr.Env) (penv : ConstExpr.Env) : Prop :=
  ∀ n, penv n = (cenv n).map (·.2)

theorem envSame_agree {cenv : CConstExpr.Env} {penv : ConstExpr.Env} (h : EnvSame cenv penv) :
    EnvAgree cenv penv := by
  intro n t v hc
  rw [h n, hc]; rfl

/-- C09 for one explicit enumerator value. -/
theorem expr_agrees {cenv : CConstExpr.Env} {penv : ConstExpr.Env} (hsame : EnvSame cenv penv)
    (hok : EnvOk cenv) {e : CExpr} (he : exprOk cenv e = true) {t : CType} {v : Int}
    (h : CConstExpr.eval cenv e = some (t, v)) :
    ConstExpr.eval penv e.toModel = .ok v ∧ t.inRange v = true := by
  simp only [exprOk, Bool.or_eq_true] at he
  rcases he with (hl | hs) | hnw
  rotate_left
  · have := eval_agrees_aux cenv penv (envSame_agree hsame) hok _ hs t v h
    exact ⟨this.1, this.2.2⟩
  · exact ⟨eval_agrees_nowrap_aux cenv penv (envSame_agree hsame) e hnw t v h, eval_inRange cenv hok e t v h⟩
  · cases e with
    | int l =>
      simp only [CConstExpr.eval] at h
      obtain ⟨n, hv, rfl, hr⟩ := typed_some h
      exact ⟨by simpa [CExpr.toModel, ConstExpr.eval] using parseConst_render l n hv, hr⟩
    | chr c =>
      have ht : t.signed = true := by
        simp only [CConstExpr.eval] at h; unfold plainChar at h
        split at h
        · simp only [Option.some.injEq, Prod.mk.injEq] at h; rw [← h.1]; rfl
        · cases h
      have hs : allSigned cenv (.chr c) = true := by simp [allSigned, sgn, h, ht]
      have := eval_agrees_aux cenv penv (envSame_agree hsame) hok _ hs t v h
      exact ⟨this.1, this.2.2⟩
    | esc c =>
      have ht : t.signed = true := by
        simp only [CConstExpr.eval] at h; rw [escape_eq] at h
        cases hse : simpleEscape c with
        | none => simp [hse] at h
        | some n => simp [hse] at h; rw [← h.1]; rfl
      have hs : allSigned cenv (.esc c) = true := by simp [allSigned, sgn, h, ht]
      have := eval_agrees_aux cenv penv (envSame_agree hsame) hok _ hs t v h
      exact ⟨this.1, this.2.2⟩
    | pos _ => simp [isLeaf] at hl
    | neg _ => simp [isLeaf] at hl
    | ref _ => simp [isLeaf] at hl
    | bin _ _ _ => simp [isLeaf] at hl

/-- When gcc's implicit next value exists it is cffi's. -/
def NextRel (next : Option (CType × Int)) (nextP : Int) : Prop :=
  ∀ t v, next = some (t, v) → v = nextP ∧ t.inRange v = true

theorem enumeratorType_inRange {t0 : CType} {v : Int} (h : t0.inRange v = true) :
    (GccEnum.enumeratorType t0 v).inRange v = true := by
  unfold GccEnum.enumeratorType
  split
  · assumption
  · exact h

theorem nextRel_nextOf (t : CType) (v : Int) : NextRel (GccEnum.nextOf t v) (v + 1) := by
  intro t' v' h
  unfold GccEnum.nextOf at h
  split at h
  · rename_i hr
    simp only [Option.some.injEq, Prod.mk.injEq] at h
    obtain ⟨rfl, rfl⟩ := h
    exact ⟨rfl, hr⟩
  · cases h

theorem envSame_bind {cenv : CConstExpr.Env} {penv : ConstExpr.Env} (h : EnvSame cenv penv)
    (k : String) (t : CType) (v : Int) : EnvSame (GccEnum.bind cenv k (t, v)) (bind penv k v) := by
  intro n
  unfold GccEnum.bind bind
  by_cases hn : n = k
  · simp [hn]
  · simp [hn, h n]

theorem envOk_bind {cenv : CConstExpr.Env} (h : EnvOk cenv) (k : String) (t : CType) (v : Int)
    (hr : t.inRange v = true) : EnvOk (GccEnum.bind cenv k (t, v)) := by
  intro n t' v' hb
  unfold GccEnum.bind at hb
  by_cases hn : n = k
  · simp only [hn, if_true, Option.some.injEq, Prod.mk.injEq] at hb
    obtain ⟨rfl, rfl⟩ := hb; exact hr
  · simp only [hn, if_false] at hb
    exact h n t' v' hb

/-- The loop of `_build_enum_type` follows gcc's `build_enumerator` enumerator by enumerator. -/
theorem build_agrees : ∀ (items : List GccEnum.CItem) (cenv : CConstExpr.Env) (penv : ConstExpr.Env)
    (next : Option (CType × Int)) (nextP : Int),
    EnvSame cenv penv → EnvOk cenv → NextRel next nextP → itemsOk cenv next items = true →
    ∀ out, GccEnum.build cenv next items = some out →
      build penv nextP (items.map CItem.toModel) = .ok (out.map fun x => (x.1, x.2.2)) := by
  intro items
  induction items with
  | nil =>
    intro cenv penv next nextP _ _ _ _ out h
    simp only [GccEnum.build, Option.some.injEq] at h
    subst h; rfl
  | cons it rest ih =>
    intro cenv penv next nextP hsame hok hnext hitems out h
    simp only [GccEnum.build] at h
    cases hstep : GccEnum.step cenv next it with
    | none => simp [hstep] at h
    | some r =>
      obtain ⟨⟨t, v⟩, cenv', next'⟩ := r
      simp only [hstep] at h
      cases hrest : GccEnum.build cenv' next' rest with
      | none => simp [hrest] at h
      | some out' =>
        simp only [hrest, Option.some.injEq] at h
        subst h
        simp only [itemsOk, hstep, Bool.and_eq_true] at hitems
        obtain ⟨hexpr, hitems'⟩ := hitems
        -- what gcc's step did
        unfold GccEnum.step at hstep
        -- the value of this enumerator on both sides
        have hval : ∃ t0, GccEnum.valueOf cenv next it = some (t0, v) ∧ cenv it.name = none ∧
              t = GccEnum.enumeratorType t0 v ∧ cenv' = GccEnum.bind cenv it.name (t, v) ∧
              next' = GccEnum.nextOf t v := by
          cases hv : GccEnum.valueOf cenv next it with
          | none => rw [hv] at hstep; cases hstep
          | some x =>
            obtain ⟨t0, v0⟩ := x
            rw [hv] at hstep
            cases hname : cenv it.name with
            | some y => simp [hname] at hstep
            | none =>
              simp only [hname, Option.isSome_none, Bool.false_eq_true, if_false, Option.some.injEq,
                Prod.mk.injEq] at hstep
              obtain ⟨⟨rfl, rfl⟩, rfl, rfl⟩ := hstep
              exact ⟨t0, rfl, rfl, rfl, rfl, rfl⟩
        obtain ⟨t0, hv, hfresh, rfl, rfl, rfl⟩ := hval
        have hmodel : valueOf penv nextP (CItem.toModel it) = .ok v ∧ t0.inRange v = true := by
          unfold valueOf CItem.toModel
          unfold GccEnum.valueOf at hv
          cases hval : it.value with
          | none =>
            simp only [hval] at hv
            obtain ⟨rfl, hr⟩ := hnext t0 v hv
            exact ⟨rfl, hr⟩
          | some e =>
            simp only [hval] at hv hexpr
            exact expr_agrees hsame hok hexpr hv
        have hpfresh : penv it.name = none := by rw [hsame it.name, hfresh]; rfl
        have hstepM : step penv nextP (CItem.toModel it) =
            .ok (v, bind penv it.name v, v + 1) := by
          unfold step
          rw [hmodel.1]
          simp only [addConstant]
          have : (CItem.toModel it).name = it.name := rfl
          rw [this, hpfresh]
        have hrec := ih _ (bind penv it.name v) _ (v + 1)
          (envSame_bind hsame it.name _ v)
          (envOk_bind hok it.name _ v (enumeratorType_inRange hmodel.2))
          (nextRel_nextOf _ v) hitems' out' hrest
        simp only [List.map_cons, build, hstepM, hrec]
        rfl

end CffiVerif.Enum
