import CffiVerif.Proofs.CInt
import CffiVerif.Model.IntCast

/-! Meaning lemmas for `Generated/CastExprs.lean` (the regenerated expressions of the cast paths
compute what `Model/CInt.lean` says by hand) and closed forms of `Model/IntCast.lean`. -/
namespace CffiVerif.CInt
open CffiVerif.Generated
set_option linter.unusedSimpArgs false

theorem toLE_mod (k n : Nat) : toLE k (n % 256 ^ k) = toLE k n := by
  induction k generalizing n with
  | zero => rfl
  | succ k ih =>
    simp only [toLE]
    have h1 : n % 256 ^ (k + 1) % 256 = n % 256 := by
      rw [Nat.pow_succ, Nat.mul_comm]; exact Nat.mod_mul_right_mod n 256 (256 ^ k)
    have h2 : n % 256 ^ (k + 1) / 256 = (n / 256) % 256 ^ k := by
      rw [Nat.pow_succ, Nat.mul_comm, Nat.mod_mul_right_div_self]
    rw [h1, h2, ih]

theorem fromLE_lt (bs : List UInt8) : fromLE bs < 256 ^ bs.length := by
  induction bs with
  | nil => simp [fromLE]
  | cons b bs ih =>
    simp only [fromLE, List.length_cons, Nat.pow_succ]
    have := b.toNat_lt
    omega

theorem writeRawGen_eq (v : BitVec 64) (w : Width) : writeRawGen v w = writeRaw (v.toNat : Int) w := by
  have hv := v.isLt
  have e : (wrapU 64 (v.toNat : Int)).toNat = v.toNat := by simp [wrapU]; omega
  unfold writeRaw
  rw [e]
  cases w
  · have := toLE_mod 1 v.toNat
    simp [writeRawGen, CastExprs.writeTrunc8, Width.bytes] at this ⊢; exact this
  · have := toLE_mod 2 v.toNat
    simp [writeRawGen, CastExprs.writeTrunc16, Width.bytes] at this ⊢; exact this
  · have := toLE_mod 4 v.toNat
    simp [writeRawGen, CastExprs.writeTrunc32, Width.bytes] at this ⊢; exact this
  · simp [writeRawGen, CastExprs.writeTrunc64, Width.bytes]
/-- character types as they exist: a signed `wchar_t` is 4 bytes, no 8-byte character type -/
def IntType.CharWF (T : IntType) : Prop :=
  (T.kind = .swchar → T.width = .w32) ∧ (T.kind = .char → T.width ≠ .w64)

instance (T : IntType) : Decidable T.CharWF := by unfold IntType.CharWF; infer_instance

theorem sext_toInt8 (n : Nat) (h : n < 2 ^ 8) :
    (BitVec.signExtend 64 (BitVec.ofNat 8 n)).toInt = if (n : Int) < 2 ^ 7 then (n : Int) else n - 2 ^ 8 := by
  rw [BitVec.toInt_signExtend_of_le (by decide), BitVec.toInt_eq_toNat_bmod]
  simp; unfold Int.bmod; simp; omega
theorem sext_toInt16 (n : Nat) (h : n < 2 ^ 16) :
    (BitVec.signExtend 64 (BitVec.ofNat 16 n)).toInt = if (n : Int) < 2 ^ 15 then (n : Int) else n - 2 ^ 16 := by
  rw [BitVec.toInt_signExtend_of_le (by decide), BitVec.toInt_eq_toNat_bmod]
  simp; unfold Int.bmod; simp; omega
theorem sext_toInt32 (n : Nat) (h : n < 2 ^ 32) :
    (BitVec.signExtend 64 (BitVec.ofNat 32 n)).toInt = if (n : Int) < 2 ^ 31 then (n : Int) else n - 2 ^ 32 := by
  rw [BitVec.toInt_signExtend_of_le (by decide), BitVec.toInt_eq_toNat_bmod]
  simp; unfold Int.bmod; simp; omega
theorem toInt64 (n : Nat) (h : n < 2 ^ 64) :
    (BitVec.ofNat 64 n).toInt = if (n : Int) < 2 ^ 63 then (n : Int) else n - 2 ^ 64 := by
  rw [BitVec.toInt_eq_toNat_bmod]
  simp; unfold Int.bmod; simp; omega

theorem readSignedGen_eq (w : Width) (obj : List UInt8) (hl : obj.length = w.bytes) :
    (readSignedGen w obj).toInt = readRawSigned obj := by
  have hlt := fromLE_lt obj
  rw [hl] at hlt
  unfold readRawSigned
  rw [hl]
  cases w <;> simp only [Width.bytes] at hlt
  · simp only [readSignedGen, CastExprs.readSigned8]; rw [sext_toInt8 _ (by omega)]; rfl
  · simp only [readSignedGen, CastExprs.readSigned16]; rw [sext_toInt16 _ (by omega)]; rfl
  · simp only [readSignedGen, CastExprs.readSigned32]; rw [sext_toInt32 _ (by omega)]; rfl
  · simp only [readSignedGen, CastExprs.readSigned64]; rw [toInt64 _ (by omega)]; rfl

theorem readUnsignedGen_eq (w : Width) (obj : List UInt8) (hl : obj.length = w.bytes) :
    ((readUnsignedGen w obj).toNat : Int) = readRawUnsigned obj := by
  have hlt := fromLE_lt obj
  rw [hl] at hlt
  unfold readRawUnsigned
  cases w <;> simp only [Width.bytes] at hlt <;>
    simp [readUnsignedGen, CastExprs.readUnsigned8, CastExprs.readUnsigned16, CastExprs.readUnsigned32,
      CastExprs.readUnsigned64] <;> omega

theorem take_length_of_le (data : List UInt8) (n : Nat) (h : n ≤ data.length) : (data.take n).length = n := by
  simp [List.length_take]; omega

theorem bool_ite (u : Nat) (r : Int) (h : (u : Int) = r) :
    (if u = 0 then (Except.ok 0 : Except ErrKind Int) else if u = 1 then .ok 1 else .error .valueError) =
    (if r = 0 then .ok 0 else if r = 1 then .ok 1 else .error .valueError) := by
  subst h
  by_cases h0 : u = 0
  · simp [h0]
  · by_cases h1 : u = 1
    · simp [h1]
    · have e0 : ¬ (u : Int) = 0 := by omega
      have e1 : ¬ (u : Int) = 1 := by omega
      simp [h0, h1, e0, e1]

/-- `int(cdata)` through the generated reads is `readInt` -/
theorem cdataToInt_eq_readInt (T : IntType) (hwf : T.CharWF) (data : List UInt8) (hl : T.bytes ≤ data.length) :
    cdataToInt T data = readInt T data := by
  have hlen := take_length_of_le data T.bytes hl
  rcases T with ⟨n, w, k⟩
  simp only [IntType.bytes] at hlen hl
  cases k
  · simp only [cdataToInt, readInt, IntType.bytes]
    rw [readSignedGen_eq w _ hlen]
  · simp only [cdataToInt, readInt, IntType.bytes]
    rw [readUnsignedGen_eq w _ hlen]
  · exact bool_ite _ _ (readUnsignedGen_eq w _ hlen)
  · have hw := hwf.2 rfl
    have hlt := fromLE_lt (List.take w.bytes data)
    rw [hlen] at hlt
    cases w <;> simp only [Width.bytes] at hlt
    · simp [cdataToInt, readInt, IntType.bytes, Width.bytes, CastExprs.charRead8, readRawUnsigned, BitVec.toInt_eq_toNat_bmod, Int.bmod]; omega
    · simp [cdataToInt, readInt, IntType.bytes, Width.bytes, CastExprs.charRead16, readRawUnsigned, BitVec.toInt_eq_toNat_bmod, Int.bmod]; omega
    · simp [cdataToInt, readInt, IntType.bytes, Width.bytes, CastExprs.charRead32, readRawUnsigned, BitVec.toInt_eq_toNat_bmod, Int.bmod]; omega
    · exact absurd rfl hw
  · have hw := hwf.1 rfl
    simp only at hw; subst hw
    have hlen4 : (List.take 4 data).length = 4 := hlen
    have hlt := fromLE_lt (List.take 4 data)
    rw [hlen4] at hlt
    show Except.ok (CastExprs.swcharRead32 (BitVec.ofNat 32 (fromLE (List.take 4 data)))).toInt =
      Except.ok (readRawSigned (List.take 4 data))
    unfold readRawSigned CastExprs.swcharRead32
    rw [hlen4, sext_toInt32 _ (by omega)]

/-- sources as they exist: a code point of a Python str, an address of the machine -/
def CastSrc.WF : CastSrc → Prop
  | .str cps => ∀ cp ∈ cps, cp ≤ 0x10FFFF
  | .ptr a => a < 2 ^ 64
  | _ => True

theorem pyLongToULL_mask (v : Int) : pyLongToULL v false = .ok (BitVec.ofInt 64 (v % 2 ^ 64)) := by
  simp [pyLongToULL, callPyLongULL, CastExprs.ullCalls, pyLongAsUnsignedLongLongMask]

theorem ofInt_toNat_mod (v : Int) : ((BitVec.ofInt 64 (v % 2 ^ 64)).toNat : Int) % 2 ^ 64 = v % 2 ^ 64 := by
  simp [BitVec.toNat_ofInt]; omega

/-- the written bytes read back as the wrapped `value` (non-`_Bool`) -/
theorem castInt_of_value (T : IntType) (hb : T.kind ≠ .bool) (hwf : T.CharWF) (src : CastSrc) (value : BitVec 64)
    (hv : castValue T src = .ok value) : castInt T src = .ok (T.wrap value.toNat) := by
  simp only [castInt, CInt.cast, hv, hb, if_false, writeRawGen_eq]
  rw [cdataToInt_eq_readInt T hwf _ (by rw [writeRaw_length]; exact Nat.le_refl _)]
  exact readInt_writeRaw_wrap T hb _

theorem castValue_congr (T : IntType) (hb : T.kind ≠ .bool) (src : CastSrc) (hwf : src.WF) (x : Int)
    (hx : src.trunc = some x) :
    ∃ value, castValue T src = .ok value ∧ (value.toNat : Int) % 2 ^ 64 = x % 2 ^ 64 := by
  have hstrict : CastExprs.castStrict = false := rfl
  cases src with
  | int v =>
    cases hx
    exact ⟨_, by simp [castValue, hb, asULL, hstrict, pyLongToULL_mask], ofInt_toNat_mod _⟩
  | bool b =>
    cases hx
    exact ⟨_, by simp [castValue, hb, asULL, hstrict, pyLongToULL_mask], ofInt_toNat_mod _⟩
  | float f =>
    cases f with
    | finite m e =>
      cases hx
      exact ⟨_, by simp [castValue, hb, asULL, hstrict, pyLongToULL_mask, CastExprs.ullRefuses, CastSrc.nbInt,
        FloatVal.toInt, Except.map, CastSrc.isCDataOrFloat], ofInt_toNat_mod _⟩
    | inf n => simp [CastSrc.trunc] at hx
    | nan => simp [CastSrc.trunc] at hx
  | cdataFloat f =>
    cases f with
    | finite m e =>
      cases hx
      exact ⟨_, by simp [castValue, hb, asULL, hstrict, pyLongToULL_mask, CastExprs.ullRefuses, CastSrc.nbInt,
        FloatVal.toInt, Except.map, CastSrc.isCDataOrFloat], ofInt_toNat_mod _⟩
    | inf n => simp [CastSrc.trunc] at hx
    | nan => simp [CastSrc.trunc] at hx
  | bytes bs =>
    match bs, hx with
    | [b], hx =>
      cases hx
      refine ⟨_, rfl, ?_⟩
      have := b.toNat_lt
      simp [CastExprs.bytesValue]
      try omega
  | str cps =>
    match cps, hx with
    | [cp], hx =>
      cases hx
      have hcp : cp ≤ 0x10FFFF := hwf cp (by simp)
      by_cases hk : T.kind = .swchar
      · refine ⟨CastExprs.swcharValue (BitVec.ofNat 32 cp), by simp [castValue, hk], ?_⟩
        have hm : (BitVec.ofNat 32 cp).msb = false := by
          simp [BitVec.msb_eq_decide]; omega
        simp [CastExprs.swcharValue, BitVec.toNat_signExtend, hm]; omega
      · refine ⟨CastExprs.charValue (BitVec.ofNat 32 cp), by simp [castValue, hk], ?_⟩
        simp [CastExprs.charValue]; omega
  | ptr a =>
    cases hx
    refine ⟨_, rfl, ?_⟩
    simp [CastSrc.WF] at hwf
    simp [CastExprs.ptrValue]
  | cdataInt S bs =>
    simp only [CastSrc.trunc] at hx
    cases hc : cdataToInt S bs with
    | error e => simp [hc] at hx
    | ok v =>
      simp [hc] at hx; subst hx
      exact ⟨_, by simp [castValue, hb, asULL, hstrict, pyLongToULL_mask, CastExprs.ullRefuses, CastSrc.nbInt,
        hc, Except.map, CastSrc.isCDataOrFloat], ofInt_toNat_mod _⟩
  | cdataOther => simp [CastSrc.trunc] at hx
  | obj h i f =>
    match i, hx with
    | some (.int v), hx =>
      cases hx
      exact ⟨_, by simp [castValue, hb, asULL, hstrict, pyLongToULL_mask, CastExprs.ullRefuses, CastSrc.nbInt,
        CastSrc.isCDataOrFloat], ofInt_toNat_mod _⟩
  | noNumber => simp [CastSrc.trunc] at hx

/-- closed form of `int(ffi.cast(T, x))` for the non-`_Bool` types -/
theorem castInt_eq_wrap (T : IntType) (hb : T.kind ≠ .bool) (hT : T.CharWF) (src : CastSrc) (hwf : src.WF)
    (x : Int) (hx : src.trunc = some x) : castInt T src = .ok (T.wrap x) := by
  obtain ⟨value, hv, hc⟩ := castValue_congr T hb src hwf x hx
  rw [castInt_of_value T hb hT src value hv, wrap_congr T _ x hc]

theorem boolNormalize_eq (v : BitVec 64) : CastExprs.boolNormalize v = if v = 0#64 then 0#64 else 1#64 := by
  simp [CastExprs.boolNormalize]

theorem bool_charWF (T : IntType) (hb : T.kind = .bool) : T.CharWF := by
  constructor <;> intro h <;> rw [hb] at h <;> cases h

/-- `_Bool`: the cast yields 0/1 according to `value ≠ 0` -/
theorem castInt_bool_of_value (T : IntType) (hb : T.kind = .bool) (src : CastSrc) (value : BitVec 64)
    (hv : castValue T src = .ok value) : castInt T src = .ok (if value = 0#64 then 0 else 1) := by
  have hT : T.isInt = true := by simp [IntType.isInt, hb]
  simp only [castInt, CInt.cast, hv, hb, if_true, writeRawGen_eq, boolNormalize_eq]
  rw [cdataToInt_eq_readInt T (bool_charWF T hb) _ (by rw [writeRaw_length]; exact Nat.le_refl _)]
  have ht : ∀ x : Int, (writeRaw x T.width).take T.bytes = writeRaw x T.width := fun x =>
    List.take_of_length_le (by rw [writeRaw_length]; exact Nat.le_refl _)
  by_cases h0 : value = 0#64
  · simp only [h0, if_true]
    exact readInt_writeRaw T hT 0 (by simp [IntType.InRange, IntType.lo, IntType.hi, hb]) _ (ht 0)
  · simp only [h0, if_false]
    exact readInt_writeRaw T hT 1 (by simp [IntType.InRange, IntType.lo, IntType.hi, hb]) _ (ht 1)

theorem asBoolLong_signBV (v : Int) : CastExprs.asBoolLong (signBV v) = if v = 0 then 0#32 else 1#32 := by
  unfold signBV CastExprs.asBoolLong
  by_cases h1 : v < 0
  · have : ¬ v = 0 := by omega
    simp [h1, this]
  · by_cases h2 : v = 0
    · simp [h2]
    · simp [h1, h2]

theorem boolResValue_ite (c : Prop) [Decidable c] :
    CastExprs.boolResValue (if c then 0#32 else 1#32) = if c then 0#64 else 1#64 := by
  by_cases h : c <;> simp [h, CastExprs.boolResValue]

theorem floatRes (f : FloatVal) : (if f.nonzero = true then 1#32 else 0#32) = if f.nonzero = false then 0#32 else 1#32 := by
  cases f.nonzero <;> rfl

/-- the sources that reach `_my_PyObject_AsBool` / `_my_PyLong_AsUnsignedLongLong` in the cast -/
def CastSrc.viaObject : CastSrc → Bool
  | .ptr _ | .str _ | .bytes _ => false
  | _ => true

/-- `_my_PyObject_AsBool` returns 0/1 by non-zeroness for every source the `_Bool` cast accepts
(other than the pointer / str / bytes sources, handled before it) -/
theorem asBool_eq (src : CastSrc) (b : Bool) (hn : src.nonzero = some b)
    (hsrc : src.viaObject = true) :
    asBool src = .ok (if b = false then 0#32 else 1#32) := by
  cases src with
  | int v => cases hn; simp [asBool, asBoolLong_signBV]
  | bool c => cases hn; cases b <;> simp [asBool, asBoolLong_signBV]
  | float f => cases hn; simp [asBool, floatRes]
  | cdataFloat f => cases hn; simp [asBool, floatRes]
  | bytes _ => simp [CastSrc.viaObject] at hsrc
  | str _ => simp [CastSrc.viaObject] at hsrc
  | ptr _ => simp [CastSrc.viaObject] at hsrc
  | cdataInt S bs =>
    simp only [CastSrc.nonzero] at hn
    cases hc : cdataToInt S bs with
    | error e => simp [hc] at hn
    | ok v =>
      simp [hc] at hn; subst hn
      simp [asBool, CastExprs.asBoolRefuses, CastExprs.asBoolUsesFloat, CastExprs.asBoolAcceptsResult, CastSrc.nbInt,
        CastSrc.nbFloat, CastSrc.isCData, hc, Except.map, asBoolLong_signBV]
  | cdataOther => simp [CastSrc.nonzero] at hn
  | obj h i f =>
    match i, f, hn with
    | _, some (.float g), hn =>
      cases hn
      simp [asBool, CastExprs.asBoolRefuses, CastExprs.asBoolUsesFloat, CastExprs.asBoolAcceptsResult, CastSrc.nbInt,
        CastSrc.nbFloat, CastSrc.isCData, floatRes]
    | _, some (.int v), hn =>
      cases hn
      simp [asBool, CastExprs.asBoolRefuses, CastExprs.asBoolUsesFloat, CastExprs.asBoolAcceptsResult, CastSrc.nbInt,
        CastSrc.nbFloat, CastSrc.isCData, asBoolLong_signBV]
    | some (.int v), none, hn =>
      cases hn
      simp [asBool, CastExprs.asBoolRefuses, CastExprs.asBoolUsesFloat, CastExprs.asBoolAcceptsResult, CastSrc.nbInt,
        CastSrc.nbFloat, CastSrc.isCData, asBoolLong_signBV]
    | some (.float g), none, hn =>
      cases hn
      simp [asBool, CastExprs.asBoolRefuses, CastExprs.asBoolUsesFloat, CastExprs.asBoolAcceptsResult, CastSrc.nbInt,
        CastSrc.nbFloat, CastSrc.isCData, floatRes]
  | noNumber => simp [CastSrc.nonzero] at hn

end CffiVerif.CInt
