import CffiVerif.Model.UniqueCache

/-!
Invariants of the `UniqueCache` transition system (used by `Props/C27.lean`).
-/
namespace CffiVerif.UniqueCache

/-- array lengths are non-negative `Py_ssize_t` values -/
def ShapeOk : Shape → Prop
  | .arr _ (some n) => n < 2 ^ 63
  | _ => True

theorem live_def (s : State) (a : Nat) (o : Obj) :
    s.live a = some o ↔ s.heap a = some o ∧ o.clearing = false := by
  unfold State.live; split <;> simp_all <;> grind

theorem map_obj_inj {l1 l2 : List Nat} (h : l1.map Word.obj = l2.map Word.obj) : l1 = l2 := by
  induction l1 generalizing l2 with
  | nil => cases l2 <;> simp_all
  | cons x xs ih =>
    cases l2 with
    | nil => simp at h
    | cons y ys =>
      simp only [List.map_cons, List.cons.injEq, Word.obj.injEq] at h
      rw [h.1, ih h.2]

/-- **The key determines the shape** (for shapes whose array length fits a `Py_ssize_t`). -/
theorem keyOf_inj {sh1 sh2 : Shape} {k : Key} (o1 : ShapeOk sh1) (o2 : ShapeOk sh2)
    (h1 : keyOf sh1 = some k) (h2 : keyOf sh2 = some k) : sh1 = sh2 := by
  have h : keyOf sh1 = keyOf sh2 := h1.trans h2.symm
  cases sh1 with
  | prim i => cases sh2 <;> simp [keyOf] at h ⊢; exact h
  | void => cases sh2 <;> simp [keyOf] at h ⊢
  | ptr c => cases sh2 <;> simp [keyOf] at h ⊢; exact h
  | agg => simp [keyOf] at h1
  | arr p1 l1 =>
    cases sh2 <;> simp [keyOf] at h ⊢
    rename_i p2 l2
    refine ⟨h.1, ?_⟩
    have hl := h.2
    cases l1 <;> cases l2 <;> simp only [lenWord, Word.int.injEq, ShapeOk] at hl o1 o2
    · rfl
    · omega
    · omega
    · rw [hl]
  | func r1 a1 e1 b1 =>
    cases sh2 <;> simp [keyOf] at h ⊢
    rename_i r2 a2 e2 b2
    obtain ⟨hr, hf, _, ha⟩ := h
    have hb : b1 = b2 := by cases e1 <;> cases e2 <;> simp at hf <;> omega
    have he : e1 = e2 := by subst hb; cases e1 <;> cases e2 <;> simp at hf <;> first | rfl | omega
    exact ⟨hr, map_obj_inj ha, he, hb⟩

structure Inv (s : State) : Prop where
  dom : ∀ a o, s.heap a = some o → a ∈ s.dom
  /-- a live weak reference in the cache points to a live object registered under that key -/
  sound : ∀ k a, s.cache k = some (some a) → ∃ o, s.heap a = some o ∧ o.clearing = false ∧ o.key = some k
  /-- every live object that has a key is found under it -/
  complete : ∀ a o k, s.heap a = some o → o.clearing = false → o.key = some k → s.cache k = some (some a)
  keyok : ∀ a o, s.heap a = some o → o.key = keyOf o.shape ∧ ShapeOk o.shape
  /-- the children of every allocated ctype (even one being deallocated) are live -/
  kids : ∀ a o, s.heap a = some o → ∀ c ∈ children o.shape, ∃ oc, s.live c = some oc

theorem inv_init : Inv init := by
  constructor <;> simp [init]

theorem liveAll_mem {s : State} {l : List Nat} {os : List Obj} (h : liveAll s l = some os) :
    ∀ c ∈ l, ∃ oc, s.live c = some oc := by
  induction l generalizing os with
  | nil => intro c hc; simp at hc
  | cons a rest ih =>
    intro c hc
    simp only [liveAll] at h
    cases ha : s.live a with
    | none => simp [ha] at h
    | some oa =>
      cases hr : liveAll s rest with
      | none => simp [ha, hr] at h
      | some ors =>
        simp only [List.mem_cons] at hc
        rcases hc with rfl | hc
        · exact ⟨oa, ha⟩
        · exact ih hr c hc

/-- What a successful validation guarantees about the shape that will be stored. -/
theorem validate_ok {s : State} {sh sh' : Shape} {d : Desc} (h : validate s sh = .ok (sh', d)) :
    (∀ c ∈ children sh', ∃ oc, s.live c = some oc) ∧ ShapeOk sh' ∧ (sh' = .agg ↔ sh = .agg) := by
  cases sh with
  | prim i => simp [validate] at h; obtain ⟨rfl, _⟩ := h; simp [children, ShapeOk]
  | void => simp [validate] at h; obtain ⟨rfl, _⟩ := h; simp [children, ShapeOk]
  | agg => simp [validate] at h; obtain ⟨rfl, _⟩ := h; simp [children, ShapeOk]
  | ptr c =>
    simp only [validate] at h
    split at h
    · rename_i oc hc
      simp at h; obtain ⟨rfl, _⟩ := h
      simp [children, ShapeOk, hc]
    · simp at h
  | arr p len =>
    simp only [validate] at h
    split at h
    · simp at h
    · rename_i op hp
      split at h
      · split at h
        · simp at h
        · split at h
          · simp at h
          · simp at h
          · split at h
            · split at h
              · rename_i n hn
                simp at h; obtain ⟨rfl, _⟩ := h
                simp [children, ShapeOk, hp, hn]
              · simp at h
            · simp at h; obtain ⟨rfl, _⟩ := h
              simp [children, ShapeOk, hp]
      · simp at h
  | func r args e abi =>
    simp only [validate] at h
    split at h
    · rename_i or_ oargs hr hargs
      split at h
      · simp at h
      · split at h
        · simp at h
        · split at h
          · rename_i odargs hd
            simp at h; obtain ⟨rfl, _⟩ := h
            refine ⟨?_, by simp [ShapeOk], by simp⟩
            intro c hc
            simp only [children, List.mem_cons] at hc
            rcases hc with rfl | hc
            · exact ⟨or_, hr⟩
            · exact liveAll_mem hd c hc
          · simp at h
    · simp at h

theorem live_setObj (s : State) (a b : Nat) (o : Obj) :
    (s.setObj a o).live b = if b = a then (if o.clearing then none else some o) else s.live b := by
  simp only [State.live, State.setObj]
  by_cases hba : b = a
  · simp [hba]
  · simp [hba]

/-- Changing only the reference count of an object. -/
theorem inv_setRefs {s : State} (h : Inv s) {a : Nat} {o : Obj} (ha : s.heap a = some o) (n : Nat) :
    Inv (s.setObj a { o with refs := n }) := by
  constructor
  · intro b ob hb
    simp only [State.setObj] at hb ⊢
    by_cases hba : b = a
    · subst hba; exact h.dom b o ha
    · rw [if_neg hba] at hb; exact h.dom b ob hb
  · intro k b hk
    simp only [State.setObj] at hk ⊢
    obtain ⟨ob, hb, hc, hkey⟩ := h.sound k b hk
    by_cases hba : b = a
    · subst hba; rw [ha] at hb; simp at hb; subst hb
      exact ⟨{ o with refs := n }, by simp, hc, hkey⟩
    · exact ⟨ob, by simp [hba, hb], hc, hkey⟩
  · intro b ob k hb hc hk
    simp only [State.setObj] at hb ⊢
    by_cases hba : b = a
    · subst hba; simp at hb; subst hb
      exact h.complete b o k ha hc hk
    · rw [if_neg hba] at hb; exact h.complete b ob k hb hc hk
  · intro b ob hb
    simp only [State.setObj] at hb
    by_cases hba : b = a
    · subst hba; simp at hb; subst hb; exact h.keyok b o ha
    · rw [if_neg hba] at hb; exact h.keyok b ob hb
  · intro b ob hb c hc
    simp only [State.setObj] at hb
    have key : ∃ oc, s.live c = some oc := by
      by_cases hba : b = a
      · subst hba; simp at hb; subst hb; exact h.kids b o ha c hc
      · rw [if_neg hba] at hb; exact h.kids b ob hb c hc
    obtain ⟨oc, hoc⟩ := key
    rw [live_setObj]
    by_cases hca : c = a
    · subst hca
      have := (live_def s c oc).mp hoc
      rw [ha] at this; simp at this
      obtain ⟨rfl, hcl⟩ := this
      simp [hcl]
    · simp [hca, hoc]

/-- Adding a new object at an unused address, registered under its key (if any). -/
theorem inv_insert {s : State} (h : Inv s) {res : Nat} {o : Obj} (hfree : s.heap res = none)
    (hclear : o.clearing = false) (hkey : o.key = keyOf o.shape) (hok : ShapeOk o.shape)
    (hkids : ∀ c ∈ children o.shape, ∃ oc, s.live c = some oc)
    (hmiss : ∀ k, o.key = some k → ∀ a, s.cache k ≠ some (some a)) :
    Inv (s.insert res o) := by
  have live_old : ∀ c oc, s.live c = some oc → (s.insert res o).live c = some oc := by
    intro c oc hc
    have hh := (live_def s c oc).mp hc
    have hne : c ≠ res := by intro e; subst e; rw [hfree] at hh; simp at hh
    rw [live_def]; simp [State.insert, hne, hh]
  unfold State.insert at live_old ⊢
  constructor
  · intro b ob hb
    simp only at hb ⊢
    by_cases hbr : b = res
    · simp [hbr]
    · rw [if_neg hbr] at hb; simp [h.dom b ob hb]
  · intro k a hk
    simp only at hk ⊢
    by_cases hkk : some k = o.key
    · simp [hkk] at hk; subst hk
      exact ⟨o, by simp, hclear, hkk.symm⟩
    · rw [if_neg hkk] at hk
      obtain ⟨oa, hoa, hc, hkey'⟩ := h.sound k a hk
      have hne : a ≠ res := by intro e; subst e; rw [hfree] at hoa; simp at hoa
      exact ⟨oa, by simp [hne, hoa], hc, hkey'⟩
  · intro a oa k hoa hc hk
    simp only at hoa ⊢
    by_cases har : a = res
    · subst har; simp at hoa; subst hoa; simp [hk]
    · rw [if_neg har] at hoa
      have hold := h.complete a oa k hoa hc hk
      by_cases hkk : some k = o.key
      · exact absurd hold (hmiss k hkk.symm a)
      · simp [hkk, hold]
  · intro a oa hoa
    simp only at hoa
    by_cases har : a = res
    · subst har; simp at hoa; subst hoa; exact ⟨hkey, hok⟩
    · rw [if_neg har] at hoa; exact h.keyok a oa hoa
  · intro a oa hoa c hc
    simp only at hoa
    by_cases har : a = res
    · subst har; simp at hoa; subst hoa
      obtain ⟨oc, hoc⟩ := hkids c hc
      exact ⟨oc, live_old c oc hoc⟩
    · rw [if_neg har] at hoa
      obtain ⟨oc, hoc⟩ := h.kids a oa hoa c hc
      exact ⟨oc, live_old c oc hoc⟩

theorem inv_serial {s : State} (h : Inv s) (n : Nat) : Inv { s with serial := n } :=
  ⟨h.dom, h.sound, h.complete, h.keyok, h.kids⟩

theorem heap_none_of_not_isSome {s : State} {a : Nat} (h : ¬ (s.heap a).isSome = true) : s.heap a = none := by
  cases hh : s.heap a with
  | none => rfl
  | some o => simp [hh] at h

theorem inv_build {s : State} (h : Inv s) (sh : Shape) (res : Nat) : Inv (build s sh res).1 := by
  unfold build
  split
  · exact h
  · rename_i sh' d hv
    obtain ⟨hkids, hok, _⟩ := validate_ok hv
    split
    · rename_i hk
      split
      · exact h
      · rename_i hfree
        exact inv_serial (inv_insert h (heap_none_of_not_isSome hfree) rfl hk.symm hok hkids
          (by intro k hk'; simp at hk')) _
    · rename_i k hk
      split
      · rename_i a hc
        split
        · rename_i oa hoa
          split
          · exact inv_setRefs h hoa _
          · exact h
        · exact h
      · rename_i hmiss
        split
        · exact h
        · rename_i hfree
          refine inv_insert h (heap_none_of_not_isSome hfree) rfl hk.symm hok hkids ?_
          intro k' hk' a hc
          simp at hk'; subst hk'
          exact hmiss a hc

theorem inv_drop {s : State} (h : Inv s) (a : Nat) : Inv (drop s a).1 := by
  unfold drop
  split
  · rename_i o ho
    split
    · exact h
    · exact inv_setRefs h ((live_def s a o).mp ho).1 _
  · exact h

theorem hasParent_false {s : State} (h : Inv s) {a : Nat} (hp : hasParent s a = false) :
    ∀ b ob, s.heap b = some ob → a ∉ children ob.shape := by
  intro b ob hb hmem
  unfold hasParent at hp
  rw [List.any_eq_false] at hp
  have := hp b (h.dom b ob hb)
  simp [hb, hmem] at this

theorem inv_clearweak {s : State} (h : Inv s) (a : Nat) : Inv (clearweak s a).1 := by
  unfold clearweak
  split
  · rename_i o ho
    have hoa := (live_def s a o).mp ho
    split
    · exact h
    · rename_i hcond
      simp only [Bool.or_eq_true, not_or, Bool.not_eq_true] at hcond
      have hnp := hasParent_false h hcond.2
      constructor
      · intro b ob hb
        simp only [State.setObj] at hb ⊢
        by_cases hba : b = a
        · subst hba; exact h.dom b o hoa.1
        · rw [if_neg hba] at hb; exact h.dom b ob hb
      · intro k b hk
        simp only [State.setObj] at hk ⊢
        have hk' : s.cache k = some (some b) ∧ b ≠ a := by
          split at hk
          · rename_i b' hb'
            by_cases hba : b' = a
            · simp [hba] at hk
            · simp [hba] at hk; subst hk; exact ⟨hb', hba⟩
          · rename_i hne
            exact absurd hk (hne b)
        obtain ⟨ob, hb, hc, hkey⟩ := h.sound k b hk'.1
        exact ⟨ob, by simp [hk'.2, hb], hc, hkey⟩
      · intro b ob k hb hc hk
        simp only [State.setObj] at hb ⊢
        by_cases hba : b = a
        · subst hba; simp at hb; subst hb; simp at hc
        · rw [if_neg hba] at hb
          have := h.complete b ob k hb hc hk
          simp [this, hba]
      · intro b ob hb
        simp only [State.setObj] at hb
        by_cases hba : b = a
        · subst hba; simp at hb; subst hb; exact h.keyok b o hoa.1
        · rw [if_neg hba] at hb; exact h.keyok b ob hb
      · intro b ob hb c hc
        simp only [State.setObj] at hb
        have key : ∃ oc, s.live c = some oc ∧ c ≠ a := by
          by_cases hba : b = a
          · subst hba; simp at hb; subst hb
            obtain ⟨oc, hoc⟩ := h.kids b o hoa.1 c hc
            exact ⟨oc, hoc, fun e => hnp b o hoa.1 (e ▸ hc)⟩
          · rw [if_neg hba] at hb
            obtain ⟨oc, hoc⟩ := h.kids b ob hb c hc
            exact ⟨oc, hoc, fun e => hnp b ob hb (e ▸ hc)⟩
        obtain ⟨oc, hoc, hne⟩ := key
        refine ⟨oc, ?_⟩
        have := (live_def s c oc).mp hoc
        rw [live_def]
        simp [State.setObj, hne, this]
  · exact h

theorem inv_finish {s : State} (h : Inv s) (a : Nat) : Inv (finish s a).1 := by
  unfold finish
  split
  · rename_i o ho
    split
    · rename_i hcl
      -- the new cache only loses dead entries
      have sub1 : ∀ k b, (if some k = o.key ∧ s.cache k = some none then none else s.cache k) = some (some b) →
          s.cache k = some (some b) := by
        intro k b hb
        split at hb
        · simp at hb
        · exact hb
      have sub2 : ∀ k b, s.cache k = some (some b) →
          (if some k = o.key ∧ s.cache k = some none then none else s.cache k) = some (some b) := by
        intro k b hb
        rw [if_neg (by rw [hb]; simp)]
        exact hb
      constructor
      · intro b ob hb
        simp only at hb ⊢
        by_cases hba : b = a
        · simp [hba] at hb
        · rw [if_neg hba] at hb
          simp [List.mem_filter, h.dom b ob hb, hba]
      · intro k b hk
        obtain ⟨ob, hb, hc, hkey⟩ := h.sound k b (sub1 k b hk)
        have hba : b ≠ a := by intro e; subst e; rw [ho] at hb; simp at hb; subst hb; simp [hcl] at hc
        exact ⟨ob, by simp [hba, hb], hc, hkey⟩
      · intro b ob k hb hc hk
        simp only at hb
        by_cases hba : b = a
        · simp [hba] at hb
        · rw [if_neg hba] at hb
          exact sub2 k b (h.complete b ob k hb hc hk)
      · intro b ob hb
        simp only at hb
        by_cases hba : b = a
        · simp [hba] at hb
        · rw [if_neg hba] at hb; exact h.keyok b ob hb
      · intro b ob hb c hc
        simp only at hb
        by_cases hba : b = a
        · simp [hba] at hb
        · rw [if_neg hba] at hb
          obtain ⟨oc, hoc⟩ := h.kids b ob hb c hc
          have hh := (live_def s c oc).mp hoc
          have hca : c ≠ a := by intro e; subst e; rw [ho] at hh; simp at hh; obtain ⟨rfl, h2⟩ := hh; simp [hcl] at h2
          refine ⟨oc, ?_⟩
          rw [live_def]; simp [hca, hh]
    · exact h
  · exact h

theorem inv_step {s : State} (h : Inv s) (op : Op) : Inv (step s op).1 := by
  cases op with
  | build sh res => exact inv_build h sh res
  | drop a => exact inv_drop h a
  | clearweak a => exact inv_clearweak h a
  | finish a => exact inv_finish h a

theorem inv_run {s : State} (h : Inv s) (ops : List Op) : Inv (run s ops) := by
  induction ops generalizing s with
  | nil => exact h
  | cons op rest ih => exact ih (inv_step h op)

/-- **Shallow canonicity**: two live keyed ctypes built from the same children are the same object. -/
theorem canon_shallow {s : State} (h : Inv s) {a b : Nat} {oa ob : Obj}
    (ha : s.live a = some oa) (hb : s.live b = some ob)
    (hsh : oa.shape = ob.shape) (hna : oa.shape ≠ .agg) : a = b := by
  have ea := (live_def s a oa).mp ha
  have eb := (live_def s b ob).mp hb
  have ka := h.keyok a oa ea.1
  have kb := h.keyok b ob eb.1
  cases hk : keyOf oa.shape with
  | none => cases hs : oa.shape <;> simp [hs, keyOf] at hk hna
  | some k =>
    have c1 := h.complete a oa k ea.1 ea.2 (by rw [ka.1, hk])
    have c2 := h.complete b ob k eb.1 eb.2 (by rw [kb.1, ← hsh, hk])
    rw [c1] at c2; simpa using c2

/-! ### structural descriptions -/

theorem desc_ind (P : Desc → Prop)
    (hprim : ∀ i, P (.prim i)) (hvoid : P .void) (hptr : ∀ d, P d → P (.ptr d))
    (harr : ∀ d len, P d → P (.arr d len))
    (hfunc : ∀ r args e abi, P r → (∀ x ∈ args, P x) → P (.func r args e abi))
    (hop : ∀ n, P (.opaque n)) : ∀ d, P d := by
  intro d
  refine Desc.rec (motive_1 := P) (motive_2 := fun l => ∀ x ∈ l, P x) hprim hvoid (fun d ih => hptr d ih)
    (fun d len ih => harr d len ih) (fun r args e abi ihr iha => hfunc r args e abi ihr iha) hop ?_ ?_ d
  · intro x hx; simp at hx
  · intro hd tl ih1 ih2 x hx
    simp at hx
    rcases hx with rfl | hx
    · exact ih1
    · exact ih2 x hx

/-- the objects at the given addresses (allocated, possibly being deallocated) -/
def objsOf (s : State) : List Nat → Option (List Obj)
  | [] => some []
  | a :: rest =>
    match s.heap a, objsOf s rest with
    | some o, some os => some (o :: os)
    | _, _ => none

theorem liveAll_objsOf {s : State} {l : List Nat} {os : List Obj} (h : liveAll s l = some os) :
    objsOf s l = some os := by
  induction l generalizing os with
  | nil => simp [liveAll] at h; simp [objsOf, h]
  | cons a rest ih =>
    simp only [liveAll] at h
    cases ha : s.live a with
    | none => simp [ha] at h
    | some oa =>
      cases hr : liveAll s rest with
      | none => simp [ha, hr] at h
      | some ors =>
        simp [ha, hr] at h
        subst h
        simp [objsOf, ((live_def s a oa).mp ha).1, ih hr]

theorem objsOf_congr {s s' : State} (hh : s'.heap = s.heap) (l : List Nat) : objsOf s' l = objsOf s l := by
  induction l with
  | nil => rfl
  | cons a rest ih => simp only [objsOf, hh, ih]

/-- the ghost description of an object is the one its shape and its children's descriptions give -/
def DescOk (s : State) (o : Obj) : Prop :=
  match o.shape with
  | .prim i => o.gdesc = .prim i
  | .void => o.gdesc = .void
  | .ptr c => ∃ oc, s.heap c = some oc ∧ o.gdesc = .ptr oc.gdesc
  | .arr p len => ∃ op d, s.heap p = some op ∧ op.gdesc = .ptr d ∧ o.gdesc = .arr d len
  | .func r args e abi => ∃ or_ oargs, s.heap r = some or_ ∧ objsOf s args = some oargs ∧
      o.gdesc = .func or_.gdesc (oargs.map (·.gdesc)) e abi
  | .agg => ∃ n, o.gdesc = .opaque n ∧ n < s.serial

structure Deep (s : State) : Prop where
  gd : ∀ a o, s.heap a = some o → DescOk s o
  ser : ∀ a b oa ob n, s.heap a = some oa → s.heap b = some ob →
      oa.gdesc = .opaque n → ob.gdesc = .opaque n → a = b

theorem deep_init : Deep init := by
  constructor <;> simp [init]

theorem objsOf_mono {s s' : State} {l : List Nat} {os : List Obj} (h : objsOf s l = some os)
    (hm : ∀ c ∈ l, ∀ oc, s.heap c = some oc → ∃ oc', s'.heap c = some oc' ∧ oc'.gdesc = oc.gdesc) :
    ∃ os', objsOf s' l = some os' ∧ os'.map (·.gdesc) = os.map (·.gdesc) := by
  induction l generalizing os with
  | nil => simp [objsOf] at h; subst h; exact ⟨[], by simp [objsOf], rfl⟩
  | cons a rest ih =>
    simp only [objsOf] at h
    cases ha : s.heap a with
    | none => simp [ha] at h
    | some oa =>
      cases hr : objsOf s rest with
      | none => simp [ha, hr] at h
      | some ors =>
        simp [ha, hr] at h; subst h
        obtain ⟨oa', hoa', hg⟩ := hm a (by simp) oa ha
        obtain ⟨os', hos', hgs⟩ := ih hr (fun c hc => hm c (by simp [hc]))
        exact ⟨oa' :: os', by simp [objsOf, hoa', hos'], by simp [hg, hgs]⟩

theorem descOk_mono {s s' : State} {o : Obj} (h : DescOk s o)
    (hm : ∀ c ∈ children o.shape, ∀ oc, s.heap c = some oc → ∃ oc', s'.heap c = some oc' ∧ oc'.gdesc = oc.gdesc)
    (hser : o.shape = .agg → s.serial ≤ s'.serial) : DescOk s' o := by
  unfold DescOk at h ⊢
  cases hs : o.shape with
  | prim i => simpa [hs] using h
  | void => simpa [hs] using h
  | agg =>
    simp only [hs] at h ⊢
    obtain ⟨n, hn, hlt⟩ := h
    have := hser hs
    exact ⟨n, hn, by omega⟩
  | ptr c =>
    simp only [hs] at h hm ⊢
    obtain ⟨oc, hoc, hg⟩ := h
    obtain ⟨oc', hoc', hg'⟩ := hm c (by simp [children]) oc hoc
    exact ⟨oc', hoc', by rw [hg, hg']⟩
  | arr p len =>
    simp only [hs] at h hm ⊢
    obtain ⟨op, d, hop, hpd, hg⟩ := h
    obtain ⟨op', hop', hg'⟩ := hm p (by simp [children]) op hop
    exact ⟨op', d, hop', by rw [hg', hpd], hg⟩
  | func r args e abi =>
    simp only [hs] at h hm ⊢
    obtain ⟨or_, oargs, hor, hargs, hg⟩ := h
    obtain ⟨or', hor', hgr⟩ := hm r (by simp [children]) or_ hor
    obtain ⟨os', hos', hgs⟩ := objsOf_mono hargs (fun c hc => hm c (by simp [children, hc]))
    exact ⟨or', os', hor', hos', by rw [hg, hgr, hgs]⟩

/-- Updating one object without touching its description keeps `Deep`. -/
theorem deep_setObj {s : State} (h : Deep s) {a : Nat} {o o' : Obj} (ha : s.heap a = some o)
    (hsh : o'.shape = o.shape) (hg : o'.gdesc = o.gdesc) : Deep (s.setObj a o') := by
  have hm : ∀ c oc, s.heap c = some oc → ∃ oc', (s.setObj a o').heap c = some oc' ∧ oc'.gdesc = oc.gdesc := by
    intro c oc hc
    by_cases hca : c = a
    · subst hca; rw [ha] at hc; simp at hc; subst hc
      exact ⟨o', by simp [State.setObj], hg⟩
    · exact ⟨oc, by simp [State.setObj, hca, hc], rfl⟩
  have back : ∀ b ob, (s.setObj a o').heap b = some ob →
      ∃ ob0, s.heap b = some ob0 ∧ ob.shape = ob0.shape ∧ ob.gdesc = ob0.gdesc := by
    intro b ob hb
    simp only [State.setObj] at hb
    by_cases hba : b = a
    · subst hba; simp at hb; subst hb; exact ⟨o, ha, hsh, hg⟩
    · rw [if_neg hba] at hb; exact ⟨ob, hb, rfl, rfl⟩
  constructor
  · intro b ob hb
    obtain ⟨ob0, hb0, hs0, hg0⟩ := back b ob hb
    have d0 := h.gd b ob0 hb0
    have : DescOk s ob := by
      unfold DescOk at d0 ⊢
      rw [hs0, hg0]; exact d0
    exact descOk_mono this (fun c _ oc hc => hm c oc hc) (fun _ => Nat.le_refl _)
  · intro b c ob oc n hb hc gb gc
    obtain ⟨ob0, hb0, _, hg0⟩ := back b ob hb
    obtain ⟨oc0, hc0, _, hg1⟩ := back c oc hc
    exact h.ser b c ob0 oc0 n hb0 hc0 (by rw [← hg0, gb]) (by rw [← hg1, gc])

/-- only aggregates have an opaque description -/
theorem opaque_is_agg {s : State} {o : Obj} (h : DescOk s o) {n : Nat} (hn : o.gdesc = .opaque n) :
    o.shape = .agg ∧ n < s.serial := by
  unfold DescOk at h
  cases hs : o.shape with
  | agg => simp only [hs] at h; obtain ⟨m, hm, hlt⟩ := h; rw [hn] at hm; cases hm; exact ⟨rfl, hlt⟩
  | prim i => simp [hs, hn] at h
  | void => simp [hs, hn] at h
  | ptr c => simp [hs, hn] at h
  | arr p len => simp [hs, hn] at h
  | func r args e abi => simp [hs, hn] at h

theorem deep_insert {s : State} (hi : Inv s) (h : Deep s) {res : Nat} {o : Obj} (hfree : s.heap res = none)
    (ser : Nat) (hser : s.serial ≤ ser)
    (hd : DescOk { s with serial := ser } o)
    (hagg : o.shape = .agg → o.gdesc = .opaque s.serial ∧ s.serial < ser) :
    Deep { (s.insert res o) with serial := ser } := by
  have hm : ∀ c oc, s.heap c = some oc →
      ∃ oc', ({ (s.insert res o) with serial := ser } : State).heap c = some oc' ∧ oc'.gdesc = oc.gdesc := by
    intro c oc hc
    have hne : c ≠ res := by intro e; subst e; rw [hfree] at hc; simp at hc
    exact ⟨oc, by simp [State.insert, hne, hc], rfl⟩
  constructor
  · intro b ob hb
    simp only [State.insert] at hb
    by_cases hbr : b = res
    · subst hbr; simp at hb; subst hb
      exact descOk_mono hd (fun c _ oc hc => hm c oc hc) (fun _ => Nat.le_refl _)
    · rw [if_neg hbr] at hb
      exact descOk_mono (h.gd b ob hb) (fun c _ oc hc => hm c oc hc) (fun _ => hser)
  · intro b c ob oc n hb hc gb gc
    simp only [State.insert] at hb hc
    by_cases hbr : b = res <;> by_cases hcr : c = res
    · rw [hbr, hcr]
    · exfalso
      subst hbr; simp at hb; subst hb
      rw [if_neg hcr] at hc
      have h1 := opaque_is_agg hd gb
      have h2 := opaque_is_agg (h.gd c oc hc) gc
      have := (hagg h1.1).1
      rw [gb] at this; cases this
      omega
    · exfalso
      subst hcr; simp at hc; subst hc
      rw [if_neg hbr] at hb
      have h1 := opaque_is_agg hd gc
      have h2 := opaque_is_agg (h.gd b ob hb) gb
      have := (hagg h1.1).1
      rw [gc] at this; cases this
      omega
    · rw [if_neg hbr] at hb; rw [if_neg hcr] at hc
      exact h.ser b c ob oc n hb hc gb gc

/-- the description computed by `validate` is the one `DescOk` demands -/
theorem validate_desc {s : State} (h : Deep s) {sh sh' : Shape} {d : Desc}
    (hv : validate s sh = .ok (sh', d)) (k : Option Key) (r : Nat) :
    DescOk { s with serial := s.serial + 1 } { shape := sh', key := k, clearing := false, refs := r, gdesc := d } := by
  cases sh with
  | prim i => simp [validate] at hv; obtain ⟨rfl, rfl⟩ := hv; simp [DescOk]
  | void => simp [validate] at hv; obtain ⟨rfl, rfl⟩ := hv; simp [DescOk]
  | agg => simp [validate] at hv; obtain ⟨rfl, rfl⟩ := hv; simp [DescOk]
  | ptr c =>
    simp only [validate] at hv
    split at hv
    · rename_i oc hc
      simp at hv; obtain ⟨rfl, rfl⟩ := hv
      simp only [DescOk]
      exact ⟨oc, ((live_def s c oc).mp hc).1, rfl⟩
    · simp at hv
  | arr p len =>
    simp only [validate] at hv
    split at hv
    · simp at hv
    · rename_i op hp
      split at hv
      · rename_i item hps
        split at hv
        · simp at hv
        · rename_i oi hi
          have hop := ((live_def s p op).mp hp).1
          have hoi := ((live_def s item oi).mp hi).1
          have dp := h.gd p op hop
          simp only [DescOk, hps] at dp
          obtain ⟨oc, hoc, hg⟩ := dp
          rw [hoi] at hoc; simp at hoc; subst hoc
          have fin : ∀ sh'' d'', (Except.ok (Shape.arr p len, Desc.arr oi.gdesc len) : Except Err (Shape × Desc)) =
              .ok (sh'', d'') → DescOk { s with serial := s.serial + 1 }
                { shape := sh'', key := k, clearing := false, refs := r, gdesc := d'' } := by
            intro sh'' d'' he
            simp at he; obtain ⟨rfl, rfl⟩ := he
            simp only [DescOk]
            exact ⟨op, oi.gdesc, hop, hg, rfl⟩
          split at hv
          · simp at hv
          · simp at hv
          · split at hv
            · split at hv
              · exact fin _ _ hv
              · simp at hv
            · exact fin _ _ hv
      · simp at hv
  | func r0 args e abi =>
    simp only [validate] at hv
    split at hv
    · rename_i or_ oargs hr hargs
      split at hv
      · simp at hv
      · split at hv
        · simp at hv
        · split at hv
          · rename_i odargs hd
            simp at hv; obtain ⟨rfl, rfl⟩ := hv
            simp only [DescOk]
            exact ⟨or_, odargs, ((live_def s r0 or_).mp hr).1,
              (objsOf_congr (s := s) (s' := { s with serial := s.serial + 1 }) rfl _).trans (liveAll_objsOf (s := s) hd), rfl⟩
          · simp at hv
    · simp at hv

theorem deep_build {s : State} (hi : Inv s) (h : Deep s) (sh : Shape) (res : Nat) : Deep (build s sh res).1 := by
  unfold build
  split
  · exact h
  · rename_i sh' d hv
    obtain ⟨hkids, hok, hagg⟩ := validate_ok hv
    split
    · rename_i hk
      split
      · exact h
      · rename_i hfree
        have hsh : sh' = .agg := by cases sh' <;> simp [keyOf] at hk ⊢
        have hsh0 := hagg.mp hsh
        refine deep_insert hi h (heap_none_of_not_isSome hfree) (s.serial + 1) (by omega)
          (validate_desc h hv none 1) ?_
        intro _
        subst hsh0
        simp [validate] at hv
        exact ⟨hv.2.symm, by omega⟩
    · rename_i k hk
      split
      · rename_i a hc
        split
        · rename_i oa hoa
          split
          · exact deep_setObj h hoa rfl rfl
          · exact h
        · exact h
      · split
        · exact h
        · rename_i hfree
          have hna : sh' ≠ .agg := by intro e; subst e; simp [keyOf] at hk
          have := deep_insert hi h (heap_none_of_not_isSome hfree) s.serial (Nat.le_refl _)
            (o := { shape := sh', key := some k, clearing := false, refs := 1, gdesc := d })
            (descOk_mono (s' := { s with serial := s.serial }) (validate_desc h hv (some k) 1)
              (fun c _ oc hc => ⟨oc, hc, rfl⟩) (fun e => absurd e hna))
            (fun e => absurd e hna)
          exact this

theorem deep_congr {s s' : State} (hh : s'.heap = s.heap) (hs : s'.serial = s.serial) (h : Deep s) : Deep s' := by
  constructor
  · intro a o ha
    rw [hh] at ha
    exact descOk_mono (h.gd a o ha) (fun c _ oc hc => ⟨oc, by rw [hh]; exact hc, rfl⟩) (fun _ => by omega)
  · intro a b oa ob n ha hb
    rw [hh] at ha hb
    exact h.ser a b oa ob n ha hb

theorem deep_drop {s : State} (h : Deep s) (a : Nat) : Deep (drop s a).1 := by
  unfold drop
  split
  · rename_i o ho
    split
    · exact h
    · exact deep_setObj h ((live_def s a o).mp ho).1 rfl rfl
  · exact h

theorem deep_clearweak {s : State} (h : Deep s) (a : Nat) : Deep (clearweak s a).1 := by
  unfold clearweak
  split
  · rename_i o ho
    split
    · exact h
    · have := deep_setObj h ((live_def s a o).mp ho).1 (o' := { o with clearing := true }) rfl rfl
      exact deep_congr (s := s.setObj a { o with clearing := true }) rfl rfl this
  · exact h

theorem deep_finish {s : State} (hi : Inv s) (h : Deep s) (a : Nat) : Deep (finish s a).1 := by
  unfold finish
  split
  · rename_i o ho
    split
    · rename_i hcl
      constructor
      · intro b ob hb
        simp only at hb
        by_cases hba : b = a
        · simp [hba] at hb
        · rw [if_neg hba] at hb
          refine descOk_mono (h.gd b ob hb) ?_ (fun _ => Nat.le_refl _)
          intro c hc oc hoc
          -- a child of an allocated object is live, `a` is not
          obtain ⟨oc', hoc'⟩ := hi.kids b ob hb c hc
          have hh := (live_def s c oc').mp hoc'
          have hca : c ≠ a := by
            intro e; subst e; rw [ho] at hh; simp at hh; obtain ⟨rfl, h2⟩ := hh; simp [hcl] at h2
          exact ⟨oc, by simp [hca, hoc], rfl⟩
      · intro b c ob oc n hb hc gb gc
        simp only at hb hc
        by_cases hba : b = a
        · simp [hba] at hb
        · by_cases hca : c = a
          · simp [hca] at hc
          · rw [if_neg hba] at hb; rw [if_neg hca] at hc
            exact h.ser b c ob oc n hb hc gb gc
    · exact h
  · exact h

theorem deep_step {s : State} (hi : Inv s) (h : Deep s) (op : Op) : Deep (step s op).1 := by
  cases op with
  | build sh res => exact deep_build hi h sh res
  | drop a => exact deep_drop h a
  | clearweak a => exact deep_clearweak h a
  | finish a => exact deep_finish hi h a

theorem deep_run {s : State} (hi : Inv s) (h : Deep s) (ops : List Op) : Deep (run s ops) := by
  induction ops generalizing s with
  | nil => exact h
  | cons op rest ih => exact ih (inv_step hi op) (deep_step hi h op)

/-! ### canonicity with respect to the structural description -/

/-- the statement proved by induction on descriptions -/
def CanonAt (s : State) (d : Desc) : Prop :=
  ∀ a b oa ob, s.live a = some oa → s.live b = some ob → oa.gdesc = d → ob.gdesc = d → a = b

theorem args_eq {s : State} (hi : Inv s) :
    ∀ (la lb : List Nat) (osa osb : List Obj),
      objsOf s la = some osa → objsOf s lb = some osb → osa.map (·.gdesc) = osb.map (·.gdesc) →
      (∀ c ∈ la, ∃ oc, s.live c = some oc) → (∀ c ∈ lb, ∃ oc, s.live c = some oc) →
      (∀ x ∈ osa.map (·.gdesc), CanonAt s x) → la = lb := by
  intro la
  induction la with
  | nil =>
    intro lb osa osb ha hb hm _ _ _
    simp [objsOf] at ha; subst ha
    cases lb with
    | nil => rfl
    | cons y ys =>
      simp only [objsOf] at hb
      cases hy : s.heap y with
      | none => simp [hy] at hb
      | some oy =>
        cases hys : objsOf s ys with
        | none => simp [hy, hys] at hb
        | some oys => simp [hy, hys] at hb; subst hb; simp at hm
  | cons x xs ih =>
    intro lb osa osb ha hb hm hla hlb hP
    simp only [objsOf] at ha
    cases hx : s.heap x with
    | none => simp [hx] at ha
    | some ox =>
      cases hxs : objsOf s xs with
      | none => simp [hx, hxs] at ha
      | some oxs =>
        simp [hx, hxs] at ha; subst ha
        cases lb with
        | nil => simp [objsOf] at hb; subst hb; simp at hm
        | cons y ys =>
          simp only [objsOf] at hb
          cases hy : s.heap y with
          | none => simp [hy] at hb
          | some oy =>
            cases hys : objsOf s ys with
            | none => simp [hy, hys] at hb
            | some oys =>
              simp [hy, hys] at hb; subst hb
              simp only [List.map_cons, List.cons.injEq] at hm
              obtain ⟨lx, hlx⟩ := hla x (by simp)
              obtain ⟨ly, hly⟩ := hlb y (by simp)
              have ex := (live_def s x lx).mp hlx
              have ey := (live_def s y ly).mp hly
              rw [hx] at ex; rw [hy] at ey
              simp at ex ey
              obtain ⟨rfl, _⟩ := ex
              obtain ⟨rfl, _⟩ := ey
              have hxy : x = y := hP ox.gdesc (by simp) x y ox oy hlx hly rfl hm.1.symm
              have hrest := ih ys oxs oys hxs hys hm.2 (fun c hc => hla c (by simp [hc]))
                (fun c hc => hlb c (by simp [hc])) (fun d hd => hP d (by simp at hd ⊢; exact Or.inr hd))
              rw [hxy, hrest]

/-- **Canonicity for the structural description**: two live ctype objects with the same
description are the same object. -/
theorem deep_canon {s : State} (hi : Inv s) (hd : Deep s) : ∀ d, CanonAt s d := by
  have hptr : ∀ d, CanonAt s d → CanonAt s (.ptr d) := by
    intro d ih a b oa ob ha hb hga hgb
    have ea := (live_def s a oa).mp ha
    have eb := (live_def s b ob).mp hb
    have da := hd.gd a oa ea.1
    have db := hd.gd b ob eb.1
    unfold DescOk at da db
    cases hsa : oa.shape <;> simp only [hsa, hga] at da <;> first | (simp at da; done) | skip
    cases hsb : ob.shape <;> simp only [hsb, hgb] at db <;> first | (simp at db; done) | skip
    rename_i ca cb
    obtain ⟨oca, hca, hda⟩ := da
    obtain ⟨ocb, hcb, hdb⟩ := db
    try simp at hda hdb
    obtain ⟨lca, hlca⟩ := hi.kids a oa ea.1 ca (by simp [hsa, children])
    obtain ⟨lcb, hlcb⟩ := hi.kids b ob eb.1 cb (by simp [hsb, children])
    have e1 := (live_def s ca lca).mp hlca
    have e2 := (live_def s cb lcb).mp hlcb
    rw [hca] at e1; rw [hcb] at e2
    simp at e1 e2
    obtain ⟨rfl, _⟩ := e1
    obtain ⟨rfl, _⟩ := e2
    have : ca = cb := ih ca cb oca ocb hlca hlcb hda.symm hdb.symm
    subst this
    exact canon_shallow hi ha hb (by rw [hsa, hsb]) (by rw [hsa]; simp)
  intro d
  refine desc_ind (CanonAt s) ?_ ?_ hptr ?_ ?_ ?_ d
  · -- primitive
    intro i a b oa ob ha hb hga hgb
    have ea := (live_def s a oa).mp ha
    have eb := (live_def s b ob).mp hb
    have da := hd.gd a oa ea.1
    have db := hd.gd b ob eb.1
    unfold DescOk at da db
    cases hsa : oa.shape <;> simp only [hsa, hga] at da <;> first | (simp at da; done) | skip
    cases hsb : ob.shape <;> simp only [hsb, hgb] at db <;> first | (simp at db; done) | skip
    simp at da db
    exact canon_shallow hi ha hb (by rw [hsa, hsb, ← da, ← db]) (by rw [hsa]; simp)
  · -- void
    intro a b oa ob ha hb hga hgb
    have ea := (live_def s a oa).mp ha
    have eb := (live_def s b ob).mp hb
    have da := hd.gd a oa ea.1
    have db := hd.gd b ob eb.1
    unfold DescOk at da db
    cases hsa : oa.shape <;> simp only [hsa, hga] at da <;> first | (simp at da; done) | skip
    cases hsb : ob.shape <;> simp only [hsb, hgb] at db <;> first | (simp at db; done) | skip
    exact canon_shallow hi ha hb (by rw [hsa, hsb]) (by rw [hsa]; simp)
  · -- array
    intro d' len ih a b oa ob ha hb hga hgb
    have ea := (live_def s a oa).mp ha
    have eb := (live_def s b ob).mp hb
    have da := hd.gd a oa ea.1
    have db := hd.gd b ob eb.1
    unfold DescOk at da db
    cases hsa : oa.shape <;> simp only [hsa, hga] at da <;> first | (simp at da; done) | skip
    cases hsb : ob.shape <;> simp only [hsb, hgb] at db <;> first | (simp at db; done) | skip
    rename_i pa lena pb lenb
    obtain ⟨opa, dpa, hpa, hgpa, hda⟩ := da
    obtain ⟨opb, dpb, hpb, hgpb, hdb⟩ := db
    try simp at hda hdb
    obtain ⟨lpa, hlpa⟩ := hi.kids a oa ea.1 pa (by simp [hsa, children])
    obtain ⟨lpb, hlpb⟩ := hi.kids b ob eb.1 pb (by simp [hsb, children])
    have e1 := (live_def s pa lpa).mp hlpa
    have e2 := (live_def s pb lpb).mp hlpb
    rw [hpa] at e1; rw [hpb] at e2
    simp at e1 e2
    obtain ⟨rfl, _⟩ := e1
    obtain ⟨rfl, _⟩ := e2
    have : pa = pb := hptr d' ih pa pb opa opb hlpa hlpb (by rw [hgpa, hda.1]) (by rw [hgpb, hdb.1])
    subst this
    exact canon_shallow hi ha hb (by rw [hsa, hsb, ← hda.2, ← hdb.2]) (by rw [hsa]; simp)
  · -- function
    intro rd dargs e abi ihr ihargs a b oa ob ha hb hga hgb
    have ea := (live_def s a oa).mp ha
    have eb := (live_def s b ob).mp hb
    have da := hd.gd a oa ea.1
    have db := hd.gd b ob eb.1
    unfold DescOk at da db
    cases hsa : oa.shape <;> simp only [hsa, hga] at da <;> first | (simp at da; done) | skip
    cases hsb : ob.shape <;> simp only [hsb, hgb] at db <;> first | (simp at db; done) | skip
    rename_i ra argsa ela abia rb argsb elb abib
    obtain ⟨ora, oargsa, hra, hoa, hda⟩ := da
    obtain ⟨orb, oargsb, hrb, hob, hdb⟩ := db
    try simp at hda hdb
    obtain ⟨lra, hlra⟩ := hi.kids a oa ea.1 ra (by simp [hsa, children])
    obtain ⟨lrb, hlrb⟩ := hi.kids b ob eb.1 rb (by simp [hsb, children])
    have e1 := (live_def s ra lra).mp hlra
    have e2 := (live_def s rb lrb).mp hlrb
    rw [hra] at e1; rw [hrb] at e2
    simp at e1 e2
    obtain ⟨rfl, _⟩ := e1
    obtain ⟨rfl, _⟩ := e2
    have hr : ra = rb := ihr ra rb ora orb hlra hlrb hda.1.symm hdb.1.symm
    have hargs : argsa = argsb := args_eq hi argsa argsb oargsa oargsb hoa hob
      (by rw [← hda.2.1, ← hdb.2.1])
      (fun c hc => hi.kids a oa ea.1 c (by simp [hsa, children, hc]))
      (fun c hc => hi.kids b ob eb.1 c (by simp [hsb, children, hc]))
      (fun x hx => ihargs x (by rw [hda.2.1]; exact hx))
    exact canon_shallow hi ha hb (by rw [hsa, hsb, hr, hargs, ← hda.2.2.1, ← hdb.2.2.1, ← hda.2.2.2, ← hdb.2.2.2])
      (by rw [hsa]; simp)
  · -- aggregate: told apart by the serial number
    intro n a b oa ob ha hb hga hgb
    exact hd.ser a b oa ob n ((live_def s a oa).mp ha).1 ((live_def s b ob).mp hb).1 hga hgb

/-! ### the stored shape depends only on the shapes of the argument objects -/

def decayAt (s : State) (a : Nat) : Nat :=
  match s.heap a with
  | some o => decay a o
  | none => a

/-- the shape `validate` stores: function arguments of array type decay to pointers -/
def norm (s : State) : Shape → Shape
  | .func r args e abi => .func r (args.map (decayAt s)) e abi
  | sh => sh

theorem zip_decay {s : State} {args : List Nat} {oargs : List Obj} (h : liveAll s args = some oargs) :
    (args.zip oargs).map (fun ao => decay ao.1 ao.2) = args.map (decayAt s) := by
  induction args generalizing oargs with
  | nil => simp
  | cons a rest ih =>
    simp only [liveAll] at h
    cases ha : s.live a with
    | none => simp [ha] at h
    | some oa =>
      cases hr : liveAll s rest with
      | none => simp [ha, hr] at h
      | some ors =>
        simp [ha, hr] at h; subst h
        simp [decayAt, ((live_def s a oa).mp ha).1, ih hr]

theorem validate_shape {s : State} {sh sh' : Shape} {d : Desc} (h : validate s sh = .ok (sh', d)) :
    sh' = norm s sh := by
  cases sh with
  | prim i => simp [validate] at h; simp [norm, h.1]
  | void => simp [validate] at h; simp [norm, h.1]
  | agg => simp [validate] at h; simp [norm, h.1]
  | ptr c =>
    simp only [validate] at h
    split at h
    · simp at h; simp [norm, h.1]
    · simp at h
  | arr p len =>
    simp only [validate] at h
    split at h
    · simp at h
    · split at h
      · split at h
        · simp at h
        · split at h
          · simp at h
          · simp at h
          · split at h
            · split at h
              · simp at h; simp [norm, h.1]
              · simp at h
            · simp at h; simp [norm, h.1]
      · simp at h
  | func r args e abi =>
    simp only [validate] at h
    split at h
    · rename_i or_ oargs hr hargs
      split at h
      · simp at h
      · split at h
        · simp at h
        · split at h
          · simp at h
            rw [← h.1, zip_decay hargs]; rfl
          · simp at h
    · simp at h

theorem norm_congr {s s' : State} (hh : ∀ c o, s.heap c = some o → ∃ o', s'.heap c = some o' ∧ o'.shape = o.shape)
    {sh : Shape} (hall : ∀ c ∈ children sh, ∃ o, s.heap c = some o) : norm s' sh = norm s sh := by
  cases sh with
  | func r args e abi =>
    simp only [norm, Shape.func.injEq, true_and, and_true]
    apply List.map_congr_left
    intro a ha
    obtain ⟨o, ho⟩ := hall a (by simp [children, ha])
    obtain ⟨o', ho', hs⟩ := hh a o ho
    simp [decayAt, ho, ho', decay, hs]
  | _ => rfl

/-- a successful validation only mentions allocated objects -/
theorem validate_children_alloc {s : State} {sh sh' : Shape} {d : Desc} (h : validate s sh = .ok (sh', d)) :
    ∀ c ∈ children sh, ∃ o, s.heap c = some o := by
  cases sh with
  | prim i => simp [children]
  | void => simp [children]
  | agg => simp [children]
  | ptr c =>
    simp only [validate] at h
    split at h
    · rename_i oc hc
      intro c' hc'; simp [children] at hc'; subst hc'
      exact ⟨oc, ((live_def s _ oc).mp hc).1⟩
    · simp at h
  | arr p len =>
    simp only [validate] at h
    split at h
    · simp at h
    · rename_i op hp
      intro c' hc'; simp [children] at hc'; subst hc'
      exact ⟨op, ((live_def s _ op).mp hp).1⟩
  | func r args e abi =>
    simp only [validate] at h
    split at h
    · rename_i or_ oargs hr hargs
      intro c hc
      simp only [children, List.mem_cons] at hc
      rcases hc with rfl | hc
      · exact ⟨or_, ((live_def s _ or_).mp hr).1⟩
      · obtain ⟨oc, hoc⟩ := liveAll_mem hargs c hc
        exact ⟨oc, ((live_def s _ oc).mp hoc).1⟩
    · simp at h

end CffiVerif.UniqueCache
