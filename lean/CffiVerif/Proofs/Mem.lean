import CffiVerif.Model.Mem
/-! Lemmas about the flat byte memory: `write`/`read` by position, and
`memmove` (direction-choosing byte loop) = copy through a temporary. -/
namespace CffiVerif.Mem

theorem write_length {m : Bytes} {off : Nat} {bs m' : Bytes} (h : write m off bs = some m') :
    m'.length = m.length := by
  unfold write at h
  split at h
  · injection h with h; subst h
    simp only [List.length_append, List.length_take, List.length_drop]; omega
  · cases h

theorem write_isSome {m : Bytes} {off : Nat} {bs : Bytes} (h : off + bs.length ≤ m.length) :
    ∃ m', write m off bs = some m' := by
  unfold write; rw [if_pos h]; exact ⟨_, rfl⟩

/-- Position-wise description of a write. -/
theorem write_getElem? {m : Bytes} {off : Nat} {bs m' : Bytes} (h : write m off bs = some m') (i : Nat) :
    m'[i]? = if off ≤ i ∧ i < off + bs.length then bs[i - off]? else m[i]? := by
  unfold write at h
  split at h
  · rename_i hb
    injection h with h; subst h
    simp only [List.getElem?_append, List.length_append, List.length_take, List.getElem?_take,
      List.getElem?_drop]
    by_cases h1 : i < off
    · have a1 : i < min off m.length + bs.length := by omega
      have a2 : i < min off m.length := by omega
      have a3 : ¬ (off ≤ i ∧ i < off + bs.length) := by omega
      simp only [a1, a2, a3, h1, if_true, if_false]
    · by_cases h2 : i < off + bs.length
      · have a1 : i < min off m.length + bs.length := by omega
        have a2 : ¬ i < min off m.length := by omega
        have a3 : off ≤ i ∧ i < off + bs.length := by omega
        have a4 : i - min off m.length = i - off := by omega
        simp only [a1, a2, a3, a4, and_self, if_true, if_false]
      · have a1 : ¬ i < min off m.length + bs.length := by omega
        have a3 : ¬ (off ≤ i ∧ i < off + bs.length) := by omega
        have a4 : off + bs.length + (i - (min off m.length + bs.length)) = i := by omega
        simp only [a1, a3, a4, if_false]
  · cases h

theorem read_getElem? {m : Bytes} {off len : Nat} {bs : Bytes} (h : read m off len = some bs) (i : Nat) :
    bs[i]? = if i < len then m[off + i]? else none := by
  unfold read at h
  split at h
  · injection h with h; subst h
    simp only [List.getElem?_take, List.getElem?_drop]
  · cases h

theorem read_length {m : Bytes} {off len : Nat} {bs : Bytes} (h : read m off len = some bs) :
    bs.length = len := by
  unfold read at h
  split at h
  · injection h with h; subst h
    simp only [List.length_take, List.length_drop]; omega
  · cases h

/-- Reading back what was just written. -/
theorem read_write_same {m : Bytes} {off : Nat} {bs m' : Bytes} (h : write m off bs = some m') :
    read m' off bs.length = some bs := by
  have hl := write_length h
  have hb : off + bs.length ≤ m.length := by
    unfold write at h; split at h
    · assumption
    · cases h
  unfold read
  rw [if_pos (by omega)]
  congr 1
  apply List.ext_getElem?
  intro i
  simp only [List.getElem?_take, List.getElem?_drop, write_getElem? h]
  by_cases h1 : i < bs.length
  · have a : off ≤ off + i ∧ off + i < off + bs.length := by omega
    have b : off + i - off = i := by omega
    simp only [h1, a, b, and_self, if_true]
  · simp only [h1, if_false]
    exact (List.getElem?_eq_none (by omega)).symm

/-- A write does not change bytes outside `[off, off + bs.length)`. -/
theorem read_write_disjoint {m : Bytes} {off : Nat} {bs m' : Bytes} (h : write m off bs = some m')
    (o l : Nat) (hdis : o + l ≤ off ∨ off + bs.length ≤ o) : read m' o l = read m o l := by
  have hl := write_length h
  unfold read
  rw [hl]
  split
  · congr 1
    apply List.ext_getElem?
    intro i
    simp only [List.getElem?_take, List.getElem?_drop, write_getElem? h]
    by_cases h1 : i < l
    · have a : ¬ (off ≤ o + i ∧ o + i < off + bs.length) := by omega
      simp only [h1, a, if_true, if_false]
    · simp only [h1, if_false]
  · rfl

/-- Two adjacent writes are one write of the concatenation. -/
theorem write_append {m : Bytes} {off : Nat} {a b m1 m2 : Bytes} (h1 : write m off a = some m1)
    (h2 : write m1 (off + a.length) b = some m2) : write m off (a ++ b) = some m2 := by
  have l1 := write_length h1
  have l2 := write_length h2
  have hb : off + a.length + b.length ≤ m1.length := by
    unfold write at h2; split at h2
    · assumption
    · cases h2
  obtain ⟨m3, h3⟩ := write_isSome (m := m) (off := off) (bs := a ++ b)
    (by simp only [List.length_append]; omega)
  rw [h3]
  congr 1
  apply List.ext_getElem?
  intro i
  rw [write_getElem? h3, write_getElem? h2, write_getElem? h1]
  simp only [List.length_append, List.getElem?_append]
  by_cases c1 : i < off
  · have x1 : ¬ (off ≤ i ∧ i < off + (a.length + b.length)) := by omega
    have x2 : ¬ (off + a.length ≤ i ∧ i < off + a.length + b.length) := by omega
    have x3 : ¬ (off ≤ i ∧ i < off + a.length) := by omega
    simp only [x1, x2, x3, if_false]
  · by_cases c2 : i < off + a.length
    · have x1 : off ≤ i ∧ i < off + (a.length + b.length) := by omega
      have x2 : ¬ (off + a.length ≤ i ∧ i < off + a.length + b.length) := by omega
      have x3 : off ≤ i ∧ i < off + a.length := by omega
      have x4 : i - off < a.length := by omega
      simp only [x1, x2, x3, x4, and_self, if_true, if_false]
    · by_cases c3 : i < off + a.length + b.length
      · have x1 : off ≤ i ∧ i < off + (a.length + b.length) := by omega
        have x2 : off + a.length ≤ i ∧ i < off + a.length + b.length := by omega
        have x4 : ¬ i - off < a.length := by omega
        have x5 : i - off - a.length = i - (off + a.length) := by omega
        simp only [x1, x2, x4, x5, and_self, if_true, if_false]
      · have x1 : ¬ (off ≤ i ∧ i < off + (a.length + b.length)) := by omega
        have x2 : ¬ (off + a.length ≤ i ∧ i < off + a.length + b.length) := by omega
        have x3 : ¬ (off ≤ i ∧ i < off + a.length) := by omega
        simp only [x1, x2, x3, if_false]

theorem write_nil {m : Bytes} {off : Nat} (h : off ≤ m.length) : write m off [] = some m := by
  unfold write
  rw [if_pos (by simpa using h)]
  simp

theorem copyFwd_spec (n : Nat) : ∀ (m : Bytes) (dst src : Nat), dst ≤ src → dst + n ≤ m.length →
    src + n ≤ m.length →
    ∃ r, copyFwd m dst src n = some r ∧ r.length = m.length ∧
      ∀ i, r[i]? = if dst ≤ i ∧ i < dst + n then m[src + (i - dst)]? else m[i]? := by
  induction n with
  | zero =>
    intro m dst src _ _ _
    refine ⟨m, rfl, rfl, ?_⟩
    intro i
    have : ¬ (dst ≤ i ∧ i < dst + 0) := by omega
    rw [if_neg this]
  | succ n ih =>
    intro m dst src hds hd hs
    have hsrc : src < m.length := by omega
    simp only [copyFwd, List.getElem?_eq_getElem hsrc]
    have hdl : dst < m.length := by omega
    simp only [hdl, if_true]
    obtain ⟨r, hr, hlen, hget⟩ := ih (m.set dst m[src]) (dst + 1) (src + 1) (by omega)
      (by simp; omega) (by simp; omega)
    refine ⟨r, hr, by simpa using hlen, ?_⟩
    intro i
    rw [hget i]
    simp only [List.getElem?_set]
    by_cases h1 : dst + 1 ≤ i ∧ i < dst + 1 + n
    · have h2 : dst ≤ i ∧ i < dst + (n + 1) := by omega
      have h3 : ¬ dst = src + 1 + (i - (dst + 1)) := by omega
      simp only [h1, h2, h3, and_self, if_true, if_false]
      congr 1; omega
    · by_cases h4 : i = dst
      · subst h4
        have h2 : i ≤ i ∧ i < i + (n + 1) := by omega
        simp [h1, h2, hdl, List.getElem?_eq_getElem hsrc]
      · have h2 : ¬ (dst ≤ i ∧ i < dst + (n + 1)) := by omega
        have h5 : ¬ dst = i := by omega
        simp only [h1, h2, h5, if_false]

theorem copyBwd_spec (n : Nat) : ∀ (m : Bytes) (dst src : Nat), src < dst → dst + n ≤ m.length →
    src + n ≤ m.length →
    ∃ r, copyBwd m dst src n = some r ∧ r.length = m.length ∧
      ∀ i, r[i]? = if dst ≤ i ∧ i < dst + n then m[src + (i - dst)]? else m[i]? := by
  induction n with
  | zero =>
    intro m dst src _ _ _
    refine ⟨m, rfl, rfl, ?_⟩
    intro i
    have : ¬ (dst ≤ i ∧ i < dst + 0) := by omega
    rw [if_neg this]
  | succ n ih =>
    intro m dst src hds hd hs
    have hsrc : src + n < m.length := by omega
    simp only [copyBwd, List.getElem?_eq_getElem hsrc]
    have hdl : dst + n < m.length := by omega
    simp only [hdl, if_true]
    obtain ⟨r, hr, hlen, hget⟩ := ih (m.set (dst + n) m[src + n]) dst src hds
      (by simp; omega) (by simp; omega)
    refine ⟨r, hr, by simpa using hlen, ?_⟩
    intro i
    rw [hget i]
    simp only [List.getElem?_set]
    by_cases h1 : dst ≤ i ∧ i < dst + n
    · have h2 : dst ≤ i ∧ i < dst + (n + 1) := by omega
      have h3 : ¬ dst + n = src + (i - dst) := by omega
      simp only [h1, h2, h3, and_self, if_true, if_false]
    · by_cases h4 : i = dst + n
      · subst h4
        have h2 : dst ≤ dst + n ∧ dst + n < dst + (n + 1) := by omega
        have h6 : src + (dst + n - dst) = src + n := by omega
        simp [h2, hdl, List.getElem?_eq_getElem hsrc]
      · have h2 : ¬ (dst ≤ i ∧ i < dst + (n + 1)) := by omega
        have h5 : ¬ dst + n = i := by omega
        simp only [h1, h2, h5, if_false]

theorem memmove_eq_copyViaTemp (m : Bytes) (dst src n : Nat)
    (hd : dst + n ≤ m.length) (hs : src + n ≤ m.length) :
    memmove m dst src n = copyViaTemp m dst src n := by
  have key : ∀ r : Bytes, r.length = m.length →
      (∀ i, r[i]? = if dst ≤ i ∧ i < dst + n then m[src + (i - dst)]? else m[i]?) →
      some r = copyViaTemp m dst src n := by
    intro r hlen hget
    unfold copyViaTemp read
    rw [if_pos hs]
    have htl : ((m.drop src).take n).length = n := by simp; omega
    simp only [write, htl, if_pos hd]
    congr 1
    apply List.ext_getElem?
    intro i
    rw [hget i]
    simp only [List.getElem?_append, List.length_append, List.length_take, List.getElem?_take,
      List.getElem?_drop, List.length_drop]
    by_cases h1 : i < dst
    · have : ¬ (dst ≤ i ∧ i < dst + n) := by omega
      have h2 : i < min dst m.length + min n (m.length - src) := by omega
      have h3 : i < min dst m.length := by omega
      simp only [this, h2, h3, h1, if_true, if_false]
    · by_cases h2 : i < dst + n
      · have h3 : dst ≤ i ∧ i < dst + n := by omega
        have h4 : i < min dst m.length + min n (m.length - src) := by omega
        have h5 : ¬ i < min dst m.length := by omega
        have h6 : i - min dst m.length < n := by omega
        have h7 : src + (i - min dst m.length) = src + (i - dst) := by omega
        simp only [h3, h4, h5, h6, h7, and_self, if_true, if_false]
      · have h3 : ¬ (dst ≤ i ∧ i < dst + n) := by omega
        have h4 : ¬ i < min dst m.length + min n (m.length - src) := by omega
        have h5 : dst + n + (i - (min dst m.length + min n (m.length - src))) = i := by omega
        simp only [h3, h4, h5, if_false]
  unfold memmove
  by_cases h : dst ≤ src
  · obtain ⟨r, hr, hlen, hget⟩ := copyFwd_spec n m dst src h hd hs
    rw [if_pos h, hr]; exact key r hlen hget
  · obtain ⟨r, hr, hlen, hget⟩ := copyBwd_spec n m dst src (by omega) hd hs
    rw [if_neg h, hr]; exact key r hlen hget

end CffiVerif.Mem
