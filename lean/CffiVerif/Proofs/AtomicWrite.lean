import CffiVerif.Model.AtomicWrite

/-! Helper lemmas for C23 (file-system transition system, sorting by key). -/
namespace CffiVerif.AtomicWrite

/-- The operation can change what `target` holds. -/
def Op.touches (target : Path) : Op → Bool
  | .openTrunc p | .write p _ | .unlink p => p == target
  | .rename s d => s == target || d == target
  | _ => false

theorem apply_not_touching (fs : FS) (op : Op) (target : Path)
    (h : op.touches target = false) : (apply fs op).files target = fs.files target := by
  cases op with
  | openRead p => rfl
  | read p => rfl
  | closeRead p => rfl
  | closeWrite p => rfl
  | renameFail s d => rfl
  | openTrunc p =>
    have hp : ¬ target = p := by
      intro e; subst e; simp [Op.touches] at h
    simp [apply, FS.set, FS.tick, hp]
  | write p chunk =>
    have hp : ¬ target = p := by
      intro e; subst e; simp [Op.touches] at h
    simp only [apply]
    split
    · simp [FS.set, FS.tick, hp]
    · rfl
  | unlink p =>
    have hp : ¬ target = p := by
      intro e; subst e; simp [Op.touches] at h
    simp [apply, FS.set, hp]
  | rename s d =>
    have hs : ¬ target = s := by
      intro e; subst e; simp [Op.touches] at h
    have hd : ¬ target = d := by
      intro e; subst e; simp [Op.touches] at h
    simp only [apply]
    split
    · simp [FS.set, hs, hd]
    · rfl

theorem run_not_touching (ops : List Op) (fs : FS) (target : Path)
    (h : ∀ op ∈ ops, op.touches target = false) : (run fs ops).files target = fs.files target := by
  induction ops generalizing fs with
  | nil => rfl
  | cons op rest ih =>
    simp only [run, List.foldl_cons]
    have := ih (apply fs op) (fun o ho => h o (List.mem_cons_of_mem _ ho))
    simp only [run] at this
    rw [this]
    exact apply_not_touching fs op target (h op List.mem_cons_self)

theorem run_append (fs : FS) (a b : List Op) : run fs (a ++ b) = run (run fs a) b := by
  simp [run, List.foldl_append]

theorem run_not_mutating (ops : List Op) (fs : FS)
    (h : ∀ op ∈ ops, op.mutates = false) : run fs ops = fs := by
  induction ops generalizing fs with
  | nil => rfl
  | cons op rest ih =>
    simp only [run, List.foldl_cons]
    have h1 : apply fs op = fs := by
      have := h op List.mem_cons_self
      cases op <;> simp_all [apply, Op.mutates]
    rw [h1]
    exact ih fs (fun o ho => h o (List.mem_cons_of_mem _ ho))

/-- Writes append in order: after the chunks, `tmp` holds what it held plus their
concatenation. -/
theorem run_writes (chunks : List Text) (fs : FS) (tmp : Path) (c : Text) (t : Nat)
    (h : fs.files tmp = some ⟨c, t⟩) :
    ∃ t', (run fs (chunks.map (Op.write tmp))).files tmp = some ⟨c ++ chunks.flatten, t'⟩ := by
  induction chunks generalizing fs c t with
  | nil => exact ⟨t, by simpa [run] using h⟩
  | cons ch rest ih =>
    simp only [List.map_cons, run, List.foldl_cons, List.flatten_cons]
    have h1 : (apply fs (Op.write tmp ch)).files tmp = some ⟨c ++ ch, fs.clock⟩ := by
      simp [apply, h, FS.set, FS.tick]
    obtain ⟨t', ht'⟩ := ih (apply fs (Op.write tmp ch)) (c ++ ch) fs.clock h1
    exact ⟨t', by simpa [run, List.append_assoc] using ht'⟩

/-! ### meaning of the statements extracted from the source

These lemmas unfold the regenerated `Generated.AtomicWriteOps`; they stop checking when
`_make_c_or_py_source` changes its statements, their order, the read-back limit or its
return values. -/

theorem readOps_eq (fs : FS) (target : Path) :
    readOps fs target = match fs.files target with
      | some _ => [Op.openRead target, Op.read target, Op.closeRead target]
      | none => [Op.openRead target] := by
  unfold readOps
  cases fs.files target <;> rfl

theorem writeOps_eq (tmp target : Path) (chunks : List Text) (renameOk : Bool) :
    writeOps tmp target chunks renameOk =
      [Op.openTrunc tmp] ++ chunks.map (Op.write tmp) ++ [Op.closeWrite tmp] ++
        (if renameOk then [Op.rename tmp target]
         else [Op.renameFail tmp target, Op.unlink target, Op.rename tmp target]) := by
  cases renameOk <;>
    simp [writeOps, stepOps, pathOf, Generated.AtomicWriteOps.handlerBody, Generated.AtomicWriteOps.renameFallback]

theorem upToDate_eq (fs : FS) (target : Path) (output : Text) :
    upToDate fs target output = match fs.files target with
      | some f => (univNewlines f.content).take (output.length + 1) == output
      | none => false := by
  unfold upToDate
  cases fs.files target <;> rfl

theorem tryRet_eq : stepRet Generated.AtomicWriteOps.tryBody = some false := rfl
theorem handlerRet_eq : stepRet Generated.AtomicWriteOps.handlerBody = some true := rfl

theorem readOps_not_mutating (fs : FS) (target : Path) :
    ∀ op ∈ readOps fs target, op.mutates = false := by
  intro op h
  rw [readOps_eq] at h
  split at h
  · simp only [List.mem_cons, List.not_mem_nil, or_false] at h
    rcases h with h | h | h <;> subst h <;> rfl
  · simp only [List.mem_cons, List.not_mem_nil, or_false] at h
    subst h; rfl

theorem not_mutating_not_touching (op : Op) (p : Path) (h : op.mutates = false) :
    op.touches p = false := by
  cases op <;> simp_all [Op.mutates, Op.touches]

/-- The operations before the final rename do not touch `target`. -/
theorem prefix_not_touching (fs : FS) (tmp target : Path) (chunks : List Text) (hne : tmp ≠ target) :
    ∀ op ∈ readOps fs target ++ ([Op.openTrunc tmp] ++ chunks.map (Op.write tmp) ++ [Op.closeWrite tmp]),
      op.touches target = false := by
  intro op h
  simp only [List.mem_append, List.mem_cons, List.mem_map, List.not_mem_nil, or_false] at h
  rcases h with h | (h | ⟨c, _, h⟩) | h
  · exact not_mutating_not_touching op target (readOps_not_mutating fs target op h)
  · subst h; simp [Op.touches, hne]
  · subst h; simp [Op.touches, hne]
  · subst h; rfl

/-- State after everything but the rename: `target` as before, `tmp` holds the output. -/
theorem before_rename (fs : FS) (tmp target : Path) (chunks : List Text) (hne : tmp ≠ target) :
    let fs1 := run fs (readOps fs target ++ ([Op.openTrunc tmp] ++ chunks.map (Op.write tmp) ++ [Op.closeWrite tmp]))
    fs1.files target = fs.files target ∧ ∃ t, fs1.files tmp = some ⟨chunks.flatten, t⟩ := by
  refine ⟨run_not_touching _ fs target (prefix_not_touching fs tmp target chunks hne), ?_⟩
  rw [run_append, run_not_mutating _ fs (readOps_not_mutating fs target)]
  rw [run_append, run_append]
  have h0 : (run fs [Op.openTrunc tmp]).files tmp = some ⟨[], fs.clock⟩ := by
    simp [run, apply, FS.set, FS.tick]
  obtain ⟨t', ht'⟩ := run_writes chunks (run fs [Op.openTrunc tmp]) tmp [] fs.clock h0
  refine ⟨t', ?_⟩
  have : run (run (run fs [Op.openTrunc tmp]) (chunks.map (Op.write tmp))) [Op.closeWrite tmp]
      = run (run fs [Op.openTrunc tmp]) (chunks.map (Op.write tmp)) := rfl
  rw [this]
  simpa using ht'

theorem take_append_singleton {α : Type} (a : List α) (x : α) (k : Nat) :
    (a ++ [x]).take k = a.take k ∨ (a ++ [x]).take k = a ++ [x] := by
  by_cases h : k ≤ a.length
  · left; exact List.take_append_of_le_length h
  · right; apply List.take_of_length_le; simp; omega

theorem mem_take {α : Type} {a : List α} {k : Nat} {x : α} (h : x ∈ a.take k) : x ∈ a :=
  List.mem_of_mem_take h

/-! ### universal newlines -/

theorem univNewlines_noCR (t : Text) (h : ∀ c ∈ t, c ≠ 13) : univNewlines t = t := by
  unfold univNewlines
  induction t with
  | nil => rfl
  | cons c r ih =>
    have hc : c ≠ 13 := h c List.mem_cons_self
    simp only [univNewlinesAux, hc, if_false]
    simp [ih (fun x hx => h x (List.mem_cons_of_mem _ hx))]

theorem take_succ_length_beq {α : Type} [BEq α] [LawfulBEq α] (s o : List α) :
    (s.take (o.length + 1) == o) = true ↔ s = o := by
  rw [beq_iff_eq]
  constructor
  · intro h
    have hl : (s.take (o.length + 1)).length = o.length := by rw [h]
    rw [List.length_take] at hl
    have : s.length ≤ o.length + 1 := by omega
    rw [List.take_of_length_le this] at h
    exact h
  · intro h; subst h; exact List.take_of_length_le (by omega)

/-! ### sorting by distinct keys -/

theorem keyLe_trans (a b c : Key) : keyLe a b = true → keyLe b c = true → keyLe a c = true := by
  simp only [keyLe, decide_eq_true_eq]
  exact List.le_trans

theorem keyLe_total (a b : Key) : (keyLe a b || keyLe b a) = true := by
  simp only [keyLe, Bool.or_eq_true, decide_eq_true_eq]
  exact List.le_total a b

theorem keyLe_antisymm (a b : Key) : keyLe a b = true → keyLe b a = true → a = b := by
  simp only [keyLe, decide_eq_true_eq]
  exact List.le_antisymm

theorem eq_of_key_eq {α : Type} (key : α → Key) (l : List α) (hd : (l.map key).Nodup)
    (a b : α) (ha : a ∈ l) (hb : b ∈ l) (h : key a = key b) : a = b := by
  induction l with
  | nil => cases ha
  | cons x xs ih =>
    simp only [List.map_cons, List.nodup_cons, List.mem_map, not_exists, not_and] at hd
    simp only [List.mem_cons] at ha hb
    rcases ha with rfl | ha <;> rcases hb with rfl | hb
    · rfl
    · exact absurd h.symm (hd.1 b hb)
    · exact absurd h (hd.1 a ha)
    · exact ih hd.2 ha hb

end CffiVerif.AtomicWrite
