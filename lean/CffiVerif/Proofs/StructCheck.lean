import CffiVerif.Model.StructCheck
/-! Lemmas about the checked / unchecked realisation of API-mode structs (C12). -/
namespace CffiVerif.StructCheck

theorem le_roundUp (x : Int) (a : Nat) (ha : 0 < a) : x ≤ roundUp x a := by
  unfold roundUp
  have hpos : (0 : Int) < (a : Int) := by omega
  have h1 := Int.ediv_mul_add_emod (x + (a : Int) - 1) (a : Int)
  have h2 := Int.emod_lt_of_pos (x + (a : Int) - 1) hpos
  have h3 := Int.emod_nonneg (x + (a : Int) - 1) (by omega : (a : Int) ≠ 0)
  omega

theorem sizeChecks_ok_iff (fs : List Fld) (h : ∀ f ∈ fs, 0 ≤ f.koffset) :
    sizeChecks fs = .ok () ↔ ∀ f ∈ fs, f.csize = f.ksize := by
  induction fs with
  | nil => simp [sizeChecks]
  | cons f rest ih =>
    have hf : 0 ≤ f.koffset := h f (by simp)
    have hr : ∀ g ∈ rest, 0 ≤ g.koffset := fun g hg => h g (by simp [hg])
    unfold sizeChecks
    have hne : ¬ f.koffset = -1 := by omega
    simp only [hne, if_false]
    by_cases hs : f.csize = f.ksize
    · simp [hs, ih hr]
    · simp [hs]

theorem sizeChecks_error (fs : List Fld) (e : Err) (h : sizeChecks fs = .error e) : e = .ffiError := by
  induction fs with
  | nil => simp [sizeChecks] at h
  | cons f rest ih =>
    unfold sizeChecks at h
    split at h
    · exact ih h
    · split at h
      · cases h; rfl
      · exact ih h


/-- Under `SF_STD_FIELD_POS` the field loop succeeds exactly when the compiler's offsets are the
    ones the cdef denotes, and then it is in the state the cdef alone leads to. -/
theorem fieldLoop_checked (fl : Flags) (hc : fl.check = true) (fs : List Fld)
    (h : ∀ f ∈ fs, 0 ≤ f.koffset) (st : St) :
    fieldLoop fl fs st =
      (let r := naturalLoop fl fs (st.byteoffset, st.byteoffsetmax, st.alignment)
       if fs.map (·.koffset) = r.1 then
         .ok ⟨r.2.1, r.2.2.1, r.2.2.2, st.custom, r.1.reverse ++ st.offsets⟩
       else .error .ffiError) := by
  induction fs generalizing st with
  | nil => simp [fieldLoop, naturalLoop]
  | cons f rest ih =>
    have hf : 0 ≤ f.koffset := h f (by simp)
    have hr : ∀ g ∈ rest, 0 ≤ g.koffset := fun g hg => h g (by simp [hg])
    unfold fieldLoop naturalLoop
    have hne : ¬ (f.csize < 0 ∧ ¬ (rest = [] ∨ f.koffset ≠ -1)) := by
      intro ⟨_, h2⟩; apply h2; right; omega
    simp only [hne, if_false, hf, if_true, detect, hc]
    by_cases hk : f.koffset = roundUp (if fl.union = true then 0 else st.byteoffset) (falign fl f)
    · simp only [hk, ne_eq, not_true_eq_false, if_false]
      rw [ih hr]
      simp only [List.map_cons, hk, List.cons.injEq, true_and, List.reverse_cons, List.append_assoc,
        List.singleton_append]
    · have hk' : f.koffset ≠ roundUp (if fl.union = true then 0 else st.byteoffset) (falign fl f) := hk
      simp only [ne_eq, hk', not_false_eq_true, if_true, List.map_cons, List.cons.injEq, false_and,
        if_false]


theorem naturalLoop_align_ge (fl : Flags) (fs : List Fld) (bo mx : Int) (al : Nat) :
    al ≤ (naturalLoop fl fs (bo, mx, al)).2.2.2 := by
  induction fs generalizing bo mx al with
  | nil => simp [naturalLoop]
  | cons f rest ih =>
    unfold naturalLoop
    simp only []
    refine Nat.le_trans ?_ (ih _ _ _)
    split <;> omega

/-- Under `SF_STD_FIELD_POS`, with a total size and alignment given by the compiler, the tail
    succeeds exactly when both equal what the cdef denotes. -/
theorem finish_checked (fl : Flags) (hc : fl.check = true) (st : St) (hal1 : 1 ≤ st.alignment)
    (tot al : Int) (htot : 0 ≤ tot) (hal : 0 ≤ al) :
    finish fl st tot al =
      (let a0 := roundUp st.byteoffsetmax st.alignment
       let a := if a0 = 0 then 1 else a0
       if tot = a ∧ al = (st.alignment : Int) then .ok ⟨st.offsets.reverse, tot, al, st.custom⟩
       else .error .ffiError) := by
  have hge := le_roundUp st.byteoffsetmax st.alignment (by omega)
  unfold finish
  have h1 : ¬ tot < 0 := by omega
  have h2 : ¬ al < 0 := by omega
  simp only [h1, h2, if_false, detect, hc, if_true]
  by_cases ht : tot = (if roundUp st.byteoffsetmax st.alignment = 0 then 1 else roundUp st.byteoffsetmax st.alignment)
  · have hlt : ¬ tot < st.byteoffsetmax := by
      rw [ht]; split <;> omega
    simp only [← ht, ne_eq, not_true_eq_false, if_false, hlt, true_and]
    by_cases ha : al = (st.alignment : Int)
    · simp [ha]
    · simp [ha]
  · simp [ht]


/-- What the compiler's numbers have to be for a checked struct: exactly the cdef's. -/
def Agrees (fl : Flags) (fs : List Fld) (tot al : Int) : Prop :=
  (∀ f ∈ fs, f.csize = f.ksize) ∧ fs.map (·.koffset) = (natural fl fs).offsets ∧
  tot = (natural fl fs).size ∧ al = ((natural fl fs).align : Int)

instance (fl : Flags) (fs : List Fld) (tot al : Int) : Decidable (Agrees fl fs tot al) := by
  unfold Agrees; exact inferInstance

theorem realise_checked (fl : Flags) (hc : fl.check = true) (fs : List Fld) (tot al : Int)
    (hoff : ∀ f ∈ fs, 0 ≤ f.koffset) (htot : 0 ≤ tot) (hal : 0 ≤ al) :
    realise fl fs tot al =
      if Agrees fl fs tot al then .ok ⟨fs.map (·.koffset), tot, al, false⟩ else .error .ffiError := by
  unfold realise Agrees
  by_cases hs : ∀ f ∈ fs, f.csize = f.ksize
  · have h1 := (sizeChecks_ok_iff fs hoff).mpr hs
    simp only [h1]
    rw [fieldLoop_checked fl hc fs hoff]
    simp only [initSt, natural]
    by_cases ho : fs.map (·.koffset) = (naturalLoop fl fs (0, 0, 1)).1
    · simp only [ho, if_true, true_and]
      rw [finish_checked fl hc _ (naturalLoop_align_ge fl fs 0 0 1) tot al htot hal]
      simp only [List.append_nil, List.reverse_reverse, eq_true hs, true_and]
    · simp only [ho, if_false, false_and, and_false]
  · have h1 : sizeChecks fs ≠ .ok () := fun h => hs ((sizeChecks_ok_iff fs hoff).mp h)
    cases h2 : sizeChecks fs with
    | ok u => cases u; exact absurd h2 h1
    | error e =>
      have := sizeChecks_error fs e h2
      subst this
      simp only [hs, false_and, if_false]


def fieldEnd (f : Fld) : Int := f.koffset + (if 0 ≤ f.csize then f.csize else 0)

theorem detect_unchecked (c : Bool) (a b : Int) :
    detect false c a b = some (if b ≠ a then true else c) := by
  unfold detect; split <;> simp

theorem fieldLoop_unchecked (fl : Flags) (hc : fl.check = false) (fs : List Fld)
    (hoff : ∀ f ∈ fs, 0 ≤ f.koffset) (B : Int) (hfit : ∀ f ∈ fs, fieldEnd f ≤ B)
    (st : St) (hst : st.byteoffsetmax ≤ B) :
    ∃ st', fieldLoop fl fs st = .ok st' ∧ st'.offsets = (fs.map (·.koffset)).reverse ++ st.offsets ∧
      st'.byteoffsetmax ≤ B := by
  induction fs generalizing st with
  | nil => exact ⟨st, by simp [fieldLoop], by simp, hst⟩
  | cons f rest ih =>
    have hf : 0 ≤ f.koffset := hoff f (by simp)
    have hr : ∀ g ∈ rest, 0 ≤ g.koffset := fun g hg => hoff g (by simp [hg])
    have hfe : fieldEnd f ≤ B := hfit f (by simp)
    have hre : ∀ g ∈ rest, fieldEnd g ≤ B := fun g hg => hfit g (by simp [hg])
    unfold fieldLoop
    have hne : ¬ (f.csize < 0 ∧ ¬ (rest = [] ∨ f.koffset ≠ -1)) := by
      intro ⟨_, h2⟩; apply h2; right; omega
    simp only [hne, if_false, hf, if_true, hc, detect_unchecked]
    have hmx : (if st.byteoffsetmax < (if 0 ≤ f.csize then f.koffset + f.csize else f.koffset)
         then (if 0 ≤ f.csize then f.koffset + f.csize else f.koffset) else st.byteoffsetmax) ≤ B := by
      unfold fieldEnd at hfe
      split <;> split at * <;> omega
    obtain ⟨st', h1, h2, h3⟩ := ih hr hre ⟨_, _, _, _, _⟩ hmx
    exact ⟨st', h1, by simp [h2], h3⟩

theorem finish_unchecked (fl : Flags) (hc : fl.check = false) (st : St)
    (tot al : Int) (htot : 0 ≤ tot) (hal : 0 ≤ al) (hfit : st.byteoffsetmax ≤ tot) :
    ∃ c, finish fl st tot al = .ok ⟨st.offsets.reverse, tot, al, c⟩ := by
  unfold finish
  have h1 : ¬ tot < 0 := by omega
  have h2 : ¬ al < 0 := by omega
  have h3 : ¬ tot < st.byteoffsetmax := by omega
  simp only [h1, h2, if_false, hc, detect_unchecked, h3]
  exact ⟨_, rfl⟩

theorem sizeChecks_mismatch (fs : List Fld) (h : ∃ f ∈ fs, f.koffset ≠ -1 ∧ f.csize ≠ f.ksize) :
    sizeChecks fs = .error .ffiError := by
  induction fs with
  | nil => obtain ⟨f, hf, _⟩ := h; simp at hf
  | cons g rest ih =>
    obtain ⟨f, hf, h1, h2⟩ := h
    unfold sizeChecks
    by_cases hg : g.koffset = -1
    · simp only [hg, if_true]
      rcases List.mem_cons.mp hf with rfl | hm
      · exact absurd hg h1
      · exact ih ⟨f, hm, h1, h2⟩
    · simp only [hg, if_false]
      by_cases hs : g.csize = g.ksize
      · simp only [hs, ne_eq, not_true_eq_false, if_false]
        rcases List.mem_cons.mp hf with rfl | hm
        · exact absurd hs h2
        · exact ih ⟨f, hm, h1, h2⟩
      · simp [hs]


/-- The regenerated `sflags` assembly hands both declared properties through, independently:
    `SF_STD_FIELD_POS` iff `_CFFI_F_CHECK_FIELDS`, `SF_PACKED` iff `_CFFI_F_PACKED`. -/
theorem flagsOfTable_eq_declared (flags : Nat) : flagsOfTable flags = declaredFlags flags := by
  unfold flagsOfTable declaredFlags hasBit Generated.StructFlags.sflagsOf
  by_cases h1 : flags &&& Generated.StructFlags.F_CHECK_FIELDS = 0 <;>
    by_cases h2 : flags &&& Generated.StructFlags.F_PACKED = 0 <;>
    simp [h1, h2] <;> decide

end CffiVerif.StructCheck
