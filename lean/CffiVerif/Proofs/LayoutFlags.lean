import CffiVerif.Model.LayoutFlags
import CffiVerif.Proofs.Layout
/-
The all-flags model of the field loop (`Model/LayoutFlags.lean`) restricted to the
flags `complete_sflags` selects on x86-64 Linux (GCC-x86 bit-field style, little
endian) is the model the C01 theorems are stated about (`Model/Layout.lean`):
`layoutFlags_x86`, by the same induction over member lists and nesting.
-/
namespace CffiVerif.LayoutFlags
open CffiVerif.Layout

def liftC (c : CField) : FField' := ⟨c.offset, c.bits, c.fsize⟩

def liftF (f : FField CField) : FField FField' :=
  { named := f.named, size := f.size, align := f.align, bits := f.bits, intlike := f.intlike,
    isArray := f.isArray, isAgg := f.isAgg, sub := f.sub.map liftC }

/-- forget `prev_bitfield_size/free` (only the MSVC branch reads them) -/
def proj (t : StF) : St := ⟨t.byteoffset, t.bitoffset, t.alignment, t.byteoffsetmax⟩

structure IsX86 (fl : Flags) : Prop where
  msvc : fl.msvc = false
  arm : fl.arm = false
  be : fl.bigEndian = false

theorem proj_bo (t : StF) : (proj t).byteoffset = t.byteoffset := rfl
theorem proj_bi (t : StF) : (proj t).bitoffset = t.bitoffset := rfl
theorem proj_al (t : StF) : (proj t).alignment = t.alignment := rfl
theorem proj_mx (t : StF) : (proj t).byteoffsetmax = t.byteoffsetmax := rfl
theorem proj_bump (A x bo m p q : Nat) : proj (StF.bump A x bo m p q) = bumpRef A x bo m := rfl

theorem map_ite {α β : Type} (g : α → β) (c : Prop) [Decidable c] (x y : Except Reject α) :
    Except.map g (if c then x else y) = if c then Except.map g x else Except.map g y := by
  split <;> rfl

theorem ite_congr' {α : Type} {c : Prop} [Decidable c] {x x' y y' : α} (h1 : c → x = x') (h2 : ¬c → y = y') :
    (if c then x else y) = (if c then x' else y') := by
  split
  · exact h1 ‹_›
  · exact h2 ‹_›

theorem step_x86 (fl : Flags) (hx : IsX86 fl) (u : Bool) (pack : Nat) (last : Bool)
    (t : StF) (f : FField CField) :
    Except.map (fun r => (proj r.1, r.2)) (stepF fl u pack last t (liftF f)) =
    Except.map (fun r => (r.1, r.2.map liftC)) (stepC u pack fl.packed last (proj t) f) := by
  obtain ⟨m, a, b⟩ := hx
  by_cases hg : (f.size.isNone && !(f.isArray && f.bits.isNone && last)) = true
  · simp only [stepC_eq_ref, stepCRef, stepF, liftF, hg, if_true]; rfl
  · cases hb : f.bits with
    | none =>
      rw [hb] at hg
      simp only [stepC_eq_ref, stepCRef, stepF, liftF, hb, hg, if_false, proj_bo, proj_bi, proj_al, proj_mx, Except.map, proj_bump]
      refine congrArg Except.ok (congrArg (Prod.mk _) ?_)
      by_cases h : (!f.named && f.isAgg) = true
      · simp [h, List.map_map, Function.comp, liftC]
      · simp [h, liftC]
    | some w =>
      rw [hb] at hg
      by_cases hi : f.intlike = true
      · cases hsz : f.size with
        | none =>
          simp only [stepC_eq_ref, stepCRef, stepF, liftF, hb, hg, hi, hsz, if_false, Bool.not_true, Bool.false_eq_true]
          split <;> rfl
        | some sz =>
          rw [hsz] at hg
          by_cases hw : w > 8 * sz
          · simp only [stepC_eq_ref, stepCRef, stepF, liftF, hb, hg, hi, hsz, hw, if_true, if_false, Bool.not_true, Bool.false_eq_true]
            rfl
          · by_cases hw0 : w = 0
            · subst hw0
              by_cases hn : f.named = true
              · simp only [stepC_eq_ref, stepCRef, stepF, liftF, hb, hg, hi, hsz, hw, hn, if_true, if_false, Bool.not_true,
                  Bool.false_eq_true]
                rfl
              · simp only [stepC_eq_ref, stepCRef, stepF, liftF, hb, hg, hi, hsz, hw, hn, m, a, if_true, if_false, Bool.not_true,
                  Bool.not_false, Bool.false_eq_true, proj_bo, proj_bi, proj_al, proj_mx, Except.map, proj_bump, List.map]
                rfl
            · simp only [stepC_eq_ref, stepCRef, stepF, liftF, hb, hg, hi, hsz, hw, hw0, m, a, b, endianShift, if_true, if_false,
                Bool.not_true, Bool.not_false, Bool.false_eq_true, proj_bo, proj_bi, proj_al, proj_mx]
              simp only [map_ite]
              refine ite_congr' (fun _ => ite_congr' (fun _ => rfl) (fun _ => ?_)) (fun _ => ?_)
              · simp only [Except.map, proj_bump]
                cases f.named <;> simp [liftC] <;> (congr 1; split <;> simp_all)
              · simp only [Except.map, proj_bump]
                cases f.named <;> simp [liftC] <;> (congr 1; split <;> simp_all)
      · simp only [stepC_eq_ref, stepCRef, stepF, liftF, hb, hg, hi, if_true, if_false, Bool.not_false]; rfl

theorem isEmpty_map {α β : Type} (g : α → β) (l : List α) : (l.map g).isEmpty = l.isEmpty := by
  cases l <;> rfl

theorem loop_x86 (fl : Flags) (hx : IsX86 fl) (u : Bool) (pack : Nat) :
    ∀ (fs : List (FField CField)) (t : StF),
      Except.map (fun r => (proj r.1, r.2)) (loopF fl u pack (fs.map liftF) t) =
      Except.map (fun r => (r.1, r.2.map liftC)) (loopC u pack fl.packed fs (proj t))
  | [], t => rfl
  | f :: rest, t => by
    have h := step_x86 fl hx u pack rest.isEmpty t f
    simp only [List.map, loopF, loopC, isEmpty_map]
    cases hF : stepF fl u pack rest.isEmpty t (liftF f) with
    | error e =>
      cases hC : stepC u pack fl.packed rest.isEmpty (proj t) f with
      | error e' => rw [hF, hC] at h; simp only [Except.map] at h ⊢; exact h
      | ok r => rw [hF, hC] at h; simp [Except.map] at h
    | ok r =>
      obtain ⟨t', o'⟩ := r
      cases hC : stepC u pack fl.packed rest.isEmpty (proj t) f with
      | error e' => rw [hF, hC] at h; simp [Except.map] at h
      | ok r' =>
        obtain ⟨s', o⟩ := r'
        rw [hF, hC] at h
        simp only [Except.map, Except.ok.injEq, Prod.mk.injEq] at h
        obtain ⟨h1, h2⟩ := h
        subst h1 h2
        have ih := loop_x86 fl hx u pack rest t'
        simp only []
        cases hF2 : loopF fl u pack (rest.map liftF) t' with
        | error e =>
          cases hC2 : loopC u pack fl.packed rest (proj t') with
          | error e' => rw [hF2, hC2] at ih; simp only [Except.map] at ih ⊢; exact ih
          | ok r => rw [hF2, hC2] at ih; simp [Except.map] at ih
        | ok r =>
          cases hC2 : loopC u pack fl.packed rest (proj t') with
          | error e' => rw [hF2, hC2] at ih; simp [Except.map] at ih
          | ok r' =>
            rw [hF2, hC2] at ih
            simp only [Except.map, Except.ok.injEq, Prod.mk.injEq] at ih ⊢
            obtain ⟨i1, i2⟩ := ih
            exact ⟨i1, by rw [i2, List.map_append]⟩

def liftL (l : CLayout) : FLayout := ⟨l.size, l.align, l.fields.map liftC⟩

theorem complete_x86 (fl : Flags) (hx : IsX86 fl) (u : Bool) (p : Nat) (hp : fl.packed = (packCfg p).2)
    (fs : List (FField CField)) :
    completeF fl u (packCfg p).1 (fs.map liftF) = Except.map liftL (completeC u p fs) := by
  have h := loop_x86 fl hx u (packCfg p).1 fs StF.init
  rw [hp] at h
  have hinit : proj StF.init = St.init := rfl
  rw [hinit] at h
  simp only [completeF, completeC]
  cases hF : loopF fl u (packCfg p).1 (fs.map liftF) StF.init with
  | error e =>
    cases hC : loopC u (packCfg p).1 (packCfg p).2 fs St.init with
    | error e' =>
      rw [hF, hC] at h; simp only [Except.map, Except.error.injEq] at h ⊢; exact h
    | ok r => rw [hF, hC] at h; simp [Except.map] at h
  | ok r =>
    cases hC : loopC u (packCfg p).1 (packCfg p).2 fs St.init with
    | error e' => rw [hF, hC] at h; simp [Except.map] at h
    | ok r' =>
      rw [hF, hC] at h
      simp only [Except.map, Except.ok.injEq, Prod.mk.injEq] at h ⊢
      obtain ⟨h1, h2⟩ := h
      simp only [finishF, finishC_ref, liftL, ← h1, h2, proj]

def liftI (i : CInfo) : FInfo := ⟨i.size, i.align, i.intlike, i.isArray, i.isAgg, i.sub.map liftC⟩

theorem toField_lift (i : CInfo) (n : Bool) (b : Option Nat) (fx : Bool) :
    liftF (i.toField n b fx) = (liftI i).toField n b fx := by
  cases fx <;> simp [liftF, liftI, CInfo.toField, FInfo.toField]

theorem withPack_x86 (fl : Flags) (hx : IsX86 fl) (p : Nat) :
    IsX86 (fl.withPack p) ∧ (fl.withPack p).packed = (packCfg p).2 :=
  ⟨⟨hx.msvc, hx.arm, hx.be⟩, rfl⟩

mutual
theorem info_x86 (fl : Flags) (hx : IsX86 fl) : (t : Ty) → infoF fl t = Except.map liftI (infoC t)
  | .prim size align intlike => by rw [infoF, infoC]; rfl
  | .arr elem len => by
    rw [infoF, infoC, info_x86 fl hx elem]
    cases infoC elem <;> rfl
  | .agg u p fields => by
    rw [infoF, infoC, fields_x86 fl hx fields]
    cases fieldsC fields with
    | error e => rfl
    | ok fs =>
      simp only [Except.map]
      rw [complete_x86 _ (withPack_x86 fl hx p).1 u p (withPack_x86 fl hx p).2 fs]
      cases completeC u p fs <;> rfl
theorem fields_x86 (fl : Flags) (hx : IsX86 fl) : (fs : Fields) →
    fieldsF fl fs = Except.map (List.map liftF) (fieldsC fs)
  | .nil => by rw [fieldsF, fieldsC]; rfl
  | .cons named bits flex ty rest => by
    rw [fieldsF, fieldsC, info_x86 fl hx ty, fields_x86 fl hx rest]
    cases infoC ty with
    | error e => rfl
    | ok i =>
      cases fieldsC rest with
      | error e => rfl
      | ok fs => simp only [Except.map, List.map, toField_lift]
end

/-- For the flags chosen on x86-64 Linux the all-flags model is the model the
C01 theorems are about. -/
theorem layoutFlags_x86 (fl : Flags) (hx : IsX86 fl) (t : Ty) :
    layoutFlags fl t = Except.map liftL (layoutCffi t) := by
  cases t with
  | prim _ _ _ => rfl
  | arr _ _ => rfl
  | agg u p fields =>
    simp only [layoutFlags, layoutCffi]
    rw [fields_x86 fl hx fields]
    cases fieldsC fields with
    | error e => rfl
    | ok fs =>
      simp only [Except.map]
      exact complete_x86 _ (withPack_x86 fl hx p).1 u p (withPack_x86 fl hx p).2 fs

end CffiVerif.LayoutFlags
