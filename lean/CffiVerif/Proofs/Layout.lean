import CffiVerif.Model.Layout
import CffiVerif.Spec.GccLayout
/-
C01, flat level: cffi's field loop (`stepC`/`loopC`/`completeC`) simulates the
compiler's bit cursor (`gStep`/`gLoop`/`completeG`) on every well-formed list of
members whose types are already laid out.

Simulation relation `R`: `cursor = 8·byteoffset + bitoffset`, `bitoffset < 8`,
`byteoffsetmax = ⌈maxbits / 8⌉`, equal alignments (and the alignment is one of
1, 2, 4, 8, 16).  One step lemma (`step_sim`) by cases on the member kind; lifted by
induction over the member list (`loop_sim`); `flat_eq` adds the final rounding.
-/
namespace CffiVerif.Layout
open CffiVerif.GccLayout

def A16 (a : Nat) : Prop := a = 1 ∨ a = 2 ∨ a = 4 ∨ a = 8 ∨ a = 16

theorem alignUp_bytes (b bo a : Nat) (hbo : bo < 8) (ha : A16 a) :
    8 * alignUp (roundupBytes b bo) a = roundUp (8 * b + bo) (8 * a) := by
  rcases ha with rfl | rfl | rfl | rfl | rfl <;>
    simp only [alignUp, alignDown, roundupBytes, roundUp] <;> split <;> omega

theorem zero_width (b bo a : Nat) (hbo : bo < 8) (ha : A16 a) :
    8 * (if roundupBytes b bo > alignDown b a then alignDown b a + a else alignDown b a)
      = roundUp (8 * b + bo) (8 * a) := by
  rcases ha with rfl | rfl | rfl | rfl | rfl <;>
    simp only [alignDown, roundupBytes, roundUp] <;> split <;> split <;> omega

theorem bits_occupied (b bo a : Nat) (hbo : bo < 8) (ha : A16 a) :
    (b - alignDown b a) * 8 + bo = (8 * b + bo) % (8 * a) := by
  rcases ha with rfl | rfl | rfl | rfl | rfl <;> simp only [alignDown] <;> omega

theorem next_unit (b bo a : Nat) (hbo : bo < 8) (ha : A16 a) (h : (8 * b + bo) % (8 * a) ≠ 0) :
    8 * (alignDown b a + a) = roundUp (8 * b + bo) (8 * a) := by
  rcases ha with rfl | rfl | rfl | rfl | rfl <;> simp only [alignDown, roundUp] at * <;> omega

theorem unit_start (b bo a : Nat) (hbo : bo < 8) (ha : A16 a) :
    8 * alignDown b a + (8 * b + bo) % (8 * a) = 8 * b + bo := by
  rcases ha with rfl | rfl | rfl | rfl | rfl <;> simp only [alignDown] <;> omega

theorem final_size (m a : Nat) (ha : A16 a) : alignUp m a = roundUp m a := by
  rcases ha with rfl | rfl | rfl | rfl | rfl <;> simp only [alignUp, alignDown, roundUp] <;> omega

theorem bump_max (x bo m : Nat) (hbo : bo < 8) :
    (if roundupBytes x bo > (m + 7) / 8 then roundupBytes x bo else (m + 7) / 8) = (max m (8 * x + bo) + 7) / 8 := by
  simp only [roundupBytes]; split <;> split <;> omega

/-- how a `CFieldObject` denotes bits of the object: the field starts at bit
`8·cf_offset + cf_bitshift` (little endian) -/
def canon (c : CField) : GField :=
  match c.bits with
  | none => { bitpos := 8 * c.offset, width := none }
  | some (sh, w) => { bitpos := 8 * c.offset + sh, width := some w }

def toG (f : FField CField) : FField GField :=
  { named := f.named, size := f.size, align := f.align, bits := f.bits, intlike := f.intlike,
    isArray := f.isArray, isAgg := f.isAgg, sub := f.sub.map canon }

def PackOK (p : Nat) : Prop := p = 0 ∨ ∃ k, p = 2 ^ k

structure WFField (p : Nat) (isLast : Bool) (f : FField CField) : Prop where
  align : A16 f.align
  bits : ∀ w, f.bits = some w → p = 0 ∧ f.intlike = true ∧ (∃ sz, f.size = some sz ∧ w ≤ 8 * sz ∧ sz ≤ f.align)
            ∧ (w = 0 → f.named = false)
  flex : f.size = none → f.isArray = true ∧ f.bits = none ∧ isLast = true

def WFList (p : Nat) : List (FField CField) → Prop
  | [] => True
  | f :: rest => WFField p rest.isEmpty f ∧ WFList p rest

structure R (s : St) (g : GSt) : Prop where
  cursor : g.cursor = 8 * s.byteoffset + s.bitoffset
  bit : s.bitoffset < 8
  max : s.byteoffsetmax = (g.maxbits + 7) / 8
  align : s.alignment = g.align
  a16 : A16 g.align

theorem pow_cases (k : Nat) : 2 ^ k = 1 ∨ 2 ^ k = 2 ∨ 2 ^ k = 4 ∨ 2 ^ k = 8 ∨ 16 ≤ 2 ^ k := by
  match k with
  | 0 => simp
  | 1 => simp
  | 2 => simp
  | 3 => simp
  | k + 4 =>
    have : 0 < 2 ^ k := Nat.two_pow_pos k
    rw [Nat.pow_add]; omega

theorem falign_eq (p a : Nat) (hp : PackOK p) (ha : A16 a) :
    (if (packCfg p).1 < a then (packCfg p).1 else a) = capAlign p a ∧ A16 (capAlign p a) := by
  have key : ∀ q, (q = 0 ∨ q = 1 ∨ q = 2 ∨ q = 4 ∨ q = 8 ∨ 16 ≤ q) →
      (if (packCfg q).1 < a then (packCfg q).1 else a) = capAlign q a ∧ A16 (capAlign q a) := by
    intro q hq
    unfold packCfg capAlign defaultPacking A16 at *
    simp only [Nat.min_def]
    by_cases h1 : q = 1
    · subst h1; simp only [if_true]; refine ⟨?_, ?_⟩ <;> (repeat' split) <;> omega
    · by_cases h0 : q = 0
      · subst h0; simp only [h1, if_true, if_false]; refine ⟨?_, ?_⟩ <;> (repeat' split) <;> omega
      · simp only [h1, h0, if_false]; refine ⟨?_, ?_⟩ <;> (repeat' split) <;> omega
  rcases hp with rfl | ⟨k, rfl⟩
  · exact key 0 (Or.inl rfl)
  · exact key _ (Or.inr (pow_cases k))

theorem A16_max {a b : Nat} (ha : A16 a) (hb : A16 b) : A16 (max a b) := by
  unfold A16 at *; omega
theorem size_check (last : Bool) (f : FField CField) (p : Nat) (hf : WFField p last f) :
    (f.size.isNone && !(f.isArray && f.bits.isNone && last)) = false := by
  cases hs : f.size with
  | some n => simp
  | none => obtain ⟨h1, h2, h3⟩ := hf.flex hs; simp [h1, h2, h3]

theorem R_bump (A x bo bmax : Nat) (g : GSt) (c A' : Nat) (h1 : c = 8 * x + bo) (hbo : bo < 8)
    (hmax : bmax = (g.maxbits + 7) / 8) (hA : A = A') (h16 : A16 A') :
    R (St.bump A x bo bmax) (place g c A') := by
  subst hA h1 hmax
  exact ⟨rfl, hbo, bump_max x bo g.maxbits hbo, rfl, h16⟩

theorem align_named (sa ga a : Nat) (named : Bool) (hal : sa = ga) :
    (if (decide (sa < a) && named) = true then a else sa) = (if named = true then max ga a else ga) := by
  subst hal
  cases named <;> simp
  by_cases h : sa < a <;> simp [h] <;> omega

theorem step_sim (u : Bool) (p : Nat) (last : Bool) (s : St) (g : GSt) (f : FField CField)
    (hp : PackOK p) (hf : WFField p last f) (hR : R s g) :
    ∃ s' o, stepC u (packCfg p).1 (packCfg p).2 last s f = .ok (s', o) ∧
      R s' (gStep u p g (toG f)).1 ∧ o.map canon = (gStep u p g (toG f)).2 := by
  have hsz := size_check last f p hf
  obtain ⟨hcur, hbit, hmax, hal, ha16⟩ := hR
  obtain ⟨hfa, hfb, hfx⟩ := hf
  obtain ⟨hfal, hfa16⟩ := falign_eq p f.align hp hfa
  cases hb : f.bits with
  | none =>
    rw [hb] at hsz
    unfold stepC gStep
    simp only [hb, hsz, toG, hfal, Bool.false_eq_true, if_false, Bool.and_true]
    have hcur0 : (if u = true then 0 else g.cursor) =
        8 * (if u = true then 0 else s.byteoffset) + (if u = true then 0 else s.bitoffset) := by
      cases u <;> simp [hcur]
    have hbit0 : (if u = true then 0 else s.bitoffset) < 8 := by cases u <;> simp [hbit]
    rw [hcur0]
    generalize (if u = true then 0 else s.byteoffset) = b0 at *
    generalize (if u = true then 0 else s.bitoffset) = bo0 at *
    have key := alignUp_bytes b0 bo0 _ hbit0 hfa16
    generalize alignUp (roundupBytes b0 bo0) (capAlign p f.align) = B at *
    generalize roundUp (8 * b0 + bo0) (8 * capAlign p f.align) = P at *
    refine ⟨_, _, rfl, ?_, ?_⟩
    · have hA : (if decide (s.alignment < capAlign p f.align) = true then capAlign p f.align else s.alignment)
          = max g.align (capAlign p f.align) := by
        rw [hal]; by_cases h : g.align < capAlign p f.align <;> simp [h] <;> omega
      rw [hA]
      cases f.size <;>
      · simp only [St.bump, place, roundupBytes, Nat.lt_irrefl, if_false, Nat.add_zero]
        refine ⟨by simp only []; omega, by simp only []; omega, ?_, rfl, A16_max ha16 hfa16⟩
        simp only [hmax]; split <;> omega
    · by_cases h : (!f.named && f.isAgg) = true
      · simp only [h, if_true, List.map_map]
        apply List.map_congr_left
        intro c _
        simp only [Function.comp, canon]
        cases c.bits with
        | none => simp only [GField.mk.injEq, and_true]; omega
        | some q => simp only [GField.mk.injEq, and_true]; omega
      · simp only [h, Bool.false_eq_true, if_false, List.map, canon, key]
  | some w =>
    obtain ⟨hp0, hint, ⟨sz, hsize, hw, hsza⟩, hnamed⟩ := hfb w hb
    subst hp0
    have hcap : capAlign 0 f.align = f.align := by simp [capAlign]
    rw [hcap] at hfal hfa16
    have hpk : (packCfg 0).2 = false := by simp [packCfg]
    rw [hb] at hsz
    have hcur0 : (if u = true then 0 else g.cursor) =
        8 * (if u = true then 0 else s.byteoffset) + (if u = true then 0 else s.bitoffset) := by
      cases u <;> simp [hcur]
    have hbit0 : (if u = true then 0 else s.bitoffset) < 8 := by cases u <;> simp [hbit]
    unfold stepC gStep
    simp only [hb, toG, hfal, hcap, hpk, hint, hsize, Bool.false_eq_true, if_false, Bool.not_true, Bool.false_and]
    rw [hcur0]
    generalize (if u = true then 0 else s.byteoffset) = b0 at *
    generalize (if u = true then 0 else s.bitoffset) = bo0 at *
    simp only [Option.isNone_some, Bool.false_and, Bool.false_eq_true, if_false]
    have hnw : ¬ (w > 8 * sz) := by omega
    simp only [hnw, if_false]
    have hocc := bits_occupied b0 bo0 f.align hbit0 hfa16
    rw [hocc]
    have hA := align_named s.alignment g.align f.align f.named hal
    have hA16 : A16 (if f.named = true then max g.align f.align else g.align) := by
      cases f.named <;> simp <;> first | exact ha16 | exact A16_max ha16 hfa16
    cases w with
    | zero =>
      have hn := hnamed rfl
      simp only [hn, Bool.false_eq_true, if_false]
      refine ⟨_, _, rfl, ?_, rfl⟩
      apply R_bump _ _ _ _ _ _ _ _ (by omega) hmax (by simp [hal]) ha16
      have := zero_width b0 bo0 f.align hbit0 hfa16
      omega
    | succ w' =>
      simp only [Nat.succ_ne_zero, if_false]
      by_cases hfit : (8 * b0 + bo0) % (8 * f.align) + (w' + 1) > 8 * sz
      · simp only [hfit, if_true]
        have hne : (8 * b0 + bo0) % (8 * f.align) ≠ 0 := by omega
        have hnext := next_unit b0 bo0 f.align hbit0 hfa16 hne
        refine ⟨_, _, rfl, ?_, ?_⟩
        · apply R_bump _ _ _ _ _ _ _ _ (Nat.mod_lt _ (by omega)) hmax hA hA16
          omega
        · cases f.named <;> simp [canon]
          omega
      · simp only [hfit, if_false]
        have hstart := unit_start b0 bo0 f.align hbit0 hfa16
        refine ⟨_, _, rfl, ?_, ?_⟩
        · apply R_bump _ _ _ _ _ _ _ _ (Nat.mod_lt _ (by omega)) hmax hA hA16
          omega
        · cases f.named <;> simp [canon]
          omega

theorem R_init : R St.init GSt.init :=
  ⟨rfl, by decide, rfl, rfl, Or.inl rfl⟩

theorem loop_sim (u : Bool) (p : Nat) (hp : PackOK p) :
    ∀ (fs : List (FField CField)) (s : St) (g : GSt), WFList p fs → R s g →
      ∃ s' os, loopC u (packCfg p).1 (packCfg p).2 fs s = .ok (s', os) ∧
        R s' (gLoop u p (fs.map toG) g).1 ∧ os.map canon = (gLoop u p (fs.map toG) g).2
  | [], s, g, _, hR => ⟨s, [], rfl, hR, rfl⟩
  | f :: rest, s, g, hw, hR => by
    obtain ⟨s1, o1, h1, hR1, ho1⟩ := step_sim u p rest.isEmpty s g f hp hw.1 hR
    obtain ⟨s2, o2, h2, hR2, ho2⟩ := loop_sim u p hp rest s1 _ hw.2 hR1
    refine ⟨s2, o1 ++ o2, ?_, ?_, ?_⟩
    · simp only [loopC, h1, h2]
    · simpa only [List.map, gLoop] using hR2
    · simp only [List.map, gLoop, List.map_append, ho1, ho2]

/-- The flat theorem: on any well-formed list of members whose types are already
laid out, cffi's loop accepts and yields the compiler's alignment and member
positions; the size differs exactly by the "size 0 becomes 1" rule. -/
theorem flat_eq (u : Bool) (p : Nat) (fs : List (FField CField)) (hp : PackOK p) (hw : WFList p fs) :
    ∃ l, completeC u p fs = .ok l ∧
      l.align = (completeG u p (fs.map toG)).align ∧
      l.fields.map canon = (completeG u p (fs.map toG)).fields ∧
      l.size = (if (completeG u p (fs.map toG)).size = 0 then 1 else (completeG u p (fs.map toG)).size) ∧
      A16 l.align := by
  obtain ⟨s', os, h, hR, ho⟩ := loop_sim u p hp fs St.init GSt.init hw R_init
  refine ⟨finishC s' os, by simp only [completeC, h], ?_, ?_, ?_, ?_⟩
  · simp only [finishC, completeG, gFinish, hR.align]
  · simp only [finishC, completeG, gFinish, ho]
  · simp only [finishC, completeG, gFinish, hR.align, hR.max, final_size _ _ hR.a16]; rfl
  · simp only [finishC, hR.align]; exact hR.a16

/-! ### `x & ~(a-1)` is `x - x % a` for powers of two -/

theorem nat_andnot (X N k : Nat) (hX : X < 2 ^ N) (hk : k ≤ N) :
    X &&& (2 ^ N - 1 - (2 ^ k - 1)) = X - X % 2 ^ k := by
  have h1 : X - X % 2 ^ k = (X >>> k) <<< k := by
    rw [Nat.shiftLeft_eq, Nat.shiftRight_eq_div_pow]
    have := Nat.div_add_mod X (2 ^ k)
    rw [Nat.mul_comm] at this
    omega
  rw [h1]
  have hpk : 2 ^ k - 1 < 2 ^ N := by
    have : 2 ^ k ≤ 2 ^ N := Nat.pow_le_pow_right (by omega) hk
    have : 0 < 2 ^ k := Nat.two_pow_pos k
    omega
  have hM : 2 ^ N - 1 - (2 ^ k - 1) = 2 ^ N - ((2 ^ k - 1) + 1) := by omega
  rw [hM]
  apply Nat.eq_of_testBit_eq
  intro i
  rw [Nat.testBit_and, Nat.testBit_two_pow_sub_succ hpk, Nat.testBit_two_pow_sub_one,
    Nat.testBit_shiftLeft, Nat.testBit_shiftRight]
  by_cases hik : i < k
  · have : ¬ (i ≥ k) := by omega
    simp [hik, this]
  · have hge : i ≥ k := by omega
    have e : k + (i - k) = i := by omega
    simp only [hik, hge, e, decide_true, decide_false, Bool.not_false, Bool.and_true, Bool.true_and]
    by_cases hiN : i < N
    · simp [hiN]
    · have : X < 2 ^ i := Nat.lt_of_lt_of_le hX (Nat.pow_le_pow_right (by omega) (by omega))
      simp [hiN, Nat.testBit_lt_two_pow this]

theorem andnot_mask_eq (x : BitVec 64) (k : Nat) (hk : k < 64) :
    x &&& ~~~(BitVec.twoPow 64 k - 1) = x - x % BitVec.twoPow 64 k := by
  apply BitVec.eq_of_toNat_eq
  have hpos : 0 < 2 ^ k := Nat.two_pow_pos k
  have hlt : 2 ^ k < 2 ^ 64 := Nat.pow_lt_pow_right (by omega) hk
  have h2 : (BitVec.twoPow 64 k).toNat = 2 ^ k := BitVec.toNat_twoPow_of_lt hk
  have hm : (BitVec.twoPow 64 k - 1).toNat = 2 ^ k - 1 := by
    rw [BitVec.toNat_sub_of_le]
    · rw [h2]; rfl
    · rw [BitVec.le_def, h2]; show 1 ≤ 2 ^ k; omega
  have hle : x % BitVec.twoPow 64 k ≤ x := by
    rw [BitVec.le_def, BitVec.toNat_umod]; exact Nat.mod_le _ _
  rw [BitVec.toNat_and, BitVec.toNat_not, hm, BitVec.toNat_sub_of_le hle, BitVec.toNat_umod, h2]
  exact nat_andnot x.toNat 64 k x.isLt (by omega)

end CffiVerif.Layout
