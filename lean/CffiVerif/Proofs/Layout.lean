import CffiVerif.Model.Layout
import CffiVerif.Spec.GccLayout
/-
C01, flat level: cffi's field loop (`stepC`/`loopC`/`completeC`) simulates the
compiler's bit cursor (`gStep`/`gLoop`/`completeG`) on every well-formed list of
members whose types are already laid out.

Simulation relation `R`: `cursor = 8·byteoffset + bitoffset`, `bitoffset < 8`,
`byteoffsetmax = ⌈maxbits / 8⌉`, equal alignments (and the alignment is one of
1, 2, 4, 8, 16).  One step lemma (`step_sim`) by cases on the member kind; lifted by
induction over the member list (`loop_sim`); `flat_eq` adds the final rounding.

`stepC`/`finishC`/`packCfg` are built from `Generated/LayoutExprs.lean` (regenerated from the C source
each run).  The first section gives those definitions their arithmetic meaning: `stepC_eq_ref`
(`stepC = stepCRef`, the hand-written reference form all proofs below work on), `finishC_ref`,
`packCfg_def`, `bump_def`, `roundupBytes_def`, and `alignDown_A16`/`alignUp_A16` (`x & ~(a-1)` is
`x - x % a` for the alignments 1, 2, 4, 8, 16).  A change of an operator, constant or comparison in the C
source makes one of these lemmas (or a step lemma) fail.
-/
namespace CffiVerif.Layout
open CffiVerif.GccLayout

def A16 (a : Nat) : Prop := a = 1 ∨ a = 2 ∨ a = 4 ∨ a = 8 ∨ a = 16

/-! ### meaning of the definitions regenerated from the C source (`Generated/LayoutExprs.lean`) -/

open CffiVerif.Generated in
theorem roundupBytes_def (bytes bits : Nat) :
    roundupBytes bytes bits = bytes + (if bits > 0 then 1 else 0) := by
  simp only [roundupBytes, LX.roundupBytes, LX.b2n]
  by_cases h : bits > 0 <;> simp [h]

/-- `x & ~(a-1)`, for the alignments that occur: `x - x % a` -/
theorem andNot_A16 (x a : Nat) (ha : A16 a) : CffiVerif.Generated.LX.andNot x (a - 1) = x - x % a := by
  unfold CffiVerif.Generated.LX.andNot
  rcases ha with rfl | rfl | rfl | rfl | rfl
  · simp [Nat.mod_one]
  · have := Nat.and_two_pow_sub_one_eq_mod x 1; simp at this; simp [this]
  · have := Nat.and_two_pow_sub_one_eq_mod x 2; simp at this; simp [this]
  · have := Nat.and_two_pow_sub_one_eq_mod x 3; simp at this; simp [this]
  · have := Nat.and_two_pow_sub_one_eq_mod x 4; simp at this; simp [this]

/-- arithmetic reading of `alignDown` / `alignUp` -/
def alignDownA (x a : Nat) : Nat := x - x % a
def alignUpA (x a : Nat) : Nat := alignDownA (x + (a - 1)) a

theorem alignDown_A16 (x a : Nat) (ha : A16 a) : alignDown x a = alignDownA x a := by
  simp only [alignDown, CffiVerif.Generated.LX.fieldOffsetBytes, andNot_A16 x a ha, alignDownA]

theorem alignUp_A16 (x a : Nat) (ha : A16 a) : alignUp x a = alignUpA x a := by
  have h1 : x + a - 1 = x + (a - 1) := by unfold A16 at ha; omega
  simp only [alignUp, CffiVerif.Generated.LX.nbfAlign, andNot_A16 _ a ha, alignUpA, alignDownA, h1]

theorem defaultPacking_def : defaultPacking = 0x40000000 := rfl

theorem packCfg_def (p : Nat) :
    packCfg p = if p = 1 then (1, true) else if p = 0 then (defaultPacking, false) else (p, true) := by
  simp only [packCfg, CffiVerif.Generated.LX.packedPack, CffiVerif.Generated.LX.noPackCond, defaultPacking]
  by_cases h1 : p = 1
  · simp [h1]
  · by_cases h0 : p = 0
    · simp [h0]
    · have : ¬ ((p : Int) ≤ 0) := by omega
      simp [h1, h0, this]

/-- reference form of `St.bump` -/
def bumpRef (alignment byteoffset bitoffset byteoffsetmax : Nat) : St :=
  { byteoffset := byteoffset, bitoffset := bitoffset, alignment := alignment,
    byteoffsetmax :=
      if roundupBytes byteoffset bitoffset > byteoffsetmax
      then roundupBytes byteoffset bitoffset else byteoffsetmax }

theorem bump_def (A x bo m : Nat) : St.bump A x bo m = bumpRef A x bo m := by
  simp only [St.bump, bumpRef, CffiVerif.Generated.LX.maxCond, CffiVerif.Generated.LX.maxNew, roundupBytes]
  by_cases h : CffiVerif.Generated.LX.roundupBytes x bo > m <;> simp [h]

/-- Reference form of `stepC`: the same loop body with the generated expressions replaced by their
arithmetic reading (`stepC_eq_ref`).  The simulation proofs work on this form. -/
def stepCRef (isUnion : Bool) (pack : Nat) (sfPacked : Bool) (isLast : Bool)
    (s : St) (f : FField CField) : Except Reject (St × List CField) :=
  -- if (cffi_get_size(ftype) < 0) { only an array, not a bit-field, in last position }
  if f.size.isNone && !(f.isArray && f.bits.isNone && isLast) then .error .typeError else
  -- if (is_union) byteoffset = bitoffset = 0;
  let byteoffset := if isUnion then 0 else s.byteoffset
  let bitoffset := if isUnion then 0 else s.bitoffset
  let falignorg := f.align
  let falign := if pack < falignorg then pack else falignorg
  -- GCC: anonymous bitfields (of any size) don't cause alignment
  let doAlign := match f.bits with
    | some _ => f.named
    | none => true
  let alignment := if s.alignment < falign && doAlign then falign else s.alignment
  match f.bits with
  | none =>
    -- not a bitfield: pad to the next byte, then to 'falign'
    let byteoffset := alignUp (roundupBytes byteoffset bitoffset) falign
    let outs : List CField :=
      if !f.named && f.isAgg then
        -- a nested anonymous struct or union: its fields are copied at byteoffset + cf_offset
        f.sub.map fun c => { c with offset := byteoffset + c.offset }
      else
        [{ offset := byteoffset, bits := none, fsize := f.size }]
    -- if (ftype->ct_size >= 0) byteoffset += ftype->ct_size;
    let byteoffset := match f.size with
      | some n => byteoffset + n
      | none => byteoffset
    .ok (bumpRef alignment byteoffset 0 s.byteoffsetmax, outs)
  | some fbitsize =>
    if !f.intlike then .error .typeError else     -- "cannot be a bit field"
    match f.size with
    | none => .error .typeError                     -- (already rejected above)
    | some ctSize =>
    if fbitsize > 8 * ctSize then .error .typeError else   -- "exceeds the width of the type"
    let fieldOffsetBytes := alignDown byteoffset falign
    if fbitsize = 0 then
      if f.named then .error .typeError else       -- "is declared with :0"
      -- GCC's notion of "ftype :0;": pad byteoffset to a value aligned for "ftype"
      let fieldOffsetBytes :=
        if roundupBytes byteoffset bitoffset > fieldOffsetBytes
        then fieldOffsetBytes + falign else fieldOffsetBytes
      .ok (bumpRef alignment fieldOffsetBytes 0 s.byteoffsetmax, [])
    else
      -- GCC's algorithm
      let bitsAlreadyOccupied := (byteoffset - fieldOffsetBytes) * 8 + bitoffset
      if bitsAlreadyOccupied + fbitsize > 8 * ctSize then
        -- it would not fit, we need to start at the next allowed position
        if sfPacked && bitsAlreadyOccupied % 8 ≠ 0 then .error .notImplemented else
        let fieldOffsetBytes := fieldOffsetBytes + falign
        let byteoffset := fieldOffsetBytes
        let bitoffset := 0 + fbitsize
        let outs : List CField :=
          if f.named then [{ offset := fieldOffsetBytes, bits := some (0, fbitsize), fsize := some ctSize }] else []
        .ok (bumpRef alignment (byteoffset + bitoffset / 8) (bitoffset % 8) s.byteoffsetmax, outs)
      else
        let bitshift := bitsAlreadyOccupied
        let bitoffset := bitoffset + fbitsize
        let outs : List CField :=
          if f.named then [{ offset := fieldOffsetBytes, bits := some (bitshift, fbitsize), fsize := some ctSize }] else []
        .ok (bumpRef alignment (byteoffset + bitoffset / 8) (bitoffset % 8) s.byteoffsetmax, outs)


open CffiVerif.Generated in
theorem stepC_eq_ref (u : Bool) (pack : Nat) (sfp last : Bool) (s : St) (f : FField CField) :
    stepC u pack sfp last s f = stepCRef u pack sfp last s f := by
  unfold stepC stepCRef
  simp only [bump_def, LX.unionReset, LX.falign, LX.doAlignGuard, LX.gccStyle, LX.doAlignGcc, LX.doAlignMsvc,
    LX.doAlignDefault, LX.alignUpdateCond, LX.alignUpdateNew, LX.nbfRoundup, LX.nbfBitoffset, LX.anonCond,
    LX.anonOffset, LX.nbfOffset, LX.nbfAdvance, LX.tooWide, LX.isZeroWidth, LX.namedCond, LX.zeroWidthPad,
    LX.nextUnit, LX.zeroWidthByteoffset, LX.zeroWidthBitoffset, LX.bitsAlreadyOccupied, LX.fitFails,
    LX.packedReuse, LX.noFitByteoffset, LX.noFitBitoffset, LX.noFitBitshift, LX.fitBitshift, LX.bitoffsetAdd,
    LX.byteoffsetCarry, LX.bitoffsetMask, LX.bfOffset, LX.bfBitshift, LX.bfBitsize,
    sfArm, sfMsvc, fbitsizeOf, fnamelenOf, flagVal]
  have h7 : ∀ x : Nat, x &&& 7 = x % 8 := fun x => Nat.and_two_pow_sub_one_eq_mod x 3
  have h3 : ∀ x : Nat, x >>> 3 = x / 8 := fun x => Nat.shiftRight_eq_div_pow x 3
  cases hb : f.bits with
  | none =>
    cases f.named <;> cases f.isAgg <;> simp [roundupBytes, alignUp] <;> rfl
  | some w =>
    cases hs : f.size with
    | none => simp
    | some sz =>
      cases hn : f.named <;> cases sfp <;> simp [roundupBytes, alignDown, h7, h3] <;> rfl

theorem finishC_ref (s : St) (fields : List CField) :
    finishC s fields =
      { size := if alignUp s.byteoffsetmax s.alignment = 0 then 1 else alignUp s.byteoffsetmax s.alignment,
        align := s.alignment, fields := fields } := by
  simp only [finishC, CffiVerif.Generated.LX.alignedSize, CffiVerif.Generated.LX.sizeIsZero,
    CffiVerif.Generated.LX.sizeIfZero, CffiVerif.Generated.LX.totalSize, CffiVerif.Generated.LX.totalAlignment,
    alignUp, CffiVerif.Generated.LX.nbfAlign]
  by_cases h : CffiVerif.Generated.LX.andNot (s.byteoffsetmax + s.alignment - 1) (s.alignment - 1) = 0 <;> simp [h]

/-! ### arithmetic of the rounding steps -/


theorem alignUp_bytes (b bo a : Nat) (hbo : bo < 8) (ha : A16 a) :
    8 * alignUp (roundupBytes b bo) a = roundUp (8 * b + bo) (8 * a) := by
  rw [alignUp_A16 _ _ ha, roundupBytes_def]
  rcases ha with rfl | rfl | rfl | rfl | rfl <;>
    simp only [alignUpA, alignDownA, roundUp] <;> split <;> omega

theorem zero_width (b bo a : Nat) (hbo : bo < 8) (ha : A16 a) :
    8 * (if roundupBytes b bo > alignDown b a then alignDown b a + a else alignDown b a)
      = roundUp (8 * b + bo) (8 * a) := by
  rw [alignDown_A16 _ _ ha, roundupBytes_def]
  rcases ha with rfl | rfl | rfl | rfl | rfl <;>
    simp only [alignDownA, roundUp] <;> split <;> split <;> omega

theorem bits_occupied (b bo a : Nat) (hbo : bo < 8) (ha : A16 a) :
    (b - alignDown b a) * 8 + bo = (8 * b + bo) % (8 * a) := by
  rw [alignDown_A16 _ _ ha]
  rcases ha with rfl | rfl | rfl | rfl | rfl <;> simp only [alignDownA] <;> omega

theorem next_unit (b bo a : Nat) (hbo : bo < 8) (ha : A16 a) (h : (8 * b + bo) % (8 * a) ≠ 0) :
    8 * (alignDown b a + a) = roundUp (8 * b + bo) (8 * a) := by
  rw [alignDown_A16 _ _ ha]
  rcases ha with rfl | rfl | rfl | rfl | rfl <;> simp only [alignDownA, roundUp] at * <;> omega

theorem unit_start (b bo a : Nat) (hbo : bo < 8) (ha : A16 a) :
    8 * alignDown b a + (8 * b + bo) % (8 * a) = 8 * b + bo := by
  rw [alignDown_A16 _ _ ha]
  rcases ha with rfl | rfl | rfl | rfl | rfl <;> simp only [alignDownA] <;> omega

theorem final_size (m a : Nat) (ha : A16 a) : alignUp m a = roundUp m a := by
  rw [alignUp_A16 _ _ ha]
  rcases ha with rfl | rfl | rfl | rfl | rfl <;> simp only [alignUpA, alignDownA, roundUp] <;> omega

theorem bump_max (x bo m : Nat) (hbo : bo < 8) :
    (if roundupBytes x bo > (m + 7) / 8 then roundupBytes x bo else (m + 7) / 8) = (max m (8 * x + bo) + 7) / 8 := by
  simp only [roundupBytes_def]; split <;> split <;> omega

/-- how a `CFieldObject` denotes bits of the object: the field starts at bit
`8·cf_offset + cf_bitshift` (little endian) -/
def canon (c : CField) : GField :=
  match c.bits with
  | none => { bitpos := 8 * c.offset, width := none }
  | some (sh, w) => { bitpos := 8 * c.offset + sh, width := some w }

def toG (f : FField CField) : FField GField :=
  { named := f.named, size := f.size, align := f.align, bits := f.bits, intlike := f.intlike,
    isArray := f.isArray, isAgg := f.isAgg, sub := f.sub.map canon }

def PackOK (p : Nat) : Prop := p = 0 ∨ ∃ k, p = 2 ^ k

structure WFField (p : Nat) (isLast : Bool) (f : FField CField) : Prop where
  align : A16 f.align
  bits : ∀ w, f.bits = some w → p = 0 ∧ f.intlike = true ∧ (∃ sz, f.size = some sz ∧ w ≤ 8 * sz ∧ sz ≤ f.align)
            ∧ (w = 0 → f.named = false)
  flex : f.size = none → f.isArray = true ∧ f.bits = none ∧ isLast = true

def WFList (p : Nat) : List (FField CField) → Prop
  | [] => True
  | f :: rest => WFField p rest.isEmpty f ∧ WFList p rest

structure R (s : St) (g : GSt) : Prop where
  cursor : g.cursor = 8 * s.byteoffset + s.bitoffset
  bit : s.bitoffset < 8
  max : s.byteoffsetmax = (g.maxbits + 7) / 8
  align : s.alignment = g.align
  a16 : A16 g.align

theorem pow_cases (k : Nat) : 2 ^ k = 1 ∨ 2 ^ k = 2 ∨ 2 ^ k = 4 ∨ 2 ^ k = 8 ∨ 16 ≤ 2 ^ k := by
  match k with
  | 0 => simp
  | 1 => simp
  | 2 => simp
  | 3 => simp
  | k + 4 =>
    have : 0 < 2 ^ k := Nat.two_pow_pos k
    rw [Nat.pow_add]; omega

theorem falign_eq (p a : Nat) (hp : PackOK p) (ha : A16 a) :
    (if (packCfg p).1 < a then (packCfg p).1 else a) = capAlign p a ∧ A16 (capAlign p a) := by
  have key : ∀ q, (q = 0 ∨ q = 1 ∨ q = 2 ∨ q = 4 ∨ q = 8 ∨ 16 ≤ q) →
      (if (packCfg q).1 < a then (packCfg q).1 else a) = capAlign q a ∧ A16 (capAlign q a) := by
    intro q hq
    simp only [packCfg_def, defaultPacking_def]
    unfold capAlign A16 at *
    simp only [Nat.min_def]
    by_cases h1 : q = 1
    · subst h1; simp only [if_true]; refine ⟨?_, ?_⟩ <;> (repeat' split) <;> omega
    · by_cases h0 : q = 0
      · subst h0; simp only [h1, if_true, if_false]; refine ⟨?_, ?_⟩ <;> (repeat' split) <;> omega
      · simp only [h1, h0, if_false]; refine ⟨?_, ?_⟩ <;> (repeat' split) <;> omega
  rcases hp with rfl | ⟨k, rfl⟩
  · exact key 0 (Or.inl rfl)
  · exact key _ (Or.inr (pow_cases k))

theorem A16_max {a b : Nat} (ha : A16 a) (hb : A16 b) : A16 (max a b) := by
  unfold A16 at *; omega
theorem size_check (last : Bool) (f : FField CField) (p : Nat) (hf : WFField p last f) :
    (f.size.isNone && !(f.isArray && f.bits.isNone && last)) = false := by
  cases hs : f.size with
  | some n => simp
  | none => obtain ⟨h1, h2, h3⟩ := hf.flex hs; simp [h1, h2, h3]

theorem R_bump (A x bo bmax : Nat) (g : GSt) (c A' : Nat) (h1 : c = 8 * x + bo) (hbo : bo < 8)
    (hmax : bmax = (g.maxbits + 7) / 8) (hA : A = A') (h16 : A16 A') :
    R (bumpRef A x bo bmax) (place g c A') := by
  subst hA h1 hmax
  exact ⟨rfl, hbo, bump_max x bo g.maxbits hbo, rfl, h16⟩

theorem align_named (sa ga a : Nat) (named : Bool) (hal : sa = ga) :
    (if (decide (sa < a) && named) = true then a else sa) = (if named = true then max ga a else ga) := by
  subst hal
  cases named <;> simp
  by_cases h : sa < a <;> simp [h] <;> omega

theorem step_sim (u : Bool) (p : Nat) (last : Bool) (s : St) (g : GSt) (f : FField CField)
    (hp : PackOK p) (hf : WFField p last f) (hR : R s g) :
    ∃ s' o, stepC u (packCfg p).1 (packCfg p).2 last s f = .ok (s', o) ∧
      R s' (gStep u p g (toG f)).1 ∧ o.map canon = (gStep u p g (toG f)).2 := by
  have hsz := size_check last f p hf
  obtain ⟨hcur, hbit, hmax, hal, ha16⟩ := hR
  obtain ⟨hfa, hfb, hfx⟩ := hf
  obtain ⟨hfal, hfa16⟩ := falign_eq p f.align hp hfa
  cases hb : f.bits with
  | none =>
    rw [hb] at hsz
    rw [stepC_eq_ref]
    unfold stepCRef gStep
    simp only [hb, hsz, toG, hfal, Bool.false_eq_true, if_false, Bool.and_true]
    have hcur0 : (if u = true then 0 else g.cursor) =
        8 * (if u = true then 0 else s.byteoffset) + (if u = true then 0 else s.bitoffset) := by
      cases u <;> simp [hcur]
    have hbit0 : (if u = true then 0 else s.bitoffset) < 8 := by cases u <;> simp [hbit]
    rw [hcur0]
    generalize (if u = true then 0 else s.byteoffset) = b0 at *
    generalize (if u = true then 0 else s.bitoffset) = bo0 at *
    have key := alignUp_bytes b0 bo0 _ hbit0 hfa16
    generalize alignUp (roundupBytes b0 bo0) (capAlign p f.align) = B at *
    generalize roundUp (8 * b0 + bo0) (8 * capAlign p f.align) = P at *
    refine ⟨_, _, rfl, ?_, ?_⟩
    · have hA : (if decide (s.alignment < capAlign p f.align) = true then capAlign p f.align else s.alignment)
          = max g.align (capAlign p f.align) := by
        rw [hal]; by_cases h : g.align < capAlign p f.align <;> simp [h] <;> omega
      rw [hA]
      cases f.size <;>
      · simp only [bumpRef, place, roundupBytes_def, Nat.lt_irrefl, if_false, Nat.add_zero]
        refine ⟨by simp only []; omega, by simp only []; omega, ?_, rfl, A16_max ha16 hfa16⟩
        simp only [hmax]; split <;> omega
    · by_cases h : (!f.named && f.isAgg) = true
      · simp only [h, if_true, List.map_map]
        apply List.map_congr_left
        intro c _
        simp only [Function.comp, canon]
        cases c.bits with
        | none => simp only [GField.mk.injEq, and_true]; omega
        | some q => simp only [GField.mk.injEq, and_true]; omega
      · simp only [h, Bool.false_eq_true, if_false, List.map, canon, key]
  | some w =>
    obtain ⟨hp0, hint, ⟨sz, hsize, hw, hsza⟩, hnamed⟩ := hfb w hb
    subst hp0
    have hcap : capAlign 0 f.align = f.align := by simp [capAlign]
    rw [hcap] at hfal hfa16
    have hpk : (packCfg 0).2 = false := by simp [packCfg_def]
    rw [hb] at hsz
    have hcur0 : (if u = true then 0 else g.cursor) =
        8 * (if u = true then 0 else s.byteoffset) + (if u = true then 0 else s.bitoffset) := by
      cases u <;> simp [hcur]
    have hbit0 : (if u = true then 0 else s.bitoffset) < 8 := by cases u <;> simp [hbit]
    rw [stepC_eq_ref]
    unfold stepCRef gStep
    simp only [hb, toG, hfal, hcap, hpk, hint, hsize, Bool.false_eq_true, if_false, Bool.not_true, Bool.false_and]
    rw [hcur0]
    generalize (if u = true then 0 else s.byteoffset) = b0 at *
    generalize (if u = true then 0 else s.bitoffset) = bo0 at *
    simp only [Option.isNone_some, Bool.false_and, Bool.false_eq_true, if_false]
    have hnw : ¬ (w > 8 * sz) := by omega
    simp only [hnw, if_false]
    have hocc := bits_occupied b0 bo0 f.align hbit0 hfa16
    rw [hocc]
    have hA := align_named s.alignment g.align f.align f.named hal
    have hA16 : A16 (if f.named = true then max g.align f.align else g.align) := by
      cases f.named <;> simp <;> first | exact ha16 | exact A16_max ha16 hfa16
    cases w with
    | zero =>
      have hn := hnamed rfl
      simp only [hn, Bool.false_eq_true, if_false]
      refine ⟨_, _, rfl, ?_, rfl⟩
      apply R_bump _ _ _ _ _ _ _ _ (by omega) hmax (by simp [hal]) ha16
      have := zero_width b0 bo0 f.align hbit0 hfa16
      omega
    | succ w' =>
      simp only [Nat.succ_ne_zero, if_false]
      by_cases hfit : (8 * b0 + bo0) % (8 * f.align) + (w' + 1) > 8 * sz
      · simp only [hfit, if_true]
        have hne : (8 * b0 + bo0) % (8 * f.align) ≠ 0 := by omega
        have hnext := next_unit b0 bo0 f.align hbit0 hfa16 hne
        refine ⟨_, _, rfl, ?_, ?_⟩
        · apply R_bump _ _ _ _ _ _ _ _ (Nat.mod_lt _ (by omega)) hmax hA hA16
          omega
        · cases f.named <;> simp [canon]
          omega
      · simp only [hfit, if_false]
        have hstart := unit_start b0 bo0 f.align hbit0 hfa16
        refine ⟨_, _, rfl, ?_, ?_⟩
        · apply R_bump _ _ _ _ _ _ _ _ (Nat.mod_lt _ (by omega)) hmax hA hA16
          omega
        · cases f.named <;> simp [canon]
          omega

theorem R_init : R St.init GSt.init :=
  ⟨rfl, by decide, rfl, rfl, Or.inl rfl⟩

theorem loop_sim (u : Bool) (p : Nat) (hp : PackOK p) :
    ∀ (fs : List (FField CField)) (s : St) (g : GSt), WFList p fs → R s g →
      ∃ s' os, loopC u (packCfg p).1 (packCfg p).2 fs s = .ok (s', os) ∧
        R s' (gLoop u p (fs.map toG) g).1 ∧ os.map canon = (gLoop u p (fs.map toG) g).2
  | [], s, g, _, hR => ⟨s, [], rfl, hR, rfl⟩
  | f :: rest, s, g, hw, hR => by
    obtain ⟨s1, o1, h1, hR1, ho1⟩ := step_sim u p rest.isEmpty s g f hp hw.1 hR
    obtain ⟨s2, o2, h2, hR2, ho2⟩ := loop_sim u p hp rest s1 _ hw.2 hR1
    refine ⟨s2, o1 ++ o2, ?_, ?_, ?_⟩
    · simp only [loopC, h1, h2]
    · simpa only [List.map, gLoop] using hR2
    · simp only [List.map, gLoop, List.map_append, ho1, ho2]

/-- The flat theorem: on any well-formed list of members whose types are already
laid out, cffi's loop accepts and yields the compiler's alignment and member
positions; the size differs exactly by the "size 0 becomes 1" rule. -/
theorem flat_eq (u : Bool) (p : Nat) (fs : List (FField CField)) (hp : PackOK p) (hw : WFList p fs) :
    ∃ l, completeC u p fs = .ok l ∧
      l.align = (completeG u p (fs.map toG)).align ∧
      l.fields.map canon = (completeG u p (fs.map toG)).fields ∧
      l.size = (if (completeG u p (fs.map toG)).size = 0 then 1 else (completeG u p (fs.map toG)).size) ∧
      A16 l.align := by
  obtain ⟨s', os, h, hR, ho⟩ := loop_sim u p hp fs St.init GSt.init hw R_init
  refine ⟨finishC s' os, by simp only [completeC, h], ?_, ?_, ?_, ?_⟩
  · simp only [finishC_ref, completeG, gFinish, hR.align]
  · simp only [finishC_ref, completeG, gFinish, ho]
  · simp only [finishC_ref, completeG, gFinish, hR.align, hR.max, final_size _ _ hR.a16]; rfl
  · simp only [finishC_ref, hR.align]; exact hR.a16

/-! ### `x & ~(a-1)` is `x - x % a` for powers of two -/

theorem nat_andnot (X N k : Nat) (hX : X < 2 ^ N) (hk : k ≤ N) :
    X &&& (2 ^ N - 1 - (2 ^ k - 1)) = X - X % 2 ^ k := by
  have h1 : X - X % 2 ^ k = (X >>> k) <<< k := by
    rw [Nat.shiftLeft_eq, Nat.shiftRight_eq_div_pow]
    have := Nat.div_add_mod X (2 ^ k)
    rw [Nat.mul_comm] at this
    omega
  rw [h1]
  have hpk : 2 ^ k - 1 < 2 ^ N := by
    have : 2 ^ k ≤ 2 ^ N := Nat.pow_le_pow_right (by omega) hk
    have : 0 < 2 ^ k := Nat.two_pow_pos k
    omega
  have hM : 2 ^ N - 1 - (2 ^ k - 1) = 2 ^ N - ((2 ^ k - 1) + 1) := by omega
  rw [hM]
  apply Nat.eq_of_testBit_eq
  intro i
  rw [Nat.testBit_and, Nat.testBit_two_pow_sub_succ hpk, Nat.testBit_two_pow_sub_one,
    Nat.testBit_shiftLeft, Nat.testBit_shiftRight]
  by_cases hik : i < k
  · have : ¬ (i ≥ k) := by omega
    simp [hik, this]
  · have hge : i ≥ k := by omega
    have e : k + (i - k) = i := by omega
    simp only [hik, hge, e, decide_true, decide_false, Bool.not_false, Bool.and_true, Bool.true_and]
    by_cases hiN : i < N
    · simp [hiN]
    · have : X < 2 ^ i := Nat.lt_of_lt_of_le hX (Nat.pow_le_pow_right (by omega) (by omega))
      simp [hiN, Nat.testBit_lt_two_pow this]

theorem andnot_mask_eq (x : BitVec 64) (k : Nat) (hk : k < 64) :
    x &&& ~~~(BitVec.twoPow 64 k - 1) = x - x % BitVec.twoPow 64 k := by
  apply BitVec.eq_of_toNat_eq
  have hpos : 0 < 2 ^ k := Nat.two_pow_pos k
  have hlt : 2 ^ k < 2 ^ 64 := Nat.pow_lt_pow_right (by omega) hk
  have h2 : (BitVec.twoPow 64 k).toNat = 2 ^ k := BitVec.toNat_twoPow_of_lt hk
  have hm : (BitVec.twoPow 64 k - 1).toNat = 2 ^ k - 1 := by
    rw [BitVec.toNat_sub_of_le]
    · rw [h2]; rfl
    · rw [BitVec.le_def, h2]; show 1 ≤ 2 ^ k; omega
  have hle : x % BitVec.twoPow 64 k ≤ x := by
    rw [BitVec.le_def, BitVec.toNat_umod]; exact Nat.mod_le _ _
  rw [BitVec.toNat_and, BitVec.toNat_not, hm, BitVec.toNat_sub_of_le hle, BitVec.toNat_umod, h2]
  exact nat_andnot x.toNat 64 k x.isLt (by omega)

end CffiVerif.Layout
