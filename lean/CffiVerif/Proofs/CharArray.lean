/-
Helper lemmas about the character-array model (`Model/CharArray.lean`): the three
scans of `ffi.string` against one specification (`takeWhile` of the non-zero
units inside the window), and what `convert_array_from_object` stores.
-/
import CffiVerif.Model.CharArray
import CffiVerif.Proofs.Utf16
namespace CffiVerif.CharArray
open CffiVerif.Utf16

/-- "not the terminator" -/
def nz (u : Nat) : Bool := u != 0

theorem nz_zero : nz 0 = false := rfl
theorem nz_of_ne {u : Nat} (h : u ≠ 0) : nz u = true := by simp [nz, h]

theorem take_takeWhile_length (p : Nat → Bool) (mem : Units) (len : Nat) :
    mem.take ((mem.take len).takeWhile p).length = (mem.take len).takeWhile p := by
  induction mem generalizing len with
  | nil => simp
  | cons a tl ih =>
    cases len with
    | zero => simp
    | succ m =>
      simp only [List.take_succ_cons, List.takeWhile_cons]
      cases p a with
      | true => simp [ih m]
      | false => simp

theorem scanLoop_spec (mem : Units) (len : Nat) (h : len ≤ mem.length ∨ 0 ∈ mem.take len) :
    scanLoop mem len = .ok ((mem.take len).takeWhile nz).length := by
  induction mem generalizing len with
  | nil =>
    cases len with
    | zero => rfl
    | succ m => simp at h
  | cons a tl ih =>
    cases len with
    | zero => rfl
    | succ m =>
      rw [scanLoop]
      by_cases ha : a = 0
      · subst ha; simp [nz]
      · have h' : m ≤ tl.length ∨ 0 ∈ tl.take m := by
          rcases h with h | h
          · left; simpa using h
          · right
            simp only [List.take_succ_cons, List.mem_cons] at h
            rcases h with h | h
            · exact absurd h.symm ha
            · exact h
        simp only [ha, if_false, ih m h', List.take_succ_cons, List.takeWhile_cons, nz_of_ne ha,
          if_true, List.length_cons]

theorem idxOf_zero_eq (l : Units) : l.idxOf 0 = (l.takeWhile nz).length := by
  induction l with
  | nil => rfl
  | cons a tl ih =>
    by_cases ha : a = 0
    · subst ha; simp [nz]
    · rw [List.idxOf_cons]
      have : (a == 0) = false := by simp [ha]
      simp [this, ih, nz_of_ne ha]

theorem takeWhile_nz_eq_self (l : Units) (h : 0 ∉ l) : l.takeWhile nz = l := by
  induction l with
  | nil => rfl
  | cons a tl ih =>
    have ha : a ≠ 0 := fun e => h (by simp [e])
    simp [nz_of_ne ha, ih (fun m => h (by simp [m]))]

theorem scanMemchr_spec (mem : Units) (len : Nat) (h : len ≤ mem.length ∨ 0 ∈ mem.take len) :
    scanMemchr mem len = .ok ((mem.take len).takeWhile nz).length := by
  unfold scanMemchr
  by_cases hz : 0 ∈ mem.take len
  · simp only [hz, if_true, idxOf_zero_eq]
  · have hl : len ≤ mem.length := by rcases h with h | h; exact h; exact absurd h hz
    simp only [hz, if_false, hl, if_true, takeWhile_nz_eq_self _ hz, List.length_take]
    congr 1; omega

theorem scanUnbounded_spec (mem : Units) (h : 0 ∈ mem) :
    scanUnbounded mem = .ok (mem.takeWhile nz).length := by
  induction mem with
  | nil => simp at h
  | cons a tl ih =>
    rw [scanUnbounded]
    by_cases ha : a = 0
    · subst ha; simp [nz]
    · have : 0 ∈ tl := by
        simp only [List.mem_cons] at h
        rcases h with h | h
        · exact absurd h.symm ha
        · exact h
      simp only [ha, if_false, ih this, List.takeWhile_cons, nz_of_ne ha, if_true, List.length_cons]

theorem store_ok (mem out : Units) (h : out.length ≤ mem.length) :
    store mem out = .ok (out ++ mem.drop out.length) := by
  simp [store, h]

theorem bump_ne (len n : Nat) (h : n ≠ len) : bump (some len) n = n + 1 := by
  have : ¬ (some len = some n) := by intro e; injection e with e; exact h e.symm
  simp [bump, this]

theorem bump_eq (n : Nat) : bump (some n) n = n := by simp [bump]
theorem bump_none (n : Nat) : bump none n = n + 1 := by simp [bump]

theorem tooLong_some (len n : Nat) : tooLong (some len) n = decide (n > len) := rfl
theorem tooLong_none (n : Nat) : tooLong none n = false := rfl

theorem take_append_one (l : Units) : List.take (l.length + 1) (l ++ [0]) = l ++ [0] := by
  apply List.take_of_length_le; simp

/-- What `convert_array_from_object` stores, given the count after `n++`:
the string's units and, iff the count exceeds them, one zero. -/
theorem convertArray_general (w : Width) (ctLength : Option Nat) (mem : Units) (init : PyVal) (u : Units)
    (hu : unitsOf w init = .ok u) (hfit : tooLong ctLength u.length = false) :
    convertArray w ctLength mem init =
      store mem (if u.length < bump ctLength u.length then u ++ [0] else u) := by
  have hb : bump ctLength u.length = u.length ∨ bump ctLength u.length = u.length + 1 := by
    unfold bump; split <;> simp
  cases w <;> cases init <;> simp only [unitsOf, reduceCtorEq] at hu
  · -- char
    injection hu with hu; subst hu
    simp only [convertArray, hfit, Bool.false_eq_true, if_false]
    rcases hb with hb | hb
    · simp [hb]
    · simp [hb, take_append_one]
  · -- char16_t
    next s =>
    have hl := encode16_length s u hu
    simp only [convertArray, ← hl, hfit, Bool.false_eq_true, if_false, asChar16, hu]
  · -- char32_t
    next s =>
    injection hu with hu; subst hu
    simp only [convertArray, size32, hfit, Bool.false_eq_true, if_false, asChar32]
    rcases hb with hb | hb <;> simp [hb]

theorem convertArray_shorter (w : Width) (len : Nat) (mem : Units) (init : PyVal) (u : Units)
    (hm : mem.length = len) (hu : unitsOf w init = .ok u) (hlt : u.length < len) :
    convertArray w (some len) mem init = .ok (u ++ [0] ++ mem.drop (u.length + 1)) := by
  rw [convertArray_general w _ mem init u hu (by simp [tooLong_some]; omega),
    bump_ne len u.length (by omega)]
  simp only [Nat.lt_succ_self, if_true]
  rw [store_ok _ _ (by simp; omega)]
  simp

theorem convertArray_exact (w : Width) (len : Nat) (mem : Units) (init : PyVal) (u : Units)
    (hm : mem.length = len) (hu : unitsOf w init = .ok u) (heq : u.length = len) :
    convertArray w (some len) mem init = .ok u := by
  subst heq
  rw [convertArray_general w _ mem init u hu (by simp [tooLong_some]), bump_eq]
  simp only [Nat.lt_irrefl, if_false]
  rw [store_ok _ _ (by omega)]
  simp [hm]

theorem convertArray_tooLong (w : Width) (len : Nat) (mem : Units) (init : PyVal) (u : Units)
    (hu : unitsOf w init = .ok u) (hgt : u.length > len) :
    convertArray w (some len) mem init = .error .indexError := by
  cases w <;> cases init <;> simp only [unitsOf, reduceCtorEq] at hu
  · injection hu with hu; subst hu
    simp [convertArray, tooLong_some, hgt]
  · next s =>
    have hl := encode16_length s u hu
    simp [convertArray, tooLong_some, ← hl, hgt]
  · next s =>
    injection hu with hu; subst hu
    simp [convertArray, tooLong_some, size32, hgt]

theorem newArrayLength_eq (w : Width) (init : PyVal) (u : Units) (hu : unitsOf w init = .ok u) :
    newArrayLength w init = u.length + 1 := by
  cases w <;> cases init <;> simp only [unitsOf, reduceCtorEq] at hu
  · injection hu with hu; subst hu; rfl
  · next s => simp [newArrayLength, encode16_length s u hu]
  · next s => injection hu with hu; subst hu; simp [newArrayLength, size32]

theorem newOpen_eq (w : Width) (init : PyVal) (u : Units) (hu : unitsOf w init = .ok u) :
    newOpen w init = .ok (u ++ [0]) := by
  unfold newOpen
  rw [newArrayLength_eq w init u hu, convertArray_general w _ _ init u hu (tooLong_none _), bump_none]
  simp only [Nat.lt_succ_self, if_true]
  rw [store_ok _ _ (by simp)]
  simp

theorem encode16_no_zero (s : Str) (u : Units) (h : encode16 s = .ok u) (hz : 0 ∉ s) : 0 ∉ u := by
  induction s generalizing u with
  | nil => simp [encode16] at h; subst h; simp
  | cons c cs ih =>
    have hc : c ≠ 0 := fun e => hz (by simp [e])
    have hz' : 0 ∉ cs := fun m => hz (by simp [m])
    by_cases hb : c ≤ 0xFFFF
    · rw [encode16_cons_bmp c cs hb] at h
      cases hr : encode16 cs with
      | error e => simp [hr] at h
      | ok r =>
        simp only [hr] at h; injection h with h; subst h
        have := ih r hr hz'
        simp only [List.mem_cons, not_or]
        exact ⟨fun e => hc e.symm, this⟩
    · by_cases hv : c ≤ 0x10FFFF
      · rw [encode16_cons_astral c cs (by omega) hv] at h
        cases hr : encode16 cs with
        | error e => simp [hr] at h
        | ok r =>
          simp only [hr] at h; injection h with h; subst h
          have := ih r hr hz'
          simp only [List.mem_cons, not_or]
          exact ⟨by omega, by omega, this⟩
      · rw [encode16] at h
        have h1 : c > 0xFFFF := by omega
        have h2 : c > 0x10FFFF := by omega
        simp [h1, h2] at h

end CffiVerif.CharArray
