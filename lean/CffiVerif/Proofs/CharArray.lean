/-
Helper lemmas about the character-array model (`Model/CharArray.lean`): the three
scans of `ffi.string` against one specification (`takeWhile` of the non-zero
units inside the window), and what `convert_array_from_object` stores.
-/
import CffiVerif.Model.CharArray
import CffiVerif.Proofs.Utf16
namespace CffiVerif.CharArray
open CffiVerif.Utf16 CffiVerif.Generated.CharExprs

/-! ### what the generated definitions mean -/

@[simp] theorem caTooLong_eq (n ctLength : Int) : caTooLong n ctLength = (decide (ctLength ≥ 0) && decide (n > ctLength)) := by
  unfold caTooLong; rfl
@[simp] theorem caAddNul_eq (n ctLength : Int) : caAddNul n ctLength = (n != ctLength) := by
  unfold caAddNul; rfl
@[simp] theorem nalBytes_eq (size : Nat) : nalBytes size = size + 1 := by unfold nalBytes; rfl
@[simp] theorem nalUnicode_eq (length : Nat) : nalUnicode length = length + 1 := by unfold nalUnicode; rfl
@[simp] theorem nalUse16_eq (itemsize : Nat) : nalUse16 itemsize = (itemsize == 2) := by unfold nalUse16; rfl
@[simp] theorem strUseArrayLen_eq (length : Int) (isArray : Bool) :
    strUseArrayLen length isArray = (decide (length < 0) && isArray) := by unfold strUseArrayLen; rfl
@[simp] theorem strUnbounded_eq (length : Int) : strUnbounded length = decide (length < 0) := by
  unfold strUnbounded; rfl
@[simp] theorem scanGoUnbounded_eq (unit : Nat) : scanGoUnbounded unit = (unit != 0) := by
  unfold scanGoUnbounded; rfl
@[simp] theorem scanInWindow_eq (length maxlen : Nat) : scanInWindow length maxlen = decide (length < maxlen) := by
  unfold scanInWindow; rfl
@[simp] theorem scanNonZero_eq (unit : Nat) : scanNonZero unit = (unit != 0) := by unfold scanNonZero; rfl

/-- The window of `ffi.string`: `maxlen` when given, else the array length (if an array). -/
theorem effLength_eq (maxlen arrayLen : Option Nat) :
    effLength maxlen arrayLen = (match maxlen with | some m => some m | none => arrayLen) := by
  unfold effLength
  cases maxlen with
  | some m =>
    have : ¬ ((m : Int) < 0) := by omega
    simp [ctLengthInt, this]
  | none => cases arrayLen <;> simp [ctLengthInt]

theorem cstringUnits_none (w : Width) (mem : Units) :
    cstringUnits w mem none = (match scanUnbounded mem with | .ok k => .ok (mem.take k) | .error e => .error e) := by
  simp only [cstringUnits, strUnbounded_eq]
  cases scanUnbounded mem <;> rfl

theorem cstringUnits_some (w : Width) (mem : Units) (len : Nat) :
    cstringUnits w mem (some len) =
      (match (if w = Width.w1 then scanMemchr mem len else scanLoop mem len) with
        | .ok k => .ok (mem.take k) | .error e => .error e) := by
  have : ¬ ((len : Int) < 0) := by omega
  simp only [cstringUnits, strUnbounded_eq, this, decide_false, Bool.false_eq_true, if_false]
  cases (if w = Width.w1 then scanMemchr mem len else scanLoop mem len) <;> rfl

/-- "not the terminator" -/
def nz (u : Nat) : Bool := u != 0

theorem nz_zero : nz 0 = false := rfl
theorem nz_of_ne {u : Nat} (h : u ≠ 0) : nz u = true := by simp [nz, h]

theorem take_takeWhile_length (p : Nat → Bool) (mem : Units) (len : Nat) :
    mem.take ((mem.take len).takeWhile p).length = (mem.take len).takeWhile p := by
  induction mem generalizing len with
  | nil => simp
  | cons a tl ih =>
    cases len with
    | zero => simp
    | succ m =>
      simp only [List.take_succ_cons, List.takeWhile_cons]
      cases p a with
      | true => simp [ih m]
      | false => simp

theorem scanLoopFrom_spec (maxlen : Nat) (rest : Units) (length : Nat) (hle : length ≤ maxlen)
    (h : maxlen - length ≤ rest.length ∨ 0 ∈ rest.take (maxlen - length)) :
    scanLoopFrom maxlen rest length = .ok (length + ((rest.take (maxlen - length)).takeWhile nz).length) := by
  induction rest generalizing length with
  | nil =>
    have : maxlen - length = 0 := by
      rcases h with h | h
      · simpa using h
      · simp at h
    have hnl : ¬ length < maxlen := by omega
    simp [scanLoopFrom, hnl]
  | cons a tl ih =>
    rw [scanLoopFrom]
    by_cases hw : length < maxlen
    · obtain ⟨m, hm⟩ : ∃ m, maxlen - length = m + 1 := ⟨maxlen - length - 1, by omega⟩
      by_cases ha : a = 0
      · subst ha; simp [hm, nz]
      · have h' : maxlen - (length + 1) ≤ tl.length ∨ 0 ∈ tl.take (maxlen - (length + 1)) := by
          have e : maxlen - (length + 1) = m := by omega
          rw [e]; rw [hm] at h
          rcases h with h | h
          · left; simpa using h
          · right
            simp only [List.take_succ_cons, List.mem_cons] at h
            rcases h with h | h
            · exact absurd h.symm ha
            · exact h
        have e : maxlen - (length + 1) = m := by omega
        have hgo : (scanInWindow length maxlen && scanNonZero a) = true := by simp [hw, ha]
        rw [if_pos hgo, ih (length + 1) (by omega) h', hm, e]
        simp only [List.take_succ_cons, List.takeWhile_cons, nz_of_ne ha, if_true, List.length_cons]
        congr 1; omega
    · have : maxlen - length = 0 := by omega
      simp [hw, this]

theorem scanLoop_spec (mem : Units) (len : Nat) (h : len ≤ mem.length ∨ 0 ∈ mem.take len) :
    scanLoop mem len = .ok ((mem.take len).takeWhile nz).length := by
  unfold scanLoop
  rw [scanLoopFrom_spec len mem 0 (Nat.zero_le _) (by simpa using h)]
  simp

theorem idxOf_zero_eq (l : Units) : l.idxOf 0 = (l.takeWhile nz).length := by
  induction l with
  | nil => rfl
  | cons a tl ih =>
    by_cases ha : a = 0
    · subst ha; simp [nz]
    · rw [List.idxOf_cons]
      have : (a == 0) = false := by simp [ha]
      simp [this, ih, nz_of_ne ha]

theorem takeWhile_nz_eq_self (l : Units) (h : 0 ∉ l) : l.takeWhile nz = l := by
  induction l with
  | nil => rfl
  | cons a tl ih =>
    have ha : a ≠ 0 := fun e => h (by simp [e])
    simp [nz_of_ne ha, ih (fun m => h (by simp [m]))]

theorem scanMemchr_spec (mem : Units) (len : Nat) (h : len ≤ mem.length ∨ 0 ∈ mem.take len) :
    scanMemchr mem len = .ok ((mem.take len).takeWhile nz).length := by
  unfold scanMemchr
  by_cases hz : 0 ∈ mem.take len
  · simp only [hz, if_true, idxOf_zero_eq]
  · have hl : len ≤ mem.length := by rcases h with h | h; exact h; exact absurd h hz
    simp only [hz, if_false, hl, if_true, takeWhile_nz_eq_self _ hz, List.length_take]
    congr 1; omega

theorem scanUnbounded_spec (mem : Units) (h : 0 ∈ mem) :
    scanUnbounded mem = .ok (mem.takeWhile nz).length := by
  induction mem with
  | nil => simp at h
  | cons a tl ih =>
    rw [scanUnbounded]
    by_cases ha : a = 0
    · subst ha; simp [nz]
    · have : 0 ∈ tl := by
        simp only [List.mem_cons] at h
        rcases h with h | h
        · exact absurd h.symm ha
        · exact h
      have hgo : scanGoUnbounded a = true := by simp [ha]
      simp only [hgo, if_true, ih this, List.takeWhile_cons, nz_of_ne ha, List.length_cons]

theorem store_ok (mem out : Units) (h : out.length ≤ mem.length) :
    store mem out = .ok (out ++ mem.drop out.length) := by
  simp [store, h]

theorem bump_ne (len n : Nat) (h : n ≠ len) : bump (some len) n = n + 1 := by
  have : ¬ ((n : Int) = (len : Int)) := by omega
  simp [bump, ctLengthInt, this]

theorem bump_eq (n : Nat) : bump (some n) n = n := by simp [bump, ctLengthInt]
theorem bump_none (n : Nat) : bump none n = n + 1 := by
  have : ¬ ((n : Int) = -1) := by omega
  simp [bump, ctLengthInt, this]

theorem bump_cases (ctLength : Option Nat) (n : Nat) : bump ctLength n = n ∨ bump ctLength n = n + 1 := by
  unfold bump; split <;> simp

theorem tooLong_some (len n : Nat) : tooLong (some len) n = decide (n > len) := by
  simp [tooLong, ctLengthInt]
theorem tooLong_none (n : Nat) : tooLong none n = false := by
  simp [tooLong, ctLengthInt]

theorem take_append_one (l : Units) : List.take (l.length + 1) (l ++ [0]) = l ++ [0] := by
  apply List.take_of_length_le; simp

/-- What `convert_array_from_object` stores, given the count after `n++`:
the string's units and, iff the count exceeds them, one zero. -/
theorem convertArray_general (w : Width) (ctLength : Option Nat) (mem : Units) (init : PyVal) (u : Units)
    (hu : unitsOf w init = .ok u) (hfit : tooLong ctLength u.length = false) :
    convertArray w ctLength mem init =
      store mem (if u.length < bump ctLength u.length then u ++ [0] else u) := by
  have hb := bump_cases ctLength u.length
  cases w <;> cases init <;> simp only [unitsOf, reduceCtorEq] at hu
  · -- char
    injection hu with hu; subst hu
    simp only [convertArray, hfit, Bool.false_eq_true, if_false]
    rcases hb with hb | hb
    · simp [hb]
    · simp [hb, take_append_one]
  · -- char16_t
    next s =>
    have hl := encode16_length s u hu
    simp only [convertArray, ← hl, hfit, Bool.false_eq_true, if_false, asChar16_eq, hu]
  · -- char32_t
    next s =>
    injection hu with hu; subst hu
    simp only [convertArray, size32, hfit, Bool.false_eq_true, if_false, asChar32_eq]
    rcases hb with hb | hb <;> simp [hb]

theorem convertArray_shorter (w : Width) (len : Nat) (mem : Units) (init : PyVal) (u : Units)
    (hm : mem.length = len) (hu : unitsOf w init = .ok u) (hlt : u.length < len) :
    convertArray w (some len) mem init = .ok (u ++ [0] ++ mem.drop (u.length + 1)) := by
  rw [convertArray_general w _ mem init u hu (by simp [tooLong_some]; omega),
    bump_ne len u.length (by omega)]
  simp only [Nat.lt_succ_self, if_true]
  rw [store_ok _ _ (by simp; omega)]
  simp

theorem convertArray_exact (w : Width) (len : Nat) (mem : Units) (init : PyVal) (u : Units)
    (hm : mem.length = len) (hu : unitsOf w init = .ok u) (heq : u.length = len) :
    convertArray w (some len) mem init = .ok u := by
  subst heq
  rw [convertArray_general w _ mem init u hu (by simp [tooLong_some]), bump_eq]
  simp only [Nat.lt_irrefl, if_false]
  rw [store_ok _ _ (by omega)]
  simp [hm]

theorem convertArray_tooLong (w : Width) (len : Nat) (mem : Units) (init : PyVal) (u : Units)
    (hu : unitsOf w init = .ok u) (hgt : u.length > len) :
    convertArray w (some len) mem init = .error .indexError := by
  cases w <;> cases init <;> simp only [unitsOf, reduceCtorEq] at hu
  · injection hu with hu; subst hu
    simp [convertArray, tooLong_some, hgt]
  · next s =>
    have hl := encode16_length s u hu
    simp [convertArray, tooLong_some, ← hl, hgt]
  · next s =>
    injection hu with hu; subst hu
    simp [convertArray, tooLong_some, size32, hgt]

theorem newArrayLength_eq (w : Width) (init : PyVal) (u : Units) (hu : unitsOf w init = .ok u) :
    newArrayLength w init = u.length + 1 := by
  cases w <;> cases init <;> simp only [unitsOf, reduceCtorEq] at hu
  · injection hu with hu; subst hu; rfl
  · next s => simp [newArrayLength, Width.bytes, encode16_length s u hu]
  · next s => injection hu with hu; subst hu; simp [newArrayLength, Width.bytes, size32]

theorem newOpen_eq (w : Width) (init : PyVal) (u : Units) (hu : unitsOf w init = .ok u) :
    newOpen w init = .ok (u ++ [0]) := by
  unfold newOpen
  rw [newArrayLength_eq w init u hu, convertArray_general w _ _ init u hu (tooLong_none _), bump_none]
  simp only [Nat.lt_succ_self, if_true]
  rw [store_ok _ _ (by simp)]
  simp

theorem encode16_no_zero (s : Str) (u : Units) (h : encode16 s = .ok u) (hz : 0 ∉ s) : 0 ∉ u := by
  induction s generalizing u with
  | nil => simp [encode16] at h; subst h; simp
  | cons c cs ih =>
    have hc : c ≠ 0 := fun e => hz (by simp [e])
    have hz' : 0 ∉ cs := fun m => hz (by simp [m])
    by_cases hb : c ≤ 0xFFFF
    · rw [encode16_cons_bmp c cs hb] at h
      cases hr : encode16 cs with
      | error e => simp [hr] at h
      | ok r =>
        simp only [hr] at h; injection h with h; subst h
        have := ih r hr hz'
        simp only [List.mem_cons, not_or]
        exact ⟨fun e => hc e.symm, this⟩
    · by_cases hv : c ≤ 0x10FFFF
      · rw [encode16_cons_astral c cs (by omega) hv] at h
        cases hr : encode16 cs with
        | error e => simp [hr] at h
        | ok r =>
          simp only [hr] at h; injection h with h; subst h
          have := ih r hr hz'
          simp only [List.mem_cons, not_or]
          exact ⟨by omega, by omega, this⟩
      · rw [encode16] at h
        have h1 : c > 0xFFFF := by omega
        have h2 : c > 0x10FFFF := by omega
        simp [h1, h2] at h

end CffiVerif.CharArray
