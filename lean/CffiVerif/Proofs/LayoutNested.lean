import CffiVerif.Proofs.Layout
/-
C01, nesting: the well-formedness predicate of declarations (the class of the
property), the "no zero-size aggregate" predicate (known finding), and the lift
of `flat_eq` to arbitrarily nested declarations by mutual structural induction
over `Ty` / `Fields`.
-/
namespace CffiVerif.Layout
open CffiVerif.GccLayout

/-! ### nesting -/

mutual
/-- Well-formed declarations = the class of the property C01 on this platform:
alignments of primitive types are 1, 2, 4, 8 or 16; `pack` is 0 (none) or a power of
two; a bit-field has an integer type `T` with `sizeof T ≤ alignof T`, width
`≤ 8·sizeof T`, is not combined with packing, and `:0` is unnamed; an open-ended
array is the last member and not a bit-field; an unnamed member that is not a
bit-field is an (anonymous) struct or union. -/
def WFTy : Ty → Prop
  | .prim _ align _ => A16 align
  | .arr elem _ => WFTy elem
  | .agg _ p fields => PackOK p ∧ WFFields p fields
def WFFields (p : Nat) : Fields → Prop
  | .nil => True
  | .cons named bits flex ty rest =>
    WFTy ty ∧ WFFields p rest ∧
    (flex = true → bits = none ∧ rest = .nil) ∧
    (∀ w, bits = some w → p = 0 ∧ flex = false ∧
        (∃ sz al, ty = .prim sz al true ∧ w ≤ 8 * sz ∧ sz ≤ al) ∧ (w = 0 → named = false)) ∧
    (named = false → bits = none → ∃ u q fs, ty = .agg u q fs)
end

mutual
/-- no aggregate inside the type (the type itself included) is given size 0 by the compiler -/
def NZTy : Ty → Prop
  | .prim _ _ _ => True
  | .arr elem _ => NZTy elem
  | .agg u p fields => NZFields fields ∧ 0 < (GccLayout.layout (.agg u p fields)).size
def NZFields : Fields → Prop
  | .nil => True
  | .cons _ _ _ ty rest => NZTy ty ∧ NZFields rest
end

def InfoRel (i : CInfo) (j : GInfo) : Prop :=
  i.size = j.size ∧ i.align = j.align ∧ i.intlike = j.intlike ∧ i.isArray = j.isArray ∧
  i.isAgg = j.isAgg ∧ i.sub.map canon = j.sub

theorem toField_rel {i : CInfo} {j : GInfo} (h : InfoRel i j) (n : Bool) (b : Option Nat) (fl : Bool) :
    toG (i.toField n b fl) = j.toField n b fl := by
  obtain ⟨h1, h2, h3, h4, h5, h6⟩ := h
  cases fl <;> simp [toG, CInfo.toField, GInfo.toField, h1, h2, h3, h4, h5, h6]

mutual
theorem info_ok : (t : Ty) → WFTy t →
    ∃ i, infoC t = .ok i ∧ A16 i.align ∧ (NZTy t → InfoRel i (infoG t))
  | .prim size align intlike, hw => by
    rw [WFTy] at hw
    refine ⟨{ size := size, align := align, intlike := intlike, isArray := false, isAgg := false, sub := [] },
      by rw [infoC], hw, fun _ => ?_⟩
    simp [InfoRel, infoG]
  | .arr elem len, hw => by
    rw [WFTy] at hw
    obtain ⟨i, hi, ha, hr⟩ := info_ok elem hw
    refine ⟨{ size := len * i.size, align := i.align, intlike := false, isArray := true, isAgg := false, sub := [] },
      by rw [infoC, hi], ha, fun hz => ?_⟩
    rw [NZTy] at hz
    obtain ⟨h1, h2, _⟩ := hr hz
    simp [InfoRel, infoG, h1, h2]
  | .agg u p fields, hw => by
    rw [WFTy] at hw
    obtain ⟨cs, hcs, hwl, hr⟩ := fields_ok p fields hw.2
    obtain ⟨l, hl, hal, hfl, hsz, ha⟩ := flat_eq u p cs hw.1 hwl
    refine ⟨{ size := l.size, align := l.align, intlike := false, isArray := false, isAgg := true, sub := l.fields },
      by rw [infoC, hcs]; simp only [hl], ha, fun hz => ?_⟩
    rw [NZTy] at hz
    have hcs' := hr hz.1
    have hpos := hz.2
    simp only [GccLayout.layout] at hpos
    rw [hcs'] at hal hfl hsz
    have : (completeG u p (fieldsG fields)).size ≠ 0 := by omega
    simp only [this, if_false] at hsz
    simp [InfoRel, infoG, hal, hfl, hsz]
theorem fields_ok : (p : Nat) → (fs : Fields) → WFFields p fs →
    ∃ cs, fieldsC fs = .ok cs ∧ WFList p cs ∧ (NZFields fs → cs.map toG = fieldsG fs)
  | _, .nil, _ => ⟨[], by rw [fieldsC], trivial, fun _ => by simp [fieldsG]⟩
  | p, .cons named bits flex ty rest, hw => by
    rw [WFFields] at hw
    obtain ⟨hwt, hwr, hflex, hbits, _⟩ := hw
    obtain ⟨i, hi, ha, hri⟩ := info_ok ty hwt
    obtain ⟨cs, hcs, hwl, hrr⟩ := fields_ok p rest hwr
    refine ⟨i.toField named bits flex :: cs, by rw [fieldsC, hi]; simp only [hcs], ⟨?_, hwl⟩, fun hz => ?_⟩
    · refine ⟨by cases flex <;> exact ha, ?_, ?_⟩
      · intro w hb
        have hb' : bits = some w := by cases flex <;> exact hb
        obtain ⟨hp0, hfl, ⟨sz, al, hty, hw1, hw2⟩, hn⟩ := hbits w hb'
        subst hfl hty
        rw [infoC] at hi
        cases hi
        exact ⟨hp0, rfl, ⟨sz, rfl, hw1, hw2⟩, hn⟩
      · intro hs
        cases flex with
        | false => simp [CInfo.toField] at hs
        | true =>
          obtain ⟨hb, hr⟩ := hflex rfl
          subst hr
          rw [fieldsC] at hcs
          cases hcs
          exact ⟨rfl, hb, rfl⟩
    · rw [NZFields] at hz
      simp only [List.map, fieldsG, toField_rel (hri hz.1), hrr hz.2]
end

end CffiVerif.Layout
