import CffiVerif.Proofs.TypeParser

/-!
The full type language (function pointer types included): `parseSequel` inverts the token
printer of declarators with function suffixes, the parameter loop reads printed parameter
lists back, and — by induction over well-formed types `WF ctx T` — the parser reads the
printed name of every well-formed type, with any well-formed declarator text inserted at the
name position, as the declarator applied to the type (`parse_with`, `parse_cname_full`,
`getctype_decl_full`).
-/
namespace CffiVerif.TypeParser
open CffiVerif.CName

/-! ### Hard delimiters: characters that end every token -/

/-- Characters that can neither continue an identifier / number nor be part of `...`. -/
def isHard (c : Char) : Bool := !isIdentNext c && c != '.'

def HardStart : Str → Prop
  | [] => True
  | c :: _ => isHard c = true

theorem hex_identNext (c : Char) (h : isHexDigit c = true) : isIdentNext c = true := by
  simp only [isHexDigit, isIdentNext, isIdentFirst, isDigit, Bool.or_eq_true, Bool.and_eq_true,
    decide_eq_true_eq] at h ⊢
  rcases h with (h | h) | h
  · exact Or.inr h
  · refine Or.inl (Or.inl (Or.inl (Or.inl ⟨h.1, ?_⟩)))
    have h2 : c.val.toNat ≤ 70 := h.2
    show c.val.toNat ≤ 90
    omega
  · refine Or.inl (Or.inl (Or.inl (Or.inr ⟨h.1, ?_⟩)))
    have h2 : c.val.toNat ≤ 102 := h.2
    show c.val.toNat ≤ 122
    omega

theorem step_hard (st : LexSt) (c : Char) (h : isHard c = true) :
    step st c = (flush st ++ (fromIdle c).1, (fromIdle c).2) := by
  simp only [isHard, Bool.and_eq_true, Bool.not_eq_true', bne_iff_ne, ne_eq] at h
  obtain ⟨h1, h2⟩ := h
  have hhex : isHexDigit c = false := by
    cases hh : isHexDigit c with
    | false => rfl
    | true => rw [hex_identNext c hh] at h1; cases h1
  have hx : c ≠ 'x' := by intro e; subst e; revert h1; decide
  have hX : c ≠ 'X' := by intro e; subst e; revert h1; decide
  cases st <;> simp [step, flush, h1, h2, hhex, hx, hX]

theorem run_hard (st : LexSt) (b : Str) (hb : HardStart b) : run st b = flush st ++ run .idle b := by
  cases b with
  | nil => simp [run, flush]
  | cons c s =>
    rw [run, step_hard st c hb, run_idle_cons]; simp

/-- Tokenization splits at a hard delimiter, whatever comes before. -/
theorem run_append_hard (st : LexSt) (a b : Str) (hb : HardStart b) :
    run st (a ++ b) = run st a ++ run .idle b := by
  induction a generalizing st with
  | nil => simpa [run] using run_hard st b hb
  | cons x a ih => simp only [List.cons_append, run, ih, List.append_assoc]

/-- Blanks in front of a hard delimiter do not matter (in any tokenizer state). -/
theorem run_blanks_hard (st : LexSt) (ws b : Str) (hw : ∀ c ∈ ws, isSpace c = true) (hb : HardStart b) :
    run st (ws ++ b) = run st b := by
  induction ws generalizing st with
  | nil => rfl
  | cons w ws ih =>
    have hsp : isSpace w = true := hw w (by simp)
    have hard : isHard w = true := by
      revert hsp
      simp only [isSpace, Bool.or_eq_true, decide_eq_true_eq]
      intro h; rcases h with ((((h | h) | h) | h) | h) | h <;> subst h <;> decide
    have hi : isIdentFirst w = false := by
      revert hsp
      simp only [isSpace, Bool.or_eq_true, decide_eq_true_eq]
      intro h; rcases h with ((((h | h) | h) | h) | h) | h <;> subst h <;> decide
    rw [List.cons_append, run, step_hard st w hard]
    have e : fromIdle w = ([], .idle) := by simp [fromIdle, hi, hsp]
    rw [e, ih .idle (fun c hc => hw c (by simp [hc]))]
    simp only [List.append_nil]
    exact (run_hard st b hb).symm


/-! ### Token printer of declarators with function suffixes -/

/-- Tokens of a printed parameter list (between the parentheses). -/
def atoks (args : List Ty) (ell : Bool) : List Tok := tokenize (argText (cnames args) ell)

def sfxToksF : List Suffix → List Tok
  | [] => []
  | .arr none :: r => .sym '[' :: .sym ']' :: sfxToksF r
  | .arr (some n) :: r => .sym '[' :: .int (dec n) :: .sym ']' :: sfxToksF r
  | .fn a e :: r => .sym '(' :: (atoks a e ++ .sym ')' :: sfxToksF r)

def dtoksF : Decl → List Tok
  | .flat s sfx => stars s ++ sfxToksF sfx
  | .group s g sfx => stars s ++ .sym '(' :: (dtoksF g ++ .sym ')' :: sfxToksF sfx)

/-- One iteration of the `while (tok->kind == TOK_OPEN_PAREN)` loop reads the printed
parameter list `(a, e)` back (what has to be known about the parameter types). -/
def FnOK (ctx : Ctx) (a : List Ty) (e : Bool) : Prop :=
  ∀ (f : Nat) (abi : Bool) (rest : List Tok), 3 * (atoks a e).length + 1 ≤ f →
    parens ctx (f + 1) false abi (.sym '(' :: (atoks a e ++ .sym ')' :: rest)) =
      (match parens ctx f false false rest with
       | .ok (_, fns, abi', r) => .ok (none, .fn a e :: fns, abi', r)
       | .error er => .error er)

/-- Function suffixes (each readable) followed by array suffixes. -/
def SfxOK (ctx : Ctx) : List Suffix → Prop
  | [] => True
  | .fn a e :: r => FnOK ctx a e ∧ SfxOK ctx r
  | .arr l :: r => ArrOnly (.arr l :: r)

/-- Declarators whose tokens `parseSequel` reads back: function suffixes only after
grouping parentheses (as in every printed name). -/
def PrintF (ctx : Ctx) : Decl → Prop
  | .flat _ sfx => ArrOnly sfx
  | .group _ g sfx => PrintF ctx g ∧ Groupable g ∧ SfxOK ctx sfx

def fnPart : List Suffix → List Suffix
  | .fn a e :: r => .fn a e :: fnPart r
  | _ => []

def arrPart : List Suffix → List Suffix
  | .fn _ _ :: r => arrPart r
  | r => r

theorem fn_arr_part (x : List Suffix) : fnPart x ++ arrPart x = x := by
  induction x with
  | nil => rfl
  | cons a x ih => cases a <;> simp [fnPart, arrPart, ih]

theorem sfxToksF_arrOnly (x : List Suffix) (h : ArrOnly x) : sfxToksF x = sfxToks x := by
  induction x with
  | nil => rfl
  | cons a x ih =>
    cases a with
    | arr l => cases l <;> simp only [ArrOnly] at h <;> simp [sfxToksF, sfxToks, ih, h]
    | fn a e => exact absurd h (by simp [ArrOnly])

theorem sfxOK_arrPart (ctx : Ctx) (x : List Suffix) (h : SfxOK ctx x) : ArrOnly (arrPart x) := by
  induction x with
  | nil => simp [arrPart, ArrOnly]
  | cons a x ih =>
    cases a with
    | arr l => simpa [arrPart, SfxOK] using h
    | fn a e => exact ih h.2

/-- The loop over the suffixes after the grouping parentheses. -/
theorem parens_sfxF (ctx : Ctx) (x : List Suffix) (rest : List Tok) (hx : SfxOK ctx x) (hr : Stop rest) :
    ∀ f, 3 * (sfxToksF x).length + 1 ≤ f →
      parens ctx f false false (sfxToksF x ++ rest) =
        .ok (none, fnPart x, false, sfxToksF (arrPart x) ++ rest) := by
  induction x with
  | nil =>
    intro f hf
    obtain ⟨f', rfl⟩ : ∃ f', f = f' + 1 := ⟨f - 1, by omega⟩
    have := parens_sfx ctx f' false false [] rest hr
    simpa [sfxToksF, sfxToks, fnPart, arrPart] using this
  | cons a x ih =>
    intro f hf
    cases a with
    | arr l =>
      obtain ⟨f', rfl⟩ : ∃ f', f = f' + 1 := ⟨f - 1, by omega⟩
      have ha : ArrOnly (.arr l :: x) := hx
      have := parens_sfx ctx f' false false (.arr l :: x) rest hr
      rw [sfxToksF_arrOnly _ ha]
      simpa [fnPart, arrPart, sfxToksF_arrOnly _ ha] using this
    | fn a e =>
      obtain ⟨hfn, hx'⟩ := hx
      obtain ⟨f', rfl⟩ : ∃ f', f = f' + 1 := ⟨f - 1, by omega⟩
      have hlen : (sfxToksF (.fn a e :: x)).length = (atoks a e).length + 2 + (sfxToksF x).length := by
        simp [sfxToksF]; omega
      have h1 := hfn f' false (sfxToksF x ++ rest) (by omega)
      have h2 := ih hx' f' (by omega)
      simp only [sfxToksF, List.cons_append, List.append_assoc] at h1 ⊢
      rw [h1, h2]
      simp [fnPart, arrPart]

theorem startsGroup_dtoksF (ctx : Ctx) (g : Decl) (more : List Tok) (hg : Groupable g) (hp : PrintF ctx g) :
    startsGroup (dtoksF g ++ more) = true ∧ absorbAbi false (dtoksF g ++ more) = (false, dtoksF g ++ more) := by
  cases g with
  | flat s sfx =>
    cases s with
    | succ s => simp [dtoksF, stars, List.replicate_succ, startsGroup, absorbAbi]
    | zero =>
      simp only [Groupable] at hg
      cases sfx with
      | nil => simp at hg
      | cons x r =>
        cases x with
        | arr len => cases len <;> simp [dtoksF, stars, sfxToksF, startsGroup, absorbAbi]
        | fn a e => exact absurd hp (by simp [PrintF, ArrOnly])
  | group s g' sfx =>
    cases s with
    | succ s => simp [dtoksF, stars, List.replicate_succ, startsGroup, absorbAbi]
    | zero => simp [Groupable] at hg

theorem dtoksF_flat (s : Nat) (sfx : List Suffix) (h : ArrOnly sfx) :
    dtoksF (.flat s sfx) = dtoks (.flat s sfx) := by
  simp [dtoksF, dtoks, sfxToksF_arrOnly _ h]

/-- **`parse_sequel` inverts the declarator printer**, function suffixes included. -/
theorem parseSequelF_dtoks (ctx : Ctx) (d : Decl) :
    ∀ (rest : List Tok) (f : Nat), PrintF ctx d → Stop rest → 3 * (dtoksF d).length + 2 ≤ f →
      parseSequel ctx f (dtoksF d ++ rest) = .ok (d, rest) := by
  induction d with
  | flat s sfx =>
    intro rest f hp hr hf
    rw [dtoksF_flat s sfx hp]
    exact parseSequel_dtoks ctx (.flat s sfx) rest f hp hr (by simp only [need]; omega)
  | group s g sfx ih =>
    intro rest f hp hr hf
    obtain ⟨hpg, hgg, hsfx⟩ := hp
    have hlen : (dtoksF (.group s g sfx)).length = s + 2 + (dtoksF g).length + (sfxToksF sfx).length := by
      simp [dtoksF, stars]; omega
    obtain ⟨f', rfl⟩ : ∃ f', f = f' + 2 := ⟨f - 2, by omega⟩
    have hsg := startsGroup_dtoksF ctx g (.sym ')' :: (sfxToksF sfx ++ rest)) hgg hpg
    have hrec := ih (.sym ')' :: (sfxToksF sfx ++ rest)) f' hpg (Stop.close _) (by omega)
    have hpl := parens_sfxF ctx sfx rest hsfx hr f' (by omega)
    have harr := arrays_sfx ctx (arrPart sfx) rest (sfxOK_arrPart ctx sfx hsfx) hr
    rw [sfxToksF_arrOnly _ (sfxOK_arrPart ctx sfx hsfx)] at hpl
    have e : dtoksF (.group s g sfx) ++ rest =
        stars s ++ (.sym '(' :: (dtoksF g ++ .sym ')' :: (sfxToksF sfx ++ rest))) := by simp [dtoksF]
    rw [e, parseSequel]
    simp only [header_stars, header_lparen]
    simp only [skipName]
    rw [parens]
    simp only [hsg.1, hsg.2]
    rw [hrec]
    simp only [Bool.not_false, Bool.and_self, if_true, bind, Except.bind, expectClose, hpl, harr,
      pure, Except.pure]
    simp [fn_arr_part]


/-! ### Parameter lists -/

/-- First token of a printed type name: a specifier keyword or an identifier. -/
def HeadOK (ts : List Tok) : Prop :=
  ∃ t r, ts = t :: r ∧ t ≠ .dots ∧ t ≠ .sym ')' ∧ t ≠ .kw .cdecl_ ∧ t ≠ .kw .stdcall_

/-- What the parameter loop needs to know about a parameter type `A`: the tokens of its
printed name start like a type, and `parseComplete` reads them back as `A` (whatever
follows), without array/function decay. -/
def ArgP (ctx : Ctx) (A : Ty) : Prop :=
  HeadOK (tokenize (cname A).1) ∧ ∃ en, decayArg A en = A ∧
    ∀ rest f, Stop rest → 3 * (tokenize (cname A).1).length ≤ f →
      parseComplete ctx f (tokenize (cname A).1 ++ rest) = .ok ((A, en), rest)

theorem run_comma_space (s : Str) : run .idle (',' :: ' ' :: s) = .sym ',' :: run .idle s := by
  rw [run_idle_sym ',' _ (by decide) (by decide) (by decide) (by decide), run_idle_space]

theorem atoks_nil_false : atoks [] false = [] := by decide
theorem atoks_nil_true : atoks [] true = [.dots] := by decide

theorem atoks_single_false (A : Ty) : atoks [A] false = tokenize (cname A).1 := by
  simp [atoks, argText, cnames, joinArgs]

theorem hard_cons (c : Char) (s : Str) (h : isHard c = true) : HardStart (c :: s) := h

theorem hard_comma (X : Str) : HardStart (", ".toList ++ X) := (by decide : isHard ',' = true)

theorem argText_single_true (x : Str) : argText [x] true = x ++ (", ".toList ++ "...".toList) := by
  simp [argText, joinArgs]

theorem argText_cons_cons (x y : Str) (r : List Str) (e : Bool) :
    argText (x :: y :: r) e = x ++ (", ".toList ++ argText (y :: r) e) := by
  simp [argText, joinArgs]

theorem atoks_single_true (A : Ty) : atoks [A] true = tokenize (cname A).1 ++ [.sym ',', .dots] := by
  have : cnames [A] = [(cname A).1] := by simp [cnames]
  rw [atoks, this, argText_single_true, tokenize, run_append_hard _ _ _ (hard_comma _)]
  rfl

theorem atoks_cons_cons (A B : Ty) (r : List Ty) (e : Bool) :
    atoks (A :: B :: r) e = tokenize (cname A).1 ++ .sym ',' :: atoks (B :: r) e := by
  have h1 : cnames (A :: B :: r) = (cname A).1 :: (cname B).1 :: cnames r := by simp [cnames]
  have h2 : cnames (B :: r) = (cname B).1 :: cnames r := by simp [cnames]
  rw [atoks, atoks, h1, h2, argText_cons_cons, tokenize, run_append_hard _ _ _ (hard_comma _)]
  congr 1

theorem params_dots (ctx : Ctx) (f : Nat) (r : List Tok) :
    params ctx (f + 1) (.dots :: r) = .ok ([], true, r) := by
  simp [params]

theorem params_step_close (ctx : Ctx) (A : Ty) (hA : ArgP ctx A) (f : Nat) (r0 : List Tok)
    (hf : 3 * (tokenize (cname A).1).length ≤ f) :
    params ctx (f + 1) (tokenize (cname A).1 ++ .sym ')' :: r0) = .ok ([A], false, .sym ')' :: r0) := by
  obtain ⟨⟨t, r, hts, hd, _, _, _⟩, en, hdec, hparse⟩ := hA
  have hp := hparse (.sym ')' :: r0) f (Stop.close _) hf
  rw [hts] at hp ⊢
  rw [List.cons_append] at hp ⊢
  rw [params]
  · simp only [hp, bind, Except.bind, hdec]; rfl
  · intro r0 h; cases h; exact hd rfl

theorem params_step_comma (ctx : Ctx) (A : Ty) (hA : ArgP ctx A) (f : Nat) (r0 : List Tok)
    (hf : 3 * (tokenize (cname A).1).length ≤ f) :
    params ctx (f + 1) (tokenize (cname A).1 ++ .sym ',' :: r0) =
      (match params ctx f r0 with
       | .ok (as, ell, r) => .ok (A :: as, ell, r)
       | .error er => .error er) := by
  obtain ⟨⟨t, r, hts, hd, _, _, _⟩, en, hdec, hparse⟩ := hA
  have hp := hparse (.sym ',' :: r0) f (Stop.comma _) hf
  rw [hts] at hp ⊢
  rw [List.cons_append] at hp ⊢
  rw [params]
  · simp only [hp, bind, Except.bind, hdec]
    cases params ctx f r0 with
    | error er => rfl
    | ok v => rfl
  · intro r0 h; cases h; exact hd rfl

/-- The parameter loop reads a printed parameter list back. -/
theorem params_atoks (ctx : Ctx) (e : Bool) : ∀ (a : List Ty), (∀ A ∈ a, ArgP ctx A) → (a ≠ [] ∨ e = true) →
    ∀ (rest : List Tok) (f : Nat), 3 * (atoks a e).length + 1 ≤ f →
      params ctx f (atoks a e ++ .sym ')' :: rest) = .ok (a, e, .sym ')' :: rest)
  | [], _, hne, rest, f, hf => by
    have he : e = true := by rcases hne with h | h; exact absurd rfl h; exact h
    subst he
    obtain ⟨f', rfl⟩ : ∃ f', f = f' + 1 := ⟨f - 1, by omega⟩
    rw [atoks_nil_true]; exact params_dots ctx f' _
  | [A], hA, _, rest, f, hf => by
    have hAP := hA A (by simp)
    cases e with
    | false =>
      rw [atoks_single_false] at hf ⊢
      obtain ⟨f', rfl⟩ : ∃ f', f = f' + 1 := ⟨f - 1, by omega⟩
      exact params_step_close ctx A hAP f' _ (by omega)
    | true =>
      rw [atoks_single_true] at hf ⊢
      simp only [List.length_append, List.length_cons, List.length_nil] at hf
      obtain ⟨f', rfl⟩ : ∃ f', f = f' + 2 := ⟨f - 2, by omega⟩
      simp only [List.append_assoc, List.cons_append, List.nil_append]
      rw [params_step_comma ctx A hAP (f' + 1) _ (by omega), params_dots]
  | A :: B :: r, hA, _, rest, f, hf => by
    have hAP := hA A (by simp)
    rw [atoks_cons_cons] at hf ⊢
    simp only [List.length_append, List.length_cons] at hf
    obtain ⟨f', rfl⟩ : ∃ f', f = f' + 1 := ⟨f - 1, by omega⟩
    have ih := params_atoks ctx e (B :: r) (fun X hX => hA X (by simp [hX])) (Or.inl (by simp)) rest f' (by omega)
    simp only [List.append_assoc, List.cons_append]
    rw [params_step_comma ctx A hAP f' _ (by omega), ih]


/-! ### One iteration of the parenthesis loop on a printed parameter list -/

theorem parse_void_close (ctx : Ctx) (g : Nat) (r : List Tok) :
    parseComplete ctx (g + 3) (.kw .void_ :: .sym ')' :: r) =
      .ok ((.prim "void".toList, .outer), .sym ')' :: r) := by
  simp [parseComplete, parseBase, skipQuals, modifiers, basePlain, parseSequel, header, skipName, parens,
    arrays, bind, Except.bind, pure, Except.pure, Decl.apply, applySfx, ptrN, Decl.entry]

theorem parse_void_only (ctx : Ctx) (g : Nat) :
    parseComplete ctx (g + 3) [.kw .void_] = .ok ((.prim "void".toList, .outer), []) := by
  simp [parseComplete, parseBase, skipQuals, modifiers, basePlain, parseSequel, header, skipName, parens,
    arrays, bind, Except.bind, pure, Except.pure, Decl.apply, applySfx, ptrN, Decl.entry]

theorem argP_not_void_close (ctx : Ctx) (A : Ty) (h : ArgP ctx A) (r : List Tok) :
    tokenize (cname A).1 ≠ .kw .void_ :: .sym ')' :: r := by
  intro e
  obtain ⟨_, en, _, hp⟩ := h
  have := hp [] (3 * (tokenize (cname A).1).length) Stop.nil (Nat.le_refl _)
  rw [e] at this
  have e3 : 3 * (Tok.kw Kw.void_ :: Tok.sym ')' :: r).length = (3 * r.length + 3) + 3 := by
    simp only [List.length_cons]; omega
  rw [e3, List.append_nil, parse_void_close] at this
  simp at this

theorem argP_void_only (ctx : Ctx) (A : Ty) (h : ArgP ctx A) (e : tokenize (cname A).1 = [.kw .void_]) :
    A = .prim "void".toList := by
  obtain ⟨_, en, _, hp⟩ := h
  have := hp [] (3 * (tokenize (cname A).1).length) Stop.nil (Nat.le_refl _)
  rw [e] at this
  have := (parse_void_only ctx 0).symm.trans this
  simp at this
  exact this.1.symm

theorem dropVoid_ne (ts : List Tok) (h : ∀ r, ts ≠ .kw .void_ :: .sym ')' :: r) : dropVoidOnly ts = ts := by
  unfold dropVoidOnly
  split
  · exact absurd rfl (h _)
  · rfl

/-- The tokens after `(` of a printed parameter list: never `void )`, never a calling
convention keyword first. -/
theorem atoks_shape (ctx : Ctx) (a : List Ty) (e : Bool) (hA : ∀ A ∈ a, ArgP ctx A)
    (hshape : ¬ (a = [.prim "void".toList] ∧ e = false)) (rest : List Tok) :
    (∀ r, atoks a e ++ .sym ')' :: rest ≠ .kw .void_ :: .sym ')' :: r) ∧
    absorbAbi false (atoks a e ++ .sym ')' :: rest) = (false, atoks a e ++ .sym ')' :: rest) ∧
    (∀ abi, absorbAbi abi (atoks a e ++ .sym ')' :: rest) = (abi, atoks a e ++ .sym ')' :: rest)) ∧
    ((a = [] ∧ e = false ∧ atoks a e = []) ∨
      ((a ≠ [] ∨ e = true) ∧ ∀ tl, atoks a e ++ .sym ')' :: rest ≠ .sym ')' :: tl)) := by
  have key : ∀ (A : Ty) (more : List Tok), ArgP ctx A →
      (∀ m, more = .sym ')' :: m → A ≠ .prim "void".toList) →
      (∃ c m, more = .sym c :: m) →
      (∀ r, tokenize (cname A).1 ++ more ≠ .kw .void_ :: .sym ')' :: r) ∧
      (∀ abi, absorbAbi abi (tokenize (cname A).1 ++ more) = (abi, tokenize (cname A).1 ++ more)) ∧
      (∀ tl, tokenize (cname A).1 ++ more ≠ .sym ')' :: tl) := by
    intro A more hAP hv hm
    obtain ⟨t, r, hts, hd, hc, h1, h2⟩ := hAP.1
    refine ⟨?_, ?_, ?_⟩
    · intro r' e'
      rw [hts] at e'
      cases r with
      | nil =>
        obtain ⟨c, m, rfl⟩ := hm
        simp only [List.cons_append, List.nil_append, List.cons.injEq] at e'
        obtain ⟨rfl, e2, _⟩ := e'
        have hA' := argP_void_only ctx A hAP hts
        cases e2
        exact hv _ rfl hA'
      | cons x r'' =>
        simp only [List.cons_append, List.cons.injEq] at e'
        obtain ⟨rfl, rfl, _⟩ := e'
        exact argP_not_void_close ctx A hAP r'' hts
    · intro abi
      rw [hts, List.cons_append]
      unfold absorbAbi
      split
      · rename_i h; cases h; exact absurd rfl h1
      · rename_i h; cases h; exact absurd rfl h2
      · rfl
    · intro tl e'
      rw [hts] at e'
      simp only [List.cons_append, List.cons.injEq] at e'
      exact hc e'.1
  match a, hA, hshape with
  | [], _, _ =>
    cases e with
    | false => simp [atoks_nil_false, absorbAbi]
    | true => simp [atoks_nil_true, absorbAbi]
  | [A], hA, hshape =>
    have hAP := hA A (by simp)
    cases e with
    | false =>
      rw [atoks_single_false]
      have := key A (.sym ')' :: rest) hAP (by intro _ _ hv; exact hshape ⟨by rw [hv], rfl⟩) ⟨_, _, rfl⟩
      exact ⟨this.1, this.2.1 false, this.2.1, Or.inr ⟨Or.inl (by simp), this.2.2⟩⟩
    | true =>
      rw [atoks_single_true]
      simp only [List.append_assoc, List.cons_append, List.nil_append]
      have := key A (.sym ',' :: .dots :: .sym ')' :: rest) hAP (by intro _ h; cases h) ⟨_, _, rfl⟩
      exact ⟨this.1, this.2.1 false, this.2.1, Or.inr ⟨Or.inl (by simp), this.2.2⟩⟩
  | A :: B :: r, hA, _ =>
    have hAP := hA A (by simp)
    rw [atoks_cons_cons]
    simp only [List.append_assoc, List.cons_append]
    have := key A (.sym ',' :: (atoks (B :: r) e ++ .sym ')' :: rest)) hAP (by intro _ h; cases h) ⟨_, _, rfl⟩
    exact ⟨this.1, this.2.1 false, this.2.1, Or.inr ⟨Or.inl (by simp), this.2.2⟩⟩

/-- A printed parameter list whose parameter types are all read back is read back. -/
theorem fnOK_of_args (ctx : Ctx) (a : List Ty) (e : Bool) (hA : ∀ A ∈ a, ArgP ctx A)
    (hshape : ¬ (a = [.prim "void".toList] ∧ e = false)) : FnOK ctx a e := by
  intro f abi rest hf
  obtain ⟨hv, _, habi, hcase⟩ := atoks_shape ctx a e hA hshape rest
  rw [parens]
  simp only [habi abi, Bool.false_and, Bool.false_eq_true, if_false, dropVoid_ne _ hv]
  rcases hcase with ⟨rfl, rfl, h0⟩ | ⟨hne, hnc⟩
  · simp only [h0, List.nil_append, bind, Except.bind, pure, Except.pure, expectClose]
    cases parens ctx f false false rest with
    | error er => rfl
    | ok v => rfl
  · have hp := params_atoks ctx e a hA hne rest f hf
    have : (match atoks a e ++ Tok.sym ')' :: rest with
        | Tok.sym ')' :: _ => (pure ([], false, atoks a e ++ Tok.sym ')' :: rest) :
            Except Err (List Ty × Bool × List Tok))
        | _ => params ctx f (atoks a e ++ Tok.sym ')' :: rest)) =
        params ctx f (atoks a e ++ Tok.sym ')' :: rest) := by
      split
      · rename_i tl heq; exact absurd heq (hnc _)
      · rfl
    simp only [bind, Except.bind, hp, expectClose]
    cases parens ctx f false false rest with
    | error er => rfl
    | ok v => rfl


/-! ### Well-formed types of the full language -/

/-- `(void)` alone is the empty parameter list. -/
def ArgShape (args : List Ty) (ell : Bool) : Prop := ¬ (args = [.prim "void".toList] ∧ ell = false)

/-- The types whose printed name denotes them in the context `ctx`: declared leaves, pointers,
arrays with lengths an array can have, and function pointer types whose parameter types are
well-formed and already adjusted (no array parameter; `(void)` is the empty list).  A raw
function type only occurs as the target of a pointer. -/
inductive WF (ctx : Ctx) : Ty → Prop
  | leaf (L : FTy) : WFLeaf ctx L → WF ctx L.toTy
  | ptr (t : Ty) : WF ctx t → WF ctx (.ptr t)
  | arr (t : Ty) (len : Option Nat) : WF ctx t → (∀ n, len = some n → n ≤ maxSsize) → WF ctx (.arr t len)
  | fptr (args : List Ty) (res : Ty) (ell : Bool) : WF ctx res → (∀ A ∈ args, WF ctx A) →
      (∀ A ∈ args, A.isArr = false) → ArgShape args ell → WF ctx (.ptr (.func args res ell))

theorem wfLeaf_cases (ctx : Ctx) (L : FTy) (h : WFLeaf ctx L) :
    (∃ n, L = .prim n) ∨ (∃ k tag, L = .agg k tag) := by
  cases h <;> first | exact Or.inl ⟨_, rfl⟩ | exact Or.inr ⟨_, _, rfl⟩

theorem wf_not_func (ctx : Ctx) (T : Ty) (h : WF ctx T) : T.isFunc = false := by
  cases h with
  | leaf L hL => rcases wfLeaf_cases ctx L hL with ⟨n, rfl⟩ | ⟨k, tag, rfl⟩ <;> rfl
  | ptr t _ => rfl
  | arr t len _ _ => rfl
  | fptr a r e _ _ _ _ => rfl

theorem hd_ptr (t : Ty) (h : t.isFunc = false) : hd (.ptr t) = hd t ++ ptrHead t := by
  cases t <;> first | (simp [Ty.isFunc] at h; done) | simp [hd]

theorem tl_ptr (t : Ty) (h : t.isFunc = false) : tl (.ptr t) = ptrTail t ++ tl t := by
  cases t <;> first | (simp [Ty.isFunc] at h; done) | simp [tl]

def kindE : Ty → Entry
  | .ptr _ => .pointer
  | .arr _ _ => .array
  | .func _ _ _ => .function
  | _ => .outer

/-- The text `X` tokenizes to the tokens of `d`, whatever follows. -/
def TokXF (X : Str) (d : Decl) : Prop := ∀ s', run .idle (X ++ s') = dtoksF d ++ run .idle s'

def XStart (X : Str) : Prop := X = [] ∨ ∃ c r, X = c :: r ∧ isIdentNext c = false

/-- Result of putting the declarator `d` (text `X`) at the name position of `T`: the leaf
`L` of `T` and the complete declarator `D` around it. -/
structure WrapRes (ctx : Ctx) (T : Ty) (X : Str) (d : Decl) (L : FTy) (D : Decl) : Prop where
  leaf : WFLeaf ctx L
  print : PrintF ctx D
  apply : D.apply L.toTy = d.apply T
  entry : D.entry = if d.entry = .outer then kindE T else d.entry
  toks : ∀ s', (X = [] → DelimStart s') →
    run .idle (hd T ++ X ++ tl T ++ s') = run .idle L.baseName ++ dtoksF D ++ run .idle s'

def MainP (ctx : Ctx) (T : Ty) : Prop :=
  ∀ (X : Str) (d : Decl), PrintF ctx d → (T.isArr = true → d.nstars = 0) → TokXF X d → XStart X →
    ∃ L D, WrapRes ctx T X d L D

theorem dtoksF_star (d : Decl) : dtoksF d.star = .sym '*' :: dtoksF d := by
  cases d <;> simp [Decl.star, dtoksF, stars, List.replicate_succ]

theorem sfxToksF_append (x y : List Suffix) : sfxToksF (x ++ y) = sfxToksF x ++ sfxToksF y := by
  induction x with
  | nil => rfl
  | cons a x ih => cases a with
    | arr len => cases len <;> simp [sfxToksF, ih]
    | fn a e => simp [sfxToksF, ih]

theorem dtoksF_snoc (d : Decl) (a : Suffix) : dtoksF (d.snoc a) = dtoksF d ++ sfxToksF [a] := by
  cases d <;> simp [Decl.snoc, dtoksF, sfxToksF_append]

theorem sfxOK_snoc (ctx : Ctx) (x : List Suffix) (len : Option Nat) (hx : SfxOK ctx x)
    (hl : ∀ n, len = some n → n ≤ maxSsize) : SfxOK ctx (x ++ [.arr len]) := by
  induction x with
  | nil => cases len <;> simp [SfxOK, ArrOnly]; exact hl _ rfl
  | cons a x ih =>
    cases a with
    | arr l => exact ArrOnly_append (.arr l :: x) len hx hl
    | fn a e => exact ⟨hx.1, ih hx.2⟩

theorem starF_printable (ctx : Ctx) (d : Decl) (h : PrintF ctx d) : PrintF ctx d.star ∧ Groupable d.star := by
  cases d <;> simp_all [Decl.star, PrintF, Groupable]

theorem snocF_printable (ctx : Ctx) (d : Decl) (len : Option Nat) (h : PrintF ctx d)
    (hl : ∀ n, len = some n → n ≤ maxSsize) : PrintF ctx (d.snoc (.arr len)) := by
  cases d with
  | flat s x => exact ArrOnly_append x len h hl
  | group s g x => exact ⟨h.1, h.2.1, sfxOK_snoc ctx x len h.2.2 hl⟩

def noopIfOuter : Entry → Entry
  | .outer => .noop
  | e => e

theorem group_entry_eq (s : Nat) (g : Decl) (x : List Suffix) :
    (Decl.group s g x).entry = noopIfOuter g.entry := by
  simp only [Decl.entry, noopIfOuter]
  generalize g.entry = e
  cases e <;> rfl

theorem noop_ne (e : Entry) : noopIfOuter e ≠ .outer := by cases e <;> simp [noopIfOuter]

theorem noop_id (e : Entry) (h : e ≠ .outer) : noopIfOuter e = e := by cases e <;> simp_all [noopIfOuter]

theorem star_entry (d : Decl) : d.star.entry = if d.entry = .outer then .pointer else d.entry := by
  cases d with
  | flat s x =>
    cases x with
    | nil => cases s <;> simp [Decl.star, Decl.entry]
    | cons a x => cases a <;> simp [Decl.star, Decl.entry]
  | group s g x =>
    simp only [Decl.star, group_entry_eq]
    rw [if_neg (noop_ne _)]

theorem star_entry_ne (d : Decl) : d.star.entry ≠ .outer := by
  rw [star_entry]; split <;> simp_all

theorem snoc_entry (d : Decl) (len : Option Nat) (h : d.nstars = 0) :
    (d.snoc (.arr len)).entry = if d.entry = .outer then .array else d.entry := by
  cases d with
  | flat s x =>
    simp only [Decl.nstars] at h; subst h
    cases x with
    | nil => simp [Decl.snoc, Decl.entry]
    | cons a x => cases a <;> simp [Decl.snoc, Decl.entry]
  | group s g x =>
    simp only [Decl.snoc, group_entry_eq]
    rw [if_neg (noop_ne _)]

theorem group_entry (s : Nat) (g : Decl) (x : List Suffix) (h : g.entry ≠ .outer) :
    (Decl.group s g x).entry = g.entry := by
  rw [group_entry_eq, noop_id _ h]

theorem tokXF_star (X : Str) (d : Decl) (h : TokXF X d) : TokXF (" *".toList ++ X) d.star := by
  intro s'
  show run .idle (' ' :: '*' :: (X ++ s')) = _
  rw [run_idle_space, run_idle_star, h, dtoksF_star]; rfl

theorem tokXF_paren_star (X : Str) (d : Decl) (h : TokXF X d) :
    TokXF ("(*".toList ++ X ++ ")".toList) (paren d.star) := by
  intro s'
  show run .idle ('(' :: '*' :: (X ++ [')'] ++ s')) = _
  rw [run_idle_lparen, run_idle_star, List.append_assoc, h]
  show _ :: _ :: (dtoksF d ++ run .idle (')' :: s')) = _
  rw [run_idle_rparen]
  simp [paren, dtoksF, stars, sfxToksF, dtoksF_star]

theorem run_lenTextF (len : Option Nat) (s : Str) :
    run .idle (lenText len ++ s) = sfxToksF [.arr len] ++ run .idle s := by
  rw [run_lenText]; cases len <;> rfl

theorem tokXF_snoc (X : Str) (d : Decl) (len : Option Nat) (h : TokXF X d) :
    TokXF (X ++ lenText len) (d.snoc (.arr len)) := by
  intro s'
  rw [List.append_assoc, h, run_lenTextF, dtoksF_snoc]; simp

theorem tokXF_fptr (X : Str) (d : Decl) (a : List Ty) (e : Bool) (h : TokXF X d) :
    TokXF ("(*".toList ++ X ++ (')' :: '(' :: (argText (cnames a) e ++ [')'])))
      (.group 0 d.star [.fn a e]) := by
  intro s'
  show run .idle ('(' :: '*' :: (X ++ (')' :: '(' :: (argText (cnames a) e ++ [')'])) ++ s')) = _
  rw [run_idle_lparen, run_idle_star, List.append_assoc, h]
  show _ :: _ :: (dtoksF d ++ run .idle (')' :: '(' :: ((argText (cnames a) e ++ [')']) ++ s'))) = _
  rw [run_idle_rparen, run_idle_lparen, List.append_assoc,
    run_append_hard _ _ _ (show HardStart ([')'] ++ s') from (by decide : isHard ')' = true))]
  show _ :: _ :: (dtoksF d ++ _ :: _ :: (atoks a e ++ run .idle (')' :: s'))) = _
  rw [run_idle_rparen]
  simp [dtoksF, stars, sfxToksF, dtoksF_star]


/-! ### From the wrapped declarator to the parse result -/

theorem parseBase_head (ctx : Ctx) (ts : List Tok) (x : Ty × List Tok) (h : parseBase ctx ts = .ok x) :
    HeadOK ts := by
  cases ts with
  | nil => simp [parseBase, skipQuals, modifiers, basePlain, bind, Except.bind] at h
  | cons t r =>
    refine ⟨t, r, rfl, ?_, ?_, ?_, ?_⟩ <;> intro e <;> subst e <;>
      simp [parseBase, skipQuals, modifiers, basePlain, bind, Except.bind] at h

theorem dtoksF_declStart (d : Decl) (rest : List Tok) (hr : Stop rest) : DeclStart (dtoksF d ++ rest) := by
  have hs : ∀ x : List Suffix, DeclStart (sfxToksF x ++ rest) := by
    intro x
    cases x with
    | nil => cases hr <;> first | exact .nil | exact .sym _ _
    | cons a x =>
      cases a with
      | arr len => cases len <;> exact .sym _ _
      | fn a e => exact .sym _ _
  cases d with
  | flat s x =>
    cases s with
    | zero => simpa [dtoksF, stars] using hs x
    | succ s => simp only [dtoksF, stars, List.replicate_succ, List.cons_append]; exact .sym _ _
  | group s g x =>
    cases s with
    | zero => simp only [dtoksF, stars, List.replicate_zero, List.nil_append, List.cons_append]; exact .sym _ _
    | succ s => simp only [dtoksF, stars, List.replicate_succ, List.cons_append]; exact .sym _ _

/-- Tokens `specifiers of L ++ tokens of D` are read by `parseComplete` as `D` applied to `L`. -/
theorem parse_of_wrap (ctx : Ctx) (L : FTy) (D : Decl) (hL : WFLeaf ctx L) (hD : PrintF ctx D)
    (rest : List Tok) (hr : Stop rest) (f : Nat)
    (hf : 3 * (run .idle L.baseName ++ dtoksF D).length ≤ f) :
    HeadOK (run .idle L.baseName ++ dtoksF D) ∧
    parseComplete ctx f ((run .idle L.baseName ++ dtoksF D) ++ rest) = .ok ((D.apply L.toTy, D.entry), rest) := by
  obtain ⟨bt, hb1, hb2⟩ := base_ok ctx L hL
  have hbt : run .idle L.baseName = bt := by
    have := hb1 [] trivial
    simpa [run, flush] using this
  rw [hbt] at hf ⊢
  have hhead : HeadOK bt := by
    have := hb2 [] DeclStart.nil
    rw [List.append_nil] at this
    exact parseBase_head ctx bt _ this
  obtain ⟨t, r, hbt', h1, h2, h3, h4⟩ := hhead
  refine ⟨⟨t, r ++ dtoksF D, by rw [hbt']; rfl, h1, h2, h3, h4⟩, ?_⟩
  have hlen : 1 ≤ bt.length := by rw [hbt']; simp
  obtain ⟨f', rfl⟩ : ∃ f', f = f' + 1 := ⟨f - 1, by simp only [List.length_append] at hf; omega⟩
  have hbase := hb2 (dtoksF D ++ rest) (dtoksF_declStart D rest hr)
  have hseq := parseSequelF_dtoks ctx D rest f' hD hr (by simp only [List.length_append] at hf; omega)
  rw [List.append_assoc, parseComplete, hbase]
  simp only [bind, Except.bind, hseq, pure, Except.pure]

theorem tokXF_empty : TokXF [] (.flat 0 []) := by
  intro s'; simp [dtoksF, stars, sfxToksF]

/-- What the parameter loop needs follows from the wrapping property. -/
theorem argP_of_main (ctx : Ctx) (A : Ty) (h : MainP ctx A) (hf : A.isFunc = false) (ha : A.isArr = false) :
    ArgP ctx A := by
  obtain ⟨L, D, w⟩ := h [] (.flat 0 []) (by simp [PrintF, ArrOnly]) (by intro _; rfl) tokXF_empty (Or.inl rfl)
  have htoks : tokenize (cname A).1 = run .idle L.baseName ++ dtoksF D := by
    have := w.toks [] (fun _ => trivial)
    rw [cname_eq]
    simpa [tokenize, run, flush] using this
  have happ : D.apply L.toTy = A := by simpa [Decl.apply, applySfx, ptrN] using w.apply
  have hent : D.entry = kindE A := by simpa [Decl.entry] using w.entry
  unfold ArgP
  rw [htoks]
  refine ⟨(parse_of_wrap ctx L D w.leaf w.print [] Stop.nil _ (Nat.le_refl _)).1, D.entry, ?_, ?_⟩
  · rw [hent]
    cases A <;> simp_all [kindE, decayArg, Ty.isArr, Ty.isFunc]
  · intro rest f hr hfu
    have := (parse_of_wrap ctx L D w.leaf w.print rest hr f hfu).2
    rw [this, happ]

/-! ### The main induction over well-formed types -/

theorem hd_leaf (ctx : Ctx) (L : FTy) (h : WFLeaf ctx L) :
    hd L.toTy = L.baseName ∧ tl L.toTy = [] ∧ kindE L.toTy = .outer ∧ L.toTy.isArr = false := by
  rcases wfLeaf_cases ctx L h with ⟨n, rfl⟩ | ⟨k, tag, rfl⟩ <;>
    simp [FTy.toTy, hd, tl, FTy.baseName, kindE, Ty.isArr]

theorem main (ctx : Ctx) (T : Ty) (h : WF ctx T) : MainP ctx T := by
  induction h with
  | leaf L hL =>
    intro X d hd' _ hX hXs
    obtain ⟨h1, h2, h3, _⟩ := hd_leaf ctx L hL
    obtain ⟨bt, hb1, _⟩ := base_ok ctx L hL
    have hbt : run .idle L.baseName = bt := by
      have := hb1 [] trivial
      simpa [run, flush] using this
    refine ⟨L, d, hL, hd', rfl, by rw [h3]; split <;> simp_all, ?_⟩
    intro s' hs'
    rw [h1, h2, List.append_nil, List.append_assoc, hb1, hbt, hX, List.append_assoc]
    rcases hXs with rfl | ⟨c, r, rfl, hc⟩
    · exact hs' rfl
    · exact hc
  | ptr t ht ih =>
    intro X d hd' _ hX _
    have hnf := wf_not_func ctx t ht
    obtain ⟨hps, hgs⟩ := starF_printable ctx d hd'
    cases hA : t.isArr with
    | true =>
      obtain ⟨L, D, w⟩ := ih ("(*".toList ++ X ++ ")".toList) (paren d.star) ⟨hps, hgs, by simp [SfxOK]⟩
        (by intro _; rfl) (tokXF_paren_star X d hX) (Or.inr ⟨'(', _, rfl, by decide⟩)
      refine ⟨L, D, w.leaf, w.print, ?_, ?_, ?_⟩
      · rw [w.apply, paren_apply, star_apply]
      · have e1 : (paren d.star).entry = d.star.entry := group_entry _ _ _ (star_entry_ne d)
        rw [w.entry, e1, if_neg (star_entry_ne d), star_entry]; rfl
      · intro s' _
        have := w.toks s' (by intro e; simp at e)
        rw [hd_ptr t hnf, tl_ptr t hnf]
        simpa [ptrHead, ptrTail, hA, List.append_assoc] using this
    | false =>
      obtain ⟨L, D, w⟩ := ih (" *".toList ++ X) d.star hps
        (by intro h; rw [hA] at h; cases h) (tokXF_star X d hX) (Or.inr ⟨' ', _, rfl, by decide⟩)
      refine ⟨L, D, w.leaf, w.print, ?_, ?_, ?_⟩
      · rw [w.apply, star_apply]
      · rw [w.entry, if_neg (star_entry_ne d), star_entry]; rfl
      · intro s' _
        have := w.toks s' (by intro e; simp at e)
        rw [hd_ptr t hnf, tl_ptr t hnf]
        simpa [ptrHead, ptrTail, hA, List.append_assoc] using this
  | arr t len ht hl ih =>
    intro X d hd' hn hX hXs
    have h0 : d.nstars = 0 := hn rfl
    obtain ⟨m, em⟩ := lenText_ends len
    have hXs' : XStart (X ++ lenText len) := by
      rcases hXs with rfl | ⟨c, r, rfl, hc⟩
      · exact Or.inr ⟨'[', m ++ [']'], by simp [em], by decide⟩
      · exact Or.inr ⟨c, _, rfl, hc⟩
    obtain ⟨L, D, w⟩ := ih (X ++ lenText len) (d.snoc (.arr len)) (snocF_printable ctx d len hd' hl)
      (by intro _; rw [snoc_nstars]; exact h0) (tokXF_snoc X d len hX) hXs'
    have hne : (d.snoc (.arr len)).entry ≠ .outer := by
      rw [snoc_entry d len h0]; split <;> simp_all
    refine ⟨L, D, w.leaf, w.print, ?_, ?_, ?_⟩
    · rw [w.apply, snoc_apply d len t h0]
    · rw [w.entry, if_neg hne, snoc_entry d len h0]; rfl
    · intro s' _
      have := w.toks s' (by
        intro e; rcases hXs with rfl | ⟨c, r, rfl, _⟩ <;> simp [em] at e)
      simpa [hd, tl, List.append_assoc] using this
  | fptr args res ell hres hargs harr hshape ihres ihargs =>
    intro X d hd' _ hX _
    obtain ⟨hps, hgs⟩ := starF_printable ctx d hd'
    have hfn : FnOK ctx args ell := fnOK_of_args ctx args ell
      (fun A hA => argP_of_main ctx A (ihargs A hA) (wf_not_func ctx A (hargs A hA)) (harr A hA)) hshape
    obtain ⟨L, D, w⟩ := ihres ("(*".toList ++ X ++ (')' :: '(' :: (argText (cnames args) ell ++ [')'])))
      (.group 0 d.star [.fn args ell]) ⟨hps, hgs, hfn, trivial⟩ (by intro _; rfl)
      (tokXF_fptr X d args ell hX) (Or.inr ⟨'(', _, rfl, by decide⟩)
    refine ⟨L, D, w.leaf, w.print, ?_, ?_, ?_⟩
    · rw [w.apply]
      simp [Decl.apply, applySfx, ptrN, star_apply]
    · have e1 : (Decl.group 0 d.star [.fn args ell]).entry = d.star.entry :=
        group_entry _ _ _ (star_entry_ne d)
      rw [w.entry, e1, if_neg (star_entry_ne d), star_entry]; rfl
    · intro s' _
      have := w.toks s' (by intro e; simp at e)
      simpa [hd, tl, List.append_assoc] using this


/-! ### Top-level statements -/

/-- The parser reads `T`'s printed name with the text `X` of a declarator `d` at the name
position as `d` applied to `T`. -/
theorem parse_with (ctx : Ctx) (T : Ty) (hT : WF ctx T) (X : Str) (d : Decl) (hd' : PrintF ctx d)
    (harr : T.isArr = true → d.nstars = 0) (hX : TokXF X d) (hXs : XStart X) :
    parseType ctx (hd T ++ X ++ tl T) = .ok (d.apply T) := by
  obtain ⟨L, D, w⟩ := main ctx T hT X d hd' harr hX hXs
  have htoks : tokenize (hd T ++ X ++ tl T) = run .idle L.baseName ++ dtoksF D := by
    have := w.toks [] (fun _ => trivial)
    simpa [tokenize, run, flush] using this
  have hp := (parse_of_wrap ctx L D w.leaf w.print [] Stop.nil
    (3 * (run .idle L.baseName ++ dtoksF D).length + 4) (by omega)).2
  rw [parseType, htoks, parseToks]
  rw [List.append_nil] at hp
  rw [hp, w.apply]

/-- **The C parser inverts the C printer** for every well-formed type. -/
theorem parse_cname_full (ctx : Ctx) (T : Ty) (hT : WF ctx T) : parseType ctx (cname T).1 = .ok T := by
  have := parse_with ctx T hT [] (.flat 0 []) (by simp [PrintF, ArrOnly]) (by intro _; rfl) tokXF_empty
    (Or.inl rfl)
  rw [cname_eq]
  simpa [Decl.apply, applySfx, ptrN] using this

/-! ### Declarator texts -/

def sfxStr : List Suffix → Str
  | [] => []
  | .arr l :: r => lenText l ++ sfxStr r
  | .fn a e :: r => '(' :: (argText (cnames a) e ++ ')' :: sfxStr r)

/-- Canonical text of a declarator: stars, grouping parentheses, suffixes. -/
def dstr : Decl → Str
  | .flat s sfx => List.replicate s '*' ++ sfxStr sfx
  | .group s g sfx => List.replicate s '*' ++ '(' :: (dstr g ++ ')' :: sfxStr sfx)

/-- Suffix lists a user may write: parameter types well-formed and adjusted. -/
def SfxWF (ctx : Ctx) : List Suffix → Prop
  | [] => True
  | .fn a e :: r => (∀ A ∈ a, WF ctx A) ∧ (∀ A ∈ a, A.isArr = false) ∧ ArgShape a e ∧ SfxWF ctx r
  | .arr l :: r => ArrOnly (.arr l :: r)

/-- Declarators `*…*`, `[N]…`, `(*…)(args)[N]…` and their nestings. -/
def DeclWF (ctx : Ctx) : Decl → Prop
  | .flat _ sfx => ArrOnly sfx
  | .group _ g sfx => DeclWF ctx g ∧ Groupable g ∧ SfxWF ctx sfx

theorem sfxWF_ok (ctx : Ctx) (x : List Suffix) (h : SfxWF ctx x) : SfxOK ctx x := by
  induction x with
  | nil => trivial
  | cons a x ih =>
    cases a with
    | arr l => exact h
    | fn a e =>
      obtain ⟨h1, h2, h3, h4⟩ := h
      exact ⟨fnOK_of_args ctx a e
        (fun A hA => argP_of_main ctx A (main ctx A (h1 A hA)) (wf_not_func ctx A (h1 A hA)) (h2 A hA)) h3, ih h4⟩

theorem declWF_print (ctx : Ctx) (d : Decl) (h : DeclWF ctx d) : PrintF ctx d := by
  induction d with
  | flat s x => exact h
  | group s g x ih => exact ⟨ih h.1, h.2.1, sfxWF_ok ctx x h.2.2⟩

theorem run_stars (k : Nat) (s : Str) : run .idle (List.replicate k '*' ++ s) = stars k ++ run .idle s := by
  induction k with
  | zero => simp [stars]
  | succ k ih =>
    simp only [List.replicate_succ, List.cons_append, stars]
    rw [run_idle_star, ih]; rfl

theorem run_sfxStr (x : List Suffix) (s : Str) : run .idle (sfxStr x ++ s) = sfxToksF x ++ run .idle s := by
  induction x with
  | nil => rfl
  | cons a x ih =>
    cases a with
    | arr l =>
      simp only [sfxStr, List.append_assoc]
      rw [run_lenTextF, ih]
      cases l <;> simp [sfxToksF]
    | fn a e =>
      simp only [sfxStr, List.cons_append, List.append_assoc]
      rw [run_idle_lparen, run_append_hard _ _ _ (show HardStart (')' :: _) from (by decide : isHard ')' = true)),
        run_idle_rparen, ih]
      simp [sfxToksF, atoks, tokenize]

theorem tokXF_dstr (d : Decl) : TokXF (dstr d) d := by
  induction d with
  | flat s x =>
    intro s'
    simp only [dstr, List.append_assoc, run_stars, run_sfxStr, dtoksF]
  | group s g x ih =>
    intro s'
    simp only [dstr, List.append_assoc, List.cons_append, run_stars, dtoksF]
    rw [run_idle_lparen, ih, run_idle_rparen, run_sfxStr]


/-! ### `ffi_getctype` with a declarator text -/

def EndsNonSpace (s : Str) : Prop := ∀ c, s.getLast? = some c → isSpaceC c = false

theorem ends_append (a b : Str) (ha : EndsNonSpace a) (hb : EndsNonSpace b) : EndsNonSpace (a ++ b) := by
  intro c hc
  rw [List.getLast?_append] at hc
  cases hbl : b.getLast? with
  | none => rw [hbl] at hc; exact ha c (by simpa using hc)
  | some x => rw [hbl] at hc; simp at hc; subst hc; exact hb x hbl

theorem ends_append_right (a b : Str) (hne : b ≠ []) (hb : EndsNonSpace b) : EndsNonSpace (a ++ b) := by
  intro c hc
  rw [List.getLast?_append] at hc
  cases hbl : b.getLast? with
  | none => exact absurd (List.getLast?_eq_none_iff.mp hbl) hne
  | some x => rw [hbl] at hc; simp at hc; subst hc; exact hb x hbl

theorem ends_replicate (k : Nat) : EndsNonSpace (List.replicate k '*') := by
  intro c hc
  rw [List.getLast?_replicate] at hc
  split at hc
  · cases hc
  · cases hc; decide

theorem ends_singleton (c : Char) (h : isSpaceC c = false) : EndsNonSpace [c] := by
  intro x hx; simp at hx; subst hx; exact h

theorem ends_lenText (l : Option Nat) : EndsNonSpace (lenText l) := by
  obtain ⟨m, e⟩ := lenText_ends l
  rw [e, show '[' :: (m ++ [']']) = ('[' :: m) ++ [']'] by simp]
  exact ends_append_right _ _ (by simp) (ends_singleton _ (by decide))

theorem ends_sfxStr (x : List Suffix) : EndsNonSpace (sfxStr x) := by
  induction x with
  | nil => intro c hc; simp [sfxStr] at hc
  | cons a x ih =>
    cases a with
    | arr l => exact ends_append _ _ (ends_lenText l) ih
    | fn a e =>
      have : sfxStr (.fn a e :: x) = ('(' :: argText (cnames a) e) ++ ([')'] ++ sfxStr x) := by simp [sfxStr]
      rw [this]
      exact ends_append_right _ _ (by simp) (ends_append _ _ (ends_singleton _ (by decide)) ih)

theorem ends_dstr (d : Decl) : EndsNonSpace (dstr d) := by
  cases d with
  | flat s x => exact ends_append _ _ (ends_replicate s) (ends_sfxStr x)
  | group s g x =>
    have : dstr (.group s g x) = (List.replicate s '*' ++ '(' :: dstr g) ++ ([')'] ++ sfxStr x) := by simp [dstr]
    rw [this]
    exact ends_append_right _ _ (by simp) (ends_append _ _ (ends_singleton _ (by decide)) (ends_sfxStr x))

/-- First character of a declarator text. -/
theorem dstr_head (d : Decl) :
    (0 < d.nstars ∧ ∃ r, dstr d = '*' :: r) ∨
    (d.nstars = 0 ∧ (dstr d = [] ∧ d = .flat 0 [] ∨ ∃ c r, dstr d = c :: r ∧ (c = '[' ∨ c = '('))) := by
  cases d with
  | flat s x =>
    cases s with
    | succ s =>
      exact Or.inl ⟨by simp [Decl.nstars], List.replicate s '*' ++ sfxStr x, by simp [dstr, List.replicate_succ]⟩
    | zero =>
      refine Or.inr ⟨rfl, ?_⟩
      cases x with
      | nil => exact Or.inl ⟨rfl, rfl⟩
      | cons a x =>
        cases a with
        | arr l =>
          obtain ⟨m, e⟩ := lenText_ends l
          exact Or.inr ⟨'[', m ++ ']' :: sfxStr x, by simp [dstr, sfxStr, e], Or.inl rfl⟩
        | fn a e =>
          exact Or.inr ⟨'(', argText (cnames a) e ++ ')' :: sfxStr x, by simp [dstr, sfxStr], Or.inr rfl⟩
  | group s g x =>
    cases s with
    | succ s =>
      exact Or.inl ⟨by simp [Decl.nstars], List.replicate s '*' ++ '(' :: (dstr g ++ ')' :: sfxStr x),
        by simp [dstr, List.replicate_succ]⟩
    | zero => exact Or.inr ⟨rfl, Or.inr ⟨'(', dstr g ++ ')' :: sfxStr x, by simp [dstr], Or.inr rfl⟩⟩

theorem dstr_strip (d : Decl) : strip (dstr d) = dstr d := by
  apply strip_eq_self
  · intro c hc
    rcases dstr_head d with ⟨_, r, e⟩ | ⟨_, ⟨e, _⟩ | ⟨c', r, e, hc'⟩⟩
    · rw [e] at hc; simp at hc; subst hc; decide
    · rw [e] at hc; simp at hc
    · rw [e] at hc; simp at hc; subst hc; rcases hc' with rfl | rfl <;> decide
  · exact ends_dstr d

/-- **`typeof(getctype(T, x))` is the type the declarator text `x` denotes on top of `T`**, for
every well-formed type `T` and every declarator `d` (stars, bracketed lengths, grouping
parentheses, function suffixes with well-formed parameter lists, nested at will). -/
theorem getctype_decl_full (ctx : Ctx) (T : Ty) (hT : WF ctx T) (d : Decl) (hd' : DeclWF ctx d) :
    parseType ctx (getctypeC T (dstr d)) = .ok (d.apply T) := by
  have hp := declWF_print ctx d hd'
  have hX := tokXF_dstr d
  unfold getctypeC
  simp only [dstr_strip]
  rcases dstr_head d with ⟨hpos, r, e⟩ | ⟨h0, ⟨e, hflat⟩ | ⟨c, r, e, hc⟩⟩
  · -- the text starts with a star
    have hh : (dstr d).head? = some '*' := by rw [e]; rfl
    have hne : (dstr d).isEmpty = false := by rw [e]; rfl
    simp only [hh, hne]
    cases hA : T.isArr with
    | true =>
      simp only [decide_true, Bool.and_self, Bool.not_true, Bool.false_and, ↓reduceIte,
        Bool.false_eq_true, List.append_nil]
      rw [getcname_eq]
      have hg : Groupable d := by
        cases d with
        | flat s x => exact Or.inl hpos
        | group s g x => exact hpos
      have := parse_with ctx T hT ('(' :: (dstr d ++ [')'])) (paren d) ⟨hp, hg, by simp [SfxOK]⟩ (by intro _; rfl)
        (by
          intro s'
          rw [List.cons_append, run_idle_lparen, List.append_assoc, hX]
          show _ :: (dtoksF d ++ run .idle (')' :: s')) = _
          rw [run_idle_rparen]; simp [paren, dtoksF, stars, sfxToksF])
        (Or.inr ⟨'(', _, rfl, by decide⟩)
      simpa [paren_apply] using this
    | false =>
      simp only [decide_true, Bool.and_false, Bool.not_false, Bool.true_and, ↓reduceIte,
        Bool.false_eq_true, List.append_nil, List.nil_append]
      simp only [ne_eq, Option.some.injEq, Char.reduceEq, not_false_eq_true, decide_true, Bool.and_self,
        ↓reduceIte]
      rw [getcname_eq]
      have := parse_with ctx T hT (' ' :: dstr d) d hp (by intro h; rw [hA] at h; cases h)
        (by intro s'; rw [List.cons_append, run_idle_space]; exact hX s')
        (Or.inr ⟨' ', _, rfl, by decide⟩)
      simpa using this
  · -- empty text
    subst hflat
    have : dstr (.flat 0 []) = [] := rfl
    simp only [this, List.head?_nil, List.isEmpty_nil]
    have := parse_cname_full ctx T hT
    rw [cname_eq] at this
    rw [getcname_eq]
    simpa [Decl.apply, applySfx, ptrN] using this
  · -- the text starts with `[` or `(`
    have hne : (dstr d).isEmpty = false := by rw [e]; rfl
    have hh : (dstr d).head? = some c := by rw [e]; rfl
    have hstar : (some c = some '*') = False := by rcases hc with rfl | rfl <;> simp
    have hsp : (decide (some c ≠ some '[') && decide (some c ≠ some '(')) = false := by
      rcases hc with rfl | rfl <;> simp
    simp only [hh, hne, hstar, decide_false, Bool.false_and, Bool.not_false, Bool.true_and, hsp,
      Bool.false_eq_true, ↓reduceIte, List.nil_append, List.append_nil]
    rw [getcname_eq]
    exact parse_with ctx T hT (dstr d) d hp (fun _ => h0) hX
      (Or.inr ⟨c, r, e, by rcases hc with rfl | rfl <;> decide⟩)

/-! ### The fragment without function types, as a special case -/

theorem wf_of_frag (ctx : Ctx) (F : FTy) (hleaf : WFLeaf ctx F.leaf) (hlens : F.LensOK) : WF ctx F.toTy := by
  induction F with
  | prim n => exact WF.leaf (.prim n) hleaf
  | agg k tag => exact WF.leaf (.agg k tag) hleaf
  | ptr t ih => exact WF.ptr _ (ih hleaf hlens)
  | arr t len ih => exact WF.arr _ len (ih hleaf hlens.1) hlens.2

theorem sfxStr_arrs (lens : List (Option Nat)) : sfxStr (lens.map Suffix.arr) = (lens.map lenText).flatten := by
  induction lens with
  | nil => rfl
  | cons l lens ih => simp [sfxStr, ih]

theorem declText_eq_dstr (k : Nat) (lens : List (Option Nat)) :
    declText k lens = dstr (.flat k (lens.map Suffix.arr)) := by
  simp [declText, dstr, sfxStr_arrs]

/-! ### Blanks between `void` and `)` -/

/-- Blanks in front of a punctuation character never change the tokens, in any tokenizer state:
in particular `void )` and `void)` are the same two tokens, so the `(void)` test of
`parse_sequel` (next non-blank character is `)`) does not depend on the blanks. -/
theorem tokens_blank_insensitive (pre ws post : Str) (c : Char) (hw : ∀ x ∈ ws, isSpace x = true)
    (hc : isHard c = true) : tokenize (pre ++ ws ++ c :: post) = tokenize (pre ++ c :: post) := by
  have key : ∀ (st : LexSt) (a : Str), run st (a ++ (ws ++ c :: post)) = run st (a ++ c :: post) := by
    intro st a
    induction a generalizing st with
    | nil => exact run_blanks_hard st ws (c :: post) hw hc
    | cons x a ih => simp only [List.cons_append, run, ih]
  simpa [tokenize, List.append_assoc] using key .idle pre

end CffiVerif.TypeParser
