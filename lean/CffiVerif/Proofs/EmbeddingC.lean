import CffiVerif.Proofs.EmbeddingB

/-!
Progress of the `Embedding` transition system: in every reachable state a thread that is
inside some library can take a step, or some other thread can, unless the libraries' init
codes call each other in a cycle (the two-library ABBA case).
-/
namespace CffiVerif.Embedding
set_option linter.unusedSimpArgs false
set_option linter.unusedVariables false

/-- Some step other than a fresh `call` is enabled. -/
def NonCallStep (s : State) : Prop := ∃ l s', Label.isCall l = false ∧ step? s l = some s'

theorem step_of_spinPc {s : State} {u : Tid} {f : Frame} {r : List Frame}
    (hu : s.thr u = f :: r) (hp : spinPc f.pc = true) : NonCallStep s := by
  refine ⟨.step u, ?_⟩
  cases hpc : f.pc <;> simp [hpc, spinPc] at hp <;> simp [step?, hu, hpc, stepPc, Label.isCall]

theorem step_of_gilPc {s : State} {u : Tid} {f : Frame} {r : List Frame}
    (hu : s.thr u = f :: r) (hp : gilPc f.pc = true) : NonCallStep s := by
  cases hpc : f.pc <;> simp [hpc, gilPc] at hp
  case py k => exact ⟨.yield u, by simp [step?, hu, hpc, Label.isCall]⟩
  all_goals exact ⟨.step u, by simp [step?, hu, hpc, stepPc, Label.isCall]⟩

/-- Every thread inside a library can step, or is waiting for a start-up mutex that another
thread owns (all other waits are for the spin lock or the GIL, whose holders can always step). -/
theorem progress_or_blocked {s : State} (hI : Inv s) (t : Tid) (f : Frame) (rest : List Frame)
    (ht : s.thr t = f :: rest) :
    NonCallStep s ∨ (f.pc = .mutexWait ∧ ∃ u, (s.lib f.lib).owner = some u ∧ u ≠ t) := by
  have gilcase : ∀ (hstep : s.gil = none → NonCallStep s), NonCallStep s := by
    intro hstep
    cases hg : s.gil with
    | none => exact hstep hg
    | some u =>
      obtain ⟨f', r', hu, hp⟩ := hI.h2a u hg
      exact step_of_gilPc hu hp
  cases hpc : f.pc
  case spinWait =>
    left
    cases hsp : s.spin with
    | none => exact ⟨.step t, by simp [step?, ht, hpc, stepPc, hsp, Label.isCall]⟩
    | some u =>
      obtain ⟨f', r', hu, hp⟩ := hI.h1a u hsp
      exact step_of_spinPc hu hp
  case mutexWait =>
    by_cases ho : (s.lib f.lib).owner = none ∨ (s.lib f.lib).owner = some t
    · left; exact ⟨.step t, by simp [step?, ht, hpc, stepPc, ho, Label.isCall]⟩
    · right
      refine ⟨rfl, ?_⟩
      cases hw : (s.lib f.lib).owner with
      | none => simp [hw] at ho
      | some u => exact ⟨u, rfl, by intro h; simp [hw, h] at ho⟩
  case initGil =>
    left; exact gilcase fun hg => ⟨.step t, by simp [step?, ht, hpc, stepPc, hg, Label.isCall]⟩
  case pyYield k =>
    left; exact gilcase fun hg => ⟨.step t, by simp [step?, ht, hpc, stepPc, hg, Label.isCall]⟩
  case callPy =>
    left; exact gilcase fun hg => ⟨.step t, by simp [step?, ht, hpc, stepPc, hg, Label.isCall]⟩
  case py k => left; exact ⟨.yield t, by simp [step?, ht, hpc, Label.isCall]⟩
  case pyOut k => left; exact ⟨.callBack t, by simp [step?, ht, hpc, Label.isCall]⟩
  case returned z => left; exact ⟨.ret t, by simp [step?, ht, hpc, Label.isCall]⟩
  case initResult ok =>
    left; cases ok <;> exact ⟨.step t, by simp [step?, ht, hpc, stepPc, Label.isCall]⟩
  all_goals (left; exact ⟨.step t, by simp [step?, ht, hpc, stepPc, Label.isCall]⟩)

/-- No library's init code (transitively) calls into a *different* library that is ranked at or
above it: there is a ranking of the libraries that strictly decreases along every call made
while an init frame is on the stack.  Calls of a library's own functions from its init code
(recursion) are not restricted. -/
def AcyclicInitCalls (s : State) : Prop :=
  ∃ rank : Lib → Nat, ∀ t f rest g, s.thr t = f :: rest → g ∈ rest → initPc g.pc = true →
    g.lib ≠ f.lib → rank f.lib < rank g.lib

theorem progress_of_acyclic {s : State} (hI : Inv s) (hac : AcyclicInitCalls s)
    (t : Tid) (ht : s.thr t ≠ []) : NonCallStep s := by
  obtain ⟨rank, hrank⟩ := hac
  -- strong induction on the rank of the library whose mutex the thread waits for
  have key : ∀ n, ∀ t f rest, s.thr t = f :: rest → rank f.lib = n → NonCallStep s := by
    intro n
    induction n using Nat.strongRecOn with
    | ind n ih =>
      intro t f rest ht hn
      rcases progress_or_blocked hI t f rest ht with h | ⟨hpc, u, hou, hut⟩
      · exact h
      · -- `u` owns the mutex of `f.lib`: it has a frame holding it
        have hd : (s.lib f.lib).depth ≠ 0 := by
          intro h0
          have := (hI.h3' f.lib).mpr h0
          simp [hou] at this
        have hc := hI.h3 u f.lib
        simp only [hou, if_true] at hc
        have hpos : 0 < countHold f.lib (s.thr u) := by omega
        unfold countHold at hpos
        rw [List.countP_pos_iff] at hpos
        obtain ⟨g, hg, hgp⟩ := hpos
        simp only [Bool.and_eq_true, beq_iff_eq] at hgp
        obtain ⟨hgl, hgh⟩ := hgp
        cases hsu : s.thr u with
        | nil => simp [hsu] at hg
        | cons f' rest' =>
          rcases progress_or_blocked hI u f' rest' hsu with h | ⟨hpc', w, how, hwu⟩
          · exact h
          · -- `g` is not the head (the head waits, it holds nothing): it is a suspended init frame
            have hgr : g ∈ rest' := by
              rw [hsu] at hg
              rcases List.mem_cons.mp hg with h | h
              · subst h; simp [hpc', holdsPc] at hgh
              · exact h
            obtain ⟨k, hk⟩ := hI.wf u f' rest' hsu g hgr
            have hinit : initPc g.pc = true := by
              cases k <;> simp [hk, holdsPc, initPc] at hgh ⊢
            have hne : g.lib ≠ f'.lib := by
              intro h
              rw [hgl] at h
              rw [← h, hou] at how
              exact hwu (Option.some.inj how).symm
            have hlt := hrank u f' rest' g hsu hgr hinit hne
            rw [hgl, hn] at hlt
            exact ih (rank f'.lib) hlt u f' rest' hsu rfl
  cases hs : s.thr t with
  | nil => exact absurd hs ht
  | cons f rest => exact key _ t f rest hs rfl

theorem bodyPc_gatePc (pc : Pc) (h : bodyPc pc = true) : gatePc pc = true := by
  cases pc <;> simp [bodyPc, gatePc] at h ⊢ <;> (rename_i k; cases k <;> simp at h ⊢)


theorem step_thr_other {s s' : State} {l : Label} (hs : step? s l = some s') (u : Tid) (hu : u ≠ l.tid) :
    s'.thr u = s.thr u := by
  step_cases hs
  all_goals simp only [setHead, upd, Label.tid] at *
  all_goals simp [hu]

theorem run_thr_other {s s' : State} (ls : List Label) (hr : run s ls = some s') (u : Tid)
    (hu : ∀ l ∈ ls, u ≠ l.tid) : s'.thr u = s.thr u := by
  induction ls generalizing s with
  | nil => simp [run] at hr; rw [hr]
  | cons l ls ih =>
    simp only [run] at hr
    cases hs : step? s l with
    | none => simp [hs] at hr
    | some s1 =>
      simp only [hs] at hr
      rw [ih hr (fun l' hl' => hu l' (by simp [hl'])), step_thr_other hs u (hu l (by simp))]


end CffiVerif.Embedding
