import CffiVerif.Model.ConstExpr
import CffiVerif.Proofs.ConstExprGen
import CffiVerif.Spec.CConstExpr

/-! Helper lemmas for C09 (cffi's constant evaluator vs. C11 typed evaluation). -/
namespace CffiVerif.ConstExpr

/-! ### `_c_div` -/

theorem fmod_ne_zero_iff_not_dvd (a b : Int) : (a.fmod b != 0) = true ↔ ¬ b ∣ a := by
  simp only [bne_iff_ne, ne_eq]
  constructor
  · intro h hd
    apply h
    obtain ⟨k, rfl⟩ := hd
    rw [Int.fmod_def, Int.fdiv_eq_ediv_of_dvd ⟨k, rfl⟩]
    by_cases hb : b = 0
    · subst hb; simp
    · rw [Int.mul_ediv_cancel_left _ hb]; omega
  · intro h h0
    apply h
    have := Int.fmod_add_fdiv_mul a b
    rw [h0] at this
    exact ⟨a.fdiv b, by rw [Int.mul_comm]; omega⟩

theorem cDiv_eq_tdiv (a b : Int) (hb : b ≠ 0) : cDiv a b = .ok (a.tdiv b) := by
  rw [cDiv_def]
  unfold cDivSpec
  simp only [hb, if_false]
  have key := @Int.fdiv_eq_tdiv a b
  by_cases hd : b ∣ a
  · have : (a.fmod b != 0) = false := by
      cases h : (a.fmod b != 0) with
      | false => rfl
      | true => exact absurd hd ((fmod_ne_zero_iff_not_dvd a b).mp h)
    simp only [this, Bool.and_false]
    simp [hd] at key
    simp [key]
  · have hf : (a.fmod b != 0) = true := (fmod_ne_zero_iff_not_dvd a b).mpr hd
    simp only [hf, Bool.and_true]
    simp only [hd, if_false] at key
    by_cases ha : 0 ≤ a <;> by_cases hbn : 0 ≤ b
    · have h1 : ¬ a < 0 := by omega
      have h2 : ¬ b < 0 := by omega
      simp [ha, hbn, h1, h2] at key ⊢
      exact key
    · have h1 : ¬ a < 0 := by omega
      have h2 : b < 0 := by omega
      simp [ha, hbn, h1, h2] at key ⊢
      omega
    · have h1 : a < 0 := by omega
      have h2 : ¬ b < 0 := by omega
      have hs : b.sign = 1 := Int.sign_eq_one_of_pos (by omega)
      simp [ha, hbn, h1, h2, hs] at key ⊢
      omega
    · have h1 : a < 0 := by omega
      have h2 : b < 0 := by omega
      have hs : b.sign = -1 := Int.sign_eq_neg_one_of_neg h2
      simp [ha, hbn, h1, h2, hs] at key ⊢
      omega

theorem cDivSpec_eq_tdiv (a b : Int) (hb : b ≠ 0) : cDivSpec a b = .ok (a.tdiv b) := by
  rw [← cDiv_def]; exact cDiv_eq_tdiv a b hb

/-- The translated `_c_div` is C's truncating division. -/
theorem gen_c_div_is_tdiv (a b : Int) (hb : b ≠ 0) :
    CffiVerif.Generated.ConstExprPy.c_div a b = .ok (a.tdiv b) := cDiv_eq_tdiv a b hb

theorem cMod_eq_tmod (a b : Int) (hb : b ≠ 0) :
    applyBin .mod a b = .ok (a.tmod b) := by
  simp only [applyBin_def, applyBinSpec, cDivSpec_eq_tdiv a b hb, bind, Except.bind, pure, Except.pure]
  congr 1
  have := Int.tmod_add_tdiv_mul a b
  omega

/-! ### `&`, `|`, `^` on Python integers vs. fixed-width two's complement -/

private theorem bv_and_not (M N : BitVec w) : M ^^^ (M &&& N) = M &&& ~~~N := by
  ext i hi; simp; cases M[i] <;> cases N[i] <;> rfl

private theorem bv_not_and_not (M N : BitVec w) : ~~~(M ||| N) = ~~~M &&& ~~~N := by
  ext i hi <;> simp

private theorem bv_or_not (M N : BitVec w) : ~~~(N ^^^ (N &&& M)) = M ||| ~~~N := by
  ext i hi; simp; cases M[i] <;> cases N[i] <;> rfl

private theorem bv_not_or_not (M N : BitVec w) : ~~~(M &&& N) = ~~~M ||| ~~~N := by
  ext i hi <;> simp

private theorem bv_xor_not (M N : BitVec w) : ~~~(M ^^^ N) = M ^^^ ~~~N := by
  ext i hi; simp

private theorem bv_not_xor (M N : BitVec w) : ~~~(M ^^^ N) = ~~~M ^^^ N := by
  ext i hi; simp

private theorem bv_not_xor_not (M N : BitVec w) : M ^^^ N = ~~~M ^^^ ~~~N := by
  ext i hi; simp

theorem ofInt_pyAnd (w : Nat) (a b : Int) :
    BitVec.ofInt w (pyAnd a b) = BitVec.ofInt w a &&& BitVec.ofInt w b := by
  cases a <;> cases b <;>
    simp only [pyAnd, Int.ofNat_eq_natCast, BitVec.ofInt_natCast, BitVec.ofInt_negSucc_eq_not_ofNat,
      BitVec.ofNat_and, BitVec.ofNat_or, BitVec.ofNat_xor]
  · exact bv_and_not _ _
  · rw [BitVec.and_comm (~~~ _) _]; exact bv_and_not _ _
  · exact bv_not_and_not _ _

theorem ofInt_pyOr (w : Nat) (a b : Int) :
    BitVec.ofInt w (pyOr a b) = BitVec.ofInt w a ||| BitVec.ofInt w b := by
  cases a <;> cases b <;>
    simp only [pyOr, Int.ofNat_eq_natCast, BitVec.ofInt_natCast, BitVec.ofInt_negSucc_eq_not_ofNat,
      BitVec.ofNat_and, BitVec.ofNat_or, BitVec.ofNat_xor]
  · exact bv_or_not _ _
  · rw [BitVec.or_comm (~~~ _) _]; exact bv_or_not _ _
  · exact bv_not_or_not _ _

theorem ofInt_pyXor (w : Nat) (a b : Int) :
    BitVec.ofInt w (pyXor a b) = BitVec.ofInt w a ^^^ BitVec.ofInt w b := by
  cases a <;> cases b <;>
    simp only [pyXor, Int.ofNat_eq_natCast, BitVec.ofInt_natCast, BitVec.ofInt_negSucc_eq_not_ofNat,
      BitVec.ofNat_xor]
  · exact bv_xor_not _ _
  · exact bv_not_xor _ _
  · exact bv_not_xor_not _ _

/-- `[-2^k, 2^k)`. -/
def InS (k : Nat) (x : Int) : Prop := -(2 ^ k : Int) ≤ x ∧ x < 2 ^ k

private theorem inS_ofNat {k m : Nat} : InS k (Int.ofNat m) ↔ m < 2 ^ k := by
  unfold InS
  simp only [Int.ofNat_eq_natCast]
  have : (0 : Int) < 2 ^ k := Int.pow_pos (by decide)
  constructor
  · rintro ⟨_, h⟩; exact_mod_cast h
  · intro h; constructor
    · omega
    · exact_mod_cast h

private theorem inS_negSucc {k m : Nat} : InS k (Int.negSucc m) ↔ m < 2 ^ k := by
  unfold InS
  have h2 : ((2 ^ k : Nat) : Int) = (2 : Int) ^ k := by simp
  constructor
  · rintro ⟨h, _⟩; rw [← h2] at h; omega
  · intro h; rw [← h2]; constructor <;> omega

theorem pyAnd_inS {k : Nat} {a b : Int} (ha : InS k a) (hb : InS k b) : InS k (pyAnd a b) := by
  cases a <;> cases b <;> simp only [pyAnd, inS_ofNat, inS_negSucc] at *
  · exact Nat.and_lt_two_pow _ hb
  · exact Nat.xor_lt_two_pow ha (Nat.and_lt_two_pow _ hb)
  · exact Nat.xor_lt_two_pow hb (Nat.and_lt_two_pow _ ha)
  · exact Nat.or_lt_two_pow ha hb

theorem pyOr_inS {k : Nat} {a b : Int} (ha : InS k a) (hb : InS k b) : InS k (pyOr a b) := by
  cases a <;> cases b <;> simp only [pyOr, inS_ofNat, inS_negSucc] at *
  · exact Nat.or_lt_two_pow ha hb
  · exact Nat.xor_lt_two_pow hb (Nat.and_lt_two_pow _ ha)
  · exact Nat.xor_lt_two_pow ha (Nat.and_lt_two_pow _ hb)
  · exact Nat.and_lt_two_pow _ hb

theorem pyXor_inS {k : Nat} {a b : Int} (ha : InS k a) (hb : InS k b) : InS k (pyXor a b) := by
  cases a <;> cases b <;> simp only [pyXor, inS_ofNat, inS_negSucc] at * <;>
    exact Nat.xor_lt_two_pow ha hb

theorem toInt_ofInt_of_inS {w : Nat} (hw : 0 < w) {x : Int} (h : InS (w - 1) x) :
    (BitVec.ofInt w x).toInt = x :=
  BitVec.toInt_ofInt_eq_self hw h.1 h.2

theorem bv_and_eq_pyAnd {w : Nat} (hw : 0 < w) {a b : Int} (ha : InS (w - 1) a) (hb : InS (w - 1) b) :
    (BitVec.ofInt w a &&& BitVec.ofInt w b).toInt = pyAnd a b := by
  rw [← ofInt_pyAnd]; exact toInt_ofInt_of_inS hw (pyAnd_inS ha hb)

theorem bv_or_eq_pyOr {w : Nat} (hw : 0 < w) {a b : Int} (ha : InS (w - 1) a) (hb : InS (w - 1) b) :
    (BitVec.ofInt w a ||| BitVec.ofInt w b).toInt = pyOr a b := by
  rw [← ofInt_pyOr]; exact toInt_ofInt_of_inS hw (pyOr_inS ha hb)

theorem bv_xor_eq_pyXor {w : Nat} (hw : 0 < w) {a b : Int} (ha : InS (w - 1) a) (hb : InS (w - 1) b) :
    (BitVec.ofInt w a ^^^ BitVec.ofInt w b).toInt = pyXor a b := by
  rw [← ofInt_pyXor]; exact toInt_ofInt_of_inS hw (pyXor_inS ha hb)

/-! ### Literal tokens -/

theorem dropWhile_append_all {α} {p : α → Bool} (xs ys : List α) (h : ∀ x ∈ xs, p x = true) :
    (xs ++ ys).dropWhile p = ys.dropWhile p := by
  induction xs with
  | nil => rfl
  | cons x xs ih =>
    have hx : p x = true := h x (by simp)
    simp only [List.cons_append, List.dropWhile_cons, hx, if_true]
    exact ih (fun y hy => h y (by simp [hy]))

theorem rstrip_append (body suf : List Char) (hs : ∀ c ∈ suf, isSuffixChar c = true)
    (hb : ∀ c, body.getLast? = some c → isSuffixChar c = false) :
    rstripSuffix (body ++ suf) = body := by
  unfold rstripSuffix
  rw [List.reverse_append, dropWhile_append_all _ _ (by simpa using hs)]
  have : body.reverse.dropWhile isSuffixChar = body.reverse := by
    cases hr : body.reverse with
    | nil => rfl
    | cons c cs =>
      have hl : body.getLast? = some c := by rw [← List.head?_reverse, hr]; rfl
      simp only [List.dropWhile_cons, hb c hl]
      rfl
  rw [this, List.reverse_reverse]

theorem digitsVal_mem {base : Nat} : ∀ (ds : List Char) (acc n : Nat), digitsVal base ds acc = some n →
    ∀ c ∈ ds, ∃ d, digitVal c = some d ∧ d < base := by
  intro ds
  induction ds with
  | nil => intro _ _ _ c hc; cases hc
  | cons x xs ih =>
    intro acc n h c hc
    unfold digitsVal at h
    cases hx : digitVal x with
    | none => simp [hx] at h
    | some d =>
      simp only [hx] at h
      by_cases hd : d < base
      · simp only [hd, if_true] at h
        rcases List.mem_cons.mp hc with rfl | hc
        · exact ⟨d, hx, hd⟩
        · exact ih _ _ h c hc
      · simp [hd] at h

theorem suffixChar_digit {c : Char} (h : isSuffixChar c = true) {d : Nat} (hd : digitVal c = some d) :
    16 ≤ d := by
  simp only [isSuffixChar_def, Bool.or_eq_true, beq_iff_eq] at h
  rcases h with ((rfl | rfl) | rfl) | rfl <;> (simp [digitVal] at hd; omega)

theorem digit_not_suffix {base : Nat} (hb : base ≤ 16) {c : Char} {d : Nat}
    (hd : digitVal c = some d) (hlt : d < base) : isSuffixChar c = false := by
  cases h : isSuffixChar c with
  | false => rfl
  | true => have := suffixChar_digit h hd; omega

theorem last_not_suffix {base : Nat} (hb : base ≤ 16) (pre ds : List Char)
    (hpre : ∀ c, pre.getLast? = some c → isSuffixChar c = false)
    (hds : ∀ c ∈ ds, ∃ d, digitVal c = some d ∧ d < base) :
    ∀ c, (pre ++ ds).getLast? = some c → isSuffixChar c = false := by
  intro c hc
  rw [List.getLast?_append] at hc
  cases hl : ds.getLast? with
  | none => rw [hl] at hc; exact hpre c (by simpa using hc)
  | some x =>
    rw [hl] at hc
    have : x = c := by simpa using hc
    subst this
    obtain ⟨d, h1, h2⟩ := hds x (List.mem_of_getLast? hl)
    exact digit_not_suffix hb h1 h2

theorem validSuffix_all {s : List Char} (h : CConstExpr.validSuffixes.contains s = true) :
    ∀ c ∈ s, isSuffixChar c = true := by
  have key : ∀ t ∈ CConstExpr.validSuffixes, t.all isSuffixChar = true := by decide
  have hm : s ∈ CConstExpr.validSuffixes := by simpa using h
  simpa using key s hm

theorem digit_lt_10_range {c : Char} {d : Nat} (h : digitVal c = some d) (hd : d < 10) :
    48 ≤ c.toNat ∧ c.toNat ≤ 57 := by
  unfold digitVal at h
  simp only at h
  split at h
  · assumption
  · split at h
    · simp at h; omega
    · split at h
      · simp at h; omega
      · simp at h

open CConstExpr in
/-- cffi reads every well-formed C integer literal to its mathematical value. -/
theorem parseConst_render (l : IntLit) (n : Nat) (h : l.value? = some n) :
    parseConst l.render = .ok (n : Int) := by
  unfold IntLit.value? at h
  have hsuf : validSuffixes.contains l.suffix = true := by
    cases hc : validSuffixes.contains l.suffix with
    | true => rfl
    | false => rw [hc] at h; simp at h
  simp only [hsuf, not_true_eq_false, if_false] at h
  have hs := validSuffix_all hsuf
  cases hbase : l.base with
  | dec =>
    simp only [hbase] at h
    cases hdig : l.digits with
    | nil => simp [hdig] at h
    | cons c cs =>
      simp only [hdig] at h
      by_cases hc0 : c = '0'
      · simp [hc0] at h
      simp only [hc0, if_false] at h
      have hmem := digitsVal_mem _ _ _ h
      obtain ⟨d, hd1, hd2⟩ := hmem c (by simp)
      have hrange := digit_lt_10_range hd1 hd2
      have hstrip : rstripSuffix ((c :: cs) ++ l.suffix) = c :: cs :=
        rstrip_append _ _ hs (by
          have := last_not_suffix (base := 10) (by omega) [] (c :: cs) (by simp) hmem
          simpa using this)
      simp only [IntLit.render, hbase, hdig]
      simp only [List.cons_append] at hstrip
      simp only [parseConst_def, parseConstSpec, List.cons_append, hrange, and_self, if_true, parseNumberSpec, hstrip,
        List.head?_cons, Option.some.injEq, hc0, if_false, pyInt, h]
  | oct =>
    simp only [hbase] at h
    have hmem := digitsVal_mem _ _ _ h
    have hstrip : rstripSuffix (('0' :: l.digits) ++ l.suffix) = '0' :: l.digits :=
      rstrip_append _ _ hs (by
        have := last_not_suffix (base := 8) (by omega) ['0'] l.digits (by simp [isSuffixChar_def]) hmem
        simpa using this)
    simp only [List.cons_append] at hstrip
    have h0 : digitsVal 8 ('0' :: l.digits) 0 = some n := by
      simp [digitsVal, digitVal, h]
    simp only [IntLit.render, hbase]
    simp only [parseConst_def, parseConstSpec, parseNumberSpec, hstrip, List.head?_cons, if_true, pyInt, h0]
    simp
  | hex =>
    simp only [hbase] at h
    by_cases hne : l.digits = []
    · simp [hne] at h
    simp only [hne, if_false] at h
    have hmem := digitsVal_mem _ _ _ h
    have hstrip : ∀ x : Char, isSuffixChar x = false →
        rstripSuffix (('0' :: x :: l.digits) ++ l.suffix) = '0' :: x :: l.digits := fun x hx =>
      rstrip_append _ _ hs (by
        have := last_not_suffix (base := 16) (by omega) ['0', x] l.digits (by simp [hx]) hmem
        simpa using this)
    have hp : pyInt 16 l.digits = some n := by
      cases hd : l.digits with
      | nil => exact absurd hd hne
      | cons a as => rw [hd] at h; simp [pyInt, h]
    simp only [IntLit.render, hbase]
    cases l.upper
    · have := hstrip 'x' (by decide)
      simp only [List.cons_append] at this
      simp only [parseConst_def, parseConstSpec, parseNumberSpec, Bool.false_eq_true, if_false, this, List.head?_cons, if_true, pyInt]
      simp [digitsVal, digitVal, lowerChar, h]
    · have := hstrip 'X' (by decide)
      simp only [List.cons_append] at this
      simp only [parseConst_def, parseConstSpec, parseNumberSpec, if_true, this, List.head?_cons, pyInt]
      simp [digitsVal, digitVal, lowerChar, h]
  | bin =>
    simp only [hbase] at h
    by_cases hne : l.digits = []
    · simp [hne] at h
    simp only [hne, if_false] at h
    have hmem := digitsVal_mem _ _ _ h
    have hstrip : ∀ x : Char, isSuffixChar x = false →
        rstripSuffix (('0' :: x :: l.digits) ++ l.suffix) = '0' :: x :: l.digits := fun x hx =>
      rstrip_append _ _ hs (by
        have := last_not_suffix (base := 2) (by omega) ['0', x] l.digits (by simp [hx]) hmem
        simpa using this)
    have hp : pyInt 2 l.digits = some n := by
      cases hd : l.digits with
      | nil => exact absurd hd hne
      | cons a as => rw [hd] at h; simp [pyInt, h]
    simp only [IntLit.render, hbase]
    cases l.upper
    · have := hstrip 'b' (by decide)
      simp only [List.cons_append] at this
      simp only [parseConst_def, parseConstSpec, parseNumberSpec, Bool.false_eq_true, if_false, this, List.head?_cons, if_true, pyInt]
      simp [digitsVal, digitVal, lowerChar, h]
    · have := hstrip 'B' (by decide)
      simp only [List.cons_append] at this
      simp only [parseConst_def, parseConstSpec, parseNumberSpec, if_true, this, List.head?_cons, pyInt]
      simp [digitsVal, digitVal, lowerChar, h]


/-! ### Escapes: the two tables coincide -/

theorem escape_eq (c : Char) :
    CConstExpr.escapeChar c = (simpleEscape c).map (fun n => (CConstExpr.CType.int, (n : Int))) := by
  by_cases h0 : c = '\''
  · subst h0; decide
  by_cases h1 : c = '"'
  · subst h1; decide
  by_cases h2 : c = '?'
  · subst h2; decide
  by_cases h3 : c = '\\'
  · subst h3; decide
  by_cases h4 : c = '0'
  · subst h4; decide
  by_cases h5 : c = 'a'
  · subst h5; decide
  by_cases h6 : c = 'b'
  · subst h6; decide
  by_cases h7 : c = 'f'
  · subst h7; decide
  by_cases h8 : c = 'n'
  · subst h8; decide
  by_cases h9 : c = 'r'
  · subst h9; decide
  by_cases h10 : c = 't'
  · subst h10; decide
  by_cases h11 : c = 'v'
  · subst h11; decide
  · simp [CConstExpr.escapeChar, simpleEscape_def, simpleEscapeSpec, *]

theorem simpleEscape_le (c : Char) (n : Nat) (h : simpleEscape c = some n) : n ≤ 92 := by
  revert h
  by_cases h0 : c = '\''
  · subst h0; intro h; simp [simpleEscape_def, simpleEscapeSpec] at h; omega
  by_cases h1 : c = '"'
  · subst h1; intro h; simp [simpleEscape_def, simpleEscapeSpec] at h; omega
  by_cases h2 : c = '?'
  · subst h2; intro h; simp [simpleEscape_def, simpleEscapeSpec] at h; omega
  by_cases h3 : c = '\\'
  · subst h3; intro h; simp [simpleEscape_def, simpleEscapeSpec] at h; omega
  by_cases h4 : c = '0'
  · subst h4; intro h; simp [simpleEscape_def, simpleEscapeSpec] at h; omega
  by_cases h5 : c = 'a'
  · subst h5; intro h; simp [simpleEscape_def, simpleEscapeSpec] at h; omega
  by_cases h6 : c = 'b'
  · subst h6; intro h; simp [simpleEscape_def, simpleEscapeSpec] at h; omega
  by_cases h7 : c = 'f'
  · subst h7; intro h; simp [simpleEscape_def, simpleEscapeSpec] at h; omega
  by_cases h8 : c = 'n'
  · subst h8; intro h; simp [simpleEscape_def, simpleEscapeSpec] at h; omega
  by_cases h9 : c = 'r'
  · subst h9; intro h; simp [simpleEscape_def, simpleEscapeSpec] at h; omega
  by_cases h10 : c = 't'
  · subst h10; intro h; simp [simpleEscape_def, simpleEscapeSpec] at h; omega
  by_cases h11 : c = 'v'
  · subst h11; intro h; simp [simpleEscape_def, simpleEscapeSpec] at h; omega
  · simp [simpleEscape_def, simpleEscapeSpec, *]

end CffiVerif.ConstExpr

namespace CffiVerif.CConstExpr
open CffiVerif.ConstExpr

/-! ### The typed evaluation restricted to signed types -/

theorem inRange_signed_iff {t : CType} (hs : t.signed = true) (v : Int) :
    t.inRange v = true ↔ InS (t.width - 1) v := by
  simp only [CType.inRange, CType.minVal, CType.maxVal, hs, if_true, decide_eq_true_eq, InS]
  omega

theorem width_pos (t : CType) : 0 < t.width := by
  unfold CType.width; cases t.rank <;> simp

theorem width_le (t : CType) : t.width ≤ 64 := by
  unfold CType.width; cases t.rank <;> simp

theorem arith_signed {t1 t : CType} {r v : Int} (h : arith t1 r = some (t, v)) (hs : t.signed = true) :
    t = t1 ∧ v = r ∧ t.inRange v = true := by
  unfold arith at h
  cases h1 : t1.signed with
  | false =>
    simp only [h1, Bool.false_eq_true, if_false, Option.some.injEq, Prod.mk.injEq] at h
    rw [← h.1, h1] at hs; cases hs
  | true =>
    simp only [h1, if_true] at h
    cases h2 : t1.inRange r with
    | false => simp [h2] at h
    | true =>
      simp only [h2, if_true, Option.some.injEq, Prod.mk.injEq] at h
      obtain ⟨rfl, rfl⟩ := h
      exact ⟨rfl, rfl, h2⟩

theorem arith_signed' {t1 : CType} (h1 : t1.signed = true) {t : CType} {r v : Int}
    (h : arith t1 r = some (t, v)) : t = t1 ∧ v = r ∧ t1.inRange r = true := by
  unfold arith at h
  simp only [h1, if_true] at h
  cases h2 : t1.inRange r with
  | false => simp [h2] at h
  | true =>
    simp only [h2, if_true, Option.some.injEq, Prod.mk.injEq] at h
    exact ⟨h.1.symm, h.2.symm, rfl⟩

theorem uac_signed {t1 t2 : CType} (h1 : t1.signed = true) (h2 : t2.signed = true) :
    (uac t1 t2).signed = true ∧
    (∀ v, t1.inRange v = true → (uac t1 t2).inRange v = true) ∧
    (∀ v, t2.inRange v = true → (uac t1 t2).inRange v = true) := by
  obtain ⟨r1, s1⟩ := t1
  obtain ⟨r2, s2⟩ := t2
  simp only at h1 h2
  subst h1 h2
  cases r1 <;> cases r2 <;>
    simp [uac, Rank.toNat, CType.inRange, CType.minVal, CType.maxVal, CType.width] <;>
    intro v h1 h2 <;> omega

theorem conv_id {t : CType} (hs : t.signed = true) {v : Int} (hr : t.inRange v = true) : conv t v = v := by
  simp [conv, hs, hr]

theorem bitwise_and_signed {t : CType} (hs : t.signed = true) {a b : Int}
    (ha : t.inRange a = true) (hb : t.inRange b = true) :
    bitwise t (· &&& ·) (· &&& ·) a b = pyAnd a b := by
  have ha' := (inRange_signed_iff hs a).mp ha
  have hb' := (inRange_signed_iff hs b).mp hb
  unfold bitwise
  unfold CType.width at ha' hb'
  cases hr : t.rank <;> simp only [hr, hs, if_true] at ha' hb' ⊢
  · exact bv_and_eq_pyAnd (w := 32) (by omega) ha' hb'
  · exact bv_and_eq_pyAnd (w := 64) (by omega) ha' hb'
  · exact bv_and_eq_pyAnd (w := 64) (by omega) ha' hb'

theorem bitwise_or_signed {t : CType} (hs : t.signed = true) {a b : Int}
    (ha : t.inRange a = true) (hb : t.inRange b = true) :
    bitwise t (· ||| ·) (· ||| ·) a b = pyOr a b := by
  have ha' := (inRange_signed_iff hs a).mp ha
  have hb' := (inRange_signed_iff hs b).mp hb
  unfold bitwise
  unfold CType.width at ha' hb'
  cases hr : t.rank <;> simp only [hr, hs, if_true] at ha' hb' ⊢
  · exact bv_or_eq_pyOr (w := 32) (by omega) ha' hb'
  · exact bv_or_eq_pyOr (w := 64) (by omega) ha' hb'
  · exact bv_or_eq_pyOr (w := 64) (by omega) ha' hb'

theorem bitwise_xor_signed {t : CType} (hs : t.signed = true) {a b : Int}
    (ha : t.inRange a = true) (hb : t.inRange b = true) :
    bitwise t (· ^^^ ·) (· ^^^ ·) a b = pyXor a b := by
  have ha' := (inRange_signed_iff hs a).mp ha
  have hb' := (inRange_signed_iff hs b).mp hb
  unfold bitwise
  unfold CType.width at ha' hb'
  cases hr : t.rank <;> simp only [hr, hs, if_true] at ha' hb' ⊢
  · exact bv_xor_eq_pyXor (w := 32) (by omega) ha' hb'
  · exact bv_xor_eq_pyXor (w := 64) (by omega) ha' hb'
  · exact bv_xor_eq_pyXor (w := 64) (by omega) ha' hb'

/-- One binary operator on signed, in-range operands: whenever C defines the result, cffi's
unbounded-integer evaluation yields the same value. -/
theorem binop_agrees (op : BinOp) {t1 t2 t : CType} {v1 v2 v : Int}
    (h1 : t1.signed = true) (h2 : t2.signed = true)
    (r1 : t1.inRange v1 = true) (r2 : t2.inRange v2 = true)
    (h : binop op (t1, v1) (t2, v2) = some (t, v)) : applyBin op v1 v2 = .ok v := by
  obtain ⟨hu, hl, hr⟩ := uac_signed h1 h2
  have ca : conv (uac t1 t2) v1 = v1 := conv_id hu (hl _ r1)
  have cb : conv (uac t1 t2) v2 = v2 := conv_id hu (hr _ r2)
  unfold binop at h
  simp only [ca, cb] at h
  cases op <;> simp only at h
  · obtain ⟨_, rfl, _⟩ := arith_signed' hu h; rw [applyBin_def]; rfl
  · obtain ⟨_, rfl, _⟩ := arith_signed' hu h; rw [applyBin_def]; rfl
  · obtain ⟨_, rfl, _⟩ := arith_signed' hu h; rw [applyBin_def]; rfl
  · by_cases hb : v2 = 0
    · simp [hb] at h
    · simp only [hb, if_false] at h
      obtain ⟨_, rfl, _⟩ := arith_signed' hu h
      rw [applyBin_def]; exact cDivSpec_eq_tdiv _ _ hb
  · by_cases hb : v2 = 0
    · simp [hb] at h
    · simp only [hb, if_false] at h
      split at h
      · cases h
      · obtain ⟨_, rfl, _⟩ := arith_signed' hu h
        exact cMod_eq_tmod _ _ hb
  · split at h
    · cases h
    · rename_i hc
      split at h
      · cases h
      · obtain ⟨_, rfl, _⟩ := arith_signed' h1 h
        have : ¬ v2 < 0 := by omega
        have hw := width_le t1
        have hbig : ¬ v2 > shiftBound := by unfold shiftBound; omega
        simp [applyBin_def, applyBinSpec, this, hbig]
  · split at h
    · cases h
    · rename_i hc
      obtain ⟨_, rfl, _⟩ := arith_signed' h1 h
      have : ¬ v2 < 0 := by omega
      simp [applyBin_def, applyBinSpec, this]
  · obtain ⟨_, rfl, _⟩ := arith_signed' hu h
    simp [applyBin_def, applyBinSpec, bitwise_and_signed hu (hl _ r1) (hr _ r2)]
  · obtain ⟨_, rfl, _⟩ := arith_signed' hu h
    simp [applyBin_def, applyBinSpec, bitwise_or_signed hu (hl _ r1) (hr _ r2)]
  · obtain ⟨_, rfl, _⟩ := arith_signed' hu h
    simp [applyBin_def, applyBinSpec, bitwise_xor_signed hu (hl _ r1) (hr _ r2)]

/-- The type of a binary operation on signed operands is signed, its value in range. -/
theorem binop_signed_inRange (op : BinOp) {t1 t2 t : CType} {v1 v2 v : Int}
    (h1 : t1.signed = true) (h2 : t2.signed = true)
    (h : binop op (t1, v1) (t2, v2) = some (t, v)) : t.signed = true ∧ t.inRange v = true := by
  obtain ⟨hu, _, _⟩ := uac_signed h1 h2
  unfold binop at h
  cases op <;> simp only at h
  case shl =>
    split at h
    · cases h
    · split at h
      · cases h
      · obtain ⟨rfl, rfl, hr⟩ := arith_signed' h1 h; exact ⟨h1, hr⟩
  case shr =>
    split at h
    · cases h
    · obtain ⟨rfl, rfl, hr⟩ := arith_signed' h1 h; exact ⟨h1, hr⟩
  case div =>
    split at h
    · cases h
    · obtain ⟨rfl, rfl, hr⟩ := arith_signed' hu h; exact ⟨hu, hr⟩
  case mod =>
    split at h
    · cases h
    · split at h
      · cases h
      · obtain ⟨rfl, rfl, hr⟩ := arith_signed' hu h; exact ⟨hu, hr⟩
  all_goals (obtain ⟨rfl, rfl, hr⟩ := arith_signed' hu h; exact ⟨hu, hr⟩)

theorem typed_some {l : IntLit} {t : CType} {v : Int} (h : l.typed = some (t, v)) :
    ∃ n : Nat, l.value? = some n ∧ v = (n : Int) ∧ t.inRange v = true := by
  unfold IntLit.typed at h
  cases hv : l.value? with
  | none => simp [hv] at h
  | some n =>
    simp only [hv] at h
    split at h
    · rename_i t' hf
      simp only [Option.some.injEq, Prod.mk.injEq] at h
      obtain ⟨rfl, rfl⟩ := h
      exact ⟨n, rfl, rfl, by simpa using List.find?_some hf⟩
    · cases h

/-- Plain and simply-escaped character constants have their C value. -/
theorem char_agrees_aux (c : Char) (t : CType) (v : Int) :
    (plainChar c = some (t, v) → parseConst ['\'', c, '\''] = .ok v) ∧
    (escapeChar c = some (t, v) → parseConst ['\'', '\\', c, '\''] = .ok v) := by
  constructor
  · intro h
    unfold plainChar at h
    split at h
    · simp only [Option.some.injEq, Prod.mk.injEq] at h
      obtain ⟨_, rfl⟩ := h
      simp [parseConst_def, parseConstSpec]
    · cases h
  · intro h
    rw [escape_eq] at h
    cases hse : simpleEscape c with
    | none => simp [hse] at h
    | some n =>
      simp only [hse] at h
      obtain ⟨_, rfl⟩ := h
      simp [parseConst_def, parseConstSpec, ← simpleEscape_def, hse]

/-- cffi's table of names agrees with C's scope on the names C knows. -/
def EnvAgree (cenv : CConstExpr.Env) (penv : ConstExpr.Env) : Prop :=
  ∀ n t v, cenv n = some (t, v) → penv n = some v

/-- Values bound in C's scope are representable in their types. -/
def EnvOk (cenv : CConstExpr.Env) : Prop :=
  ∀ n t v, cenv n = some (t, v) → t.inRange v = true

theorem eval_agrees_aux (cenv : CConstExpr.Env) (penv : ConstExpr.Env)
    (hag : EnvAgree cenv penv) (hok : EnvOk cenv) (e : CExpr) :
    allSigned cenv e = true → ∀ t v, CConstExpr.eval cenv e = some (t, v) →
      ConstExpr.eval penv e.toModel = .ok v ∧ t.signed = true ∧ t.inRange v = true := by
  induction e with
  | int l =>
    intro hs t v h
    have hsg : t.signed = true := by simpa [allSigned, sgn, h] using hs
    simp only [CConstExpr.eval] at h
    obtain ⟨n, hv, rfl, hr⟩ := typed_some h
    exact ⟨by simpa [CExpr.toModel, ConstExpr.eval] using parseConst_render l n hv, hsg, hr⟩
  | chr c =>
    intro hs t v h
    have hsg : t.signed = true := by simpa [allSigned, sgn, h] using hs
    simp only [CConstExpr.eval] at h
    refine ⟨(char_agrees_aux c t v).1 h, hsg, ?_⟩
    unfold plainChar at h
    split at h
    · simp only [Option.some.injEq, Prod.mk.injEq] at h
      obtain ⟨rfl, rfl⟩ := h
      simp [CType.inRange, CType.minVal, CType.maxVal, CType.int, CType.width]; omega
    · cases h
  | esc c =>
    intro hs t v h
    have hsg : t.signed = true := by simpa [allSigned, sgn, h] using hs
    simp only [CConstExpr.eval] at h
    refine ⟨(char_agrees_aux c t v).2 h, hsg, ?_⟩
    rw [escape_eq] at h
    cases hse : simpleEscape c with
    | none => simp [hse] at h
    | some n =>
      simp only [hse] at h
      obtain ⟨rfl, rfl⟩ := h
      have := simpleEscape_le c n hse
      simp [CType.inRange, CType.minVal, CType.maxVal, CType.int, CType.width]; omega
  | pos e ih =>
    intro hs t v h
    simp only [allSigned, Bool.and_eq_true] at hs
    simp only [CConstExpr.eval] at h
    exact ih hs.1 t v h
  | neg e ih =>
    intro hs t v h
    simp only [allSigned, Bool.and_eq_true] at hs
    simp only [CConstExpr.eval] at h
    cases he : CConstExpr.eval cenv e with
    | none => simp [he] at h
    | some x =>
      obtain ⟨t1, v1⟩ := x
      simp only [he] at h
      obtain ⟨hm, hs1, _⟩ := ih hs.1 t1 v1 he
      obtain ⟨rfl, rfl, hr⟩ := arith_signed' hs1 h
      refine ⟨?_, hs1, hr⟩
      simp [CExpr.toModel, ConstExpr.eval, hm, bind, Except.bind, pure, Except.pure]
  | ref n =>
    intro hs t v h
    have hsg : t.signed = true := by simpa [allSigned, sgn, h] using hs
    simp only [CConstExpr.eval] at h
    refine ⟨?_, hsg, hok n t v h⟩
    simp [CExpr.toModel, ConstExpr.eval, hag n t v h]
  | bin op l r ihl ihr =>
    intro hs t v h
    simp only [allSigned, Bool.and_eq_true] at hs
    simp only [CConstExpr.eval] at h
    cases hl : CConstExpr.eval cenv l with
    | none => simp [hl] at h
    | some x =>
      cases hr : CConstExpr.eval cenv r with
      | none => simp [hl, hr] at h
      | some y =>
        obtain ⟨t1, v1⟩ := x
        obtain ⟨t2, v2⟩ := y
        simp only [hl, hr] at h
        obtain ⟨m1, s1, r1⟩ := ihl hs.1.1 t1 v1 hl
        obtain ⟨m2, s2, r2⟩ := ihr hs.1.2 t2 v2 hr
        have hb := binop_agrees op s1 s2 r1 r2 h
        have hsr := binop_signed_inRange op s1 s2 h
        refine ⟨?_, hsr.1, hsr.2⟩
        simp [CExpr.toModel, ConstExpr.eval, m1, m2, bind, Except.bind, hb]


end CffiVerif.CConstExpr
