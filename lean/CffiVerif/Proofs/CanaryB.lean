import CffiVerif.Proofs.Canary

/-!
`Canary` model, part B: what each event does to one thread's thread state (kept, fresh, or
gone), and the second invariant `Reg` (between events every non-Python thread state has its canary).
-/
namespace CffiVerif.Canary
set_option linter.unusedSimpArgs false
set_option linter.unusedVariables false

/-- Between events every thread state of a non-Python thread carries its canary
(`thread_canary_register` ran right after `PyGILState_Ensure`). -/
def Reg (s : State) : Prop :=
  ∀ t i, (s.thr t).ts = some i → (s.thr t).python = true ∨ (s.ts i).canary = true

/-- Description of every step's effect on one thread's thread state. -/
theorem step_keeps_ts {s s' : State} {l : Label} (hI : Inv s) (hR : Reg s) (h : step? s l = some s')
    (t : Tid) (i : TsId) (hts : (s.thr t).ts = some i) (h1 : l ≠ .threadExit t) (h2 : l ≠ .finalize) :
    (s'.thr t).ts = some i ∧ (s'.ts i).live = true ∧ ((∀ v, l ≠ .setData t v) → (s'.ts i).data = (s.ts i).data) ∧
    (s'.thr t).python = (s.thr t).python ∧ (s'.ts i).canary = (s.ts i).canary := by
  inv_facts hI
  have hti := a1 t i hts
  have hci := a1c t i hts
  have hRi := hR t i hts
  have hnz : (s.ts i).zombie = false := by
    cases hz : (s.ts i).zombie with
    | false => rfl
    | true =>
      have h6 := a6 i hz
      have := a11 t i hts h6.1
      simp [h6.2] at this
  cases l with
  | spawn u py =>
    simp only [step?] at h
    split at h
    · simp at h
    · split at h <;> cases h <;> simp only [upd] <;> grind
  | enter u =>
    cases hu : (s.thr u).ts with
    | some j =>
      simp only [step?, hu] at h
      split at h
      · cases h; simp only [upd]; grind
      · simp at h
    | none =>
      obtain ⟨ha, hf, rfl⟩ := step_enter_new u hu h
      have hI1 := inv_alloc hI u ha hf hu
      obtain ⟨hI2, hz, hthr, hnx, hfin, hsame⟩ := freeZombies_spec (allocFor s u).zombies.length hI1 (Nat.le_refl _)
      have hut : u ≠ t := by intro e; subst e; simp [hts] at hu
      have hne : i ≠ s.nextTs := Nat.ne_of_lt hti.2.2.2
      have hzi : ((allocFor s u).ts i).zombie = false := by simp [allocFor, upd, hne, hnz]
      have e1 := hsame i hzi
      generalize freeZombies (allocFor s u).zombies.length (allocFor s u) = s2 at *
      have e2 : s2.ts i = s.ts i := by rw [e1]; simp [allocFor, upd, hne]
      have e3 : s2.thr t = s.thr t := by rw [hthr]; simp [allocFor, upd, Ne.symm hut]
      simp only [registerFor, upd]
      grind
  | exit u =>
    simp only [step?] at h
    split at h
    · simp at h
    · rename_i hd
      split at h
      · simp at h
      · rename_i j huj
        have huj1 := a1 u j huj
        have hujc := a1c u j huj
        split at h
        · rename_i hc
          have hcan : (s.ts j).canary = false := by
            cases hcc : (s.ts j).canary with
            | false => rfl
            | true =>
              have : (s.ts j).counter = (s.thr u).depth + 1 := by rw [hujc]; simp [hcc]
              omega
          rw [clearTs_nocanary (by simp [upd_same, hcan])] at h
          simp only [deleteTs, upd_same, upd_upd] at h
          cases h
          simp only [upd]
          have := hR u j huj
          grind
        · cases h; simp only [upd]; grind
  | setData u v =>
    simp only [step?] at h
    split at h
    · simp at h
    · split at h
      · simp at h
      · rename_i j huj
        cases h
        have huj1 := a1 u j huj
        by_cases hut : u = t
        · subst hut
          refine ⟨hts, ?_, ?_, rfl, ?_⟩
          · simp only [upd]; grind
          · intro hv; exact absurd rfl (hv v)
          · simp only [upd]; grind
        · have hji : i ≠ j := by intro e; subst e; exact hut (huj1.2.1.symm.trans hti.2.1)
          simp only [upd]; grind
  | threadExit u =>
    have hut : u ≠ t := by intro e; subst e; exact h1 rfl
    obtain ⟨ha, hd, hx | ⟨j, hp, hj, rfl⟩ | ⟨j, hp, hc, rfl⟩⟩ := step_threadExit hI u h
    · obtain ⟨hc, hq, rfl⟩ := hx
      simp only [upd]; grind
    · have := a1 u j hj
      simp only [upd]; grind
    · have := a2 u j hc
      have := a1 u j this.2.2.2
      simp only [upd]; grind
  | finalize => exact absurd rfl h2

/-- A thread that had no thread state and has one after a step got it from `spawn` (Python
thread) or from `enter` (then it carries a canary, no thread-local data, and the zombie list is empty). -/
theorem step_new_ts {s s' : State} {l : Label} (hI : Inv s) (h : step? s l = some s')
    (t : Tid) (i : TsId) (hts : (s.thr t).ts = none) (hts' : (s'.thr t).ts = some i) :
    (s'.ts i).data = none ∧ (s.ts i).live = false ∧ (s.ts i).freed = 0 ∧
    ((s'.thr t).python = true ∨ ((s'.ts i).canary = true ∧ s'.zombies = [])) := by
  inv_facts hI
  cases l with
  | spawn u py =>
    simp only [step?] at h
    split at h
    · simp at h
    · split at h <;> cases h <;> simp only [upd] at hts' ⊢ <;> grind
  | enter u =>
    cases hu : (s.thr u).ts with
    | some j =>
      simp only [step?, hu] at h
      split at h
      · cases h; simp only [upd] at hts' ⊢; grind
      · simp at h
    | none =>
      obtain ⟨ha, hf, rfl⟩ := step_enter_new u hu h
      have hI1 := inv_alloc hI u ha hf hu
      obtain ⟨hI2, hz, hthr, hnx, hfin, hsame⟩ := freeZombies_spec (allocFor s u).zombies.length hI1 (Nat.le_refl _)
      have hfresh : ((allocFor s u).ts s.nextTs).zombie = false := by simp [allocFor, upd]
      have e1 := hsame s.nextTs hfresh
      generalize freeZombies (allocFor s u).zombies.length (allocFor s u) = s2 at *
      have e2 : s2.ts s.nextTs = { live := true, counter := 1, owner := u } := by rw [e1]; simp [allocFor, upd]
      have e3 : ∀ w, s2.thr w = (allocFor s u).thr w := by intro w; rw [hthr]
      have h8 := a8 s.nextTs (Nat.le_refl _)
      by_cases hut : t = u
      · subst hut
        have : i = s.nextTs := by
          simp only [registerFor, upd, if_true] at hts'
          rw [e3] at hts'
          simp [allocFor, upd] at hts'
          exact hts'.symm
        subst this
        refine ⟨?_, h8.1, h8.2.1, Or.inr ⟨?_, hz⟩⟩ <;> simp [registerFor, upd, e2]
      · exfalso
        simp only [registerFor, upd, hut, if_false] at hts'
        rw [e3] at hts'
        simp [allocFor, upd, hut, hts] at hts'
  | exit u =>
    simp only [step?] at h
    split at h
    · simp at h
    · split at h
      · simp at h
      · rename_i j huj
        have huj1 := a1 u j huj
        have hujc := a1c u j huj
        split at h
        · rename_i hd hc
          have hcan : (s.ts j).canary = false := by
            cases hcc : (s.ts j).canary with
            | false => rfl
            | true =>
              have : (s.ts j).counter = (s.thr u).depth + 1 := by rw [hujc]; simp [hcc]
              omega
          rw [clearTs_nocanary (by simp [upd_same, hcan])] at h
          simp only [deleteTs, upd_same, upd_upd] at h
          cases h
          exfalso
          simp only [upd] at hts'
          grind
        · cases h; exfalso; simp only [upd] at hts'; grind
  | setData u v =>
    simp only [step?] at h
    split at h
    · simp at h
    · split at h
      · simp at h
      · cases h; exfalso; simp [hts] at hts'
  | threadExit u =>
    obtain ⟨ha, hd, hx | ⟨j, hp, hj, rfl⟩ | ⟨j, hp, hc, rfl⟩⟩ := step_threadExit hI u h
    · obtain ⟨hc, hq, rfl⟩ := hx
      exfalso; simp only [upd, deadThr] at hts'; grind
    · exfalso; simp only [upd, deadThr] at hts'; grind
    · exfalso; simp only [upd, deadThr] at hts'; grind
  | finalize =>
    simp only [step?] at h
    split at h
    · simp at h
    · cases h; simp at hts'

theorem reg_init : Reg init := by intro t i h; simp [init] at h

theorem reg_step {s s' : State} {l : Label} (hI : Inv s) (hR : Reg s) (h : step? s l = some s') : Reg s' := by
  intro t i hts'
  cases hts : (s.thr t).ts with
  | none =>
    rcases (step_new_ts hI h t i hts hts').2.2.2 with hp | ⟨hc, _⟩
    · exact Or.inl hp
    · exact Or.inr hc
  | some j =>
    by_cases h1 : l = .threadExit t
    · subst h1
      exfalso
      obtain ⟨ha, hd, hx | ⟨k, hp, hk, rfl⟩ | ⟨k, hp, hc, rfl⟩⟩ := step_threadExit hI t h
      · obtain ⟨hc, hq, rfl⟩ := hx
        simp [upd, deadThr] at hts'
      · simp [upd, deadThr] at hts'
      · simp [upd, deadThr] at hts'
    · by_cases h2 : l = .finalize
      · subst h2
        exfalso
        simp only [step?] at h
        split at h
        · simp at h
        · cases h; simp at hts'
      · obtain ⟨k1, k2, k3, k4, k5⟩ := step_keeps_ts hI hR h t j hts h1 h2
        rw [k1] at hts'
        have hji : j = i := Option.some.inj hts'
        rw [← hji, k4, k5]
        exact hR t j hts

theorem reachable_inv_reg {s : State} (h : Reachable s) : Inv s ∧ Reg s := by
  induction h with
  | init => exact ⟨inv_init, reg_init⟩
  | step l _ hs ih => exact ⟨inv_step ih.1 hs, reg_step ih.1 ih.2 hs⟩

end CffiVerif.Canary
