import CffiVerif.Model.Preprocess

/-! Helper lemmas for C31 (comment stripping as a transducer). -/
namespace CffiVerif.Preprocess

theorem endMode_cons (m : Mode) (c : Nat) (r : Text) : endMode m (c :: r) = endMode (next m c) r := rfl

/-- A block comment that the look-ahead-free automaton sees closed inside `r` is seen
closed by the look-ahead, whatever follows `r`. -/
theorem closes_append_of_endMode (r rest : Text) (ps : Bool)
    (h : endMode (.block ps) r = .code) : closes ps (r ++ rest) = true := by
  induction r generalizing ps with
  | nil => simp [endMode] at h
  | cons c r ih =>
    rw [endMode_cons] at h
    simp only [List.cons_append, closes]
    by_cases hc : (ps && c == 47) = true
    · simp [hc]
    · simp only [hc, next] at h ⊢
      exact ih _ h

theorem lineOk_append_of_endMode (r rest : Text) (e : Bool)
    (h : endMode (.line e) r = .code) : lineOk e (r ++ rest) = true := by
  induction r generalizing e with
  | nil => simp [endMode] at h
  | cons c r ih =>
    rw [endMode_cons] at h
    cases e with
    | false =>
      simp only [List.cons_append, lineOk]
      by_cases hc : c = 10
      · simp [hc]
      · have hc' : (c == 10) = false := by simp [hc]
        simp only [next, hc, if_false] at h
        simp only [hc']
        exact ih _ h
    | true =>
      simp only [List.cons_append, lineOk]
      simp only [next] at h
      exact ih _ h

/-- Stripping distributes over a prefix that ends outside comments. -/
theorem go_append_closed (pre rest : Text) (m : Mode) (h : endMode m pre = .code) :
    go m (pre ++ rest) = go m pre ++ go .code rest := by
  induction pre generalizing m with
  | nil =>
    simp only [endMode, List.foldl_nil] at h
    subst h
    simp [go]
  | cons c r ih =>
    rw [endMode_cons] at h
    cases m with
    | code =>
      simp only [List.cons_append, go]
      by_cases hc : c = 47
      · simp only [hc, if_true, next] at h ⊢
        exact ih _ h
      · simp only [hc, if_false, next] at h ⊢
        rw [ih _ h]; rfl
    | slash =>
      simp only [List.cons_append, go]
      by_cases h42 : c = 42
      · simp only [h42, if_true, next] at h ⊢
        have h1 := closes_append_of_endMode r rest false h
        have h2 : closes false r = true := by
          have := closes_append_of_endMode r [] false h
          simpa using this
        simp only [h1, h2, if_true]
        rw [ih _ h]; rfl
      · by_cases h47 : c = 47
        · have : ¬ (47 = 42) := by decide
          simp only [h47, this, if_true, if_false, next] at h ⊢
          have h1 := lineOk_append_of_endMode r rest false h
          have h2 : lineOk false r = true := by
            have := lineOk_append_of_endMode r [] false h
            simpa using this
          simp only [h1, h2, if_true]
          rw [ih _ h]; rfl
        · simp only [h42, h47, if_false, next] at h ⊢
          rw [ih _ h]; rfl
    | block ps =>
      simp only [List.cons_append, go]
      by_cases hc : (ps && c == 47) = true
      · simp only [hc, if_true, next] at h ⊢
        exact ih _ h
      · have hcf : (ps && c == 47) = false := by simpa using hc
        simp only [hcf, next, Bool.false_eq_true, if_false] at h ⊢
        by_cases h10 : c = 10
        · subst h10
          have e : ((10 : Nat) == 42) = false := by decide
          rw [e] at h
          simp only [if_true]
          rw [ih _ h]; rfl
        · simp only [h10, if_false]
          exact ih _ h
    | line e =>
      cases e with
      | false =>
        simp only [List.cons_append, go]
        by_cases h10 : c = 10
        · simp only [h10, if_true, next] at h ⊢
          rw [ih _ h]; rfl
        · simp only [h10, if_false, next] at h ⊢
          exact ih _ h
      | true =>
        simp only [List.cons_append, go]
        simp only [next] at h
        by_cases h10 : c = 10
        · simp only [h10, if_true]
          rw [ih _ h]; rfl
        · simp only [h10, if_false]
          exact ih _ h

/-- `*/` right after a body closes it. -/
theorem closes_body (c post : Text) (ps : Bool) : closes ps (c ++ 42 :: 47 :: post) = true := by
  induction c generalizing ps with
  | nil => simp [closes]
  | cons x r ih =>
    simp only [List.cons_append, closes]
    by_cases hx : (ps && x == 47) = true
    · simp [hx]
    · simp only [hx]; exact ih _

/-- Inside a block comment whose body does not contain `*/`: only the newlines come out,
and the closer ends the comment. -/
theorem go_block_body (c post : Text) (ps : Bool) (h : closes ps c = false) :
    go (.block ps) (c ++ 42 :: 47 :: post) = newlines c ++ go .code post := by
  induction c generalizing ps with
  | nil =>
    have e1 : (ps && (42 : Nat) == 47) = false := by cases ps <;> decide
    simp [go, e1, newlines]
  | cons x r ih =>
    simp only [closes] at h
    by_cases hx : (ps && x == 47) = true
    · simp [hx] at h
    · simp only [hx] at h
      simp only [List.cons_append, go, hx]
      by_cases h10 : x = 10
      · subst h10
        have e : ((10 : Nat) == 42) = false := by decide
        rw [e] at h
        simp only [if_true, newlines, List.filter_cons, beq_self_eq_true]
        rw [ih _ h]; rfl
      · have h10' : (x == 10) = false := by simp [h10]
        simp only [h10, if_false, newlines, List.filter_cons, h10']
        exact ih _ h

theorem lineOk_body (c post : Text) (e : Bool) (h : lineBody e c = true) :
    lineOk e (c ++ 10 :: post) = true := by
  induction c generalizing e with
  | nil => cases e <;> simp_all [lineBody, lineOk]
  | cons x r ih =>
    cases e with
    | false =>
      simp only [lineBody, Bool.and_eq_true, bne_iff_ne, ne_eq] at h
      have hx : (x == 10) = false := by simp [h.1]
      simp only [List.cons_append, lineOk, hx]
      exact ih _ h.2
    | true =>
      simp only [lineBody] at h
      simp only [List.cons_append, lineOk]
      exact ih _ h

/-- Inside a `//` comment: escaped newlines come out, the first unescaped newline ends it
(and stays in the text). -/
theorem go_line_body (c post : Text) (e : Bool) (h : lineBody e c = true) :
    go (.line e) (c ++ 10 :: post) = newlines c ++ 10 :: go .code post := by
  induction c generalizing e with
  | nil => cases e <;> simp_all [lineBody, go, newlines]
  | cons x r ih =>
    cases e with
    | false =>
      simp only [lineBody, Bool.and_eq_true, bne_iff_ne, ne_eq] at h
      have hx : (x == 10) = false := by simp [h.1]
      simp only [List.cons_append, go, h.1, if_false, newlines, List.filter_cons, hx]
      exact ih _ h.2
    | true =>
      simp only [lineBody] at h
      simp only [List.cons_append, go]
      by_cases h10 : x = 10
      · subst h10
        simp only [if_true, newlines, List.filter_cons, beq_self_eq_true]
        rw [ih _ h]; rfl
      · have h10' : (x == 10) = false := by simp [h10]
        simp only [h10, if_false, newlines, List.filter_cons, h10']
        exact ih _ h

/-- A `//` comment that runs to the end of the text. -/
theorem lineOk_body_eof (c : Text) (e : Bool) (h : lineBody e c = true) : lineOk e c = true := by
  induction c generalizing e with
  | nil => cases e <;> simp_all [lineBody, lineOk]
  | cons x r ih =>
    cases e with
    | false =>
      simp only [lineBody, Bool.and_eq_true, bne_iff_ne, ne_eq] at h
      have hx : (x == 10) = false := by simp [h.1]
      simp only [lineOk, hx]
      exact ih _ h.2
    | true =>
      simp only [lineBody] at h
      simp only [lineOk]
      exact ih _ h

theorem go_line_body_eof (c : Text) (e : Bool) (h : lineBody e c = true) :
    go (.line e) c = newlines c := by
  induction c generalizing e with
  | nil => cases e <;> simp_all [lineBody, go, newlines]
  | cons x r ih =>
    cases e with
    | false =>
      simp only [lineBody, Bool.and_eq_true, bne_iff_ne, ne_eq] at h
      have hx : (x == 10) = false := by simp [h.1]
      simp only [go, h.1, if_false, newlines, List.filter_cons, hx]
      exact ih _ h.2
    | true =>
      simp only [lineBody] at h
      simp only [go]
      by_cases h10 : x = 10
      · subst h10
        simp only [if_true, newlines, List.filter_cons, beq_self_eq_true]
        rw [ih _ h]; rfl
      · have h10' : (x == 10) = false := by simp [h10]
        simp only [h10, if_false, newlines, List.filter_cons, h10']
        exact ih _ h

/-- Text without `/` is its own stripping and is closed. -/
theorem go_code_noSlash (t : Text) (h : ∀ c ∈ t, c ≠ 47) : go .code t = t ∧ endMode .code t = .code := by
  induction t with
  | nil => exact ⟨rfl, rfl⟩
  | cons c r ih =>
    have hc : c ≠ 47 := h c List.mem_cons_self
    have := ih (fun x hx => h x (List.mem_cons_of_mem _ hx))
    simp only [go, hc, if_false, endMode_cons, next]
    exact ⟨by rw [this.1], this.2⟩

/-! ### the value of a `#define` line -/

/-- A line fragment without newline and backslash: the regex takes it whole up to the newline. -/
theorem rawValue_plain (a post : Text) (h : ∀ c ∈ a, c ≠ 10 ∧ c ≠ 92) :
    rawValue false (a ++ 10 :: post) = some a := by
  induction a with
  | nil => simp [rawValue]
  | cons x r ih =>
    have hx := h x List.mem_cons_self
    have hx' : (x == 92) = false := by simp [hx.2]
    simp only [List.cons_append, rawValue, hx.1, if_false, hx']
    rw [ih (fun c hc => h c (List.mem_cons_of_mem _ hc))]; rfl

theorem removeCont_plain (a : Text) (h : ∀ c ∈ a, c ≠ 92) : removeCont false a = a := by
  induction a with
  | nil => rfl
  | cons x r ih =>
    have hx := h x List.mem_cons_self
    simp only [removeCont, hx, if_false]
    rw [ih (fun c hc => h c (List.mem_cons_of_mem _ hc))]

/-- A backslash-newline between two backslash-free fragments disappears. -/
theorem removeCont_continuation (a b : Text) (ha : ∀ c ∈ a, c ≠ 92) (hb : ∀ c ∈ b, c ≠ 92) :
    removeCont false (a ++ 92 :: 10 :: b) = a ++ b := by
  induction a with
  | nil => simp [removeCont, removeCont_plain b hb]
  | cons x r ih =>
    have hx := ha x List.mem_cons_self
    simp only [List.cons_append, removeCont, hx, if_false]
    rw [ih (fun c hc => ha c (List.mem_cons_of_mem _ hc))]

theorem trimLeft_allSpace_append (a b : Text) (ha : ∀ c ∈ a, isSpace c = true) :
    trimLeft (a ++ b) = trimLeft b := by
  induction a with
  | nil => rfl
  | cons x r ih =>
    have hx := ha x List.mem_cons_self
    simp only [trimLeft, List.cons_append, List.dropWhile_cons, hx, if_true]
    exact ih (fun c hc => ha c (List.mem_cons_of_mem _ hc))

theorem trim_allSpace_append (a b : Text) (ha : ∀ c ∈ a, isSpace c = true) :
    trim (a ++ b) = trim b := by
  unfold trim
  rw [trimLeft_allSpace_append a b ha]

theorem trim_append_allSpace (a b : Text) (hb : ∀ c ∈ b, isSpace c = true) :
    trim (a ++ b) = trim a := by
  unfold trim
  by_cases hall : ∀ c ∈ a, isSpace c = true
  · -- everything is white space: both sides are empty
    have e1 : trimLeft (a ++ b) = [] := by
      have := trimLeft_allSpace_append (a ++ b) [] (by
        intro c hc; rcases List.mem_append.mp hc with h | h
        · exact hall c h
        · exact hb c h)
      simpa [trimLeft] using this
    have e2 : trimLeft a = [] := by
      have := trimLeft_allSpace_append a [] hall
      simpa [trimLeft] using this
    rw [e1, e2]
  · -- `a` has a non-space character: trimming on the left stops inside `a`
    have hl : trimLeft (a ++ b) = trimLeft a ++ b := by
      unfold trimLeft
      induction a with
      | nil => exact absurd (by intro c hc; cases hc) hall
      | cons x r ih =>
        by_cases hx : isSpace x = true
        · simp only [List.cons_append, List.dropWhile_cons, hx, if_true]
          apply ih
          intro hr
          apply hall
          intro c hc
          rcases List.mem_cons.mp hc with rfl | hc
          · exact hx
          · exact hr c hc
        · simp [List.dropWhile_cons, hx]
    rw [hl, List.reverse_append]
    have := trimLeft_allSpace_append b.reverse (trimLeft a).reverse
      (fun c hc => hb c (List.mem_reverse.mp hc))
    rw [this]

end CffiVerif.Preprocess
