import CffiVerif.Model.Opcode
import CffiVerif.Proofs.OpcodeBytes
import CffiVerif.Proofs.OpcodeLayout

/-!
Helper lemmas for C11: what `realize_c_type_or_func` does on each opcode, argument counting, and the
induction showing that an emitted table realises every laid-out type.
-/
set_option linter.unusedSimpArgs false
namespace CffiVerif.Opcode
open CffiVerif.Generated.Opcodes

theorem tblGet_ok {ws : List Int} {k : Nat} {w : Int} (z : Int) (hz : z = (k : Int)) (h : ws[k]? = some w) :
    tblGet ws z = .ok w := by
  subst hz
  unfold tblGet
  have : ¬ ((k : Int) < 0) := by omega
  simp [this, h]

/-! one lemma per opcode: what `realize` does on a slot holding that opcode -/

theorem realize_prim (fuel : Nat) (ws : List Int) (i p : Nat)
    (h : ws[i]? = some (opWord Py.OP_PRIMITIVE (p : Int))) (hp : p < cNumPrim) :
    realize (fuel + 1) ws (i : Int) = .ok (.prim p) := by
  have hop : Py.OP_PRIMITIVE < 256 := by decide
  simp only [realize, tblGet_ok (i : Int) rfl h, getOp_opWord _ _ hop, getArg_opWord _ _ hop]
  have e : Py.OP_PRIMITIVE = C.OP_PRIMITIVE := by decide
  have hp' : (0 : Int) ≤ (p : Int) ∧ (p : Int) < (cNumPrim : Int) := ⟨by omega, by exact_mod_cast hp⟩
  simp [hp', Py.OP_PRIMITIVE, Py.OP_POINTER, Py.OP_ARRAY, Py.OP_OPEN_ARRAY, Py.OP_STRUCT_UNION, Py.OP_ENUM, Py.OP_FUNCTION, Py.OP_FUNCTION_END, Py.OP_NOOP, C.OP_PRIMITIVE, C.OP_POINTER, C.OP_ARRAY, C.OP_OPEN_ARRAY, C.OP_STRUCT_UNION, C.OP_ENUM, C.OP_FUNCTION, C.OP_FUNCTION_END, C.OP_NOOP, C.OP_TYPENAME]

theorem realize_ptr (fuel : Nat) (ws : List Int) (i j : Nat)
    (h : ws[i]? = some (opWord Py.OP_POINTER (j : Int))) :
    realize (fuel + 1) ws (i : Int) =
      (match realize fuel ws (j : Int) with | .ok y => .ok (.ptr 0 y) | .error e => .error e) := by
  have hop : Py.OP_POINTER < 256 := by decide
  simp only [realize, tblGet_ok (i : Int) rfl h, getOp_opWord _ _ hop, getArg_opWord _ _ hop]
  simp [Py.OP_PRIMITIVE, Py.OP_POINTER, Py.OP_ARRAY, Py.OP_OPEN_ARRAY, Py.OP_STRUCT_UNION, Py.OP_ENUM, Py.OP_FUNCTION, Py.OP_FUNCTION_END, Py.OP_NOOP, C.OP_PRIMITIVE, C.OP_POINTER, C.OP_ARRAY, C.OP_OPEN_ARRAY, C.OP_STRUCT_UNION, C.OP_ENUM, C.OP_FUNCTION, C.OP_FUNCTION_END, C.OP_NOOP, C.OP_TYPENAME]
  cases realize fuel ws (j : Int) <;> rfl

theorem realize_array (fuel : Nat) (ws : List Int) (i j n : Nat)
    (h : ws[i]? = some (opWord Py.OP_ARRAY (j : Int))) (hl : ws[i + 1]? = some (n : Int)) :
    realize (fuel + 1) ws (i : Int) =
      (match noFn (realize fuel ws (j : Int)) with | .error e => .error e | .ok y => .ok (.array y n)) := by
  have hop : Py.OP_ARRAY < 256 := by decide
  simp only [realize, tblGet_ok (i : Int) rfl h, getOp_opWord _ _ hop, getArg_opWord _ _ hop,
    tblGet_ok ((i : Int) + 1) (by omega) hl]
  have hn : ¬ ((n : Int) < 0) := by omega
  simp [hn, Py.OP_PRIMITIVE, Py.OP_POINTER, Py.OP_ARRAY, Py.OP_OPEN_ARRAY, Py.OP_STRUCT_UNION, Py.OP_ENUM, Py.OP_FUNCTION, Py.OP_FUNCTION_END, Py.OP_NOOP, C.OP_PRIMITIVE, C.OP_POINTER, C.OP_ARRAY, C.OP_OPEN_ARRAY, C.OP_STRUCT_UNION, C.OP_ENUM, C.OP_FUNCTION, C.OP_FUNCTION_END, C.OP_NOOP, C.OP_TYPENAME]
  cases noFn (realize fuel ws (j : Int)) <;> rfl

theorem realize_openArray (fuel : Nat) (ws : List Int) (i j : Nat)
    (h : ws[i]? = some (opWord Py.OP_OPEN_ARRAY (j : Int))) :
    realize (fuel + 1) ws (i : Int) =
      (match noFn (realize fuel ws (j : Int)) with | .error e => .error e | .ok y => .ok (.openArray y)) := by
  have hop : Py.OP_OPEN_ARRAY < 256 := by decide
  simp only [realize, tblGet_ok (i : Int) rfl h, getOp_opWord _ _ hop, getArg_opWord _ _ hop]
  simp [Py.OP_PRIMITIVE, Py.OP_POINTER, Py.OP_ARRAY, Py.OP_OPEN_ARRAY, Py.OP_STRUCT_UNION, Py.OP_ENUM, Py.OP_FUNCTION, Py.OP_FUNCTION_END, Py.OP_NOOP, C.OP_PRIMITIVE, C.OP_POINTER, C.OP_ARRAY, C.OP_OPEN_ARRAY, C.OP_STRUCT_UNION, C.OP_ENUM, C.OP_FUNCTION, C.OP_FUNCTION_END, C.OP_NOOP, C.OP_TYPENAME]
  cases noFn (realize fuel ws (j : Int)) <;> rfl

theorem realize_su (fuel : Nat) (ws : List Int) (i : Nat) (s : Int)
    (h : ws[i]? = some (opWord Py.OP_STRUCT_UNION s)) :
    realize (fuel + 1) ws (i : Int) = .ok (.su s) := by
  have hop : Py.OP_STRUCT_UNION < 256 := by decide
  simp only [realize, tblGet_ok (i : Int) rfl h, getOp_opWord _ _ hop, getArg_opWord _ _ hop]
  simp [Py.OP_PRIMITIVE, Py.OP_POINTER, Py.OP_ARRAY, Py.OP_OPEN_ARRAY, Py.OP_STRUCT_UNION, Py.OP_ENUM, Py.OP_FUNCTION, Py.OP_FUNCTION_END, Py.OP_NOOP, C.OP_PRIMITIVE, C.OP_POINTER, C.OP_ARRAY, C.OP_OPEN_ARRAY, C.OP_STRUCT_UNION, C.OP_ENUM, C.OP_FUNCTION, C.OP_FUNCTION_END, C.OP_NOOP, C.OP_TYPENAME]

theorem realize_enum (fuel : Nat) (ws : List Int) (i : Nat) (s : Int)
    (h : ws[i]? = some (opWord Py.OP_ENUM s)) :
    realize (fuel + 1) ws (i : Int) = .ok (.enum s) := by
  have hop : Py.OP_ENUM < 256 := by decide
  simp only [realize, tblGet_ok (i : Int) rfl h, getOp_opWord _ _ hop, getArg_opWord _ _ hop]
  simp [Py.OP_PRIMITIVE, Py.OP_POINTER, Py.OP_ARRAY, Py.OP_OPEN_ARRAY, Py.OP_STRUCT_UNION, Py.OP_ENUM, Py.OP_FUNCTION, Py.OP_FUNCTION_END, Py.OP_NOOP, C.OP_PRIMITIVE, C.OP_POINTER, C.OP_ARRAY, C.OP_OPEN_ARRAY, C.OP_STRUCT_UNION, C.OP_ENUM, C.OP_FUNCTION, C.OP_FUNCTION_END, C.OP_NOOP, C.OP_TYPENAME]

theorem realize_noop (fuel : Nat) (ws : List Int) (i j : Nat)
    (h : ws[i]? = some (opWord Py.OP_NOOP (j : Int))) :
    realize (fuel + 1) ws (i : Int) = realize fuel ws (j : Int) := by
  have hop : Py.OP_NOOP < 256 := by decide
  simp only [realize, tblGet_ok (i : Int) rfl h, getOp_opWord _ _ hop, getArg_opWord _ _ hop]
  simp [Py.OP_PRIMITIVE, Py.OP_POINTER, Py.OP_ARRAY, Py.OP_OPEN_ARRAY, Py.OP_STRUCT_UNION, Py.OP_ENUM, Py.OP_FUNCTION, Py.OP_FUNCTION_END, Py.OP_NOOP, C.OP_PRIMITIVE, C.OP_POINTER, C.OP_ARRAY, C.OP_OPEN_ARRAY, C.OP_STRUCT_UNION, C.OP_ENUM, C.OP_FUNCTION, C.OP_FUNCTION_END, C.OP_NOOP, C.OP_TYPENAME]

theorem realize_func (fuel : Nat) (ws : List Int) (i j n f : Nat)
    (h : ws[i]? = some (opWord Py.OP_FUNCTION (j : Int)))
    (hc : countArgs (ws.drop (i + 1)) = some n)
    (he : ws[i + 1 + n]? = some (opWord Py.OP_FUNCTION_END (f : Int))) (hf : f < 4) :
    realize (fuel + 1) ws (i : Int) =
      (match noFn (realize fuel ws (j : Int)) with
       | .error e => .error e
       | .ok res =>
         match argsFrom (fun i => noFn (realize fuel ws i)) ((i : Int) + 1) n with
         | .error e => .error e
         | .ok args => .ok (.func res args f)) := by
  have hop : Py.OP_FUNCTION < 256 := by decide
  have hop2 : Py.OP_FUNCTION_END < 256 := by decide
  simp only [realize, tblGet_ok (i : Int) rfl h, getOp_opWord _ _ hop, getArg_opWord _ _ hop]
  have ht : ((i : Int) + 1).toNat = i + 1 := by omega
  have hfl : (f : Int) % 256 = (f : Int) := by omega
  have hab : ¬ ((f : Int) / 2 ≠ 0 ∧ (f : Int) / 2 ≠ 1) := by omega
  have hg := tblGet_ok ((i : Int) + 1 + (n : Int)) (by omega) he
  have e7 : Py.OP_FUNCTION = C.OP_FUNCTION := by decide
  rw [e7]
  simp only [show ¬ (C.OP_FUNCTION = C.OP_PRIMITIVE) by decide, show ¬ (C.OP_FUNCTION = C.OP_POINTER) by decide,
    show ¬ (C.OP_FUNCTION = C.OP_ARRAY) by decide, show ¬ (C.OP_FUNCTION = C.OP_OPEN_ARRAY) by decide,
    show ¬ (C.OP_FUNCTION = C.OP_STRUCT_UNION) by decide, show ¬ (C.OP_FUNCTION = C.OP_ENUM) by decide,
    if_true, if_false, ht, hc, hg, getArg_opWord _ _ hop2, hfl, hab, Int.toNat_natCast]
  cases noFn (realize fuel ws (j : Int)) <;> rfl

theorem drop_of_get {ws : List Int} {b : Nat} {w : Int} (h : ws[b]? = some w) :
    ws.drop b = w :: ws.drop (b + 1) := by
  have hb : b < ws.length := by
    rcases List.getElem?_eq_some_iff.mp h with ⟨hb, _⟩; exact hb
  have hw : ws[b] = w := by
    rcases List.getElem?_eq_some_iff.mp h with ⟨_, e⟩; exact e
  rw [← hw]
  exact List.drop_eq_getElem_cons hb

theorem countArgs_spec (ws : List Int) (n base : Nat)
    (hargs : ∀ k, k < n → ∃ w, ws[base + k]? = some w ∧ getOp w ≠ C.OP_FUNCTION_END)
    (hend : ∃ w, ws[base + n]? = some w ∧ getOp w = C.OP_FUNCTION_END) :
    countArgs (ws.drop base) = some n := by
  induction n generalizing base with
  | zero =>
    obtain ⟨w, h1, h2⟩ := hend
    rw [drop_of_get (by simpa using h1)]
    simp [countArgs, h2]
  | succ n ih =>
    obtain ⟨w, h1, h2⟩ := hargs 0 (by omega)
    rw [drop_of_get (by simpa using h1)]
    simp only [countArgs, h2, if_false]
    have := ih (base + 1)
      (fun k hk => by
        obtain ⟨w', a1, a2⟩ := hargs (k + 1) (by omega)
        exact ⟨w', by rw [← a1]; congr 1; omega, a2⟩)
      (by
        obtain ⟨w', a1, a2⟩ := hend
        exact ⟨w', by rw [← a1]; congr 1; omega, a2⟩)
    rw [this]; rfl

theorem eraseArgs_get (as : List Ty) (k : Nat) (a : Ty) (h : as[k]? = some a) :
    (Ty.eraseArgs as)[k]? = some a.erase := by
  induction as generalizing k with
  | nil => simp at h
  | cons x xs ih =>
    cases k with
    | zero => simp only [List.getElem?_cons_zero, Option.some.injEq] at h; subst h; simp [Ty.eraseArgs]
    | succ k => simp only [List.getElem?_cons_succ] at h; simp [Ty.eraseArgs, ih k h]

theorem argsFrom_spec (r : Int → Except RErr Ty) (as : List Ty) (base : Int)
    (h : ∀ (k : Nat) (a : Ty), as[k]? = some a → r (base + (k : Int)) = .ok a.erase) :
    argsFrom r base as.length = .ok (Ty.eraseArgs as) := by
  induction as generalizing base with
  | nil => rfl
  | cons x xs ih =>
    have h0 := h 0 x (by simp)
    simp only [Int.natCast_zero, Int.add_zero] at h0
    have hrest := ih (base + 1) (fun k a hk => by
      have := h (k + 1) a (by simpa using hk)
      rw [← this]; congr 1; push_cast; omega)
    simp only [List.length_cons, argsFrom, h0, hrest, Ty.eraseArgs]

theorem size_pos (T : Ty) : 1 ≤ T.size := by
  cases T <;> simp [Ty.size] <;> omega

theorem sizeArgs_get (as : List Ty) (k : Nat) (a : Ty) (h : as[k]? = some a) : a.size + 1 ≤ Ty.sizeArgs as := by
  induction as generalizing k with
  | nil => simp at h
  | cons x xs ih =>
    cases k with
    | zero => simp only [List.getElem?_cons_zero, Option.some.injEq] at h; subst h; simp [Ty.sizeArgs]
    | succ k =>
      simp only [List.getElem?_cons_succ] at h
      have := ih k h
      simp [Ty.sizeArgs]; omega

theorem wfArgs_get (as : List Ty) (k : Nat) (a : Ty) (hw : Ty.wfArgs as = true) (h : as[k]? = some a) :
    a.wf = true ∧ a.isArgOk = true := by
  induction as generalizing k with
  | nil => simp at h
  | cons x xs ih =>
    simp only [Ty.wfArgs, Bool.and_eq_true] at hw
    cases k with
    | zero => simp only [List.getElem?_cons_zero, Option.some.injEq] at h; subst h; exact ⟨hw.1.1, hw.1.2⟩
    | succ k => simp only [List.getElem?_cons_succ] at h; exact ih k hw.2 h

theorem isFunc_erase (T : Ty) : T.erase.isFunc = T.isFunc := by
  cases T <;> simp [Ty.erase, Ty.isFunc]

theorem noFn_ok (T : Ty) (h : T.isFunc = false) : noFn (.ok T.erase) = .ok T.erase := by
  simp [noFn, isFunc_erase, h]

theorem isFunc_of_argOk (T : Ty) (h : T.isArgOk = true) : T.isFunc = false := by
  cases T <;> simp [Ty.isArgOk, Ty.isFunc] at *

theorem own_slot {idx : Ty → Option Nat} {slots : List PH} {ws : List Int} (E : Emitted idx slots ws)
    {T : Ty} {i : Nat} (h : idx T = some i) : ∃ w, ws[i]? = some w ∧ ownWord idx T = some w := by
  obtain ⟨w, a1, a2⟩ := E.rend i (.ty T) (E.inv.own T i h)
  refine ⟨w, a1, ?_⟩
  simpa [render, h] using a2

theorem render_ty_not_end (idx : Ty → Option Nat) (j : Nat) (a : Ty) (w : Int)
    (hr : render idx j (.ty a) = some w) (hok : a.isArgOk = true) : getOp w ≠ C.OP_FUNCTION_END := by
  unfold render at hr
  cases hia : idx a with
  | none => simp [hia] at hr
  | some ia =>
    simp only [hia] at hr
    by_cases hj : ia = j
    · simp only [hj, if_true] at hr
      cases a with
      | prim p =>
        simp only [ownWord, Option.some.injEq] at hr; subst hr
        rw [getOp_opWord _ _ (by decide)]; decide
      | ptr q t =>
        simp only [ownWord] at hr
        cases ht : idx t with
        | none => simp [ht] at hr
        | some it =>
          simp only [ht, Option.map_some, Option.some.injEq] at hr; subst hr
          rw [getOp_opWord _ _ (by decide)]; decide
      | su s =>
        simp only [ownWord, Option.some.injEq] at hr; subst hr
        rw [getOp_opWord _ _ (by decide)]; decide
      | enum s =>
        simp only [ownWord, Option.some.injEq] at hr; subst hr
        rw [getOp_opWord _ _ (by decide)]; decide
      | array _ _ | openArray _ | func _ _ _ => simp [Ty.isArgOk] at hok
    · simp only [hj, if_false] at hr
      cases a with
      | prim p =>
        by_cases hv : p = Py.PRIM_VOID
        · simp only [hv, if_true, Option.some.injEq] at hr; subst hr
          rw [getOp_opWord _ _ (by decide)]; decide
        · simp only [hv, if_false, Option.some.injEq] at hr; subst hr
          rw [getOp_opWord _ _ (by decide)]; decide
      | ptr _ _ | su _ | enum _ =>
        simp only [Option.some.injEq] at hr; subst hr
        rw [getOp_opWord _ _ (by decide)]; decide
      | array _ _ | openArray _ | func _ _ _ => simp [Ty.isArgOk] at hok

theorem realize_arg_slot (idx : Ty → Option Nat) (ws : List Int) (a : Ty)
    (ihA : ∀ ia fuel, idx a = some ia → a.size ≤ fuel → realize fuel ws (ia : Int) = .ok a.erase)
    (hwf : a.wf = true) (hok : a.isArgOk = true) (j : Nat) (w : Int) (hw : ws[j]? = some w)
    (hr : render idx j (.ty a) = some w) (fuel : Nat) (hf : a.size + 1 ≤ fuel) :
    noFn (realize fuel ws (j : Int)) = .ok a.erase := by
  have hnf : a.isFunc = false := isFunc_of_argOk a hok
  unfold render at hr
  cases hia : idx a with
  | none => simp [hia] at hr
  | some ia =>
    simp only [hia] at hr
    by_cases hj : ia = j
    · subst hj
      rw [ihA ia fuel hia (by omega)]
      exact noFn_ok a hnf
    · simp only [hj, if_false] at hr
      obtain ⟨fuel', rfl⟩ : ∃ f', fuel = f' + 1 := ⟨fuel - 1, by have := size_pos a; omega⟩
      have noop : w = opWord Py.OP_NOOP (ia : Int) → noFn (realize (fuel' + 1) ws (j : Int)) = .ok a.erase := by
        intro e
        subst e
        rw [realize_noop fuel' ws j ia hw, ihA ia fuel' hia (by omega)]
        exact noFn_ok a hnf
      cases a with
      | prim p =>
        by_cases hv : p = Py.PRIM_VOID
        · simp only [hv, if_true, Option.some.injEq] at hr
          exact noop hr.symm
        · simp only [hv, if_false, Option.some.injEq] at hr
          subst hr
          have hp : p < cNumPrim := by simpa [Ty.wf] using hwf
          rw [realize_prim fuel' ws j p hw hp]
          simp [noFn, Ty.isFunc, Ty.erase]
      | ptr _ _ | su _ | enum _ =>
        simp only [Option.some.injEq] at hr
        exact noop hr.symm
      | array _ _ | openArray _ | func _ _ _ => simp [Ty.isArgOk] at hok

theorem realize_emitted {idx : Ty → Option Nat} {slots : List PH} {ws : List Int} (E : Emitted idx slots ws) :
    ∀ (n : Nat) (T : Ty) (i fuel : Nat), T.size ≤ n → idx T = some i → T.wf = true → T.size ≤ fuel →
      realize fuel ws (i : Int) = .ok T.erase := by
  intro n
  induction n with
  | zero => intro T i fuel hs; have := size_pos T; omega
  | succ n ih =>
    intro T i fuel hs hi hwf hf
    obtain ⟨fuel', rfl⟩ : ∃ f', fuel = f' + 1 := ⟨fuel - 1, by have := size_pos T; omega⟩
    obtain ⟨w, hw1, hw2⟩ := own_slot E hi
    cases T with
    | prim p =>
      simp only [ownWord, Option.some.injEq] at hw2; subst hw2
      have hp : p < cNumPrim := by simpa [Ty.wf] using hwf
      rw [realize_prim fuel' ws i p hw1 hp]; simp [Ty.erase]
    | ptr q t =>
      simp only [Ty.size] at hs hf
      simp only [ownWord] at hw2
      cases ht : idx t with
      | none => simp [ht] at hw2
      | some j =>
        simp only [ht, Option.map_some, Option.some.injEq] at hw2; subst hw2
        have hwt : t.wf = true := by simpa [Ty.wf] using hwf
        rw [realize_ptr fuel' ws i j hw1, ih t j fuel' (by omega) ht hwt (by omega)]
        simp [Ty.erase]
    | array t len =>
      simp only [Ty.size] at hs hf
      simp only [ownWord] at hw2
      cases ht : idx t with
      | none => simp [ht] at hw2
      | some j =>
        simp only [ht, Option.map_some, Option.some.injEq] at hw2; subst hw2
        have hwt : t.wf = true ∧ t.isFunc = false := by simpa [Ty.wf] using hwf
        obtain ⟨w', l1, l2⟩ := E.rend (i + 1) (.len len) (E.inv.arr t len i hi)
        have hl : w' = (len : Int) := by
          simp only [render] at l2
          by_cases hb : len ≥ 2 ^ pyRawLimitLog2
          · simp [hb] at l2
          · simp only [hb, if_false, Option.some.injEq] at l2; exact l2.symm
        subst hl
        rw [realize_array fuel' ws i j len hw1 l1, ih t j fuel' (by omega) ht hwt.1 (by omega),
          noFn_ok t hwt.2]
        simp [Ty.erase]
    | openArray t =>
      simp only [Ty.size] at hs hf
      simp only [ownWord] at hw2
      cases ht : idx t with
      | none => simp [ht] at hw2
      | some j =>
        simp only [ht, Option.map_some, Option.some.injEq] at hw2; subst hw2
        have hwt : t.wf = true ∧ t.isFunc = false := by simpa [Ty.wf] using hwf
        rw [realize_openArray fuel' ws i j hw1, ih t j fuel' (by omega) ht hwt.1 (by omega),
          noFn_ok t hwt.2]
        simp [Ty.erase]
    | su s =>
      simp only [ownWord, Option.some.injEq] at hw2; subst hw2
      rw [realize_su fuel' ws i s hw1]; simp [Ty.erase]
    | enum s =>
      simp only [ownWord, Option.some.injEq] at hw2; subst hw2
      rw [realize_enum fuel' ws i s hw1]; simp [Ty.erase]
    | func r as f =>
      simp only [Ty.size] at hs hf
      simp only [ownWord] at hw2
      cases hr : idx r with
      | none => simp [hr] at hw2
      | some j =>
        simp only [hr, Option.map_some, Option.some.injEq] at hw2; subst hw2
        have hwt : ((r.wf = true ∧ r.isFunc = false) ∧ Ty.wfArgs as = true) ∧ f < 4 := by
          simpa [Ty.wf] using hwf
        obtain ⟨⟨⟨hwr, hfr⟩, hwa⟩, hf4⟩ := hwt
        obtain ⟨hslots, hend, hallok⟩ := E.inv.fn r as f i hi
        -- the argument slots and the FUNCTION_END slot of the table
        have hargs : ∀ k a, as[k]? = some a →
            ∃ w, ws[i + 1 + k]? = some w ∧ render idx (i + 1 + k) (.ty a) = some w :=
          fun k a hk => E.rend (i + 1 + k) (.ty a) (hslots k a hk)
        obtain ⟨we, he1, he2⟩ := E.rend (i + 1 + as.length) (.fend f) hend
        simp only [render, Option.some.injEq] at he2; subst he2
        have hcount : countArgs (ws.drop (i + 1)) = some as.length := by
          apply countArgs_spec
          · intro k hk
            have hka : as[k]? = some as[k] := List.getElem?_eq_getElem hk
            obtain ⟨w, a1, a2⟩ := hargs k _ hka
            exact ⟨w, a1, render_ty_not_end idx _ _ w a2 (isArgOk_of_all hallok hka)⟩
          · exact ⟨_, he1, by rw [getOp_opWord _ _ (by decide)]; decide⟩
        rw [realize_func fuel' ws i j as.length f hw1 hcount he1 hf4,
          ih r j fuel' (by omega) hr hwr (by omega), noFn_ok r hfr]
        have hargsR : argsFrom (fun i => noFn (realize fuel' ws i)) ((i : Int) + 1) as.length
            = .ok (Ty.eraseArgs as) := by
          apply argsFrom_spec
          intro k a hk
          obtain ⟨w, a1, a2⟩ := hargs k a hk
          obtain ⟨hwa', hoka⟩ := wfArgs_get as k a hwa hk
          have hsz := sizeArgs_get as k a hk
          have := realize_arg_slot idx ws a
            (fun ia fu hia hfu => ih a ia fu (by omega) hia hwa' hfu)
            hwa' hoka (i + 1 + k) w a1 a2 fuel' (by omega)
          have e : ((i : Int) + 1 + (k : Int)) = ((i + 1 + k : Nat) : Int) := by omega
          rw [e]; exact this
        rw [hargsR]; simp [Ty.erase]

end CffiVerif.Opcode
