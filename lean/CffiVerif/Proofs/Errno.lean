import CffiVerif.Model.Errno

/-! Helper lemmas about `Errno.run` used by `Props/C22.lean`. -/
namespace CffiVerif.Errno

theorem upd_same (σ : State) (t : Tid) (s : TState) : upd σ t s t = s := by simp [upd]

theorem upd_other (σ : State) (t u : Tid) (s : TState) (h : u ≠ t) : upd σ t s u = σ u := by
  simp [upd, h]

theorem run_append (σ : State) (a b : List (Tid × Ev)) :
    run σ (a ++ b) = ((run (run σ a).1 b).1, (run σ a).2 ++ (run (run σ a).1 b).2) := by
  induction a generalizing σ with
  | nil => simp [run]
  | cons e es ih => simp [run, ih]

theorem run_others (σ : State) (t : Tid) (mid : List (Tid × Ev)) (h : Others t mid) :
    (run σ mid).1 t = σ t := by
  induction mid generalizing σ with
  | nil => rfl
  | cons e es ih =>
    have he : e.1 ≠ t := h e (by simp)
    have hes : Others t es := fun x hx => h x (by simp [hx])
    simp only [run]
    rw [ih _ hes]
    simp only [step]
    exact upd_other _ _ _ _ (fun h' => he h'.symm)

theorem run_quiet (σ : State) (t : Tid) (mid : List (Tid × Ev)) (h : Quiet t mid) :
    ((run σ mid).1 t).saved = (σ t).saved := by
  induction mid generalizing σ with
  | nil => rfl
  | cons e es ih =>
    have hes : Quiet t es := fun x hx => h x (by simp [hx])
    simp only [run]
    rw [ih _ hes]
    simp only [step]
    by_cases he : e.1 = t
    · rcases h e (by simp) with h1 | ⟨v, hv⟩
      · exact absurd he h1
      · rw [← he, upd_same, hv]; rfl
    · rw [upd_other _ _ _ _ (fun h' => he h'.symm)]

theorem getLast_run1 (σ : State) (pre : List (Tid × Ev)) (a : Tid × Ev) :
    (run σ (pre ++ [a])).2.getLast? = some (a.1, (step (run σ pre).1 a).2) := by
  rw [run_append]
  simp [run]

theorem getLast_run2 (σ : State) (pre : List (Tid × Ev)) (a b : Tid × Ev) :
    (run σ (pre ++ [a, b])).2.getLast? =
      some (b.1, (step (step (run σ pre).1 a).1 b).2) := by
  rw [run_append]
  simp [run]

end CffiVerif.Errno
