import CffiVerif.Model.RealizeName

namespace CffiVerif.RealizeName

theorem gen_isTypedefNamed (c0 c1 : Nat) :
    Generated.RealizeName.isTypedefNamed c0 c1 = true ↔ (c0 = 36 ∧ c1 ≠ 36 ∧ ¬ (48 ≤ c1 ∧ c1 ≤ 57)) := by
  simp [Generated.RealizeName.isTypedefNamed]
  omega

theorem gen_typedefSkip : Generated.RealizeName.typedefSkip = 1 := rfl

theorem gen_cases : Generated.RealizeName.unrealizeCases =
    [(structPfx, structPfx.length, structPfx.length), (unionPfx, unionPfx.length, unionPfx.length),
     (enumPfx, enumPfx.length, enumPfx.length)] := by decide

theorem gen_else : Generated.RealizeName.unrealizeElse = [36] := rfl

@[simp] theorem charAt_cons_zero (a : UInt8) (as : CStr) : charAt (a :: as) 0 = a.toNat := rfl
@[simp] theorem charAt_nil (i : Nat) : charAt [] i = 0 := rfl

/-- `strncmp(lit ++ s, lit, strlen(lit)) == 0` -/
theorem strncmpN_self_prefix (lit s : CStr) (h : ∀ b ∈ lit, b ≠ 0) :
    strncmpN (lit ++ s) lit lit.length = 0 := by
  induction lit with
  | nil => simp [strncmpN]
  | cons c cs ih =>
    have hc : c ≠ 0 := h c (by simp)
    have : c.toNat ≠ 0 := fun e => hc (UInt8.toNat_inj.mp (by simpa using e))
    simp [strncmpN, this]
    exact ih (fun b hb => h b (by simp [hb]))

/-- `strncmp(s, lit, strlen(lit)) == 0` only when `lit` is a prefix of `s`. -/
theorem prefix_of_strncmpN_zero (lit s : CStr) (h : ∀ b ∈ lit, b ≠ 0)
    (hz : strncmpN s lit lit.length = 0) : lit <+: s := by
  induction lit generalizing s with
  | nil => simp
  | cons c cs ih =>
    have hc : c ≠ 0 := h c (by simp)
    have hcn : c.toNat ≠ 0 := fun e => hc (UInt8.toNat_inj.mp (by simpa using e))
    cases s with
    | nil =>
      simp [strncmpN] at hz
      omega
    | cons a as =>
      simp only [List.length_cons, strncmpN, charAt_cons_zero, List.tail_cons] at hz
      by_cases hac : a.toNat = c.toNat
      · have hac' : a = c := UInt8.toNat_inj.mp hac
        subst hac'
        simp [hcn] at hz
        have := ih as (fun b hb => h b (by simp [hb])) hz
        simpa using this
      · simp [hac] at hz
        omega

theorem first_differs (lit s : CStr) (n : Nat) (a c : UInt8) (h : a ≠ c) :
    strncmpN (a :: s) (c :: lit) (n + 1) ≠ 0 := by
  have : a.toNat ≠ c.toNat := fun e => h (UInt8.toNat_inj.mp e)
  simp [strncmpN, this]
  omega

end CffiVerif.RealizeName
