import CffiVerif.Model.CInt

/-! Helper lemmas about the integer model (`Model/CInt.lean`): little-endian bytes, raw reads of raw writes, `poke`. -/
namespace CffiVerif.CInt

theorem toLE_length (k n : Nat) : (toLE k n).length = k := by
  induction k generalizing n with
  | zero => rfl
  | succ k ih => simp [toLE, ih]

theorem fromLE_toLE (k n : Nat) : fromLE (toLE k n) = n % 256 ^ k := by
  induction k generalizing n with
  | zero => simp [toLE, fromLE, Nat.mod_one]
  | succ k ih =>
    simp only [toLE, fromLE, ih]
    have h : (UInt8.ofNat (n % 256)).toNat = n % 256 := by
      simp [UInt8.toNat_ofNat']
    rw [h, Nat.pow_succ, Nat.mul_comm (256 ^ k) 256, Nat.mod_mul]

theorem writeRaw_length (x : Int) (w : Width) : (writeRaw x w).length = w.bytes := by
  simp [writeRaw, toLE_length]

theorem readRawUnsigned_writeRaw (x : Int) (w : Width) :
    readRawUnsigned (writeRaw x w) = wrapU w.bits x := by
  unfold readRawUnsigned writeRaw wrapU
  rw [fromLE_toLE]
  cases w <;> simp [Width.bits, Width.bytes] <;> omega

theorem readRawSigned_writeRaw (x : Int) (w : Width) :
    readRawSigned (writeRaw x w) = wrapS w.bits x := by
  have h := readRawUnsigned_writeRaw x w
  unfold readRawUnsigned at h
  unfold readRawSigned
  rw [h, writeRaw_length]
  cases w <;> simp [Width.bits, Width.bytes, wrapS, wrapU] <;> rfl

theorem poke_take (data bs : List UInt8) : (poke data bs).take bs.length = bs := by
  simp [poke]

theorem poke_drop (data bs : List UInt8) : (poke data bs).drop bs.length = data.drop bs.length := by
  simp [poke]

theorem poke_length (data bs : List UInt8) (h : bs.length ≤ data.length) :
    (poke data bs).length = data.length := by
  simp [poke]; omega

theorem wrapS_eq_iff (w : Width) (x : Int) :
    wrapS w.bits x = x ↔ -(2 ^ (w.bits - 1)) ≤ x ∧ x < 2 ^ (w.bits - 1) := by
  cases w <;> simp [wrapS, Width.bits, Width.bytes] <;> omega

theorem wrapU_eq_iff (w : Width) (x : Int) :
    wrapU w.bits x = x ↔ 0 ≤ x ∧ x < 2 ^ w.bits := by
  cases w <;> simp [wrapU, Width.bits, Width.bytes] <;> omega

theorem myAsLongLong_cases (v : Int) :
    (-(2 ^ 63) ≤ v ∧ v < 2 ^ 63 ∧ myAsLongLong v = (v, none)) ∨
    (¬(-(2 ^ 63) ≤ v ∧ v < 2 ^ 63) ∧ myAsLongLong v = (-1, some .overflow)) := by
  unfold myAsLongLong pyLongAsLongLong
  by_cases h : -(2 ^ 63) ≤ v ∧ v < 2 ^ 63
  · left; exact ⟨h.1, h.2, if_pos h⟩
  · right; exact ⟨h, if_neg h⟩

theorem myAsULLStrict_cases (v : Int) :
    (0 ≤ v ∧ v < 2 ^ 64 ∧ myAsUnsignedLongLong v true = (v, none)) ∨
    (¬(0 ≤ v ∧ v < 2 ^ 64) ∧ myAsUnsignedLongLong v true = (2 ^ 64 - 1, some .overflow)) := by
  unfold myAsUnsignedLongLong pyLongAsUnsignedLongLong
  by_cases h0 : v < 0
  · right; refine ⟨by omega, ?_⟩; simp [h0]
  · by_cases h1 : v < 2 ^ 64
    · left; refine ⟨by omega, h1, ?_⟩; simp [h0]; omega
    · right; refine ⟨by omega, ?_⟩; simp [h0]; omega

theorem convert_signed (name : String) (w : Width) (data : List UInt8) (v : Int) :
    convertFromObject ⟨name, w, .signed⟩ data v =
      if -(2 ^ (w.bits - 1)) ≤ v ∧ v < 2 ^ (w.bits - 1)
      then (poke data (writeRaw v w), .ok ()) else (data, .error .overflow) := by
  simp only [convertFromObject]
  rcases myAsLongLong_cases v with ⟨h1, h2, e⟩ | ⟨h, e⟩ <;> rw [e]
  · simp only [readRawSigned_writeRaw]
    have := wrapS_eq_iff w v
    by_cases hr : -(2 ^ (w.bits - 1)) ≤ v ∧ v < 2 ^ (w.bits - 1)
    · have e : wrapS w.bits v = v := this.mpr hr
      simp [hr, e, okUnless]
    · have e : ¬ wrapS w.bits v = v := fun e => hr (this.mp e)
      have e' : ¬ v = wrapS w.bits v := fun e'' => e e''.symm
      simp [hr, e', convertOverflow]
  · have hr : ¬ (-(2 ^ (w.bits - 1)) ≤ v ∧ v < 2 ^ (w.bits - 1)) := by
      cases w <;> simp [Width.bits, Width.bytes] <;> omega
    simp [hr]

theorem convert_unsigned (name : String) (w : Width) (data : List UInt8) (v : Int) :
    convertFromObject ⟨name, w, .unsigned⟩ data v =
      if 0 ≤ v ∧ v < 2 ^ w.bits
      then (poke data (writeRaw v w), .ok ()) else (data, .error .overflow) := by
  simp only [convertFromObject]
  rcases myAsULLStrict_cases v with ⟨h1, h2, e⟩ | ⟨h, e⟩ <;> rw [e]
  · simp only [readRawUnsigned_writeRaw]
    have := wrapU_eq_iff w v
    by_cases hr : 0 ≤ v ∧ v < 2 ^ w.bits
    · have e : wrapU w.bits v = v := this.mpr hr
      simp [hr, e, okUnless]
    · have e : ¬ wrapU w.bits v = v := fun e => hr (this.mp e)
      have e' : ¬ v = wrapU w.bits v := fun e'' => e e''.symm
      simp [hr, e', convertOverflow]
  · have hr : ¬ (0 ≤ v ∧ v < 2 ^ w.bits) := by
      cases w <;> simp [Width.bits, Width.bytes] <;> omega
    simp [hr]

theorem convert_bool (name : String) (w : Width) (data : List UInt8) (v : Int) :
    convertFromObject ⟨name, w, .bool⟩ data v =
      if 0 ≤ v ∧ v ≤ 1
      then (poke data (writeRaw v w), .ok ()) else (data, .error .overflow) := by
  simp only [convertFromObject]
  rcases myAsULLStrict_cases v with ⟨h1, h2, e⟩ | ⟨h, e⟩ <;> rw [e]
  · by_cases hr : 0 ≤ v ∧ v ≤ 1
    · have : ¬ v > 1 := by omega
      simp [hr, this, okUnless]
    · have : v > 1 := by omega
      simp [hr, this, convertOverflow]
  · have hr : ¬ (0 ≤ v ∧ v ≤ 1) := by omega
    simp [hr]

end CffiVerif.CInt
