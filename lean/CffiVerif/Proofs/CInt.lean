import CffiVerif.Model.CInt

/-! Helper lemmas about the integer model (`Model/CInt.lean`): little-endian bytes, raw reads of raw writes, `poke`. -/
set_option linter.unusedSimpArgs false

namespace CffiVerif.CInt

theorem toLE_length (k n : Nat) : (toLE k n).length = k := by
  induction k generalizing n with
  | zero => rfl
  | succ k ih => simp [toLE, ih]

theorem fromLE_toLE (k n : Nat) : fromLE (toLE k n) = n % 256 ^ k := by
  induction k generalizing n with
  | zero => simp [toLE, fromLE, Nat.mod_one]
  | succ k ih =>
    simp only [toLE, fromLE, ih]
    have h : (UInt8.ofNat (n % 256)).toNat = n % 256 := by
      simp [UInt8.toNat_ofNat']
    rw [h, Nat.pow_succ, Nat.mul_comm (256 ^ k) 256, Nat.mod_mul]

theorem writeRaw_length (x : Int) (w : Width) : (writeRaw x w).length = w.bytes := by
  simp [writeRaw, toLE_length]

theorem readRawUnsigned_writeRaw (x : Int) (w : Width) :
    readRawUnsigned (writeRaw x w) = wrapU w.bits x := by
  unfold readRawUnsigned writeRaw wrapU
  rw [fromLE_toLE]
  cases w <;> simp [Width.bits, Width.bytes] <;> omega

theorem readRawSigned_writeRaw (x : Int) (w : Width) :
    readRawSigned (writeRaw x w) = wrapS w.bits x := by
  have h := readRawUnsigned_writeRaw x w
  unfold readRawUnsigned at h
  unfold readRawSigned
  rw [h, writeRaw_length]
  cases w <;> simp [Width.bits, Width.bytes, wrapS, wrapU] <;> rfl

theorem poke_take (data bs : List UInt8) : (poke data bs).take bs.length = bs := by
  simp [poke]

theorem poke_drop (data bs : List UInt8) : (poke data bs).drop bs.length = data.drop bs.length := by
  simp [poke]

theorem poke_length (data bs : List UInt8) (h : bs.length ≤ data.length) :
    (poke data bs).length = data.length := by
  simp [poke]; omega

theorem wrapS_eq_iff (w : Width) (x : Int) :
    wrapS w.bits x = x ↔ -(2 ^ (w.bits - 1)) ≤ x ∧ x < 2 ^ (w.bits - 1) := by
  cases w <;> simp [wrapS, Width.bits, Width.bytes] <;> omega

theorem wrapU_eq_iff (w : Width) (x : Int) :
    wrapU w.bits x = x ↔ 0 ≤ x ∧ x < 2 ^ w.bits := by
  cases w <;> simp [wrapU, Width.bits, Width.bytes] <;> omega

theorem myAsLongLong_cases (v : Int) :
    (-(2 ^ 63) ≤ v ∧ v < 2 ^ 63 ∧ myAsLongLong v = (v, none)) ∨
    (¬(-(2 ^ 63) ≤ v ∧ v < 2 ^ 63) ∧ myAsLongLong v = (-1, some .overflow)) := by
  unfold myAsLongLong pyLongAsLongLong
  by_cases h : -(2 ^ 63) ≤ v ∧ v < 2 ^ 63
  · left; exact ⟨h.1, h.2, if_pos h⟩
  · right; exact ⟨h, if_neg h⟩

theorem myAsULLStrict_cases (v : Int) :
    (0 ≤ v ∧ v < 2 ^ 64 ∧ myAsUnsignedLongLong v true = (v, none)) ∨
    (¬(0 ≤ v ∧ v < 2 ^ 64) ∧ myAsUnsignedLongLong v true = (2 ^ 64 - 1, some .overflow)) := by
  unfold myAsUnsignedLongLong pyLongAsUnsignedLongLong
  by_cases h0 : v < 0
  · right; refine ⟨by omega, ?_⟩; simp [h0]
  · by_cases h1 : v < 2 ^ 64
    · left; refine ⟨by omega, h1, ?_⟩; simp [h0]; omega
    · right; refine ⟨by omega, ?_⟩; simp [h0]; omega

theorem convert_signed (name : String) (w : Width) (data : List UInt8) (v : Int) :
    convertFromObject ⟨name, w, .signed⟩ data v =
      if -(2 ^ (w.bits - 1)) ≤ v ∧ v < 2 ^ (w.bits - 1)
      then (poke data (writeRaw v w), .ok ()) else (data, .error .overflow) := by
  simp only [convertFromObject]
  rcases myAsLongLong_cases v with ⟨h1, h2, e⟩ | ⟨h, e⟩ <;> rw [e]
  · simp only [readRawSigned_writeRaw]
    have := wrapS_eq_iff w v
    by_cases hr : -(2 ^ (w.bits - 1)) ≤ v ∧ v < 2 ^ (w.bits - 1)
    · have e : wrapS w.bits v = v := this.mpr hr
      simp [hr, e, okUnless]
    · have e : ¬ wrapS w.bits v = v := fun e => hr (this.mp e)
      have e' : ¬ v = wrapS w.bits v := fun e'' => e e''.symm
      simp [hr, e', convertOverflow]
  · have hr : ¬ (-(2 ^ (w.bits - 1)) ≤ v ∧ v < 2 ^ (w.bits - 1)) := by
      cases w <;> simp [Width.bits, Width.bytes] <;> omega
    simp [hr]

theorem convert_unsigned (name : String) (w : Width) (data : List UInt8) (v : Int) :
    convertFromObject ⟨name, w, .unsigned⟩ data v =
      if 0 ≤ v ∧ v < 2 ^ w.bits
      then (poke data (writeRaw v w), .ok ()) else (data, .error .overflow) := by
  simp only [convertFromObject]
  rcases myAsULLStrict_cases v with ⟨h1, h2, e⟩ | ⟨h, e⟩ <;> rw [e]
  · simp only [readRawUnsigned_writeRaw]
    have := wrapU_eq_iff w v
    by_cases hr : 0 ≤ v ∧ v < 2 ^ w.bits
    · have e : wrapU w.bits v = v := this.mpr hr
      simp [hr, e, okUnless]
    · have e : ¬ wrapU w.bits v = v := fun e => hr (this.mp e)
      have e' : ¬ v = wrapU w.bits v := fun e'' => e e''.symm
      simp [hr, e', convertOverflow]
  · have hr : ¬ (0 ≤ v ∧ v < 2 ^ w.bits) := by
      cases w <;> simp [Width.bits, Width.bytes] <;> omega
    simp [hr]

theorem convert_bool (name : String) (w : Width) (data : List UInt8) (v : Int) :
    convertFromObject ⟨name, w, .bool⟩ data v =
      if 0 ≤ v ∧ v ≤ 1
      then (poke data (writeRaw v w), .ok ()) else (data, .error .overflow) := by
  simp only [convertFromObject]
  rcases myAsULLStrict_cases v with ⟨h1, h2, e⟩ | ⟨h, e⟩ <;> rw [e]
  · by_cases hr : 0 ≤ v ∧ v ≤ 1
    · have : ¬ v > 1 := by omega
      simp [hr, this, okUnless]
    · have : v > 1 := by omega
      simp [hr, this, convertOverflow]
  · have hr : ¬ (0 ≤ v ∧ v ≤ 1) := by omega
    simp [hr]

/-- closed form of `convertFromObject` on the integer kinds -/
theorem convert_eq (T : IntType) (hT : T.isInt = true) (data : List UInt8) (v : Int) :
    convertFromObject T data v =
      if T.InRange v then (poke data (writeRaw v T.width), .ok ()) else (data, .error .overflow) := by
  rcases T with ⟨name, w, k⟩
  cases k
  · rw [convert_signed]
    simp only [IntType.InRange, IntType.lo, IntType.hi, IntType.bits]
    cases w <;> simp [Width.bits, Width.bytes] <;> congr 1 <;> simp <;> omega
  · rw [convert_unsigned]
    simp only [IntType.InRange, IntType.lo, IntType.hi, IntType.bits]
    cases w <;> simp [Width.bits, Width.bytes] <;> congr 1 <;> simp <;> omega
  · rw [convert_bool]
    simp only [IntType.InRange, IntType.lo, IntType.hi]
    rfl
  · simp [IntType.isInt] at hT
  · simp [IntType.isInt] at hT


theorem toLE_take (m k n : Nat) (h : k ≤ m) : (toLE m n).take k = toLE k n := by
  induction k generalizing m n with
  | zero => simp [toLE]
  | succ k ih =>
    cases m with
    | zero => omega
    | succ m => simp [toLE, ih m (n / 256) (by omega)]

theorem toLE_zero (j : Nat) : toLE j 0 = List.replicate j 0 := by
  induction j with
  | zero => rfl
  | succ j ih => simp [toLE, ih, List.replicate_succ]

theorem toLE_extend (k j n : Nat) (h : n < 256 ^ k) : toLE (k + j) n = toLE k n ++ List.replicate j 0 := by
  induction k generalizing n with
  | zero =>
    have : n = 0 := by simpa using h
    subst this
    simp [toLE, toLE_zero]
  | succ k ih =>
    have h' : n / 256 < 256 ^ k := by
      rw [Nat.pow_succ] at h
      exact Nat.div_lt_of_lt_mul (by rw [Nat.mul_comm]; exact h)
    have : k + 1 + j = (k + j) + 1 := by omega
    rw [this]
    simp [toLE, ih (n / 256) h']

/-- reading an in-range value back from its object representation -/
theorem readInt_writeRaw (T : IntType) (hT : T.isInt = true) (v : Int) (h : T.InRange v)
    (data : List UInt8) (hd : data.take T.bytes = writeRaw v T.width) :
    readInt T data = .ok v := by
  rcases T with ⟨name, w, k⟩
  simp only [readInt, hd]
  cases k <;> simp only [IntType.InRange, IntType.lo, IntType.hi, IntType.bits] at h
  · simp only [readRawSigned_writeRaw]
    congr 1
    exact (wrapS_eq_iff w v).mpr (by cases w <;> simp [Width.bits, Width.bytes] at h ⊢ <;> omega)
  · simp only [readRawUnsigned_writeRaw]
    congr 1
    exact (wrapU_eq_iff w v).mpr (by cases w <;> simp [Width.bits, Width.bytes] at h ⊢ <;> omega)
  · simp only [readRawUnsigned_writeRaw]
    have e : wrapU w.bits v = v :=
      (wrapU_eq_iff w v).mpr (by cases w <;> simp [Width.bits, Width.bytes] at h ⊢ <;> omega)
    rw [e]
    have : v = 0 ∨ v = 1 := by omega
    rcases this with rfl | rfl <;> simp
  · simp [IntType.isInt] at hT
  · simp [IntType.isInt] at hT

theorem poke_take_le (data bs : List UInt8) (k : Nat) (h : k ≤ bs.length) :
    (poke data bs).take k = bs.take k := by
  simp [poke, List.take_append, Nat.sub_eq_zero_of_le h]

theorem poke_zeros_take (result bs : List UInt8) (n : Nat) (h : bs.length ≤ n) :
    (poke (poke result (List.replicate n 0)) bs).take n = bs ++ List.replicate (n - bs.length) 0 := by
  unfold poke
  rw [List.take_append, List.take_of_length_le h]
  congr 1
  rw [List.drop_append, List.drop_replicate, List.length_replicate, Nat.sub_eq_zero_of_le h, List.drop_zero]
  rw [List.take_append, List.length_replicate, Nat.sub_self, List.take_zero, List.append_nil]
  rw [List.take_replicate, Nat.min_self]


/-! ### wrapping -/

theorem readInt_writeRaw_wrap (T : IntType) (hb : T.kind ≠ .bool) (value : Int) :
    readInt T (writeRaw value T.width) = .ok (T.wrap value) := by
  have ht : (writeRaw value T.width).take T.bytes = writeRaw value T.width :=
    List.take_of_length_le (by rw [writeRaw_length]; exact Nat.le_refl _)
  rcases T with ⟨n, w, k⟩
  simp only [readInt, ht]
  cases k <;>
    simp [IntType.wrap, CInt.wrap, IntType.readsSigned, IntType.bits, readRawSigned_writeRaw,
      readRawUnsigned_writeRaw] at hb ⊢

theorem wrap_congr (T : IntType) (a b : Int) (h : a % 2 ^ 64 = b % 2 ^ 64) : T.wrap a = T.wrap b := by
  rcases T with ⟨n, w, k⟩
  cases k <;> cases w <;>
    simp [IntType.wrap, CInt.wrap, IntType.readsSigned, IntType.bits, Width.bits, Width.bytes, wrapS, wrapU] at h ⊢ <;>
    omega


end CffiVerif.CInt
