import CffiVerif.Spec.Ieee

/-! Helper lemmas about `Spec/Ieee.lean` (used by `Props/C05.lean`). -/
namespace CffiVerif.Ieee

/-! ## fields -/

theorem fields64 (s e m : Nat) (hs : s < 2) (he : e < 2048) (hm : m < 2 ^ 52) :
    sign64 (s * 2 ^ 63 + (e * 2 ^ 52 + m)) = s ∧ exp64 (s * 2 ^ 63 + (e * 2 ^ 52 + m)) = e ∧
    man64 (s * 2 ^ 63 + (e * 2 ^ 52 + m)) = m := by
  unfold sign64 exp64 man64
  omega

theorem fields32 (s E f : Nat) (hs : s < 2) (hE : E < 256) (hf : f < 2 ^ 23) :
    sign32 (s * 2 ^ 31 + (E * 2 ^ 23 + f)) = s ∧ exp32 (s * 2 ^ 31 + (E * 2 ^ 23 + f)) = E ∧
    man32 (s * 2 ^ 31 + (E * 2 ^ 23 + f)) = f := by
  unfold sign32 exp32 man32
  omega

theorem decomp32 (b : Nat) (hb : b < 2 ^ 32) :
    b = sign32 b * 2 ^ 31 + (exp32 b * 2 ^ 23 + man32 b) ∧ sign32 b < 2 ∧ exp32 b < 256 ∧ man32 b < 2 ^ 23 := by
  unfold sign32 exp32 man32
  omega

theorem decomp64 (x : Nat) (hx : x < 2 ^ 64) :
    x = sign64 x * 2 ^ 63 + (exp64 x * 2 ^ 52 + man64 x) ∧ sign64 x < 2 ∧ exp64 x < 2048 ∧ man64 x < 2 ^ 52 := by
  unfold sign64 exp64 man64
  omega

/-! ## `rne` -/

theorem rne_exact (a j : Nat) : rne (a * 2 ^ j) j = a := by
  have hp : 0 < 2 ^ j := Nat.two_pow_pos _
  unfold rne
  simp only [Nat.mul_div_cancel _ hp, Nat.mul_mod_left]
  have h1 : ¬ (2 * 0 > 2 ^ j) := by omega
  have h2 : ¬ (2 * 0 = 2 ^ j ∧ a % 2 = 1) := by omega
  simp [h1, h2]

theorem rne_le_succ (a s : Nat) : rne a s ≤ a / 2 ^ s + 1 := by
  unfold rne; simp only; split <;> omega

theorem rne_ge (a s : Nat) : a / 2 ^ s ≤ rne a s := by
  unfold rne; simp only; split <;> omega

/-- `rne` is monotone in the significand, for every shift. -/
theorem rne_mono (a b s : Nat) (h : a ≤ b) : rne a s ≤ rne b s := by
  have hq : a / 2 ^ s ≤ b / 2 ^ s := Nat.div_le_div_right h
  have ha := Nat.div_add_mod a (2 ^ s)
  have hb := Nat.div_add_mod b (2 ^ s)
  have hp : 0 < 2 ^ s := Nat.two_pow_pos _
  have hra := Nat.mod_lt a hp
  have hrb := Nat.mod_lt b hp
  rcases Nat.lt_or_ge (a / 2 ^ s) (b / 2 ^ s) with hlt | hge
  · calc rne a s ≤ a / 2 ^ s + 1 := rne_le_succ a s
      _ ≤ b / 2 ^ s := hlt
      _ ≤ rne b s := rne_ge b s
  · have heq : a / 2 ^ s = b / 2 ^ s := Nat.le_antisymm hq hge
    have hr : a % 2 ^ s ≤ b % 2 ^ s := by
      rw [heq] at ha
      omega
    unfold rne
    simp only [heq]
    generalize a % 2 ^ s = ra at *
    generalize b % 2 ^ s = rb at *
    generalize b / 2 ^ s = q at *
    generalize 2 ^ s = D at *
    split <;> split <;> omega


/-! ## normalising a binary32 subnormal -/

theorem subnormal_norm (f : Nat) (hf0 : f ≠ 0) (hf : f < 2 ^ 23) :
    Nat.log2 f ≤ 22 ∧ 2 ^ 52 ≤ f * 2 ^ (52 - Nat.log2 f) ∧ f * 2 ^ (52 - Nat.log2 f) < 2 ^ 53 := by
  have hk : Nat.log2 f < 23 := (Nat.log2_lt hf0).2 hf
  have hlo : 2 ^ Nat.log2 f ≤ f := Nat.log2_self_le hf0
  have hhi : f < 2 ^ (Nat.log2 f + 1) := Nat.lt_log2_self
  have hP : 0 < 2 ^ (52 - Nat.log2 f) := Nat.two_pow_pos _
  have e1 : 2 ^ Nat.log2 f * 2 ^ (52 - Nat.log2 f) = 2 ^ 52 := by
    rw [← Nat.pow_add]; congr 1; omega
  have e2 : 2 ^ (Nat.log2 f + 1) * 2 ^ (52 - Nat.log2 f) = 2 ^ 53 := by
    rw [← Nat.pow_add]; congr 1; omega
  refine ⟨by omega, ?_, ?_⟩
  · rw [← e1]; exact Nat.mul_le_mul_right _ hlo
  · rw [← e2]; exact Nat.mul_lt_mul_of_pos_right hhi hP

theorem norm53 (n : Nat) (hn0 : n ≠ 0) (hn : n < 2 ^ 53) :
    Nat.log2 n ≤ 52 ∧ 2 ^ 52 ≤ n * 2 ^ (52 - Nat.log2 n) ∧ n * 2 ^ (52 - Nat.log2 n) < 2 ^ 53 := by
  have hk : Nat.log2 n < 53 := (Nat.log2_lt hn0).2 hn
  have hlo : 2 ^ Nat.log2 n ≤ n := Nat.log2_self_le hn0
  have hhi : n < 2 ^ (Nat.log2 n + 1) := Nat.lt_log2_self
  have hP : 0 < 2 ^ (52 - Nat.log2 n) := Nat.two_pow_pos _
  have e1 : 2 ^ Nat.log2 n * 2 ^ (52 - Nat.log2 n) = 2 ^ 52 := by
    rw [← Nat.pow_add]; congr 1; omega
  have e2 : 2 ^ (Nat.log2 n + 1) * 2 ^ (52 - Nat.log2 n) = 2 ^ 53 := by
    rw [← Nat.pow_add]; congr 1; omega
  refine ⟨by omega, ?_, ?_⟩
  · rw [← e1]; exact Nat.mul_le_mul_right _ hlo
  · rw [← e2]; exact Nat.mul_lt_mul_of_pos_right hhi hP

/-! ## magnitudes stay inside their fields -/

theorem widenMag_inf : widenMag 255 0 = 2047 * 2 ^ 52 + 0 := by simp [widenMag, inf64]

theorem widenMag_nan (f : Nat) (hf0 : f ≠ 0) :
    widenMag 255 f = 2047 * 2 ^ 52 + (2 ^ 51 + f % 2 ^ 22 * 2 ^ 29) := by
  unfold widenMag
  rw [if_pos rfl, if_neg hf0]
  unfold qnan64
  omega

theorem widenMag_zero : widenMag 0 0 = 0 := by simp [widenMag]

theorem widenMag_sub (f : Nat) (hf0 : f ≠ 0) (hf : f < 2 ^ 23) :
    widenMag 0 f = (874 + Nat.log2 f) * 2 ^ 52 + (f * 2 ^ (52 - Nat.log2 f) - 2 ^ 52) := by
  obtain ⟨hk, hlo, hhi⟩ := subnormal_norm f hf0 hf
  unfold widenMag
  rw [if_neg (by decide), if_pos rfl, if_neg hf0]
  simp only []
  omega

theorem widenMag_normal (E f : Nat) (h0 : E ≠ 0) (h255 : E ≠ 255) :
    widenMag E f = (E + 896) * 2 ^ 52 + f * 2 ^ 29 := by
  unfold widenMag
  rw [if_neg h255, if_neg h0]

theorem widenMag_lt (E f : Nat) (hE : E < 256) (hf : f < 2 ^ 23) : widenMag E f < 2 ^ 63 := by
  by_cases h255 : E = 255
  · subst h255
    by_cases hf0 : f = 0
    · subst hf0; rw [widenMag_inf]; omega
    · rw [widenMag_nan f hf0]; omega
  · by_cases h0 : E = 0
    · subst h0
      by_cases hf0 : f = 0
      · subst hf0; rw [widenMag_zero]; omega
      · obtain ⟨hk, hlo, hhi⟩ := subnormal_norm f hf0 hf
        rw [widenMag_sub f hf0 hf]; omega
    · rw [widenMag_normal E f h0 h255]; omega

/-! ## the branches of `narrowMag` -/

theorem narrowMag_inf : narrowMag 2047 0 = inf32 := by simp [narrowMag]

theorem narrowMag_nan (m : Nat) (hm : m ≠ 0) : narrowMag 2047 m = qnan32 + m / 2 ^ 29 % 2 ^ 22 := by
  simp [narrowMag, hm]

theorem narrowMag_zero (m : Nat) : narrowMag 0 m = 0 := by simp [narrowMag]

theorem narrowMag_normal (e m : Nat) (h1 : 897 ≤ e) (h2 : e < 2047) :
    narrowMag e m = min ((e - 897) * 2 ^ 23 + rne (2 ^ 52 + m) 29) inf32 := by
  have a : ¬ e = 2047 := by omega
  have b : ¬ e = 0 := by omega
  unfold narrowMag
  rw [if_neg a, if_neg b, if_pos h1]
  simp only []
  by_cases h : inf32 ≤ (e - 897) * 2 ^ 23 + rne (2 ^ 52 + m) 29
  · rw [if_pos h]; omega
  · rw [if_neg h]; omega

theorem narrowMag_sub (e m : Nat) (h1 : 1 ≤ e) (h2 : e ≤ 896) :
    narrowMag e m = rne (2 ^ 52 + m) (926 - e) := by
  have a : ¬ e = 2047 := by omega
  have b : ¬ e = 0 := by omega
  have c : ¬ 897 ≤ e := by omega
  unfold narrowMag
  rw [if_neg a, if_neg b, if_neg c]

/-- In the underflow range the result is at most the smallest normal. -/
theorem rne_sub_le (e m : Nat) (h2 : e ≤ 896) (hm : m < 2 ^ 52) : rne (2 ^ 52 + m) (926 - e) ≤ 2 ^ 23 := by
  have hs : 30 ≤ 926 - e := by omega
  have h := rne_le_succ (2 ^ 52 + m) (926 - e)
  have hd : (2 ^ 52 + m) / 2 ^ (926 - e) ≤ (2 ^ 52 + m) / 2 ^ 30 :=
    Nat.div_le_div_left (Nat.pow_le_pow_right (by decide) hs) (Nat.two_pow_pos _)
  omega

theorem rne29_bounds (m : Nat) (hm : m < 2 ^ 52) :
    2 ^ 23 ≤ rne (2 ^ 52 + m) 29 ∧ rne (2 ^ 52 + m) 29 ≤ 2 ^ 24 := by
  have h1 := rne_le_succ (2 ^ 52 + m) 29
  have h2 := rne_ge (2 ^ 52 + m) 29
  omega

theorem narrowMag_lt (e m : Nat) (he : e < 2048) (hm : m < 2 ^ 52) : narrowMag e m < 2 ^ 31 := by
  by_cases a : e = 2047
  · subst a
    by_cases hm0 : m = 0
    · subst hm0; rw [narrowMag_inf]; simp [inf32]
    · rw [narrowMag_nan m hm0]; simp only [qnan32]; omega
  · by_cases b : e = 0
    · subst b; rw [narrowMag_zero]; omega
    · by_cases c : 897 ≤ e
      · rw [narrowMag_normal e m c (by omega)]; simp only [inf32]; omega
      · rw [narrowMag_sub e m (by omega) (by omega)]
        have := rne_sub_le e m (by omega) hm
        omega

/-- A finite binary64 never narrows to a NaN: the magnitude is at most ∞. -/
theorem narrowMag_finite_le (e m : Nat) (he : e < 2047) (hm : m < 2 ^ 52) : narrowMag e m ≤ inf32 := by
  by_cases b : e = 0
  · subst b; rw [narrowMag_zero]; omega
  · by_cases c : 897 ≤ e
    · rw [narrowMag_normal e m c he]; omega
    · rw [narrowMag_sub e m (by omega) (by omega)]
      have := rne_sub_le e m (by omega) hm
      simp only [inf32]; omega


/-! ## narrowing what widening produced -/

theorem narrowNat_of_fields (s e m : Nat) (hs : s < 2) (he : e < 2048) (hm : m < 2 ^ 52) :
    narrowNat (s * 2 ^ 63 + (e * 2 ^ 52 + m)) = s * 2 ^ 31 + narrowMag e m := by
  obtain ⟨h1, h2, h3⟩ := fields64 s e m hs he hm
  unfold narrowNat
  rw [h1, h2, h3]

theorem widenNat_of_fields (s E f : Nat) (hs : s < 2) (hE : E < 256) (hf : f < 2 ^ 23) :
    widenNat (s * 2 ^ 31 + (E * 2 ^ 23 + f)) = s * 2 ^ 63 + widenMag E f := by
  obtain ⟨h1, h2, h3⟩ := fields32 s E f hs hE hf
  unfold widenNat
  rw [h1, h2, h3]

/-- Magnitude level: narrowing the widened magnitude gives the magnitude back
(NaN: with the quiet bit set). -/
theorem narrowMag_widenMag (E f : Nat) (hE : E < 256) (hf : f < 2 ^ 23) :
    ∃ e m, widenMag E f = e * 2 ^ 52 + m ∧ e < 2048 ∧ m < 2 ^ 52 ∧
      narrowMag e m = if E = 255 ∧ f ≠ 0 then qnan32 + f % 2 ^ 22 else E * 2 ^ 23 + f := by
  by_cases h255 : E = 255
  · subst h255
    by_cases hf0 : f = 0
    · subst hf0
      refine ⟨2047, 0, widenMag_inf, by omega, by omega, ?_⟩
      rw [narrowMag_inf, if_neg (by simp)]; simp [inf32]
    · refine ⟨2047, 2 ^ 51 + f % 2 ^ 22 * 2 ^ 29, widenMag_nan f hf0, by omega, by omega, ?_⟩
      rw [narrowMag_nan _ (by omega), if_pos ⟨rfl, hf0⟩]
      omega
  · have hc : ¬ (E = 255 ∧ f ≠ 0) := fun h => h255 h.1
    rw [if_neg hc]
    by_cases h0 : E = 0
    · subst h0
      by_cases hf0 : f = 0
      · subst hf0
        exact ⟨0, 0, by rw [widenMag_zero], by omega, by omega, by rw [narrowMag_zero]⟩
      · obtain ⟨hk, hlo, hhi⟩ := subnormal_norm f hf0 hf
        refine ⟨874 + Nat.log2 f, f * 2 ^ (52 - Nat.log2 f) - 2 ^ 52, widenMag_sub f hf0 hf,
          by omega, by omega, ?_⟩
        rw [narrowMag_sub _ _ (by omega) (by omega)]
        have e1 : 2 ^ 52 + (f * 2 ^ (52 - Nat.log2 f) - 2 ^ 52) = f * 2 ^ (52 - Nat.log2 f) := by omega
        have e2 : 926 - (874 + Nat.log2 f) = 52 - Nat.log2 f := by omega
        rw [e1, e2, rne_exact]
        omega
    · refine ⟨E + 896, f * 2 ^ 29, widenMag_normal E f h0 h255, by omega, by omega, ?_⟩
      rw [narrowMag_normal _ _ (by omega) (by omega)]
      have e1 : 2 ^ 52 + f * 2 ^ 29 = (2 ^ 23 + f) * 2 ^ 29 := by omega
      rw [e1, rne_exact]
      simp only [inf32]
      omega

theorem narrowNat_widenNat (b : Nat) (hb : b < 2 ^ 32) :
    narrowNat (widenNat b) =
      if isNaN32 b then sign32 b * 2 ^ 31 + (qnan32 + man32 b % 2 ^ 22) else b := by
  obtain ⟨hd, hs, hE, hf⟩ := decomp32 b hb
  obtain ⟨e, m, hw, he, hm, hn⟩ := narrowMag_widenMag (exp32 b) (man32 b) hE hf
  have hwn : widenNat b = sign32 b * 2 ^ 63 + (e * 2 ^ 52 + m) := by
    unfold widenNat; rw [hw]
  rw [hwn, narrowNat_of_fields _ e m hs he hm, hn]
  by_cases hc : isNaN32 b
  · have hc' : exp32 b = 255 ∧ man32 b ≠ 0 := hc
    rw [if_pos hc, if_pos hc']
  · have hc' : ¬ (exp32 b = 255 ∧ man32 b ≠ 0) := hc
    rw [if_neg hc, if_neg hc']; omega

/-! ## widening is exact -/

set_option exponentiation.threshold 1100 in
theorem scaledMag_widenMag (E f : Nat) (hE : E < 255) (hf : f < 2 ^ 23) :
    ∃ e m, widenMag E f = e * 2 ^ 52 + m ∧ e < 2047 ∧ m < 2 ^ 52 ∧
      scaledMag64 e m = scaledMag32 E f := by
  by_cases h0 : E = 0
  · subst h0
    by_cases hf0 : f = 0
    · subst hf0
      exact ⟨0, 0, by rw [widenMag_zero], by omega, by omega,
        by unfold scaledMag64 scaledMag32; rw [if_pos rfl, if_pos rfl]; try exact (Nat.zero_mul _).symm⟩
    · obtain ⟨hk, hlo, hhi⟩ := subnormal_norm f hf0 hf
      refine ⟨874 + Nat.log2 f, f * 2 ^ (52 - Nat.log2 f) - 2 ^ 52, widenMag_sub f hf0 hf,
        by omega, by omega, ?_⟩
      unfold scaledMag64 scaledMag32
      rw [if_neg (by omega), if_pos rfl]
      have e1 : 2 ^ 52 + (f * 2 ^ (52 - Nat.log2 f) - 2 ^ 52) = f * 2 ^ (52 - Nat.log2 f) := by omega
      have e2 : 925 = (52 - Nat.log2 f) + (874 + Nat.log2 f - 1) := by omega
      rw [e1, Nat.mul_assoc, ← Nat.pow_add, ← e2]
  · refine ⟨E + 896, f * 2 ^ 29, widenMag_normal E f h0 (by omega), by omega, by omega, ?_⟩
    unfold scaledMag64 scaledMag32
    rw [if_neg (by omega), if_neg h0]
    have e1 : 2 ^ 52 + f * 2 ^ 29 = (2 ^ 23 + f) * 2 ^ 29 := by omega
    have e2 : E + 924 = 29 + (E + 896 - 1) := by omega
    rw [e1, e2, Nat.pow_add, Nat.mul_assoc]

theorem scaled_widenNat (b : Nat) (hb : b < 2 ^ 32) (hfin : exp32 b ≠ 255) :
    exp64 (widenNat b) ≠ 2047 ∧ scaled64 (widenNat b) = scaled32 b := by
  obtain ⟨hd, hs, hE, hf⟩ := decomp32 b hb
  obtain ⟨e, m, hw, he, hm, hv⟩ := scaledMag_widenMag (exp32 b) (man32 b) (by omega) hf
  have hwn : widenNat b = sign32 b * 2 ^ 63 + (e * 2 ^ 52 + m) := by
    unfold widenNat; rw [hw]
  obtain ⟨h1, h2, h3⟩ := fields64 (sign32 b) e m hs (by omega) hm
  rw [hwn]
  refine ⟨by omega, ?_⟩
  unfold scaled64 scaled32
  rw [h1, h2, h3, hv]


/-! ## monotonicity of narrowing on magnitudes -/

theorem rne_small (a s : Nat) (ha : a < 2 ^ 53) (hs : 54 ≤ s) : rne a s = 0 := by
  have h54 : 2 ^ 54 ≤ 2 ^ s := Nat.pow_le_pow_right (by decide) hs
  have hlt : a < 2 ^ s := by omega
  unfold rne
  rw [Nat.div_eq_of_lt hlt, Nat.mod_eq_of_lt hlt]
  have h1 : ¬ (2 * a > 2 ^ s) := by omega
  have h2 : ¬ (2 * a = 2 ^ s ∧ 0 % 2 = 1) := by omega
  simp [h1]

theorem rne_two_pow (n s : Nat) (h : s ≤ n) : rne (2 ^ n) s = 2 ^ (n - s) := by
  have e : 2 ^ n = 2 ^ (n - s) * 2 ^ s := by rw [← Nat.pow_add]; congr 1; omega
  rw [e, rne_exact]

/-- Across two different underflow shifts. -/
theorem rne_cross (a b s1 s2 : Nat) (hs : s2 < s1) (ha : a < 2 ^ 53) (hb : 2 ^ 52 ≤ b) :
    rne a s1 ≤ rne b s2 := by
  rcases Nat.lt_or_ge s1 54 with h | h
  · have h1 : rne a s1 ≤ rne (2 ^ 53) s1 := rne_mono _ _ _ (by omega)
    have h2 : rne (2 ^ 52) s2 ≤ rne b s2 := rne_mono _ _ _ hb
    rw [rne_two_pow 53 s1 (by omega)] at h1
    rw [rne_two_pow 52 s2 (by omega)] at h2
    have h3 : 2 ^ (53 - s1) ≤ 2 ^ (52 - s2) := Nat.pow_le_pow_right (by decide) (by omega)
    omega
  · rw [rne_small a s1 ha h]; omega

/-- `narrowMag` is monotone in (exponent, fraction) ordered lexicographically,
up to and including ∞. -/
theorem narrowMag_mono (e1 m1 e2 m2 : Nat) (hm1 : m1 < 2 ^ 52) (hm2 : m2 < 2 ^ 52)
    (hle : e1 < e2 ∨ (e1 = e2 ∧ m1 ≤ m2))
    (hnn : e2 < 2047 ∨ (e2 = 2047 ∧ m2 = 0)) :
    narrowMag e1 m1 ≤ narrowMag e2 m2 := by
  rcases hnn with h2 | ⟨h2, hm0⟩
  · have h1 : e1 < 2047 := by omega
    by_cases z1 : e1 = 0
    · subst z1; rw [narrowMag_zero]; omega
    · by_cases c2 : 897 ≤ e2
      · rw [narrowMag_normal e2 m2 c2 h2]
        have b2 := rne29_bounds m2 hm2
        by_cases c1 : 897 ≤ e1
        · rw [narrowMag_normal e1 m1 c1 h1]
          have b1 := rne29_bounds m1 hm1
          rcases hle with hlt | ⟨heq, hm⟩
          · simp only [inf32]; omega
          · subst heq
            have := rne_mono (2 ^ 52 + m1) (2 ^ 52 + m2) 29 (by omega)
            simp only [inf32]; omega
        · rw [narrowMag_sub e1 m1 (by omega) (by omega)]
          have := rne_sub_le e1 m1 (by omega) hm1
          simp only [inf32]; omega
      · rw [narrowMag_sub e2 m2 (by omega) (by omega), narrowMag_sub e1 m1 (by omega) (by omega)]
        rcases hle with hlt | ⟨heq, hm⟩
        · exact rne_cross _ _ _ _ (by omega) (by omega) (by omega)
        · subst heq; exact rne_mono _ _ _ (by omega)
  · subst h2; subst hm0
    rw [narrowMag_inf]
    rcases hle with hlt | ⟨heq, hm⟩
    · exact narrowMag_finite_le e1 m1 hlt hm1
    · have : m1 = 0 := by omega
      subst this; subst heq; rw [narrowMag_inf]; omega

/-! ## the magnitude bits order like the values -/

theorem scaledMag64_lt (e1 m1 e2 m2 : Nat) (hm1 : m1 < 2 ^ 52) (hm2 : m2 < 2 ^ 52)
    (h : e1 < e2 ∨ (e1 = e2 ∧ m1 < m2)) : scaledMag64 e1 m1 < scaledMag64 e2 m2 := by
  unfold scaledMag64
  rcases h with hlt | ⟨heq, hm⟩
  · have h2 : ¬ e2 = 0 := by omega
    rw [if_neg h2]
    have hP2 : 0 < 2 ^ (e2 - 1) := Nat.two_pow_pos _
    have hB : 2 ^ 52 * 2 ^ (e2 - 1) ≤ (2 ^ 52 + m2) * 2 ^ (e2 - 1) := Nat.mul_le_mul_right _ (by omega)
    by_cases h1 : e1 = 0
    · rw [if_pos h1]
      generalize 2 ^ (e2 - 1) = P2 at *
      generalize (2 ^ 52 + m2) * P2 = B at *
      omega
    · rw [if_neg h1]
      have hP1 : 0 < 2 ^ (e1 - 1) := Nat.two_pow_pos _
      have hA : (2 ^ 52 + m1) * 2 ^ (e1 - 1) < 2 ^ 53 * 2 ^ (e1 - 1) :=
        Nat.mul_lt_mul_of_pos_right (by omega) hP1
      have hPP : 2 ^ (e1 - 1) * 2 ≤ 2 ^ (e2 - 1) := by
        rw [← Nat.pow_succ]; exact Nat.pow_le_pow_right (by decide) (by omega)
      generalize 2 ^ (e2 - 1) = P2 at *
      generalize 2 ^ (e1 - 1) = P1 at *
      generalize (2 ^ 52 + m2) * P2 = B at *
      generalize (2 ^ 52 + m1) * P1 = A at *
      omega
  · subst heq
    by_cases h1 : e1 = 0
    · rw [if_pos h1, if_pos h1]; exact hm
    · rw [if_neg h1, if_neg h1]
      exact Nat.mul_lt_mul_of_pos_right (by omega) (Nat.two_pow_pos _)

set_option exponentiation.threshold 1100 in
theorem scaledMag32_lt (E1 f1 E2 f2 : Nat) (hf1 : f1 < 2 ^ 23) (hf2 : f2 < 2 ^ 23)
    (h : E1 < E2 ∨ (E1 = E2 ∧ f1 < f2)) : scaledMag32 E1 f1 < scaledMag32 E2 f2 := by
  unfold scaledMag32
  rcases h with hlt | ⟨heq, hm⟩
  · have h2 : ¬ E2 = 0 := by omega
    rw [if_neg h2]
    have hB : 2 ^ 23 * 2 ^ (E2 + 924) ≤ (2 ^ 23 + f2) * 2 ^ (E2 + 924) := Nat.mul_le_mul_right _ (by omega)
    by_cases h1 : E1 = 0
    · rw [if_pos h1]
      have hP1 : 0 < 2 ^ 925 := Nat.two_pow_pos _
      have hA : f1 * 2 ^ 925 < 2 ^ 23 * 2 ^ 925 := Nat.mul_lt_mul_of_pos_right hf1 hP1
      have hPP : 2 ^ 925 ≤ 2 ^ (E2 + 924) := Nat.pow_le_pow_right (by decide) (by omega)
      generalize 2 ^ (E2 + 924) = P2 at *
      generalize 2 ^ 925 = P1 at *
      generalize (2 ^ 23 + f2) * P2 = B at *
      generalize f1 * P1 = A at *
      omega
    · rw [if_neg h1]
      have hP1 : 0 < 2 ^ (E1 + 924) := Nat.two_pow_pos _
      have hA : (2 ^ 23 + f1) * 2 ^ (E1 + 924) < 2 ^ 24 * 2 ^ (E1 + 924) :=
        Nat.mul_lt_mul_of_pos_right (by omega) hP1
      have hPP : 2 ^ (E1 + 924) * 2 ≤ 2 ^ (E2 + 924) := by
        rw [← Nat.pow_succ]; exact Nat.pow_le_pow_right (by decide) (by omega)
      generalize 2 ^ (E2 + 924) = P2 at *
      generalize 2 ^ (E1 + 924) = P1 at *
      generalize (2 ^ 23 + f2) * P2 = B at *
      generalize (2 ^ 23 + f1) * P1 = A at *
      omega
  · subst heq
    by_cases h1 : E1 = 0
    · rw [if_pos h1, if_pos h1]
      exact Nat.mul_lt_mul_of_pos_right hm (Nat.two_pow_pos _)
    · rw [if_neg h1, if_neg h1]
      exact Nat.mul_lt_mul_of_pos_right (by omega) (Nat.two_pow_pos _)

/-- Order of magnitudes (exponent and fraction as one number) = order of |value|. -/
theorem scaledMag64_le_iff (e1 m1 e2 m2 : Nat) (hm1 : m1 < 2 ^ 52) (hm2 : m2 < 2 ^ 52) :
    scaledMag64 e1 m1 ≤ scaledMag64 e2 m2 ↔ e1 * 2 ^ 52 + m1 ≤ e2 * 2 ^ 52 + m2 := by
  constructor
  · intro h
    apply Nat.le_of_not_lt
    intro hlt
    have := scaledMag64_lt e2 m2 e1 m1 hm2 hm1 (by omega)
    omega
  · intro h
    by_cases heq : e1 = e2 ∧ m1 = m2
    · rw [heq.1, heq.2]; exact Nat.le_refl _
    · exact Nat.le_of_lt (scaledMag64_lt e1 m1 e2 m2 hm1 hm2 (by omega))

theorem scaledMag32_le_iff (E1 f1 E2 f2 : Nat) (hf1 : f1 < 2 ^ 23) (hf2 : f2 < 2 ^ 23) :
    scaledMag32 E1 f1 ≤ scaledMag32 E2 f2 ↔ E1 * 2 ^ 23 + f1 ≤ E2 * 2 ^ 23 + f2 := by
  constructor
  · intro h
    apply Nat.le_of_not_lt
    intro hlt
    have := scaledMag32_lt E2 f2 E1 f1 hf2 hf1 (by omega)
    omega
  · intro h
    by_cases heq : E1 = E2 ∧ f1 = f2
    · rw [heq.1, heq.2]; exact Nat.le_refl _
    · exact Nat.le_of_lt (scaledMag32_lt E1 f1 E2 f2 hf1 hf2 (by omega))

theorem scaledMag64_zero_iff (e m : Nat) (hm : m < 2 ^ 52) : scaledMag64 e m = 0 ↔ e * 2 ^ 52 + m = 0 := by
  have h := scaledMag64_le_iff e m 0 0 hm (by omega)
  have z : scaledMag64 0 0 = 0 := by simp [scaledMag64]
  rw [z] at h
  omega

set_option exponentiation.threshold 1100 in
theorem scaledMag32_zero_iff (E f : Nat) (hf : f < 2 ^ 23) : scaledMag32 E f = 0 ↔ E * 2 ^ 23 + f = 0 := by
  have h := scaledMag32_le_iff E f 0 0 hf (by omega)
  have z : scaledMag32 0 0 = 0 := by unfold scaledMag32; rw [if_pos rfl]; try exact Nat.zero_mul _
  rw [z] at h
  omega

end CffiVerif.Ieee
