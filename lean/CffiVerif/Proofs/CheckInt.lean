import CffiVerif.Model.CheckInt
/-! Lemmas about the integer-constant protocol of API-mode modules (C12). -/
namespace CffiVerif.CheckInt
open CffiVerif.CheckIntOps CffiVerif.Generated

theorem ofInt0 : BitVec.ofInt 128 0 = 0#128 := by decide

/-- `(x) | 0` is `x` for every value a C integer expression can have. -/
theorem cOr_zero (x : Int) (h : InRange x) : cOr x 0 = x := by
  unfold cOr InRange two63 two64 at *
  rw [ofInt0]
  simp only [BitVec.or_zero, BitVec.toInt_ofInt]
  apply Int.bmod_eq_of_le_mul_two <;> omega

theorem cOr_two_zero : cOr 0 2 = 2 := by decide
theorem cOr_two_one : cOr 1 2 = 3 := by decide

/-- With a value given in the cdef the generated function reports "mismatch" (and
    `realize_global_int` raises) exactly when the compiler's value differs. -/
theorem realize_checked_error_iff (a e : Int) (ha : InRange a) (he : InRange e) :
    realizeGlobalInt (constBody a (some e)) = .error .ffiError ↔ a ≠ e := by
  unfold realizeGlobalInt constBody CheckIntSrc.const_mismatch CheckIntSrc.cffi_check_int
    CheckIntSrc.const_n CheckIntSrc.const_o CheckIntSrc.const_flag
  rw [cOr_zero a ha]
  unfold InRange two63 two64 at ha he
  simp only [cLe, cEq, cAnd, cNot, cULL, cBool, two64]
  by_cases h1 : a ≤ 0 <;> by_cases h2 : e ≤ 0 <;> by_cases h3 : a = e <;>
    by_cases h4 : a % 18446744073709551616 = e % 18446744073709551616 <;>
    simp [h1, h2, h3, h4, cOr_two_zero, cOr_two_one] <;> omega

/-- Without a check the two-word answer decodes to the compiler's value. -/
theorem realize_unchecked (a : Int) (ha : InRange a) :
    realizeGlobalInt (constBody a none) = .ok a := by
  unfold realizeGlobalInt constBody CheckIntSrc.const_n CheckIntSrc.const_o
  rw [cOr_zero a ha]
  unfold InRange two63 two64 at ha
  simp only [cLe, cULL, cLL, cBool, two64, two63]
  by_cases h1 : a ≤ 0
  · simp [h1]
    split <;> omega
  · simp [h1]
    omega

/-- When the check passes the value is the (common) value. -/
theorem realize_checked_agree (a : Int) (ha : InRange a) :
    realizeGlobalInt (constBody a (some a)) = .ok a := by
  unfold realizeGlobalInt constBody CheckIntSrc.const_mismatch CheckIntSrc.cffi_check_int
    CheckIntSrc.const_n CheckIntSrc.const_o CheckIntSrc.const_flag
  rw [cOr_zero a ha]
  unfold InRange two63 two64 at ha
  simp only [cLe, cEq, cAnd, cNot, cULL, cLL, cBool, two64, two63]
  by_cases h1 : a ≤ 0
  · simp [h1]
    split <;> omega
  · simp [h1]
    omega

end CffiVerif.CheckInt
