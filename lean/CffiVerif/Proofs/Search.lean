import CffiVerif.Model.Search

namespace CffiVerif.Search

theorem lexCmp_eq_iff (a b : CStr) : lexCmp a b = .eq ↔ a = b := by
  induction a generalizing b with
  | nil => cases b <;> simp [lexCmp]
  | cons x xs ih =>
    cases b with
    | nil => simp [lexCmp]
    | cons y ys =>
      simp only [lexCmp]
      split
      · rename_i h; simp; intro e; subst e; exact absurd h (UInt8.lt_irrefl _)
      · split
        · rename_i h; simp; intro e; subst e; exact absurd h (UInt8.lt_irrefl _)
        · rename_i h1 h2
          have : x = y := UInt8.le_antisymm (UInt8.not_lt.mp h2) (UInt8.not_lt.mp h1)
          subst this; simp [ih]

theorem lexCmp_lt_iff_gt (a b : CStr) : lexCmp a b = .lt ↔ lexCmp b a = .gt := by
  induction a generalizing b with
  | nil => cases b <;> simp [lexCmp]
  | cons x xs ih =>
    cases b with
    | nil => simp [lexCmp]
    | cons y ys =>
      simp only [lexCmp]
      by_cases h1 : x < y
      · have h2 : ¬ y < x := fun h => absurd (UInt8.lt_trans h1 h) (UInt8.lt_irrefl _)
        simp [h1, h2]
      · by_cases h2 : y < x
        · simp [h1, h2]
        · simp [h1, h2, ih]

theorem byteAt_cons (a : UInt8) (as : CStr) (n : Nat) : byteAt (a :: as) (n + 1) = byteAt as n := by
  simp [byteAt]

/-! What the regenerated expressions of `search_sorted` mean.  These lemmas are re-checked against the
C source on every run: a changed comparison, midpoint or interval update makes one of them fail. -/
open Generated.SearchSorted in
theorem gen_loopCond (l r : Nat) : loopCond l r = true ↔ l < r := by simp [loopCond]
open Generated.SearchSorted in
theorem gen_middleOf (l r : Nat) : middleOf l r = (l + r) / 2 := by simp [middleOf]
open Generated.SearchSorted in
theorem gen_foundCond (d b : Int) : foundCond d b = true ↔ d = 0 ∧ b = 0 := by simp [foundCond]
open Generated.SearchSorted in
theorem gen_goLeftCond (d : Int) : goLeftCond d = true ↔ d ≥ 0 := by simp [goLeftCond]
open Generated.SearchSorted in
theorem gen_newRight (m : Nat) : newRight m = m := by simp [newRight]
open Generated.SearchSorted in
theorem gen_newLeft (m : Nat) : newLeft m = m + 1 := by simp [newLeft]

/-- The test sequence of the C loop is exactly a three-way byte-lexicographic
comparison, for NUL-free strings. -/
theorem cmp_spec (src s : CStr) (hsrc : NoNul src) (hs : NoNul s) :
    ((strncmp src s = 0 ∧ byteAt src s.length = 0) ↔ lexCmp src s = .eq) ∧
    (lexCmp src s = .gt → strncmp src s ≥ 0) ∧
    (lexCmp src s = .lt → strncmp src s < 0) := by
  induction src generalizing s with
  | nil =>
    cases s with
    | nil => simp [strncmp, byteAt, lexCmp]
    | cons c cs =>
      have hc : c ≠ 0 := hs c (by simp)
      have : c.toNat ≠ 0 := fun h => hc (UInt8.toNat_inj.mp (by simpa using h))
      simp [strncmp, lexCmp]
      omega
  | cons a as ih =>
    have ha : a ≠ 0 := hsrc a (by simp)
    have hsrc' : NoNul as := fun b hb => hsrc b (by simp [hb])
    cases s with
    | nil =>
      have : a.toNat ≠ 0 := fun h => ha (UInt8.toNat_inj.mp (by simpa using h))
      simp [strncmp, byteAt, lexCmp]
      omega
    | cons c cs =>
      have hs' : NoNul cs := fun b hb => hs b (by simp [hb])
      by_cases hac : a = c
      · subst hac
        have := ih cs hsrc' hs'
        simp [strncmp, lexCmp, ha, byteAt_cons, UInt8.lt_irrefl]
        simpa using this
      · have hne : a.toNat ≠ c.toNat := fun h => hac (UInt8.toNat_inj.mp h)
        simp only [strncmp, lexCmp, hac, if_false, List.length_cons]
        by_cases hlt : a < c
        · have : a.toNat < c.toNat := UInt8.lt_iff_toNat_lt.mp hlt
          simp [hlt]
          constructor
          · intro h; omega
          · omega
        · have hge : c.toNat ≤ a.toNat := by
            have := UInt8.not_lt.mp hlt
            exact UInt8.le_iff_toNat_le.mp this
          have hgt : c < a := UInt8.lt_iff_toNat_lt.mpr (by omega)
          simp [hlt, hgt]
          constructor
          · intro h; omega
          · omega

end CffiVerif.Search
