import CffiVerif.Model.CName

/-!
Lemmas about the backend's name printer (`Model/CName.lean`): the name of a
type is `hd T ++ tl T` with the name position at the seam.
-/
namespace CffiVerif.CName

/-- `"(*"` on top of an array, `" *"` otherwise. -/
def ptrHead (t : Ty) : Str := if t.isArr then "(*".toList else " *".toList
def ptrTail (t : Ty) : Str := if t.isArr then ")".toList else []

def argText (args : List Str) (ell : Bool) : Str :=
  joinArgs args ++ (if ell then (if args.isEmpty then [] else ", ".toList) ++ "...".toList else [])

mutual
/-- Text before the name position. -/
def hd : Ty → Str
  | .prim n => n
  | .agg k tag => aggName k tag
  | .ptr (.func _ res _) => hd res ++ "(*".toList
  | .ptr t => hd t ++ ptrHead t
  | .arr t _ => hd t
  | .func _ res _ => hd res ++ "(*".toList

/-- Text after the name position. -/
def tl : Ty → Str
  | .prim _ => []
  | .agg _ _ => []
  | .ptr (.func args res ell) => ')' :: '(' :: (argText (cnames args) ell ++ (')' :: tl res))
  | .ptr t => ptrTail t ++ tl t
  | .arr t len => lenText len ++ tl t
  | .func args res ell => ')' :: '(' :: (argText (cnames args) ell ++ (')' :: tl res))
end

theorem take_append_len {α} (a b : List α) : (a ++ b).take a.length = a := by simp
theorem drop_append_len {α} (a b : List α) : (a ++ b).drop a.length = b := by simp

theorem onTop_ht (h t extra : Str) (k : Nat) :
    onTop (h ++ t, h.length) extra k = (h ++ extra ++ t, h.length + k) := by
  simp [onTop]

theorem funcName_ht (args : List Str) (h t : Str) (ell : Bool) :
    funcName args (h ++ t, h.length) ell =
      ((h ++ "(*".toList) ++ (')' :: '(' :: (argText args ell ++ (')' :: t))), (h ++ "(*".toList).length) := by
  simp [funcName, argText]

/-- The name is head ++ tail and the position is the length of the head. -/
theorem cname_eq : ∀ T : Ty, cname T = (hd T ++ tl T, (hd T).length)
  | .prim n => by simp [cname, hd, tl]
  | .agg k tag => by simp [cname, hd, tl]
  | .ptr (.func args res ell) => by
      rw [cname, cname_eq res, funcName_ht]; simp [hd, tl]
  | .ptr (.prim n) => by
      have h := cname_eq (.prim n)
      simp only [cname] at h ⊢
      rw [h, onTop_ht]; simp [hd, tl, ptrHead, ptrTail, Ty.isArr]
  | .ptr (.agg k tag) => by
      have h := cname_eq (.agg k tag)
      simp only [cname] at h ⊢
      rw [h, onTop_ht]; simp [hd, tl, ptrHead, ptrTail, Ty.isArr]
  | .ptr (.ptr t) => by
      have h := cname_eq (.ptr t)
      rw [cname.eq_4 _ (by intro a r e h; cases h), h, onTop_ht]; simp [hd, tl, ptrHead, ptrTail, Ty.isArr]
  | .ptr (.arr t n) => by
      have h := cname_eq (.arr t n)
      rw [cname.eq_4 _ (by intro a r e h; cases h), h, onTop_ht]; simp [hd, tl, ptrHead, ptrTail, Ty.isArr]
  | .arr t len => by
      rw [cname, cname_eq t, onTop_ht]; simp [hd, tl]
  | .func args res ell => by
      rw [cname, cname_eq res, funcName_ht]; simp [hd, tl]

theorem getcname_eq (T : Ty) (x : Str) : getcname (cname T) x = hd T ++ x ++ tl T := by
  rw [cname_eq]; simp [getcname]

/-- The tail starts with `[` exactly for array types. -/
theorem tl_bracket : ∀ T : Ty, (tl T).head? = some '[' ↔ T.isArr = true
  | .prim n => by simp [tl, Ty.isArr]
  | .agg k tag => by simp [tl, Ty.isArr]
  | .ptr (.func args res ell) => by simp [tl, Ty.isArr]
  | .ptr (.prim n) => by simp [tl, Ty.isArr, ptrTail]
  | .ptr (.agg k tag) => by simp [tl, Ty.isArr, ptrTail]
  | .ptr (.ptr t) => by
      have := tl_bracket (.ptr t)
      simp [Ty.isArr] at this
      simp [tl, Ty.isArr, ptrTail] at *
      exact this
  | .ptr (.arr t n) => by simp [tl, Ty.isArr, ptrTail]
  | .arr t none => by simp [tl, Ty.isArr, lenText]
  | .arr t (some n) => by simp [tl, Ty.isArr, lenText]
  | .func args res ell => by simp [tl, Ty.isArr]

/-! ### `'&[' in name` -/

theorem hasAmp_cons_ne (c : Char) (rest : Str) (h : c ≠ '&') :
    hasAmpBracket (c :: rest) = hasAmpBracket rest := by
  cases rest with
  | nil => simp [hasAmpBracket]
  | cons d rest' =>
    by_cases hd' : d = '['
    · subst hd'; rw [hasAmpBracket.eq_2]; intro _ hc _; exact h hc
    · rw [hasAmpBracket.eq_2]; intro _ hc _; exact h hc

theorem hasAmp_append_noamp (a b : Str) (h : '&' ∉ a) :
    hasAmpBracket (a ++ b) = hasAmpBracket b := by
  induction a with
  | nil => rfl
  | cons c a ih =>
    have hc : c ≠ '&' := by intro e; apply h; simp [e]
    have ha : '&' ∉ a := by intro e; apply h; simp [e]
    rw [List.cons_append, hasAmp_cons_ne c _ hc, ih ha]

theorem hasAmp_noamp (t : Str) (h : '&' ∉ t) : hasAmpBracket t = false := by
  have := hasAmp_append_noamp t [] h
  simpa [hasAmpBracket] using this

theorem hasAmp_amp (t : Str) (h : '&' ∉ t) :
    hasAmpBracket ('&' :: t) = decide (t.head? = some '[') := by
  cases t with
  | nil => simp [hasAmpBracket]
  | cons d rest =>
    by_cases hd' : d = '['
    · subst hd'; simp [hasAmpBracket]
    · have hr : '&' ∉ (d :: rest) := h
      have : hasAmpBracket ('&' :: d :: rest) = hasAmpBracket (d :: rest) := by
        rw [hasAmpBracket.eq_2]; intro _ _ hh; cases hh; exact hd' rfl
      rw [this, hasAmp_noamp _ hr]; simp [hd']

/-- Python's test `'&[' in getcname(T, '&')` is the C test `ct_flags & CT_ARRAY`
for every type whose name has no `&` in it. -/
theorem ampBracket_iff_isArr (T : Ty) (h : '&' ∉ (cname T).1) :
    hasAmpBracket (getcname (cname T) ['&']) = T.isArr := by
  rw [getcname_eq]
  rw [cname_eq] at h
  simp only [List.mem_append, not_or] at h
  rw [List.append_assoc, hasAmp_append_noamp _ _ h.1]
  simp only [List.singleton_append]
  rw [hasAmp_amp _ h.2]
  have := tl_bracket T
  cases hT : T.isArr <;> simp [hT] at this ⊢ <;> exact this

end CffiVerif.CName
