import CffiVerif.Model.Primitives

/-!
Helper definitions and lemmas for the C06 theorems (Props/C06.lean).
-/
namespace CffiVerif.Primitives
open CffiVerif.Generated.Primitives
open CffiVerif.Generated

/-- The string ends in `_t` (the names `search_standard_typename` is responsible for). -/
def endsT (s : List Char) : Bool := s.reverse.take 2 == ['t', '_']

/-- gcc's `__builtin_classify_type` class for a cffi kind letter: char and integer
types are integer class (1), float is real (8), complex is complex (9). -/
def gccClassOfKind (k : Char) : Option Nat :=
  if k = 'c' ∨ k = 'i' then some 1 else if k = 'f' then some 8 else if k = 'j' then some 9 else none

/-- The string an arm of `search_standard_typename` is meant to recognise. -/
def armName (a : Arm) : List Char := a.lit.toList ++ ['_', 't']

/-- Shape of a sound arm: `size == |lit| + 2`, the `memcmp` covers the whole
literal, the enclosing `case` labels and `size >=` guard hold of its own name, and
its result macro is defined. -/
def armWF (a : Arm) : Bool :=
  decide (a.size = a.lit.length + 2) && decide (a.cmpLen = a.lit.length) &&
  decide (a.minSize ≤ a.size) && decide (stdMinSize ≤ a.size) &&
  a.disc.all (fun pc => (armName a)[pc.1]? == some pc.2) && (cPrim a.result).isSome

theorem eq_append_of_parts (s lit : List Char) (c1 c2 : Char)
    (hlen : s.length = lit.length + 2) (htake : s.take lit.length = lit)
    (h1 : s[s.length - 2]? = some c1) (h2 : s[s.length - 1]? = some c2) :
    s = lit ++ [c1, c2] := by
  have hs : s = lit ++ s.drop lit.length := by
    conv => lhs; rw [← List.take_append_drop lit.length s]
    rw [htake]
  generalize hr : s.drop lit.length = rest at hs
  subst hs
  have hrl : rest.length = 2 := by simp at hlen; omega
  match rest, hrl with
  | [a, b], _ =>
    have e1 : (lit ++ [a, b]).length - 2 = lit.length := by simp
    have e2 : (lit ++ [a, b]).length - 1 = lit.length + 1 := by simp
    rw [e1] at h1; rw [e2] at h2
    simp at h1 h2
    subst h1; subst h2; rfl

theorem assoc_some_mem {α : Type} (tbl : List (String × α)) (k : String) (v : α)
    (h : assoc tbl k = some v) : (k, v) ∈ tbl := by
  induction tbl with
  | nil => simp [assoc] at h
  | cons p rest ih =>
    obtain ⟨k', v'⟩ := p
    unfold assoc at h
    by_cases hk : k' = k
    · simp only [hk, if_true] at h
      cases h; subst hk; simp
    · simp only [hk, if_false] at h
      exact List.mem_cons_of_mem _ (ih h)

end CffiVerif.Primitives
