import CffiVerif.Proofs.Call
import CffiVerif.Generated.IntMacros

/-! `BitVec.ofInt` round trips used to tie `Model/Call` to the regenerated macro
conditions of `Generated/IntMacros` (extracted from `_cffi_backend.c` on every run). -/
namespace CffiVerif.Call

theorem toInt_ofInt_range (v : Int) (h : -two63 ≤ v ∧ v < two63) : (BitVec.ofInt 64 v).toInt = v := by
  rw [BitVec.toInt_ofInt]
  simp only [two63] at h
  unfold Int.bmod
  simp only [Nat.reducePow]
  omega

theorem toNat_ofInt_range (v : Int) (h : 0 ≤ v ∧ v < two64) : ((BitVec.ofInt 64 v).toNat : Int) = v := by
  rw [BitVec.toNat_ofInt]
  simp only [two64] at h
  simp only [Nat.reducePow]
  omega

end CffiVerif.Call
