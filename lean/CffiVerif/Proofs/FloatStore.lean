import CffiVerif.Model.FloatStore
import CffiVerif.Proofs.Ieee

/-! Helper lemmas about `Model/FloatStore.lean` (used by `Props/C05.lean`). -/
namespace CffiVerif.FloatStore
open CffiVerif.Ieee CffiVerif.Generated

theorem toLE_length (n x : Nat) : (toLE n x).length = n := by
  induction n generalizing x with
  | zero => rfl
  | succ n ih => simp [toLE, ih]

theorem ofLE_toLE (n x : Nat) : ofLE (toLE n x) = x % 256 ^ n := by
  induction n generalizing x with
  | zero => simp [toLE, ofLE, Nat.mod_one]
  | succ n ih =>
    simp only [toLE, ofLE, ih]
    have h : (UInt8.ofNat (x % 256)).toNat = x % 256 := by
      simp [UInt8.toNat_ofNat']
    rw [h, Nat.pow_succ, Nat.mul_comm (256 ^ n) 256, Nat.mod_mul]

theorem toLE_ofLE (bs : Bytes) : toLE bs.length (ofLE bs) = bs := by
  induction bs with
  | nil => rfl
  | cons b bs ih =>
    simp only [List.length_cons, toLE, ofLE]
    have hb : b.toNat < 256 := b.toNat_lt
    have h1 : (b.toNat + 256 * ofLE bs) % 256 = b.toNat := by omega
    have h2 : (b.toNat + 256 * ofLE bs) / 256 = ofLE bs := by omega
    rw [h1, h2, ih]
    simp

theorem ofLE_lt (bs : Bytes) : ofLE bs < 256 ^ bs.length := by
  induction bs with
  | nil => simp [ofLE]
  | cons b bs ih =>
    simp only [List.length_cons, ofLE, Nat.pow_succ]
    have hb : b.toNat < 256 := b.toNat_lt
    omega

/-! buffers -/

theorem take_app {α} (a b : List α) (n : Nat) (h : a.length = n) : (a ++ b).take n = a :=
  List.take_left' h

theorem drop_app {α} (a b : List α) (n k : Nat) (h : a.length = n) : (a ++ b).drop (n + k) = b.drop k := by
  subst h; exact List.drop_length_add_append k

theorem slice_mid (A r rest : Bytes) (n k : Nat) (hn : A.length = n) (hk : r.length = k) :
    slice (A ++ r ++ rest) n k = some r := by
  have hlen : n + k ≤ (A ++ r ++ rest).length := by
    simp only [List.length_append]; omega
  unfold slice
  rw [if_pos hlen, List.append_assoc]
  have := drop_app A (r ++ rest) n 0 hn
  rw [Nat.add_zero, List.drop_zero] at this
  rw [this, take_app r rest k hk]

theorem blit_blit (buf : Bytes) (off : Nat) (r i : Bytes) (hfit : off + r.length + i.length ≤ buf.length) :
    (blit buf off r).bind (fun b => blit b (off + r.length) i)
      = some (buf.take off ++ r ++ i ++ buf.drop (off + r.length + i.length)) := by
  have htake : (buf.take off).length = off := by rw [List.length_take]; omega
  have h1 : off + r.length ≤ buf.length := by omega
  have hAr : (buf.take off ++ r).length = off + r.length := by rw [List.length_append, htake]
  have hl : (buf.take off ++ r ++ buf.drop (off + r.length)).length = buf.length := by
    rw [List.length_append, hAr, List.length_drop]; omega
  unfold blit
  rw [if_pos h1]
  simp only [Option.bind]
  rw [if_pos (by rw [hl]; omega)]
  congr 1
  rw [take_app _ _ _ hAr, drop_app _ _ _ _ hAr, List.drop_drop]

/-! UInt wrappers of the spec -/

theorem narrow_toNat (d : UInt64) : (narrow d).toNat = narrowNat d.toNat := by
  obtain ⟨hd, hs, he, hm⟩ := decomp64 d.toNat d.toNat_lt
  have hlt := narrowMag_lt (exp64 d.toNat) (man64 d.toNat) he hm
  unfold narrow
  rw [UInt32.toNat_ofNat']
  unfold narrowNat
  omega

theorem widen_toNat (b : UInt32) : (widen b).toNat = widenNat b.toNat := by
  obtain ⟨hd, hs, hE, hf⟩ := decomp32 b.toNat b.toNat_lt
  have hlt := widenMag_lt (exp32 b.toNat) (man32 b.toNat) hE hf
  unfold widen
  rw [UInt64.toNat_ofNat']
  unfold widenNat
  omega

/-! ## meaning of the generated dispatch (`Generated/FloatExprs.lean`)

What `translate/c05_exprs.py` extracts from the C source must amount to this for
the theorems of `Props/C05.lean` to hold. -/

/-- `write_raw_float_data`: size 4 stores `(float)source`, size 8 the double
itself, anything else is the fatal error. -/
theorem writeRawFloat_eq (source : UInt64) (size : Nat) :
    writeRawFloat source size =
      if size = 4 then .ok (toLE 4 (narrow source).toNat)
      else if size = 8 then .ok (toLE 8 source.toNat)
      else .error .fatalBadSize := by
  simp only [writeRawFloat, FloatExprs.writeFloatCases, FloatExprs.writeFloatSourceType, writeCases,
    FloatExprs.writeMacroTest, FloatExprs.writeMacroCopyLen, FloatExprs.CFloatType.sizeof,
    FloatExprs.sizeofFloat, FloatExprs.sizeofDouble, cconv, UInt64.ofNat_toNat, beq_iff_eq]

/-- `read_raw_float_data`: a 4-byte object is widened, an 8-byte object is the
double itself. -/
theorem readRawFloat_eq (target : Bytes) (size : Nat) :
    readRawFloat target size =
      if size = 4 ∧ target.length = 4 then .ok (widen (UInt32.ofNat (ofLE target)))
      else if size = 8 ∧ target.length = 8 then .ok (UInt64.ofNat (ofLE target))
      else .error .fatalBadSize := by
  simp only [readRawFloat, FloatExprs.readFloatCases, FloatExprs.readFloatReturnType, readCases,
    FloatExprs.readMacroTest, FloatExprs.readMacroCopyLen, FloatExprs.CFloatType.sizeof,
    FloatExprs.sizeofFloat, FloatExprs.sizeofDouble, cconv, beq_iff_eq]
  split
  · simp [Except.map, UInt64.ofNat_toNat]
  · split <;> simp [Except.map]

theorem readRawFloat_toLE4 (X : Nat) :
    readRawFloat (toLE 4 X) (8 / 2) = .ok (widen (UInt32.ofNat (ofLE (toLE 4 X)))) := by
  rw [readRawFloat_eq, toLE_length]; rfl

theorem readRawFloat_toLE8 (X : Nat) :
    readRawFloat (toLE 8 X) (16 / 2) = .ok (UInt64.ofNat (ofLE (toLE 8 X))) := by
  rw [readRawFloat_eq, toLE_length]; rfl

theorem ldSize_eq : ldSize = 16 := rfl
theorem ldWriteSize_eq : FloatExprs.ldWriteSize = 16 := rfl

/-- `write_raw_complex_data`, `float _Complex`: `(float)real` at `target`,
`(float)imag` at `target + 4`. -/
theorem writeRawComplex_eq8 (buf : Bytes) (off : Nat) (re im : UInt64) :
    writeRawComplex buf off re im 8 =
      .ok ((blit buf off (toLE 4 (narrow re).toNat)).bind fun b => blit b (off + 4) (toLE 4 (narrow im).toNat)) := by
  simp only [writeRawComplex, FloatExprs.cplxWriteCases, writeComplexCases, FloatExprs.cplxWriteTest,
    FloatExprs.CFloatType.sizeof, FloatExprs.sizeofFloat, FloatExprs.cplxWriteHalves, writeHalves, cconv, pickPart,
    UInt64.ofNat_toNat, Nat.add_zero, Nat.zero_add]
  cases h1 : blit buf off (toLE 4 (narrow re).toNat) with
  | none => simp
  | some b =>
    cases h2 : blit b (off + 4) (toLE 4 (narrow im).toNat) <;> simp [h2]

/-- `double _Complex`: the two doubles at `target` and `target + 8`. -/
theorem writeRawComplex_eq16 (buf : Bytes) (off : Nat) (re im : UInt64) :
    writeRawComplex buf off re im 16 =
      .ok ((blit buf off (toLE 8 re.toNat)).bind fun b => blit b (off + 8) (toLE 8 im.toNat)) := by
  simp only [writeRawComplex, FloatExprs.cplxWriteCases, writeComplexCases, FloatExprs.cplxWriteTest,
    FloatExprs.CFloatType.sizeof, FloatExprs.sizeofFloat, FloatExprs.sizeofDouble, FloatExprs.cplxWriteHalves,
    writeHalves, cconv, pickPart, Nat.add_zero, Nat.zero_add]
  cases h1 : blit buf off (toLE 8 re.toNat) with
  | none => simp
  | some b =>
    cases h2 : blit b (off + 8) (toLE 8 im.toNat) <;> simp [h2]

theorem writeRawComplex_bad (buf : Bytes) (off : Nat) (re im : UInt64) (size : Nat) (h8 : size ≠ 8) (h16 : size ≠ 16) :
    writeRawComplex buf off re im size = .error .fatalBadSize := by
  simp [writeRawComplex, FloatExprs.cplxWriteCases, writeComplexCases, FloatExprs.cplxWriteTest,
    FloatExprs.CFloatType.sizeof, FloatExprs.sizeofFloat, FloatExprs.sizeofDouble, h8, h16]

/-- `read_raw_complex_data`, `float _Complex`: the floats at `target`, `target + 4`, each widened. -/
theorem readRawComplex_eq8 (buf : Bytes) (off : Nat) (r i : Bytes)
    (hr : slice buf off 4 = some r) (hi : slice buf (off + 4) 4 = some i) :
    readRawComplex buf off 8 = .ok (some (widen (UInt32.ofNat (ofLE r)), widen (UInt32.ofNat (ofLE i)))) := by
  simp [readRawComplex, FloatExprs.cplxReadFloatTest, FloatExprs.sizeofFloat, FloatExprs.cplxReadFloatHalves,
    readFloatHalves, hr, hi, cconv, setPart, UInt64.ofNat_toNat]

/-- `double _Complex`: one copy of 16 bytes, real part first. -/
theorem readRawComplex_eq16 (buf : Bytes) (off : Nat) (bs : Bytes) (hs : slice buf off 16 = some bs) :
    readRawComplex buf off 16 =
      .ok (some (UInt64.ofNat (ofLE (bs.take 8)), UInt64.ofNat (ofLE (bs.drop 8)))) := by
  simp [readRawComplex, FloatExprs.cplxReadFloatTest, FloatExprs.cplxReadDoubleTest, FloatExprs.sizeofFloat,
    FloatExprs.sizeofDouble, FloatExprs.cplxReadDoubleCopyLen, hs]

theorem readRawComplex_bad (buf : Bytes) (off size : Nat) (h8 : size ≠ 8) (h16 : size ≠ 16) :
    readRawComplex buf off size = .error .fatalBadSize := by
  simp [readRawComplex, FloatExprs.cplxReadFloatTest, FloatExprs.cplxReadDoubleTest, FloatExprs.sizeofFloat,
    FloatExprs.sizeofDouble, h8, h16]

/-- The `CT_IS_LONGDOUBLE` tests: a value takes the copy path exactly when both
the target type and the (cdata) source are `long double`; everything else of a
non-`long double` target goes through `write_raw_float_data`. -/
def hasLD (flags : Nat) : Bool := flags &&& FloatExprs.CT_IS_LONGDOUBLE != 0

theorem ld_tests_meaning (ct : Nat) (c : Bool) (f : Nat) :
    FloatExprs.toObjectViaDouble ct = (!hasLD ct) ∧
    FloatExprs.fromObjectCopiesLongDouble ct c f = (hasLD ct && c && hasLD f) ∧
    FloatExprs.fromObjectViaFloatStore ct = (!hasLD ct) ∧
    FloatExprs.castCopiesLongDouble ct c f = (hasLD ct && c && hasLD f) ∧
    FloatExprs.castViaFloatStore ct = (!hasLD ct) := by
  refine ⟨rfl, rfl, rfl, rfl, rfl⟩

set_option exponentiation.threshold 1100 in
/-- The double made from a character ordinal (any integer below 2^53) is that integer. -/
theorem natToDouble_exact (n : Nat) (hn : n < 2 ^ 53) :
    natToDouble n < 2 ^ 63 ∧ exp64 (natToDouble n) ≠ 2047 ∧
    scaledMag64 (exp64 (natToDouble n)) (man64 (natToDouble n)) = n * 2 ^ 1074 := by
  by_cases hn0 : n = 0
  · subst hn0
    simp [natToDouble, exp64, man64, scaledMag64]
  · obtain ⟨hk, hlo, hhi⟩ := norm53 n hn0 hn
    have hv : natToDouble n = (1023 + Nat.log2 n) * 2 ^ 52 + (n * 2 ^ (52 - Nat.log2 n) - 2 ^ 52) := by
      unfold natToDouble
      rw [if_neg hn0]
      simp only []
      rw [if_pos hk]
      omega
    obtain ⟨f1, f2, f3⟩ := fields64 0 (1023 + Nat.log2 n) (n * 2 ^ (52 - Nat.log2 n) - 2 ^ 52)
      (by omega) (by omega) (by omega)
    rw [Nat.zero_mul, Nat.zero_add] at f1 f2 f3
    rw [hv, f2, f3]
    refine ⟨by omega, by omega, ?_⟩
    unfold scaledMag64
    rw [if_neg (by omega)]
    have e1 : 2 ^ 52 + (n * 2 ^ (52 - Nat.log2 n) - 2 ^ 52) = n * 2 ^ (52 - Nat.log2 n) := by omega
    have e2 : 1074 = (52 - Nat.log2 n) + (1023 + Nat.log2 n - 1) := by omega
    rw [e1, Nat.mul_assoc, ← Nat.pow_add, ← e2]

end CffiVerif.FloatStore
