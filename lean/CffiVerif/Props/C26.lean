import CffiVerif.Model.InitOnce

/-!
C26 — `ffi.init_once` runs the initializer once under any interleaving.

The inductive invariant of DESIGN.md Appendix A (I1–I6 plus the auxiliary facts
that make it inductive) is proved preserved by every step of every thread, hence
holds in every reachable state, for any number of threads and any outcomes of
`f`.  The clauses of the property are corollaries.
-/
namespace CffiVerif.C26
open CffiVerif.InitOnce

@[simp] theorem setPc_self (s : State) (t : Tid) (p : Pc) : (s.setPc t p).pc t = p := by simp [State.setPc]
theorem setPc_other (s : State) (t u : Tid) (p : Pc) (h : u ≠ t) : (s.setPc t p).pc u = s.pc u := by simp [State.setPc, h]
theorem setPc_pc (s : State) (t u : Tid) (p : Pc) : (s.setPc t p).pc u = if u = t then p else s.pc u := rfl
@[simp] theorem setPc_cache (s : State) (t : Tid) (p : Pc) : (s.setPc t p).cache = s.cache := rfl
@[simp] theorem setPc_owner (s : State) (t : Tid) (p : Pc) : (s.setPc t p).owner = s.owner := rfl
@[simp] theorem setPc_succ (s : State) (t : Tid) (p : Pc) : (s.setPc t p).succ = s.succ := rfl

/-- The inductive invariant of Appendix A (`I1`–`I6`) together with the auxiliary
facts that make it inductive (`cache_some`, `fDone_succ`, `stored_done`, `got_done`). -/
structure Inv (s : State) : Prop where
  /-- I1: the lock is owned by `t` exactly while `t` is between acquire and release. -/
  I1 : ∀ t, s.owner = some t ↔ locked (s.pc t) = true
  /-- while the cache has no entry nobody is past `setdefault` (so the `KeyError` arm of step 5 is dead). -/
  cache_some : s.cache = none → ∀ t, s.pc t = .start ∨ s.pc t = .readNone
  /-- I2: a cached result is the result of the one normal completion (stability: `done_stable`). -/
  I2 : ∀ r, s.cache = some (.done r) → ∃ t, s.succ = [(t, r)]
  /-- I3: while a call is inside `f` the cache says `pending` (and nothing has completed yet). -/
  I3 : ∀ t, s.pc t = .inF → s.cache = some .pending ∧ s.succ = []
  /-- I3 for `fDone`: still `pending`, and the completion recorded is this call's. -/
  fDone_succ : ∀ t v, s.pc t = .fDone v → s.cache = some .pending ∧ s.succ = [(t, v)]
  stored_done : ∀ t v, s.pc t = .stored v → s.cache = some (.done v)
  /-- I4: at most one normal completion; if there is one it is cached or about to be. -/
  I4 : s.succ.length ≤ 1 ∧ (s.succ ≠ [] → (∃ r, s.cache = some (.done r)) ∨ ∃ t v, s.pc t = .fDone v)
  /-- I5: a call that returned `r` returned the cached result. -/
  I5 : ∀ t r, s.pc t = .returned r → s.cache = some (.done r)
  got_done : ∀ t r, s.pc t = .got (.done r) → s.cache = some (.done r)
  /-- I6: a call whose `f` raised is not among the normal completions. -/
  I6 : ∀ t, s.pc t = .raised → ∀ v, (t, v) ∉ s.succ

macro "inv_finish" : tactic =>
  `(tactic| (constructor <;> simp only [setPc_cache, setPc_owner, setPc_succ, setPc_pc] <;> grind [locked]))

theorem inv_next {s s' : State} {t : Tid} {ch : Choice} (h : Inv s) (hn : next s t ch = some s') : Inv s' := by
  obtain ⟨i1, i0, i2, i3, i3b, i3c, i4, i5, i5b, i6⟩ := h
  unfold next at hn
  cases hp : s.pc t with
  | start =>
    simp only [hp] at hn
    cases hc : s.cache with
    | none =>
      simp only [hc] at hn
      injection hn with hn; subst hn
      inv_finish
    | some e =>
      simp only [hc] at hn
      injection hn with hn; subst hn
      inv_finish
  | readNone =>
    simp only [hp] at hn
    cases hc : s.cache with
    | none =>
      simp only [hc] at hn
      injection hn with hn; subst hn
      inv_finish
    | some e =>
      simp only [hc] at hn
      injection hn with hn; subst hn
      inv_finish
  | got e =>
    simp only [hp] at hn
    cases e with
    | pending =>
      injection hn with hn; subst hn
      inv_finish
    | done r =>
      injection hn with hn; subst hn
      inv_finish
  | waiting =>
    simp only [hp] at hn
    cases ho : s.owner with
    | none =>
      simp only [ho] at hn
      injection hn with hn; subst hn
      inv_finish
    | some o => simp [ho] at hn
  | holding =>
    simp only [hp] at hn
    cases hc : s.cache with
    | none => simp [hc] at hn
    | some e =>
      cases e with
      | pending =>
        simp only [hc] at hn
        injection hn with hn; subst hn
        inv_finish
      | done r =>
        simp only [hc] at hn
        injection hn with hn; subst hn
        inv_finish
  | inF =>
    simp only [hp] at hn
    cases ch with
    | ret v =>
      injection hn with hn; subst hn
      inv_finish
    | raise =>
      injection hn with hn; subst hn
      inv_finish
  | fDone v =>
    simp only [hp] at hn
    injection hn with hn; subst hn
    inv_finish
  | stored v =>
    simp only [hp] at hn
    injection hn with hn; subst hn
    inv_finish
  | returned r => simp [hp] at hn
  | raised => simp [hp] at hn

theorem inv_init : Inv init := by
  constructor <;> simp [init, locked]

/-- The invariant holds in every reachable state (any number of threads, any interleaving, any outcomes of `f`). -/
theorem reachable_inv {s : State} (hr : Reachable s) : Inv s := by
  induction hr with
  | init => exact inv_init
  | step t ch _ hn ih => exact inv_next ih hn

/-- **Mutual exclusion**: at most one call is between acquire and release — in
particular at most one `f` runs at a time. -/
theorem mutex {s : State} (hr : Reachable s) (t u : Tid)
    (ht : locked (s.pc t) = true) (hu : locked (s.pc u) = true) : t = u := by
  have h := reachable_inv hr
  have a := (h.I1 t).mpr ht
  have b := (h.I1 u).mpr hu
  rw [a] at b
  injection b

theorem mutex_inF {s : State} (hr : Reachable s) (t u : Tid)
    (ht : s.pc t = .inF) (hu : s.pc u = .inF) : t = u :=
  mutex hr t u (by simp [ht, locked]) (by simp [hu, locked])

/-- **At most one `f` completes normally.** -/
theorem at_most_one_success {s : State} (hr : Reachable s) : s.succ.length ≤ 1 :=
  (reachable_inv hr).I4.1

/-- **Every call that returns normally returns the result of that one completion.** -/
theorem returned_value_is_the_success {s : State} (hr : Reachable s) (t : Tid) (r : Val)
    (h : s.pc t = .returned r) : ∃ u, s.succ = [(u, r)] :=
  (reachable_inv hr).I2 r ((reachable_inv hr).I5 t r h)

/-- Two calls that both returned normally returned the same value. -/
theorem returned_values_agree {s : State} (hr : Reachable s) (t u : Tid) (r r' : Val)
    (ht : s.pc t = .returned r) (hu : s.pc u = .returned r') : r = r' := by
  obtain ⟨a, ha⟩ := returned_value_is_the_success hr t r ht
  obtain ⟨b, hb⟩ := returned_value_is_the_success hr u r' hu
  rw [ha] at hb
  injection hb with h1 _
  injection h1

/-- `cache = done r` is stable. -/
theorem done_stable {s s' : State} {t : Tid} {ch : Choice} (hr : Reachable s) (r : Val)
    (hc : s.cache = some (.done r)) (hn : next s t ch = some s') : s'.cache = some (.done r) := by
  obtain ⟨i1, i0, i2, i3, i3b, i3c, i4, i5, i5b, i6⟩ := reachable_inv hr
  unfold next at hn
  cases hp : s.pc t <;> simp only [hp] at hn <;> grind [State.setPc]

/-- The ghost list only grows. -/
theorem succ_grows {s s' : State} {t : Tid} {ch : Choice} (hn : next s t ch = some s') :
    ∃ l, s'.succ = s.succ ++ l := by
  unfold next at hn
  cases hp : s.pc t with
  | start => simp only [hp] at hn; split at hn <;> (injection hn with hn; subst hn; exact ⟨[], by simp⟩)
  | readNone => simp only [hp] at hn; split at hn <;> (injection hn with hn; subst hn; exact ⟨[], by simp⟩)
  | got e => cases e <;> (simp only [hp] at hn; injection hn with hn; subst hn; exact ⟨[], by simp⟩)
  | waiting =>
    simp only [hp] at hn
    split at hn
    · injection hn with hn; subst hn; exact ⟨[], by simp⟩
    · cases hn
  | holding =>
    simp only [hp] at hn
    split at hn
    · injection hn with hn; subst hn; exact ⟨[], by simp⟩
    · injection hn with hn; subst hn; exact ⟨[], by simp⟩
    · cases hn
  | inF =>
    simp only [hp] at hn
    cases ch with
    | ret v => injection hn with hn; subst hn; exact ⟨[(t, v)], rfl⟩
    | raise => injection hn with hn; subst hn; exact ⟨[], by simp⟩
  | fDone v => simp only [hp] at hn; injection hn with hn; subst hn; exact ⟨[], by simp⟩
  | stored v => simp only [hp] at hn; injection hn with hn; subst hn; exact ⟨[], by simp⟩
  | returned r => simp [hp] at hn
  | raised => simp [hp] at hn

/-- **No `f` starts after a normal completion** (already from the moment `f`
returned, before the result is even stored): no step is labelled `fenter`, and
the set of calls inside `f` does not grow. -/
theorem no_start_after_done {s s' : State} {t : Tid} {ch : Choice} (hr : Reachable s)
    (hs : s.succ ≠ []) (hn : next s t ch = some s') :
    label s t ch ≠ .fenter ∧ ∀ u, s'.pc u = .inF → s.pc u = .inF := by
  obtain ⟨i1, i0, i2, i3, i3b, i3c, i4, i5, i5b, i6⟩ := reachable_inv hr
  have i1t := i1 t
  unfold next at hn
  unfold label
  cases hp : s.pc t <;> simp only [hp] at hn ⊢ <;> grind [State.setPc, locked]

/-- … and "after" really means for ever: a normal completion is never forgotten. -/
theorem success_stable {s s' : State} {t : Tid} {ch : Choice} (hs : s.succ ≠ [])
    (hn : next s t ch = some s') : s'.succ ≠ [] := by
  obtain ⟨l, hl⟩ := succ_grows hn
  intro h
  rw [h] at hl
  cases hss : s.succ with
  | nil => exact hs hss
  | cons a b => rw [hss] at hl; simp at hl

/-- **A call whose own `f` raised propagates and caches nothing**: the step is
enabled, the call ends in `raised`, the cache still says `pending`, there is
still no normal completion, and the lock is free again — so the next call runs
its own `f`. -/
theorem raise_caches_nothing {s : State} (hr : Reachable s) (t : Tid) (hp : s.pc t = .inF) :
    ∃ s', next s t .raise = some s' ∧ s'.pc t = .raised ∧ s'.cache = some .pending ∧
      s'.succ = [] ∧ s'.owner = none ∧ label s t .raise = .fraise := by
  obtain ⟨i1, i0, i2, i3, i3b, i3c, i4, i5, i5b, i6⟩ := reachable_inv hr
  obtain ⟨hc, hs⟩ := i3 t hp
  refine ⟨({ s with owner := none }).setPc t .raised, by simp [next, hp], ?_, ?_, ?_, ?_, ?_⟩ <;> simp [hc, hs, label, hp]

/-- A call that raised is final and never appears among the normal completions. -/
theorem raised_is_final_and_not_a_success {s : State} (hr : Reachable s) (t : Tid)
    (hp : s.pc t = .raised) : (∀ ch, next s t ch = none) ∧ ∀ v, (t, v) ∉ s.succ :=
  ⟨fun ch => by simp [next, hp], (reachable_inv hr).I6 t hp⟩

/-- **No deadlock**: an unfinished call is either enabled itself (whatever `f`
would do), or it waits for the lock, which is then held by another call that is
enabled.  The only step in the whole system whose occurrence is up to `f` is the
one of the call inside `f`. -/
theorem no_deadlock {s : State} (hr : Reachable s) (t : Tid) (hf : finished (s.pc t) = false) :
    (∀ ch, (next s t ch).isSome) ∨
    (s.pc t = .waiting ∧ ∃ u, u ≠ t ∧ s.owner = some u ∧ ∀ ch, (next s u ch).isSome) := by
  obtain ⟨i1, i0, i2, i3, i3b, i3c, i4, i5, i5b, i6⟩ := reachable_inv hr
  have enabled_locked : ∀ u, locked (s.pc u) = true → ∀ ch, (next s u ch).isSome := by
    intro u hu ch
    have h0 := i0
    unfold next
    cases hp : s.pc u <;> simp [hp, locked] at hu ⊢
    · cases hc : s.cache with
      | none => have := h0 hc u; simp [hp] at this
      | some e => cases e <;> simp
    · cases ch <;> simp
  cases hp : s.pc t with
  | waiting =>
    cases ho : s.owner with
    | none => left; intro ch; simp [next, hp, ho]
    | some u =>
      right
      refine ⟨rfl, u, ?_, rfl, enabled_locked u ((i1 u).mp ho)⟩
      intro e; subst e
      have := (i1 u).mp ho
      simp [hp, locked] at this
  | holding => left; exact enabled_locked t (by simp [hp, locked])
  | inF => left; exact enabled_locked t (by simp [hp, locked])
  | fDone v => left; exact enabled_locked t (by simp [hp, locked])
  | stored v => left; exact enabled_locked t (by simp [hp, locked])
  | start => left; intro ch; unfold next; simp only [hp]; cases s.cache <;> simp
  | readNone => left; intro ch; unfold next; simp only [hp]; cases s.cache <;> simp
  | got e => left; intro ch; unfold next; simp only [hp]; cases e <;> simp
  | returned r => simp [hp, finished] at hf
  | raised => simp [hp, finished] at hf

/-- No livelock either: every step moves its call strictly forward along an
acyclic control flow (at most 8 steps per call) and touches no other call's pc. -/
theorem step_advances {s s' : State} {t : Tid} {ch : Choice} (hn : next s t ch = some s') :
    rank (s.pc t) < rank (s'.pc t) ∧ ∀ u, u ≠ t → s'.pc u = s.pc u := by
  unfold next at hn
  cases hp : s.pc t <;> simp only [hp] at hn <;> grind [State.setPc, rank]

theorem reachable_runSched {s s' : State} (hr : Reachable s) (l : List (Tid × Choice))
    (h : runSched s l = some s') : Reachable s' := by
  induction l generalizing s with
  | nil => simp [runSched] at h; subst h; exact hr
  | cons a rest ih =>
    obtain ⟨t, ch⟩ := a
    simp only [runSched] at h
    cases hn : next s t ch with
    | none => simp [hn] at h
    | some s1 => simp only [hn] at h; exact ih (Reachable.step t ch hr hn) h

-- Non-vacuity.  A reachable 3-thread state with call 0 inside `f`, call 1 waiting
-- for the lock and call 2 holding the `pending` tuple:
def exSched : List (Tid × Choice) :=
  [(0, .raise), (0, .raise), (1, .raise), (0, .raise), (2, .raise), (0, .raise), (1, .raise), (0, .raise)]
def exState : State :=
  { cache := some .pending, owner := some 0, succ := [],
    pc := fun u => if u = 0 then .inF else if u = 1 then .waiting else if u = 2 then .got .pending else .start }
theorem exState_pcs : ∃ s, runSched init exSched = some s ∧ s.pc 0 = .inF ∧ s.pc 1 = .waiting ∧
    s.pc 2 = .got .pending ∧ s.cache = some .pending ∧ s.owner = some 0 :=
  ⟨_, rfl, rfl, rfl, rfl, rfl, rfl⟩
example : ∃ s, Reachable s ∧ s.pc 0 = .inF ∧ finished (s.pc 1) = false ∧ locked (s.pc 0) = true := by
  obtain ⟨s, h, h0, h1, _⟩ := exState_pcs
  exact ⟨s, reachable_runSched Reachable.init _ h, h0, by simp [h1, finished], by simp [h0, locked]⟩
-- … from which `f` of call 0 raises, call 1 then runs its own `f` which returns 7, and calls 1 and 2 return 7
-- (hypotheses of returned_value_is_the_success / no_start_after_done / raised_is_final… are met):
def exSched2 : List (Tid × Choice) :=
  exSched ++ [(0, .raise), (1, .raise), (1, .raise), (1, .ret 7), (2, .raise), (1, .raise), (1, .raise), (2, .raise), (2, .raise)]
theorem exState2_pcs : ∃ s, runSched init exSched2 = some s ∧ s.pc 0 = .raised ∧ s.pc 1 = .returned 7 ∧
    s.pc 2 = .returned 7 ∧ s.succ = [(1, 7)] ∧ s.owner = none :=
  ⟨_, rfl, rfl, rfl, rfl, rfl, rfl⟩
example : ∃ s, Reachable s ∧ s.pc 0 = .raised ∧ s.pc 2 = .returned 7 ∧ s.succ ≠ [] := by
  obtain ⟨s, h, h0, _, h2, hs, _⟩ := exState2_pcs
  exact ⟨s, reachable_runSched Reachable.init _ h, h0, h2, by simp [hs]⟩

open CffiVerif.Generated.InitOnceSteps in
/-- **The model's steps are the source's statements, in the source's order** (skeletons re-extracted on every run
into `Generated/InitOnceSteps.lean`): both `FFI.init_once` and `ffi_init_once` are lookup, setdefault of a pending
entry, fast return, acquire, re-check under the lock, call, store **before** release, return; a raise skips the store
and still releases the lock (what the step `inF → raised` of the model does). -/
theorem steps_are_source :
    modelSteps = python ∧ modelSteps = c ∧
    pythonReleaseOnRaise = true ∧ pythonStoreOnlyOnSuccess = true ∧
    cReleaseUnconditional = true ∧ cStoreOnlyOnSuccess = true ∧ cAcquireReleasesGil = true := by decide

/-- … and `modelSteps` is indeed the path `next` drives a call along. -/
theorem successPath_is_next : visit init 20 = successPath 0 := by rfl

end CffiVerif.C26
