import CffiVerif.Model.Layout
import CffiVerif.Spec.GccLayout
namespace CffiVerif.C01
open CffiVerif.Layout CffiVerif.GccLayout

/-- the known finding: an empty struct has size 1 in cffi and 0 in gcc -/
theorem zero_size_witness :
    layoutCffi (.agg false 0 .nil) = .ok ⟨1, 1, []⟩ ∧ (layout (.agg false 0 .nil)).size = 0 := by
  exact ⟨rfl, rfl⟩

end CffiVerif.C01
