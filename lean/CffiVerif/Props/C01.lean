import CffiVerif.Proofs.LayoutInside
import CffiVerif.Proofs.LayoutFlags

/-!
C01 — ABI-mode struct and union layout equals the C compiler's layout.

`Layout.layoutCffi` is the transcription of `b_complete_struct_or_union_lock_held`
(x86-64 gcc flags), `GccLayout.layout` the independent specification of the
SysV/GCC layout on one bit cursor.  `Layout.WFTy` is the class of declarations of
the property (`Proofs/LayoutNested.lean`), `Layout.canon` reads a `CFieldObject`
as "member starts at bit `8·cf_offset + cf_bitshift`, bit-field width `cf_bitsize`".
For a non-bit-field `canon` compares `8·cf_offset` with the compiler's bit
position, i.e. the `offsetof`s; for a named bit-field it compares the interval of
bits it occupies.

Full statement of the property (FALSE on the unchanged code, see
`layout_eq_gcc_fails_on_empty_struct`; finding class C01/zero-size-aggregate):

    theorem layout_eq_gcc (d) (hw : WFTy d) (hagg : d = .agg u p fs) :
      ∃ l, layoutCffi d = .ok l ∧ l.size = (layout d).size ∧ l.align = (layout d).align ∧
           l.fields.map canon = (layout d).fields

It is proved below under the extra hypothesis `NZTy d` (no aggregate in `d`, `d`
included, has compiler size 0) as `layout_eq_gcc_partial`, and
`layout_eq_gcc_up_to_empty` shows that for the outermost aggregate the *only*
deviation is "size 0 becomes 1".
-/
namespace CffiVerif.C01
open CffiVerif.Layout CffiVerif.GccLayout

/-- For every well-formed declaration (any number of members, any nesting) in
which no *nested* aggregate is empty-sized, cffi accepts it and computes the
compiler's alignment and member positions; its size is the compiler's, except
that a compiler size of 0 becomes 1. -/
theorem layout_eq_gcc_up_to_empty (u : Bool) (p : Nat) (fs : Fields)
    (hw : WFTy (.agg u p fs)) (hz : NZFields fs) :
    ∃ l, layoutCffi (.agg u p fs) = .ok l ∧
      l.align = (layout (.agg u p fs)).align ∧
      l.fields.map canon = (layout (.agg u p fs)).fields ∧
      l.size = (if (layout (.agg u p fs)).size = 0 then 1 else (layout (.agg u p fs)).size) := by
  rw [WFTy] at hw
  obtain ⟨cs, hcs, hwl, hr⟩ := fields_ok p fs hw.2
  obtain ⟨l, hl, hal, hfl, hsz, _⟩ := flat_eq u p cs hw.1 hwl
  rw [hr hz] at hal hfl hsz
  exact ⟨l, by simp only [layoutCffi, hcs, hl], hal, hfl, hsz⟩

/-- **Layout equals the compiler's** (sizes, alignment, offsets of non-bit-field
members, bit intervals of named bit-fields), for every well-formed declaration
without zero-size aggregates, by induction over the member list (simulation
relation `Layout.R`) and over nesting. -/
theorem layout_eq_gcc_partial (u : Bool) (p : Nat) (fs : Fields)
    (hw : WFTy (.agg u p fs)) (hz : NZTy (.agg u p fs)) :
    ∃ l, layoutCffi (.agg u p fs) = .ok l ∧
      l.size = (layout (.agg u p fs)).size ∧
      l.align = (layout (.agg u p fs)).align ∧
      l.fields.map canon = (layout (.agg u p fs)).fields := by
  rw [NZTy] at hz
  obtain ⟨l, hl, hal, hfl, hsz⟩ := layout_eq_gcc_up_to_empty u p fs hw hz.1
  have : (layout (.agg u p fs)).size ≠ 0 := by omega
  simp only [this, if_false] at hsz
  exact ⟨l, hl, hsz, hal, hfl⟩

/-- The hypothesis `NZTy` cannot be dropped: `struct {}` is well-formed, cffi gives
it size 1, the compiler size 0. -/
theorem layout_eq_gcc_fails_on_empty_struct :
    WFTy (.agg false 0 .nil) ∧
    layoutCffi (.agg false 0 .nil) = .ok ⟨1, 1, []⟩ ∧ (layout (.agg false 0 .nil)).size = 0 := by
  refine ⟨?_, rfl, rfl⟩
  rw [WFTy, WFFields]; exact ⟨Or.inl rfl, trivial⟩

/-- **No declaration of the class is rejected** (zero-size aggregates included). -/
theorem never_rejected (u : Bool) (p : Nat) (fs : Fields) (hw : WFTy (.agg u p fs)) :
    ∃ l, layoutCffi (.agg u p fs) = .ok l := by
  rw [WFTy] at hw
  obtain ⟨cs, hcs, hwl, _⟩ := fields_ok p fs hw.2
  obtain ⟨l, hl, _⟩ := flat_eq u p cs hw.1 hwl
  exact ⟨l, by simp only [layoutCffi, hcs, hl]⟩

/-- **The storage cffi reads and writes lies inside the object**: for every
`CFieldObject` (members of anonymous aggregates included) `cf_offset +
sizeof(cf_type) ≤ ct_size`, and a bit-field's bits lie inside that unit:
`cf_bitshift + cf_bitsize ≤ 8·sizeof(cf_type)`. -/
theorem unit_inside (u : Bool) (p : Nat) (fs : Fields) (hw : WFTy (.agg u p fs)) (l : CLayout)
    (h : layoutCffi (.agg u p fs) = .ok l) :
    ∀ c ∈ l.fields, ∀ n, c.fsize = some n →
      c.offset + n ≤ l.size ∧ ∀ sh w, c.bits = some (sh, w) → sh + w ≤ 8 * n := by
  rw [WFTy] at hw
  obtain ⟨cs, hcs, hwl, _⟩ := fields_ok p fs hw.2
  simp only [layoutCffi, hcs] at h
  exact complete_inside u p cs l hw.1 hwl (fields_inside p fs hw.2 cs hcs) h

/-- `x & ~(a-1)` on 64-bit words is `x - x % a` when `a` is a power of two: the
arithmetic reading of the masks used by `Model/Layout.lean` (`alignDown`). -/
theorem andnot_eq_alignDown (x : BitVec 64) (k : Nat) (hk : k < 64) :
    x &&& ~~~(BitVec.twoPow 64 k - 1) = x - x % BitVec.twoPow 64 k :=
  andnot_mask_eq x k hk

/-- The model with *all* `sflags` branches (MSVC / ARM bit-field styles, big endian; exercised by the
correspondence through `_cffi_backend.complete_struct_or_union(..., sflags, pack)`) coincides, for the
flags selected on this platform, with the model the theorems above are about. -/
theorem flags_model_specialises (fl : LayoutFlags.Flags)
    (h1 : fl.msvc = false) (h2 : fl.arm = false) (h3 : fl.bigEndian = false) (t : Ty) :
    LayoutFlags.layoutFlags fl t = Except.map LayoutFlags.liftL (layoutCffi t) :=
  LayoutFlags.layoutFlags_x86 fl ⟨h1, h2, h3⟩ t

/-! ### the error branches: what the loop rejects outside the class -/

/-- a bit-field wider than its type, a named `:0`, a bit-field of a non-integer
type, and a member of unknown size that is not a trailing array are rejected with
`TypeError`, whatever the state of the loop. -/
theorem rejected_outside_class (u : Bool) (pack : Nat) (sfp last : Bool) (s : St) (f : FField CField) :
    (∀ w sz, f.bits = some w → f.size = some sz → 8 * sz < w → stepC u pack sfp last s f = .error .typeError) ∧
    (f.bits = some 0 → f.named = true → stepC u pack sfp last s f = .error .typeError) ∧
    (∀ w, f.bits = some w → f.intlike = false → stepC u pack sfp last s f = .error .typeError) ∧
    (f.size = none → (f.isArray && f.bits.isNone && last) = false →
      stepC u pack sfp last s f = .error .typeError) := by
  refine ⟨?_, ?_, ?_, ?_⟩
  · intro w sz hb hs hw
    have : w > 8 * sz := hw
    simp [stepC_eq_ref, stepCRef, hb, hs, this]
  · intro hb hn
    cases hs : f.size <;> cases hi : f.intlike <;> simp [stepC_eq_ref, stepCRef, hb, hn, hs, hi]
  · intro w hb hi
    cases hs : f.size <;> simp [stepC_eq_ref, stepCRef, hb, hi, hs]
  · intro hs hl
    simp [stepC_eq_ref, stepCRef, hs, hl]

/-! ### non-vacuity -/

/-- `struct { char a; int b : 3; unsigned : 0; long long c : 40; struct { short d; _Bool e : 1; };
            union { double x; char y[3]; } f[2]; int g[]; }` -/
def exDecl : Ty :=
  .agg false 0 <|
    .cons true none false (.prim 1 1 true) <|
    .cons true (some 3) false (.prim 4 4 true) <|
    .cons false (some 0) false (.prim 4 4 true) <|
    .cons true (some 40) false (.prim 8 8 true) <|
    .cons false none false (.agg false 0 <|
        .cons true none false (.prim 2 2 true) <|
        .cons true (some 1) false (.prim 1 1 true) .nil) <|
    .cons true none false (.arr (.agg true 0 <|
        .cons true none false (.prim 8 8 false) <|
        .cons true none false (.arr (.prim 1 1 true) 3) .nil) 2) <|
    .cons true none true (.prim 4 4 true) .nil

/-- `#pragma pack(2) struct { char a; double b; long double c; }` -/
def exPacked : Ty :=
  .agg false 2 <|
    .cons true none false (.prim 1 1 true) <|
    .cons true none false (.prim 8 8 false) <|
    .cons true none false (.prim 16 16 false) .nil

example : WFTy exDecl := by
  simp [exDecl, WFTy, WFFields, A16, PackOK]
  refine ⟨⟨⟨?_, ?_⟩, ?_⟩, ?_⟩ <;> refine ⟨_, _, ⟨rfl, rfl⟩, ?_⟩ <;> omega
example : NZTy exDecl := by
  simp only [exDecl, NZTy, NZFields, true_and, and_true]
  decide
example : WFTy exPacked := by
  simp only [exPacked, WFTy, WFFields, A16, PackOK]
  simp
  exact ⟨1, rfl⟩
example : NZTy exPacked := by
  simp only [exPacked, NZTy, NZFields, true_and, and_true]
  decide
-- the conclusion of `layout_eq_gcc_partial` at the example, computed:
example : layoutCffi exDecl = .ok ⟨40, 8,
    [⟨0, none, some 1⟩, ⟨0, some (8, 3), some 4⟩, ⟨8, some (0, 40), some 8⟩, ⟨14, none, some 2⟩,
     ⟨16, some (0, 1), some 1⟩, ⟨24, none, some 16⟩, ⟨40, none, none⟩]⟩ := by rfl
example : layoutCffi exPacked = .ok ⟨26, 2, [⟨0, none, some 1⟩, ⟨2, none, some 8⟩, ⟨10, none, some 16⟩]⟩ := by rfl

end CffiVerif.C01
