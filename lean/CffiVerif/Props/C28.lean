import CffiVerif.Proofs.EmbeddingC
import CffiVerif.Generated.EmbeddingSteps

/-!
C28 — embedded-library start-up initialises once and never deadlocks (partial).

The theorems are invariants of every reachable state of the transition system
`CffiVerif.Embedding` (any number of threads and libraries, any interleaving, init codes that
fail, init codes that call into any library).  External and therefore *not* covered: the
memory barriers (the model is sequentially consistent), `pthread_mutex`, the CAS primitive,
CPython's start-up and GIL, fairness of the spin loops.
-/
namespace CffiVerif.C28
open CffiVerif.Embedding

/-- `Py_InitializeEx` is called at most once, whatever the interleaving. -/
theorem py_init_at_most_once (s : State) (h : Reachable s) : s.pyInitCount ≤ 1 := by
  have := (reachable_inv h).g1
  split at this <;> omega

/-- Each library's `_cffi_initialize_python` (its init code) is entered at most once. -/
theorem lib_init_at_most_once (s : State) (h : Reachable s) (L : Lib) : (s.lib L).initRuns ≤ 1 := by
  have := (reachable_inv h).l1 L
  split at this <;> omega

/-- A thread executing (or suspended inside) the body of an `extern "Python"` function of a
library does so after that library's initialisation finished successfully — the only
exception being the initialising thread itself, calling the function recursively from the
init code while the initialisation is still running. -/
theorem no_other_thread_before_init_done (s : State) (h : Reachable s) (t : Tid) (f : Frame)
    (hf : f ∈ s.thr t) (hb : bodyPc f.pc = true) :
    (s.lib f.lib).status = .ok ∨ ((s.lib f.lib).status = .running ∧ (s.lib f.lib).initBy = some t) :=
  (reachable_inv h).f6 t f hf (bodyPc_gatePc _ hb)

/-- The same, read the other way: while another thread initialises `L`, no thread but that one
is in a body of `L`; before anyone started, nobody is. -/
theorem no_body_unless_init_ok (s : State) (h : Reachable s) (t : Tid) (f : Frame)
    (hf : f ∈ s.thr t) (hb : bodyPc f.pc = true) (hnot : (s.lib f.lib).initBy ≠ some t) :
    (s.lib f.lib).status = .ok := by
  rcases no_other_thread_before_init_done s h t f hf hb with h1 | ⟨_, h2⟩
  · exact h1
  · exact absurd h2 hnot

/-- After a failed initialisation no call of that library gets past the start-up gate: no frame
is in `cffi_call_python`, in a body, or has returned anything but the zeroed result. -/
theorem failed_init_returns_zero (s : State) (h : Reachable s) (t : Tid) (f : Frame)
    (hf : f ∈ s.thr t) (hfail : (s.lib f.lib).status = .failed) : gatePc f.pc = false := by
  cases hg : gatePc f.pc with
  | false => rfl
  | true =>
    rcases (reachable_inv h).f6 t f hf hg with h1 | ⟨h1, _⟩ <;> simp [hfail] at h1

/-- In particular every call that returns after the failure returns the zeroed result. -/
theorem failed_init_result_is_zero (s : State) (h : Reachable s) (t : Tid) (f : Frame) (z : Bool)
    (hf : f ∈ s.thr t) (hfail : (s.lib f.lib).status = .failed) (hr : f.pc = .returned z) : z = true := by
  have := failed_init_returns_zero s h t f hf hfail
  cases z <;> simp [hr, gatePc] at this ⊢

/-- A failed initialisation is final: no step restarts it or switches the library on. -/
theorem failed_init_is_final (s s' : State) (l : Label) (h : Reachable s) (hs : step? s l = some s')
    (L : Lib) (hfail : (s.lib L).status = .failed) :
    (s'.lib L).status = .failed ∧ (s'.lib L).fast = false ∧ (s'.lib L).org = false := by
  have hI := reachable_inv h
  have hI' := inv_step hI hs
  have hst : (s'.lib L).status = .failed := by
    have f3 := hI.f3
    have f4 := hI.f4
    have l2 := hI.l2
    step_cases hs
    all_goals simp only [setHead, setLib, upd] at *
    all_goals grind [initPc]
  refine ⟨hst, ?_, ?_⟩
  · cases hfa : (s'.lib L).fast with
    | false => rfl
    | true => have := hI'.l3 L hfa; simp [hst] at this
  · cases ho : (s'.lib L).org with
    | false => rfl
    | true => rcases hI'.l4 L ho with h1 | h1 <;> simp [hst] at h1

/-- **Progress (partial).**  In every reachable state in which some thread is inside a library,
some step other than a fresh call is enabled — provided no two *different* libraries' init
codes call each other in a cycle.

Full statement (without `AcyclicInitCalls`) is false of the model and of the code:
`abba_deadlock` below is a reachable state with two threads inside libraries and no enabled
step (library 0's init code calls library 1 while library 1's init code calls library 0). -/
theorem no_deadlock_partial (s : State) (h : Reachable s) (hac : AcyclicInitCalls s)
    (t : Tid) (ht : s.thr t ≠ []) : NonCallStep s :=
  progress_of_acyclic (reachable_inv h) hac t ht

/-! ### Tie to the source: the control paths re-extracted from `_embedding.h` on every run -/

open CffiVerif.Generated.EmbeddingSteps in
/-- The control paths of `_cffi_carefully_make_gil`, `_cffi_start_python` and
`_cffi_start_and_call_python`, as extracted from the working tree, are exactly the operation
sequences obtained by running the transition system's `step?` for one thread (all outcomes of
`Py_IsInitialized()`, `called`, the init code, `org`), plus the unreachable `return NULL` after a
failing `_cffi_carefully_make_gil` (which always returns 0, first conjunct). -/
theorem steps_are_source :
    makeGilPaths = [gilTrace false, gilTrace true] ∧
    startPythonPaths = [.makeGilOk false, .retNull] ::
      [startTrace false true, startTrace false false, startTrace true true].map (fun p => .makeGilOk true :: p) ∧
    startAndCallPaths = [callTrace false, callTrace true] := by
  decide

open CffiVerif.Generated.EmbeddingSteps in
/-- On every control path of `_cffi_start_python` the reentrant mutex, once acquired, is released
exactly once before the function returns (and a path that never acquired it returns without releasing). -/
theorem every_path_releases_mutex :
    ∀ p ∈ startPythonPaths,
      p.filter (fun o => o == .acquireMutex || o == .releaseMutex || o == .retOrg || o == .retNull)
        = [.acquireMutex, .releaseMutex, .retOrg] ∨
      p.filter (fun o => o == .acquireMutex || o == .releaseMutex || o == .retOrg || o == .retNull)
        = [.retNull] := by
  decide

open CffiVerif.Generated.EmbeddingSteps in
/-- On every control path of `_cffi_carefully_make_gil` the spin lock is taken first and released
once, `Py_InitializeEx` is called only inside and only after `Py_IsInitialized()` said no, and the
function returns 0. -/
theorem every_path_releases_spin_lock :
    ∀ p ∈ makeGilPaths,
      p.filter (fun o => o != .saveThread) = [.spinAcquire, .pyIsInit true, .spinRelease, .retZero] ∨
      p.filter (fun o => o != .saveThread) = [.spinAcquire, .pyIsInit false, .pyInitialize, .spinRelease, .retZero] := by
  decide

open CffiVerif.Generated.EmbeddingSteps in
/-- `_cffi_start_and_call_python` zeroes the result exactly when the start-up returned NULL, and
otherwise calls through the returned pointer. -/
theorem null_pointer_gives_zeroed_result :
    ∀ p ∈ startAndCallPaths,
      (SrcOp.fnNull true ∈ p → SrcOp.zeroResult ∈ p ∧ SrcOp.callFn ∉ p) ∧
      (SrcOp.fnNull false ∈ p → SrcOp.callFn ∈ p ∧ SrcOp.zeroResult ∉ p) := by
  decide

/-! ### Non-vacuity: concrete reachable states -/

/-- the slow path of a call up to reading `called` (with / without `Py_InitializeEx`) -/
def slowFirst (t : Tid) : List Label := List.replicate 8 (.step t)
def slowLater (t : Tid) : List Label := List.replicate 6 (.step t)

/-- Thread 0 initialises library 0 and, from the init code, calls that library's own extern
function (it runs the body while the init is still running); thread 1 called the same function
and waits for the start-up mutex. -/
def exRec : List Label :=
  [.call 0 0] ++ slowFirst 0 ++ [.step 0, .step 0, .step 0]
  ++ [.call 1 0] ++ List.replicate 4 (.step 1)
  ++ [.callOut 0, .call 0 0] ++ slowLater 0 ++ [.step 0, .step 0, .step 0]

example : (run init exRec).map (fun s => (s.thr 0, s.thr 1, (s.lib 0).status, (s.lib 0).initBy,
      (s.lib 0).owner, (s.lib 0).depth, s.gil, s.pyInitCount, (s.lib 0).initRuns)) =
    some ([⟨0, .py .body⟩, ⟨0, .pyOut .init⟩], [⟨0, .mutexWait⟩], .running, some 0, some 0, 1, some 0, 1, 1) := by
  rfl

/-- … so the hypotheses of `no_other_thread_before_init_done` are met by a body frame of the
initialising thread during the init (the `running` disjunct is inhabited). -/
example : ∃ s, Reachable s ∧ (⟨0, .py .body⟩ : Frame) ∈ s.thr 0 ∧ (s.lib 0).status = .running := by
  have hr : (run init exRec).isSome = true := by rfl
  obtain ⟨s, h⟩ := Option.isSome_iff_exists.mp hr
  refine ⟨s, run_reachable exRec Reachable.init h, ?_, ?_⟩
  · have : (run init exRec).map (fun s => s.thr 0) = some [⟨0, .py .body⟩, ⟨0, .pyOut .init⟩] := by rfl
    simp [h] at this
    simp [this]
  · have : (run init exRec).map (fun s => (s.lib 0).status) = some .running := by rfl
    simpa [h] using this

/-- A failing init code: thread 0's init of library 0 raises; afterwards its own call and a
later call by thread 1 both return the zeroed result. -/
def exFail : List Label :=
  [.call 0 0] ++ slowFirst 0 ++ [.step 0, .step 0, .step 0, .finish 0 false]
  ++ List.replicate 5 (.step 0)                       -- initEnd, initResult, mutexRelease, gotFn, fnNull → returned
  ++ [.call 1 0] ++ slowLater 1 ++ List.replicate 3 (.step 1)

example : (run init exFail).map (fun s => (s.thr 0, s.thr 1, (s.lib 0).status, (s.lib 0).org, (s.lib 0).fast)) =
    some ([⟨0, .returned true⟩], [⟨0, .returned true⟩], .failed, false, false) := by
  rfl

/-- Two libraries whose init codes call each other, from two threads: a reachable state. -/
def exCross : List Label :=
  [.call 0 0] ++ slowFirst 0 ++ [.step 0, .step 0, .step 0, .callOut 0]
  ++ [.call 1 1] ++ slowLater 1 ++ [.step 1, .step 1, .step 1, .callOut 1]
  ++ [.call 0 1] ++ List.replicate 4 (.step 0)
  ++ [.call 1 0] ++ List.replicate 4 (.step 1)

example : (run init exCross).map (fun s => (s.thr 0, s.thr 1, (s.lib 0).owner, (s.lib 1).owner, s.gil, s.spin)) =
    some ([⟨1, .mutexWait⟩, ⟨0, .pyOut .init⟩], [⟨0, .mutexWait⟩, ⟨1, .pyOut .init⟩], some 0, some 1, none, none) := by
  rfl

/-- **The excluded case is real in the model**: the state reached by `exCross` (library 0's init
code, on thread 0, calls library 1 while library 1's init code, on thread 1, calls library 0) is
reachable, has two threads inside libraries, and no step other than fresh calls by further
threads is enabled — the negation of the conclusion of `no_deadlock_partial`. -/
theorem abba_deadlock : ∃ s, Reachable s ∧ s.thr 0 ≠ [] ∧ ¬ NonCallStep s := by
  have hr : (run init exCross).isSome = true := by rfl
  obtain ⟨s, h⟩ := Option.isSome_iff_exists.mp hr
  have h0 : s.thr 0 = [⟨1, .mutexWait⟩, ⟨0, .pyOut .init⟩] := by
    have : (run init exCross).map (fun s => s.thr 0) = some [⟨1, .mutexWait⟩, ⟨0, .pyOut .init⟩] := by rfl
    simpa [h] using this
  have h1 : s.thr 1 = [⟨0, .mutexWait⟩, ⟨1, .pyOut .init⟩] := by
    have : (run init exCross).map (fun s => s.thr 1) = some [⟨0, .mutexWait⟩, ⟨1, .pyOut .init⟩] := by rfl
    simpa [h] using this
  have ho0 : (s.lib 0).owner = some 0 := by
    have : (run init exCross).map (fun s => (s.lib 0).owner) = some (some 0) := by rfl
    simpa [h] using this
  have ho1 : (s.lib 1).owner = some 1 := by
    have : (run init exCross).map (fun s => (s.lib 1).owner) = some (some 1) := by rfl
    simpa [h] using this
  have htids : ∀ l ∈ exCross, Label.tid l = 0 ∨ Label.tid l = 1 := by decide
  have hother : ∀ u, u ≠ 0 → u ≠ 1 → s.thr u = [] := by
    intro u hu0 hu1
    have := run_thr_other exCross h u (by
      intro l hl
      rcases htids l hl with h | h <;> rw [h] <;> assumption)
    simpa [init] using this
  refine ⟨s, run_reachable exCross Reachable.init h, by simp [h0], ?_⟩
  rintro ⟨l, s', hnc, hs⟩
  have key : ∀ u, s.thr u = [] ∨ s.thr u = [⟨1, .mutexWait⟩, ⟨0, .pyOut .init⟩] ∧ u = 0
      ∨ s.thr u = [⟨0, .mutexWait⟩, ⟨1, .pyOut .init⟩] ∧ u = 1 := by
    intro u
    by_cases hu0 : u = 0
    · subst hu0; right; left; exact ⟨h0, rfl⟩
    · by_cases hu1 : u = 1
      · subst hu1; right; right; exact ⟨h1, rfl⟩
      · left; exact hother u hu0 hu1
  have stuck : ∀ u f rest, s.thr u = f :: rest → f.pc = .mutexWait ∧
      ¬ ((s.lib f.lib).owner = none ∨ (s.lib f.lib).owner = some u) := by
    intro u f rest hu
    rcases key u with hk | ⟨hk, rfl⟩ | ⟨hk, rfl⟩
    · simp [hk] at hu
    · simp [hk] at hu; obtain ⟨rfl, -⟩ := hu; simp [ho1]
    · simp [hk] at hu; obtain ⟨rfl, -⟩ := hu; simp [ho0]
  cases l with
  | call t L => simp [Label.isCall] at hnc
  | ret t =>
    simp only [step?] at hs
    split at hs
    · rename_i f rest hu; have := (stuck t f rest hu).1; simp [this] at hs
    · simp at hs
  | step t =>
    simp only [step?] at hs
    split at hs
    · rename_i f rest hu; have := stuck t f rest hu; simp [this.1, stepPc, this.2] at hs
    · simp at hs
  | yield t =>
    simp only [step?] at hs
    split at hs
    · rename_i f rest hu; have := (stuck t f rest hu).1; simp [this] at hs
    · simp at hs
  | callOut t =>
    simp only [step?] at hs
    split at hs
    · rename_i f rest hu; have := (stuck t f rest hu).1; simp [this] at hs
    · simp at hs
  | callBack t =>
    simp only [step?] at hs
    split at hs
    · rename_i f rest hu; have := (stuck t f rest hu).1; simp [this] at hs
    · simp at hs
  | finish t ok =>
    simp only [step?] at hs
    split at hs
    · rename_i f rest hu; have := (stuck t f rest hu).1; simp [this] at hs
    · simp at hs
  | startupFail t =>
    simp only [step?] at hs
    split at hs
    · rename_i f rest hu; have := (stuck t f rest hu).1; simp [this] at hs
    · simp at hs

/-- Library 0's init code (thread 0) calls library 1, whose init code is now running on the
same thread; thread 1 waits for library 0's mutex.  An acyclic cross-library init call. -/
def exChain : List Label :=
  [.call 0 0] ++ slowFirst 0 ++ [.step 0, .step 0, .step 0, .callOut 0]
  ++ [.call 0 1] ++ slowLater 0 ++ [.step 0, .step 0, .step 0]
  ++ [.call 1 0] ++ List.replicate 4 (.step 1)

/-- Non-vacuity of `no_deadlock_partial`: a reachable state that satisfies `AcyclicInitCalls`
with a non-trivial ranking, in which one thread is blocked on a mutex. -/
example : ∃ s, Reachable s ∧ AcyclicInitCalls s ∧ s.thr 1 = [⟨0, .mutexWait⟩] ∧
    (s.lib 0).owner = some 0 := by
  have hr : (run init exChain).isSome = true := by rfl
  obtain ⟨s, h⟩ := Option.isSome_iff_exists.mp hr
  have h0 : s.thr 0 = [⟨1, .py .init⟩, ⟨0, .pyOut .init⟩] := by
    have : (run init exChain).map (fun s => s.thr 0) = some [⟨1, .py .init⟩, ⟨0, .pyOut .init⟩] := by rfl
    simpa [h] using this
  have h1 : s.thr 1 = [⟨0, .mutexWait⟩] := by
    have : (run init exChain).map (fun s => s.thr 1) = some [⟨0, .mutexWait⟩] := by rfl
    simpa [h] using this
  have ho0 : (s.lib 0).owner = some 0 := by
    have : (run init exChain).map (fun s => (s.lib 0).owner) = some (some 0) := by rfl
    simpa [h] using this
  have htids : ∀ l ∈ exChain, Label.tid l = 0 ∨ Label.tid l = 1 := by decide
  have hother : ∀ u, u ≠ 0 → u ≠ 1 → s.thr u = [] := by
    intro u hu0 hu1
    have := run_thr_other exChain h u (by
      intro l hl
      rcases htids l hl with h | h <;> rw [h] <;> assumption)
    simpa [init] using this
  refine ⟨s, run_reachable exChain Reachable.init h, ⟨fun L => if L = 0 then 1 else 0, ?_⟩, h1, ho0⟩
  intro t f rest g ht hg hinit hne
  by_cases ht0 : t = 0
  · subst ht0
    rw [h0] at ht
    simp at ht
    obtain ⟨rfl, rfl⟩ := ht
    simp at hg
    subst hg
    simp
  · by_cases ht1 : t = 1
    · subst ht1
      rw [h1] at ht
      simp at ht
      obtain ⟨rfl, rfl⟩ := ht
      simp at hg
    · rw [hother t ht0 ht1] at ht
      simp at ht

end CffiVerif.C28
