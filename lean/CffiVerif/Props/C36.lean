import CffiVerif.Proofs.CanaryB
import CffiVerif.Generated.CanarySteps

/-!
C36 — callbacks from non-Python threads get a valid, persistent thread state (partial).

Invariants of every reachable state / every step of the `Canary` model, i.e. for any number of
threads, any numbers of callbacks (nested or not), any order of thread exits, with and without
`Py_Finalize`.  External: CPython's `PyGILState_*` / `PyThreadState_*` functions, pthread TLS
destructors, "never crash" beyond the bookkeeping shown here (memory safety of CPython + cffi).
-/
namespace CffiVerif.C36
open CffiVerif.Canary

/-- While a thread lives, no event other than its own exit (or `Py_Finalize`) changes which
thread state it has, and that thread state stays allocated. -/
theorem tstate_stable_while_thread_alive (s s' : State) (l : Label) (h : Reachable s)
    (hs : step? s l = some s') (t : Tid) (i : TsId) (hts : (s.thr t).ts = some i)
    (h1 : l ≠ .threadExit t) (h2 : l ≠ .finalize) :
    (s'.thr t).ts = some i ∧ (s'.ts i).live = true := by
  obtain ⟨hI, hR⟩ := reachable_inv_reg h
  obtain ⟨k1, k2, _⟩ := step_keeps_ts hI hR hs t i hts h1 h2
  exact ⟨k1, k2⟩

/-- Thread-local data stored through a thread's thread state is changed only by that thread's
own stores: every other event (callbacks of any thread, exits of other threads, zombie freeing)
leaves it as it is. -/
theorem thread_local_data_persists (s s' : State) (l : Label) (h : Reachable s)
    (hs : step? s l = some s') (t : Tid) (i : TsId) (hts : (s.thr t).ts = some i)
    (h1 : l ≠ .threadExit t) (h2 : l ≠ .finalize) (h3 : ∀ v, l ≠ .setData t v) :
    (s'.ts i).data = (s.ts i).data := by
  obtain ⟨hI, hR⟩ := reachable_inv_reg h
  exact (step_keeps_ts hI hR hs t i hts h1 h2).2.2.1 h3

/-- A thread state that a thread newly gets is fresh: it holds no thread-local data and its
identity was never allocated or freed before (nothing of an exited thread shows through). -/
theorem new_tstate_is_fresh (s s' : State) (l : Label) (h : Reachable s) (hs : step? s l = some s')
    (t : Tid) (i : TsId) (hts : (s.thr t).ts = none) (hts' : (s'.thr t).ts = some i) :
    (s'.ts i).data = none ∧ (s.ts i).live = false ∧ (s.ts i).freed = 0 := by
  obtain ⟨k1, k2, k3, _⟩ := step_new_ts (reachable_inv h) hs t i hts hts'
  exact ⟨k1, k2, k3⟩

/-- Two threads never have the same thread state. -/
theorem tstate_not_shared (s : State) (h : Reachable s) (t u : Tid) (i : TsId)
    (ht : (s.thr t).ts = some i) (hu : (s.thr u).ts = some i) : t = u := by
  have hI := reachable_inv h
  exact ((hI.a1 t i ht).2.1).symm.trans (hI.a1 u i hu).2.1

/-- `PyThreadState_Delete` runs at most once on every thread state. -/
theorem tstate_freed_at_most_once (s : State) (h : Reachable s) (i : TsId) : (s.ts i).freed ≤ 1 :=
  (reachable_inv h).a7' i

/-- Every canary in the zombie list has an allocated thread state (the `Py_FatalError("invalid
ThreadCanaryObj->tstate")` is unreachable), lost its `tls` link, appears once, and belongs to no
thread that is still running. -/
theorem zombies_have_tstate (s : State) (h : Reachable s) (i : TsId) (hz : i ∈ s.zombies) :
    (s.ts i).live = true ∧ (s.ts i).canary = true ∧ (s.ts i).canTls = none ∧ s.zombies.count i = 1 ∧
    ∀ t, (s.thr t).ts ≠ some i := by
  have hI := reachable_inv h
  have hzi := (hI.a5 i).mpr hz
  obtain ⟨hc, ht⟩ := hI.a6 i hzi
  refine ⟨hI.a4 i hc, hc, ht, by rw [hI.a5n.count]; simp [hz], ?_⟩
  intro t hts
  have := hI.a11 t i hts hc
  simp [ht] at this

/-- The first callback of a thread without thread state (`thread_canary_register`) leaves no
zombie behind. -/
theorem no_zombie_survives_next_register (s s' : State) (h : Reachable s) (t : Tid)
    (hts : (s.thr t).ts = none) (hs : step? s (.enter t) = some s') : s'.zombies = [] :=
  (inv_enter_new (reachable_inv h) t hts hs).2

/-- The TLS destructor never hits `Py_FatalError("ThreadCanaryObj is already a zombie")`: a
running thread with no callback in progress can always exit. -/
theorem thread_exit_never_fatal (s : State) (h : Reachable s) (t : Tid)
    (ha : (s.thr t).alive = true) (hd : (s.thr t).depth = 0) :
    (step? s (.threadExit t)).isSome = true := by
  have hI := reachable_inv h
  simp only [step?, ha, hd, and_self, if_true]
  cases hp : (s.thr t).python with
  | true =>
    have hcan := python_no_canary hI t hp
    cases hts : (s.thr t).ts with
    | none =>
      have hs1 : pythonEpilogue s t = s := by simp [pythonEpilogue, hp, hts]
      rw [hs1, tlsDestructor_nocanary hcan]; rfl
    | some i =>
      have hci := hI.a15 t i hp hts
      have hs1 : pythonEpilogue s t = deleteTs (clearTs s i) i := by simp [pythonEpilogue, hp, hts]
      rw [hs1, clearTs_nocanary hci]
      simp only [deleteTs, upd_same, upd_upd]
      rw [tlsDestructor_nocanary (by simpa using hcan)]; rfl
  | false =>
    have hs1 : pythonEpilogue s t = s := by simp [pythonEpilogue, hp]
    rw [hs1]
    cases hc : (s.thr t).canary with
    | none => rw [tlsDestructor_nocanary hc]; rfl
    | some j =>
      have h2 := hI.a2 t j hc
      have hnz : (s.ts j).zombie = false := by
        cases hz : (s.ts j).zombie with
        | false => rfl
        | true => have := (hI.a6 j hz).2; simp [h2.2.1] at this
      simp [tlsDestructor, h2.2.2.1, hc, hnz]

/-! ### Tie to the source: statement orders re-extracted from `misc_thread_common.h` on every run -/

open CffiVerif.Generated.CanarySteps in
/-- The statement orders of `thread_canary_free_zombies` (one loop iteration, compiled for the
running interpreter), `thread_canary_register`, `thread_canary_make_zombie`,
`cffi_thread_shutdown`, `gil_ensure` and `gil_release`, as extracted from the working tree, are the
ones the model functions were written from. -/
theorem steps_are_source :
    freeZombiesIter = freeHeadModel ∧ freeZombiesLast = freeLastModel ∧
    registerPath = registerModel ∧ makeZombieBody = makeZombieModel ∧
    shutdownWithCanary = shutdownCanaryModel ∧ shutdownNoCanary = shutdownPlainModel ∧
    gilEnsurePaths = gilEnsureModel ∧ gilReleaseBody = gilReleaseModel := by
  decide

open CffiVerif.Generated.CanarySteps in
/-- The model's `freeHead` *is* the generated loop iteration, interpreted operation by operation
(take the head, unlink it, `PyThreadState_Clear`, the 3.12 workaround, `PyThreadState_Delete`). -/
theorem free_head_is_source_iteration (s : State) (h : s.zombies ≠ []) :
    runIter freeZombiesIter s = freeHead s := by
  cases hz : s.zombies with
  | nil => exact absurd hz h
  | cons i rest =>
    simp [runIter, freeZombiesIter, iterOp, freeHead, hz]

open CffiVerif.Generated.CanarySteps in
/-- The `bound_gilstate = 0` workaround (needed from CPython 3.12 on: without it
`PyThreadState_Delete` of a zombie makes the *current* thread lose its own thread state) is
compiled in for the interpreter this check runs on, between `PyThreadState_Clear` and
`PyThreadState_Delete`. -/
theorem workaround_active_for_running_version :
    (0x030C0000 ≤ runningVersion → workaroundGuard ≤ runningVersion ∧ workaroundGuard ≤ 0x030C0000 ∧
      CanOp.clearBoundGilstate ∈ freeZombiesIter ∧
      freeZombiesIter.dropWhile (· != .clearTs) = [.clearTs, .clearBoundGilstate, .deleteTs, .fallOffEnd]) := by
  decide

/-! ### Non-vacuity -/

/-- Foreign thread 0: two callbacks with a thread-local store in the first, then it exits;
foreign thread 1's first callback then frees the zombie. -/
def exTrace : List Label :=
  [.spawn 0 false, .enter 0, .setData 0 7, .exit 0, .enter 0, .exit 0, .spawn 1 false, .threadExit 0]

example : (run init exTrace).map (fun s => ((s.thr 0).alive, (s.thr 0).ts, s.zombies, (s.ts 0).live, (s.ts 0).data,
      (s.ts 0).counter, (s.ts 0).freed)) = some (false, none, [0], true, some 7, 1, 0) := by rfl

example : (run init (exTrace ++ [.enter 1])).map (fun s => ((s.thr 1).ts, s.zombies, (s.ts 0).live, (s.ts 0).freed,
      (s.ts 0).data, (s.ts 1).data, (s.ts 1).counter, (s.ts 1).canary)) =
    some (some 1, [], false, 1, none, none, 2, true) := by rfl

/-- the hypotheses of `tstate_stable_while_thread_alive` hold in the middle of that trace:
thread 0 has thread state 0 while thread 1 is spawned -/
example : ∃ s s', Reachable s ∧ step? s (.spawn 1 false) = some s' ∧ (s.thr 0).ts = some 0 ∧ (s.ts 0).data = some 7 := by
  have hr : (run init (exTrace.take 6)).isSome = true := by rfl
  obtain ⟨s, h⟩ := Option.isSome_iff_exists.mp hr
  have hr2 : ((run init (exTrace.take 6)).bind (fun s => step? s (.spawn 1 false))).isSome = true := by rfl
  rw [h] at hr2
  obtain ⟨s', h'⟩ := Option.isSome_iff_exists.mp hr2
  refine ⟨s, s', run_reachable _ Reachable.init h, h', ?_, ?_⟩
  · have : (run init (exTrace.take 6)).map (fun s => (s.thr 0).ts) = some (some 0) := by rfl
    simpa [h] using this
  · have : (run init (exTrace.take 6)).map (fun s => (s.ts 0).data) = some (some 7) := by rfl
    simpa [h] using this

/-- a reachable state with a non-empty zombie list (hypothesis of `zombies_have_tstate`,
`no_zombie_survives_next_register`) -/
example : ∃ s, Reachable s ∧ 0 ∈ s.zombies ∧ (s.thr 1).ts = none ∧ (s.thr 1).alive = true := by
  have hr : (run init exTrace).isSome = true := by rfl
  obtain ⟨s, h⟩ := Option.isSome_iff_exists.mp hr
  refine ⟨s, run_reachable _ Reachable.init h, ?_, ?_, ?_⟩
  · have : (run init exTrace).map (fun s => s.zombies) = some [0] := by rfl
    simp [h] at this; simp [this]
  · have : (run init exTrace).map (fun s => (s.thr 1).ts) = some none := by rfl
    simpa [h] using this
  · have : (run init exTrace).map (fun s => (s.thr 1).alive) = some true := by rfl
    simpa [h] using this

end CffiVerif.C36
