import CffiVerif.Model.Closures

/-!
C29 — callback closures stay distinct (allocator part).

Over *every* history of `cffi_closure_alloc` / `cffi_closure_free` calls (any
length, any batches `mmap` may hand to `more_core`), the blocks that are live
(owned by live callback objects) are pairwise distinct, the free list has no
duplicates, no block is both free and live, and a freed block is the next one
handed out (LIFO), so reuse never hands out a block that is still live.
That each closure is bound to its own Python function is libffi's
`ffi_prep_closure` writing `user_data` into the block it is given; that part is
checked on the real implementation only (harness/corr_C29.py).
-/
namespace CffiVerif.C29
open CffiVerif.Closures

/-- The invariant: the free list followed by the live blocks has no duplicates. -/
def Inv (s : State) : Prop := (s.free ++ s.live).Nodup

theorem nodup_reverse {l : List Addr} (h : l.Nodup) : l.reverse.Nodup :=
  (List.reverse_perm l).symm.nodup h

theorem inv_init : Inv init := by simp [Inv, init]

theorem inv_pop (s : State) (h : Inv s) : Inv (pop s).1 := by
  unfold pop
  cases hf : s.free with
  | nil => simpa [hf] using h
  | cons a rest =>
    simp only [Inv, hf, List.cons_append] at h ⊢
    rw [List.nodup_cons] at h
    rw [List.nodup_append] at h ⊢
    obtain ⟨ha, hr, hl, hd⟩ := h
    simp only [List.mem_append, not_or] at ha
    refine ⟨hr, List.nodup_cons.mpr ⟨ha.2, hl⟩, ?_⟩
    intro x hx y hy
    rcases List.mem_cons.mp hy with rfl | hy
    · intro e; subst e; exact ha.1 hx
    · exact hd x hx y hy

/-- Every operation preserves the invariant (also the refused ones: they leave
the state unchanged). -/
theorem inv_step (s : State) (op : Op) (h : Inv s) : Inv (step s op).1 := by
  cases op with
  | alloc batch =>
    unfold step
    cases hf : s.free with
    | nil =>
      simp only
      by_cases hb : freshBatch s batch = true
      · simp only [hb, if_true]
        apply inv_pop
        simp only [freshBatch, decide_eq_true_eq] at hb
        simp only [Inv, pushAll_eq, List.append_nil]
        simp only [Inv, hf, List.nil_append] at h
        rw [List.nodup_append]
        refine ⟨nodup_reverse hb.1, h, ?_⟩
        intro x hx y hy e
        subst e
        exact (hb.2 x (List.mem_reverse.mp hx)).2 hy
      · simp only [hb]
        exact h
    | cons a rest =>
      simp only
      have := inv_pop s h
      simpa [hf] using this
  | free p =>
    unfold step
    by_cases hp : p ∈ s.live
    · simp only [hp, if_true]
      simp only [Inv] at h ⊢
      rw [List.nodup_append] at h
      obtain ⟨hfr, hl, hd⟩ := h
      simp only [List.cons_append, List.nodup_cons, List.mem_append, not_or]
      refine ⟨⟨fun hpf => hd p hpf p hp rfl, ?_⟩, ?_⟩
      · exact fun hpe => (List.Nodup.mem_erase_iff hl).mp hpe |>.1 rfl
      · rw [List.nodup_append]
        refine ⟨hfr, hl.erase p, ?_⟩
        intro x hx y hy
        exact hd x hx y (List.mem_of_mem_erase hy)
    · simp only [hp]
      exact h

theorem inv_run (s : State) (ops : List Op) (h : Inv s) : Inv (run s ops) := by
  induction ops generalizing s with
  | nil => exact h
  | cons op rest ih => exact ih _ (inv_step s op h)

/-- **Live closures are pairwise distinct**, after every history. -/
theorem live_distinct (ops : List Op) : (run init ops).live.Nodup := by
  have := inv_run init ops inv_init
  exact (List.nodup_append.mp this).2.1

/-- The free list never contains a block twice, after every history. -/
theorem free_list_nodup (ops : List Op) : (run init ops).free.Nodup := by
  have := inv_run init ops inv_init
  exact (List.nodup_append.mp this).1

/-- No block is at the same time on the free list and live. -/
theorem free_live_disjoint (ops : List Op) (a : Addr)
    (hf : a ∈ (run init ops).free) : a ∉ (run init ops).live := by
  have := inv_run init ops inv_init
  exact fun hl => (List.nodup_append.mp this).2.2 a hf a hl rfl

/-- What `alloc` hands out was not live before (so it is distinct from every
live closure) and is live afterwards. -/
theorem alloc_fresh (ops : List Op) (batch : List Addr) (a : Addr)
    (h : (step (run init ops) (.alloc batch)).2 = .addr a) :
    a ∉ (run init ops).live ∧ a ∈ (step (run init ops) (.alloc batch)).1.live := by
  have hinv := inv_run init ops inv_init
  generalize run init ops = s at h hinv
  have key : ∀ s' : State, Inv s' → s'.live = s.live → (pop s').2 = .addr a →
      a ∉ s.live ∧ a ∈ (pop s').1.live := by
    intro s' hi hl hp
    unfold pop at hp ⊢
    cases hf : s'.free with
    | nil => simp [hf] at hp
    | cons b rest =>
      simp only [hf] at hp ⊢
      have : b = a := by injection hp
      subst this
      refine ⟨?_, by simp⟩
      rw [← hl]
      intro hbl
      simp only [Inv, hf] at hi
      exact (List.nodup_append.mp hi).2.2 b (by simp) b hbl rfl
  unfold step at h ⊢
  cases hf : s.free with
  | nil =>
    simp only [hf] at h ⊢
    by_cases hb : freshBatch s batch = true
    · simp only [hb, if_true] at h ⊢
      have hi : Inv { s with free := pushAll batch [] } := by
        simp only [freshBatch, decide_eq_true_eq] at hb
        simp only [Inv, pushAll_eq, List.append_nil]
        simp only [Inv, hf, List.nil_append] at hinv
        rw [List.nodup_append]
        refine ⟨nodup_reverse hb.1, hinv, ?_⟩
        intro x hx y hy e
        subst e
        exact (hb.2 x (List.mem_reverse.mp hx)).2 hy
      exact key _ hi rfl h
    · simp [hb] at h
  | cons b rest =>
    simp only [hf] at h ⊢
    exact key s hinv rfl h

/-- **LIFO reuse**: in any state, the block just freed is the next one
allocated (whatever batch the environment would offer: `more_core` is not
called because the free list is not empty). -/
theorem lifo_reuse (s : State) (p : Addr) (batch : List Addr) (hp : p ∈ s.live) :
    (step (step s (.free p)).1 (.alloc batch)).2 = .addr p := by
  simp [step, hp, pop]

/-- More generally `alloc` pops the head of a non-empty free list and leaves the rest. -/
theorem alloc_pops_head (s : State) (a : Addr) (rest batch : List Addr) (h : s.free = a :: rest) :
    step s (.alloc batch) = ({ free := rest, live := a :: s.live }, .addr a) := by
  simp [step, h, pop]

/-- Growth: with an empty free list and a batch satisfying the `mmap` contract,
`alloc` returns the *last* block pushed and leaves the others, most recently
pushed first. -/
theorem alloc_grows (s : State) (batch : List Addr) (a : Addr)
    (hf : s.free = []) (hb : freshBatch s (batch ++ [a]) = true) :
    step s (.alloc (batch ++ [a])) = ({ free := batch.reverse, live := a :: s.live }, .addr a) := by
  simp [step, hf, hb, pop, pushAll_eq]

/-- `mmap` failing (empty batch) with an empty free list yields NULL and changes nothing. -/
theorem alloc_null (s : State) (hf : s.free = []) : step s (.alloc []) = (s, .null) := by
  cases s with
  | mk free live =>
    simp only at hf
    subst hf
    simp [step, pop, freshBatch, pushAll]

-- Non-vacuity: a history crossing a growth boundary, with reuse, ends in a state
-- with live blocks and a non-empty free list.
def exHistory : List Op :=
  [.alloc [10, 11, 12], .alloc [], .alloc [], .alloc [20, 21], .free 11, .free 21, .alloc [], .free 10]
example : run init exHistory = { free := [10, 11, 20], live := [21, 12] } := by decide
example : (step (run init exHistory) (.alloc [99])).2 = .addr 10 := by decide
example : 21 ∈ (run init exHistory).live := by decide
example : (step (step (run init exHistory) (.free 21)).1 (.alloc [])).2 = .addr 21 :=
  lifo_reuse _ 21 [] (by decide)

/-! ### Tie to the source: the statement lists re-extracted from malloc_closure.h -/

open CffiVerif.Generated.ClosureSteps in
/-- `more_core`'s loop, as written in the source, is `pushAll`. -/
theorem more_core_is_source (batch fl : List Addr) : execLoop moreCoreLoop batch fl = pushAll batch fl := by
  induction batch generalizing fl with
  | nil => rfl
  | cons b rest ih =>
    simp only [execLoop, List.foldl_cons, pushAll] at ih ⊢
    exact ih (b :: fl)

open CffiVerif.Generated.ClosureSteps in
/-- **`alloc` = pop the head, `free` = push at the head, exactly as the statements of the source do it**: executing
the extracted statement lists of `cffi_closure_free` / `cffi_closure_alloc` (with `more_core`'s loop) on the free list
gives what the model's `step` does. -/
theorem alloc_free_are_source (s : State) (p : Addr) (batch : List Addr) :
    execFree closureFree s.free p = p :: s.free ∧
    (p ∈ s.live → (step s (.free p)).1.free = execFree closureFree s.free p) ∧
    ((s.free ≠ [] ∨ freshBatch s batch = true) →
      (execAlloc closureAlloc moreCoreLoop batch s.free).2 = (step s (.alloc batch)).1.free ∧
      (step s (.alloc batch)).2 = (match (execAlloc closureAlloc moreCoreLoop batch s.free).1 with
        | some a => Out.addr a | none => Out.null)) := by
  refine ⟨rfl, ?_, ?_⟩
  · intro hp; simp [step, hp]; rfl
  · intro h
    cases hf : s.free with
    | cons a rest =>
      simp [execAlloc, closureAlloc, execStmt, step, hf, pop]
    | nil =>
      have hb : freshBatch s batch = true := by
        rcases h with h | h
        · exact absurd hf h
        · exact h
      have hl := more_core_is_source batch []
      simp only [step, hf, hb, if_true, pop]
      simp only [execAlloc, closureAlloc, List.foldl_cons, List.foldl_nil, execStmt]
      simp only [Option.isSome_none, Bool.false_eq_true, if_false, if_true, List.isEmpty_nil, hl]
      cases hq : pushAll batch [] with
      | nil => simp
      | cons a rest => simp

end CffiVerif.C29
