import CffiVerif.Model.Compare

/-!
C17 — cdata equality, ordering and hashing are mutually consistent.

Statement on the model: for two objects of which at least one is a cdata,
`a == b` (as Python evaluates it, reflected dispatch included) implies
`hash(a) = hash(b)`; pointer-like cdata compare with all six operators as their
addresses; primitive cdata compare and hash as the Python value they convert
to; pointer-like against anything else is `NotImplemented`.

The contract of the Python values themselves is a hypothesis (`PyContract`),
not an axiom: CPython's `int`/`float`/`bool`/`bytes`/`str` satisfy it.
-/
namespace CffiVerif.C17
open CffiVerif.Compare

/-! ## pointer-like cdata -/

/-- Pointer, array, struct, union and function cdata compare exactly as their
addresses, for all six operators — at the slot level … -/
theorem ptr_cmp_is_addr_cmp {V} (P : PyOps V) (op : Op) (a b : Nat) (oid : Nat) :
    richcompare P op (.ptrlike a) (.cdata oid (.ptrlike b)) = .bool (addrCmp op a b) ∧
    (addrCmp .eq a b = true ↔ a = b) ∧ (addrCmp .ne a b = true ↔ a ≠ b) ∧
    (addrCmp .lt a b = true ↔ a < b) ∧ (addrCmp .le a b = true ↔ a ≤ b) ∧
    (addrCmp .gt a b = true ↔ a > b) ∧ (addrCmp .ge a b = true ↔ a ≥ b) := by
  refine ⟨rfl, ?_, ?_, ?_, ?_, ?_, ?_⟩ <;> simp [addrCmp]

/-- The reflected comparison of two addresses is the same comparison. -/
theorem addrCmp_swap (op : Op) (a b : Nat) : addrCmp op.swap b a = addrCmp op a b := by
  cases op <;> simp only [Op.swap, addrCmp] <;>
    exact decide_eq_decide.mpr ⟨fun h => by omega, fun h => by omega⟩

/-- … and as Python evaluates `x op y`, whichever of the two cdata types is the
subtype. -/
theorem ptr_binop_is_addr_cmp {V} (P : PyOps V) (op : Op) (a b : Nat) (o1 o2 : Nat) (bSub : Bool) :
    binop P op (.cdata o1 (.ptrlike a)) (.cdata o2 (.ptrlike b)) bSub = .ok (addrCmp op a b) := by
  cases bSub <;>
    simp [binop, slot, richcompare, CData.isPtr, Obj.isPtr, CData.addr, addrCmp_swap]

/-! ## primitive cdata -/

/-- Primitive cdata compare as the Python value they convert to: against
another primitive cdata and against a plain Python value, for every operator. -/
theorem prim_cmp_is_value_cmp {V} (P : PyOps V) (op : Op) (x y : V) (oid : Nat) :
    richcompare P op (.prim x) (.cdata oid (.prim y)) = resOf (P.cmp op x y) ∧
    richcompare P op (.prim x) (.py oid y) = resOf (P.cmp op x y) := by
  constructor <;> rfl

/-- … and hash as that value. -/
theorem prim_hash_is_value_hash {V} (P : PyOps V) (x : V) : cdataHash P (.prim x) = P.hash x := rfl

/-- As Python evaluates it: `cdata op value`, `value op cdata` (reflected, the
value's own slot answers `NotImplemented`) and `cdata op cdata` all give the
value comparison. -/
theorem prim_binop_is_value_cmp {V} (P : PyOps V) (hP : PyContract P) (op : Op) (x y : V) (o1 o2 : Nat) :
    binop P op (.cdata o1 (.prim x)) (.py o2 y) false = P.cmp op x y ∧
    binop P op (.py o1 x) (.cdata o2 (.prim y)) false = P.cmp op.swap y x ∧
    binop P op (.cdata o1 (.prim x)) (.cdata o2 (.prim y)) false = P.cmp op x y ∧
    binop P op (.cdata o1 (.prim x)) (.cdata o2 (.prim y)) true = P.cmp op.swap y x := by
  refine ⟨?_, ?_, ?_, ?_⟩
  · simp only [binop, slot, richcompare, CData.isPtr, Obj.isPtr, CData.toValue, Obj.toValue]
    cases h : P.cmp op x y <;> simp [resOf]
  · simp only [binop, slot, hP.foreign, richcompare, CData.isPtr, Obj.isPtr, CData.toValue, Obj.toValue]
    cases h : P.cmp op.swap y x <;> simp [resOf]
  · simp only [binop, slot, richcompare, CData.isPtr, Obj.isPtr, CData.toValue, Obj.toValue]
    cases h : P.cmp op x y <;> simp [resOf]
  · simp only [binop, slot, richcompare, CData.isPtr, Obj.isPtr, CData.toValue, Obj.toValue]
    cases h : P.cmp op.swap y x <;> simp [resOf]

/-- A `long double` cdata cannot be compared: `NotImplementedError`, on either side. -/
theorem longdouble_cmp_raises {V} (P : PyOps V) (op : Op) (a : Nat) (x : V) (oid : Nat) (w : Obj V)
    (hw : w.isPtr = false) :
    richcompare P op (.longdouble a) w = .raise .notImplementedError ∧
    richcompare P op (.prim x) (.cdata oid (.longdouble a)) = .raise .notImplementedError := by
  constructor
  · simp [richcompare, CData.isPtr, hw, CData.toValue]
  · simp [richcompare, CData.isPtr, Obj.isPtr, CData.toValue, Obj.toValue]

/-! ## mixed -/

/-- Pointer-like against anything that is not pointer-like (a primitive cdata,
a `long double`, any Python value), in either position: `NotImplemented`. -/
theorem mixed_is_notimplemented {V} (P : PyOps V) (op : Op) (v : CData V) (w : Obj V)
    (h : v.isPtr ≠ w.isPtr) : richcompare P op v w = .notImplemented := by
  unfold richcompare
  cases hv : v.isPtr <;> cases hw : w.isPtr <;> simp_all

/-- What Python makes of it for built-in values: `==` is `False`, `!=` is
`True` (two different objects), every ordering raises `TypeError`. -/
theorem mixed_binop {V} (P : PyOps V) (hP : PyContract P) (op : Op) (a b : Obj V) (bSub : Bool)
    (hcd : a.isCData = true ∨ b.isCData = true) (h : a.isPtr ≠ b.isPtr) (hid : a.oid ≠ b.oid) :
    binop P op a b bSub =
      match op with
      | .eq => .ok false
      | .ne => .ok true
      | _ => .error .typeError := by
  have key : ∀ (op : Op) (a b : Obj V), (a.isCData = true ∨ b.isCData = true) → a.isPtr ≠ b.isPtr →
      slot P op a b = .notImplemented := by
    intro op a b hcd h
    cases a with
    | cdata o c => exact mixed_is_notimplemented P op c b (by simpa [Obj.isPtr] using h)
    | py o v => exact hP.foreign op v
  have k1 := key op a b hcd h
  have k2 := key op.swap b a hcd.symm (Ne.symm h)
  have hne : (a.oid == b.oid) = false := by simpa using hid
  cases bSub <;> cases op <;> simp [binop, k1, k2, hne, hid]

/-! ## equality implies equal hashes -/

/-- **`a == b` implies `hash(a) == hash(b)`** whenever at least one of the two
is a cdata (and distinct objects have distinct identities). -/
theorem eq_imp_hash_eq {V} (P : PyOps V) (hP : PyContract P) (a b : Obj V) (bSub : Bool)
    (hcd : a.isCData = true ∨ b.isCData = true)
    (hid : a.oid = b.oid → a = b)
    (heq : binop P .eq a b bSub = .ok true) :
    objHash P a = objHash P b := by
  -- same object: trivially equal hashes
  by_cases hsame : a.oid = b.oid
  · rw [hid hsame]
  have hne : (a.oid == b.oid) = false := by simpa using hsame
  -- slot-level fact: a `True` from either slot gives equal hashes
  have slotEq : ∀ (a b : Obj V), (a.isCData = true ∨ b.isCData = true) →
      slot P .eq a b = .bool true → objHash P a = objHash P b := by
    intro a b hcd hs
    cases a with
    | py o v => rw [slot, hP.foreign] at hs; cases hs
    | cdata o c =>
      cases c with
      | ptrlike x =>
        cases b with
        | py o' v => simp [slot, richcompare, CData.isPtr, Obj.isPtr] at hs
        | cdata o' c' =>
          cases c' with
          | ptrlike y =>
            simp [slot, richcompare, CData.isPtr, Obj.isPtr, CData.addr, addrCmp] at hs
            have hxy : x = y := of_decide_eq_true hs
            subst hxy
            rfl
          | prim y => simp [slot, richcompare, CData.isPtr, Obj.isPtr] at hs
          | longdouble y => simp [slot, richcompare, CData.isPtr, Obj.isPtr] at hs
      | longdouble x =>
        cases hb : b.isPtr <;> simp [slot, richcompare, CData.isPtr, hb, CData.toValue] at hs
      | prim x =>
        cases b with
        | py o' v =>
          simp only [slot, richcompare, CData.isPtr, Obj.isPtr, CData.toValue, Obj.toValue] at hs
          cases h : P.cmp .eq x v with
          | error e => rw [h] at hs; simp [resOf] at hs
          | ok r =>
            rw [h] at hs; simp [resOf] at hs; subst hs
            exact hP.eq_hash x v h
        | cdata o' c' =>
          cases c' with
          | ptrlike y => simp [slot, richcompare, CData.isPtr, Obj.isPtr] at hs
          | longdouble y => simp [slot, richcompare, CData.isPtr, Obj.isPtr, CData.toValue, Obj.toValue] at hs
          | prim y =>
            simp only [slot, richcompare, CData.isPtr, Obj.isPtr, CData.toValue, Obj.toValue] at hs
            cases h : P.cmp .eq x y with
            | error e => rw [h] at hs; simp [resOf] at hs
            | ok r =>
              rw [h] at hs; simp [resOf] at hs; subst hs
              exact hP.eq_hash x y h
  -- the dispatch only ever returns `True` out of one of the two slots
  have hsw : Op.swap .eq = .eq := rfl
  cases bSub
  · simp only [binop, hsw, hne] at heq
    cases h1 : slot P .eq a b with
    | bool r => rw [h1] at heq; simp at heq; subst heq; exact slotEq a b hcd h1
    | raise e => rw [h1] at heq; simp at heq
    | notImplemented =>
      rw [h1] at heq
      cases h2 : slot P .eq b a with
      | bool r => rw [h2] at heq; simp at heq; subst heq; exact (slotEq b a hcd.symm h2).symm
      | raise e => rw [h2] at heq; simp at heq
      | notImplemented => rw [h2] at heq; simp at heq
  · simp only [binop, hsw, hne] at heq
    cases h2 : slot P .eq b a with
    | bool r => rw [h2] at heq; simp at heq; subst heq; exact (slotEq b a hcd.symm h2).symm
    | raise e => rw [h2] at heq; simp at heq
    | notImplemented =>
      rw [h2] at heq
      cases h1 : slot P .eq a b with
      | bool r => rw [h1] at heq; simp at heq; subst heq; exact slotEq a b hcd h1
      | raise e => rw [h1] at heq; simp at heq
      | notImplemented => rw [h1] at heq; simp at heq

/-- Pointer-like cdata at the same address hash equal whatever their types
(`int *`, `char[4]`, a struct at that address …), and the pointer hash never
takes the reserved value −1. -/
theorem ptr_hash_by_address {V} (P : PyOps V) (a : Nat) :
    cdataHash P (.ptrlike a) = .ok (hashPointer a) ∧ hashPointer a ≠ -1 := by
  refine ⟨rfl, ?_⟩
  unfold hashPointer
  simp only []
  split <;> omega

/-! ## non-vacuity: Python `int` values satisfy the contract -/

theorem intOps_contract : PyContract intOps where
  eq_hash := by
    intro a b h
    have : a = b := by simpa [intOps, intCmp] using h
    rw [this]
  foreign := by intro op v; rfl

-- `ffi.cast("int", 5) == ffi.cast("long", 5)`: True, and the hashes agree
example : binop intOps .eq (.cdata 1 (.prim 5)) (.cdata 2 (.prim 5)) false = .ok true := rfl
example : objHash intOps (.cdata 1 (.prim 5)) = objHash intOps (.cdata 2 (.prim (5 : Int))) :=
  eq_imp_hash_eq intOps intOps_contract _ _ false (Or.inl rfl) (fun h => absurd h (by decide)) rfl
-- two pointer cdata of different types at one address
example : binop intOps .eq (.cdata 1 (.ptrlike 4096)) (.cdata 2 (.ptrlike 4096)) true = .ok true := rfl
-- addresses above 2^63 compare as unsigned
example : binop intOps .lt (.cdata 1 (.ptrlike 4096)) (.cdata 2 (.ptrlike (2 ^ 64 - 8))) false = .ok true := rfl
-- pointer against primitive: `==` False, `<` TypeError
example : binop intOps .eq (.cdata 1 (.ptrlike 0)) (.cdata 2 (.prim 0)) false = .ok false := rfl
example : binop intOps .lt (.cdata 1 (.ptrlike 0)) (.py 2 0) false = .error .typeError := rfl
example : binop intOps .ge (.py 1 7) (.cdata 2 (.prim 7)) false = .ok true := rfl
example : hashPointer (2 ^ 64 - 1) = -2 := by decide
example : pyIntHash (-1) = -2 ∧ pyIntHash (2 ^ 61 - 1) = 0 ∧ pyIntHash (2 ^ 61) = 1 := by decide

end CffiVerif.C17
