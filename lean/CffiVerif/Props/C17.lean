import CffiVerif.Proofs.Compare

/-!
C17 — cdata equality, ordering and hashing are mutually consistent.

Statement on the model: for two objects of which at least one is a cdata,
`a == b` (as Python evaluates it, reflected dispatch included) implies
`hash(a) = hash(b)`; pointer-like cdata compare with all six operators as their
addresses; primitive cdata compare and hash as the Python value they convert
to; pointer-like against anything else is `NotImplemented`.

The model evaluates the flag tests, comparisons, operand order and hashed
pointer that `translate/c17_exprs.py` re-extracts from `cdata_richcompare` and
`cdata_hash` (`Generated/CompareExprs.lean`); the theorems go through the
meaning lemmas of `Proofs/Compare.lean`.  "Pointer-like" is `isPtrFlags flags`
(no `CT_PRIMITIVE_*` base flag), "primitive" its negation.

The contract of the Python values themselves is a hypothesis (`PyContract`),
not an axiom: CPython's `int`/`float`/`bool`/`bytes`/`str` satisfy it.
-/
namespace CffiVerif.C17
open CffiVerif.Compare CffiVerif.Generated

/-! ## the generated tests mean what the model's kinds mean -/

/-- `v_is_ptr`, `w_is_ptr` and the test of `cdata_hash` are all "no
`CT_PRIMITIVE_*` base flag", and the three branches of `cdata_richcompare` are
both / exactly one / none. -/
theorem generated_tests_meaning (f : Nat) (c a b : Bool) :
    CompareExprs.vIsPtrTest f = isPtrFlags f ∧
    CompareExprs.wIsPtrTest c f = (c && isPtrFlags f) ∧
    CompareExprs.hashPrimTest f = (!isPtrFlags f) ∧
    CompareExprs.bothPtr a b = (a && b) ∧ CompareExprs.onePtr a b = (a || b) :=
  ⟨vIsPtrTest_eq f, wIsPtrTest_eq c f, hashPrimTest_eq f, rfl, rfl⟩

/-- Every base flag is classified as the property says: pointer, array, struct,
union, function pointer are pointer-like; the five primitive kinds (with or
without `CT_IS_LONGDOUBLE`, `CT_IS_BOOL`, `CT_IS_ENUM`) are not. -/
theorem base_flags_classified :
    isPtrFlags CompareExprs.CT_POINTER = true ∧ isPtrFlags CompareExprs.CT_ARRAY = true ∧
    isPtrFlags CompareExprs.CT_STRUCT = true ∧ isPtrFlags CompareExprs.CT_UNION = true ∧
    isPtrFlags CompareExprs.CT_FUNCTIONPTR = true ∧
    isPtrFlags (CompareExprs.CT_PRIMITIVE_SIGNED ||| CompareExprs.CT_IS_ENUM) = false ∧
    isPtrFlags (CompareExprs.CT_PRIMITIVE_UNSIGNED ||| CompareExprs.CT_IS_BOOL) = false ∧
    isPtrFlags CompareExprs.CT_PRIMITIVE_CHAR = false ∧ isPtrFlags CompareExprs.CT_PRIMITIVE_FLOAT = false ∧
    isPtrFlags (CompareExprs.CT_PRIMITIVE_FLOAT ||| CompareExprs.CT_IS_LONGDOUBLE) = false ∧
    isPtrFlags CompareExprs.CT_PRIMITIVE_COMPLEX = false := by decide

/-! ## pointer-like cdata -/

/-- Pointer, array, struct, union and function cdata compare exactly as their
addresses, for all six operators — at the slot level … -/
theorem ptr_cmp_is_addr_cmp {V} (P : PyOps V) (op : Op) (v w : CData V) (oid : Nat)
    (hv : isPtrFlags v.flags = true) (hw : isPtrFlags w.flags = true) :
    richcompare P op v (.cdata oid w) = .bool (addrCmp op v.addr w.addr) ∧
    (addrCmp .eq v.addr w.addr = true ↔ v.addr = w.addr) ∧ (addrCmp .ne v.addr w.addr = true ↔ v.addr ≠ w.addr) ∧
    (addrCmp .lt v.addr w.addr = true ↔ v.addr < w.addr) ∧ (addrCmp .le v.addr w.addr = true ↔ v.addr ≤ w.addr) ∧
    (addrCmp .gt v.addr w.addr = true ↔ v.addr > w.addr) ∧ (addrCmp .ge v.addr w.addr = true ↔ v.addr ≥ w.addr) := by
  refine ⟨?_, addrCmp_spec v.addr w.addr⟩
  unfold richcompare
  rw [isPtr_cdata, isPtr_flags, isPtr_flags, hv, hw]
  rfl

/-- … and as Python evaluates `x op y`, whichever of the two cdata types is the
subtype. -/
theorem ptr_binop_is_addr_cmp {V} (P : PyOps V) (op : Op) (v w : CData V) (o1 o2 : Nat) (bSub : Bool)
    (hv : isPtrFlags v.flags = true) (hw : isPtrFlags w.flags = true) :
    binop P op (.cdata o1 v) (.cdata o2 w) bSub = .ok (addrCmp op v.addr w.addr) := by
  have h1 := (ptr_cmp_is_addr_cmp P op v w o2 hv hw).1
  have h2 := (ptr_cmp_is_addr_cmp P op.swap w v o1 hw hv).1
  cases bSub <;> simp [binop, slot, h1, h2, addrCmp_swap]

/-! ## primitive cdata -/

/-- Primitive cdata compare as the Python value they convert to: against
another primitive cdata and against a plain Python value, for every operator. -/
theorem prim_cmp_is_value_cmp {V} (P : PyOps V) (op : Op) (v w : CData V) (x y : V) (oid : Nat)
    (hv : isPtrFlags v.flags = false) (hvc : v.conv = .value x)
    (hw : isPtrFlags w.flags = false) (hwc : w.conv = .value y) :
    richcompare P op v (.cdata oid w) = resOf (P.cmp op x y) ∧
    richcompare P op v (.py oid y) = resOf (P.cmp op x y) := by
  constructor
  · unfold richcompare
    rw [isPtr_cdata, isPtr_flags, isPtr_flags, hv, hw]
    simp [CompareExprs.bothPtr, CompareExprs.onePtr, CData.toValue, Obj.toValue, hvc, hwc, delegate_order]
  · unfold richcompare
    rw [isPtr_py, isPtr_flags, hv]
    simp [CompareExprs.bothPtr, CompareExprs.onePtr, CData.toValue, Obj.toValue, hvc, delegate_order]

/-- … and hash as that value. -/
theorem prim_hash_is_value_hash {V} (P : PyOps V) (self : Nat) (v : CData V) (x : V)
    (hv : isPtrFlags v.flags = false) (hvc : v.conv = .value x) : cdataHash P self v = P.hash x := by
  unfold cdataHash
  rw [hashPrimTest_eq, hv, hvc]
  rfl

/-- As Python evaluates it: `cdata op value`, `value op cdata` (reflected, the
value's own slot answers `NotImplemented`) and `cdata op cdata` all give the
value comparison. -/
theorem prim_binop_is_value_cmp {V} (P : PyOps V) (hP : PyContract P) (op : Op) (v w : CData V) (x y : V)
    (o1 o2 : Nat)
    (hv : isPtrFlags v.flags = false) (hvc : v.conv = .value x)
    (hw : isPtrFlags w.flags = false) (hwc : w.conv = .value y) :
    binop P op (.cdata o1 v) (.py o2 y) false = P.cmp op x y ∧
    binop P op (.py o1 x) (.cdata o2 w) false = P.cmp op.swap y x ∧
    binop P op (.cdata o1 v) (.cdata o2 w) false = P.cmp op x y ∧
    binop P op (.cdata o1 v) (.cdata o2 w) true = P.cmp op.swap y x := by
  have a1 := prim_cmp_is_value_cmp P op v w x y o2 hv hvc hw hwc
  have a2 := prim_cmp_is_value_cmp P op.swap w v y x o1 hw hwc hv hvc
  refine ⟨?_, ?_, ?_, ?_⟩
  · simp only [binop, slot, a1.2]
    cases h : P.cmp op x y <;> simp [resOf]
  · simp only [binop, slot, hP.foreign, a2.2]
    cases h : P.cmp op.swap y x <;> simp [resOf]
  · simp only [binop, slot, a1.1]
    cases h : P.cmp op x y <;> simp [resOf]
  · simp only [binop, slot, a2.1]
    cases h : P.cmp op.swap y x <;> simp [resOf]

/-- A primitive cdata that converts to a cdata again (`long double`) cannot be
compared: `NotImplementedError`, on either side. -/
theorem longdouble_cmp_raises {V} (P : PyOps V) (op : Op) (v l : CData V) (x : V) (oid : Nat) (w : Obj V)
    (hl : isPtrFlags l.flags = false) (hlc : l.conv = .cdataAgain)
    (hv : isPtrFlags v.flags = false) (hvc : v.conv = .value x)
    (hw : w.isPtr = false) :
    richcompare P op l w = .raise .notImplementedError ∧
    richcompare P op v (.cdata oid l) = .raise .notImplementedError := by
  constructor
  · unfold richcompare
    rw [isPtr_flags, hl, hw]
    simp [CompareExprs.bothPtr, CompareExprs.onePtr, CData.toValue, hlc]
  · unfold richcompare
    rw [isPtr_cdata, isPtr_flags, isPtr_flags, hv, hl]
    simp [CompareExprs.bothPtr, CompareExprs.onePtr, CData.toValue, Obj.toValue, hvc, hlc]

/-! ## mixed -/

/-- Pointer-like against anything that is not pointer-like (a primitive cdata,
a `long double`, any Python value), in either position: `NotImplemented`. -/
theorem mixed_is_notimplemented {V} (P : PyOps V) (op : Op) (v : CData V) (w : Obj V)
    (h : v.isPtr ≠ w.isPtr) : richcompare P op v w = .notImplemented := by
  unfold richcompare
  cases hv : v.isPtr <;> cases hw : w.isPtr <;> simp_all [CompareExprs.bothPtr, CompareExprs.onePtr]

/-- What Python makes of it for built-in values: `==` is `False`, `!=` is
`True` (two different objects), every ordering raises `TypeError`. -/
theorem mixed_binop {V} (P : PyOps V) (hP : PyContract P) (op : Op) (a b : Obj V) (bSub : Bool)
    (hcd : a.isCData = true ∨ b.isCData = true) (h : a.isPtr ≠ b.isPtr) (hid : a.oid ≠ b.oid) :
    binop P op a b bSub =
      match op with
      | .eq => .ok false
      | .ne => .ok true
      | _ => .error .typeError := by
  have key : ∀ (op : Op) (a b : Obj V), (a.isCData = true ∨ b.isCData = true) → a.isPtr ≠ b.isPtr →
      slot P op a b = .notImplemented := by
    intro op a b hcd h
    cases a with
    | cdata o c => exact mixed_is_notimplemented P op c b (by rw [← isPtr_cdata c o]; exact h)
    | py o v => exact hP.foreign op v
  have k1 := key op a b hcd h
  have k2 := key op.swap b a hcd.symm (Ne.symm h)
  have hne : (a.oid == b.oid) = false := by simpa using hid
  cases bSub <;> cases op <;> simp [binop, k1, k2, hne, hid]

/-! ## equality implies equal hashes -/

/-- **`a == b` implies `hash(a) == hash(b)`** whenever at least one of the two
is a cdata (and distinct objects have distinct identities). -/
theorem eq_imp_hash_eq {V} (P : PyOps V) (hP : PyContract P) (a b : Obj V) (bSub : Bool)
    (_hcd : a.isCData = true ∨ b.isCData = true)
    (hid : a.oid = b.oid → a = b)
    (heq : binop P .eq a b bSub = .ok true) :
    objHash P a = objHash P b := by
  -- same object: trivially equal hashes
  by_cases hsame : a.oid = b.oid
  · rw [hid hsame]
  have hne : (a.oid == b.oid) = false := by simpa using hsame
  -- slot-level fact: a `True` from either slot gives equal hashes
  have slotEq : ∀ (a b : Obj V), slot P .eq a b = .bool true → objHash P a = objHash P b := by
    intro a b hs
    cases a with
    | py o v => rw [slot, hP.foreign] at hs; cases hs
    | cdata o c =>
      simp only [slot, richcompare] at hs
      cases hc : c.isPtr <;> cases hb : b.isPtr <;>
        simp only [hc, hb, CompareExprs.bothPtr, CompareExprs.onePtr, Bool.and_true, Bool.and_false,
          Bool.or_true, Bool.or_false, Bool.and_self, Bool.or_self, if_true] at hs
      · -- neither pointer-like: delegated to the values
        rw [isPtr_flags] at hc
        cases hcv : c.conv with
        | cdataAgain => simp [CData.toValue, hcv] at hs
        | value x =>
          have hA : objHash P (.cdata o c) = P.hash x := prim_hash_is_value_hash P o c x hc hcv
          cases b with
          | py o' y =>
            simp only [CData.toValue, hcv, Obj.toValue, (delegate_order x y).1, (delegate_order x y).2] at hs
            cases h : P.cmp .eq x y with
            | error e => rw [h] at hs; simp [resOf] at hs
            | ok r =>
              rw [h] at hs; simp [resOf] at hs; subst hs
              rw [hA]; exact hP.eq_hash x y h
          | cdata o' c' =>
            rw [isPtr_cdata, isPtr_flags] at hb
            cases hcv' : c'.conv with
            | cdataAgain => simp [CData.toValue, Obj.toValue, hcv, hcv'] at hs
            | value y =>
              have hB : objHash P (.cdata o' c') = P.hash y := prim_hash_is_value_hash P o' c' y hb hcv'
              simp only [CData.toValue, hcv, hcv', Obj.toValue, (delegate_order x y).1, (delegate_order x y).2] at hs
              cases h : P.cmp .eq x y with
              | error e => rw [h] at hs; simp [resOf] at hs
              | ok r =>
                rw [h] at hs; simp [resOf] at hs; subst hs
                rw [hA, hB]; exact hP.eq_hash x y h
      · cases hs
      · cases hs
      · -- both pointer-like: equal addresses
        cases b with
        | py o' y => rw [isPtr_py] at hb; cases hb
        | cdata o' c' =>
          rw [isPtr_cdata, isPtr_flags] at hb
          rw [isPtr_flags] at hc
          simp only [Res.bool.injEq] at hs
          have hxy : c.addr = c'.addr := (addrCmp_spec c.addr c'.addr).1.mp hs
          simp only [objHash, cdataHash, hashPrimTest_eq, hc, hb, hashedPointer_eq, hxy]
          rfl
  -- the dispatch only ever returns `True` out of one of the two slots
  have hsw : Op.swap .eq = .eq := rfl
  cases bSub
  · simp only [binop, hsw, hne] at heq
    cases h1 : slot P .eq a b with
    | bool r => rw [h1] at heq; simp at heq; subst heq; exact slotEq a b h1
    | raise e => rw [h1] at heq; simp at heq
    | notImplemented =>
      rw [h1] at heq
      cases h2 : slot P .eq b a with
      | bool r => rw [h2] at heq; simp at heq; subst heq; exact (slotEq b a h2).symm
      | raise e => rw [h2] at heq; simp at heq
      | notImplemented => rw [h2] at heq; simp at heq
  · simp only [binop, hsw, hne] at heq
    cases h2 : slot P .eq b a with
    | bool r => rw [h2] at heq; simp at heq; subst heq; exact (slotEq b a h2).symm
    | raise e => rw [h2] at heq; simp at heq
    | notImplemented =>
      rw [h2] at heq
      cases h1 : slot P .eq a b with
      | bool r => rw [h1] at heq; simp at heq; subst heq; exact slotEq a b h1
      | raise e => rw [h1] at heq; simp at heq
      | notImplemented => rw [h1] at heq; simp at heq

/-- Pointer-like cdata hash by their address whatever their types (`int *`,
`char[4]`, a struct at that address …) and whatever object carries it, and
the pointer hash never takes the reserved value −1. -/
theorem ptr_hash_by_address {V} (P : PyOps V) (self : Nat) (c : CData V) (h : isPtrFlags c.flags = true) :
    cdataHash P self c = .ok (hashPointer c.addr) ∧ hashPointer c.addr ≠ -1 := by
  constructor
  · simp [cdataHash, hashPrimTest_eq, h, hashedPointer_eq]
  · unfold hashPointer
    simp only []
    split <;> omega

/-! ## non-vacuity: Python `int` values satisfy the contract -/

theorem intOps_contract : PyContract intOps where
  eq_hash := by
    intro a b h
    have : a = b := by simpa [intOps, intCmp] using h
    rw [this]
  foreign := by intro op v; rfl

-- `ffi.cast("int", 5) == ffi.cast("long", 5)`: True, and the hashes agree
example : binop intOps .eq (.cdata 1 (.prim 5)) (.cdata 2 (.prim 5)) false = .ok true := rfl
example : objHash intOps (.cdata 1 (.prim 5)) = objHash intOps (.cdata 2 (.prim (5 : Int))) :=
  eq_imp_hash_eq intOps intOps_contract _ _ false (Or.inl rfl) (fun h => absurd h (by decide)) rfl
-- two pointer cdata of different types at one address
example : binop intOps .eq (.cdata 1 (.ptrlike 4096)) (.cdata 2 (.ptrlike 4096 CompareExprs.CT_ARRAY)) true = .ok true := rfl
-- addresses above 2^63 compare as unsigned
example : binop intOps .lt (.cdata 1 (.ptrlike 4096)) (.cdata 2 (.ptrlike (2 ^ 64 - 8))) false = .ok true := rfl
-- pointer against primitive: `==` False, `<` TypeError
example : binop intOps .eq (.cdata 1 (.ptrlike 0)) (.cdata 2 (.prim 0)) false = .ok false := rfl
example : binop intOps .lt (.cdata 1 (.ptrlike 0)) (.py 2 0) false = .error .typeError := rfl
example : binop intOps .ge (.py 1 7) (.cdata 2 (.prim 7)) false = .ok true := rfl
example : binop intOps .eq (.cdata 1 (.longdouble 64)) (.py 2 7) false = .error .notImplementedError := rfl
-- the hypotheses of the kind-specific theorems are met by the harness's constructors
example : isPtrFlags (CData.ptrlike 8 : CData Int).flags = true ∧ isPtrFlags (CData.prim (3 : Int)).flags = false ∧
    isPtrFlags (CData.longdouble 8 : CData Int).flags = false := by decide
example : hashPointer (2 ^ 64 - 1) = -2 := by decide
example : pyIntHash (-1) = -2 ∧ pyIntHash (2 ^ 61 - 1) = 0 ∧ pyIntHash (2 ^ 61) = 1 := by decide

end CffiVerif.C17
