import CffiVerif.Proofs.IntPaths

/-!
C03 — integer stores accept exactly the type's range and round-trip.

Statement on the model.  `T` ranges over *every* integer primitive
`(width ∈ {1,2,4,8} bytes, kind ∈ {signed, unsigned, _Bool})` — a superset of
the EPTYPE table, which `table_matches_source` ties to the regenerated
`Generated.IntMacros.primTypes` — and `v` over every Python int (`Int`).

  path A  `convertFromObject`   — `convert_from_object` (ffi.new initialiser, item, field,
                                   global variable, libffi call argument, enum arguments)
  path B  `apiArg`              — `_cffi_to_c_int` / `_cffi_to_c__Bool` + the emitted error check
                                   (API-mode call argument); macro conditions, instantiations,
                                   dispatch and return types come from `Generated/IntMacros.lean`
  callback `callbackResult`     — `convert_from_object_fficallback` + error path of
                                   `general_invoke_callback`
-/
namespace CffiVerif.C03
open CffiVerif.CInt CffiVerif.IntPaths CffiVerif.Generated

/-! ### the type table -/

def kindName : Kind → String
  | .signed => "signed" | .unsigned => "unsigned" | .bool => "bool" | .char => "char" | .swchar => "swchar"

/-- The model's table is exactly the table extracted from the source (names, gcc's sizes, kinds
from the flags), up to order. -/
theorem table_matches_source :
    (∀ T ∈ castTypes, (T.name, T.bytes, kindName T.kind) ∈ IntMacros.primTypes) ∧
    castTypes.length = IntMacros.primTypes.length ∧ (castTypes.map (·.name)).Nodup := by
  decide

/-- every entry of `intTypes` is an integer primitive, so the theorems below apply to it -/
theorem intTypes_isInt : ∀ T ∈ intTypes, T.isInt = true := by decide

example : intTypes.length = 42 := by decide

/-! ### path A: `convert_from_object` -/

/-- **accept iff in range** (path A). -/
theorem store_accepts_iff_in_range (T : IntType) (hT : T.isInt = true) (data : List UInt8) (v : Int) :
    (convertFromObject T data v).2 = .ok () ↔ T.InRange v := by
  rw [convert_eq T hT]
  by_cases h : T.InRange v <;> simp [h]

/-- **a rejected store raises OverflowError and writes nothing.** -/
theorem reject_writes_nothing (T : IntType) (hT : T.isInt = true) (data : List UInt8) (v : Int)
    (h : ¬ T.InRange v) : convertFromObject T data v = (data, .error .overflow) := by
  rw [convert_eq T hT]; simp [h]

/-- **read after store**: an accepted store is read back as exactly `v`; the bytes after the
object are untouched and the region keeps its length. -/
theorem read_after_store (T : IntType) (hT : T.isInt = true) (data : List UInt8) (v : Int)
    (h : T.InRange v) :
    readInt T (convertFromObject T data v).1 = .ok v ∧
    (convertFromObject T data v).1.drop T.bytes = data.drop T.bytes ∧
    (T.bytes ≤ data.length → (convertFromObject T data v).1.length = data.length) := by
  have hb : T.bytes = (writeRaw v T.width).length := by rw [writeRaw_length]; rfl
  rw [convert_eq T hT]
  simp only [h, if_true]
  refine ⟨readInt_writeRaw T hT v h _ (by rw [hb, poke_take]), by rw [hb, poke_drop], fun hl => ?_⟩
  exact poke_length _ _ (by rw [← hb]; exact hl)

example : (mk "short" .w16 .signed).InRange (-32768) := by decide
example : ¬ (mk "short" .w16 .signed).InRange 32768 := by decide
example : convertFromObject (mk "short" .w16 .signed) [0x11, 0x22, 0x33] (-2) = ([0xfe, 0xff, 0x33], .ok ()) := by
  rfl
example : convertFromObject (mk "_Bool" .w8 .bool) [0x55] 2 = ([0x55], .error .overflow) := by rfl
example : convertFromObject (mk "uint64_t" .w64 .unsigned) [1, 2, 3, 4, 5, 6, 7, 8] (2 ^ 64) =
    ([1, 2, 3, 4, 5, 6, 7, 8], .error .overflow) := by rfl

/-! ### path B: API-mode arguments; the regenerated macros -/

/-- **macro bounds exact (signed)**: for every instantiation `_cffi_to_c_SIGNED_FN(_, N)` in the
source, the condition written in the macro is true exactly outside `[-2^(N-1), 2^(N-1)-1]`. -/
theorem signed_macro_bounds_exact : ∀ f ∈ IntMacros.signedFns, ∀ t : BitVec 64,
    IntMacros.signedOverflow f.1 t = decide (t.toInt > 2 ^ (f.1 - 1) - 1 ∨ t.toInt < -(2 ^ (f.1 - 1))) :=
  IntPaths.signed_macro_bounds_exact

/-- **macro bounds exact (unsigned)**: `tmp > ~((ULL)-2 << (N-1))` means `tmp > 2^N - 1`. -/
theorem unsigned_macro_bounds_exact : ∀ f ∈ IntMacros.unsignedFns, ∀ t : BitVec 64,
    IntMacros.unsignedOverflow f.1 t = decide (t.toNat > 2 ^ f.1 - 1) :=
  IntPaths.unsigned_macro_bounds_exact

/-- no shift in the macros has an out-of-range count (no undefined behaviour), at any instantiation -/
theorem macro_shift_counts_in_range :
    (∀ f ∈ IntMacros.signedFns, ∀ c ∈ IntMacros.signedShiftCounts f.1, 0 ≤ c ∧ c < 64) ∧
    (∀ f ∈ IntMacros.unsignedFns, ∀ c ∈ IntMacros.unsignedShiftCounts f.1, 0 ≤ c ∧ c < 64) := by
  decide

example : IntMacros.signedFns.length = 4 ∧ IntMacros.unsignedFns.length = 4 ∧ IntMacros.dispatch.length = 4 := by
  decide
example : IntMacros.signedOverflow 8 (bv 128) = true ∧ IntMacros.signedOverflow 8 (bv 127) = false := by decide

/-- the if/else chain of `_cffi_to_c__Bool`, as extracted from the source, is: 0 ↦ 0, 1 ↦ 1, anything
else ↦ `(_Bool)-1` = 1 with the pending exception, or OverflowError from `_convert_overflow` -/
theorem toCBool_chain_meaning (v : Int) :
    toCBool v = .ok (if v = 0 then (0, none) else if v = 1 then (1, none) else (1, some .overflow)) := by
  rw [toCBool_eq_hand, toCBoolHand_closed]

/-- the check the code generator really emits after converting an argument of type `T` means
`x0 == (type)-1 && PyErr_Occurred()` on `T`'s values -/
theorem emitted_check_meaning (T : IntType) (hk : T.kind = .signed ∨ T.kind = .unsigned) (x0 : Int)
    (hx : T.InRange x0) (e : Bool) : argCheck T x0 e = (decide (x0 = T.wrap (-1)) && e) :=
  argCheck_spec T hk x0 hx e

/-- every integer primitive gets, in the emitted code, `_cffi_to_c_int` / `_cffi_to_c__Bool` followed by
the check of its own width and signedness (the one `argCheck` applies) -/
theorem emitted_checks_cover_types :
    (∀ T ∈ intTypes, (T.name, argCheckName T) ∈ CastExprs.argChecks) ∧ CastExprs.argChecks.length = intTypes.length := by
  decide

/-- closed form of path B: it accepts exactly the range, passes exactly `v`'s representation, and
otherwise raises OverflowError (never calls the C function with an exception set, never `fatal`). -/
theorem apiArg_eq (T : IntType) (hT : T.isInt = true) (v : Int) :
    apiArg T v = if T.InRange v then .ok (writeRaw v T.width) else .error .overflow := by
  rw [apiArg_eq_hand]
  rcases T with ⟨name, w, k⟩
  cases k
  · rw [apiArg_signed]
    simp only [IntType.InRange, IntType.lo, IntType.hi, IntType.bits]
    cases w <;> simp [Width.bits, Width.bytes] <;> congr 1 <;> simp <;> omega
  · rw [apiArg_unsigned]
    simp only [IntType.InRange, IntType.lo, IntType.hi, IntType.bits]
    cases w <;> simp [Width.bits, Width.bytes] <;> congr 1 <;> simp <;> omega
  · rw [apiArg_bool]
    simp only [IntType.InRange, IntType.lo, IntType.hi]
    rfl
  · simp [IntType.isInt] at hT
  · simp [IntType.isInt] at hT

/-- **accept iff in range** (path B). -/
theorem api_accepts_iff_in_range (T : IntType) (hT : T.isInt = true) (v : Int) :
    (∃ bs, apiArg T v = .ok bs) ↔ T.InRange v := by
  rw [apiArg_eq T hT]
  by_cases h : T.InRange v <;> simp [h]

/-- the C function receives exactly `v` -/
theorem api_read_after_store (T : IntType) (hT : T.isInt = true) (v : Int) (bs : List UInt8)
    (h : apiArg T v = .ok bs) : readInt T bs = .ok v ∧ bs.length = T.bytes := by
  rw [apiArg_eq T hT] at h
  by_cases hr : T.InRange v
  · simp only [hr, if_true, Except.ok.injEq] at h
    subst h
    refine ⟨readInt_writeRaw T hT v hr _ ?_, by rw [writeRaw_length]; rfl⟩
    exact List.take_of_length_le (by rw [writeRaw_length]; exact Nat.le_refl _)
  · simp [hr] at h

/-- **paths agree**: path B passes bytes `bs` iff path A stores the same bytes, and path B raises
`e` iff path A raises `e` (leaving the memory alone). -/
theorem paths_agree (T : IntType) (hT : T.isInt = true) (data : List UInt8) (v : Int) :
    (∀ bs, apiArg T v = .ok bs ↔ (convertFromObject T data v = (poke data bs, .ok ()) ∧ bs.length = T.bytes)) ∧
    (∀ e, apiArg T v = .error e ↔ convertFromObject T data v = (data, .error e)) := by
  rw [apiArg_eq T hT, convert_eq T hT]
  have hlen : (writeRaw v T.width).length = T.bytes := by rw [writeRaw_length]; rfl
  by_cases h : T.InRange v
  · simp only [h, if_true]
    refine ⟨fun bs => ⟨fun e => ?_, fun e => ?_⟩, fun e => by simp⟩
    · simp only [Except.ok.injEq] at e
      subst e
      exact ⟨rfl, hlen⟩
    · have e1 := congrArg (fun p => p.1.take T.bytes) e.1
      simp only at e1
      rw [← hlen, poke_take, hlen, ← e.2, poke_take] at e1
      rw [e1]
  · simp only [h, if_false]
    refine ⟨fun bs => by simp, fun e => ?_⟩
    simp

example : apiArg (mk "unsigned char" .w8 .unsigned) 255 = .ok [0xff] := by rfl
example : apiArg (mk "unsigned char" .w8 .unsigned) 256 = .error .overflow := by rfl
example : apiArg (mk "int" .w32 .signed) (-1) = .ok [0xff, 0xff, 0xff, 0xff] := by rfl
example : apiArg (mk "long" .w64 .signed) (2 ^ 63) = .error .overflow := by rfl
example : apiArg (mk "_Bool" .w8 .bool) 1 = .ok [1] := by rfl

/-! ### callback results -/

/-- **a callback returning an in-range value**: the C caller reads exactly `v`; for a libffi
callback of a type narrower than `ffi_arg` the whole 8-byte slot is `v` sign- or zero-extended
(the slot is an extension). -/
theorem callback_returns_value (T : IntType) (hT : T.isInt = true) (rawerr result : List UInt8)
    (v : Int) (encode : Bool) (h : T.InRange v) :
    readInt T (callbackResult T rawerr result v encode) = .ok v ∧
    (T.bytes < ffiArgBytes → encode = true →
      (callbackResult T rawerr result v encode).take ffiArgBytes = writeRaw v .w64) := by
  have ha := fficallback_accept T hT result v encode h
  unfold callbackResult
  rcases hp : fficallbackConvert T result v encode with ⟨r, o⟩
  rw [hp] at ha
  simp only at ha
  rcases ha with ⟨ho, ht, hx⟩
  subst ho
  exact ⟨readInt_writeRaw T hT v h r ht, hx⟩

/-- **a callback returning an out-of-range value**: the C caller finds the prepared error bytes. -/
theorem callback_returns_error_value (T : IntType) (hT : T.isInt = true) (rawerr result : List UInt8)
    (v : Int) (encode : Bool) (h : ¬ T.InRange v) :
    (callbackResult T rawerr result v encode).take rawerr.length = rawerr := by
  have hr := fficallback_reject T hT result v encode h
  unfold callbackResult
  rcases hp : fficallbackConvert T result v encode with ⟨r, o⟩
  rw [hp] at hr
  simp only at hr
  subst hr
  exact poke_take r rawerr

/-- the error bytes of `error=ev` exist iff `ev` is in range (otherwise `ffi.callback` raises
OverflowError); they are 8 bytes long and read back as `ev`. -/
theorem error_value_bytes (T : IntType) (hT : T.isInt = true) (encode : Bool) (ev : Int) :
    (¬ T.InRange ev → prepareRawErr T (some ev) encode = .error .overflow) ∧
    (T.InRange ev → ∃ raw, prepareRawErr T (some ev) encode = .ok raw ∧
      readInt T raw = .ok ev ∧ raw.length = ffiArgBytes) := by
  have hmax : max T.bytes ffiArgBytes = ffiArgBytes := Nat.max_eq_right (bytes_le_ffiArg T)
  constructor
  · intro h
    rw [prepareRawErr_some T hT]; simp [h]
  · intro h
    refine ⟨(fficallbackConvert T (List.replicate (max T.bytes ffiArgBytes) 0) ev encode).1, ?_, ?_, ?_⟩
    · rw [prepareRawErr_some T hT]; simp [h]
    · have ha := fficallback_accept T hT (List.replicate (max T.bytes ffiArgBytes) 0) ev encode h
      exact readInt_writeRaw T hT ev h _ ha.2.1
    · rw [fficallback_length T hT _ _ _ (by simp [hmax])]
      simp [hmax]

/-- without `error=` the error bytes are 8 zero bytes, read as 0 -/
theorem default_error_value (T : IntType) (hT : T.isInt = true) (encode : Bool) :
    ∃ raw, prepareRawErr T none encode = .ok raw ∧ readInt T raw = .ok 0 ∧ raw.length = ffiArgBytes := by
  have hmax : max T.bytes ffiArgBytes = ffiArgBytes := Nat.max_eq_right (bytes_le_ffiArg T)
  refine ⟨_, rfl, ?_, by simp [hmax]⟩
  rw [hmax]
  rcases T with ⟨n, w, k⟩
  cases k <;> cases w <;>
    first
    | (simp [IntType.isInt] at hT; done)
    | simp [readInt, IntType.bytes, Width.bytes, ffiArgBytes, readRawSigned, readRawUnsigned, fromLE, List.replicate]

example : callbackResult (mk "short" .w16 .signed) [0xf9, 0xff, 0xff, 0xff, 0xff, 0xff, 0xff, 0xff]
    [1, 2, 3, 4, 5, 6, 7, 8] (-5) true = [0xfb, 0xff, 0xff, 0xff, 0xff, 0xff, 0xff, 0xff] := by decide
example : callbackResult (mk "short" .w16 .signed) [0xf9, 0xff, 0xff, 0xff, 0xff, 0xff, 0xff, 0xff]
    [1, 2, 3, 4, 5, 6, 7, 8] 40000 true = [0xf9, 0xff, 0xff, 0xff, 0xff, 0xff, 0xff, 0xff] := by decide
example : prepareRawErr (mk "short" .w16 .signed) (some (-7)) true =
    .ok [0xf9, 0xff, 0xff, 0xff, 0xff, 0xff, 0xff, 0xff] := by rfl
example : prepareRawErr (mk "unsigned char" .w8 .unsigned) (some 256) true = .error .overflow := by rfl

end CffiVerif.C03
