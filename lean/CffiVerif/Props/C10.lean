import CffiVerif.Model.ConstExprProto   -- not used by the theorems: keeps the driver's imports fresh when Generated/ changes
import CffiVerif.Proofs.Enum
import CffiVerif.Generated.EnumPrim

/-!
C10 — enum values and underlying integer type match the C compiler.

`Enum.build` / `Enum.baseOfValues` / `Enum.nameOf` model `_build_enum_type`,
`EnumType.build_baseinttype` and the name dictionary of `b_new_enum_type`;
`GccEnum.build` / `GccEnum.baseType` specify gcc's `build_enumerator` / `finish_enum`.

The property quantifies over declarations the compiler accepts.  cffi accepts more (for
instance `enum { A = 2147483647, B }`, an "overflow in enumeration values" error for gcc):
`cffi_accepts_more`.  The value of an explicit enumerator is a C09 matter; `values_eq_c`
takes over C09's restriction (`exprOk`: a bare literal of any type, or all operands signed).
-/
namespace CffiVerif.C10
open CffiVerif.ConstExpr CffiVerif.CConstExpr CffiVerif.Enum
open CffiVerif.Generated
open CffiVerif.GccEnum (isLeaf exprOk itemsOk)

/-- **Values.**  Whenever gcc accepts the enumerator list (explicit values, implicit `+1` runs,
references to earlier enumerators and constants), cffi accepts it and gives every enumerator
gcc's value -- for lists of any length, starting from scopes that agree. -/
theorem values_eq_c (items : List GccEnum.CItem) (cenv : CConstExpr.Env) (penv : ConstExpr.Env)
    (hsame : EnvSame cenv penv) (hok : EnvOk cenv) (hitems : itemsOk cenv GccEnum.start items = true)
    (out : List (String × CType × Int)) (h : GccEnum.build cenv GccEnum.start items = some out) :
    Enum.build penv 0 (items.map CItem.toModel) = .ok (out.map fun x => (x.1, x.2.2)) :=
  build_agrees items cenv penv GccEnum.start 0 hsame hok
    (by intro t v hs
        simp only [GccEnum.start, Option.some.injEq, Prod.mk.injEq] at hs
        obtain ⟨rfl, rfl⟩ := hs
        exact ⟨rfl, by decide⟩)
    hitems out h

/-- **Underlying type.**  `build_baseinttype` picks the type gcc's `finish_enum` picks
(`int`, `unsigned int`, `long`, `unsigned long`: size and signedness), for every non-empty
list of values. -/
theorem base_eq_gcc (vals : List Int) (b : Base) :
    baseOfValues vals = .ok b ↔ GccEnum.baseType (range vals).1 (range vals).2 = some b.toCType := by
  unfold baseOfValues
  rw [baseType_eq _ _ (range_le vals)]
  cases hb : baseOfRange (range vals).1 (range vals).2 with
  | error e => simp
  | ok b' =>
    simp only [Except.ok.injEq, Option.some.injEq]
    constructor
    · rintro rfl; rfl
    · intro h; cases b' <;> cases b <;> first | rfl | (exact absurd h (by decide))

/-- The candidate selection and range tests translated from `EnumType.build_baseinttype` on this
run, with `sizeof(int) = 4`, `sizeof(long) = 8`, are the closed form `base_eq_gcc` reasons about:
signed candidates iff the smallest value is negative, `[-2^(8s-1), 2^(8s-sign))` per candidate. -/
theorem gen_build_baseinttype_is_modelled (lo hi : Int) :
    baseOfRange lo hi = baseOfRangeSpec lo hi :=
  baseOfRange_def lo hi

/-- **Rejection.**  cffi refuses the value list ("values don't all fit into either 'long' or
'unsigned long'", a `CDefError`) exactly when gcc has no integer type for it. -/
theorem rejected_iff_gcc_rejects (vals : List Int) :
    baseOfValues vals = .error .cdef ↔ GccEnum.baseType (range vals).1 (range vals).2 = none := by
  unfold baseOfValues
  rw [baseType_eq _ _ (range_le vals)]
  cases hb : baseOfRange (range vals).1 (range vals).2 with
  | ok b => simp
  | error e =>
    have : e = .cdef := by
      rw [baseOfRange_def] at hb
      unfold baseOfRangeSpec at hb
      repeat' split at hb
      all_goals cases hb
      all_goals rfl
    simp [this]

/-- The range tests are evaluated on the smallest and the largest value: both are values of the
list and bound all the others (so "fits" means every enumerator fits). -/
theorem range_bounds (v : Int) (vs : List Int) :
    ∀ x ∈ v :: vs, (range (v :: vs)).1 ≤ x ∧ x ≤ (range (v :: vs)).2 := by
  intro x hx
  simp only [range]
  rcases List.mem_cons.mp hx with rfl | hx
  · exact ⟨(listMin_le x vs).1, (le_listMax x vs).1⟩
  · exact ⟨(listMin_le v vs).2 x hx, (le_listMax v vs).2 x hx⟩

/-- **Names.**  `ffi.string` of an enum cdata holding `v` is the name of the *first declared*
enumerator with value `v`, or the decimal number if there is none. -/
theorem nameOf_first_declared (es : List (String × Int)) (v : Int) :
    nameOf es v = match es.find? (fun e => e.2 == v) with
                  | some e => e.1
                  | none => toString v := by
  unfold nameOf
  rw [dictGet_valueToName]
  cases es.find? (fun e => e.2 == v) <;> rfl

def lookup (tbl : List ((Nat × Nat) × Nat)) (k : Nat × Nat) : Option Nat :=
  (tbl.find? (fun e => e.1 == k)).map (·.2)

/-- The C name of the fixed-width type with that size and signedness. -/
def stdintName (size sign : Nat) : String :=
  (if sign = 1 then "int" else "uint") ++ toString (8 * size) ++ "_t"

/-- **API / out-of-line modes.**  For every (size, signedness) of an integer type, the Python
table of `EnumExpr.as_python_expr` and the C macro `_cffi_prim_int` (both regenerated from the
source on every run) name the same primitive, and `primitive_name[]` maps it to the fixed-width
type of exactly that size and signedness. -/
theorem prim_int_table_total_and_correct :
    ∀ size ∈ [1, 2, 4, 8], ∀ sign ∈ [0, 1],
      ∃ p, lookup EnumPrim.primIndexPy (size, sign) = some p ∧
           lookup EnumPrim.primIntC (size, sign) = some p ∧
           EnumPrim.primitiveName[p]? = some (stdintName size sign) := by
  decide

/-- The candidates and range tests of `build_baseinttype` in the source are the modelled ones. -/
theorem base_candidates_as_modelled :
    EnumPrim.candidates = [(1, Base.int.cname, Base.long.cname), (0, Base.uint.cname, Base.ulong.cname)] ∧
    EnumPrim.rangeTests =
      [("smallest_value >= ((-1) << (8*size1-1)) and largest_value < (1 << (8*size1-sign))", "btype1"),
       ("smallest_value >= ((-1) << (8*size2-1)) and largest_value < (1 << (8*size2-sign))", "btype2")] := by
  decide

/-- `enum { A = 2147483647, B }`: gcc rejects (overflow in enumeration values), cffi does not. -/
def overflowItems : List GccEnum.CItem :=
  [⟨"A", some (.int ⟨.dec, false, ['2', '1', '4', '7', '4', '8', '3', '6', '4', '7'], []⟩)⟩, ⟨"B", none⟩]

theorem cffi_accepts_more :
    GccEnum.build CConstExpr.Env.empty GccEnum.start overflowItems = none ∧
    Enum.build ConstExpr.Env.empty 0 (overflowItems.map CItem.toModel) =
      .ok [("A", 2147483647), ("B", 2147483648)] := by
  decide

-- Non-vacuity of `values_eq_c`: `enum { A = -1, B, C = 0x80000000, D = B + 5, E, F = 'a' }`
-- (negative, implicit runs, an unsigned literal beyond INT_MAX, a reference, a character).
def exItems : List GccEnum.CItem :=
  [⟨"A", some (.neg (.int ⟨.dec, false, ['1'], []⟩))⟩, ⟨"B", none⟩,
   ⟨"C", some (.int ⟨.hex, false, ['8', '0', '0', '0', '0', '0', '0', '0'], []⟩)⟩,
   ⟨"D", some (.bin .add (.ref "B") (.int ⟨.dec, false, ['5'], []⟩))⟩, ⟨"E", none⟩,
   ⟨"F", some (.chr 'a')⟩]

example : GccEnum.build CConstExpr.Env.empty GccEnum.start exItems =
    some [("A", .int, -1), ("B", .int, 0), ("C", .uint, 2147483648), ("D", .int, 5), ("E", .int, 6),
          ("F", .int, 97)] := by decide
example : itemsOk CConstExpr.Env.empty GccEnum.start exItems = true := by decide
example : Enum.build ConstExpr.Env.empty 0 (exItems.map CItem.toModel) =
    .ok [("A", -1), ("B", 0), ("C", 2147483648), ("D", 5), ("E", 6), ("F", 97)] := by decide
-- the underlying type of that enum: negative and > INT_MAX -> long, as gcc
example : baseOfValues [-1, 0, 2147483648, 5, 6, 97] = .ok .long := by decide
example : GccEnum.baseType (-1) 2147483648 = some CType.long := by decide
example : baseOfValues [0, 4294967295] = .ok .uint := by decide
example : baseOfValues [-1, 9223372036854775808] = .error .cdef := by decide
example : nameOf [("A", 1), ("B", 1), ("C", 2)] 1 = "A" := by decide
example : nameOf [("A", 1), ("B", 1), ("C", 2)] 7 = "7" := by decide

end CffiVerif.C10
