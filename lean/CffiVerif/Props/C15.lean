import CffiVerif.Proofs.CharArray

/-!
C15 — character arrays and strings round-trip, including the terminator.

On the models of `wchar_helper_3.h` (`Model/Utf16.lean`) and of
`convert_array_from_object` / `direct_newp` / `b_string` / `b_unpack`
(`Model/CharArray.lean`), for all three unit widths (`Width.w1` = `char`,
`signed char`, `unsigned char`; `w2` = `char16_t`; `w4` = `char32_t`, `wchar_t`):

* the length `ffi.new` allocates for a `str` equals what the copy loop writes;
* decoding what was encoded gives the `str` back (UTF-16: unless a lone high
  surrogate is directly followed by a lone low surrogate);
* `ffi.string` returns the longest zero-free prefix inside its window,
  `ffi.unpack` returns exactly `n` units;
* storing a shorter string into a fixed-size array writes the string, one zero
  unit, and nothing else; an exactly fitting one gets no terminator; a longer one
  is rejected (IndexError) before anything is stored;
* `ffi.string(ffi.new("T[]", s)) == s`.
-/
namespace CffiVerif.C15
open CffiVerif.Utf16 CffiVerif.CharArray

/-! ### UTF-16 -/

/-- The number of units `_my_PyUnicode_SizeAsChar16` announces (and `direct_newp`
allocates room for) is exactly the number of units the loop of
`_my_PyUnicode_AsChar16` stores: no overrun, no unit left unwritten. -/
theorem size16_eq_length_encode16 (s : Str) (u : Units) (h : encode16 s = .ok u) :
    u.length = size16 s :=
  encode16_length s u h

/-- Every `str` CPython can hold is encodable (the ValueError branch is dead for them)… -/
theorem encode16_total (s : Str) (hv : ValidStr s) : ∃ u, encode16 s = .ok u :=
  encode16_ok_of_valid s hv

/-- …and the branch rejects exactly code points above 0x10FFFF. -/
theorem encode16_rejects_out_of_range (c : Nat) (cs : Str) (h : c > 0x10FFFF) :
    encode16 (c :: cs) = .error .valueError := by
  rw [encode16_cons]
  have h1 : c > 0xFFFF := by omega
  simp [h1, h]

/-- `PyUnicode_New(size - count_surrogates, …)` in `_my_PyUnicode_FromChar16` has
exactly the length its second loop fills. -/
theorem decode16_length_eq_alloc (w : Units) : (decode16 w).length + countPairs w = w.length := by
  rw [decode16_eq_decodeLoop]; exact decodeLoop_length w

/-
Full statement (false, see `decode16_encode16_fails_at_adjacent_lone_surrogates`):
    ∀ s u, encode16 s = .ok u → decode16 u = s
Known finding class "C15/adjacent-lone-surrogates": inherent to UTF-16, the two-code-point
str '😀' is stored as the same two units as the one-code-point str '\U0001F600'.
-/
/-- Reading back what was stored gives the `str`, provided no lone high surrogate
is directly followed by a lone low surrogate. -/
theorem decode16_encode16_partial (s : Str) (u : Units)
    (hn : noAdjacentLoneSurrogatePair s = true) (h : encode16 s = .ok u) : decode16 u = s := by
  rw [decode16_eq_decodeLoop]; exact decodeLoop_encode16 s u hn h

example : noAdjacentLoneSurrogatePair [0x61, 0x1F600, 0xDE00, 0xD83D, 0x10FFFF] = true := by decide
example : encode16 [0x61, 0x1F600, 0xDE00, 0xD83D] = .ok [0x61, 0xD83D, 0xDE00, 0xDE00, 0xD83D] := by decide

/-- The negation of the unrestricted round trip, at the witness `[0xD83D, 0xDE00]`. -/
theorem decode16_encode16_fails_at_adjacent_lone_surrogates :
    ¬ (∀ s u, encode16 s = .ok u → decode16 u = s) := by
  intro h
  have := h [0xD83D, 0xDE00] [0xD83D, 0xDE00] (by decide)
  exact absurd this (by decide)

/-- The other direction holds for every unit sequence, lone surrogates included:
what `_my_PyUnicode_FromChar16` returns spells, in UTF-16, exactly the units read. -/
theorem encode16_decode16 (w : Units) (hw : Units16 w) : encode16 (decode16 w) = .ok w := by
  rw [decode16_eq_decodeLoop]; exact encode16_decodeLoop w hw

example : Units16 [0xDC00, 0xD800, 0xD800, 0xDC00, 0] := by unfold Units16; decide

/-! ### `ffi.string` and `ffi.unpack` -/

/-- `ffi.string(cd, maxlen)` converts the longest zero-free prefix of the window
(`maxlen` units if given, else the array length): it stops at the first zero unit,
and at the window's end if there is none.  All three scans (memchr, the 16- and
32-bit loops) obey the same specification. -/
theorem string_stops_at_first_zero (w : Width) (mem : Units) (maxlen arrayLen : Option Nat) (len : Nat)
    (hl : effLength maxlen arrayLen = some len) (h : len ≤ mem.length) :
    ffiString w mem maxlen arrayLen = toPython w ((mem.take len).takeWhile nz) := by
  have hc : cstringUnits w mem (some len) = .ok ((mem.take len).takeWhile nz) := by
    rw [cstringUnits_some]
    by_cases hw : w = Width.w1
    · simp only [hw, if_true, scanMemchr_spec mem len (Or.inl h), take_takeWhile_length]
    · simp only [hw, if_false, scanLoop_spec mem len (Or.inl h), take_takeWhile_length]
  simp only [ffiString, hl, hc]

/-- What "longest zero-free prefix of the window" means, spelled out. -/
theorem string_window_spec (mem : Units) (len : Nat) (h : len ≤ mem.length) (r : Units)
    (hr : r = (mem.take len).takeWhile nz) :
    r = mem.take r.length ∧ 0 ∉ r ∧ r.length ≤ len ∧ (r.length < len → mem[r.length]? = some 0) := by
  subst hr
  refine ⟨(take_takeWhile_length nz mem len).symm, ?_, ?_, ?_⟩
  · intro hm
    have hall := List.all_takeWhile (l := mem.take len) (p := nz)
    rw [List.all_eq_true] at hall
    have := hall 0 hm
    simp [nz] at this
  · have := (List.takeWhile_sublist (l := mem.take len) nz).length_le
    simp only [List.length_take] at this
    omega
  · -- the unit right after the prefix, when inside the window, is the zero that stopped the scan
    revert h
    induction mem generalizing len with
    | nil => intro h; simp at h; subst h; simp
    | cons a tl ih =>
      intro h
      cases len with
      | zero => simp
      | succ m =>
        simp only [List.take_succ_cons, List.takeWhile_cons]
        by_cases ha : a = 0
        · subst ha; simp [nz]
        · simp only [nz_of_ne ha, if_true, List.length_cons, List.getElem?_cons_succ]
          intro hlt
          exact ih m (by simpa using h) (by omega)

/-- A pointer without `maxlen`: the scan is unbounded and stops at the first zero
unit (which must exist in the memory the pointer may read). -/
theorem string_unbounded_stops_at_first_zero (w : Width) (mem : Units) (h : 0 ∈ mem) :
    ffiString w mem none none = toPython w (mem.takeWhile nz) := by
  have hc : cstringUnits w mem none = .ok (mem.takeWhile nz) := by
    rw [cstringUnits_none]
    simp only [scanUnbounded_spec mem h]
    have := take_takeWhile_length nz mem mem.length
    simp only [List.take_length] at this
    rw [this]
  simp only [ffiString, effLength_eq, hc]

/-- `maxlen`, when given, wins over the array length (even when larger). -/
theorem string_window_is_maxlen_else_array (maxlen arrayLen : Option Nat) :
    effLength maxlen arrayLen = (match maxlen with | some m => some m | none => arrayLen) :=
  effLength_eq maxlen arrayLen

example : ffiString .w2 [0x61, 0xD83D, 0xDE00, 0, 0x62, 0] none (some 6) = .ok (.str [0x61, 0x1F600]) := by decide
example : ffiString .w1 [0x61, 0x62, 0x63, 0] (some 2) (some 4) = .ok (.bytes [0x61, 0x62]) := by decide

/-- `ffi.unpack(cd, n)` converts exactly the first `n` units, zero units included. -/
theorem unpack_exactly_n (w : Width) (mem : Units) (n : Nat) (h : n ≤ mem.length) :
    ffiUnpack w mem n = toPython w (mem.take n) ∧ (mem.take n).length = n := by
  constructor
  · simp [ffiUnpack, unpackUnits, h]
  · simp [List.length_take]; omega

example : ffiUnpack .w1 [0x61, 0, 0x62, 0] 3 = .ok (.bytes [0x61, 0, 0x62]) := by decide

/-! ### storing a string into a fixed-size array -/

/-- Item/field assignment (or `ffi.new("T[len]", s)`) of a string that is shorter
than the array: afterwards the first `n` units are the string, unit `n` is zero,
and the units after it are unchanged.  For all three widths. -/
theorem assign_shorter_writes_terminator (w : Width) (len : Nat) (mem : Units) (init : PyVal) (u : Units)
    (hm : mem.length = len) (hu : unitsOf w init = .ok u) (hlt : u.length < len) :
    ∃ mem', convertArray w (some len) mem init = .ok mem' ∧
      mem'.length = len ∧
      mem'.take u.length = u ∧
      mem'[u.length]? = some 0 ∧
      mem'.drop (u.length + 1) = mem.drop (u.length + 1) := by
  refine ⟨_, convertArray_shorter w len mem init u hm hu hlt, ?_, ?_, ?_, ?_⟩
  · simp; omega
  · simp
  · simp
  · have : u.length + 1 = (u ++ [0]).length := by simp
    rw [this, List.drop_left]

example : convertArray .w2 (some 5) [0x77, 0x78, 0x79, 0x7A, 0] (.str [0x1F600]) =
    .ok [0xD83D, 0xDE00, 0, 0x7A, 0] := by decide

/-- A string that fills the array exactly is stored without a terminator. -/
theorem assign_exact_fit_no_terminator (w : Width) (len : Nat) (mem : Units) (init : PyVal) (u : Units)
    (hm : mem.length = len) (hu : unitsOf w init = .ok u) (heq : u.length = len) :
    convertArray w (some len) mem init = .ok u :=
  convertArray_exact w len mem init u hm hu heq

/-- A longer string is rejected with IndexError (nothing is stored). -/
theorem assign_too_long_raises (w : Width) (len : Nat) (mem : Units) (init : PyVal) (u : Units)
    (hu : unitsOf w init = .ok u) (hgt : u.length > len) :
    convertArray w (some len) mem init = .error .indexError :=
  convertArray_tooLong w len mem init u hu hgt

/-- `bytes` for a wide array / `str` for a byte array: TypeError. -/
theorem assign_wrong_kind_raises (w : Width) (ctLength : Option Nat) (mem : Units) (init : PyVal)
    (h : unitsOf w init = .error .typeError) :
    convertArray w ctLength mem init = .error .typeError := by
  cases w <;> cases init <;> simp only [unitsOf, reduceCtorEq] at h <;> try rfl
  -- char16_t ← str: encode16 never yields TypeError
  next s =>
    exfalso
    clear ctLength mem
    induction s with
    | nil => simp [encode16] at h
    | cons c cs ih =>
      rw [encode16_cons] at h
      split at h
      · split at h
        · simp at h
        · cases hr : encode16 cs with
          | ok r => simp [hr] at h
          | error e => simp only [hr] at h; injection h with h; exact ih (by rw [hr, h])
      · cases hr : encode16 cs with
        | ok r => simp [hr] at h
        | error e => simp only [hr] at h; injection h with h; exact ih (by rw [hr, h])

/-! ### `ffi.new("T[]", s)` and the round trip -/

/-- The strings the round trip is stated for: the right Python type for the item
width, no zero unit, code points CPython can hold, and — for UTF-16 — the
hypothesis of `decode16_encode16_partial`. -/
def RoundTrippable : Width → PyVal → Prop
  | .w1, .bytes b => 0 ∉ b
  | .w2, .str s => ValidStr s ∧ 0 ∉ s ∧ noAdjacentLoneSurrogatePair s = true
  | .w4, .str s => ValidStr s ∧ 0 ∉ s
  | .w1, .str _ => False
  | .w2, .bytes _ => False
  | .w4, .bytes _ => False

theorem roundTrippable_units (w : Width) (init : PyVal) (h : RoundTrippable w init) :
    ∃ u, unitsOf w init = .ok u ∧ 0 ∉ u ∧ toPython w u = .ok init := by
  cases w <;> cases init <;> simp only [RoundTrippable] at h
  · next b => exact ⟨b, rfl, h, rfl⟩
  · next s =>
    obtain ⟨u, hu⟩ := encode16_ok_of_valid s h.1
    refine ⟨u, hu, encode16_no_zero s u hu h.2.1, ?_⟩
    simp only [toPython, decode16_encode16_partial s u h.2.2 hu]
  · next s =>
    refine ⟨s, rfl, h.2, ?_⟩
    simp only [toPython]
    match s, h with
    | [], _ => rfl
    | [c], h =>
      have : c ≤ 0x10FFFF := h.1 c (by simp)
      have : ¬ c > 0x10FFFF := by omega
      simp [fromChar32, this]
    | _ :: _ :: _, _ => rfl

theorem takeWhile_nz_append_zero (u rest : Units) (h : 0 ∉ u) : (u ++ 0 :: rest).takeWhile nz = u := by
  induction u with
  | nil => simp [nz]
  | cons a tl ih =>
    have ha : a ≠ 0 := fun e => h (by simp [e])
    simp [nz_of_ne ha, ih (fun m => h (by simp [m]))]

/-- `ffi.new("T[]", s)` allocates one unit more than the string has, stores the
string and the terminator (in bounds), and `ffi.string` of the new array is `s`. -/
theorem new_char_array_roundtrip (w : Width) (init : PyVal) (h : RoundTrippable w init) :
    ∃ u mem, unitsOf w init = .ok u ∧ newOpen w init = .ok mem ∧ mem = u ++ [0] ∧
      ffiString w mem none (some mem.length) = .ok init := by
  obtain ⟨u, hu, hz, hp⟩ := roundTrippable_units w init h
  refine ⟨u, u ++ [0], hu, newOpen_eq w init u hu, rfl, ?_⟩
  have hs := string_stops_at_first_zero w (u ++ [0]) none (some (u ++ [0]).length) (u ++ [0]).length rfl
    (Nat.le_refl _)
  rw [hs]
  simp only [List.take_length]
  rw [takeWhile_nz_append_zero u [] hz, hp]

/-- The same for `ffi.new("T[len]", s)` with `len` at least the string's length —
including the exact fit, where there is no terminator and `ffi.string` stops at
the end of the array. -/
theorem new_fixed_char_array_roundtrip (w : Width) (len : Nat) (init : PyVal) (u : Units)
    (h : RoundTrippable w init) (hu : unitsOf w init = .ok u) (hle : u.length ≤ len) :
    ∃ mem, newFixed w len init = .ok mem ∧ mem.length = len ∧
      ffiString w mem none (some len) = .ok init := by
  obtain ⟨u', hu', hz, hp⟩ := roundTrippable_units w init h
  have : u' = u := by rw [hu] at hu'; injection hu' with e; exact e.symm
  subst this
  have hrep : (List.replicate len 0).length = len := by simp
  rcases Nat.lt_or_eq_of_le hle with hlt | heq
  · refine ⟨_, convertArray_shorter w len _ init u' hrep hu hlt, by simp; omega, ?_⟩
    rw [string_stops_at_first_zero w _ none _ len rfl (by simp; omega)]
    have : List.take len (u' ++ [0] ++ List.drop (u'.length + 1) (List.replicate len 0))
        = u' ++ 0 :: List.drop (u'.length + 1) (List.replicate len 0) := by
      rw [List.take_of_length_le (by simp; omega)]; simp
    rw [this, takeWhile_nz_append_zero u' _ hz, hp]
  · refine ⟨u', convertArray_exact w len _ init u' hrep hu heq, heq, ?_⟩
    rw [string_stops_at_first_zero w _ none _ len rfl (by omega)]
    rw [← heq, List.take_length, takeWhile_nz_eq_self u' hz, hp]

-- Non-vacuity: concrete strings of each width satisfy `RoundTrippable`.
example : RoundTrippable .w1 (.bytes [0x68, 0xFF, 0x80]) := by simp [RoundTrippable]
example : RoundTrippable .w2 (.str [0x68, 0x1F600, 0xDC00, 0xD800]) := by
  refine ⟨?_, by decide, by decide⟩
  unfold ValidStr; decide
example : RoundTrippable .w4 (.str [0x68, 0x10FFFF, 0xD800, 0xDC00]) := by
  refine ⟨?_, by decide⟩
  unfold ValidStr; decide
example : newOpen .w2 (.str [0x68, 0x1F600]) = .ok [0x68, 0xD83D, 0xDE00, 0] := by decide

end CffiVerif.C15
