import CffiVerif.Proofs.Callback

/-!
C14 — callbacks and `extern "Python"` pass values exactly and contain errors (partial).

Statements on the model `CffiVerif.Callback`: the 8-byte argument slots written by
the generated `extern "Python"` function and read by `general_invoke_callback`;
`convert_from_object_fficallback`; the error protocol.

Partial: libffi's closure dispatch and gcc's calling convention are external
(correspondence run only).  One class of inputs is a finding on the unchanged
tree (see `error_value_returned_partial`).
-/
namespace CffiVerif.C14
open CffiVerif.Call CffiVerif.Callback
set_option linter.unusedSimpArgs false

/-- **Argument slots**: what `general_invoke_callback` reads for argument `i` is
exactly what the generated function was called with — for every number of
arguments, every type of at most 8 bytes passed in its slot and every
struct/union/long double passed by reference, whatever the slot array contained
before. -/
theorem slot_roundtrip (m : Mem) (p : Nat) (args : List Arg)
    (hp : ∀ a ∈ args, Placed m p args.length a) (i : Nat) (hi : i < args.length) :
    readArg (pack m p args) p i (Arg.byRef args[i]) args[i].bytes.length = args[i].bytes := by
  have := packFrom_read m p 0 args.length args (by omega) hp i hi
  simpa [pack] using this

/-- All stores of the generated function stay inside `char a[max(8*n, 8)]`. -/
theorem packing_in_bounds (args : List Arg) (hv : ∀ a ∈ args, ∀ b, a = .val b → b.length ≤ 8)
    (i : Nat) (hi : i < args.length) :
    8 * i + args[i].slot.length ≤ bufferSize args.length := by
  have := slot_length_le args[i] (hv _ (List.getElem_mem hi))
  unfold bufferSize
  omega

/-! ### result encoding -/

/-- **The C caller receives exactly the converted return value** (both callback
kinds), nothing is reported and no exception is left pending. -/
theorem result_is_conversion (rt : RT) (encode : Bool) (rawerr : List UInt8) (onerr : OnErr)
    (buf : List UInt8) (o : RetObj) (bs : List UInt8)
    (hconv : convRes rt o = .ok bs) (hbuf : max rt.bytes 8 ≤ buf.length) :
    received rt (invoke rt encode rawerr (.returns o) onerr buf) = bs
    ∧ (invoke rt encode rawerr (.returns o) onerr buf).printed = 0
    ∧ (invoke rt encode rawerr (.returns o) onerr buf).pending = false := by
  obtain ⟨buf', h1, h2, _⟩ := encode_ok rt encode o buf bs hconv hbuf
  simp [invoke, h1, received, h2]

/-- **Small integer results of a libffi callback fill the whole `ffi_arg`**:
signed types are sign-extended (the 64-bit two's complement of the value),
unsigned, `_Bool` and `char` types are zero-extended. -/
theorem small_int_result_widened (t : CType) (ht : t.valid = true) (hsmall : t.size.bytes < 8)
    (po : PyObj) (bs : List UInt8) (hconv : argFfi t po = .ok bs)
    (rawerr : List UInt8) (onerr : OnErr) (buf : List UInt8) :
    (invoke (.prim t) true rawerr (.returns (.obj po)) onerr buf).buf.take 8 =
      (match t.kind with
       | .sint => match asLongLong po with
                  | .ok v => leBytes 8 (trunc .s8 v)
                  | .error _ => []
       | _ => bs ++ List.replicate (8 - bs.length) 0) := by
  have hlen := argFfi_length t po bs hconv
  obtain ⟨k, s⟩ := t
  have hs8 : s.bytes < 8 := hsmall
  have hs : s.bytes < ffiArg ∧ true = true := ⟨hsmall, rfl⟩
  have hb8 : bs.length ≤ 8 := by rw [hlen]; exact Nat.le_of_lt hs8
  cases k with
  | sint =>
    obtain ⟨v, hv, hbs⟩ := argFfi_sint_ok s po bs hconv
    simp only [invoke, encodeResult, hs, and_self, if_true, convRes, hconv, hv, setPrefix, ffiArg, hs8, and_true]
    have h8 : (leBytes 8 (trunc Sz.s8 v)).length = 8 := leBytes_length _ _
    rw [List.take_append_of_le_length (by omega), List.take_of_length_le (by omega)]
  | uint =>
    simp only [invoke, encodeResult, hs, and_self, if_true, convRes, hconv, ffiArg, hs8, and_true]
    exact zero_extend_take bs buf hb8
  | bool =>
    simp only [invoke, encodeResult, hs, and_self, if_true, convRes, hconv, ffiArg, hs8, and_true]
    exact zero_extend_take bs buf hb8
  | char =>
    simp only [invoke, encodeResult, hs, and_self, if_true, convRes, hconv, ffiArg, hs8, and_true]
    exact zero_extend_take bs buf hb8

/-- `extern "Python"` results are *not* widened: exactly `sizeof(R)` bytes are
written, which is what the generated `return *(R *)p` reads. -/
theorem extern_python_result_plain (rt : RT) (o : RetObj) (bs buf : List UInt8)
    (hconv : convRes rt o = .ok bs) :
    encodeResult rt false o buf = (.ok (), setPrefix bs buf) := by
  cases rt with
  | void => simp [convRes] at hconv
  | blob n => simp [encodeResult, plainEncode, hconv]
  | prim t => simp [encodeResult, plainEncode, hconv]

/-
**Full statement (does not hold on the unchanged tree):**

  theorem error_value_returned: if the body raises or returns an unconvertible
  value, the C caller receives the declared error value, or onerror's value when
  onerror returns one — in particular the declared error value whenever onerror's
  result cannot be converted.

Finding class `C14/onerror-unconvertible-result`: for a libffi callback whose
result type is an unsigned integer, `_Bool` or `char` smaller than 8 bytes, the
second `convert_from_object_fficallback` zeroes the buffer (memset of the
`ffi_arg`) *before* the conversion of onerror's result fails, so the C caller
receives 0 instead of the declared error value (signed types do return it).
Witness: `error_value_lost_witness`.  The theorem is proved with the extra
hypothesis that onerror's result, if any, is convertible.
-/

/-- **Errors are contained and the declared error value is returned**: if the
Python function raises, or returns a value that cannot be converted, no
exception is left pending and the C caller receives the pre-encoded `error=`
bytes — when there is no `onerror`, or it returns None, or it raises itself —
or the converted value returned by `onerror`. -/
theorem error_value_returned_partial (rt : RT) (encode : Bool) (rawerr : List UInt8) (body : Body)
    (onerr : OnErr) (buf : List UInt8)
    (hpos : 0 < rt.bytes) (hraw : rawerr.length = max rt.bytes 8) (hbuf : rawerr.length ≤ buf.length)
    (hfail : body = .raises ∨ ∃ o e, body = .returns o ∧ convRes rt o = .error e) :
    (invoke rt encode rawerr body onerr buf).pending = false
    ∧ (match onerr with
       | .absent | .returnsNone | .raises =>
           (invoke rt encode rawerr body onerr buf).buf.take rawerr.length = rawerr
       | .returns o' => ∀ bs', convRes rt o' = .ok bs' →
           received rt (invoke rt encode rawerr body onerr buf) = bs') := by
  have hnv : rt ≠ .void := by intro h; subst h; simp [RT.bytes] at hpos
  have hsz : rt.size > 0 := by
    cases rt with
    | void => exact absurd rfl hnv
    | prim t => simp only [RT.size, RT.bytes] at hpos ⊢; omega
    | blob n => simp only [RT.size, RT.bytes] at hpos ⊢; omega
  -- the error path, entered with a buffer of the original length
  have key : ∀ b0 : List UInt8, b0.length = buf.length →
      (errorPath rt encode rawerr onerr b0).pending = false
      ∧ (match onerr with
         | .absent | .returnsNone | .raises =>
             (errorPath rt encode rawerr onerr b0).buf.take rawerr.length = rawerr
         | .returns o' => ∀ bs', convRes rt o' = .ok bs' →
             received rt (errorPath rt encode rawerr onerr b0) = bs') := by
    intro b0 hb0
    have h1 : (setPrefix rawerr b0).take rawerr.length = rawerr := setPrefix_take _ _
    have h1len : (setPrefix rawerr b0).length = b0.length := setPrefix_length _ _ (by omega)
    cases onerr with
    | absent => simp [errorPath, hsz, h1]
    | returnsNone => simp [errorPath, hsz, h1]
    | raises => simp [errorPath, hsz, h1]
    | returns o' =>
      refine ⟨?_, ?_⟩
      · simp only [errorPath]; split <;> rfl
      · intro bs' hc
        obtain ⟨buf2, e1, e2, _⟩ := encode_ok rt encode o' (setPrefix rawerr b0) bs' hc (by omega)
        simp [errorPath, hsz, e1, received, e2]
  rcases hfail with h | ⟨o, e, h, hc⟩
  · subst h; simpa [invoke] using key buf rfl
  · subst h
    obtain ⟨buf', e1, e2⟩ := encode_err rt encode o buf e hc hnv (by omega)
    simpa [invoke, e1] using key buf' e2

/-- The class excluded above, on the model: `unsigned char (*)(void)` callback with
`error=5`, body raises, `onerror` returns 300 — the caller receives 0, not 5;
for `signed char` it receives 5. -/
theorem error_value_lost_witness :
    received (.prim ⟨.uint, .s1⟩)
      (invoke (.prim ⟨.uint, .s1⟩) true [5, 0, 0, 0, 0, 0, 0, 0] .raises
        (.returns (.obj (.int 300))) [9, 9, 9, 9, 9, 9, 9, 9]) = [0]
    ∧ received (.prim ⟨.sint, .s1⟩)
      (invoke (.prim ⟨.sint, .s1⟩) true [5, 0, 0, 0, 0, 0, 0, 0] .raises
        (.returns (.obj (.int 300))) [9, 9, 9, 9, 9, 9, 9, 9]) = [5] := by decide

/-- The declared error value is the conversion of the `error=` object
(`prepare_callback_info_tuple`), or `ffi.callback` itself raises. -/
theorem rawerr_is_conversion (rt : RT) (encode : Bool) (o : RetObj) (bs : List UInt8)
    (hconv : convRes rt o = .ok bs) :
    ∃ raw, mkRawErr rt encode (some o) = .ok raw ∧ raw.take rt.bytes = bs
      ∧ raw.length = max rt.bytes 8 := by
  obtain ⟨buf', h1, h2, h3⟩ := encode_ok rt encode o (List.replicate (max rt.bytes ffiArg) 0) bs hconv
    (by simp [ffiArg])
  exact ⟨buf', by simp [mkRawErr, h1], h2, by simpa [ffiArg] using h3⟩

/-- Without `error=` the error value is all zero bytes. -/
theorem rawerr_default_zero (rt : RT) (encode : Bool) :
    mkRawErr rt encode none = .ok (List.replicate (max rt.bytes 8) 0) := rfl

/-- **`void` callbacks must return None**: None leaves the buffer alone and
reports nothing; anything else is reported as an error, still without touching
the buffer and without propagating. -/
theorem void_requires_none (encode : Bool) (rawerr : List UInt8) (onerr : OnErr) (buf : List UInt8)
    (o : RetObj) (ho : o ≠ .none) :
    invoke .void encode rawerr (.returns .none) onerr buf = ⟨buf, 0, false⟩
    ∧ invoke .void encode rawerr (.returns o) .absent buf = ⟨buf, 1, false⟩
    ∧ invoke .void encode rawerr (.returns o) .returnsNone buf = ⟨buf, 0, false⟩ := by
  simp [invoke, encodeResult, errorPath, ho, RT.size]

/-- **Nothing propagates into the C caller**, whatever the body and `onerror` do. -/
theorem nothing_propagates (rt : RT) (encode : Bool) (rawerr : List UInt8) (body : Body)
    (onerr : OnErr) (buf : List UInt8) :
    (invoke rt encode rawerr body onerr buf).pending = false := by
  have key : ∀ b0, (errorPath rt encode rawerr onerr b0).pending = false := by
    intro b0
    cases onerr <;> simp only [errorPath]
    split <;> rfl
  cases body with
  | raises => exact key buf
  | returns o =>
    simp only [invoke]
    split
    · rfl
    · exact key _

/-! ### non-vacuity -/

/-- three arguments: a `short`, a struct passed by reference living at address 1000, a `double`. -/
def exArgs : List Arg := [.val [0xfe, 0xff], .ref 1000 [1, 2, 3, 4, 5, 6, 7, 8, 9, 10, 11, 12], .val [0, 0, 0, 0, 0, 0, 0xf8, 0x3f]]
def exMem : Mem := Mem.write (fun _ => 0xAA) 1000 [1, 2, 3, 4, 5, 6, 7, 8, 9, 10, 11, 12]

theorem exPlaced : ∀ a ∈ exArgs, Placed exMem 64 exArgs.length a := by
  intro a ha
  simp only [exArgs, List.mem_cons, List.not_mem_nil, or_false] at ha
  rcases ha with rfl | rfl | rfl
  · simp [Placed]
  · refine ⟨by decide, ?_, by decide⟩
    exact read_write_same _ 1000 [1, 2, 3, 4, 5, 6, 7, 8, 9, 10, 11, 12]
  · simp [Placed]
example : readArg (pack exMem 64 exArgs) 64 1 true 12 = [1, 2, 3, 4, 5, 6, 7, 8, 9, 10, 11, 12] :=
  slot_roundtrip exMem 64 exArgs exPlaced 1 (by decide)
example : convRes (.prim ⟨.sint, .s2⟩) (.obj (.int (-2))) = .ok [0xfe, 0xff] := by decide
example : (invoke (.prim ⟨.sint, .s2⟩) true [0, 0, 0, 0, 0, 0, 0, 0] (.returns (.obj (.int (-2)))) .absent
    [1, 1, 1, 1, 1, 1, 1, 1]).buf = [0xfe, 0xff, 0xff, 0xff, 0xff, 0xff, 0xff, 0xff] := by decide
example : (invoke (.prim ⟨.uint, .s2⟩) true [7, 0, 0, 0, 0, 0, 0, 0] (.returns (.obj (.int 70000))) .absent
    [1, 1, 1, 1, 1, 1, 1, 1]) = ⟨[7, 0, 0, 0, 0, 0, 0, 0], 1, false⟩ := by decide
example : convRes (.prim ⟨.uint, .s2⟩) (.obj (.int 70000)) = .error .OverflowError := by decide
example : mkRawErr (.prim ⟨.sint, .s4⟩) true (some (.obj (.int (-1)))) = .ok [255, 255, 255, 255, 255, 255, 255, 255] := by decide
example : mkRawErr (.prim ⟨.sint, .s4⟩) false (some (.obj (.int (-1)))) = .ok [255, 255, 255, 255, 0, 0, 0, 0] := by decide

end CffiVerif.C14
