import CffiVerif.Proofs.Callback
import CffiVerif.Generated.Platform

/-!
C14 — callbacks and `extern "Python"` pass values exactly and contain errors (partial).

Statements on the model `CffiVerif.Callback`: the 8-byte argument slots written by
the generated `extern "Python"` function and read by `general_invoke_callback`;
`convert_from_object_fficallback`; the error protocol.

Partial: libffi's closure dispatch and gcc's calling convention are external
(correspondence run only).  One class of inputs is a finding on the unchanged
tree: `double _Complex` arguments of extern "Python" functions (see
`slot_unsafe_primitives` and the two witnesses next to it).
-/
namespace CffiVerif.C14
open CffiVerif.Call CffiVerif.Callback
set_option linter.unusedSimpArgs false

/-- **Argument slots**: what `general_invoke_callback` reads for argument `i` is
exactly what the generated function was called with — for every number of
arguments, every type of at most 8 bytes passed in its slot and every
struct/union/long double passed by reference, whatever the slot array contained
before. -/
theorem slot_roundtrip (m : Mem) (p : Nat) (args : List Arg)
    (hp : ∀ a ∈ args, Placed m p args.length a) (i : Nat) (hi : i < args.length) :
    readArg (pack m p args) p i (Arg.byRef args[i]) args[i].bytes.length = args[i].bytes := by
  have := packFrom_read m p 0 args.length args (by omega) hp i hi
  simpa [pack] using this

/-- All stores of the generated function stay inside `char a[max(8*n, 8)]`. -/
theorem packing_in_bounds (args : List Arg) (hv : ∀ a ∈ args, ∀ b, a = .val b → b.length ≤ 8)
    (i : Nat) (hi : i < args.length) :
    8 * i + args[i].slot.length ≤ bufferSize args.length := by
  have := slot_length_le args[i] (hv _ (List.getElem_mem hi))
  simp only [bufferSize, Generated.ExternPySize.slot, Generated.ExternPySize.minArea]
  omega

/-! ### the argument / result area (size rule regenerated from recompiler.py) -/

/-- With no arguments every primitive type gcc knows on this machine
(`Generated/Platform.byName`: name ↦ sizeof, measured on every run) already fits. -/
theorem result_fits_without_arguments :
    ∀ e ∈ Generated.Platform.byName,
      resultWritten (.prim e.1 e.2.size) ≤ sizeOfA 0 (.prim e.1 e.2.size) := by decide +kernel

/-- **The result area is large enough**: for every number of arguments, every
result the backend writes — any primitive type of the platform table under the
name the generator sees (`long double` and `double _Complex` are the 16-byte
ones), any pointer/enum/other type of at most 8 bytes, any struct or union of
any size, `void` — fits in `char a[size_of_a]` as the generator sizes it; and so
do the argument slots. -/
theorem result_area_large_enough (nargs : Nat) :
    (∀ e ∈ Generated.Platform.byName,
        resultWritten (.prim e.1 e.2.size) ≤ sizeOfA nargs (.prim e.1 e.2.size))
    ∧ (∀ (name : String) (size : Nat), size ≤ 8 → resultWritten (.prim name size) ≤ sizeOfA nargs (.prim name size))
    ∧ (∀ size, resultWritten (.aggregate size) ≤ sizeOfA nargs (.aggregate size))
    ∧ resultWritten .void ≤ sizeOfA nargs .void
    ∧ (∀ r, nargs * Generated.ExternPySize.slot ≤ sizeOfA nargs r) := by
  have hmin : ∀ n, 8 ≤ bufferSize n := by
    intro n; simp only [bufferSize, Generated.ExternPySize.minArea]; omega
  have hslots : ∀ n, n * Generated.ExternPySize.slot ≤ bufferSize n := by
    intro n; simp only [bufferSize]; omega
  have hge : ∀ r, bufferSize nargs ≤ sizeOfA nargs r := by
    intro r
    cases r with
    | void => exact Nat.le_refl _
    | prim name size => exact foldl_rules_ge _ _ _
    | aggregate sz => simp only [sizeOfA]; split <;> (try split) <;> omega
  refine ⟨?_, ?_, ?_, ?_, ?_⟩
  · intro e he
    exact Nat.le_trans (result_fits_without_arguments e he) (sizeOfA_mono nargs _)
  · intro name size hs
    have := hge (.prim name size)
    have := hmin nargs
    simp only [resultWritten]; omega
  · intro size
    have h1 := hmin nargs
    have hs : Generated.ExternPySize.structRule = true := rfl
    simp only [resultWritten, sizeOfA, hs, if_true]
    split <;> omega
  · simp [resultWritten]
  · intro r; exact Nat.le_trans (hslots nargs) (hge r)

/-- **Writer and reader agree on who is passed by reference**: the backend's test
`a_ct->ct_flags & (…)` uses exactly the flags of the types for which the generator stores
`&a_i` (structs, unions, and the primitives of `may_need_128_bits`), those flags select
exactly these primitives in the backend's type table, and both sides use the same stride. -/
theorem by_reference_sets_agree :
    (writerByRefFlags.all (Generated.ExternPySize.readerByRefFlags.contains ·)
      && Generated.ExternPySize.readerByRefFlags.all (writerByRefFlags.contains ·)) = true
    ∧ ((Generated.Primitives.backendTypes.filter fun e =>
          e.flags.any (Generated.ExternPySize.readerByRefFlags.contains ·)).map (·.name)
        = Generated.ExternPySize.byRefPrims)
    ∧ Generated.ExternPySize.readerStride = Generated.ExternPySize.slot := by decide +kernel

/-- The model's slot addresses `p + 8*i` use the generator's stride. -/
theorem slot_stride_is_source : Generated.ExternPySize.slot = 8 ∧ Generated.ExternPySize.minArea = 8 := by decide

/-
**Finding class `C14/extern-python-double-complex-argument`.**  `slot_roundtrip` and
`packing_in_bounds` carry the hypothesis that an argument stored in its slot has at
most 8 bytes (`Placed`, `.val b => b.length ≤ 8`).  The generator stores *every*
primitive except `long double` in the slot — including the 16-byte `double _Complex`:
-/

/-- The primitives of the platform table that are wider than a slot and yet not passed
by reference: exactly `double _Complex`. -/
theorem slot_unsafe_primitives :
    (Generated.Platform.byName.filter fun e =>
        decide (e.2.size > Generated.ExternPySize.slot) && !passedByRef e.1 false).map (·.1)
      = ["_cffi_double_complex_t"] := by decide +kernel

/-- Witness `double _Complex f(int, double _Complex, int)` called with `(1, 2+3i, 4)`:
the third store overwrites the low bytes of the imaginary part, so what is read for
argument 1 is not what was passed (3.0 arrives as 3.0000000000000018). -/
theorem complex_argument_corrupted_witness :
    readArg (pack (fun _ => 0) 0
        [.val [1, 0, 0, 0], .val [0, 0, 0, 0, 0, 0, 0, 0x40, 0, 0, 0, 0, 0, 0, 8, 0x40], .val [4, 0, 0, 0]])
      0 1 false 16
      = [0, 0, 0, 0, 0, 0, 0, 0x40, 4, 0, 0, 0, 0, 0, 8, 0x40] := by decide +kernel

/-- Witness for a `double _Complex` in the *last* position (`double f(int, double _Complex)`):
the value arrives intact, but the store ends 8 bytes past `char a[16]`. -/
theorem complex_last_argument_out_of_bounds_witness :
    ¬ (8 * 1 + (Arg.val [0, 0, 0, 0, 0, 0, 0, 0x40, 0, 0, 0, 0, 0, 0, 8, 0x40]).slot.length
        ≤ sizeOfA 2 (.prim "double" 8)) := by decide +kernel

/-! ### result encoding -/

/-- **The C caller receives exactly the converted return value** (both callback
kinds), nothing is reported and no exception is left pending. -/
theorem result_is_conversion (rt : RT) (encode : Bool) (rawerr : List UInt8) (onerr : OnErr)
    (buf : List UInt8) (o : RetObj) (bs : List UInt8)
    (hconv : convRes rt o = .ok bs) (hbuf : max rt.bytes 8 ≤ buf.length) :
    received rt (invoke rt encode rawerr (.returns o) onerr buf) = bs
    ∧ (invoke rt encode rawerr (.returns o) onerr buf).printed = 0
    ∧ (invoke rt encode rawerr (.returns o) onerr buf).pending = false := by
  obtain ⟨buf', h1, h2, _⟩ := encode_ok rt encode o buf bs hconv hbuf
  simp [invoke, h1, received, h2]

/-- **Small integer results of a libffi callback fill the whole `ffi_arg`**:
signed types are sign-extended (the 64-bit two's complement of the value),
unsigned, `_Bool` and `char` types are zero-extended. -/
theorem small_int_result_widened (t : CType) (ht : t.valid = true) (hsmall : t.size.bytes < 8)
    (po : PyObj) (bs : List UInt8) (hconv : argFfi t po = .ok bs)
    (rawerr : List UInt8) (onerr : OnErr) (buf : List UInt8) :
    (invoke (.prim t) true rawerr (.returns (.obj po)) onerr buf).buf.take 8 =
      (match t.kind with
       | .sint => match asLongLong po with
                  | .ok v => leBytes 8 (trunc .s8 v)
                  | .error _ => []
       | _ => bs ++ List.replicate (8 - bs.length) 0) := by
  have hlen := argFfi_length t po bs hconv
  obtain ⟨k, s⟩ := t
  have hs8 : s.bytes < 8 := hsmall
  have hs : s.bytes < ffiArg ∧ true = true := ⟨hsmall, rfl⟩
  have hb8 : bs.length ≤ 8 := by rw [hlen]; exact Nat.le_of_lt hs8
  cases k with
  | sint =>
    obtain ⟨v, hv, hbs⟩ := argFfi_sint_ok s po bs hconv
    simp only [invoke, encodeResult, hs, and_self, if_true, convRes, hconv, hv, setPrefix, ffiArg, hs8, and_true]
    have h8 : (leBytes 8 (trunc Sz.s8 v)).length = 8 := leBytes_length _ _
    rw [List.take_append_of_le_length (by omega), List.take_of_length_le (by omega)]
  | uint =>
    simp only [invoke, encodeResult, hs, and_self, if_true, convRes, hconv, ffiArg, hs8, and_true]
    exact zero_extend_take bs buf hb8
  | bool =>
    simp only [invoke, encodeResult, hs, and_self, if_true, convRes, hconv, ffiArg, hs8, and_true]
    exact zero_extend_take bs buf hb8
  | char =>
    simp only [invoke, encodeResult, hs, and_self, if_true, convRes, hconv, ffiArg, hs8, and_true]
    exact zero_extend_take bs buf hb8

/-- `extern "Python"` results are *not* widened: exactly `sizeof(R)` bytes are
written, which is what the generated `return *(R *)p` reads. -/
theorem extern_python_result_plain (rt : RT) (o : RetObj) (bs buf : List UInt8)
    (hconv : convRes rt o = .ok bs) :
    encodeResult rt false o buf = (.ok (), setPrefix bs buf) := by
  cases rt with
  | void => simp [convRes] at hconv
  | blob n => simp [encodeResult, plainEncode, hconv]
  | prim t => simp [encodeResult, plainEncode, hconv]

/-- **Errors are contained and the declared error value is returned**, for every
result type and both callback kinds: if the Python function raises, or returns a
value that cannot be converted, no exception is left pending and the C caller
receives the pre-encoded `error=` bytes — when there is no `onerror`, or it returns
None, or it raises itself, or it returns a value that cannot be converted either —
or the converted value returned by `onerror`. -/
theorem error_value_returned (rt : RT) (encode : Bool) (rawerr : List UInt8) (body : Body)
    (onerr : OnErr) (buf : List UInt8)
    (hpos : 0 < rt.bytes) (hraw : rawerr.length = max rt.bytes 8) (hbuf : rawerr.length ≤ buf.length)
    (hfail : body = .raises ∨ ∃ o e, body = .returns o ∧ convRes rt o = .error e) :
    (invoke rt encode rawerr body onerr buf).pending = false
    ∧ (match onerr with
       | .absent | .returnsNone | .raises =>
           (invoke rt encode rawerr body onerr buf).buf.take rawerr.length = rawerr
       | .returns o' =>
           (∀ bs', convRes rt o' = .ok bs' →
              received rt (invoke rt encode rawerr body onerr buf) = bs')
           ∧ (∀ e', convRes rt o' = .error e' →
              (invoke rt encode rawerr body onerr buf).buf.take rawerr.length = rawerr)) := by
  have hnv : rt ≠ .void := by intro h; subst h; simp [RT.bytes] at hpos
  have hsz : rt.size > 0 := by
    cases rt with
    | void => exact absurd rfl hnv
    | prim t => simp only [RT.size, RT.bytes] at hpos ⊢; omega
    | blob n => simp only [RT.size, RT.bytes] at hpos ⊢; omega
  -- the error path, entered with a buffer of the original length
  have key : ∀ b0 : List UInt8, b0.length = buf.length →
      (errorPath rt encode rawerr onerr b0).pending = false
      ∧ (match onerr with
         | .absent | .returnsNone | .raises =>
             (errorPath rt encode rawerr onerr b0).buf.take rawerr.length = rawerr
         | .returns o' =>
             (∀ bs', convRes rt o' = .ok bs' →
                received rt (errorPath rt encode rawerr onerr b0) = bs')
             ∧ (∀ e', convRes rt o' = .error e' →
                (errorPath rt encode rawerr onerr b0).buf.take rawerr.length = rawerr)) := by
    intro b0 hb0
    have h1 : (setPrefix rawerr b0).take rawerr.length = rawerr := setPrefix_take _ _
    have h1len : (setPrefix rawerr b0).length = b0.length := setPrefix_length _ _ (by omega)
    cases onerr with
    | absent => simp [errorPath, hsz, h1]
    | returnsNone => simp [errorPath, hsz, h1]
    | raises => simp [errorPath, hsz, h1]
    | returns o' =>
      refine ⟨?_, ?_, ?_⟩
      · simp only [errorPath]; split <;> rfl
      · intro bs' hc
        obtain ⟨buf2, e1, e2, _⟩ := encode_ok rt encode o' (setPrefix rawerr b0) bs' hc (by omega)
        simp [errorPath, hsz, e1, received, e2]
      · intro e' hc
        obtain ⟨buf2, e1, _⟩ := encode_err rt encode o' (setPrefix rawerr b0) e' hc hnv (by omega)
        simp only [errorPath, hsz, if_true, e1]
        exact setPrefix_take _ _
  rcases hfail with h | ⟨o, e, h, hc⟩
  · subst h; simpa [invoke] using key buf rfl
  · subst h
    obtain ⟨buf', e1, e2⟩ := encode_err rt encode o buf e hc hnv (by omega)
    simpa [invoke, e1] using key buf' e2

/-- The input that used to lose the error value (repaired in /repo, commit 36aca36):
`unsigned char (*)(void)` callback with `error=5`, body raises, `onerror` returns 300 —
the caller receives 5, for the unsigned as for the signed type. -/
theorem error_value_kept_example :
    received (.prim ⟨.uint, .s1⟩)
      (invoke (.prim ⟨.uint, .s1⟩) true [5, 0, 0, 0, 0, 0, 0, 0] .raises
        (.returns (.obj (.int 300))) [9, 9, 9, 9, 9, 9, 9, 9]) = [5]
    ∧ received (.prim ⟨.sint, .s1⟩)
      (invoke (.prim ⟨.sint, .s1⟩) true [5, 0, 0, 0, 0, 0, 0, 0] .raises
        (.returns (.obj (.int 300))) [9, 9, 9, 9, 9, 9, 9, 9]) = [5] := by decide

/-- The declared error value is the conversion of the `error=` object
(`prepare_callback_info_tuple`), or `ffi.callback` itself raises. -/
theorem rawerr_is_conversion (rt : RT) (encode : Bool) (o : RetObj) (bs : List UInt8)
    (hconv : convRes rt o = .ok bs) :
    ∃ raw, mkRawErr rt encode (some o) = .ok raw ∧ raw.take rt.bytes = bs
      ∧ raw.length = max rt.bytes 8 := by
  obtain ⟨buf', h1, h2, h3⟩ := encode_ok rt encode o (List.replicate (max rt.bytes ffiArg) 0) bs hconv
    (by simp [ffiArg])
  exact ⟨buf', by simp [mkRawErr, h1], h2, by simpa [ffiArg] using h3⟩

/-- Without `error=` the error value is all zero bytes. -/
theorem rawerr_default_zero (rt : RT) (encode : Bool) :
    mkRawErr rt encode none = .ok (List.replicate (max rt.bytes 8) 0) := rfl

/-- **`void` callbacks must return None**: None leaves the buffer alone and
reports nothing; anything else is reported as an error, still without touching
the buffer and without propagating. -/
theorem void_requires_none (encode : Bool) (rawerr : List UInt8) (onerr : OnErr) (buf : List UInt8)
    (o : RetObj) (ho : o ≠ .none) :
    invoke .void encode rawerr (.returns .none) onerr buf = ⟨buf, 0, false⟩
    ∧ invoke .void encode rawerr (.returns o) .absent buf = ⟨buf, 1, false⟩
    ∧ invoke .void encode rawerr (.returns o) .returnsNone buf = ⟨buf, 0, false⟩ := by
  simp [invoke, encodeResult, errorPath, ho, RT.size]

/-- **Nothing propagates into the C caller**, whatever the body and `onerror` do. -/
theorem nothing_propagates (rt : RT) (encode : Bool) (rawerr : List UInt8) (body : Body)
    (onerr : OnErr) (buf : List UInt8) :
    (invoke rt encode rawerr body onerr buf).pending = false := by
  have key : ∀ b0, (errorPath rt encode rawerr onerr b0).pending = false := by
    intro b0
    cases onerr <;> simp only [errorPath]
    split <;> rfl
  cases body with
  | raises => exact key buf
  | returns o =>
    simp only [invoke]
    split
    · rfl
    · exact key _

/-! ### non-vacuity -/

/-- three arguments: a `short`, a struct passed by reference living at address 1000, a `double`. -/
def exArgs : List Arg := [.val [0xfe, 0xff], .ref 1000 [1, 2, 3, 4, 5, 6, 7, 8, 9, 10, 11, 12], .val [0, 0, 0, 0, 0, 0, 0xf8, 0x3f]]
def exMem : Mem := Mem.write (fun _ => 0xAA) 1000 [1, 2, 3, 4, 5, 6, 7, 8, 9, 10, 11, 12]

theorem exPlaced : ∀ a ∈ exArgs, Placed exMem 64 exArgs.length a := by
  intro a ha
  simp only [exArgs, List.mem_cons, List.not_mem_nil, or_false] at ha
  rcases ha with rfl | rfl | rfl
  · simp [Placed]
  · refine ⟨by decide, ?_, by decide⟩
    exact read_write_same _ 1000 [1, 2, 3, 4, 5, 6, 7, 8, 9, 10, 11, 12]
  · simp [Placed]
example : readArg (pack exMem 64 exArgs) 64 1 true 12 = [1, 2, 3, 4, 5, 6, 7, 8, 9, 10, 11, 12] :=
  slot_roundtrip exMem 64 exArgs exPlaced 1 (by decide)
example : convRes (.prim ⟨.sint, .s2⟩) (.obj (.int (-2))) = .ok [0xfe, 0xff] := by decide
example : (invoke (.prim ⟨.sint, .s2⟩) true [0, 0, 0, 0, 0, 0, 0, 0] (.returns (.obj (.int (-2)))) .absent
    [1, 1, 1, 1, 1, 1, 1, 1]).buf = [0xfe, 0xff, 0xff, 0xff, 0xff, 0xff, 0xff, 0xff] := by decide
example : (invoke (.prim ⟨.uint, .s2⟩) true [7, 0, 0, 0, 0, 0, 0, 0] (.returns (.obj (.int 70000))) .absent
    [1, 1, 1, 1, 1, 1, 1, 1]) = ⟨[7, 0, 0, 0, 0, 0, 0, 0], 1, false⟩ := by decide
example : convRes (.prim ⟨.uint, .s2⟩) (.obj (.int 70000)) = .error .OverflowError := by decide
example : mkRawErr (.prim ⟨.sint, .s4⟩) true (some (.obj (.int (-1)))) = .ok [255, 255, 255, 255, 255, 255, 255, 255] := by decide
example : mkRawErr (.prim ⟨.sint, .s4⟩) false (some (.obj (.int (-1)))) = .ok [255, 255, 255, 255, 0, 0, 0, 0] := by decide

end CffiVerif.C14
