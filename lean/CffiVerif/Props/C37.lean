import CffiVerif.Model.DlClose

/-!
C37 — closed `dlopen` libraries refuse further symbol access.

For both ABI-mode implementations, *every* sequence of accesses and *every*
interleaving of other threads' accesses with the steps of `ffi.dlclose(lib)`:
once a `dlclose` call has returned (and no other one is still in flight),
reading or writing any global variable through `lib` and fetching any function
answer with the `closed` error and leave the whole state — in particular the
memory of the (unloaded) library — untouched; closing again is a no-op without
error; and at no point of any history does an access go to the library after
`dlclose()` gave its reference back (`never_use_after_unload`).

What makes this true is the *order* of the steps of the close: the handle is
NULLed before the cache is cleared, and nothing can be cached once the handle is
NULL.  (Clearing first and NULLing after `dlclose()` would let an access in
between re-cache a raw address.)

The model mirrors the code as it is: `dlclose` clears the attribute cache, so
even functions fetched *before* the close are refetched (and refused) after it;
the property only asks this of functions not fetched before.
-/
namespace CffiVerif.C37
open CffiVerif.DlClose

/-- The invariant. -/
structure Inv (impl : Impl) (s : State) : Prop where
  /-- a close is in flight only with the handle already NULL ("NULL before clear") -/
  phase_closed : s.phase ≠ .none → s.isOpen = false
  /-- once the handle is NULL nothing is cached, unless the clear of the in-flight close is still to come -/
  closed_empty : s.isOpen = false → s.phase = .nulled ∨ (s.cachedF = [] ∧ s.cachedV = [])
  /-- after the clear nothing is cached -/
  cleared_empty : s.phase = .cleared → s.cachedF = [] ∧ s.cachedV = []
  /-- once the reference is given back the handle is NULL and no raw address is cached -/
  unloaded : s.loaded = false → s.isOpen = false ∧ s.cachedV = []
  /-- the in-line library object never caches an address and has no `cleared` phase -/
  inline_novars : impl = .inline → s.cachedV = [] ∧ s.phase ≠ .cleared

/-- "`ffi.dlclose` has returned": handle NULL and nothing cached. -/
def Closed (s : State) : Prop := s.isOpen = false ∧ s.cachedF = [] ∧ s.cachedV = []

open CffiVerif.Generated.DlCloseSteps in
/-- **The order the invariant needs is the order of the source** (re-extracted on every run into
`Generated/DlCloseSteps.lean`): out-of-line, `ffi_dlclose` NULLs the handle *before* it clears `l_dict` and
calls `dlclose()` last, with the GIL held throughout, `cdlopen_fetch` refuses a NULL handle before `dlsym`, and
lib_obj.c reaches the library only through it; in-line, `dl_close_lib` does `dlclose()` + NULL in one call with
the GIL held, every accessor starts with `dl_check_closed`, and `__cffi_close__` calls `close_lib()` before
`__dict__.clear()`. -/
theorem close_order_is_source :
    outOfLineClose.idxOf Act.nullHandle < outOfLineClose.idxOf Act.clearCache ∧
    outOfLineClose.idxOf Act.clearCache < outOfLineClose.idxOf Act.sysDlclose ∧
    outOfLineClose.length = 3 ∧
    outOfLineGilReleased = false ∧ outOfLineFetchChecksNull = true ∧ outOfLineOnlyThroughFetch = true ∧
    inlineCloseLib = [Act.sysDlclose, Act.nullHandle] ∧ inlineCloseLibGilReleased = false ∧
    inlineAccessorsCheckClosed = true ∧ inlinePyClose = [PyAct.closeLib, PyAct.clearDict] := by decide

/-- The step function built from the extracted lists is the one all the proofs below are about. -/
theorem closeStep_eq_spec (impl : Impl) (s : State) : closeStep impl s = closeStepSpec impl s := by
  cases impl <;> cases hp : s.phase <;> cases ho : s.isOpen <;>
    simp [closeStep, closeStepSpec, closeGroups, phaseIdx, idxPhase, applyAct, hp, ho,
      CffiVerif.Generated.DlCloseSteps.outOfLineClose, CffiVerif.Generated.DlCloseSteps.inlineCloseLib,
      CffiVerif.Generated.DlCloseSteps.inlinePyClose]

theorem inv_open (impl : Impl) (funcs : List Name) (vars : List (Name × Int)) : Inv impl (openLib funcs vars) := by
  constructor <;> simp [openLib]

/-- Every operation of every thread, including each single step of a close, preserves the invariant. -/
theorem inv_step (impl : Impl) (s : State) (op : Op) (hi : Inv impl s) : Inv impl (step impl s op).1 := by
  obtain ⟨h1, h2, h3, h4, h5⟩ := hi
  cases impl <;> cases op <;>
    simp only [step, closeStep_eq_spec, closeStepSpec, closeAll, fetchVar, derefVar, outOf] <;>
    constructor <;> grind

theorem inv_run (impl : Impl) (s : State) (ops : List Op) (hi : Inv impl s) : Inv impl (run impl s ops) := by
  induction ops generalizing s with
  | nil => exact hi
  | cons op rest ih => exact ih _ (inv_step impl s op hi)

theorem run_append (impl : Impl) (s : State) (a b : List Op) :
    run impl s (a ++ b) = run impl (run impl s a) b := by
  induction a generalizing s with
  | nil => rfl
  | cons op rest ih => exact ih _

/-- In a closed state every access is refused and nothing but the close phase can change. -/
theorem closed_step (impl : Impl) (s : State) (hc : Closed s) (op : Op) :
    Closed (step impl s op).1 ∧
    (∀ n, op = .getFunc n → step impl s op = (s, .err .closed)) ∧
    (∀ n, op = .readVar n → step impl s op = (s, .err .closed)) ∧
    (∀ n v, op = .writeVar n v → step impl s op = (s, .err .closed)) ∧
    (op = .close → (step impl s op).2 = .done) := by
  obtain ⟨ho, hf, hv⟩ := hc
  cases impl <;> cases op <;> cases hp : s.phase <;>
    simp [Closed, step, closeStep_eq_spec, closeStepSpec, closeAll, fetchVar, outOf, ho, hf, hv, hp]

theorem closed_run (impl : Impl) (s : State) (ops : List Op) (hc : Closed s) : Closed (run impl s ops) := by
  induction ops generalizing s with
  | nil => exact hc
  | cons op rest ih => exact ih _ (closed_step impl s hc op).1

/-- The moment an `ffi.dlclose` call returns with no other close in flight, the state is `Closed` —
whatever the other threads did between its steps. -/
theorem done_closed (impl : Impl) (s : State) (op : Op) (hi : Inv impl s)
    (hd : (step impl s op).2 = .done) (hp : (step impl s op).1.phase = .none) : Closed (step impl s op).1 := by
  have hi' := inv_step impl s op hi
  have hopen : (step impl s op).1.isOpen = false := by
    obtain ⟨h1, h2, h3, h4, h5⟩ := hi
    cases impl <;> cases op <;>
      simp only [step, closeStep_eq_spec, closeStepSpec, closeAll, fetchVar, derefVar, outOf] at hd hp ⊢ <;> grind
  rcases hi'.closed_empty hopen with h | h
  · rw [hp] at h; cases h
  · exact ⟨hopen, h.1, h.2⟩

/-- The state after any history in which some `dlclose` call returned (with no other close in flight). -/
theorem closed_after (impl : Impl) (funcs : List Name) (vars : List (Name × Int)) (before after : List Op) (c : Op)
    (hd : (step impl (run impl (openLib funcs vars) before) c).2 = .done)
    (hp : (step impl (run impl (openLib funcs vars) before) c).1.phase = .none) :
    Closed (run impl (openLib funcs vars) (before ++ c :: after)) := by
  have hi := inv_run impl _ before (inv_open impl funcs vars)
  rw [run_append]
  simp only [run]
  exact closed_run impl _ after (done_closed impl _ c hi hd hp)

/-- **After `dlclose` has returned, reading or writing a global raises** (and the library's
memory, like the rest of the state, is not touched) — whatever was accessed before, whatever other
threads did between the steps of the close, and whatever happened since. -/
theorem after_close_var_errors (impl : Impl) (funcs : List Name) (vars : List (Name × Int))
    (before after : List Op) (c : Op) (n : Name) (v : Int)
    (hd : (step impl (run impl (openLib funcs vars) before) c).2 = .done)
    (hp : (step impl (run impl (openLib funcs vars) before) c).1.phase = .none) :
    let s := run impl (openLib funcs vars) (before ++ c :: after)
    step impl s (.readVar n) = (s, .err .closed) ∧ step impl s (.writeVar n v) = (s, .err .closed) := by
  intro s
  have hc := closed_after impl funcs vars before after c hd hp
  exact ⟨(closed_step impl s hc (.readVar n)).2.2.1 n rfl, (closed_step impl s hc (.writeVar n v)).2.2.2.1 n v rfl⟩

/-- **After `dlclose` has returned, fetching a function raises** — for every name, hence in
particular for the functions not fetched before the close. -/
theorem after_close_new_function_errors (impl : Impl) (funcs : List Name) (vars : List (Name × Int))
    (before after : List Op) (c : Op) (n : Name)
    (hd : (step impl (run impl (openLib funcs vars) before) c).2 = .done)
    (hp : (step impl (run impl (openLib funcs vars) before) c).1.phase = .none) :
    let s := run impl (openLib funcs vars) (before ++ c :: after)
    step impl s (.getFunc n) = (s, .err .closed) := by
  intro s
  have hc := closed_after impl funcs vars before after c hd hp
  exact (closed_step impl s hc (.getFunc n)).2.1 n rfl

/-- The uninterrupted close, from any reachable state with no close in flight, is such a returning call
(so the two theorems above apply to `c = .close` after every history of plain accesses and closes). -/
theorem close_returns (impl : Impl) (s : State) (hi : Inv impl s) (hp : s.phase = .none) :
    (step impl s .close).2 = .done ∧ (step impl s .close).1.phase = .none := by
  cases impl <;> cases ho : s.isOpen <;> simp [step, closeAll, ho, hp]

/-- … and so is the stepwise close: from an open library, its steps (2 in-line, 3 out-of-line), with
arbitrary accesses of other threads in between, end with `done` and no close in flight. -/
theorem stepwise_close_returns (impl : Impl) (s : State) (mid1 mid2 : List Op) (hi : Inv impl s)
    (hp : s.phase = .none) (ho : s.isOpen = true)
    (hm1 : ∀ op ∈ mid1, op ≠ .closeStep) (hm2 : ∀ op ∈ mid2, op ≠ .closeStep) :
    let s1 := run impl (step impl s .closeStep).1 mid1
    let s2 := run impl (step impl s1 .closeStep).1 mid2
    (impl = .inline → (step impl s1 .closeStep).2 = .done ∧ (step impl s1 .closeStep).1.phase = .none) ∧
    (impl = .outOfLine → (step impl s2 .closeStep).2 = .done ∧ (step impl s2 .closeStep).1.phase = .none) := by
  -- accesses and uninterrupted closes of other threads never move the phase
  have keep : ∀ (ops : List Op) (t : State), (∀ op ∈ ops, op ≠ .closeStep) → (run impl t ops).phase = t.phase := by
    intro ops
    induction ops with
    | nil => intro t _; rfl
    | cons op rest ih =>
      intro t h
      simp only [run]
      rw [ih _ (fun o ho => h o (by simp [ho]))]
      have hne := h op (by simp)
      cases impl <;> cases op <;>
        simp only [step, closeAll, fetchVar, derefVar, outOf] <;> (repeat' split) <;> simp_all
  intro s1 s2
  have p1 : s1.phase = .nulled := by
    rw [keep mid1 _ hm1]
    cases impl <;> simp [step, closeStep_eq_spec, closeStepSpec, hp, ho]
  constructor
  · intro hin; subst hin
    simp [step, closeStep_eq_spec, closeStepSpec, p1]
  · intro hout; subst hout
    have p2 : s2.phase = .cleared := by
      rw [keep mid2 _ hm2]
      simp [step, closeStep_eq_spec, closeStepSpec, p1]
    simp [step, closeStep_eq_spec, closeStepSpec, p2]

/-- **Closing again is harmless**: in every state `close` returns normally, and a second
`close` right after changes nothing. -/
theorem close_idempotent (impl : Impl) (s : State) :
    (step impl s .close).2 = .done ∧
    step impl (step impl s .close).1 .close = ((step impl s .close).1, .done) := by
  cases impl <;> cases hc : s.isOpen <;> simp [step, closeAll, hc]

theorem fetchVar_ne (s : State) (n : Name) (h : s.loaded = true ∨ s.isOpen = false) :
    fetchVar s n ≠ .error .useAfterUnload := by
  unfold fetchVar
  rcases h with h | h
  · cases s.isOpen <;> simp [h] <;> split <;> simp
  · simp [h]

theorem derefVar_ne (s : State) (n : Name) (h : s.loaded = true) : derefVar s n ≠ .error .useAfterUnload := by
  unfold derefVar
  simp [h]; split <;> simp

theorem outOf_ne (e : Except Err Int) (k : Int → State × Out) (s : State)
    (he : e ≠ .error .useAfterUnload) (hk : ∀ v, (k v).2 ≠ .err .useAfterUnload) :
    (outOf e k s).2 ≠ .err .useAfterUnload := by
  cases e with
  | ok v => exact hk v
  | error x => simp only [outOf]; intro h; apply he; injection h with h; rw [h]

theorem step_ne_useAfterUnload (impl : Impl) (s : State) (op : Op) (h4 : s.loaded = false → s.isOpen = false ∧ s.cachedV = []) :
    (step impl s op).2 ≠ .err .useAfterUnload := by
  have hf : ∀ n, fetchVar s n ≠ .error .useAfterUnload := by
    intro n; apply fetchVar_ne
    cases hl : s.loaded
    · exact Or.inr (h4 hl).1
    · exact Or.inl rfl
  cases op with
  | getFunc n =>
    simp only [step]
    cases hl : s.loaded
    · simp [(h4 hl).1]; split <;> simp
    · (repeat' split) <;> simp_all
  | readVar n =>
    cases impl <;> simp only [step]
    · exact outOf_ne _ _ _ (hf n) (by simp)
    · split
      · rename_i hc
        cases hl : s.loaded
        · rw [(h4 hl).2] at hc; simp at hc
        · exact outOf_ne _ _ _ (derefVar_ne s n hl) (by simp)
      · exact outOf_ne _ _ _ (hf n) (by simp)
  | writeVar n v =>
    cases impl <;> simp only [step]
    · exact outOf_ne _ _ _ (hf n) (by simp)
    · split
      · rename_i hc
        cases hl : s.loaded
        · rw [(h4 hl).2] at hc; simp at hc
        · exact outOf_ne _ _ _ (derefVar_ne s n hl) (by simp)
      · exact outOf_ne _ _ _ (hf n) (by simp)
  | close => simp [step]
  | closeStep => cases impl <;> cases hp : s.phase <;> simp [step, closeStep_eq_spec, closeStepSpec, hp] <;> split <;> simp

/-- **No access ever goes to the library after `dlclose()` gave the reference back**, in any history
and any interleaving with the steps of a close. -/
theorem never_use_after_unload (impl : Impl) (funcs : List Name) (vars : List (Name × Int))
    (history : List Op) (op : Op) :
    (step impl (run impl (openLib funcs vars) history) op).2 ≠ .err .useAfterUnload :=
  step_ne_useAfterUnload impl _ op (inv_run impl _ history (inv_open impl funcs vars)).unloaded

/-- While the library is open the accesses do work (the refusals above are not
the model refusing everything): a variable the library exports reads back the
value last written through `lib`, in both implementations. -/
theorem open_write_then_read (impl : Impl) (s : State) (n : Name) (v x : Int)
    (ho : s.isOpen = true) (hl : s.loaded = true) (hx : s.mem.lookup n = some x) :
    (step impl (step impl s (.writeVar n v)).1 (.readVar n)).2 = .value v := by
  have hset : ∀ m : List (Name × Int), ∀ x, m.lookup n = some x → (setMem m n v).lookup n = some v := by
    intro m
    induction m with
    | nil => intro x h; simp [List.lookup] at h
    | cons p rest ih =>
      intro x h
      obtain ⟨a, b⟩ := p
      by_cases e : a = n
      · simp [setMem, e]
      · have e' : (n == a) = false := by simpa using fun h => e h.symm
        simp only [List.lookup, e'] at h
        simp [setMem, e, List.lookup, e', ih x h]
  have hv := hset s.mem x hx
  cases impl
  · simp [step, fetchVar, outOf, ho, hl, hx, hv]
  · by_cases hcv : n ∈ s.cachedV <;> simp [step, fetchVar, derefVar, outOf, ho, hl, hx, hv, hcv]

-- Non-vacuity.  A history that caches a function and two variable accessors, then closes
-- *stepwise* while another thread reads a cached variable between the steps:
def exLib : State := openLib [0, 1] [(10, 5), (11, -3)]
def exBefore : List Op := [.getFunc 0, .readVar 10, .writeVar 11 7, .readVar 11]
example : (run .outOfLine exLib exBefore) =
    { isOpen := true, cachedF := [0], cachedV := [11, 10], funcs := [0, 1], mem := [(10, 5), (11, 7)],
      phase := .none, loaded := true } := by decide
example : (step .outOfLine (run .outOfLine exLib exBefore) (.readVar 11)).2 = .value 7 := by decide
-- in the window after the handle was NULLed and before the cache is cleared, a cached accessor still answers …
example : (step .outOfLine (run .outOfLine exLib (exBefore ++ [.closeStep])) (.readVar 11)).2 = .value 7 := by decide
-- … but nothing new can be fetched, and once the close has returned everything is refused:
example : (step .outOfLine (run .outOfLine exLib (exBefore ++ [.closeStep])) (.getFunc 1)).2 = .err .closed := by decide
def exStepwise : List Op := exBefore ++ [.closeStep, .readVar 11, .getFunc 1, .closeStep, .readVar 10, .closeStep]
example : (step .outOfLine (run .outOfLine exLib (exBefore ++ [.closeStep, .readVar 11, .getFunc 1, .closeStep, .readVar 10])) .closeStep).2 = .done := by decide
example : (run .outOfLine exLib exStepwise).phase = .none := by decide
example : (step .outOfLine (run .outOfLine exLib (exStepwise ++ [.getFunc 1, .close])) (.readVar 11)).2
    = .err .closed := by decide
example : (step .inline (run .inline exLib (exBefore ++ [.closeStep, .getFunc 0, .closeStep])) (.getFunc 0)).2 = .err .closed := by decide
example : (step .inline (run .inline exLib (exBefore ++ .close :: [])) (.getFunc 1)).2 = .err .closed := by decide
example : (step .inline (run .inline exLib exBefore) (.getFunc 1)).2 = .func 1 := by decide
example : (step .inline (run .inline exLib exBefore) (.getFunc 5)).2 = .err .notFound := by decide
-- the order matters: clearing *before* NULLing (what the model does not do) is what would break it —
-- here the state a wrong-order close would be in (cache cleared, handle still open) lets a read re-cache:
example : (step .outOfLine { (run .outOfLine exLib exBefore) with cachedF := [], cachedV := [] } (.readVar 10)).1.cachedV = [10] := by decide

end CffiVerif.C37
