import CffiVerif.Model.DlClose

/-!
C37 — closed `dlopen` libraries refuse further symbol access.

For both ABI-mode implementations and *every* sequence of accesses: once
`ffi.dlclose(lib)` has happened (anywhere in the history), reading or writing
any global variable through `lib` and fetching any function answer with the
`closed` error and leave the whole state — in particular the memory of the
(unloaded) library — untouched; closing again is a no-op without error.

The model mirrors the code as it is: `dlclose` clears the attribute cache, so
even functions fetched *before* the close are refetched (and refused) after it;
the property only asks this of functions not fetched before.
-/
namespace CffiVerif.C37
open CffiVerif.DlClose

/-- The invariant that makes the closed check sufficient: a closed library
object caches nothing that holds an address. -/
def Inv (s : State) : Prop := s.isOpen = false → s.cachedF = [] ∧ s.cachedV = []

theorem inv_open (funcs : List Name) (vars : List (Name × Int)) : Inv (openLib funcs vars) := by
  intro h; simp [openLib] at h

/-- A closed library with an empty cache refuses every access and nothing changes. -/
theorem closed_step (impl : Impl) (s : State) (hc : s.isOpen = false) (hi : Inv s) (op : Op) :
    (step impl s op).1 = s ∧
    (step impl s op).2 = (match op with | .close => .done | _ => .err .closed) := by
  obtain ⟨hf, hv⟩ := hi hc
  cases op <;> cases impl <;> simp [step, fetchVar, hc, hf, hv]

/-- Only `close` closes: every other operation on an open library leaves it open. -/
theorem open_stays (impl : Impl) (s : State) (op : Op) (hc : s.isOpen = true) (hop : op ≠ .close) :
    (step impl s op).1.isOpen = true := by
  cases op <;> cases impl <;> simp only [step, fetchVar, hc] <;> (repeat' split) <;> simp_all

theorem inv_step (impl : Impl) (s : State) (op : Op) (hi : Inv s) : Inv (step impl s op).1 := by
  cases hc : s.isOpen with
  | false => rw [(closed_step impl s hc hi op).1]; exact hi
  | true =>
    intro h
    by_cases hop : op = .close
    · subst hop; simp [step, hc]
    · rw [open_stays impl s op hc hop] at h; cases h

theorem inv_run (impl : Impl) (s : State) (ops : List Op) (hi : Inv s) : Inv (run impl s ops) := by
  induction ops generalizing s with
  | nil => exact hi
  | cons op rest ih => exact ih _ (inv_step impl s op hi)

theorem run_append (impl : Impl) (s : State) (a b : List Op) :
    run impl s (a ++ b) = run impl (run impl s a) b := by
  induction a generalizing s with
  | nil => rfl
  | cons op rest ih => exact ih _

/-- Once closed, closed for ever (no operation reopens the handle). -/
theorem closed_run (impl : Impl) (s : State) (ops : List Op) (hc : s.isOpen = false) (hi : Inv s) :
    run impl s ops = s := by
  induction ops with
  | nil => rfl
  | cons op rest ih =>
    simp only [run]
    rw [(closed_step impl s hc hi op).1]
    exact ih

theorem close_closes (impl : Impl) (s : State) : (step impl s .close).1.isOpen = false := by
  cases hc : s.isOpen <;> simp [step, hc]

/-- The state after any history that contains a `close` is closed (and satisfies the invariant). -/
theorem closed_after (impl : Impl) (funcs : List Name) (vars : List (Name × Int)) (before after : List Op) :
    (run impl (openLib funcs vars) (before ++ .close :: after)).isOpen = false ∧
    Inv (run impl (openLib funcs vars) (before ++ .close :: after)) := by
  have hi := inv_run impl _ before (inv_open funcs vars)
  rw [run_append]
  generalize run impl (openLib funcs vars) before = s at hi
  simp only [run]
  have hi' := inv_step impl s .close hi
  have hc := close_closes impl s
  rw [closed_run impl _ after hc hi']
  exact ⟨hc, hi'⟩

/-- **After `dlclose`, reading or writing a global raises** (and the library's
memory, like the rest of the state, is not touched) — whatever was accessed
before the close and whatever happened since. -/
theorem after_close_var_errors (impl : Impl) (funcs : List Name) (vars : List (Name × Int))
    (before after : List Op) (n : Name) (v : Int) :
    let s := run impl (openLib funcs vars) (before ++ .close :: after)
    step impl s (.readVar n) = (s, .err .closed) ∧ step impl s (.writeVar n v) = (s, .err .closed) := by
  intro s
  obtain ⟨hc, hi⟩ := closed_after impl funcs vars before after
  have r := closed_step impl s hc hi (.readVar n)
  have w := closed_step impl s hc hi (.writeVar n v)
  exact ⟨Prod.ext r.1 r.2, Prod.ext w.1 w.2⟩

/-- **After `dlclose`, fetching a function raises** — for every name, hence in
particular for the functions not fetched before the close. -/
theorem after_close_new_function_errors (impl : Impl) (funcs : List Name) (vars : List (Name × Int))
    (before after : List Op) (n : Name) :
    let s := run impl (openLib funcs vars) (before ++ .close :: after)
    step impl s (.getFunc n) = (s, .err .closed) := by
  intro s
  obtain ⟨hc, hi⟩ := closed_after impl funcs vars before after
  have r := closed_step impl s hc hi (.getFunc n)
  exact Prod.ext r.1 r.2

/-- **Closing again is harmless**: in every state `close` succeeds, and a second
`close` changes nothing. -/
theorem close_idempotent (impl : Impl) (s : State) :
    (step impl s .close).2 = .done ∧
    step impl (step impl s .close).1 .close = ((step impl s .close).1, .done) := by
  cases hc : s.isOpen <;> simp [step, hc]

/-- While the library is open the accesses do work (the refusals above are not
the model refusing everything): a variable the library exports reads back the
value last written through `lib`, in both implementations. -/
theorem open_write_then_read (impl : Impl) (s : State) (n : Name) (v x : Int)
    (ho : s.isOpen = true) (hx : s.mem.lookup n = some x) :
    (step impl (step impl s (.writeVar n v)).1 (.readVar n)).2 = .value v := by
  have hset : ∀ m : List (Name × Int), ∀ x, m.lookup n = some x → (setMem m n v).lookup n = some v := by
    intro m
    induction m with
    | nil => intro x h; simp [List.lookup] at h
    | cons p rest ih =>
      intro x h
      obtain ⟨a, b⟩ := p
      by_cases e : a = n
      · simp [setMem, e]
      · have e' : (n == a) = false := by simpa using fun h => e h.symm
        simp only [List.lookup, e'] at h
        simp [setMem, e, List.lookup, e', ih x h]
  have hv := hset s.mem x hx
  cases impl
  · simp [step, fetchVar, ho, hx, hv]
  · by_cases hcv : n ∈ s.cachedV <;> simp [step, fetchVar, ho, hx, hv, hcv]

-- Non-vacuity: a concrete history (out-of-line: the variable accessor is cached
-- before the close; in-line too) that fetches, writes, closes, and goes on.
def exLib : State := openLib [0, 1] [(10, 5), (11, -3)]
def exBefore : List Op := [.getFunc 0, .readVar 10, .writeVar 11 7, .readVar 11]
example : (run .outOfLine exLib exBefore) =
    { isOpen := true, cachedF := [0], cachedV := [11, 10], funcs := [0, 1], mem := [(10, 5), (11, 7)] } := by decide
example : (step .outOfLine (run .outOfLine exLib exBefore) (.readVar 11)).2 = .value 7 := by decide
example : (step .outOfLine (run .outOfLine exLib (exBefore ++ .close :: [.getFunc 1, .close])) (.readVar 11)).2
    = .err .closed := by decide
example : (step .inline (run .inline exLib (exBefore ++ .close :: [])) (.getFunc 1)).2 = .err .closed := by decide
example : (step .inline (run .inline exLib exBefore) (.getFunc 1)).2 = .func 1 := by decide
example : (step .inline (run .inline exLib exBefore) (.getFunc 5)).2 = .err .notFound := by decide

end CffiVerif.C37
