import CffiVerif.Proofs.CallSource

/-!
C13 — all call paths to a C function agree (partial).

Statements on the model `CffiVerif.Call` of the two conversion layers: the
wrapper generated for API mode (`_cffi_to_c_int` …, `_cffi_from_c_int` …) and
`cdata_call`'s `convert_from_object` / `convert_to_object` used by
`ffi.addressof(lib, f)`, in-line `dlopen` and out-of-line `dlopen`.

Partial: how the converted bytes reach the callee and how its result reaches
the result buffer is gcc's calling convention and libffi; that part is covered
by the correspondence run only (harness/corr_C13.py).
-/
namespace CffiVerif.C13
set_option linter.unusedSimpArgs false
open CffiVerif.Call CffiVerif.Generated

/-- **Arguments**: for every integer / `_Bool` / `char` type and every Python
object (every `int` of any magnitude in particular) both paths hand the callee
the same bytes, or raise the same exception type. -/
theorem arg_paths_agree (t : CType) (ht : t.valid = true) (o : PyObj) :
    argApi t o = argFfi t o := by
  obtain ⟨k, s⟩ := t
  unfold argApi argFfi
  congr 1
  cases k with
  | sint =>
    simp only [argApiRaw, argFfiRaw, toC_i]
    cases h : asLongLong o with
    | error e => rfl
    | ok v =>
      have hv := asLongLong_range o v h
      have hc := sint_check s v hv
      simp only [bind, Except.bind, Except.map]
      by_cases hb : v > apiSMax s.bits ∨ v < apiSMin s.bits
      · simp [hb, hc.mp hb]
      · have : ¬ (v ≠ sval s (trunc s v)) := fun h' => hb (hc.mpr h')
        simp [hb, this]
  | uint =>
    simp only [argApiRaw, argFfiRaw, toC_u]
    cases h : asULongLongStrict o with
    | error e => rfl
    | ok v =>
      have hv := asULongLongStrict_range o v h
      have hc := uint_check s v hv
      simp only [bind, Except.bind, Except.map]
      by_cases hb : v > apiUMax s.bits
      · simp [hb, hc.mp hb]
      · have : ¬ (v ≠ (trunc s v : Int)) := fun h' => hb (hc.mpr h')
        simp [hb, this]
  | bool =>
    simp only [argApiRaw, argFfiRaw, toC_Bool]
    cases o <;> simp only [asLongLong, asULongLongStrict, bind, Except.bind, Except.map, two63, two64]
    case int n =>
      by_cases h0 : n = 0
      · subst h0; simp
      · by_cases h1 : n = 1
        · subst h1; simp
        · by_cases hneg : n < 0
          · by_cases hlo : -9223372036854775808 ≤ n
            · have : n < 9223372036854775808 := by omega
              simp [hneg, hlo, this, h0, h1]
            · simp [hneg, hlo]
          · by_cases hhi : n < 9223372036854775808
            · have a : -9223372036854775808 ≤ n := by omega
              have b : n < 18446744073709551616 := by omega
              have c : n > 1 := by omega
              simp [hneg, hhi, a, b, c, h0, h1]
            · by_cases hhi2 : n < 18446744073709551616
              · have c : n > 1 := by omega
                simp [hneg, hhi, hhi2, c]
              · simp [hneg, hhi, hhi2]
    case intlike n =>
      by_cases h0 : n = 0
      · subst h0; simp
      · by_cases h1 : n = 1
        · subst h1; simp
        · by_cases hneg : n < 0
          · by_cases hlo : -9223372036854775808 ≤ n
            · have : n < 9223372036854775808 := by omega
              simp [hneg, hlo, this, h0, h1]
            · simp [hneg, hlo]
          · by_cases hhi : n < 9223372036854775808
            · have a : -9223372036854775808 ≤ n := by omega
              have b : n < 18446744073709551616 := by omega
              have c : n > 1 := by omega
              simp [hneg, hhi, a, b, c, h0, h1]
            · by_cases hhi2 : n < 18446744073709551616
              · have c : n > 1 := by omega
                simp [hneg, hhi, hhi2, c]
              · simp [hneg, hhi, hhi2]
    case charCdata b =>
      by_cases h0 : b.toNat = 0
      · simp [h0]
      · by_cases h1 : b.toNat = 1
        · simp [h1]
        · have h2 : 1 < b.toNat := by omega
          have h3 : (1 : Int) < (b.toNat : Int) := by omega
          have h4 : ¬ ((b.toNat : Int) = 1) := by omega
          have h5 : ¬ ((b.toNat : Int) = 0) := by omega
          simp [h0, h1, h2, h3, h4, h5]
    all_goals rfl
  | char => rfl

/-- **What the agreed outcome is**, for a Python `int`: the little-endian image
of `n` when `n` is in the range of the C type, `OverflowError` otherwise (never
a silently truncated value); `char` refuses every int with `TypeError`. -/
theorem arg_int_spec (t : CType) (ht : t.valid = true) (n : Int) :
    argFfi t (.int n) =
      if inRange t n then .ok (leBytes t.size.bytes (trunc t.size n))
      else .error (if t.kind = .char then .TypeError else .OverflowError) := by
  obtain ⟨k, s⟩ := t
  cases k with
  | sint =>
    simp only [argFfi, argFfiRaw, asLongLong, inRange]
    have hr := sint_range s n
    by_cases hin : -(2 ^ (s.bits - 1) : Int) ≤ n ∧ n < 2 ^ (s.bits - 1)
    · have h64 : -two63 ≤ n ∧ n < two63 := by
        cases s <;> simp only [Sz.bits, Sz.bytes, Nat.reduceMul, Nat.reduceSub, Int.reducePow, two63] at hin ⊢ <;> omega
      have := hr.mpr hin
      simp [h64, hin, bind, Except.bind, Except.map, ← this]
    · have hne : n ≠ sval s (trunc s n) := fun h => hin (hr.mp h)
      by_cases h64 : -two63 ≤ n ∧ n < two63
      · simp [h64, hin, hne, bind, Except.bind, Except.map]
      · simp [h64, hin, bind, Except.bind, Except.map]
  | uint =>
    simp only [argFfi, argFfiRaw, asULongLongStrict, inRange]
    have hr := uint_range s n
    by_cases hin : 0 ≤ n ∧ n < 2 ^ s.bits
    · have h64 : ¬ n < 0 ∧ n < two64 := by
        cases s <;> simp only [Sz.bits, Sz.bytes, Nat.reduceMul, Int.reducePow, two64] at hin ⊢ <;> omega
      have := hr.mpr hin
      simp [h64, hin, bind, Except.bind, Except.map, ← this]
    · have hne : n ≠ (trunc s n : Int) := fun h => hin (hr.mp h)
      by_cases hneg : n < 0
      · simp [hneg, hin, bind, Except.bind, Except.map]
      · by_cases h64 : n < two64
        · simp [hneg, h64, hin, hne, bind, Except.bind, Except.map]
        · simp [hneg, h64, hin, bind, Except.bind, Except.map]
  | bool =>
    simp only [argFfi, argFfiRaw, asULongLongStrict, inRange, two64]
    by_cases h0 : n = 0
    · subst h0; simp [bind, Except.bind, Except.map]
    · by_cases h1 : n = 1
      · subst h1; simp [bind, Except.bind, Except.map]
      · by_cases hneg : n < 0
        · simp [hneg, h0, h1, bind, Except.bind, Except.map]
        · by_cases h64 : n < 18446744073709551616
          · have : n > 1 := by omega
            simp [hneg, h64, h0, h1, this, bind, Except.bind, Except.map]
          · simp [hneg, h64, h0, h1, bind, Except.bind, Except.map]
  | char => simp [argFfi, argFfiRaw, convertToChar, inRange, Except.map]

/-- **Results**: for every C value of every integer / `_Bool` / `char` type both
paths build the same Python object, and it is the value of the C object.
(A C `_Bool` object holds 0 or 1.) -/
theorem res_paths_agree (t : CType) (ht : t.valid = true) (raw : Nat) (hraw : raw < 2 ^ t.size.bits)
    (hbool : t.kind = .bool → raw ≤ 1) :
    resFfi t raw = .ok (resApi t raw) ∧ resApi t raw = cValue t raw := by
  obtain ⟨k, s⟩ := t
  cases k with
  | sint =>
    cases s <;>
      simp only [resFfi, resApi, cValue, extend64, asSigned64, sval, Sz.bits, Sz.bytes,
        Nat.reduceMul, Nat.reduceSub, Nat.reducePow, Int.reducePow] at * <;>
      refine ⟨?_, ?_⟩ <;> first | rfl | trivial | omega | (congr 1; omega)
  | uint =>
    cases s <;>
      simp only [resFfi, resApi, cValue, extend64, asSigned64, fitsLong, Sz.bits, Sz.bytes,
        Nat.reduceMul, Nat.reducePow, Nat.reduceLT, decide_true, decide_false, if_true, if_false,
        Nat.lt_irrefl] at * <;>
      refine ⟨?_, ?_⟩ <;> first | rfl | trivial | omega | (congr 1; omega) | (simp; omega) | simp
  | bool =>
    have hb := hbool rfl
    have : raw = 0 ∨ raw = 1 := by omega
    rcases this with h | h <;> subst h <;> simp [resFfi, resApi, cValue]
  | char => simp [resFfi, resApi, cValue]

/-- Without the `_Bool` hypothesis the libffi path refuses what the wrapper
would turn into `True`: a byte that is not 0 or 1 is not a `_Bool` value. -/
theorem res_bool_nonbool_byte : resFfi ⟨.bool, .s1⟩ 2 = .error .ValueError
    ∧ resApi ⟨.bool, .s1⟩ 2 = .bool true := by decide

/-- Passing an in-range int and getting it back: argument conversion followed
by result conversion is the identity on values. -/
theorem arg_then_res_roundtrip (t : CType) (n : Int)
    (hk : t.kind = .sint ∨ t.kind = .uint) (hin : inRange t n) :
    ∃ raw, argFfiRaw t (.int n) = .ok raw ∧ resFfi t raw = .ok (.int n) := by
  obtain ⟨k, s⟩ := t
  rcases hk with hk | hk <;> simp only at hk <;> subst hk
  · refine ⟨trunc s n, ?_, ?_⟩
    · have hin' : -(2 ^ (s.bits - 1) : Int) ≤ n ∧ n < 2 ^ (s.bits - 1) := by simpa [inRange] using hin
      have hr := (sint_range s n).mpr hin'
      have h64 : -two63 ≤ n ∧ n < two63 := by
        cases s <;> simp only [Sz.bits, Sz.bytes, Nat.reduceMul, Nat.reduceSub, Int.reducePow, two63] at hin' ⊢ <;> omega
      simp [argFfiRaw, asLongLong, h64, bind, Except.bind, ← hr]
    · have hr := (sint_range s n).mpr (by simpa [inRange] using hin)
      have hlt := trunc_lt s n
      have := (res_paths_agree ⟨.sint, s⟩ rfl (trunc s n) hlt (by simp))
      rw [this.1, this.2]; simp [cValue, ← hr]
  · refine ⟨trunc s n, ?_, ?_⟩
    · have hr := (uint_range s n).mpr (by simpa [inRange] using hin)
      have h64 : ¬ n < 0 ∧ n < two64 := by
        have hin' : 0 ≤ n ∧ n < 2 ^ s.bits := by simpa [inRange] using hin
        cases s <;> simp only [Sz.bits, Sz.bytes, Nat.reduceMul, Int.reducePow, two64] at hin' ⊢ <;> omega
      simp [argFfiRaw, asULongLongStrict, h64, bind, Except.bind, ← hr]
    · have hr := (uint_range s n).mpr (by simpa [inRange] using hin)
      have hlt := trunc_lt s n
      have := (res_paths_agree ⟨.uint, s⟩ rfl (trunc s n) hlt (by simp))
      rw [this.1, this.2]; simp [cValue, ← hr]

/-- **Variadic part**: an integer cdata smaller than `int` is passed as the
`int` holding the same value (C's default argument promotion), never refused;
wider ones keep their type. -/
theorem variadic_promotion (t : CType) (ht : t.valid = true) (v : Int)
    (hk : t.kind = .sint ∨ t.kind = .uint ∨ t.kind = .bool) (hin : inRange t v) :
    variadicArg t v =
      .ok (leBytes (variadicType t).size.bytes (trunc (variadicType t).size v))
    ∧ (t.size.bytes < 4 → variadicType t = ⟨.sint, .s4⟩)
    ∧ (¬ t.size.bytes < 4 → variadicType t = t) := by
  refine ⟨?_, fun h => by simp [variadicType, h], fun h => by simp [variadicType, h]⟩
  have key : ∀ t' : CType, t'.valid = true → inRange t' v →
      argFfi t' (.intlike v) = .ok (leBytes t'.size.bytes (trunc t'.size v)) := by
    intro t' ht' hin'
    have h1 : argFfi t' (.intlike v) = argFfi t' (.int v) := by
      obtain ⟨k', s'⟩ := t'
      cases k' <;> simp [argFfi, argFfiRaw, asLongLong, asULongLongStrict] at hin' ⊢
      simp [inRange] at hin'
    rw [h1, arg_int_spec t' ht' v]; simp [hin']
  unfold variadicArg
  obtain ⟨k, s⟩ := t
  by_cases hs : s.bytes < 4
  · have hvt : variadicType ⟨k, s⟩ = ⟨.sint, .s4⟩ := by simp [variadicType, hs]
    rw [hvt]
    apply key _ rfl
    rcases hk with hk | hk | hk <;> simp only at hk <;> subst hk <;>
      cases s <;> simp only [Sz.bytes] at hs <;>
      simp only [inRange, Sz.bits, Sz.bytes, Nat.reduceMul, Nat.reduceSub, Int.reducePow] at hin ⊢ <;> omega
  · have hvt : variadicType ⟨k, s⟩ = ⟨k, s⟩ := by simp [variadicType, hs]
    rw [hvt]
    apply key _ _ hin
    rcases hk with hk | hk | hk <;> simp only at hk <;> subst hk
    · rfl
    · rfl
    · cases s <;> simp [Sz.bytes, CType.valid] at hs ht ⊢

/-- **Pointer arguments, size of the temporary**: a list/tuple of `len` items for
an `ITEM *` parameter asks for `len * sizeof(ITEM)` bytes (at least 1). -/
theorem prepare_seq_datasize (p : PtrT) (len : Nat) (hpos : 0 < p.itemSize)
    (hfit : (len : Int) * p.itemSize ≤ ssizeMax) :
    preparePtr p (.seq len) = .ok (.tmp (max (len * p.itemSize.toNat) 1)) := by
  have h1 : ¬ p.itemSize ≤ 0 := by omega
  have h2 : ¬ (len : Int) * p.itemSize > ssizeMax := by omega
  obtain ⟨k, hk⟩ : ∃ k : Nat, p.itemSize = k := ⟨p.itemSize.toNat, by omega⟩
  simp only [preparePtr, preparePtr.sized, h1, h2, if_false]
  rw [hk]
  simp only [Int.toNat_natCast]
  by_cases h3 : (len : Int) * (k : Int) ≤ 0
  · have : len * k = 0 := by
      have : ((len * k : Nat) : Int) ≤ 0 := by simpa using h3
      omega
    simp [h3, this]
  · have : ((len * k : Nat) : Int) = (len : Int) * k := by simp
    have hpos' : 0 < len * k := by
      rcases Nat.eq_zero_or_pos (len * k) with h | h
      · exfalso; apply h3; rw [← this, h]; simp
      · exact h
    simp only [h3, if_false]
    rw [← this, Int.toNat_natCast]
    congr 2
    omega

/-- `bytes` for a `char *` / `void *` / one-byte-integer pointer: the callee sees
the bytes object's own NUL-terminated buffer (no copy), on both paths. -/
theorem bytes_passthrough (p : PtrT) (b : List UInt8) (h : p.voidOrChar = true ∨ p.itemInt1 = true)
    (hb : p.itemBool = false) :
    preparePtr p (.bytes b) = .ok (.passthrough (b ++ [0])) := by
  rcases h with h | h <;> simp [preparePtr, h, hb]

/-- **The temporary array is zero-filled**: after preparation the array consists
of the items' images, each followed by zeros up to the item size (fields a
partial initialiser does not mention), followed by zeros up to `datasize`; both
paths build the same array. -/
theorem tmp_array_zero_filled (datasize itemSize : Nat) (items : List (List UInt8))
    (hs : ∀ bs ∈ items, bs.length ≤ itemSize) (hd : items.length * itemSize ≤ datasize) :
    tmpArrayFfi datasize itemSize items
      = items.flatMap (pad itemSize) ++ List.replicate (datasize - items.length * itemSize) 0
    ∧ tmpArrayApi datasize itemSize items = tmpArrayFfi datasize itemSize items
    ∧ (tmpArrayFfi datasize itemSize items).length = datasize := by
  have h := fillItems_spec itemSize items 0 [] datasize (by simp) hs hd
  simp only [List.nil_append] at h
  refine ⟨h, rfl, ?_⟩
  unfold tmpArrayFfi tmpArray
  rw [h]
  have hl : (items.flatMap (pad itemSize)).length = items.length * itemSize := by
    clear h hd
    induction items with
    | nil => simp
    | cons b r ih =>
      have hb := hs b (by simp)
      have := ih (fun x hx => hs x (by simp [hx]))
      simp only [List.flatMap_cons, List.length_append, pad_length itemSize b hb, this,
        List.length_cons, Nat.succ_mul]
      omega
  simp only [List.length_append, hl, List.length_replicate]
  omega

/-- **Temporaries of distinct arguments are distinct allocations** (`cdata_call` as it is in
the working tree: `alloca(datasize)` up to the threshold, `PyObject_Malloc` above, evaluated
inside the per-argument loop), for any number of list/tuple arguments of any sizes; the
API wrapper likewise allocates per argument (`alloca`, else `PyObject_Malloc` in
`_cffi_convert_array_argument`). -/
theorem tmp_buffers_distinct (sizes : List Nat) :
    (tmpBufferIdsFrom 0 sizes).Nodup
    ∧ storageOf Generated.CallTmpBuf.small = .fresh ∧ storageOf Generated.CallTmpBuf.large = .fresh
    ∧ storageOf Generated.CallTmpBuf.apiSmall = .fresh := by
  have hs : storageOf Generated.CallTmpBuf.small = .fresh := by decide +kernel
  have hl : storageOf Generated.CallTmpBuf.large = .fresh := by decide +kernel
  have hid : ∀ k d, tmpBufferId k d = k + 1 := by
    intro k d
    have : storageOf (tmpBufferExpr d) = .fresh := by
      unfold tmpBufferExpr
      simp only
      split <;> split <;> assumption
    simp only [tmpBufferId, this]
  have key : ∀ (l : List Nat) (k : Nat), (∀ x ∈ tmpBufferIdsFrom k l, k < x) ∧ (tmpBufferIdsFrom k l).Nodup := by
    intro l
    induction l with
    | nil => intro k; simp [tmpBufferIdsFrom]
    | cons d rest ih =>
      intro k
      obtain ⟨h1, h2⟩ := ih (k + 1)
      simp only [tmpBufferIdsFrom, hid]
      refine ⟨?_, ?_⟩
      · intro x hx
        simp only [List.mem_cons] at hx
        rcases hx with rfl | hx
        · omega
        · have := h1 x hx; omega
      · rw [List.nodup_cons]
        refine ⟨fun hmem => ?_, h2⟩
        have := h1 _ hmem; omega
  exact ⟨(key sizes 0).2, hs, hl, by decide +kernel⟩

/-- **Array fields of a by-value struct are flattened to the product of all their dimensions**
(`fb_fill_type` as it is in the working tree): for a field `T f[d1][d2]…[dk]` both loops compute
`d1 * d2 * … * dk` scalar elements, so the libffi element list describes every scalar of the struct
(a 2-D or 3-D array field is not cut down to its last dimension) and the filled list is exactly as
long as the counted one. -/
theorem struct_flattening_is_product (fields : List (List Nat)) :
    (∀ dims : List Nat, flatOf Generated.CallFlatten.fillOp dims = some (dims.foldl (· * ·) 1)
        ∧ flatOf Generated.CallFlatten.countOp dims = some (dims.foldl (· * ·) 1))
    ∧ elementsFilled fields = some ((fields.map fun dims => dims.foldl (· * ·) 1).sum)
    ∧ elementsCounted fields = elementsFilled fields := by
  have hf : Generated.CallFlatten.fillOp = "*=" := by decide
  have hc : Generated.CallFlatten.countOp = "*=" := by decide
  have key : ∀ (dims : List Nat) (a : Nat), dims.foldlM (applyFlatOp "*=") a = some (dims.foldl (· * ·) a) := by
    intro dims
    induction dims with
    | nil => intro a; rfl
    | cons d rest ih => intro a; simp only [List.foldlM_cons, applyFlatOp, if_true, List.foldl_cons]; exact ih _
  have hdims : ∀ dims : List Nat, flatOf Generated.CallFlatten.fillOp dims = some (dims.foldl (· * ·) 1)
      ∧ flatOf Generated.CallFlatten.countOp dims = some (dims.foldl (· * ·) 1) := by
    intro dims; rw [hf, hc]; exact ⟨key dims 1, key dims 1⟩
  have hsum : ∀ (fs : List (List Nat)) (a : Nat),
      fs.foldlM (fun acc dims => (flatOf Generated.CallFlatten.fillOp dims).map (acc + ·)) a
        = some (a + (fs.map fun dims => dims.foldl (· * ·) 1).sum) := by
    intro fs
    induction fs with
    | nil => intro a; simp
    | cons f rest ih =>
      intro a
      simp only [List.foldlM_cons, (hdims f).1, Option.map_some, List.map_cons, List.sum_cons]
      rw [show (some (a + List.foldl (· * ·) 1 f) >>= fun acc' =>
            rest.foldlM (fun acc dims => (flatOf Generated.CallFlatten.fillOp dims).map (acc + ·)) acc')
          = rest.foldlM (fun acc dims => (flatOf Generated.CallFlatten.fillOp dims).map (acc + ·)) (a + List.foldl (· * ·) 1 f)
          from rfl, ih]
      congr 1; omega
  refine ⟨hdims, ?_, ?_⟩
  · have := hsum fields 0; simpa [elementsFilled] using this
  · simp only [elementsCounted, elementsFilled, hf, hc]

/-- An empty list still yields one (zero) byte. -/
theorem empty_list_one_zero_byte (itemSize : Nat) : tmpArrayFfi 1 itemSize [] = [0] := by
  simp [tmpArrayFfi, tmpArray, fillItems]


/-! ### tie to the current source (`Generated/IntMacros`, regenerated on every run) -/

/-- The signed range check the model's API path uses **is** the condition of the
macro `_cffi_to_c_SIGNED_FN` in the working tree (translated to `BitVec 64`). -/
theorem api_signed_check_is_source (s : Sz) (v : Int) (h : -two63 ≤ v ∧ v < two63) :
    (v > apiSMax s.bits ∨ v < apiSMin s.bits) ↔ IntMacros.signedOverflow s.bits (BitVec.ofInt 64 v) = true := by
  have hv := toInt_ofInt_range v h
  cases s <;>
    simp only [IntMacros.signedOverflow, BitVec.slt, hv, Sz.bits, Sz.bytes, Nat.reduceMul, Bool.or_eq_true,
      decide_eq_true_eq, apiSMax, apiSMin] <;>
    simp <;> omega

/-- Same for `_cffi_to_c_UNSIGNED_FN`. -/
theorem api_unsigned_check_is_source (s : Sz) (v : Int) (h : 0 ≤ v ∧ v < two64) :
    (v > apiUMax s.bits) ↔ IntMacros.unsignedOverflow s.bits (BitVec.ofInt 64 v) = true := by
  have hv := toNat_ofInt_range v h
  cases s <;>
    simp only [IntMacros.unsignedOverflow, BitVec.ult, Sz.bits, Sz.bytes, Nat.reduceMul,
      decide_eq_true_eq, apiUMax] <;>
    simp <;> omega

/-- `_cffi_to_c_int(o, type)` of `_cffi_include.h` dispatches a type of `n` bytes to
`_cffi_to_c_u<8n>` / `_cffi_to_c_i<8n>`, as `argApiRaw` does; the macros start
from the conversions the model starts from. -/
theorem api_dispatch_is_source (s : Sz) :
    (IntMacros.dispatch.lookup s.bytes).map (fun r => (r.1.1, r.1.2.1, r.2.1, r.2.2.1))
      = some (false, s.bits, true, s.bits)
    ∧ IntMacros.signedConv = ("_my_PyLong_AsLongLong", false)
    ∧ IntMacros.unsignedConv = ("_my_PyLong_AsUnsignedLongLong", true) := by
  cases s <;> decide

/-! ### non-vacuity -/

example : (⟨.sint, .s2⟩ : CType).valid = true := rfl
example : argApi ⟨.sint, .s2⟩ (.int (-2)) = .ok [0xfe, 0xff] := by decide
example : argFfi ⟨.sint, .s2⟩ (.int 32768) = .error .OverflowError := by decide
example : argApi ⟨.uint, .s8⟩ (.int 18446744073709551616) = .error .OverflowError := by decide
example : argApi ⟨.uint, .s4⟩ .float = .error .TypeError := by decide
example : inRange ⟨.uint, .s1⟩ 255 := by decide
example : (200 : Nat) < 2 ^ (⟨.sint, .s1⟩ : CType).size.bits := by decide
example : resFfi ⟨.sint, .s1⟩ 200 = .ok (.int (-56)) := by decide
example : variadicArg ⟨.sint, .s1⟩ (-3) = .ok [0xfd, 0xff, 0xff, 0xff] := by decide
example : preparePtr ⟨4, false, false, false⟩ (.seq 3) = .ok (.tmp 12) := by decide
example : elementsFilled [[2, 2], [], [2, 3, 2]] = some 17 := by decide  -- struct { float a[2][2]; int k; short s[2][3][2]; }
example : tmpArrayFfi 12 4 [[1, 0, 0, 0], [7], [2, 2, 2, 2]] = [1, 0, 0, 0, 7, 0, 0, 0, 2, 2, 2, 2] := by decide
example : ∀ bs ∈ [[1, 0, 0, 0], [7], [2, 2, 2, 2]], (bs : List UInt8).length ≤ 4 := by decide

end CffiVerif.C13
