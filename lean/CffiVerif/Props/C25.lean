import CffiVerif.Proofs.Search
import CffiVerif.Proofs.RealizeName

/-!
C25 — every declared name is found by the runtime lookup of generated tables.

Statement of the property on the model: for every finite table of distinct
NUL-free names, sorted the way the code generator sorts it, `search_sorted`
finds each declared name at its own index and finds no undeclared name.
-/
namespace CffiVerif.C25
open CffiVerif.Search

/-- Invariant of the loop: a table entry equal to `s` at index `k` inside
`[left, right)` is found, and is found at `k`. -/
theorem loop_complete (names : Array CStr) (s : CStr)
    (hnn : ∀ x ∈ names.toList, NoNul x) (hs : NoNul s)
    (hsorted : StrictSorted names.toList)
    (k : Nat) (hk : k < names.size) (hks : names[k] = s)
    (left right : Nat) (hl : left ≤ k) (hr : k < right) (hrs : right ≤ names.size) :
    searchLoop names s left right = some k := by
  induction hd : right - left using Nat.strongRecOn generalizing left right with
  | ind d ih =>
    unfold searchLoop
    have hlr : left < right := by omega
    simp only [(gen_loopCond left right).mpr hlr, if_true, gen_middleOf, gen_newRight, gen_newLeft]
    have hm : (left + right) / 2 < names.size := by omega
    simp only [Array.getElem?_eq_getElem hm]
    have hsrc : NoNul names[(left + right) / 2] := hnn _ (by simp)
    have spec := cmp_spec names[(left + right) / 2] s hsrc hs
    have pw : ∀ i j (hi : i < names.size) (hj : j < names.size), i < j →
        lexCmp names[i] names[j] = .lt := by
      intro i j hi hj hij
      have := List.pairwise_iff_getElem.mp hsorted i j (by simpa using hi) (by simpa using hj) hij
      simpa using this
    rcases Nat.lt_trichotomy ((left + right) / 2) k with hlt | heq | hgt
    · -- names[middle] < s : go right
      have hcmp : lexCmp names[(left + right) / 2] s = .lt := by
        have := pw _ _ hm hk hlt; rwa [hks] at this
      have hneg := spec.2.2 hcmp
      have hnf : ¬ (Generated.SearchSorted.foundCond (strncmp names[(left + right) / 2] s)
          (byteAt names[(left + right) / 2] s.length) = true) := by
        rw [gen_foundCond, spec.1]; simp [hcmp]
      simp only [hnf, if_false]
      have : ¬ (Generated.SearchSorted.goLeftCond (strncmp names[(left + right) / 2] s) = true) := by
        rw [gen_goLeftCond]; omega
      simp only [this, if_false]
      exact ih (right - ((left + right) / 2 + 1)) (by omega) _ _ (by omega) hr hrs rfl
    · -- found
      subst heq
      have hcmp : lexCmp names[(left + right) / 2] s = .eq := by
        rw [lexCmp_eq_iff]; exact hks
      have hf : Generated.SearchSorted.foundCond (strncmp names[(left + right) / 2] s)
          (byteAt names[(left + right) / 2] s.length) = true := (gen_foundCond _ _).mpr (spec.1.mpr hcmp)
      simp only [hf, if_true]
    · -- names[middle] > s : go left
      have hcmp : lexCmp names[(left + right) / 2] s = .gt := by
        have := pw _ _ hk hm hgt
        rw [hks] at this
        exact (lexCmp_lt_iff_gt _ _).mp this
      have hpos : Generated.SearchSorted.goLeftCond (strncmp names[(left + right) / 2] s) = true :=
        (gen_goLeftCond _).mpr (spec.2.1 hcmp)
      have hnf : ¬ (Generated.SearchSorted.foundCond (strncmp names[(left + right) / 2] s)
          (byteAt names[(left + right) / 2] s.length) = true) := by
        rw [gen_foundCond, spec.1]; simp [hcmp]
      simp only [hnf, hpos, if_true, if_false]
      exact ih (((left + right) / 2) - left) (by omega) _ _ hl hgt (by omega) rfl

/-- Whatever the loop returns is an index whose entry equals the searched
string (no sortedness needed). -/
theorem loop_sound (names : Array CStr) (s : CStr)
    (hnn : ∀ x ∈ names.toList, NoNul x) (hs : NoNul s)
    (left right : Nat) (i : Nat) (h : searchLoop names s left right = some i) :
    ∃ hi : i < names.size, names[i] = s := by
  induction hd : right - left using Nat.strongRecOn generalizing left right with
  | ind d ih =>
    unfold searchLoop at h
    by_cases hlr : left < right
    · simp only [(gen_loopCond left right).mpr hlr, if_true, gen_middleOf, gen_newRight, gen_newLeft] at h
      cases hget : names[(left + right) / 2]? with
      | none => simp [hget] at h
      | some src =>
        simp only [hget] at h
        have hm : (left + right) / 2 < names.size := by
          rcases Array.getElem?_eq_some_iff.mp hget with ⟨hm, _⟩; exact hm
        have hsrc_eq : names[(left + right) / 2] = src := by
          rcases Array.getElem?_eq_some_iff.mp hget with ⟨_, e⟩; exact e
        have hsrc : NoNul src := by rw [← hsrc_eq]; exact hnn _ (by simp)
        have spec := cmp_spec src s hsrc hs
        by_cases hf : Generated.SearchSorted.foundCond (strncmp src s) (byteAt src s.length) = true
        · simp only [hf, if_true] at h
          have : i = (left + right) / 2 := by injection h with h; exact h.symm
          subst this
          exact ⟨hm, by rw [hsrc_eq]; exact (lexCmp_eq_iff _ _).mp (spec.1.mp ((gen_foundCond _ _).mp hf))⟩
        · simp only [hf, if_false] at h
          by_cases hge : Generated.SearchSorted.goLeftCond (strncmp src s) = true
          · simp only [hge, if_true] at h
            exact ih _ (by omega) _ _ h rfl
          · simp only [hge, if_false] at h
            exact ih _ (by omega) _ _ h rfl
    · have : ¬ (Generated.SearchSorted.loopCond left right = true) := fun hh => hlr ((gen_loopCond _ _).mp hh)
      simp [this] at h

/-- **Completeness**: each declared name resolves to its own entry. -/
theorem search_complete (names : Array CStr) (s : CStr)
    (hnn : ∀ x ∈ names.toList, NoNul x)
    (hsorted : StrictSorted names.toList)
    (k : Nat) (hk : k < names.size) (hks : names[k] = s) :
    searchSorted names s = some k := by
  have hs : NoNul s := by rw [← hks]; exact hnn _ (by simp)
  exact loop_complete names s hnn hs hsorted k hk hks 0 names.size (Nat.zero_le _) hk (Nat.le_refl _)

/-- **Soundness**: a hit is an entry with exactly the searched name. -/
theorem search_sound (names : Array CStr) (s : CStr)
    (hnn : ∀ x ∈ names.toList, NoNul x) (hs : NoNul s)
    (i : Nat) (h : searchSorted names s = some i) :
    ∃ hi : i < names.size, names[i] = s :=
  loop_sound names s hnn hs 0 names.size i h

/-- **No undeclared name is found.** -/
theorem search_undeclared (names : Array CStr) (s : CStr)
    (hnn : ∀ x ∈ names.toList, NoNul x) (hs : NoNul s)
    (hnot : s ∉ names.toList) : searchSorted names s = none := by
  cases h : searchSorted names s with
  | none => rfl
  | some i =>
    obtain ⟨hi, e⟩ := search_sound names s hnn hs i h
    exact absurd (by rw [← e]; simp) hnot

/-- Python orders ASCII identifier strings exactly as `strcmp` orders their
bytes, so `lst.sort(key=name)` yields a `StrictSorted` table. -/
theorem python_sort_is_byte_lex (a b : List Nat) (ha : ∀ c ∈ a, c < 128) (hb : ∀ c ∈ b, c < 128) :
    pyCmp a b = lexCmp (asciiBytes a) (asciiBytes b) := by
  induction a generalizing b with
  | nil => cases b <;> simp [pyCmp, lexCmp, asciiBytes]
  | cons x xs ih =>
    cases b with
    | nil => simp [pyCmp, lexCmp, asciiBytes]
    | cons y ys =>
      have hx : x < 128 := ha x (by simp)
      have hy : y < 128 := hb y (by simp)
      have ih' := ih ys (fun c hc => ha c (by simp [hc])) (fun c hc => hb c (by simp [hc]))
      simp only [pyCmp, asciiBytes, List.map_cons, lexCmp] at *
      have e1 : (UInt8.ofNat x < UInt8.ofNat y) ↔ x < y := by
        rw [UInt8.lt_iff_toNat_lt]; simp [UInt8.toNat_ofNat']; omega
      have e2 : (UInt8.ofNat y < UInt8.ofNat x) ↔ y < x := by
        rw [UInt8.lt_iff_toNat_lt]; simp [UInt8.toNat_ofNat']; omega
      simp only [e1, e2, ih']

/-- ASCII identifiers contain no NUL byte. -/
theorem ascii_identifier_noNul (a : List Nat) (ha : ∀ c ∈ a, 0 < c ∧ c < 128) : NoNul (asciiBytes a) := by
  intro b hb
  simp only [asciiBytes, List.mem_map] at hb
  obtain ⟨c, hc, rfl⟩ := hb
  have := ha c hc
  intro h
  have : (UInt8.ofNat c).toNat = 0 := by rw [h]; rfl
  simp [UInt8.toNat_ofNat'] at this
  omega

-- Non-vacuity: a concrete sorted, NUL-free table with names that are prefixes of
-- one another meets the hypotheses of `search_complete`.
def exTable : Array CStr := #[[97, 98], [97, 98, 99], [97, 98, 100], [98]]   -- "ab" "abc" "abd" "b"
example : StrictSorted exTable.toList := by unfold StrictSorted exTable; decide
example : ∀ x ∈ exTable.toList, NoNul x := by unfold NoNul exTable; decide
example : searchSorted exTable [97, 98, 99] = some 1 :=
  search_complete exTable _ (by unfold NoNul exTable; decide) (by unfold StrictSorted exTable; decide) 1
    (by unfold exTable; decide) (by unfold exTable; decide)

/-! ### The name under which a struct/union entry is looked up again

`do_realize_lazy_struct` recovers the table tag from the realized ctype's name with `_unrealize_name`
and searches the `struct_unions` table for it; the declared entry is found only if that mapping inverts
`_realize_name` for every tag the generator can emit. -/
section names
open CffiVerif.RealizeName

/-- `"struct xyz"` maps back to the tag `xyz`, whatever `xyz` is. -/
theorem unrealize_struct (s : RealizeName.CStr) : unrealizeName (structPfx ++ s) = s := by
  unfold unrealizeName
  rw [gen_cases]
  simp only [unrealizeFrom]
  rw [if_pos (strncmpN_self_prefix structPfx s (by decide))]
  simp

/-- `"union xyz"` maps back to the tag `xyz`. -/
theorem unrealize_union (s : RealizeName.CStr) : unrealizeName (unionPfx ++ s) = s := by
  unfold unrealizeName
  rw [gen_cases]
  simp only [unrealizeFrom]
  have hd : strncmpN (unionPfx ++ s) structPfx structPfx.length ≠ 0 :=
    first_differs [116, 114, 117, 99, 116, 32] ([110, 105, 111, 110, 32] ++ s) 6 117 115 (by decide)
  rw [if_neg hd]
  rw [if_pos (strncmpN_self_prefix unionPfx s (by decide))]
  simp

/-- A name without a space (every typedef name; in particular one that merely *starts with* the letters
`struct`, `union` or `enum`) maps back to the `$`-tag of the typedef-named anonymous aggregate. -/
theorem unrealize_typedef_name (s : RealizeName.CStr) (h : NoSpace s) : unrealizeName s = 36 :: s := by
  unfold unrealizeName
  rw [gen_cases]
  have no : ∀ lit : RealizeName.CStr, (∀ b ∈ lit, b ≠ 0) → 32 ∈ lit → strncmpN s lit lit.length ≠ 0 := by
    intro lit hl hm hz
    have hp := prefix_of_strncmpN_zero lit s hl hz
    exact h 32 (hp.subset hm) rfl
  simp only [unrealizeFrom]
  rw [if_neg (no structPfx (by decide) (by decide)), if_neg (no unionPfx (by decide) (by decide)),
    if_neg (no enumPfx (by decide) (by decide)), gen_else]
  rfl

/-- Round trip for every tag of the `struct_unions` table: a plain tag, `$xyz` (typedef-named anonymous),
`$1` / `$$…` (numbered anonymous), under either keyword. -/
theorem unrealize_realize (pfx tag : RealizeName.CStr) (hp : pfx = structPfx ∨ pfx = unionPfx)
    (h : NoSpace tag) : unrealizeName (realizeName pfx tag) = tag := by
  unfold realizeName
  split
  · rename_i hc
    have h0 := ((gen_isTypedefNamed _ _).mp hc).1
    cases tag with
    | nil => simp [charAt] at h0
    | cons a as =>
      have ha : a = 36 := UInt8.toNat_inj.mp (by simpa using h0)
      subst ha
      rw [gen_typedefSkip]
      simpa using unrealize_typedef_name as (fun b hb => h b (by simp [hb]))
  · rcases hp with rfl | rfl
    · exact unrealize_struct tag
    · exact unrealize_union tag

-- Non-vacuity and the shapes that matter: `typedef struct {…} struct_pt;` next to `struct pt {…};`
example : realizeName structPfx (36 :: [115, 116, 114, 117, 99, 116, 95, 112, 116]) =
    [115, 116, 114, 117, 99, 116, 95, 112, 116] := by decide
example : unrealizeName [115, 116, 114, 117, 99, 116, 95, 112, 116] =
    36 :: [115, 116, 114, 117, 99, 116, 95, 112, 116] := by decide
example : NoSpace [115, 116, 114, 117, 99, 116, 95, 112, 116] := by unfold NoSpace; decide
end names

end CffiVerif.C25
