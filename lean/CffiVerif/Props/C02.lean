import CffiVerif.Proofs.Bitfield

/-!
C02 — bit-field reads and writes are range-exact, round-trip and isolated.

`Bitfield.read` / `Bitfield.write` are the hand transcription of
`convert_to_object_bitfield` / `convert_from_object_bitfield`; every mask,
shift, bound and the full-width guard inside them is the definition
regenerated from the C source into `Generated/BitfieldExprs.lean`, so these
theorems are re-checked against the expressions the code contains *now*.

All theorems quantify over every well-formed field (`WF`: unit size 1/2/4/8,
width 1 .. 8·size, shift + width inside the unit), every content of the
storage unit and every Python int `v : Int` of any magnitude.
-/
namespace CffiVerif.C02
open CffiVerif CffiVerif.CBits CffiVerif.Bitfield CffiVerif.Generated.Bitfield

/-- A full-width field of a 64-bit type (the only `WF` case with width 64). -/
theorem full_width (f : Field) (h : WF f) (hw : ¬ f.bitsize < 64) :
    f.bitsize = 64 ∧ f.size = 8 ∧ f.bitshift = 0 := by
  have := h.2.2
  rcases h.1 with h1 | h1 | h1 | h1 <;> omega

theorem rawUnsigned_8 (x : BitVec 64) : rawUnsigned 8 x = x := by
  apply BitVec.eq_of_getLsbD_eq
  intro i hi
  rw [rawUnsigned_getLsbD]
  simp [hi]

theorem rawSigned_8 (x : BitVec 64) : rawSigned 8 x = x := by
  apply BitVec.eq_of_getLsbD_eq
  intro i hi
  exact rawSigned_getLsbD 8 x i (by omega) (by omega) (by omega)

/-- **Both functions return early for the full 64-bit width** (so that no shift
by the width is ever evaluated), and **every remaining shift count is in
[0, 64)**: the C code has no undefined shift on any well-formed field. -/
theorem shifts_in_range (f : Field) (h : WF f) :
    readGuard = some 64 ∧ writeGuard = some 64 ∧
    (f.bitsize < 64 → ∀ c ∈ shiftCounts f.bitsize f.bitshift, 0 ≤ c ∧ c < 64) := by
  refine ⟨by decide, by decide, ?_⟩
  intro hw c hc
  have h1 := h.2.1
  have h2 := h.2.2
  have h8 : 8 * f.size ≤ 64 := by rcases h.1 with h|h|h|h <;> omega
  simp only [shiftCounts, List.mem_cons, List.mem_nil_iff, or_false] at hc
  rcases hc with rfl | rfl | rfl <;> omega

/-- **The value read is the value C reads from the same storage**: the
zero-extension (unsigned) or sign-extension (signed) of bits `[shift, shift+width)`. -/
theorem read_is_c_semantics (f : Field) (mem : BitVec 64) (h : WF f) :
    Bitfield.read f mem = cValue f mem := by
  by_cases hw : f.bitsize < 64
  · cases hsg : f.signed
    · rw [read_unsigned f mem h hw hsg]; simp [cValue, hsg]
    · exact read_signed f mem h hw hsg
  · obtain ⟨h64, h8, h0⟩ := full_width f h hw
    have hg : some 64 = readGuard := by decide
    unfold Bitfield.read plainRead cValue cField
    simp only [h8, h0, h64, hg, if_true, rawSigned_8, rawUnsigned_8]
    cases hsg : f.signed
    · simp
      have := mem.isLt
      omega
    · simp only [if_true, true_and]
      rw [BitVec.toInt_eq_toNat_cond]
      have := mem.isLt
      simp only [Nat.pow_zero, Nat.div_one, Nat.mod_eq_of_lt this]
      split <;> split <;> omega

/-- **A store succeeds iff `v` is in the field's representable range** (a signed
1-bit field also accepts 1). -/
theorem store_accepts_iff (f : Field) (mem : BitVec 64) (v : Int) (h : WF f) :
    (∃ m, write f mem v = .ok m) ↔ inRange f v := by
  by_cases hw : f.bitsize < 64
  · have hg : ¬ (some f.bitsize = writeGuard) := by rw [guards.2]; simp; omega
    unfold write
    simp only [hg, if_false]
    rw [← rejects_iff f v h hw]
    cases hr : rejects f v <;> simp
  · obtain ⟨h64, h8, h0⟩ := full_width f h hw
    have hg : some 64 = writeGuard := by decide
    unfold write plainWrite inRange
    simp only [h8, h64, hg, if_true]
    cases hsg : f.signed
    · simp only [Bool.false_eq_true, if_false]
      constructor
      · intro ⟨m, hm⟩
        split at hm
        · rename_i hc; omega
        · cases hm
      · intro hc
        split
        · exact ⟨_, rfl⟩
        · rename_i hn; exfalso; apply hn; omega
    · simp only [if_true]
      constructor
      · intro ⟨m, hm⟩
        split at hm
        · rename_i hc; left; omega
        · cases hm
      · intro hc
        split
        · exact ⟨_, rfl⟩
        · rename_i hn; exfalso; apply hn; omega

/-- **An out-of-range store raises OverflowError** (and nothing else); the model
returns no new memory in that case. -/
theorem reject_is_overflow (f : Field) (mem : BitVec 64) (v : Int) (h : WF f) (e : Err)
    (he : write f mem v = .error e) : e = .overflow ∧ ¬ inRange f v := by
  refine ⟨by cases e; rfl, ?_⟩
  intro hin
  obtain ⟨m, hm⟩ := (store_accepts_iff f mem v h).mpr hin
  rw [hm] at he
  cases he

/-- **No other bit of the storage unit changes.** -/
theorem store_isolated (f : Field) (mem m : BitVec 64) (v : Int) (h : WF f)
    (hm : write f mem v = .ok m) (i : Nat) (hi : i < 8 * f.size)
    (hout : i < f.bitshift ∨ f.bitshift + f.bitsize ≤ i) :
    m.getLsbD i = mem.getLsbD i := by
  by_cases hw : f.bitsize < 64
  · have hg : ¬ (some f.bitsize = writeGuard) := by rw [guards.2]; simp; omega
    unfold write at hm
    simp only [hg, if_false] at hm
    split at hm
    · cases hm
    · injection hm with hm
      rw [← hm, stored_getLsbD f mem v h hw]
      have : ¬ (f.bitshift ≤ i ∧ i < f.bitshift + f.bitsize) := by omega
      simp [hi, this]
  · obtain ⟨h64, h8, h0⟩ := full_width f h hw
    omega

/-- **Reading after an accepted store returns `v`** (−1 for the signed 1-bit
field that was given 1). -/
theorem read_after_store (f : Field) (mem m : BitVec 64) (v : Int) (h : WF f)
    (hm : write f mem v = .ok m) :
    Bitfield.read f m = if f.signed = true ∧ f.bitsize = 1 ∧ v = 1 then -1 else v := by
  have hin : inRange f v := (store_accepts_iff f mem v h).mp ⟨m, hm⟩
  by_cases hw : f.bitsize < 64
  · have hw1 := h.2.1
    have hg : ¬ (some f.bitsize = writeGuard) := by rw [guards.2]; simp; omega
    unfold write at hm
    simp only [hg, if_false] at hm
    split at hm
    · cases hm
    · injection hm with hm
      rw [read_is_c_semantics f m h, ← hm]
      unfold cValue
      have hc := cField_stored f mem v h hw
      have hb := int_pow_bounds (f.bitsize - 1) (by omega)
      have h2 := int_two_pow_pred f.bitsize hw1
      have hlt : (cField f (stored f mem v) : Int) < (2:Int) ^ f.bitsize := by
        rw [hc]; exact Int.emod_lt_of_pos _ (by omega)
      have hcast : ((2 ^ (f.bitsize - 1) : Nat) : Int) = (2:Int) ^ (f.bitsize - 1) := by simp
      unfold inRange at hin
      cases hsg : f.signed
      · simp only [hsg, Bool.false_eq_true, if_false, false_and] at hin ⊢
        rw [hc]
        exact Int.emod_eq_of_lt (by omega) (by omega)
      · simp only [hsg, if_true, true_and] at hin ⊢
        generalize hcd : cField f (stored f mem v) = c at *
        have hge : (c ≥ 2 ^ (f.bitsize - 1)) ↔ ((c : Int) ≥ (2:Int) ^ (f.bitsize - 1)) := by
          rw [← hcast]; omega
        rcases hin with ⟨hlo, hhi⟩ | ⟨hw_eq, hv1⟩
        · have hne : ¬ (f.bitsize = 1 ∧ v = 1) := by
            intro ⟨e1, e2⟩; rw [e1] at hhi; simp at hhi; omega
          simp only [hne, if_false]
          by_cases hneg : v < 0
          · have : v % (2:Int) ^ f.bitsize = v + (2:Int) ^ f.bitsize := by
              rw [← Int.add_emod_right]
              exact Int.emod_eq_of_lt (by omega) (by omega)
            rw [this] at hc
            have : c ≥ 2 ^ (f.bitsize - 1) := hge.mpr (by omega)
            simp only [this, if_true]
            omega
          · have : v % (2:Int) ^ f.bitsize = v := Int.emod_eq_of_lt (by omega) (by omega)
            rw [this] at hc
            have : ¬ (c ≥ 2 ^ (f.bitsize - 1)) := fun hh => by have := hge.mp hh; omega
            simp only [this, if_false]
            omega
        · simp only [hw_eq, hv1, and_self, if_true]
          rw [hw_eq, hv1] at hc
          have : c = 1 := by simp at hc; omega
          subst this
          simp [hw_eq]
  · obtain ⟨h64, h8, h0⟩ := full_width f h hw
    have hg : some 64 = writeGuard := by decide
    have hg' : some 64 = readGuard := by decide
    have hne : ¬ (f.signed = true ∧ f.bitsize = 1 ∧ v = 1) := by omega
    simp only [hne, if_false]
    unfold write plainWrite at hm
    simp only [h64, h8, hg, if_true] at hm
    unfold Bitfield.read plainRead
    simp only [h64, h8, hg', if_true, rawSigned_8, rawUnsigned_8]
    unfold inRange at hin
    cases hsg : f.signed
    · simp only [hsg, Bool.false_eq_true, if_false, h64] at hin hm ⊢
      split at hm
      · injection hm with hm
        rw [← hm, rawUnsigned_8, BitVec.toNat_ofInt]
        have : v % ((2 ^ 64 : Nat) : Int) = v := Int.emod_eq_of_lt (by omega) (by simp; omega)
        rw [this]
        omega
      · cases hm
    · simp only [hsg, if_true, h64] at hin hm ⊢
      split at hm
      · injection hm with hm
        rw [← hm, rawUnsigned_8]
        exact toInt_ofInt_of_range v (by omega) (by omega)
      · cases hm

-- Non-vacuity: concrete fields meeting `WF`, with accepted and rejected stores.
def exField : Field := { size := 4, signed := true, bitshift := 29, bitsize := 3 }    -- `int x:3` in the top bits
def exFull : Field := { size := 8, signed := false, bitshift := 0, bitsize := 64 }    -- `unsigned long long x:64`
example : WF exField := by unfold WF exField; decide
example : WF exFull := by unfold WF exFull; decide
example : inRange exField (-4) ∧ ¬ inRange exField 4 := by unfold inRange exField; decide
example : inRange exFull (2 ^ 64 - 1) ∧ ¬ inRange exFull (2 ^ 64) := by unfold inRange exFull; decide
example : ∃ m, write exField 0xFFFFFFFF#64 (-4) = .ok m :=
  (store_accepts_iff exField _ _ (by unfold WF exField; decide)).mpr (by unfold inRange exField; decide)

end CffiVerif.C02
