import CffiVerif.Proofs.UniqueCache

/-!
C27 — non-aggregate ctypes are canonical over any history.

Histories: any list of `build` (a call of `new_primitive_type` / `new_void_type` /
`new_pointer_type` / `new_array_type` / `new_function_type` / `new_struct_type`
that returned the object at a given address), `drop` (the program gives up a
reference), `clearweak` and `finish` (the two halves of `ctypedescr_dealloc`,
with arbitrary operations allowed in between — weakref callbacks run there),
with addresses of freed objects free to be reused.
-/
namespace CffiVerif.C27
open CffiVerif.UniqueCache

theorem reachable_inv (ops : List Op) : Inv (run init ops) := inv_run inv_init ops

theorem reachable_deep (ops : List Op) : Deep (run init ops) := deep_run inv_init deep_init ops

/-- **Canonical**: in every reachable state two live ctype objects have the same
structural description (same primitive; same pointee; same item type and length;
same result, arguments, ellipsis and ABI; the same aggregate object at the
leaves) iff they are the same object. -/
theorem canonical (ops : List Op) (a b : Nat) (oa ob : Obj)
    (ha : (run init ops).live a = some oa) (hb : (run init ops).live b = some ob) :
    oa.gdesc = ob.gdesc ↔ a = b := by
  constructor
  · intro h
    exact deep_canon (reachable_inv ops) (reachable_deep ops) ob.gdesc a b oa ob ha hb h rfl
  · intro h
    subst h
    rw [ha] at hb
    simp at hb
    rw [hb]

/-- The same with the one-level description (what `new_*_type` was called with:
the child ctype *objects*, the length, the flags), for non-aggregates. -/
theorem canonical_shallow (ops : List Op) (a b : Nat) (oa ob : Obj)
    (ha : (run init ops).live a = some oa) (hb : (run init ops).live b = some ob)
    (hna : oa.shape ≠ .agg) : oa.shape = ob.shape ↔ a = b := by
  constructor
  · intro h; exact canon_shallow (reachable_inv ops) ha hb h hna
  · intro h
    subst h
    rw [ha] at hb
    simp at hb
    rw [hb]

/-- **A rebuilt type is again unique**: whatever happened before (the previous
ctype of that description was freed, its address reused, its cache entry deleted
or still there as a dead weak reference), two successive builds of the same
non-aggregate type return the same object: the second one finds the first. -/
theorem rebuild_after_free_unique (ops : List Op) (sh : Shape) (r1 r2 : Nat) (x1 x2 : Res)
    (hna : sh ≠ .agg)
    (h1 : (step (run init ops) (.build sh r1)).2 = .ok x1)
    (h2 : (step (step (run init ops) (.build sh r1)).1 (.build sh r2)).2 = .ok x2) :
    r2 = r1 ∧ x2 = .hit := by
  have hinv := reachable_inv ops
  generalize run init ops = s at *
  simp only [step] at h1 h2
  -- the first build: stored shape `sh1`, key `k`, and afterwards the cache maps `k` to `r1`
  have first : ∃ sh1 d1 k, validate s sh = .ok (sh1, d1) ∧ keyOf sh1 = some k ∧
      (build s sh r1).1.cache k = some (some r1) ∧ (∃ o1, (build s sh r1).1.heap r1 = some o1) ∧
      (∀ c o, s.heap c = some o → ∃ o', (build s sh r1).1.heap c = some o' ∧ o'.shape = o.shape) := by
    unfold build at h1 ⊢
    cases hv : validate s sh with
    | error e => simp [hv] at h1
    | ok p =>
      obtain ⟨sh1, d1⟩ := p
      have hagg := (validate_ok hv).2.2
      simp only [hv] at h1 ⊢
      cases hk : keyOf sh1 with
      | none =>
        have : sh1 = .agg := by cases sh1 <;> simp [keyOf] at hk ⊢
        exact absurd (hagg.mp this) hna
      | some k =>
        simp only [hk] at h1 ⊢
        refine ⟨sh1, d1, k, rfl, hk, ?_⟩
        split
        · rename_i a hc
          simp only [hc] at h1
          split
          · rename_i oa hoa
            simp only [hoa] at h1
            split
            · rename_i hra
              subst hra
              refine ⟨hc, ⟨{ oa with refs := oa.refs + 1 }, by simp [State.setObj]⟩, ?_⟩
              intro c o hco
              by_cases hca : c = r1
              · subst hca; rw [hoa] at hco; simp at hco; subst hco
                exact ⟨{ oa with refs := oa.refs + 1 }, by simp [State.setObj], rfl⟩
              · exact ⟨o, by simp [State.setObj, hca, hco], rfl⟩
            · rename_i hra; simp [hra] at h1
          · rename_i hnone; simp [hnone] at h1
        · rename_i hmiss
          split
          · rename_i hused
            split at h1
            · rename_i a hc; exact absurd hc (hmiss a)
            · simp [hused] at h1
          · rename_i hfree
            have hfree' := heap_none_of_not_isSome hfree
            refine ⟨by simp [State.insert], ⟨{ shape := sh1, key := some k, clearing := false, refs := 1, gdesc := d1 }, by simp [State.insert]⟩, ?_⟩
            intro c o hco
            have hne : c ≠ r1 := by intro e; subst e; rw [hfree'] at hco; simp at hco
            exact ⟨o, by simp [State.insert, hne, hco], rfl⟩
  obtain ⟨sh1, d1, k, hv1, hk1, hcache, ⟨o1, ho1⟩, hshapes⟩ := first
  generalize (build s sh r1).1 = s1 at *
  -- the second build validates to the same stored shape, hence the same key
  unfold build at h2
  cases hv2 : validate s1 sh with
  | error e => simp [hv2] at h2
  | ok p =>
    obtain ⟨sh2, d2⟩ := p
    have e2 : sh2 = sh1 := by
      rw [validate_shape hv2, validate_shape hv1]
      exact norm_congr hshapes (validate_children_alloc hv1)
    subst e2
    simp only [hv2, hk1, hcache, ho1] at h2
    by_cases hr : r2 = r1
    · simp [hr] at h2; exact ⟨hr, h2.symm⟩
    · simp [hr] at h2

/-- **Children outlive their parent**: as long as a ctype is allocated (even in
the middle of its deallocation) each child ctype it refers to is live, and the
deallocation of such a child is refused.  (So the addresses inside the key of a
live ctype are never reused for something else.) -/
theorem children_outlive_parent (ops : List Op) (a c : Nat) (o : Obj)
    (ha : (run init ops).heap a = some o) (hc : c ∈ children o.shape) :
    (∃ oc, (run init ops).live c = some oc) ∧
    (step (run init ops) (.clearweak c)).2 = .error .Referenced := by
  have hinv := reachable_inv ops
  generalize run init ops = s at *
  obtain ⟨oc, hoc⟩ := hinv.kids a o ha c hc
  refine ⟨⟨oc, hoc⟩, ?_⟩
  have hp : hasParent s c = true := by
    unfold hasParent
    rw [List.any_eq_true]
    exact ⟨a, hinv.dom a o ha, by simp [ha, hc]⟩
  simp [step, clearweak, hoc, hp]

/-- **Only dead entries are ever removed**: the second half of a deallocation
never deletes a cache entry that is a live weak reference. -/
theorem only_dead_entries_removed (s : State) (a : Nat) (k : Key) (b : Nat)
    (h : s.cache k = some (some b)) : (step s (.finish a)).1.cache k = some (some b) := by
  simp only [step, finish]
  split
  · split
    · simp only
      rw [if_neg (by rw [h]; simp)]
      exact h
    · exact h
  · exact h

/-- What `build` returns is a live object. -/
theorem build_returns_live (ops : List Op) (sh : Shape) (res : Nat) (x : Res)
    (h : (step (run init ops) (.build sh res)).2 = .ok x) :
    ∃ o, (step (run init ops) (.build sh res)).1.live res = some o := by
  have hinv := reachable_inv ops
  generalize run init ops = s at *
  simp only [step] at h ⊢
  unfold build at h ⊢
  cases hv : validate s sh with
  | error e => simp [hv] at h
  | ok p =>
    obtain ⟨sh1, d1⟩ := p
    simp only [hv] at h ⊢
    cases hk : keyOf sh1 with
    | none =>
      simp only [hk] at h ⊢
      by_cases hused : (s.heap res).isSome = true
      · simp [hused] at h
      · simp only [hused]
        exact ⟨{ shape := sh1, key := none, clearing := false, refs := 1, gdesc := d1 },
          by simp [State.live, State.insert]⟩
    | some k =>
      simp only [hk] at h ⊢
      cases hc : s.cache k with
      | none =>
        simp only [hc] at h ⊢
        by_cases hused : (s.heap res).isSome = true
        · simp [hused] at h
        · simp only [hused]
          exact ⟨{ shape := sh1, key := some k, clearing := false, refs := 1, gdesc := d1 },
            by simp [State.live, State.insert]⟩
      | some v =>
        cases v with
        | none =>
          simp only [hc] at h ⊢
          by_cases hused : (s.heap res).isSome = true
          · simp [hused] at h
          · simp only [hused]
            exact ⟨{ shape := sh1, key := some k, clearing := false, refs := 1, gdesc := d1 },
              by simp [State.live, State.insert]⟩
        | some a =>
          obtain ⟨oa, hoa, hcl, _⟩ := hinv.sound k a hc
          simp only [hc, hoa] at h ⊢
          by_cases hr : res = a
          · subst hr
            simp only [if_true]
            exact ⟨{ oa with refs := oa.refs + 1 }, by simp [State.live, State.setObj, hcl]⟩
          · simp [hr] at h

/-! ### Tie to the statements of the C source (`Generated/UniqueCacheSteps.lean`, re-extracted from
`_cffi_backend.c` by `translate/c27_steps.py` on every run) -/

open CffiVerif.Generated.UniqueCacheSteps in
/-- **The two halves of the model's deallocation are the source's**: `ctypedescr_dealloc` clears the
weak references first (`clearweak`), then calls `remove_dead_unique_reference`, and only afterwards
releases the children and frees (`finish`); executing the statements of
`remove_dead_unique_reference` as they stand in the source deletes the entry exactly when it is a
dead weak reference — never a live one, which is `finish`'s test; and executing
`get_or_insert_unique_type` returns the existing object exactly for a live entry and otherwise
stores a weak reference to the new one, which is `build`. -/
theorem dealloc_steps_are_source :
    (∀ e, (runSteps remove_dead_unique_reference e).deleted = modelRemove e) ∧
    (∀ e, ((runSteps get_or_insert_unique_type e).result, (runSteps get_or_insert_unique_type e).stored)
            = (some (modelInsert e).1, (modelInsert e).2)) ∧
    (∃ c r d1 d2 f, posOf .clearWeakrefs ctypedescr_dealloc = some c ∧
        posOf .removeDead ctypedescr_dealloc = some r ∧ posOf .decrefItem ctypedescr_dealloc = some d1 ∧
        posOf .decrefStuff ctypedescr_dealloc = some d2 ∧ posOf .free ctypedescr_dealloc = some f ∧
        c < r ∧ r < d1 ∧ r < d2 ∧ d1 < f ∧ d2 < f) ∧
    (ctypedescr_dealloc.filter (fun st => st.2 == .removeDead)).map (·.1) = [[.hasKey]] := by
  refine ⟨?_, ?_, ?_, by decide⟩
  · intro e; cases e <;> decide
  · intro e; cases e <;> decide
  · exact ⟨1, 2, 4, 5, 6, by decide, by decide, by decide, by decide, by decide, by decide, by decide,
      by decide, by decide, by decide⟩

/-! ### Non-vacuity: concrete histories -/

-- int at 10, int* at 20
def exBase : List Op := [.build (.prim 2) 10, .build (.ptr 10) 20]

example : (step (run init exBase) (.build (.ptr 10) 20)).2 = .ok .hit := by decide
-- the implementation may not hand out a second object for a live description
example : (step (run init exBase) (.build (.ptr 10) 30)).2 = .error .NotCanonical := by decide
-- the child cannot be deallocated while the pointer type exists
example : (step (run init (exBase ++ [.drop 10])) (.clearweak 10)).2 = .error .Referenced := by decide
-- free int*, then rebuild: a new object (here at the reused address), found again by the next build
def exFreed : List Op := exBase ++ [.drop 20, .clearweak 20, .finish 20]
example : (step (run init exFreed) (.build (.ptr 10) 20)).2 = .ok .new := by decide
example : (step (run init (exFreed ++ [.build (.ptr 10) 20])) (.build (.ptr 10) 20)).2 = .ok .hit := by decide
-- rebuild *during* the deallocation (weakref callback): the dead entry is replaced, and the
-- rest of the deallocation must not delete the new live entry
def exRace : List Op := exBase ++ [.drop 20, .clearweak 20, .build (.ptr 10) 30, .finish 20]
example : (step (run init exRace) (.build (.ptr 10) 30)).2 = .ok .hit := by decide
example : (step (run init exRace) (.build (.ptr 10) 40)).2 = .error .NotCanonical := by decide
-- arrays: the key holds the pointer-to-item type and the length; int[3], int[], function types
example : (step (run init (exBase ++ [.build (.arr 20 (some 3)) 30])) (.build (.arr 20 (some 3)) 30)).2 = .ok .hit := by
  decide
example : (step (run init (exBase ++ [.build (.arr 20 (some 3)) 30])) (.build (.arr 20 (some 4)) 30)).2
    = .error .AddrInUse := by decide
example : (step (run init (exBase ++ [.build (.arr 20 (some 3)) 30])) (.build (.arr 20 none) 40)).2 = .ok .new := by
  decide
-- int f(int[3]) is int f(int *): the array argument decays
example : (step (run init (exBase ++ [.build (.arr 20 (some 3)) 30, .build (.func 10 [30] false 2) 40]))
    (.build (.func 10 [20] false 2) 40)).2 = .ok .hit := by decide
example : (step (run init (exBase ++ [.build (.func 10 [20] false 2) 40])) (.build (.func 10 [20] true 2) 50)).2
    = .ok .new := by decide
-- aggregates are never shared
example : (step (run init [.build .agg 10]) (.build .agg 20)).2 = .ok .new := by decide
example : (step (run init exBase) (.build (.arr 10 (some 3)) 30)).2 = .error .TypeError := by decide

end CffiVerif.C27
