import CffiVerif.Proofs.CheckInt
import CffiVerif.Proofs.StructCheck

/-!
C12 — API-mode modules faithfully reflect the C source and detect mismatches (partial).

Proved here, on the models of the generated checking code and of its run-time consumers:
the integer-constant check fires on every disagreement and never on agreement; the
two-word constant protocol decodes to the compiler's value; a struct declared without `...`
realises without error exactly when every number the cdef denotes equals the compiler's;
with `...` the compiler's numbers are adopted.  What the C compiler computes (`offsetof`,
`sizeof`, the value of a constant expression) is a *parameter* of these statements; calls and
global variable access are covered by the correspondence run only.
-/
namespace CffiVerif.C12
open CffiVerif.CheckIntOps CffiVerif.CheckInt CffiVerif.StructCheck

/-! ## integer constants -/

/-- The generated test (`_cffi_check_int` inside `_cffi_const_NAME`, consumed by
    `realize_global_int`) raises iff the compiler's value `a` differs from the cdef's value `e`,
    for all values of `long long ∪ unsigned long long` — in particular `-1` vs `2^64-1`. -/
theorem check_int_iff (a e : Int) (ha : InRange a) (he : InRange e) :
    realizeGlobalInt (constBody a (some e)) = .error .ffiError ↔ a ≠ e :=
  realize_checked_error_iff a e ha he

example : InRange (-1) ∧ InRange 18446744073709551615 := by decide
example : realizeGlobalInt (constBody (-1) (some 18446744073709551615)) = .error .ffiError :=
  (check_int_iff _ _ (by decide) (by decide)).mpr (by decide)
example : realizeGlobalInt (constBody (-9223372036854775808) (some (-9223372036854775808))) =
    .ok (-9223372036854775808) := by decide

/-- Without a value in the cdef (`#define X ...`, enumerators, `static const`), the flag+value
    protocol returns the compiler's value. -/
theorem const_decodes_value (a : Int) (ha : InRange a) :
    realizeGlobalInt (constBody a none) = .ok a :=
  realize_unchecked a ha

example : realizeGlobalInt (constBody 18446744073709551615 none) = .ok 18446744073709551615 :=
  const_decodes_value _ (by decide)

/-- When the cdef's value agrees, the value is returned (never an error on agreement). -/
theorem checked_const_value (a : Int) (ha : InRange a) :
    realizeGlobalInt (constBody a (some a)) = .ok a :=
  realize_checked_agree a ha

/-- `lib.NAME` for `#define NAME e` in the cdef: error iff the C value differs.

    Full-strength statement (all declaration kinds `k`):
      `libConst k (some e) a = .error .ffiError ↔ a ≠ e`
    fails for `k = .enumerator`: `Recompiler._generate_cpy_enum_decl` does not pass the cdef's value
    to `_generate_cpy_const` (regenerated `enum_decl_checks_value = false`), so an enumerator whose
    cdef value is wrong silently takes the compiler's value — see `enumerator_unchecked_witness`
    (finding class C12/enumerator-value-unchecked). -/
theorem const_check_iff_partial (k : Kind) (hk : k = .define) (a e : Int) (ha : InRange a) (he : InRange e) :
    libConst k (some e) a = .error .ffiError ↔ a ≠ e := by
  subst hk
  exact realize_checked_error_iff a e ha he

example : libConst .define (some 5) 6 = .error .ffiError :=
  (const_check_iff_partial .define rfl 6 5 (by decide) (by decide)).mpr (by decide)

/-- Negation of the full-strength statement at a concrete input: cdef `enum { B = 2 }`, C `B = 5`. -/
theorem enumerator_unchecked_witness : libConst .enumerator (some 2) 5 = .ok 5 := by decide

/-- What the code does for enumerators and `static const` integers in API mode: whatever the cdef
    said, the compiler's value is used (never the cdef's). -/
theorem unchecked_kinds_use_compiler (k : Kind) (hk : k ≠ .define) (cdefValue : Option Int) (a : Int)
    (ha : InRange a) : libConst k cdefValue a = .ok a := by
  cases k with
  | define => exact absurd rfl hk
  | enumerator => exact realize_unchecked a ha
  | constant => exact realize_unchecked a ha

/-- `#define X ...` / `enum { A = ... }`: the compiler's value, silently. -/
theorem dotdotdot_const_uses_compiler (k : Kind) (a : Int) (ha : InRange a) :
    libConst k none a = .ok a := by
  cases k <;> exact realize_unchecked a ha

/-! ## structs -/

/-- A struct declared without `...` (flag `_CFFI_F_CHECK_FIELDS`) realises without error iff
    every field size, every field offset, the total size and the alignment the cdef denotes
    (`natural`: computed from the cdef's field types only) equal the compiler's numbers. -/
theorem struct_check_iff_core (fl : Flags) (hc : fl.check = true) (fs : List Fld) (tot al : Int)
    (hoff : ∀ f ∈ fs, 0 ≤ f.koffset) (htot : 0 ≤ tot) (hal : 0 ≤ al) :
    (∃ L, realise fl fs tot al = .ok L) ↔
      (∀ f ∈ fs, f.csize = f.ksize) ∧ fs.map (·.koffset) = (natural fl fs).offsets ∧
      tot = (natural fl fs).size ∧ al = ((natural fl fs).align : Int) := by
  rw [realise_checked fl hc fs tot al hoff htot hal]
  constructor
  · intro ⟨L, h⟩
    by_cases hA : Agrees fl fs tot al
    · exact hA
    · simp [hA] at h
  · intro hA
    have hA' : Agrees fl fs tot al := hA
    exact ⟨_, if_pos hA'⟩

/-- … and every failure is an `ffi.error`, every success yields exactly those numbers, with
    `CT_CUSTOM_FIELD_POS` clear. -/
theorem struct_check_outcome (fl : Flags) (hc : fl.check = true) (fs : List Fld) (tot al : Int)
    (hoff : ∀ f ∈ fs, 0 ≤ f.koffset) (htot : 0 ≤ tot) (hal : 0 ≤ al) :
    realise fl fs tot al = .error .ffiError ∨
    realise fl fs tot al = .ok ⟨(natural fl fs).offsets, (natural fl fs).size, (natural fl fs).align, false⟩ := by
  rw [realise_checked fl hc fs tot al hoff htot hal]
  by_cases hA : Agrees fl fs tot al
  · right
    obtain ⟨h1, h2, h3, h4⟩ := hA
    subst h3; subst h4
    rw [if_pos (show Agrees fl fs _ _ from ⟨h1, h2, rfl, rfl⟩), h2]
  · left; simp [hA]

-- Non-vacuity: `struct { int a; char b; long c; short d[3]; }` on x86-64, compiler's numbers
-- 0/4/8/16, size 24, alignment 8.
def exFields : List Fld := [⟨4, 4, 0, 4⟩, ⟨1, 1, 4, 1⟩, ⟨8, 8, 8, 8⟩, ⟨6, 2, 16, 6⟩]
def exChecked : Flags := ⟨true, false, false⟩
example : ∃ L, realise exChecked exFields 24 8 = .ok L :=
  (struct_check_iff_core exChecked rfl exFields 24 8 (by decide) (by decide) (by decide)).mpr (by decide)
-- the cdef says `int c` where the C source has `long c`: rejected
example : realise exChecked [⟨4, 4, 0, 4⟩, ⟨1, 1, 4, 1⟩, ⟨4, 4, 8, 8⟩, ⟨6, 2, 16, 6⟩] 24 8 = .error .ffiError := by
  decide
-- two fields swapped in the cdef (`char b; int a;`): sizes agree field by field, offsets do not
example : realise exChecked [⟨1, 1, 4, 1⟩, ⟨4, 4, 0, 4⟩, ⟨8, 8, 8, 8⟩, ⟨6, 2, 16, 6⟩] 24 8 = .error .ffiError := by
  decide
-- the last field dropped in the cdef: only the total size differs
example : realise exChecked [⟨4, 4, 0, 4⟩, ⟨1, 1, 4, 1⟩, ⟨8, 8, 8, 8⟩] 24 8 = .error .ffiError := by decide

/-- The field-size comparison is made for every struct, with or without `...`:
    a field whose cdef type has another size than the C field is always an `ffi.error`. -/
theorem field_size_mismatch_always_rejected (fl : Flags) (fs : List Fld) (tot al : Int)
    (h : ∃ f ∈ fs, f.koffset ≠ -1 ∧ f.csize ≠ f.ksize) :
    realise fl fs tot al = .error .ffiError := by
  unfold realise
  rw [sizeChecks_mismatch fs h]

/-- `struct { …; ...; }` (no `_CFFI_F_CHECK_FIELDS`): provided the declared fields have the C
    fields' sizes and lie inside the C struct, realisation succeeds and the layout *is* the
    compiler's: its offsets, its total size, its alignment — whatever the cdef alone would give. -/
theorem dotdotdot_uses_compiler_core (fl : Flags) (hc : fl.check = false) (fs : List Fld) (tot al : Int)
    (hsz : ∀ f ∈ fs, f.csize = f.ksize) (hoff : ∀ f ∈ fs, 0 ≤ f.koffset)
    (hfit : ∀ f ∈ fs, fieldEnd f ≤ tot) (htot : 0 ≤ tot) (hal : 0 ≤ al) :
    ∃ c, realise fl fs tot al = .ok ⟨fs.map (·.koffset), tot, al, c⟩ := by
  unfold realise
  rw [(sizeChecks_ok_iff fs hoff).mpr hsz]
  obtain ⟨st', h1, h2, h3⟩ := fieldLoop_unchecked fl hc fs hoff tot hfit initSt (by simpa [initSt] using htot)
  simp only [h1]
  obtain ⟨c, h4⟩ := finish_unchecked fl hc st' tot al htot hal h3
  refine ⟨c, ?_⟩
  rw [h4, h2]
  simp [initSt]

-- Non-vacuity: cdef `struct { long c; int a; ...; }` against the C struct above: the cdef alone
-- would put `c` at 0 and `a` at 8 with size 16; the compiler's 8 / 0 / 24 are adopted.
def exPartial : Flags := ⟨false, false, false⟩
example : ∃ c, realise exPartial [⟨8, 8, 8, 8⟩, ⟨4, 4, 0, 4⟩] 24 8 = .ok ⟨[8, 0], 24, 8, c⟩ :=
  dotdotdot_uses_compiler_core exPartial rfl _ 24 8 (by decide) (by decide) (by decide) (by decide) (by decide)
example : (natural exPartial [⟨8, 8, 8, 8⟩, ⟨4, 4, 0, 4⟩]).offsets = [0, 8] := by decide

/-! ## from the generated table's flags (packed and non-packed alike) -/
open CffiVerif.Generated

/-- The `sflags` assembled by `do_realize_lazy_struct_lock_held` (regenerated statements) carries
    `SF_STD_FIELD_POS` iff the table says `_CFFI_F_CHECK_FIELDS` and `SF_PACKED` iff it says
    `_CFFI_F_PACKED` — neither bit disturbs the other. -/
theorem sflags_assembly_faithful (flags : Nat) : flagsOfTable flags = declaredFlags flags :=
  flagsOfTable_eq_declared flags

/-- A struct/union whose table entry has `_CFFI_F_CHECK_FIELDS` — packed or not, struct or union —
    realises without error iff every field size, field offset, the total size and the alignment that
    the cdef denotes *under the declared packing* equal the compiler's numbers. -/
theorem struct_check_iff (flags : Nat) (hc : hasBit flags StructFlags.F_CHECK_FIELDS = true)
    (fs : List Fld) (tot al : Int)
    (hoff : ∀ f ∈ fs, 0 ≤ f.koffset) (htot : 0 ≤ tot) (hal : 0 ≤ al) :
    (∃ L, realiseTable flags fs tot al = .ok L) ↔
      (∀ f ∈ fs, f.csize = f.ksize) ∧ fs.map (·.koffset) = (natural (declaredFlags flags) fs).offsets ∧
      tot = (natural (declaredFlags flags) fs).size ∧ al = ((natural (declaredFlags flags) fs).align : Int) := by
  unfold realiseTable
  rw [sflags_assembly_faithful flags]
  exact struct_check_iff_core (declaredFlags flags) hc fs tot al hoff htot hal

/-- Without `_CFFI_F_CHECK_FIELDS` (`...` in the cdef) the compiler's layout is adopted, packed or not. -/
theorem dotdotdot_uses_compiler (flags : Nat) (hc : hasBit flags StructFlags.F_CHECK_FIELDS = false)
    (fs : List Fld) (tot al : Int)
    (hsz : ∀ f ∈ fs, f.csize = f.ksize) (hoff : ∀ f ∈ fs, 0 ≤ f.koffset)
    (hfit : ∀ f ∈ fs, fieldEnd f ≤ tot) (htot : 0 ≤ tot) (hal : 0 ≤ al) :
    ∃ c, realiseTable flags fs tot al = .ok ⟨fs.map (·.koffset), tot, al, c⟩ := by
  unfold realiseTable
  rw [sflags_assembly_faithful flags]
  exact dotdotdot_uses_compiler_core (declaredFlags flags) hc fs tot al hsz hoff hfit htot hal

-- Non-vacuity: `struct { char a; int b; short c; long d; }` declared with packed=True
-- (flags = CHECK_FIELDS|PACKED = 6) against `__attribute__((packed))`: 0/1/5/7, size 15, alignment 1.
def exPacked : List Fld := [⟨1, 1, 0, 1⟩, ⟨4, 4, 1, 4⟩, ⟨2, 2, 5, 2⟩, ⟨8, 8, 7, 8⟩]
example : ∃ L, realiseTable 6 exPacked 15 1 = .ok L :=
  (struct_check_iff 6 (by decide) exPacked 15 1 (by decide) (by decide) (by decide)).mpr (by decide)
-- `b` and `c` swapped in the cdef: every field size still agrees, the offsets do not -> rejected
example : realiseTable 6 [⟨1, 1, 0, 1⟩, ⟨2, 2, 5, 2⟩, ⟨4, 4, 1, 4⟩, ⟨8, 8, 7, 8⟩] 15 1 = .error .ffiError := by decide
-- the C struct has one more trailing byte than the cdef: only the total size differs -> rejected
example : realiseTable 6 exPacked 16 1 = .error .ffiError := by decide
-- the same cdef without packed=True (flags = 2) against the packed C struct: rejected
example : realiseTable 2 exPacked 15 1 = .error .ffiError := by decide

end CffiVerif.C12
