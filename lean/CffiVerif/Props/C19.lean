import CffiVerif.Proofs.Buffer

/-!
C19 — buffers, from_buffer and memmove match a byte-array model.

Statements over the executable model `CffiVerif.Buffer` (Model/Buffer.lean) of the
`ffi.buffer` object (minibuffer.h + CPython's slice-index normalisation),
`direct_from_buffer` and `b_memmove`, and over `Mem.memmove` (the byte loop of a libc).
`region m b` are the bytes of the buffer `b` inside the flat memory `m`; `splice m b r`
is `m` with those bytes replaced by `r`; `pyGetSlice`/`pySetSlice`/`pyGetItem`/`pySetItem`
are Python's `bytearray` semantics.  Bounds and indexes are Python ints of any magnitude.
-/
namespace CffiVerif.C19
open CffiVerif.Mem CffiVerif.Buffer
open CffiVerif.Index (PyArg ssizeMin ssizeMax fitsSsize)

/-! ### reading -/

/-- `buf[i:j]` (step absent or 1) is exactly the bytearray slice, for every `i`, `j`:
negative, out of range, beyond 2^63, or `None`. -/

theorem getslice_eq_bytearray (m : Bytes) (b : Buf) (hin : b.data + b.size ≤ m.length)
    (hs : (b.size : Int) ≤ ssizeMax) (i j : Option Int) (step : PyArg)
    (hstep : step = .none ∨ step = .int 1) :
    getslice m b (argOfOpt i) (argOfOpt j) step = .ok (pyGetSlice (region m b) i j) := by
  unfold getslice
  gen_normB
  rw [sliceBounds_eq b.size hs i j step hstep]
  have hA := pyBound_le b.size 0 (Nat.zero_le _) i
  have hB := pyBound_le b.size b.size (Nat.le_refl _) j
  simp only [clampLR_nat b.size _ _ hA hB]
  have e1 : ((min (pyBound b.size 0 i) (pyBound b.size b.size j) : Nat) : Int).toNat
      = min (pyBound b.size 0 i) (pyBound b.size b.size j) := by omega
  have e2 : (((pyBound b.size b.size j : Nat) : Int) -
      ((min (pyBound b.size 0 i) (pyBound b.size b.size j) : Nat) : Int)).toNat
      = pyBound b.size b.size j - min (pyBound b.size 0 i) (pyBound b.size b.size j) := by omega
  rw [e1, e2, getslice_core m b hin _ _ hA hB]
  unfold pyGetSlice
  rw [region_length m b hin]

/-- Any other step is refused (`0`: ValueError by `PySlice_Unpack`, else TypeError). -/
theorem getslice_other_step_rejected (m : Bytes) (b : Buf) (i j : Option Int) (st : Int) (h1 : st ≠ 1) :
    ∃ e, getslice m b (argOfOpt i) (argOfOpt j) (.int st) = .error e := by
  unfold getslice sliceBounds unpack unpackStep
  simp only []
  by_cases h0 : st = 0
  · rw [if_pos h0]; exact ⟨_, rfl⟩
  · rw [if_neg h0]
    simp only []
    cases hi : unpackBound (argOfOpt i) _ with
    | error e => exact ⟨_, rfl⟩
    | ok s =>
      simp only []
      cases hj : unpackBound (argOfOpt j) _ with
      | error e => exact ⟨_, rfl⟩
      | ok e =>
        simp only []
        have hne : ¬ ((if clampSsize st < -ssizeMax then -ssizeMax else clampSsize st) = 1) := by
          unfold clampSsize ssizeMin ssizeMax
          split <;> split <;> (try split) <;> omega
        rw [if_neg hne]
        exact ⟨_, rfl⟩

/-- `buf[i]` equals bytearray indexing (negative `i` counts from the end; everything
outside `[-n, n)`, of any magnitude, is IndexError). -/

theorem getitem_eq_bytearray (m : Bytes) (b : Buf) (hin : b.data + b.size ≤ m.length)
    (hs : (b.size : Int) ≤ ssizeMax) (i : Int) :
    getitem m b (.int i) =
      match pyGetItem (region m b) i with
      | some x => .ok [x]
      | none => .error .IndexError := by
  unfold getitem
  rw [normIndex_spec b.size hs i]
  unfold pyGetItem
  rw [region_length m b hin]
  have rd : ∀ (k : Nat) (hk : k < b.size), Mem.read m (b.data + k) 1 = some [m[b.data + k]'(by omega)] ∧
      (region m b)[k]? = some (m[b.data + k]'(by omega)) := by
    intro k hk
    constructor
    · unfold Mem.read
      rw [if_pos (by omega)]
      congr 1
      apply List.ext_getElem?
      intro t
      simp only [List.getElem?_take, List.getElem?_drop]
      by_cases ht : t < 1
      · have : t = 0 := by omega
        subst this
        simp [List.getElem?_eq_getElem (show b.data + k < m.length by omega)]
      · have : ¬ t < 1 := ht
        simp only [this, if_false]
        cases t with
        | zero => omega
        | succ t => rfl
    · unfold region
      simp only [List.getElem?_take, List.getElem?_drop, hk, if_true]
      exact List.getElem?_eq_getElem (by omega)
  by_cases h1 : 0 ≤ i ∧ i < b.size
  · have g : ¬ i < 0 := by omega
    simp only [h1, and_self, if_true, g, if_false]
    obtain ⟨r1, r2⟩ := rd i.toNat (by omega)
    rw [r1, r2]
  · by_cases h2 : -(b.size : Int) ≤ i ∧ i < 0
    · have g : i < 0 := by omega
      have g2 : ¬ i + b.size < 0 := by omega
      simp only [h1, h2, and_self, if_true, if_false, g2]
      obtain ⟨r1, r2⟩ := rd (i + b.size).toNat (by omega)
      rw [r1, r2]
    · simp only [h1, h2, if_false]
      by_cases g : i < 0
      · have g2 : i + b.size < 0 := by omega
        simp only [g, g2, if_true]
      · simp only [g, if_false]
        have : (region m b)[i.toNat]? = none := by
          apply List.getElem?_eq_none
          rw [region_length m b hin]; omega
        rw [this]

/-! ### writing -/

/-- `buf[i:j] = src` with `len(src)` equal to the slice length does what the bytearray
assignment does, and only inside the buffer. -/

theorem setslice_eq_bytearray_when_same_len (m : Bytes) (b : Buf) (hin : b.data + b.size ≤ m.length)
    (hs : (b.size : Int) ≤ ssizeMax) (i j : Option Int) (step : PyArg)
    (hstep : step = .none ∨ step = .int 1) (bs : Bytes)
    (hl : bs.length = pySliceLen b.size i j) :
    setslice m b (argOfOpt i) (argOfOpt j) step (.bytes bs) =
      (splice m b (pySetSlice (region m b) i j bs), .ok ()) := by
  unfold setslice
  simp only [clampLRAss_eq]
  gen_normB
  rw [sliceBounds_eq b.size hs i j step hstep]
  have hA := pyBound_le b.size 0 (Nat.zero_le _) i
  have hB := pyBound_le b.size b.size (Nat.le_refl _) j
  simp only [clampLR_nat b.size _ _ hA hB]
  unfold pySliceLen at hl
  have c : ¬ (((pyBound b.size b.size j : Nat) : Int) -
      ((min (pyBound b.size 0 i) (pyBound b.size b.size j) : Nat) : Int) ≠ (bs.length : Int)) := by omega
  have e1 : ((min (pyBound b.size 0 i) (pyBound b.size b.size j) : Nat) : Int).toNat
      = min (pyBound b.size 0 i) (pyBound b.size b.size j) := by omega
  simp only [c, if_false, e1]
  rw [setslice_core m b hin _ _ hA hB bs hl]
  unfold pySetSlice
  rw [region_length m b hin]

/-- Same-length slice assignment keeps the length of the bytearray. -/
theorem pySetSlice_same_len (s : Bytes) (i j : Option Int) (v : Bytes)
    (hl : v.length = pySliceLen s.length i j) : (pySetSlice s i j v).length = s.length := by
  unfold pySetSlice pySliceLen at *
  have hA := pyBound_le s.length 0 (Nat.zero_le _) i
  have hB := pyBound_le s.length s.length (Nat.le_refl _) j
  simp only [List.length_append, List.length_take, List.length_drop]
  split <;> omega

/-- Any other length is a ValueError and no byte changes. -/

theorem setslice_rejects_other_len (m : Bytes) (b : Buf)
    (hs : (b.size : Int) ≤ ssizeMax) (i j : Option Int) (step : PyArg)
    (hstep : step = .none ∨ step = .int 1) (bs : Bytes)
    (hl : bs.length ≠ pySliceLen b.size i j) :
    setslice m b (argOfOpt i) (argOfOpt j) step (.bytes bs) = (m, .error .ValueError) := by
  unfold setslice
  simp only [clampLRAss_eq]
  gen_normB
  rw [sliceBounds_eq b.size hs i j step hstep]
  have hA := pyBound_le b.size 0 (Nat.zero_le _) i
  have hB := pyBound_le b.size b.size (Nat.le_refl _) j
  simp only [clampLR_nat b.size _ _ hA hB]
  unfold pySliceLen at hl
  have c : (((pyBound b.size b.size j : Nat) : Int) -
      ((min (pyBound b.size 0 i) (pyBound b.size b.size j) : Nat) : Int) ≠ (bs.length : Int)) := by omega
  rw [if_pos c]

/-! ### cdata right-hand sides (`_fetch_as_buffer`) -/

/-- `buf[i:j] = <cdata array>` behaves, for every key, exactly like assigning a bytes object
holding the array's `length * itemsize` bytes. -/
theorem setslice_cdata_array_like_bytes (m : Bytes) (b : Buf) (x y z : PyArg) (n : Nat) (isize : Int)
    (hs : isize ≥ 0) (bs : Bytes) (hl : (bs.length : Int) = n * isize) :
    setslice m b x y z (.carray n isize (.ext bs)) = setslice m b x y z (.bytes bs) := by
  unfold setslice
  simp only [clampLRAss_eq]
  gen_normB
  cases sliceBounds b.size x y z with
  | error e => rfl
  | ok p =>
    obtain ⟨s, e⟩ := p
    simp only [carrayLen_eq, hs, if_true, ← hl]
    by_cases h : (clampLR b.size s e).2 - (clampLR b.size s e).1 = (bs.length : Int)
    · have h2 : bs.length = ((bs.length : Nat) : Int).toNat := by omega
      simp only [h, ne_eq, not_true_eq_false, if_false, ← h2]
    · simp only [ne_eq, h, not_false_eq_true, if_true]

/-- … also when the array lives in the same memory (it is then a view of those bytes). -/
theorem setslice_cdata_array_view_like_view (m : Bytes) (b : Buf) (x y z : PyArg) (n : Nat) (isize : Int)
    (hs : isize ≥ 0) (pos : Nat) :
    setslice m b x y z (.carray n isize (.at pos)) = setslice m b x y z (.view pos (n * isize.toNat)) := by
  obtain ⟨k, rfl⟩ := Int.eq_ofNat_of_zero_le hs
  unfold setslice
  simp only [clampLRAss_eq]
  gen_normB
  cases sliceBounds b.size x y z with
  | error e => rfl
  | ok p =>
    obtain ⟨s, e⟩ := p
    have hc : carrayLen n (k : Int) = ((n * k : Nat) : Int) := by
      rw [carrayLen_eq, if_pos (by omega), Int.natCast_mul]
    simp only [hc, Int.toNat_natCast]
    by_cases h : (clampLR b.size s e).2 - (clampLR b.size s e).1 = ((n * k : Nat) : Int)
    · have h3 : ((clampLR b.size s e).2 - (clampLR b.size s e).1).toNat = n * k := by omega
      simp only [h, ne_eq, not_true_eq_false, if_false, Int.toNat_natCast]
    · simp only [ne_eq, h, not_false_eq_true, if_true]

/-- A pointer cdata on the right never assigns anything … -/
theorem setslice_cdata_pointer_rejected (m : Bytes) (b : Buf) (x y z : PyArg) :
    ∃ e, setslice m b x y z .cptr = (m, .error e) := by
  unfold setslice
  simp only [clampLRAss_eq]
  gen_normB
  cases sliceBounds b.size x y z with
  | error e => exact ⟨e, rfl⟩
  | ok p =>
    obtain ⟨s, e⟩ := p
    simp only []
    split <;> exact ⟨_, rfl⟩

/-- … on a valid slice it is a ValueError (its length is reported as -1). -/
theorem setslice_cdata_pointer_is_ValueError (m : Bytes) (b : Buf) (hs : (b.size : Int) ≤ ssizeMax)
    (i j : Option Int) (step : PyArg) (hstep : step = .none ∨ step = .int 1) :
    setslice m b (argOfOpt i) (argOfOpt j) step .cptr = (m, .error .ValueError) := by
  unfold setslice
  simp only [clampLRAss_eq]
  gen_normB
  rw [sliceBounds_eq b.size hs i j step hstep]
  have hA := pyBound_le b.size 0 (Nat.zero_le _) i
  have hB := pyBound_le b.size b.size (Nat.le_refl _) j
  simp only [clampLR_nat b.size _ _ hA hB]
  have c : (((pyBound b.size b.size j : Nat) : Int) -
      ((min (pyBound b.size 0 i) (pyBound b.size b.size j) : Nat) : Int) ≠ -1) := by omega
  rw [if_pos c]

/-- `buf[i] = b'x'` equals the bytearray item assignment. -/

theorem setitem_eq_bytearray (m : Bytes) (b : Buf) (hin : b.data + b.size ≤ m.length)
    (hs : (b.size : Int) ≤ ssizeMax) (i : Int) (x : UInt8) :
    setitem m b (.int i) (.byte x) =
      match pySetItem (region m b) i x with
      | some r => (splice m b r, .ok ())
      | none => (m, .error .IndexError) := by
  unfold setitem
  rw [normIndexAss_eq, normIndex_spec b.size hs i]
  unfold pySetItem
  rw [region_length m b hin]
  simp only
  by_cases h1 : 0 ≤ i ∧ i < b.size
  · have g : ¬ i < 0 := by omega
    have g2 : ¬ (i ≥ b.size) := by omega
    simp only [h1, and_self, if_true, g, g2, if_false, false_or]
    rw [setitem_core m b hin i.toNat (by omega) x]
  · by_cases h2 : -(b.size : Int) ≤ i ∧ i < 0
    · have g : i < 0 := by omega
      have g2 : ¬ (i + b.size < 0 ∨ i + b.size ≥ b.size) := by omega
      simp only [h1, h2, and_self, if_true, if_false, g2]
      rw [setitem_core m b hin (i + b.size).toNat (by omega) x]
    · simp only [h1, h2, if_false]
      by_cases g : i < 0
      · have g2 : (i + b.size < 0 ∨ i + b.size ≥ b.size) := by omega
        simp only [g, g2, if_true]
      · have g2 : (i ≥ b.size) := by omega
        simp only [g, g2, if_true, if_false, false_or]

/-- A value that is not a bytes of length 1 changes nothing (IndexError / TypeError). -/

theorem setitem_wrong_value_touches_nothing (m : Bytes) (b : Buf) (key : PyArg) :
    (setitem m b key .other).1 = m := by
  unfold setitem
  cases normIndexAss b.size key <;> rfl

/-! ### `ffi.buffer(cd, size)` -/

/-- An explicit non-negative size (`explicit_size` in the C code) is the size of the buffer;
a negative one means "absent". -/
theorem buffer_size (g : Int) (hf : fitsSsize g) (d : Option Nat) :
    bufferSize (some g) d = if G.bufExplicitSize g then .ok g.toNat else bufferSize none d := by
  unfold bufferSize bufferFinish
  gen_normB
  rw [if_neg (fun h => h hf)]
  by_cases h : g ≥ 0
  · have h1 : ¬ g < 0 := by omega
    simp only [h, h1, if_true, if_false]
  · have h1 : g < 0 := by omega
    have h2 : (-1 : Int) < 0 := by omega
    simp only [h, h1, h2, if_true, if_false]
    cases d with
    | none => simp only [h1, h2, if_true]
    | some k =>
      have h3 : ¬ ((k : Int) < 0) := by omega
      simp only [h3, if_false]

/-! ### `ffi.from_buffer` -/

/-- `from_buffer('T[]', obj)` has `len(obj) // sizeof(T)` items: the largest count of whole
items that fits. -/

theorem from_buffer_len (isize : Int) (hs : isize > 0) (pos len : Nat) (ro rw : Bool)
    (hw : ¬ (rw = true ∧ ro = true)) :
    ∃ k : Nat, fromBuffer (.arrayOpen isize) (.buf pos len ro true) rw = .ok k ∧
      k = len / isize.toNat ∧ (k : Int) * isize ≤ len ∧ (len : Int) < (k + 1) * isize := by
  obtain ⟨s, hs'⟩ := Int.eq_ofNat_of_zero_le (Int.le_of_lt hs)
  subst hs'
  have hpos : 0 < s := by omega
  have c := fromBuffer_accepts rw ro hw
  refine ⟨len / s, ?_, by simp, ?_, ?_⟩
  · unfold fromBuffer
    simp only []
    rw [if_neg c, fromBufferArray_eq, if_neg (by omega : ¬ ((-1 : Int) ≥ 0))]
    by_cases h1 : (s : Int) = 1
    · have : s = 1 := by omega
      subst this
      rw [if_pos h1, Nat.div_one]
    · rw [if_neg h1, if_pos hs, Int.toNat_natCast]
  · have := Nat.div_mul_le_self len s
    rw [← Int.natCast_mul]; omega
  · have := Nat.lt_div_mul_add (a := len) hpos
    have e : ((len / s : Nat) : Int) * (s : Int) = ((len / s * s : Nat) : Int) := by rw [Int.natCast_mul]
    rw [Int.add_mul, e, Int.one_mul]; omega

/-- A fixed-size `T[n]` raises ValueError exactly when `obj` is smaller than `n * sizeof(T)`;
otherwise it has `n` items. -/

theorem from_buffer_fixed_too_small (isize : Int) (n : Nat) (pos len : Nat) (ro rw : Bool)
    (hw : ¬ (rw = true ∧ ro = true)) :
    (fromBuffer (.arrayFixed isize n) (.buf pos len ro true) rw = .error .ValueError ↔ (len : Int) < isize * n) ∧
    (¬ ((len : Int) < isize * n) → fromBuffer (.arrayFixed isize n) (.buf pos len ro true) rw = .ok n) := by
  have c := fromBuffer_accepts rw ro hw
  unfold fromBuffer
  simp only []
  rw [if_neg c, fromBufferArray_eq, if_pos (by omega : ((n : Nat) : Int) ≥ 0), Int.toNat_natCast]
  by_cases h : (len : Int) < isize * n
  · rw [if_pos h]
    exact ⟨⟨fun _ => h, fun _ => rfl⟩, fun h' => absurd h h'⟩
  · rw [if_neg h]
    refine ⟨⟨fun e => ?_, fun h' => absurd h' h⟩, fun _ => rfl⟩
    cases e

/-- A read-only object with `require_writable`, or a non-contiguous one, is refused. -/
theorem from_buffer_requires_writable (ct : CT) (hct : ct ≠ .other) (pos len : Nat) (contig : Bool) :
    fromBuffer ct (.buf pos len true contig) true = .error .BufferError := by
  unfold fromBuffer
  cases ct with
  | other => exact absurd rfl hct
  | ptr => simp
  | arrayOpen z => simp
  | arrayFixed z n => simp

/-! ### `ffi.memmove` -/

/-- libc `memmove` (ascending byte loop when `dst ≤ src`, descending otherwise) is a copy
through a temporary buffer, for every overlap of source and destination. -/
theorem memmove_is_copy_via_temp (m : Bytes) (dst src n : Nat)
    (hd : dst + n ≤ m.length) (hs : src + n ≤ m.length) :
    memmove m dst src n = copyViaTemp m dst src n :=
  memmove_eq_copyViaTemp m dst src n hd hs

/-- `ffi.memmove(dest, src, n)` on two cdata operands: a copy through a temporary. -/

theorem memmoveOp_is_copy_via_temp (m : Bytes) (dp sp : Nat) (k : Int) (hk : 0 ≤ k) (hf : fitsSsize k)
    (hd : dp + k.toNat ≤ m.length) (hsrc : sp + k.toNat ≤ m.length) :
    ∃ m', copyViaTemp m dp sp k.toNat = some m' ∧
      memmoveOp m (.cdata dp true) (.cdata sp true) (.int k) = (m', .ok ()) := by
  have e := memmove_eq_copyViaTemp m dp sp k.toNat hd hsrc
  have : ∃ m', copyViaTemp m dp sp k.toNat = some m' := by
    unfold copyViaTemp Mem.read
    rw [if_pos hsrc]
    simp only []
    exact write_isSome (by simp; omega)
  obtain ⟨m', hm'⟩ := this
  refine ⟨m', hm', ?_⟩
  unfold memmoveOp
  gen_normB
  have c1 : ¬ ¬ fitsSsize k := fun h => h hf
  have c2 : ¬ k < 0 := by omega
  rw [if_neg c1, if_neg c2]
  simp only [fetch, if_true]
  rw [e, hm']

/-- `n < 0` is a ValueError before anything is looked at; nothing moves. -/
theorem memmoveOp_negative (m : Bytes) (d s : Obj) (k : Int) (hk : k < 0) (hf : fitsSsize k) :
    memmoveOp m d s (.int k) = (m, .error .ValueError) := by
  unfold memmoveOp
  gen_normB
  have c1 : ¬ ¬ fitsSsize k := fun h => h hf
  rw [if_neg c1, if_pos hk]

/-- Why `memmove` and not the naive ascending loop: they differ on an overlap. -/
theorem naive_copy_differs_on_overlap :
    memcpyFwd [1, 2, 3, 4] 1 0 3 = some [1, 1, 1, 1] ∧ copyViaTemp [1, 2, 3, 4] 1 0 3 = some [1, 1, 2, 3] := by
  decide

/-! ### non-vacuity: a 10-byte buffer at offset 2 of a 14-byte memory -/

def exMem : Bytes := [200, 201, 48, 49, 50, 51, 52, 53, 54, 55, 56, 57, 202, 203]
def exBuf : Buf := { data := 2, size := 10 }

example : exBuf.data + exBuf.size ≤ exMem.length := by decide
example : ((exBuf.size : Nat) : Int) ≤ ssizeMax := by decide
example : region exMem exBuf = [48, 49, 50, 51, 52, 53, 54, 55, 56, 57] := by decide
example : getslice exMem exBuf (.int (-3)) .none .none = .ok [55, 56, 57] := by decide
example : getslice exMem exBuf (.int (-100000000000000000000)) (.int 100000000000000000000) (.int 1)
    = .ok [48, 49, 50, 51, 52, 53, 54, 55, 56, 57] := by decide
example : pySliceLen exBuf.size (some (-3)) none = 3 := by decide
example : setslice exMem exBuf (.int (-3)) .none .none (.bytes [1, 2, 3]) =
    ([200, 201, 48, 49, 50, 51, 52, 53, 54, 1, 2, 3, 202, 203], .ok ()) := by decide
example : setslice exMem exBuf (.int (-3)) .none .none (.bytes [1, 2]) = (exMem, .error .ValueError) := by decide
example : setslice exMem exBuf (.int 0) (.int 4) .none (.carray 2 2 (.ext [1, 2, 3, 4])) =
    ([200, 201, 1, 2, 3, 4, 52, 53, 54, 55, 56, 57, 202, 203], .ok ()) := by decide
example : setslice exMem exBuf (.int 0) (.int 4) .none (.carray 3 2 (.ext [1, 2, 3, 4, 5, 6])) =
    (exMem, .error .ValueError) := by decide
example : setslice exMem exBuf (.int 0) (.int 4) .none .cptr = (exMem, .error .ValueError) := by decide
example : getitem exMem exBuf (.int (-10)) = .ok [48] := by decide
example : getitem exMem exBuf (.int (-11)) = .error .IndexError := by decide
example : fromBuffer (.arrayOpen 4) (.buf 0 13 false true) false = .ok 3 := by decide
example : fromBuffer (.arrayFixed 4 4) (.buf 0 13 false true) false = .error .ValueError := by decide
example : memmoveOp exMem (.cdata 4 true) (.cdata 2 true) (.int 5) =
    ([200, 201, 48, 49, 48, 49, 50, 51, 52, 55, 56, 57, 202, 203], .ok ()) := by decide

end CffiVerif.C19
