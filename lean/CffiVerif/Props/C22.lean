import CffiVerif.Proofs.Errno

/-!
C22 — errno is passed to and from C calls and is thread-local (partial).

Statements on the model `CffiVerif.Errno` (per thread the C `errno` and cffi's
`saved` cell; `ffi.errno` get/set, calls wrapped in restore…save, callbacks
wrapped in save…restore), for any number of threads, any interleaving and any
interference of the interpreter with the C errno while Python code runs.

Partial: that `errno` and `cffi_saved_errno` *are* per-thread cells is glibc's
and gcc's `__thread`; it is a parameter of the model, validated by the
correspondence run only.
-/
namespace CffiVerif.C22
open CffiVerif.Errno

/-! ### the property -/

/-- **A value assigned to `ffi.errno` is the errno a subsequently called C
function sees** — whatever other threads do in between and whatever the
interpreter does to the C errno of this thread before the call. -/
theorem set_then_call_sees (σ : State) (t : Tid) (v : Int)
    (hv : INT_MIN ≤ v ∧ v ≤ INT_MAX) (mid : List (Tid × Ev)) (hq : Quiet t mid) :
    (run σ ((t, .pySet v) :: mid ++ [(t, .callEnter), (t, .cRead)])).2.getLast?
      = some (t, .val v) := by
  have hno : ¬ (v < INT_MIN ∨ v > INT_MAX) := by omega
  have e : (t, Ev.pySet v) :: mid ++ [(t, Ev.callEnter), (t, Ev.cRead)]
      = ((t, Ev.pySet v) :: mid) ++ [(t, Ev.callEnter), (t, Ev.cRead)] := by simp
  rw [e, getLast_run2]
  have hs : ((run σ ((t, Ev.pySet v) :: mid)).1 t).saved = v := by
    simp only [run]
    rw [run_quiet _ t mid hq]
    simp [step, stepT, hno, upd_same]
  simp [step, stepT, upd_same, hs]

/-- An out-of-range assignment raises OverflowError and assigns nothing. -/
theorem set_out_of_range (s : TState) (v : Int) (hv : v < INT_MIN ∨ v > INT_MAX) :
    stepT s (.pySet v) = (s, .overflow) := by
  simp [stepT, hv]

/-- **The errno left by a C function is what `ffi.errno` returns afterwards**
(other threads may run while the C code runs and afterwards; the interpreter
may clobber the C errno after the call returned). -/
theorem call_then_get_returns (σ : State) (t : Tid) (v : Int)
    (mid1 mid2 : List (Tid × Ev)) (h1 : Others t mid1) (h2 : Quiet t mid2) :
    (run σ ((t, .cWrite v) :: mid1 ++ (t, .callExit) :: mid2 ++ [(t, .pyGet)])).2.getLast?
      = some (t, .val v) := by
  have e : (t, Ev.cWrite v) :: mid1 ++ (t, Ev.callExit) :: mid2 ++ [(t, Ev.pyGet)]
      = (((t, Ev.cWrite v) :: mid1) ++ ((t, Ev.callExit) :: mid2)) ++ [(t, Ev.pyGet)] := by simp
  rw [e, getLast_run1, run_append]
  have hA : ((run σ ((t, Ev.cWrite v) :: mid1)).1 t).errno = v := by
    simp only [run]
    rw [run_others _ t mid1 h1]
    simp [step, stepT, upd_same]
  generalize (run σ ((t, Ev.cWrite v) :: mid1)).1 = σ1 at hA
  have hB : ((run σ1 ((t, Ev.callExit) :: mid2)).1 t).saved = v := by
    simp only [run]
    rw [run_quiet _ t mid2 h2]
    simp [step, stepT, upd_same, hA]
  simp only [step, stepT, hB]

/-- `ffi.errno` can be read again: reading does not consume the value. -/
theorem get_twice (s : TState) :
    (stepT (stepT s .pyGet).1 .pyGet).2 = (stepT s .pyGet).2 := by
  simp [stepT]

/-- **An assignment to `ffi.errno` inside a callback is the errno the C caller
sees when the callback returns** (and the C errno on entry of the callback is
what `ffi.errno` reads inside it: `callback_sees_c_errno`). -/
theorem callback_assignment_visible (σ : State) (t : Tid) (v : Int)
    (hv : INT_MIN ≤ v ∧ v ≤ INT_MAX) (mid1 mid2 : List (Tid × Ev)) (h2 : Quiet t mid2) :
    (run σ ((t, .cbEnter) :: mid1 ++ (t, .pySet v) :: mid2 ++ [(t, .cbExit), (t, .cRead)])).2.getLast?
      = some (t, .val v) := by
  have hno : ¬ (v < INT_MIN ∨ v > INT_MAX) := by omega
  have e : (t, Ev.cbEnter) :: mid1 ++ (t, Ev.pySet v) :: mid2 ++ [(t, Ev.cbExit), (t, Ev.cRead)]
      = (((t, Ev.cbEnter) :: mid1) ++ ((t, Ev.pySet v) :: mid2)) ++ [(t, Ev.cbExit), (t, Ev.cRead)] := by
    simp
  rw [e, getLast_run2, run_append]
  generalize (run σ ((t, Ev.cbEnter) :: mid1)).1 = σ1
  have hs : ((run σ1 ((t, Ev.pySet v) :: mid2)).1 t).saved = v := by
    simp only [run]
    rw [run_quiet _ t mid2 h2]
    simp [step, stepT, hno, upd_same]
  simp [step, stepT, upd_same, hs]

/-- The errno the C code had when it called back is what `ffi.errno` reads
inside the callback. -/
theorem callback_sees_c_errno (σ : State) (t : Tid) (v : Int)
    (mid : List (Tid × Ev)) (hq : Quiet t mid) :
    (run σ ((t, .cWrite v) :: (t, .cbEnter) :: mid ++ [(t, .pyGet)])).2.getLast?
      = some (t, .val v) := by
  have e : (t, Ev.cWrite v) :: (t, Ev.cbEnter) :: mid ++ [(t, Ev.pyGet)]
      = ((t, Ev.cWrite v) :: (t, Ev.cbEnter) :: mid) ++ [(t, Ev.pyGet)] := by simp
  rw [e, getLast_run1]
  have hs : ((run σ ((t, Ev.cWrite v) :: (t, Ev.cbEnter) :: mid)).1 t).saved = v := by
    simp only [run]
    rw [run_quiet _ t mid hq]
    simp [step, stepT, upd_same]
  simp only [step, stepT, hs]

/-- Steps of different threads commute (states and observations). -/
theorem steps_commute (σ : State) (t u : Tid) (e f : Ev) (h : t ≠ u) :
    (step (step σ (t, e)).1 (u, f)).1 = (step (step σ (u, f)).1 (t, e)).1
    ∧ (step (step σ (t, e)).1 (u, f)).2 = (step σ (u, f)).2
    ∧ (step (step σ (u, f)).1 (t, e)).2 = (step σ (t, e)).2 := by
  refine ⟨?_, ?_, ?_⟩
  · funext w
    simp only [step, upd]
    by_cases hwt : w = t <;> by_cases hwu : w = u
    · exact absurd (hwt.symm.trans hwu) h
    · simp [hwt, h]
    · simp [hwu, Ne.symm h]
    · simp [hwt, hwu]
  · simp [step, upd, Ne.symm h]
  · simp [step, upd, h]

/-- **Noninterference**: in any interleaving of any number of threads, what a
thread observes (and the final content of its cells) is a function of its own
events alone. -/
theorem noninterference (σ : State) (tr : List (Tid × Ev)) (t : Tid) :
    proj t (run σ tr).2 = (runT (σ t) (proj t tr)).2
    ∧ (run σ tr).1 t = (runT (σ t) (proj t tr)).1 := by
  induction tr generalizing σ with
  | nil => simp [run, runT, proj]
  | cons e es ih =>
    have ih' := ih (step σ e).1
    by_cases he : e.1 = t
    · have hst : (step σ e).1 t = (stepT (σ t) e.2).1 := by
        simp only [step]; rw [← he]; exact upd_same _ _ _
      have hout : (step σ e).2 = (stepT (σ t) e.2).2 := by simp only [step]; rw [← he]
      simp only [proj, run, List.filterMap_cons, he, if_true, runT] at ih' ⊢
      rw [hst] at ih'
      exact ⟨by rw [ih'.1, hout], ih'.2⟩
    · have hst : (step σ e).1 t = σ t := by
        simp only [step]; exact upd_other _ _ _ _ (fun h => he h.symm)
      simp only [proj, run, List.filterMap_cons, he, if_false] at ih' ⊢
      rw [hst] at ih'
      exact ih'

/-- For one thread: on a well-moded event list the two cells behave as **one
variable** that `ffi.errno` and the C code both read and write; clobbering of
the C errno by the interpreter while Python code runs is invisible. -/
theorem one_variable (d : Nat) (s : TState) (evs : List Ev) (hwf : wfT d evs = true) :
    (runT s evs).2 = (specT (liveOf d s) evs).2 := by
  induction evs generalizing d s with
  | nil => rfl
  | cons e es ih =>
    cases e with
    | pySet v =>
      simp only [wfT, Bool.and_eq_true, beq_iff_eq] at hwf
      have hd := hwf.1
      by_cases hr : v < INT_MIN ∨ v > INT_MAX
      · simp only [runT, stepT, specT, hr, if_true]
        rw [ih d s hwf.2]
      · simp only [runT, stepT, specT, hr, if_false]
        rw [ih d _ hwf.2]; simp [liveOf, hd]
    | pyGet =>
      simp only [wfT, Bool.and_eq_true, beq_iff_eq] at hwf
      have hd := hwf.1
      simp only [runT, stepT, specT]
      rw [ih d _ hwf.2]; simp [liveOf, hd]
    | clobber v =>
      simp only [wfT, Bool.and_eq_true, beq_iff_eq] at hwf
      have hd := hwf.1
      simp only [runT, stepT, specT]
      rw [ih d _ hwf.2]; simp [liveOf, hd]
    | callEnter =>
      simp only [wfT, Bool.and_eq_true, beq_iff_eq] at hwf
      have hd := hwf.1
      have hd' : (d + 1) % 2 = 1 := by omega
      simp only [runT, stepT, specT]
      rw [ih (d + 1) _ hwf.2]; simp [liveOf, hd, hd']
    | callExit =>
      simp only [wfT, Bool.and_eq_true, beq_iff_eq] at hwf
      have hd := hwf.1
      have hd' : (d - 1) % 2 = 0 := by omega
      simp only [runT, stepT, specT]
      rw [ih (d - 1) _ hwf.2]; simp [liveOf, hd, hd']
    | cRead =>
      simp only [wfT, Bool.and_eq_true, beq_iff_eq] at hwf
      have hd := hwf.1
      simp only [runT, stepT, specT]
      rw [ih d _ hwf.2]; simp [liveOf, hd]
    | cWrite v =>
      simp only [wfT, Bool.and_eq_true, beq_iff_eq] at hwf
      have hd := hwf.1
      simp only [runT, stepT, specT]
      rw [ih d _ hwf.2]; simp [liveOf, hd]
    | cbEnter =>
      simp only [wfT, Bool.and_eq_true, beq_iff_eq] at hwf
      have hd := hwf.1
      have hd' : (d + 1) % 2 = 0 := by omega
      simp only [runT, stepT, specT]
      rw [ih (d + 1) _ hwf.2]; simp [liveOf, hd, hd']
    | cbExit =>
      simp only [wfT, Bool.and_eq_true, beq_iff_eq, decide_eq_true_eq] at hwf
      have hd := hwf.1.1
      have hd' : (d - 1) % 2 = 1 := by omega
      simp only [runT, stepT, specT]
      rw [ih (d - 1) _ hwf.2]; simp [liveOf, hd, hd']

/-- **The property for any number of threads and any interleaving**: if every
thread's own events are well-moded (starting at top level), each thread
observes exactly what a private single variable would give it — independent of
every other thread's events and of their order. -/
theorem errno_is_one_thread_local_variable (σ : State) (tr : List (Tid × Ev)) (t : Tid)
    (hwf : wfT 0 (proj t tr) = true) :
    proj t (run σ tr).2 = (specT (σ t).saved (proj t tr)).2 := by
  rw [(noninterference σ tr t).1, one_variable 0 (σ t) _ hwf]
  simp [liveOf]

/-! ### tie to the current source (`Generated/ErrnoSteps.lean`, re-extracted on every run) -/

/-- **The step definitions of the model are what the code does**: running the
micro-steps extracted from `save_errno_only`, `restore_errno_only`, `b_get_errno` and
`b_set_errno` gives exactly `stepT` for the corresponding events; the wrappers around
the C call (`cdata_call`, the generated API wrapper through `_cffi_exports`) are
restore · C · save and those around the Python call (`invoke_callback`,
`cffi_call_python`) are save · PY · restore, which is how a call / a callback is
spelled as events (`callEnter … callExit`, `cbEnter … cbExit`); `b_set_errno` rejects
exactly `ival < INT_MIN || ival > INT_MAX`. -/
theorem steps_are_source :
    (∀ s e a, runSite Generated.ErrnoSteps.saveOnly ⟨s, e, a⟩ = some ⟨(stepT s .callExit).1, e, a⟩
      ∧ (stepT s .cbEnter).1 = (stepT s .callExit).1)
    ∧ (∀ s e a, runSite Generated.ErrnoSteps.restoreOnly ⟨s, e, a⟩ = some ⟨(stepT s .callEnter).1, e, a⟩
      ∧ (stepT s .cbExit).1 = (stepT s .callEnter).1)
    ∧ (∀ s e a, ∃ v, runSite Generated.ErrnoSteps.getErrno ⟨s, e, a⟩ = some ⟨(stepT s .pyGet).1, v, a⟩
      ∧ (stepT s .pyGet).2 = .val v)
    ∧ (∀ s e v, INT_MIN ≤ v ∧ v ≤ INT_MAX →
        runSite Generated.ErrnoSteps.setErrno ⟨s, e, v⟩ = some ⟨(stepT s (.pySet v)).1, e, v⟩)
    ∧ Generated.ErrnoSteps.setErrnoRange = "ival < INT_MIN || ival > INT_MAX"
    ∧ Generated.ErrnoSteps.cdataCall = ["restore", "C", "save"]
    ∧ Generated.ErrnoSteps.apiWrapper = ["restore", "C", "save"]
    ∧ (Generated.ErrnoSteps.apiRestore, Generated.ErrnoSteps.apiSave) = ("restore_errno", "save_errno")
    ∧ Generated.ErrnoSteps.invokeCallback = ["save", "PY", "restore"]
    ∧ Generated.ErrnoSteps.callPython = ["save", "PY", "restore"]
    ∧ (Generated.ErrnoSteps.saveMacro, Generated.ErrnoSteps.restoreMacro) = ("save_errno_only", "restore_errno_only")
    ∧ Generated.ErrnoSteps.saveOnlyFallback
        = ["int saved = errno", "struct cffi_tls_s *tls = get_cffi_tls()", "if (tls != NULL) tls->saved_errno = saved"]
    ∧ Generated.ErrnoSteps.restoreOnlyFallback
        = ["struct cffi_tls_s *tls = get_cffi_tls()", "if (tls != NULL) errno = tls->saved_errno"] := by
  refine ⟨?_, ?_, ?_, ?_, by decide, by decide, by decide, by decide, by decide, by decide, by decide, by decide, by decide⟩
  · intro s e a; exact ⟨rfl, rfl⟩
  · intro s e a; exact ⟨rfl, rfl⟩
  · intro s e a; exact ⟨s.saved, rfl, rfl⟩
  · intro s e v hv
    have hno : ¬ (v < INT_MIN ∨ v > INT_MAX) := by omega
    simp only [stepT, hno, if_false]
    rfl

/-! ### non-vacuity -/

/-- Two threads interleaved: thread 0 sets 5, calls a function that reads errno,
calls back into Python (which reads and assigns 9) and reads again; thread 1
sets 7 in the middle and reads it back; the interpreter clobbers thread 0's C errno. -/
def exTrace : List (Tid × Ev) :=
  [(0, .pySet 5), (1, .pySet 7), (0, .clobber 99), (0, .callEnter), (0, .cRead), (1, .pyGet),
   (0, .cWrite 3), (0, .cbEnter), (0, .pyGet), (1, .callEnter), (0, .pySet 9), (1, .cRead),
   (0, .cbExit), (0, .cRead), (1, .callExit), (0, .callExit), (0, .pyGet), (1, .pyGet)]

example : wfT 0 (proj 0 exTrace) = true := by decide
example : wfT 0 (proj 1 exTrace) = true := by decide
example : proj 0 (run State.init exTrace).2 =
    [.none, .none, .none, .val 5, .none, .none, .val 3, .none, .none, .val 9, .none, .val 9] := by decide
example : proj 1 (run State.init exTrace).2 = [.none, .val 7, .none, .val 7, .none, .val 7] := by decide
example : Quiet 0 [(1, .pySet 7), (0, .clobber 99)] := by
  intro x hx; simp at hx; rcases hx with rfl | rfl <;> simp
example : INT_MIN ≤ (5 : Int) ∧ (5 : Int) ≤ INT_MAX := by decide
example : stepT ⟨1, 2⟩ (.pySet 2147483648) = (⟨1, 2⟩, .overflow) := by decide

end CffiVerif.C22
