import CffiVerif.Proofs.Unpack
import CffiVerif.Proofs.Utf16

/-!
C18 — `ffi.unpack(p, n)` equals `[p[i] for i in range(n)]`.

On the model of `b_unpack` / `convert_to_object` (`Model/Unpack.lean`), whose fast-path
selection and readers are interpreted over `Generated/UnpackTable.lean` (re-extracted from
`src/c/_cffi_backend.c` on every run):

* `table_shape`: the generated table is the complete one (12 readers, labels 0..11 once each);
* `fast_eq_generic`: every fast reader the selection can choose returns what the generic
  conversion returns, for every byte content, alignment and offset, errors included;
* `unpack_eq_map_index`: for every non-character item type of known size, `unpack` is the
  element-wise read (first failing element decides the exception, as in the list comprehension);
* character items: `unpack` of `char` is the join of the one-byte reads; of `char16_t` it spells
  the same UTF-16 units as the join of the one-unit reads (the interpretation fixed in DESIGN.md);
  of `char32_t`/`wchar_t` it is the join **provided** every unit is a code point
  (`unpack_char32_eq_join_partial`; the full statement is false — known finding
  "C18/char32-out-of-range", negation proved at the witness units `[0x110000, 0]`);
* `unpack_unsized_raises`: items of unknown size are refused with ValueError for every `n`.
-/
namespace CffiVerif.C18
open CffiVerif.Utf16 CffiVerif.UnpackTypes CffiVerif.Generated.UnpackTable CffiVerif.Unpack

/-- The generated table has the expected shape: exactly the twelve readers 0..11, each label
once, and every case number the selection can produce has a reader. -/
theorem table_shape :
    readers.length = 12 ∧ readers.map (·.1) = List.range 12 ∧
    (∀ c ∈ (selSigned ++ selUnsigned ++ selFloat).map (·.2) ++ [selBool, selPointer],
      (lookupReader readers c).isSome = true) := by
  decide

/-- What a real item type guarantees beyond the table: `sizeof(_Bool) = 1`, and
`sizeof(long double) = 16` (x86-64; on a platform where `long double` is 8 bytes wide the
selection would take the `double` fast path and return floats instead of `long double` cdata). -/
def WellFormed (it : Item) : Prop :=
  (it.kind = .bool → it.size = 1) ∧ (it.kind = .longdouble → it.size = 16)


/-- **Every fast reader agrees with the generic conversion**, for every item type the
selection can pick it for, every start address, every memory content and every offset —
including the error outcomes (a `_Bool` byte outside {0,1}: ValueError from both; a read
outside the memory: both).  Stated over the *generated* selection and reader tables, so a
change of `b_unpack` in the source makes the kernel re-check it. -/
theorem fast_eq_generic (it : Item) (addr : Nat) (mem : List UInt8) (off c : Nat) (conv : Conv) (ty : CTy)
    (hwf : WellFormed it) (hc : casenum it addr = some c) (hr : lookupReader readers c = some (conv, ty)) :
    fastRead conv ty it mem off = convertToObject it mem off := by
  obtain ⟨kind, size, align⟩ := it
  unfold casenum at hc
  simp only at hc
  split at hc
  · -- primitive and aligned
    cases kind <;> simp only [reduceCtorEq] at hc
    · -- signed
      simp only [selSigned, pick, CTy.size] at hc
      rcases pick4_cases hc with ⟨rfl, rfl⟩ | ⟨rfl, rfl⟩ | ⟨rfl, rfl⟩ | ⟨rfl, rfl⟩ <;>
        (simp [readers, lookupReader] at hr
         obtain ⟨rfl, rfl⟩ := hr
         exact fromLong_signed _ _ mem off rfl rfl rfl)
    · -- unsigned
      simp only [selUnsigned, pick, CTy.size] at hc
      rcases pick4_cases hc with ⟨rfl, rfl⟩ | ⟨rfl, rfl⟩ | ⟨rfl, rfl⟩ | ⟨rfl, rfl⟩ <;>
        (simp [readers, lookupReader] at hr
         obtain ⟨rfl, rfl⟩ := hr
         first
           | exact fromLong_unsigned _ _ mem off rfl (by decide) rfl rfl
           | exact fromUnsignedLong_unsigned _ _ mem off rfl rfl rfl)
    · -- _Bool
      injection hc with hc; subst hc
      simp [selBool, readers, lookupReader] at hr
      obtain ⟨rfl, rfl⟩ := hr
      exact boolSwitch_bool _ mem off rfl (hwf.1 rfl)
    · -- float / double
      simp only [selFloat, pick, CTy.size] at hc
      rcases pick2_cases hc with ⟨rfl, rfl⟩ | ⟨rfl, rfl⟩ <;>
        (simp [readers, lookupReader] at hr
         obtain ⟨rfl, rfl⟩ := hr
         first
           | exact fromDouble_float _ mem off rfl rfl
           | exact fromDouble_double _ mem off rfl rfl)
    · -- long double: 16 bytes wide, no fast path
      have h16 : size = 16 := hwf.2 rfl
      subst h16
      have hnone : pick selFloat 16 = none := by decide
      rw [hnone] at hc
      cases hc
  · -- not (primitive and aligned): only pointers have a fast path
    split at hc
    · next hk =>
      subst hk
      injection hc with hc; subst hc
      simp [selPointer, readers, lookupReader] at hr
      obtain ⟨rfl, rfl⟩ := hr
      exact newSimpleCData_pointer _ mem off rfl
    · cases hc


/-- One iteration of the loop of `b_unpack` computes `p[i]`. -/
theorem unpackElem_eq_index (it : Item) (addr : Nat) (mem : List UInt8) (i : Nat) (hwf : WellFormed it) :
    unpackElem it mem (casenum it addr) i = indexRead it mem i := by
  unfold unpackElem indexRead
  cases hc : casenum it addr with
  | none => rfl
  | some c =>
    simp only [Option.bind]
    cases hr : lookupReader readers c with
    | none => rfl
    | some p =>
      obtain ⟨conv, ty⟩ := p
      exact fast_eq_generic it addr mem _ c conv ty hwf hc hr

/-- **`ffi.unpack(p, n) == [p[i] for i in range(n)]`** for every item type that is not a
character type and has a known size, every memory content, every start address (aligned or
not) and every `n`; if some element cannot be converted, both sides fail with the error of
the first such element. -/
theorem unpack_eq_map_index (it : Item) (mem : List UInt8) (base n : Nat)
    (hwf : WellFormed it) (hk : it.kind ≠ .char) (hu : it.kind ≠ .unsized) :
    unpack it mem base n = exMap Result.list (mapExcept (indexRead it mem) (List.range n)) := by
  unfold unpack
  simp only [hk, false_and, if_false, hu]
  rw [mapExcept_congr _ (indexRead it mem) _ (fun i _ => unpackElem_eq_index it base mem i hwf)]
  cases mapExcept (indexRead it mem) (List.range n) <;> rfl

example : WellFormed ⟨.bool, 1, 1⟩ := ⟨fun _ => rfl, fun h => by cases h⟩
example : unpack ⟨.bool, 1, 1⟩ [1, 0, 2] 0 2 = .ok (.list [.bool true, .bool false]) := by decide
example : unpack ⟨.bool, 1, 1⟩ [1, 0, 2] 0 3 = .error .valueError := by decide
example : unpack ⟨.signed, 2, 2⟩ [0xFE, 0xFF, 1, 0] 1 2 = .ok (.list [.int (-2), .int 1]) := by decide

/-- Items of unknown size (`void`, opaque structs, `T[]`): ValueError, whatever `n`. -/
theorem unpack_unsized_raises (it : Item) (mem : List UInt8) (base n : Nat) (hu : it.kind = .unsized) :
    unpack it mem base n = .error .valueError := by
  unfold unpack
  simp [hu]

/-! ### character items -/

/-- `char`: the bytes result is the join of the one-byte `bytes` objects `p[i]`. -/
theorem unpack_char8_eq_join (align : Nat) (mem : List UInt8) (base n : Nat) :
    unpack ⟨.char, 1, align⟩ mem base n = exMap Result.bytes (readUnits mem 1 n) ∧
    mapExcept (indexRead ⟨.char, 1, align⟩ mem) (List.range n)
      = exMap (List.map fun u => PyObj.bytes [u]) (readUnits mem 1 n) := by
  constructor
  · unfold unpack; simp only [and_self, if_true]
    cases readUnits mem 1 n <;> rfl
  · unfold readUnits
    rw [← mapExcept_fuse]
    apply mapExcept_congr
    intro i _
    simp only [indexRead, convertToObject, readUnit, if_true]
    cases hrb : readBytes mem (i * 1) 1 with
    | error e => simp only [exMap]
    | ok b => simp only [exMap, leNat_singleton b (readBytes_length hrb)]

theorem decode16_singleton (u : Nat) : decode16 [u] = [u] := by
  simp [decode16, countPairs]

/-- `char16_t`: `unpack` decodes the units as UTF-16, `p[i]` returns each unit as a one-code-point
str; both spell exactly the units in memory (compared as UTF-16 unit sequences). -/
theorem unpack_char16_same_units (align : Nat) (mem : List UInt8) (base n : Nat) :
    unpack ⟨.char, 2, align⟩ mem base n = exMap (fun u => Result.str (decode16 u)) (readUnits mem 2 n) ∧
    mapExcept (indexRead ⟨.char, 2, align⟩ mem) (List.range n)
      = exMap (List.map fun u => PyObj.str [u]) (readUnits mem 2 n) ∧
    (∀ u, readUnits mem 2 n = .ok u → encode16 (decode16 u) = .ok u ∧ encode16 u = .ok u) := by
  refine ⟨?_, ?_, ?_⟩
  · unfold unpack; simp only [reduceCtorEq, Nat.reduceEqDiff, and_false, and_self, if_true, if_false]
    cases readUnits mem 2 n <;> rfl
  · unfold readUnits
    rw [← mapExcept_fuse]
    apply mapExcept_congr
    intro i _
    simp only [indexRead, convertToObject, Nat.reduceEqDiff, if_true, if_false]
    cases hrb : readBytes mem (i * 2) 2 with
    | error e => simp only [exMap, readUnit, hrb]
    | ok b => simp only [exMap, readUnit, hrb, decode16_singleton]
  · intro u hu
    have hb : Units16 u := by
      intro x hx
      have := readUnits_bound mem 2 n u hu x hx
      simpa using this
    constructor
    · rw [decode16_eq_decodeLoop]; exact encode16_decodeLoop u hb
    · -- units below 0x10000 encode to themselves
      clear hu
      induction u with
      | nil => rfl
      | cons a tl ih =>
        have ha : a < 0x10000 := hb a (by simp)
        rw [encode16_cons_bmp a tl (by omega), ih (fun x hx => hb x (by simp [hx]))]

/-
Full statement (false, see `unpack_char32_fails_at_out_of_range_unit`):
    ∀ mem n, unpack ⟨.char, 4, a⟩ mem base n = join of (mapExcept indexRead (range n))
Known finding class "C18/char32-out-of-range": `PyUnicode_FromKindAndData(4BYTE_KIND, …)` does not
validate the units when there are two or more of them, `p[i]` (one unit) does.
-/
/-- `char32_t` / `wchar_t`: when every unit read is a code point, the str result is the join
of the one-code-point strs `p[i]`. -/
theorem unpack_char32_eq_join_partial (align : Nat) (mem : List UInt8) (base n : Nat) (u : List Nat)
    (hu : readUnits mem 4 n = .ok u) (hv : ∀ x ∈ u, x ≤ 0x10FFFF) :
    unpack ⟨.char, 4, align⟩ mem base n = .ok (.str u) ∧
    mapExcept (indexRead ⟨.char, 4, align⟩ mem) (List.range n) = .ok (u.map fun x => PyObj.str [x]) := by
  constructor
  · unfold unpack
    simp only [reduceCtorEq, Nat.reduceEqDiff, and_false, and_self, if_true, if_false, hu]
    have : fromChar32 u = .ok u := by
      match u, hv with
      | [], _ => rfl
      | [c], hv =>
        have : ¬ c > 0x10FFFF := by have := hv c (by simp); omega
        simp [fromChar32, this]
      | _ :: _ :: _, _ => rfl
    simp only [this]
  · -- each element: readBytes, then fromChar32 of a single valid unit
    have hidx : ∀ i ∈ List.range n, indexRead ⟨.char, 4, align⟩ mem i
        = exMap (fun x => PyObj.str [x]) (readUnit mem 4 i) := by
      intro i hi
      simp only [indexRead, convertToObject, readUnit, Nat.reduceEqDiff, if_true, if_false]
      cases hrb : readBytes mem (i * 4) 4 with
      | error e => rfl
      | ok b =>
        -- this unit is one of `u`
        have hmem : leNat b ∈ u :=
          mapExcept_mem _ _ _ hu i hi _ (by simp [readUnit, hrb])
        have : ¬ leNat b > 0x10FFFF := by have := hv _ hmem; omega
        simp [fromChar32, this, exMap]
    rw [mapExcept_congr _ _ _ hidx, mapExcept_fuse]
    unfold readUnits at hu
    rw [hu]; rfl

/-- A single out-of-range unit is refused the same way by both (SystemError from CPython). -/
theorem unpack_char32_single_out_of_range (align : Nat) (mem : List UInt8) (base : Nat) (x : Nat)
    (hu : readUnits mem 4 1 = .ok [x]) (hx : x > 0x10FFFF) :
    unpack ⟨.char, 4, align⟩ mem base 1 = .error .systemError ∧
    mapExcept (indexRead ⟨.char, 4, align⟩ mem) (List.range 1) = .error .systemError := by
  have hrb : ∃ b, readBytes mem 0 4 = .ok b ∧ leNat b = x := by
    simp only [readUnits, List.range_one, mapExcept, readUnit, Nat.zero_mul] at hu
    cases hb : readBytes mem 0 4 with
    | error e => simp [hb] at hu
    | ok b => simp only [hb] at hu; injection hu with hu; injection hu with hu; exact ⟨b, rfl, hu⟩
  obtain ⟨b, hb, hbx⟩ := hrb
  constructor
  · unfold unpack
    simp [hu, fromChar32, hx]
  · simp [List.range_one, mapExcept, indexRead, convertToObject, hb, hbx, fromChar32, hx]

/-- The negation of the unrestricted statement, at the witness units `[0x110000, 0]`, `n = 2`:
`unpack` returns a (malformed) str, the element-wise read raises. -/
theorem unpack_char32_fails_at_out_of_range_unit :
    ¬ (∀ (mem : List UInt8) (n : Nat) (u : List Nat), readUnits mem 4 n = .ok u →
        unpack ⟨.char, 4, 4⟩ mem 0 n = .ok (.str u) ∧
        mapExcept (indexRead ⟨.char, 4, 4⟩ mem) (List.range n) = .ok (u.map fun x => PyObj.str [x])) := by
  intro h
  have := (h [0, 0, 0x11, 0, 0, 0, 0, 0] 2 [0x110000, 0] (by decide)).2
  exact absurd this (by decide)

example : readUnits [0x3D, 0xD8, 0x00, 0xDE] 2 2 = .ok [0xD83D, 0xDE00] := by decide
example : unpack ⟨.char, 2, 2⟩ [0x3D, 0xD8, 0x00, 0xDE] 0 2 = .ok (.str [0x1F600]) := by decide
example : unpack ⟨.char, 4, 4⟩ [0, 0, 0x11, 0, 0, 0, 0, 0] 0 2 = .ok (.str [0x110000, 0]) := by decide

end CffiVerif.C18
