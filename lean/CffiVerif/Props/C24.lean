import CffiVerif.Proofs.GenSrcIO

/-!
C24 — `cffi-gen-src` output is byte-identical to `FFI.emit_c_code`.

On the model of the text-I/O layers (`Model/GenSrcIO.lean`), for *every*
generator function (the code generator is the same Python function on both
sides and stays a parameter): the bytes the command line writes equal the bytes
`emit_c_code(path)` writes, provided the input files are valid UTF-8 and the
texts contain no carriage return.  The second hypothesis is necessary
(`cr_in_prelude_changes_output`, known finding C24/carriage-return-in-input):
the command line reads its inputs in text mode with universal newlines.
-/
namespace CffiVerif.C24
open CffiVerif.GenSrcIO

/-- **UTF-8 round trip**: every string without surrogates is encoded, and the
strict decoder gives it back (so a text written to a file as UTF-8 is the text
the command line reads, before newline translation). -/
theorem utf8_roundtrip (s : Str) (h : ∀ c ∈ s, isScalar c = true) :
    ∃ bs, utf8Encode s = some bs ∧ utf8Decode bs = some s := by
  obtain ⟨bs, hbs⟩ := utf8Encode_isSome s h
  exact ⟨bs, hbs, utf8DecodeAux_encode s bs hbs bs.length (utf8Encode_length s bs hbs)⟩

example : ∀ c ∈ [0x41, 0xe9, 0x20ac, 0x1d11e], isScalar c = true := by decide
example : utf8Encode [0x41, 0xe9, 0x20ac, 0x1d11e]
    = some [65, 195, 169, 226, 130, 172, 240, 157, 132, 158] := by decide
-- a lone surrogate is refused by the encoder, its would-be encoding by the decoder
example : utf8Encode [0xD800] = none ∧ utf8Decode [0xED, 0xA0, 0x80] = none := by decide

/-- the encoder is injective (different texts, different files) -/
theorem utf8Encode_injective (s t : Str) (bs : Bytes)
    (hs : utf8Encode s = some bs) (ht : utf8Encode t = some bs) : s = t :=
  utf8Encode_inj s t bs hs ht

/-- text-mode reading returns the decoded text unchanged when it has no `\r` -/
theorem readText_of_valid (file : Bytes) (text : Str) (hv : utf8Decode file = some text)
    (hcr : NoCR text) : readText file = .ok text := by
  simp only [readText, hv, universalNewlines, unl_noCR text hcr]

/-- **`read-sources` to a file writes the bytes `emit_c_code` writes**, for every
generator, module name and line separator, when the two input files are valid
UTF-8 (`ValidUtf8`: they decode to `cdef` / `csrc`) without carriage returns.

Full statement (false, see `cr_in_prelude_changes_output`): the same without
`NoCR cdef` and `NoCR csrc`. -/
theorem cli_bytes_eq_api_bytes (gen : Str → Str → Str → Except Err Str) (linesep name : Str)
    (cdefFile csrcFile : Bytes) (cdef csrc : Str)
    (hv1 : utf8Decode cdefFile = some cdef) (hv2 : utf8Decode csrcFile = some csrc)
    (hcr1 : NoCR cdef) (hcr2 : NoCR csrc) :
    cliReadSources gen linesep .file name cdefFile csrcFile
      = apiEmit gen linesep name cdef csrc := by
  simp only [cliReadSources, apiEmit, readText_of_valid _ _ hv1 hcr1, readText_of_valid _ _ hv2 hcr2,
    deliver]
  rfl

/-- the same statement in terms of the texts: files holding the UTF-8 encoding
of surrogate-free, `\r`-free texts -/
theorem cli_bytes_eq_api_bytes_text (gen : Str → Str → Str → Except Err Str) (linesep name : Str)
    (cdef csrc : Str) (h1 : ∀ c ∈ cdef, isScalar c = true) (h2 : ∀ c ∈ csrc, isScalar c = true)
    (hcr1 : NoCR cdef) (hcr2 : NoCR csrc) :
    ∃ cdefFile csrcFile, utf8Encode cdef = some cdefFile ∧ utf8Encode csrc = some csrcFile ∧
      cliReadSources gen linesep .file name cdefFile csrcFile
        = apiEmit gen linesep name cdef csrc := by
  obtain ⟨b1, e1, d1⟩ := utf8_roundtrip cdef h1
  obtain ⟨b2, e2, d2⟩ := utf8_roundtrip csrc h2
  exact ⟨b1, b2, e1, e2, cli_bytes_eq_api_bytes gen linesep name b1 b2 cdef csrc d1 d2 hcr1 hcr2⟩

-- the hypotheses hold for an ordinary non-ASCII input
example : utf8Decode [105, 110, 116, 32, 120, 59, 32, 47, 47, 32, 195, 169, 10]
    = some [105, 110, 116, 32, 120, 59, 32, 47, 47, 32, 233, 10] := by decide
example : NoCR [105, 110, 116, 32, 120, 59, 32, 47, 47, 32, 233, 10] := by unfold NoCR; decide

/-- **`exec-python`** likewise: the script file is read in text mode, so for a
valid UTF-8 script without `\r` the bytes are those of executing the same text
and calling `emit_c_code(path)`, whatever `--ffi-var` names. -/
theorem cli_exec_python_bytes_eq_api_bytes (exec : Str → Str → Except Err Str) (linesep ffiVar : Str)
    (pyFile : Bytes) (src : Str) (hv : utf8Decode pyFile = some src) (hcr : NoCR src) :
    cliExecPython exec linesep .file ffiVar pyFile = apiExec exec linesep ffiVar src := by
  simp only [cliExecPython, apiExec, readText_of_valid _ _ hv hcr, deliver]
  rfl

/-- **Output `-`**: stdout receives exactly the bytes a file would receive,
where the line separator is `\n` (POSIX; `sys.stdout` is created with
`newline="\n"` and never translates).  Nothing else is written to stdout: the
generator announces only real file names (repaired in /repo a595028; before,
`generating <_io.StringIO object at 0x…>` preceded the source). -/
theorem stdout_same_bytes (gen : Str → Str → Str → Except Err Str)
    (exec : Str → Str → Except Err Str) (name ffiVar : Str) (cdefFile csrcFile pyFile : Bytes) :
    cliReadSources gen [10] .stdout name cdefFile csrcFile
      = cliReadSources gen [10] .file name cdefFile csrcFile ∧
    cliExecPython exec [10] .stdout ffiVar pyFile = cliExecPython exec [10] .file ffiVar pyFile := by
  simp only [cliReadSources, cliExecPython, deliver, writeFile, writeStdout, translateOut_lf]
  trivial

-- not an empty statement: both sides are the encoded source
example : cliReadSources (fun _ _ csrc => .ok csrc) [10] .stdout [109] [] [97, 10, 195, 169]
    = .ok [97, 10, 195, 169] := by rfl

/-- **The output file does not depend on what was at the output path**: for
every previous state of the path (absent, or a file with any content — longer,
shorter, identical, unrelated) the file afterwards holds exactly the bytes of
a run onto a fresh path, hence (under the hypotheses of
`cli_bytes_eq_api_bytes`) the bytes of `emit_c_code`.  `open(output, 'w')`
truncates; writing in place without truncating would not have this property
(see the example below). -/
theorem file_output_independent_of_previous_content (gen : Str → Str → Str → Except Err Str)
    (exec : Str → Str → Except Err Str) (linesep name ffiVar : Str) (previous : Option Bytes)
    (cdefFile csrcFile pyFile : Bytes) :
    cliReadSourcesOnto gen linesep previous name cdefFile csrcFile
      = cliReadSources gen linesep .file name cdefFile csrcFile ∧
    cliExecPythonOnto exec linesep previous ffiVar pyFile
      = cliExecPython exec linesep .file ffiVar pyFile := by
  simp only [cliReadSourcesOnto, cliReadSources, cliExecPythonOnto, cliExecPython, deliver,
    writeFileOnto, writeFile, storeAt, openForWriting, List.take_nil, List.drop_nil,
    List.nil_append, List.append_nil]
  trivial

-- a longer stale file is replaced completely ...
example : cliReadSourcesOnto (fun _ _ csrc => .ok csrc) [10] (some [1, 2, 3, 4, 5]) [109] [] [97, 98]
    = .ok [97, 98] := by rfl
-- ... whereas storing the new bytes over the old file without truncating keeps its tail
example : storeAt [1, 2, 3, 4, 5] 0 [97, 98] = [97, 98, 3, 4, 5] := by decide

/-- An input file that is not valid UTF-8 makes the command line fail with
`UnicodeDecodeError` (no output). -/
theorem invalid_utf8_is_an_error (gen : Str → Str → Str → Except Err Str) (linesep name : Str)
    (o : Output) (cdefFile csrcFile : Bytes) (h : utf8Decode csrcFile = none ∨
      (utf8Decode cdefFile = none ∧ (utf8Decode csrcFile).isSome)) :
    cliReadSources gen linesep o name cdefFile csrcFile = .error .unicodeDecodeError := by
  rcases h with h | ⟨h, h'⟩
  · simp only [cliReadSources, readText, h]
    rfl
  · obtain ⟨s, hs⟩ := Option.isSome_iff_exists.mp h'
    simp only [cliReadSources, readText, h, hs]
    rfl

example : utf8Decode [0xff] = none := by decide

/-- **Known finding C24/carriage-return-in-input** — `NoCR` is necessary: with a
generator that copies the prelude into its output (as the real one does), a
prelude file holding a single `\r` yields `\n` from the command line and `\r`
from `emit_c_code`. -/
theorem cr_in_prelude_changes_output :
    cliReadSources (fun _ _ csrc => .ok csrc) [10] .file [109] [] [13] = .ok [10] ∧
    apiEmit (fun _ _ csrc => .ok csrc) [10] [109] [] [13] = .ok [13] ∧
    utf8Decode [13] = some [13] := by
  refine ⟨by rfl, by rfl, by decide⟩

end CffiVerif.C24
