import CffiVerif.Model.TypeParser
namespace CffiVerif.C07
open CffiVerif.CName CffiVerif.TypeParser
theorem placeholder : tokenize "int".toList = [Tok.kw .int_] := by decide
end CffiVerif.C07
