import CffiVerif.Proofs.TypeParserFull
import CffiVerif.Generated.TypeNames

/-!
C07 — the Python and the C type-string parsers denote the same type (partial).

The theorems are about the model of the C parser (`Model/TypeParser.lean`:
`next_token`, `parse_complete`, `parse_sequel` of src/c/parse_c_type.c) and of the
backend's name printer (`Model/CName.lean`).  The Python parser (pycparser +
cparser.py) is not modelled; the two real parsers and the model are compared by the
correspondence run (harness/corr_C07.py).

* `parse_cname` / `typeof_cname`: the C parser reads the name the backend prints for a type
  back as that type — for every well-formed type of the full language (function pointer types
  with fixed, empty and variadic parameter lists included, nested at will), over every
  declaration context in which the leaves are declared; `parse_cname_partial` /
  `typeof_cname_partial` are the earlier fragment statements, now corollaries.
* `void_param_list_blank_insensitive`: blanks between `void` and `)` never matter.
* `qualifiers_ignored`: `const` / `volatile` in front of the specifiers, in front of a
  declarator and after a `*` do not change what is parsed.
* `decimal_octal_hex_length`: the decimal, octal and hex texts of a length are one number
  token each and denote the same `Nat`.
* `spec_order`: every order of a multiset of `short/long/signed/unsigned` gives the same
  counters (or the same rejection).
-/
namespace CffiVerif.C07
open CffiVerif.CName CffiVerif.TypeParser

/-- **The C parser inverts the C printer**: for every well-formed type `T` of the full type
language — declared primitive/struct/union/enum leaves, pointers, arrays with lengths ≤ 2^63-1,
and function pointer types with fixed, empty or variadic parameter lists, nested at will as
parameters, results, array items and pointer targets (`WF ctx T`) — over every declaration
context `ctx`, `parse_c_type` reads the name the backend prints for `T` back as `T`. -/
theorem parse_cname (ctx : Ctx) (T : Ty) (hT : WF ctx T) : parseType ctx (cname T).1 = .ok T :=
  parse_cname_full ctx T hT

/-- … and `ffi.typeof` of a compiled FFI returns it whenever the backend can build the type. -/
theorem typeof_cname (ctx : Ctx) (T : Ty) (hT : WF ctx T) (hv : valid ctx T = true) :
    typeofC ctx (cname T).1 = .ok T := by
  simp [typeofC, parse_cname_full ctx T hT, wf_not_func ctx T hT, hv]

/-- The fragment without function types (earlier form of the statement), a corollary. -/
theorem parse_cname_partial (ctx : Ctx) (F : FTy) (hleaf : WFLeaf ctx F.leaf) (hlens : F.LensOK) :
    parseType ctx (cname F.toTy).1 = .ok F.toTy :=
  parse_cname ctx F.toTy (wf_of_frag ctx F hleaf hlens)

theorem typeof_cname_partial (ctx : Ctx) (F : FTy) (hleaf : WFLeaf ctx F.leaf) (hlens : F.LensOK)
    (hv : valid ctx F.toTy = true) : typeofC ctx (cname F.toTy).1 = .ok F.toTy :=
  typeof_cname ctx F.toTy (wf_of_frag ctx F hleaf hlens) hv

/-- Printed name of a parse result, `none` for a rejection (an observation with decidable
equality, used by the concrete examples below). -/
def nameOf : Except Err Ty → Option Str
  | .ok t => some (cname t).1
  | .error _ => none

-- non-vacuity: `unsigned long *(*)[5]` over a context with a typedef, and `struct s *[3]`
def exCtx : Ctx :=
  { typedefs := [("T0".toList, .prim "int".toList)], aggs := [("s".toList, .struct, true)],
    enums := ["e".toList], consts := [] }
def exF : FTy := .ptr (.arr (.ptr (.prim "unsigned long".toList)) (some 5))
example : (cname exF.toTy).1 = "unsigned long *(*)[5]".toList := by decide
example : WFLeaf exCtx exF.leaf := WFLeaf.kwPrim ["unsigned".toList, "long".toList] (by decide)
example : parseType exCtx (cname exF.toTy).1 = .ok exF.toTy :=
  parse_cname_partial exCtx exF (WFLeaf.kwPrim ["unsigned".toList, "long".toList] (by decide))
    ⟨trivial, by intro n h; cases h; decide⟩
example : WFLeaf exCtx (FTy.arr (.ptr (.agg .struct "s".toList)) (some 3)).leaf :=
  WFLeaf.struct "s".toList true ⟨by decide, by decide, by decide, by decide⟩ (by decide)

-- non-vacuity for function pointer types: `struct s *(*(*)(char *, int(*)(void), ...))[3]`
def exInt : Ty := .prim "int".toList
theorem exWFInt : WF exCtx exInt := WF.leaf (.prim "int".toList) (WFLeaf.kwPrim ["int".toList] (by decide))
def exCb : Ty := .ptr (.func [] exInt false)                      -- int(*)()
def exCharP : Ty := .ptr (.prim "char".toList)
def exFn : Ty :=
  .ptr (.func [exCharP, exCb] (.ptr (.arr (.ptr (.agg .struct "s".toList)) (some 3))) true)
example : (cname exFn).1 = "struct s *(*(*)(char *, int(*)(), ...))[3]".toList := by decide +kernel
theorem exFn_wf : WF exCtx exFn := by
  refine WF.fptr _ _ _ (WF.ptr _ (WF.arr _ _ (WF.ptr _ (WF.leaf (.agg .struct "s".toList)
    (WFLeaf.struct "s".toList true ⟨by decide, by decide, by decide, by decide⟩ (by decide)))) ?_)) ?_ ?_ ?_
  · intro n h; cases h; decide
  · intro A hA
    simp only [List.mem_cons, List.not_mem_nil, or_false] at hA
    rcases hA with rfl | rfl
    · exact WF.ptr _ (WF.leaf (.prim "char".toList) (WFLeaf.kwPrim ["char".toList] (by decide)))
    · exact WF.fptr _ _ _ exWFInt (by intro A hA; cases hA) (by intro A hA; cases hA) (by intro h; cases h.1)
  · intro A hA
    simp only [List.mem_cons, List.not_mem_nil, or_false] at hA
    rcases hA with rfl | rfl <;> rfl
  · intro h; cases h.2
example : parseType exCtx (cname exFn).1 = .ok exFn := parse_cname exCtx exFn exFn_wf

/-- Why `WF` asks for adjusted parameter lists: on the type *trees* of the model the statement is
false for an array parameter (the parser decays it, as C does — the backend identifies the two
function types) and for the one-element list `(void)` (which is the empty parameter list). -/
theorem wf_hypotheses_needed :
    nameOf (parseType exCtx (cname (.ptr (.func [.arr exInt (some 3)] exInt false))).1) =
      some "int(*)(int *)".toList ∧
    (cname (.ptr (.func [.arr exInt (some 3)] exInt false))).1 = "int(*)(int[3])".toList ∧
    nameOf (parseType exCtx (cname (.ptr (.func [.prim "void".toList] exInt false))).1) =
      some "int(*)()".toList ∧
    (cname (.ptr (.func [.prim "void".toList] exInt false))).1 = "int(*)(void)".toList := by
  decide +kernel

/-- **Qualifiers are ignored** wherever the C parser accepts them: before the specifiers
(`parse_complete`'s `qualifiers:` loop), at the start of a declarator and after a star
(`parse_sequel`'s `header:` loop). -/
theorem qualifiers_ignored (ctx : Ctx) (q : Tok) (hq : q = .kw .const_ ∨ q = .kw .volatile_)
    (ts : List Tok) (f : Nat) :
    parseBase ctx (q :: ts) = parseBase ctx ts ∧
    parseComplete ctx f (q :: ts) = parseComplete ctx f ts ∧
    parseSequel ctx f (q :: ts) = parseSequel ctx f ts ∧
    parseSequel ctx f (.sym '*' :: q :: ts) = parseSequel ctx f (.sym '*' :: ts) := by
  have hb : parseBase ctx (q :: ts) = parseBase ctx ts := by
    rcases hq with rfl | rfl <;> simp [parseBase, skipQuals]
  have hh : ∀ n abi, header (q :: ts) n abi = header ts n abi := by
    intro n abi; rcases hq with rfl | rfl <;> simp [header]
  refine ⟨hb, ?_, ?_, ?_⟩
  · cases f with
    | zero => rfl
    | succ f => simp only [parseComplete, hb]
  · cases f with
    | zero => rfl
    | succ f => simp only [parseSequel, hh]
  · cases f with
    | zero => rfl
    | succ f => simp only [parseSequel, header, hh]

example : nameOf (parseType exCtx "const int * volatile const *".toList) = some "int * *".toList := by
  decide +kernel

/-- **Decimal, octal and hex lengths**: each spelling of `n` is a single number token inside
brackets, and `strtoull(…, 0)` reads the same `n` from all of them. -/
theorem decimal_octal_hex_length (n : Nat) (hn : n ≤ maxSsize) :
    (numValue (dec n) = .ok n ∧ numValue ('0' :: digitsOf 8 n) = .ok n ∧
      numValue ('0' :: 'x' :: digitsOf 16 n) = .ok n) ∧
    (∀ s, run .idle ('[' :: (dec n ++ ']' :: s)) = .sym '[' :: .int (dec n) :: .sym ']' :: run .idle s) ∧
    (∀ s, run .idle ('[' :: ('0' :: digitsOf 8 n ++ ']' :: s)) =
      .sym '[' :: .int ('0' :: digitsOf 8 n) :: .sym ']' :: run .idle s) ∧
    (∀ s, run .idle ('[' :: ('0' :: 'x' :: digitsOf 16 n ++ ']' :: s)) =
      .sym '[' :: .int ('0' :: 'x' :: digitsOf 16 n) :: .sym ']' :: run .idle s) := by
  have stop : ∀ s, NumStop (']' :: s) := fun s => ⟨by decide, by decide, by decide⟩
  refine ⟨⟨numValue_dec n hn, numValue_oct n hn, numValue_hex n hn⟩, ?_, ?_, ?_⟩
  · intro s
    obtain ⟨c, ds, e, hc, hds⟩ := dec_shape n
    rw [run_idle_lbracket, e]
    have := run_number c ds (']' :: s) hc hds (stop s)
    simp only [List.cons_append] at this ⊢
    rw [this, run_idle_rbracket]
  · intro s
    rw [run_idle_lbracket]
    have := run_number '0' (digitsOf 8 n) (']' :: s) (by decide)
      (fun x hx => (digF_chars 8 (by omega) (by omega) _ _ x hx).1) (stop s)
    simp only [List.cons_append] at this ⊢
    rw [this, run_idle_rbracket]
  · intro s
    rw [run_idle_lbracket]
    have := run_hex_number (digitsOf 16 n) (']' :: s)
      (fun x hx => (digF_chars 16 (by omega) (by omega) _ _ x hx).1) (stop s)
    simp only [List.cons_append] at this ⊢
    rw [this, run_idle_rbracket]

example : dec 26 = "26".toList ∧ digitsOf 8 26 = "32".toList ∧ digitsOf 16 26 = "1a".toList := by decide
example : nameOf (parseType exCtx "int[032]".toList) = some "int[26]".toList ∧
    nameOf (parseType exCtx "int[0x1a]".toList) = some "int[26]".toList := by decide +kernel

/-- **Specifier order**: the `modifiers:` loop gives the same result for every order of the
same `short/long/signed/unsigned` tokens (the same counters, or a rejection for all orders). -/
theorem spec_order (ms ms' : List Tok) (hp : ms.Perm ms') (hm : ∀ t ∈ ms, isModifier t)
    (rest : List Tok) : ∀ l s : Int, modifiers (ms ++ rest) l s = modifiers (ms' ++ rest) l s := by
  induction hp with
  | nil => intro l s; rfl
  | cons a _ ih =>
    intro l s
    have ha := hm a (by simp)
    have ih' := ih (fun t ht => hm t (by simp [ht]))
    rcases ha with rfl | rfl | rfl | rfl <;> simp only [List.cons_append, modifiers] <;>
      repeat' split
    all_goals first | rfl | exact ih' _ _
  | swap a b r =>
    intro l s
    exact modifiers_swap _ _ (hm b (by simp)) (hm a (by simp)) _ l s
  | trans h1 _ ih1 ih2 =>
    intro l s
    rw [ih1 hm, ih2 (fun t ht => hm t (h1.mem_iff.mpr ht))]

example : nameOf (parseType exCtx "long unsigned long int".toList) = some "unsigned long long".toList := by
  decide +kernel

/-- **Blanks between `void` and `)` do not matter**: `get_following_char` skips blanks, so
`(void )`, `(void\t\n)` and `(void)` are the same parameter list — for every text before and
after, every run of blanks, every context.  (More generally blanks in front of any punctuation
character never change the tokens: `tokens_blank_insensitive`.) -/
theorem void_param_list_blank_insensitive (ctx : Ctx) (pre ws post : Str)
    (hw : ∀ x ∈ ws, isSpace x = true) :
    parseType ctx (pre ++ "void".toList ++ ws ++ ')' :: post) = parseType ctx (pre ++ "void".toList ++ ')' :: post) ∧
    typeofC ctx (pre ++ "void".toList ++ ws ++ ')' :: post) = typeofC ctx (pre ++ "void".toList ++ ')' :: post) := by
  have h := tokens_blank_insensitive (pre ++ "void".toList) ws post ')' hw (by decide)
  constructor
  · simp only [parseType, h]
  · simp only [typeofC, parseType, h]

example : nameOf (parseType exCtx "int(*)(void \t\n )".toList) = some "int(*)()".toList ∧
    nameOf (parseType exCtx "int(*)(void)".toList) = some "int(*)()".toList := by decide +kernel

/-! ### Tie to the source: the name tables re-extracted from /repo on every run -/

def kwTokName : Kw → String
  | .bool_ => "TOK__BOOL" | .char_ => "TOK_CHAR" | .complex_ => "TOK__COMPLEX" | .const_ => "TOK_CONST"
  | .double_ => "TOK_DOUBLE" | .enum_ => "TOK_ENUM" | .float_ => "TOK_FLOAT" | .int_ => "TOK_INT"
  | .long_ => "TOK_LONG" | .short_ => "TOK_SHORT" | .signed_ => "TOK_SIGNED" | .struct_ => "TOK_STRUCT"
  | .union_ => "TOK_UNION" | .unsigned_ => "TOK_UNSIGNED" | .void_ => "TOK_VOID" | .volatile_ => "TOK_VOLATILE"
  | .cdecl_ => "TOK_CDECL" | .stdcall_ => "TOK_STDCALL"

/-- The model's keyword table is the one `next_token` compares against (regenerated from
src/c/parse_c_type.c). -/
theorem keyword_table_matches_source :
    keywordTable.map (fun p => (p.1, kwTokName p.2)) =
      Generated.TypeNames.keywords.map (fun p => (p.1.toList, p.2)) := by decide +kernel

/-- The model recognises exactly the names `search_standard_typename` recognises. -/
theorem standard_typenames_match_source :
    standardTypenames = Generated.TypeNames.standardTypenames.map (·.1.toList) := by decide +kernel

/-- Every primitive name the backend prints (`primitive_name[]` of realize_c_type.c, and `void`)
is read back by the C parser as the primitive with that name — the leaf case of
`parse_cname_partial`, checked over the regenerated table. -/
theorem primitive_names_reparse :
    ∀ n ∈ "void" :: Generated.TypeNames.primitiveNames,
      nameOf (parseType { typedefs := [], aggs := [], enums := [], consts := [] } n.toList) = some n.toList := by
  decide +kernel

example : Generated.TypeNames.primitiveNames.length = 51 ∧ Generated.TypeNames.keywords.length = 18 ∧
    Generated.TypeNames.standardTypenames.length = 36 := by decide

/-- The divergences inside the property's grammar that the model reproduces (DESIGN §7 row 15):
more than one level of grouping parentheses and a qualifier between two specifiers are
rejected by the C parser. -/
theorem known_divergences_c_side :
    nameOf (parseType exCtx "long((*))".toList) = none ∧
    nameOf (parseType exCtx "unsigned const short".toList) = none ∧
    nameOf (parseType exCtx "long(*)".toList) = some "long *".toList ∧
    nameOf (parseType exCtx "const unsigned short".toList) = some "unsigned short".toList := by
  decide +kernel

end CffiVerif.C07
