import CffiVerif.Proofs.Flatten
import CffiVerif.Proofs.GenSrcIO

/-!
C32 — `verify()` module names are deterministic and input-sensitive.

On the model of `ffiplatform.flatten` and of the key / name construction in
`Verifier.__init__`:

* the text `flatten` writes determines the value up to the order in which the
  items of its dicts were inserted (`flatten_injective`, through a parser that
  inverts `flatten`), and does not depend on that order
  (`kwargs_order_irrelevant`);
* the key joined with NUL determines every input as long as no input string
  contains a NUL character (`key_injective_partial`); with a NUL it does not
  (`key_not_injective_with_nul`, known finding C32/nul-in-cdef-source);
* the two CRCs can be read back from the name (`k1_k2_unambiguous`) and the two
  hashed halves determine the key bytes, so two different keys share a name
  only if one of the two CRC32 values collides (`name_collision_only_by_crc`).

Determinism across processes is a statement about the interpreter (hash
randomisation, dict order); in the model it is the fact that `moduleName ∘ key`
is a function, plus `kwargs_order_irrelevant`; the correspondence run checks it
on the real `Verifier` under several `PYTHONHASHSEED`s and keyword orders.
-/
namespace CffiVerif.C32
open CffiVerif.Flatten

/-- The parser reads back, from the text `flatten` wrote (followed by anything),
the value with its dicts in key order, and leaves the rest untouched. -/
theorem parse_flatten (v : Val) :
    ∃ f, ∀ fuel, f ≤ fuel → ∀ rest, parseVal fuel (flatten v ++ rest) = some (canon v, rest) :=
  parse_flatten_aux v

/-- **`flatten` is injective** up to the insertion order of dict items (which
Python's `==` on dicts ignores as well), and its outputs are prefix-free. -/
theorem flatten_injective (v v' : Val) (rest rest' : Str)
    (h : flatten v ++ rest = flatten v' ++ rest') : canon v = canon v' ∧ rest = rest' := by
  obtain ⟨f, hf⟩ := parse_flatten v
  obtain ⟨f', hf'⟩ := parse_flatten v'
  have h1 := hf (max f f') (by omega) rest
  have h2 := hf' (max f f') (by omega) rest'
  rw [h, h2] at h1
  simp only [Option.some.injEq, Prod.mk.injEq] at h1
  exact ⟨h1.1.symm, h1.2.symm⟩

-- two different values of the same shape get different texts
example : flatten (.list [.str [49], .int 2]) ≠ flatten (.list [.str [], .int 12]) := by decide
example : canon (.dict [(.str [98], .int 1), (.str [97], .int 2)])
    = canon (.dict [(.str [97], .int 2), (.str [98], .int 1)]) := by rfl

/-- **Keyword order is irrelevant**: a dict with the same items inserted in
another order is written identically. -/
theorem kwargs_order_irrelevant (kvs kvs' : List (Key × Val)) (hp : kvs.Perm kvs')
    (hnd : (kvs.map Prod.fst).Nodup) : flatten (.dict kvs) = flatten (.dict kvs') := by
  simp only [flatten, flattenPairs_eq_map, sortPairs_map, hp.length_eq,
    sortPairs_eq_of_perm kvs kvs' hp hnd]

example : ([(Key.str [98], Val.int 1), (Key.str [97], Val.int 2)]).Perm
    [(Key.str [97], Val.int 2), (Key.str [98], Val.int 1)] := List.Perm.swap _ _ _
example : (([(Key.str [98], Val.int 1), (Key.str [97], Val.int 2)]).map Prod.fst).Nodup := by decide

/-- `flatten` raises `TypeError` exactly when some dict has keys of both kinds
(`sorted` cannot compare `int` with `str`); otherwise it returns the text. -/
theorem flatten_error_iff (v : Val) :
    (flatten? v = .error .typeError ↔ keysOk v = false) ∧
    (keysOk v = true → flatten? v = .ok (flatten v)) := by
  unfold flatten?
  cases h : keysOk v <;> simp

example : flatten? (.dict [(.int 1, .int 1), (.str [97], .int 2)]) = .error .typeError := by rfl
example : flatten? (.dict [(.int 1, .int 1), (.int 0, .int 2)]) = .ok [50, 100, 48, 105, 50, 105, 49, 105, 49, 105] := by
  rfl

/-- **The key determines the inputs when no input string contains NUL.**

Full statement (false on the unchanged tree, see `key_not_injective_with_nul`):
`key pv vm pre kw cdefs = key pv' vm' pre' kw' cdefs' → pv = pv' ∧ vm = vm' ∧
 pre = pre' ∧ canon kw = canon kw' ∧ cdefs = cdefs'` without the `NoNul` hypotheses. -/
theorem key_injective_partial (pv vm pre pv' vm' pre' : Str) (kw kw' : Val) (cdefs cdefs' : List Str)
    (h1 : NoNul pv ∧ NoNul vm ∧ NoNul pre ∧ Val.NoNul kw ∧ ∀ c ∈ cdefs, NoNul c)
    (h2 : NoNul pv' ∧ NoNul vm' ∧ NoNul pre' ∧ Val.NoNul kw' ∧ ∀ c ∈ cdefs', NoNul c)
    (h : key pv vm pre kw cdefs = key pv' vm' pre' kw' cdefs') :
    pv = pv' ∧ vm = vm' ∧ pre = pre' ∧ canon kw = canon kw' ∧ cdefs = cdefs' := by
  unfold key at h
  have hall : ∀ (a b c : Str) (k : Val) (l : List Str),
      NoNul a ∧ NoNul b ∧ NoNul c ∧ Val.NoNul k ∧ (∀ x ∈ l, NoNul x) →
      ∀ p ∈ a :: b :: c :: flatten k :: l, NoNul p := by
    intro a b c k l hh p hp
    simp only [List.mem_cons] at hp
    rcases hp with rfl | rfl | rfl | rfl | hp
    · exact hh.1
    · exact hh.2.1
    · exact hh.2.2.1
    · exact noNul_flatten k hh.2.2.2.1
    · exact hh.2.2.2.2 p hp
  have := joinNul_injective _ _ (hall _ _ _ _ _ h1) (hall _ _ _ _ _ h2) (by simp) (by simp) h
  simp only [List.cons.injEq] at this
  obtain ⟨e1, e2, e3, e4, e5⟩ := this
  have e4' := flatten_injective kw kw' [] [] (by simpa using e4)
  exact ⟨e1, e2, e3, e4'.1, e5⟩

-- the hypotheses are satisfiable by ordinary inputs
example : NoNul [51, 46, 49, 50] ∧ Val.NoNul (.dict [(.str [97], .list [.str [109]])]) := by
  refine ⟨by unfold NoNul; decide, ?_⟩
  simp only [Val.NoNul, Val.NoNulPairs, Val.NoNulList, Key.NoNul]
  unfold NoNul
  decide

/-- **Known finding C32/nul-in-cdef-source**: with a NUL character inside a
cdef source (e.g. in a `//` comment) the key — hence the module name — is the
one of two separate `cdef()` calls: `cdef("int a; // \0 int b;")` and
`cdef("int a; // "); cdef(" int b;")`. -/
theorem key_not_injective_with_nul (pv vm pre : Str) (kw : Val) :
    key pv vm pre kw [[105, 110, 116, 32, 97, 59, 32, 47, 47, 32, 0, 32, 105, 110, 116, 32, 98, 59]]
      = key pv vm pre kw [[105, 110, 116, 32, 97, 59, 32, 47, 47, 32], [32, 105, 110, 116, 32, 98, 59]]
    ∧ [[105, 110, 116, 32, 97, 59, 32, 47, 47, 32, 0, 32, 105, 110, 116, 32, 98, 59]]
      ≠ [[105, 110, 116, 32, 97, 59, 32, 47, 47, 32], [32, 105, 110, 116, 32, 98, 59]] := by
  constructor
  · simp [key, joinNul]
  · decide

/-- The name suffix `k1 ++ k2` determines both CRCs (`k2` starts with the `x`
that `lstrip('0')` leaves, and no hex digit is `x`). -/
theorem k1_k2_unambiguous (a b a' b' : Nat) (h : k1 a ++ k2 b = k1 a' ++ k2 b') :
    a = a' ∧ b = b' := by
  rw [k2_eq, k2_eq] at h
  obtain ⟨h1, h2⟩ := append_x_inj _ _ _ _ (not_x_mem_k1 a) (not_x_mem_k1 a') h
  refine ⟨?_, natDigits_injective 16 (by omega) (by omega) _ _ h2⟩
  have := hexValue_k1 a
  rw [h1, hexValue_k1] at this
  exact this.symm

/-- **Two different keys share a module name only through a CRC32 collision**
on the even- or on the odd-indexed bytes (for any function `crc`). -/
theorem name_collision_only_by_crc (crc : List Nat → Nat) (tag classKey : Str) (kb kb' : List Nat)
    (hne : kb ≠ kb') (h : moduleName crc tag classKey kb = moduleName crc tag classKey kb') :
    (evens kb ≠ evens kb' ∧ crc (evens kb) = crc (evens kb')) ∨
    (odds kb ≠ odds kb' ∧ crc (odds kb) = crc (odds kb')) := by
  unfold moduleName at h
  simp only [List.append_assoc, List.append_cancel_left_eq] at h
  obtain ⟨h1, h2⟩ := k1_k2_unambiguous _ _ _ _ h
  by_cases he : evens kb = evens kb'
  · right
    refine ⟨?_, h2⟩
    intro ho
    exact hne (evens_odds_injective kb kb' he ho)
  · left
    exact ⟨he, h1⟩

/-- The same for the key *texts*: the hashed bytes are the UTF-8 encoding of the
key (`key.encode('utf-8')`), which is injective, so two different key texts
share a name only through a CRC32 collision. -/
theorem name_collision_only_by_crc_text (crc : List Nat → Nat) (tag classKey : Str)
    (k k' : Str) (kb kb' : List Nat)
    (he : GenSrcIO.utf8Encode k = some kb) (he' : GenSrcIO.utf8Encode k' = some kb') (hne : k ≠ k')
    (h : moduleName crc tag classKey kb = moduleName crc tag classKey kb') :
    (evens kb ≠ evens kb' ∧ crc (evens kb) = crc (evens kb')) ∨
    (odds kb ≠ odds kb' ∧ crc (odds kb) = crc (odds kb')) := by
  apply name_collision_only_by_crc crc tag classKey kb kb' _ h
  intro e
  subst e
  exact hne (GenSrcIO.utf8Encode_inj k k' kb he he')

example : GenSrcIO.utf8Encode [51, 46, 49, 50, 0, 233] = some [51, 46, 49, 50, 0, 195, 169] := by decide

-- the name printed for CRCs 0x36efdf1 / 0x1de75c16 is the one the real Verifier chose
example : moduleName (fun l => if l.length = 2 then 0x36efdf1 else 0x1de75c16) [] [120] [1, 2, 3]
    = [95, 99, 102, 102, 105, 95, 95, 120, 51, 54, 101, 102, 100, 102, 49, 120, 49, 100, 101, 55, 53, 99, 49, 54] := by
  decide

/-- **The model is the Python source.**  `Generated/FlattenPy.lean` is
re-translated on every run (translate/c32_py.py) from `ffiplatform._flatten`
(the `isinstance` dispatch and its order, the four format strings with their
arguments, `sorted(x.keys())`, what the loops flatten) and from the name
computation of `Verifier.__init__` (the list of key parts and the separator of
the join, `key[0::2]` / `key[1::2]`, the mask, `hex`, the strip sets and the
name format).  Each branch of the model's `flatten`, the model's `key` and — for
a 32-bit `crc` — the model's `moduleName` are equal to those translations, so
the theorems above are statements about the code as it is now. -/
theorem model_is_the_translated_source :
    (∀ s, Generated.FlattenPy.write_str s = some (flatten (.str s))) ∧
    (∀ i, Generated.FlattenPy.write_int i = some (flatten (.int i))) ∧
    (∀ xs, (Generated.FlattenPy.write_list_head xs.length).map (· ++ flattenList xs)
        = some (flatten (.list xs))) ∧
    (∀ kvs, (Generated.FlattenPy.write_dict_head kvs.length).map
        (· ++ joinPairs ((if Generated.FlattenPy.dict_keys_sorted then sortPairs else id) (flattenPairs kvs)))
        = some (flatten (.dict kvs))) ∧
    (∀ k, flattenKey k = match k with | .int i => flatten (.int i) | .str s => flatten (.str s)) ∧
    Generated.FlattenPy.dispatch = ["str", "dict", "(list, tuple)", "int_or_long"] ∧
    Generated.FlattenPy.dict_loop = ["key", "x[key]"] ∧ Generated.FlattenPy.list_loop = ["value"] ∧
    (∀ pv vm pre kw cdefs, key pv vm pre kw cdefs
        = Generated.FlattenPy.key_text pv vm pre (flatten kw) cdefs) ∧
    (∀ (crc : List Nat → Nat), (∀ l, crc l < 4294967296) → ∀ tag classKey kb,
        Generated.FlattenPy.name_of crc tag classKey kb = some (moduleName crc tag classKey kb)) := by
  refine ⟨?_, ?_, ?_, ?_, ?_, rfl, rfl, rfl, ?_, name_of_eq⟩
  · intro s
    simp [Generated.FlattenPy.write_str, PyText.format, flatten, intDigits_natCast]
  · intro i
    simp [Generated.FlattenPy.write_int, PyText.format, flatten]
  · intro xs
    simp [Generated.FlattenPy.write_list_head, PyText.format, flatten, intDigits_natCast]
  · intro kvs
    simp [Generated.FlattenPy.write_dict_head, Generated.FlattenPy.dict_keys_sorted, PyText.format,
      flatten, intDigits_natCast]
  · intro k
    cases k <;> simp [flattenKey, flatten]
  · intro pv vm pre kw cdefs
    simp only [key, Generated.FlattenPy.key_text, joinNul_eq_join, List.cons_append, List.nil_append]

end CffiVerif.C32
