import CffiVerif.Proofs.Index

/-!
C16 — array and pointer indexing, slicing and arithmetic follow the C model.

All statements are over the executable model `CffiVerif.Index` (Model/Index.lean) of
`_cdata_get_indexed_ptr`, `_cdata_getslicearg`, `cdata_slice`, `cdata_ass_slice`,
`_cdata_add_or_sub`, `cdata_sub`, `direct_typeoffsetof`; indexes are Python ints of any
magnitude (`Int`), array lengths and sizes are arbitrary.
-/
namespace CffiVerif.C16
open CffiVerif.Mem CffiVerif.Index

/-! ### `x[i]` -/

/-- An array of length `n` accepts `x[i]` (read or write: both go through
`indexedPtr`) iff `0 ≤ i < n`. -/
theorem item_ok_iff (cd : CData) (n : Nat) (hk : cd.kind = .array n) (hn : (n : Int) ≤ ssizeMax)
    (i : Int) : (∃ a, indexedPtr cd (.int i) = .ok a) ↔ (0 ≤ i ∧ i < n) := by
  constructor
  · intro ⟨a, h⟩
    unfold indexedPtr at h
    gen_norm at h
    simp only [hk] at h
    split at h
    · cases h
    · split at h
      · cases h
      · split at h
        · cases h
        · omega
  · intro h
    exact ⟨_, indexedPtr_array_ok cd n hk hn i h⟩

/-- Every other index, of any magnitude, is an `IndexError`. -/
theorem item_reject_is_IndexError (cd : CData) (n : Nat) (hk : cd.kind = .array n) (i : Int)
    (h : ¬ (0 ≤ i ∧ i < n)) : indexedPtr cd (.int i) = .error .IndexError := by
  unfold indexedPtr
  gen_norm
  simp only [hk]
  split
  · rfl
  · split
    · rfl
    · split
      · rfl
      · omega

/-- An owning pointer (`ffi.new("T *")`) accepts only index 0. -/
theorem owning_ptr_only_zero (cd : CData) (hk : cd.kind = .ownptr) (i : Int) :
    (∃ a, indexedPtr cd (.int i) = .ok a) ↔ i = 0 := by
  unfold indexedPtr
  gen_norm
  simp only [hk]
  constructor
  · intro ⟨a, h⟩
    split at h
    · cases h
    · split at h
      · cases h
      · omega
  · intro h
    subst h
    have f : ¬ ¬ fitsSsize 0 := by unfold fitsSsize ssizeMin ssizeMax; omega
    simp only [f, if_false, ne_eq, not_true_eq_false]
    exact ⟨_, rfl⟩

/-- A plain non-null pointer accepts every index that is a `Py_ssize_t`. -/
theorem plain_ptr_any_index (cd : CData) (hk : cd.kind = .ptr) (hnn : cd.addr ≠ 0) (i : Int) :
    (∃ a, indexedPtr cd (.int i) = .ok a) ↔ fitsSsize i := by
  unfold indexedPtr
  gen_norm
  simp only [hk, hnn, if_false]
  constructor
  · intro ⟨a, h⟩
    split at h
    · cases h
    · rename_i hf; simpa using hf
  · intro h
    simp only [h, not_true_eq_false, if_false]
    exact ⟨_, rfl⟩

/-! ### `x[i:j]` -/

/-- An array of length `n` accepts `x[i:j]` iff `0 ≤ i ≤ j ≤ n`. -/
theorem slice_ok_iff (cd : CData) (n : Nat) (hk : cd.kind = .array n) (hn : (n : Int) ≤ ssizeMax)
    (i j : Int) :
    (∃ r, sliceArg cd (.int i) (.int j) .none = .ok r) ↔ (0 ≤ i ∧ i ≤ j ∧ j ≤ n) := by
  constructor
  · intro ⟨r, h⟩
    unfold sliceArg ssizeArg at h
    gen_norm at h
    simp only [hk] at h
    by_cases f1 : fitsSsize i
    · by_cases f2 : fitsSsize j
      · simp only [f1, f2, if_true, ne_eq, not_true_eq_false, if_false] at h
        split at h
        · cases h
        · split at h
          · cases h
          · split at h
            · cases h
            · omega
      · simp only [f1, f2, if_true, if_false] at h
        cases h
    · simp only [f1, if_false] at h
      cases h
  · intro h
    exact ⟨_, slice_ok_value cd n hk hn i j h⟩

/-- … and the accepted slice is `(start, length) = (i, j - i)`. -/
theorem slice_ok_bounds (cd : CData) (n : Nat) (hk : cd.kind = .array n) (hn : (n : Int) ≤ ssizeMax)
    (i j : Int) (h : 0 ≤ i ∧ i ≤ j ∧ j ≤ n) :
    sliceArg cd (.int i) (.int j) .none = .ok (i, j - i) :=
  slice_ok_value cd n hk hn i j h

/-- A slice with a step (any step object, also `1`) is never accepted. -/
theorem slice_needs_no_step (cd : CData) (a b c : PyArg) (hc : c ≠ .none) :
    ∃ e, sliceArg cd a b c = .error e := by
  unfold sliceArg
  gen_norm
  split
  · exact ⟨_, rfl⟩
  · split
    · exact ⟨_, rfl⟩
    · rw [if_pos hc]; exact ⟨_, rfl⟩

/-
Full statement of the property (NOT true of the code): for an array of length n and ints
i, j of any magnitude, `¬ (0 ≤ i ≤ j ≤ n) → sliceArg cd (.int i) (.int j) .none = .error .IndexError`.
It fails when a bound does not fit a Py_ssize_t: `PyLong_AsSsize_t` raises OverflowError
(witness `slice_huge_bound_is_OverflowError`).  Finding class C16/slice-bound-overflowerror.
-/
theorem slice_reject_is_IndexError_partial (cd : CData) (n : Nat) (hk : cd.kind = .array n)
    (i j : Int) (hi : fitsSsize i) (hj : fitsSsize j) (h : ¬ (0 ≤ i ∧ i ≤ j ∧ j ≤ n)) :
    sliceArg cd (.int i) (.int j) .none = .error .IndexError := by
  unfold sliceArg ssizeArg
  gen_norm
  simp only [hk, hi, hj, if_true, ne_eq, not_true_eq_false, if_false]
  split
  · rfl
  · split
    · rfl
    · split
      · rfl
      · omega

/-- For ints of any magnitude a slice outside `0 ≤ i ≤ j ≤ n` is rejected, with
IndexError or (bound beyond `Py_ssize_t`) OverflowError. -/
theorem slice_reject_any (cd : CData) (n : Nat) (hk : cd.kind = .array n)
    (i j : Int) (h : ¬ (0 ≤ i ∧ i ≤ j ∧ j ≤ n)) :
    sliceArg cd (.int i) (.int j) .none = .error .IndexError ∨
    sliceArg cd (.int i) (.int j) .none = .error .OverflowError := by
  by_cases hi : fitsSsize i
  · by_cases hj : fitsSsize j
    · exact Or.inl (slice_reject_is_IndexError_partial cd n hk i j hi hj h)
    · right
      unfold sliceArg ssizeArg
      gen_norm
      simp only [hi, hj, if_true, if_false]
  · right
    unfold sliceArg ssizeArg
    gen_norm
    simp only [hi, if_false]

/-- Witness: `x[1:2**70]` on an `int[5]` raises OverflowError, not IndexError. -/
theorem slice_huge_bound_is_OverflowError :
    sliceArg { kind := .array 5, addr := 4096, isize := 4, tid := 1, isChar := false, voidp := false }
      (.int 1) (.int 1180591620717411303424) .none = .error .OverflowError := by
  decide

/-! ### rejected operations touch nothing -/

/-- A store through a rejected index leaves the memory as it was and reports the
index error (whatever the value is). -/
theorem reject_touches_nothing_item (m : Memory) (cd : CData) (key : PyArg) (v : Item) (e : Err)
    (h : indexedPtr cd key = .error e) : setitem m cd key v = (m, .error e) := by
  unfold setitem; rw [h]

/-- A slice assignment through a rejected slice leaves the memory as it was, whatever
the right-hand side is. -/
theorem reject_touches_nothing_slice (m : Memory) (cd : CData) (a b c : PyArg) (rhs : Rhs) (e : Err)
    (h : sliceArg cd a b c = .error e) : assSlice m cd a b c rhs = (m, .error e) := by
  unfold assSlice; rw [h]

/-- For arrays: any index outside `[0, n)` / any slice outside `0 ≤ i ≤ j ≤ n`, of any
magnitude, raises and leaves every byte unchanged (reads return no memory at all:
`getitem`/`slice` have no memory result). -/
theorem reject_touches_nothing (m : Memory) (cd : CData) (n : Nat) (hk : cd.kind = .array n)
    (i j : Int) (v : Item) (rhs : Rhs) :
    (¬ (0 ≤ i ∧ i < n) → setitem m cd (.int i) v = (m, .error .IndexError)) ∧
    (¬ (0 ≤ i ∧ i ≤ j ∧ j ≤ n) → ∃ e, assSlice m cd (.int i) (.int j) .none rhs = (m, .error e)) := by
  constructor
  · intro h
    exact reject_touches_nothing_item m cd _ v _ (item_reject_is_IndexError cd n hk i h)
  · intro h
    rcases slice_reject_any cd n hk i j h with h' | h'
    · exact ⟨_, reject_touches_nothing_slice m cd _ _ _ rhs _ h'⟩
    · exact ⟨_, reject_touches_nothing_slice m cd _ _ _ rhs _ h'⟩

/-! ### a slice is a view -/

/-- `x[i:j]` is an array of length `j - i` of the same item type whose item `k` *is*
item `i + k` of `x`: same address, hence the same bytes on every read and the same
effect on every write, in both directions. -/
theorem slice_aliases (cd : CData) (n : Nat) (hk : cd.kind = .array n) (hn : (n : Int) ≤ ssizeMax)
    (i j : Int) (h : 0 ≤ i ∧ i ≤ j ∧ j ≤ n) :
    ∃ v, slice cd (.int i) (.int j) .none = .ok v ∧ v.kind = .array (j - i).toNat ∧
      v.isize = cd.isize ∧ v.tid = cd.tid ∧
      ∀ k : Int, 0 ≤ k → k < j - i →
        indexedPtr v (.int k) = indexedPtr cd (.int (i + k)) ∧
        (∀ m, getitem m v (.int k) = getitem m cd (.int (i + k))) ∧
        (∀ m x, setitem m v (.int k) x = setitem m cd (.int (i + k)) x) := by
  refine ⟨{ cd with kind := .array (j - i).toNat, addr := wrapU (cd.addr + cd.isize * i) },
    ?_, rfl, rfl, rfl, ?_⟩
  · unfold slice
    rw [slice_ok_value cd n hk hn i j h]
    rfl
  · intro k hk0 hk1
    have hptr : indexedPtr { cd with kind := .array (j - i).toNat, addr := wrapU (cd.addr + cd.isize * i) } (.int k)
        = indexedPtr cd (.int (i + k)) := by
      rw [indexedPtr_array_ok _ (j - i).toNat rfl (by unfold ssizeMax at *; omega) k (by omega),
        indexedPtr_array_ok cd n hk hn (i + k) (by omega)]
      simp only
      rw [wrapU_add_mul_assoc]
    refine ⟨hptr, ?_, ?_⟩
    · intro m
      unfold getitem
      rw [hptr]
    · intro m x
      unfold setitem
      rw [hptr]

/-! ### slice assignment -/

/-- Effect of `x[i:j] = iterable` when every item converts: the first
`min(count, j - i)` items are stored contiguously at item `i`, and the assignment
succeeds iff the count is exactly `j - i` (otherwise ValueError -- after the
stores, as in the C loop). -/
theorem ass_slice_effect (m : Memory) (cd : CData) (n : Nat) (hk : cd.kind = .array n)
    (hn : (n : Int) ≤ ssizeMax) (hin : InAlloc m cd n) (i j : Int) (h : 0 ≤ i ∧ i ≤ j ∧ j ≤ n)
    (vs : List Item) (hall : AllOk cd.isize.toNat vs) :
    ∃ m', m.store (cd.addr + i.toNat * cd.isize.toNat) (payload (vs.take (j - i).toNat)) = .ok m' ∧
      assSlice m cd (.int i) (.int j) .none (.items vs) =
        (m', if vs.length = (j - i).toNat then .ok () else .error .ValueError) := by
  obtain ⟨a, rfl⟩ := Int.eq_ofNat_of_zero_le h.1
  obtain ⟨b, rfl⟩ := Int.eq_ofNat_of_zero_le (by omega : (0 : Int) ≤ j)
  have hab : a ≤ b := by omega
  have hbn : b ≤ n := by omega
  obtain ⟨ea, er⟩ := slice_addr_exact m cd n hin a b hab hbn
  have hl : ((b : Int) - (a : Int)).toNat = b - a := by omega
  unfold assSlice
  gen_norm
  rw [slice_ok_value cd n hk hn _ _ h]
  simp only [hl, Int.toNat_natCast, ea]
  exact assLoop_spec cd.isize.toNat (b - a) vs m _ hall (by have := hin.2.1; omega) er

/-- Slice assignment needs exactly `j - i` values. -/
theorem ass_slice_needs_exact_count (m : Memory) (cd : CData) (n : Nat) (hk : cd.kind = .array n)
    (hn : (n : Int) ≤ ssizeMax) (hin : InAlloc m cd n) (i j : Int) (h : 0 ≤ i ∧ i ≤ j ∧ j ≤ n)
    (vs : List Item) (hall : AllOk cd.isize.toNat vs) :
    ((assSlice m cd (.int i) (.int j) .none (.items vs)).2 = .ok () ↔ (vs.length : Int) = j - i) ∧
    ((vs.length : Int) ≠ j - i →
      (assSlice m cd (.int i) (.int j) .none (.items vs)).2 = .error .ValueError) := by
  obtain ⟨m', _, he⟩ := ass_slice_effect m cd n hk hn hin i j h vs hall
  rw [he]
  have hl : vs.length = (j - i).toNat ↔ (vs.length : Int) = j - i := by omega
  constructor
  · constructor
    · intro h1
      by_cases c : vs.length = (j - i).toNat
      · exact hl.mp c
      · simp only [c, if_false] at h1; cases h1
    · intro h1
      simp only [hl.mpr h1, if_true]
  · intro h1
    have c : ¬ vs.length = (j - i).toNat := fun c => h1 (hl.mp c)
    simp only [c, if_false]

/-- The first item that does not convert stops the assignment with its own error and
nothing is stored for it (items before it stay stored): case of a failing first item. -/
theorem ass_slice_first_item_fails (m : Memory) (cd : CData) (n : Nat) (hk : cd.kind = .array n)
    (hn : (n : Int) ≤ ssizeMax) (i j : Int) (h : 0 ≤ i ∧ i < j ∧ j ≤ n) (e : Err) (vs : List Item) :
    assSlice m cd (.int i) (.int j) .none (.items (.error e :: vs)) = (m, .error e) := by
  unfold assSlice
  gen_norm
  rw [slice_ok_value cd n hk hn i j (by omega)]
  obtain ⟨l, hl⟩ : ∃ l, (j - i).toNat = l + 1 := ⟨(j - i).toNat - 1, by omega⟩
  simp only [hl, assLoop, storeItem]

/-! ### pointer arithmetic -/

/-- `(p + i) - p == i` whenever `i * sizeof(T)` does not wrap a `Py_ssize_t`
(`p` a pointer or an array; the address itself may wrap). -/
theorem add_sub_inverse (p : CData)
    (hk : p.kind = .ptr ∨ p.kind = .ownptr ∨ ∃ n, p.kind = .array n)
    (hs : p.isize > 0) (ha : (p.addr : Int) < two64) (i : Int) (hi : fitsSsize i)
    (hnw : fitsSsize (i * p.isize)) :
    ∃ q, addInt p (.int i) 1 = .ok q ∧ q.kind = .ptr ∧ q.tid = p.tid ∧ ptrSub q p = .ok i := by
  have hns : ¬ p.isize < 0 := by omega
  have hq : addInt p (.int i) 1 =
      .ok { p with kind := .ptr, addr := wrapU (p.addr + i * p.isize) } := by
    unfold addInt
    gen_norm
    simp only [hi, not_true_eq_false, if_false, Int.mul_one, wrapS_of_fits i hi, hns]
    rcases hk with h | h | ⟨n, h⟩ <;> rw [h]
  refine ⟨_, hq, rfl, rfl, ?_⟩
  unfold ptrSub
  gen_norm
  have hw : p.kind.isPtrOrArray = true := by
    rcases hk with h | h | ⟨n, h⟩ <;> rw [h] <;> rfl
  simp only [Kind.isPtr, hw, and_self, not_true_eq_false, if_false]
  have c2 : ¬ (p.isize ≤ 0 ∧ p.voidp = false) := by omega
  simp only [c2, if_false]
  rw [wrapS_wrapU_sub p.addr ha _ hnw]
  split
  · have hne : p.isize ≠ 0 := by omega
    have t1 : (i * p.isize).tmod p.isize = 0 := Int.mul_tmod_left i p.isize
    have t2 : (i * p.isize).tdiv p.isize = i := Int.mul_tdiv_cancel i hne
    simp only [t1, t2, ne_eq, not_true_eq_false, if_false]
  · have : p.isize = 1 := by omega
    rw [this, Int.mul_one]

/-- `(p + i)[j]` aliases `p[i + j]`: whenever both are accepted they are the same address. -/
theorem add_index_assoc (p : CData) (hk : p.kind = .ptr) (hs : 0 ≤ p.isize) (i j : Int)
    (hi : fitsSsize i) (q : CData) (hq : addInt p (.int i) 1 = .ok q) (a b : Nat)
    (ha : indexedPtr q (.int j) = .ok a) (hb : indexedPtr p (.int (i + j)) = .ok b) : a = b := by
  have hns : ¬ p.isize < 0 := by omega
  unfold addInt at hq
  gen_norm at hq
  simp only [hi, not_true_eq_false, if_false, Int.mul_one, wrapS_of_fits i hi, hns, hk] at hq
  injection hq with hq
  subst hq
  obtain ⟨j', hj', _, ea⟩ := index_addr _ _ a ha
  obtain ⟨k', hk', _, eb⟩ := index_addr _ _ b hb
  injection hj' with hj'; subst hj'
  injection hk' with hk'; subst hk'
  rw [ea, eb]
  simp only
  have := wrapU_add_mul_assoc p.addr p.isize i j
  rw [Int.mul_comm p.isize i] at this
  exact this

/-- `p[i]` lives `i * sizeof(T)` bytes past `p` (modulo 2^64) … -/
theorem index_addr (cd : CData) (key : PyArg) (a : Nat) (h : indexedPtr cd key = .ok a) :
    ∃ i, key = .int i ∧ fitsSsize i ∧ a = wrapU (cd.addr + i * cd.isize) :=
  Index.index_addr cd key a h

/-- … exactly, for an array that lies inside the address space. -/
theorem index_addr_exact (cd : CData) (n : Nat) (hk : cd.kind = .array n) (hs : 0 < cd.isize)
    (hfit : (cd.addr : Int) + n * cd.isize ≤ two64) (i : Int) (a : Nat)
    (h : indexedPtr cd (.int i) = .ok a) : (a : Int) = cd.addr + i * cd.isize := by
  obtain ⟨i', hi', _, ha⟩ := Index.index_addr cd _ a h
  injection hi' with hi'; subst hi'
  have hb : 0 ≤ i ∧ i < n := by
    unfold indexedPtr at h
    gen_norm at h
    simp only [hk] at h
    split at h
    · cases h
    · split at h
      · cases h
      · split at h
        · cases h
        · omega
  have m1 : i * cd.isize ≤ (n - 1) * cd.isize :=
    Int.mul_le_mul_of_nonneg_right (by omega) (by omega)
  have m0 : 0 ≤ i * cd.isize := Int.mul_nonneg hb.1 (by omega)
  have e : ((n : Int) - 1) * cd.isize = n * cd.isize - cd.isize := by
    rw [Int.sub_mul, Int.one_mul]
  rw [ha]
  revert m1 m0 hfit
  rw [e]
  generalize i * cd.isize = P
  generalize (n : Int) * cd.isize = Q
  unfold wrapU two64
  intro _ _ _
  omega

/-! ### addressof / offsetof -/

/-- `ffi.offsetof('T[]', i) == i * sizeof(T)` for every item size `≥ 0` (zero-sized items
included), accepted exactly when `i` and the product fit a `Py_ssize_t`. -/
theorem offsetof_eq_mul (isize : Int) (hs : isize ≥ 0) (hs2 : fitsSsize isize)
    (i : Int) (off : Int) :
    offsetof isize (.int i) = .ok off ↔ (fitsSsize i ∧ fitsSsize (i * isize) ∧ off = i * isize) := by
  simp only [offsetof, typeOffsetof]
  gen_norm
  have c1 : ¬ (true = false ∨ isize < 0) := by simp; omega
  by_cases hf : fitsSsize i
  · simp only [hf, not_true_eq_false, if_false, c1, ne_eq, true_and]
    by_cases hz : isize = 0
    · subst hz
      have hfit : fitsSsize (i * 0) := by
        rw [Int.mul_zero]; unfold fitsSsize ssizeMin ssizeMax; omega
      simp only [not_true_eq_false, false_and, if_false, hfit, true_and, wrapS_of_fits _ hfit]
      constructor
      · intro h; injection h with h; exact h.symm
      · intro h; rw [h]
    · have hpos : isize > 0 := by omega
      have key := mulwrap_check i isize hpos hs2
      by_cases hc : (wrapS (i * isize)).tdiv isize = i
      · have hfit := key.mp hc
        have hc' : (i * isize).tdiv isize = i := Int.mul_tdiv_cancel i hz
        simp only [wrapS_of_fits _ hfit, hc', not_true_eq_false, and_false, if_false, hfit, true_and]
        constructor
        · intro h; injection h with h; exact h.symm
        · intro h; rw [h]
      · have hfit : ¬ fitsSsize (i * isize) := fun h => hc (key.mpr h)
        simp only [hz, hc, not_false_eq_true, and_self, if_true, hfit, false_and, iff_false]
        intro h; cases h
  · simp only [hf, not_false_eq_true, if_true, false_and, iff_false]
    intro h; cases h

/-- The OverflowError of `offsetof` is raised exactly when the product does not fit
(never for zero-sized items). -/
theorem offsetof_overflow_iff (isize : Int) (hs : isize ≥ 0) (hs2 : fitsSsize isize) (i : Int)
    (hi : fitsSsize i) :
    offsetof isize (.int i) = .error .OverflowError ↔ ¬ fitsSsize (i * isize) := by
  constructor
  · intro h hfit
    have := (offsetof_eq_mul isize hs hs2 i (i * isize)).mpr ⟨hi, hfit, rfl⟩
    rw [h] at this
    cases this
  · intro hfit
    simp only [offsetof, typeOffsetof]
    gen_norm
    have c1 : ¬ (true = false ∨ isize < 0) := by simp; omega
    simp only [hi, not_true_eq_false, if_false, c1, ne_eq]
    have hz : ¬ isize = 0 := by
      intro hz; subst hz
      apply hfit
      rw [Int.mul_zero]; unfold fitsSsize ssizeMin ssizeMax; omega
    have hc : ¬ (wrapS (i * isize)).tdiv isize = i :=
      fun hc => hfit ((mulwrap_check i isize (by omega) hs2).mp hc)
    simp only [hz, hc, not_false_eq_true, and_self, if_true]

/-- Zero-sized items (`ffi.offsetof("int[][0]", i)`): offset 0 for every index that is a
`Py_ssize_t`, no overflow, no division. -/
theorem offsetof_zero_size_item (i : Int) (hi : fitsSsize i) : offsetof 0 (.int i) = .ok 0 := by
  have hz : fitsSsize (0 : Int) := by unfold fitsSsize ssizeMin ssizeMax; omega
  exact (offsetof_eq_mul 0 (by omega) hz i 0).mpr
    ⟨hi, by rw [Int.mul_zero]; exact hz, by rw [Int.mul_zero]⟩

/-- `ffi.addressof(x, i) == x + i` whenever `addressof` accepts `i`
(same pointer type, same address). -/
theorem addressof_eq_add (cd : CData) (hs : cd.isize ≥ 0) (hs2 : fitsSsize cd.isize) (i : Int)
    (q : CData) (h : addressof cd (.int i) = .ok q) : addInt cd (.int i) 1 = .ok q := by
  unfold addressof at h
  split at h
  · cases h
  · rename_i off hoff
    injection h with h
    have hk : cd.kind.isPtrOrArray = true := by
      cases hkk : cd.kind.isPtrOrArray
      · rw [hkk] at hoff
        unfold typeOffsetof at hoff
        split at hoff
        · cases hoff
        · cases hoff
        · split at hoff
          · cases hoff
          · simp at hoff
      · rfl
    rw [hk] at hoff
    obtain ⟨f1, f2, f3⟩ := (offsetof_eq_mul cd.isize hs hs2 i off).mp hoff
    unfold addInt
    gen_norm
    have hns : ¬ cd.isize < 0 := by omega
    simp only [f1, not_true_eq_false, if_false, Int.mul_one, wrapS_of_fits i f1, hns]
    rw [← h, f3]
    cases hkind : cd.kind with
    | other => rw [hkind] at hk; cases hk
    | array n => rfl
    | ptr => rfl
    | ownptr => rfl

/-- `addressof(x, i)` is accepted for an array or pointer exactly when `i` and
`i * sizeof(T)` fit (it does no bounds check on arrays). -/
theorem addressof_ok_iff (cd : CData) (hk : cd.kind.isPtrOrArray = true) (hs : cd.isize ≥ 0)
    (hs2 : fitsSsize cd.isize) (i : Int) :
    (∃ q, addressof cd (.int i) = .ok q) ↔ (fitsSsize i ∧ fitsSsize (i * cd.isize)) := by
  unfold addressof
  rw [hk]
  constructor
  · intro ⟨q, h⟩
    split at h
    · cases h
    · rename_i off hoff
      have := (offsetof_eq_mul cd.isize hs hs2 i off).mp hoff
      exact ⟨this.1, this.2.1⟩
  · intro ⟨h1, h2⟩
    have := (offsetof_eq_mul cd.isize hs hs2 i (i * cd.isize)).mpr ⟨h1, h2, rfl⟩
    unfold offsetof at this
    rw [this]
    exact ⟨_, rfl⟩

/-! ### non-vacuity: a concrete `int32_t[5]` at address 4096 inside a 20-byte allocation -/

def exArr : CData :=
  { kind := .array 5, addr := 4096, isize := 4, tid := 1, isChar := false, voidp := false }
def exMem : Memory :=
  { base := 4096, bytes := [1, 0, 0, 0, 2, 0, 0, 0, 3, 0, 0, 0, 4, 0, 0, 0, 5, 0, 0, 0] }
def exItems : List Item := [.ok [9, 9, 9, 9], .ok [8, 8, 8, 8]]

example : exArr.kind = .array 5 := rfl
example : ((5 : Nat) : Int) ≤ ssizeMax := by decide
example : InAlloc exMem exArr 5 := by unfold InAlloc exMem exArr two64; decide
example : AllOk exArr.isize.toNat exItems := by
  intro v hv
  simp only [exItems, List.mem_cons, List.not_mem_nil, or_false] at hv
  rcases hv with rfl | rfl
  · exact ⟨_, rfl, rfl⟩
  · exact ⟨_, rfl, rfl⟩
example : getitem exMem exArr (.int 2) = .ok [3, 0, 0, 0] := by decide
example : getitem exMem exArr (.int 5) = .error .IndexError := by decide
example : (assSlice exMem exArr (.int 1) (.int 3) .none (.items exItems)).2 = .ok () := by decide
example : (assSlice exMem exArr (.int 1) (.int 4) .none (.items exItems)) =
    ({ exMem with bytes := [1, 0, 0, 0, 9, 9, 9, 9, 8, 8, 8, 8, 4, 0, 0, 0, 5, 0, 0, 0] },
     .error .ValueError) := by decide
example : fitsSsize (3 * exArr.isize) := by unfold fitsSsize ssizeMin ssizeMax exArr; decide
example : ∃ q, addInt exArr (.int 3) 1 = .ok q ∧ ptrSub q exArr = .ok 3 := by
  obtain ⟨q, h1, _, _, h2⟩ := add_sub_inverse exArr (Or.inr (Or.inr ⟨5, rfl⟩)) (by decide)
    (by unfold exArr two64; decide) 3 (by unfold fitsSsize ssizeMin ssizeMax; decide)
    (by unfold fitsSsize ssizeMin ssizeMax exArr; decide)
  exact ⟨q, h1, h2⟩
example : offsetof 4 (.int 7) = .ok 28 := by decide
example : offsetof 4 (.int 2305843009213693952) = .error .OverflowError := by decide
example : addressof exArr (.int 7) = addInt exArr (.int 7) 1 := by decide
example : offsetof 0 (.int 4611686018427387904) = .ok 0 := by decide

end CffiVerif.C16
