import CffiVerif.Model.Index
namespace CffiVerif.C16
open CffiVerif.Index
theorem stub : wrapU 0 = 0 := by decide
end CffiVerif.C16
