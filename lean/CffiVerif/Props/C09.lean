import CffiVerif.Model.ConstExprProto   -- not used by the theorems: keeps the driver's imports fresh when Generated/ changes
import CffiVerif.Proofs.ConstExpr
import CffiVerif.Proofs.DefineConst
import CffiVerif.Proofs.ConstExprNoWrap

/-!
C09 — integer constant expressions in a cdef evaluate as C evaluates them.

`ConstExpr.eval` is the model of `Parser._parse_constant` (unbounded Python integers, token
texts as pycparser delivers them); `CConstExpr.eval` is C11's typed evaluation on LP64.

Full-strength statement (kept here, it is **false** on the unchanged tree):

    ∀ e t v, CConstExpr.eval cenv e = some (t, v) → ConstExpr.eval penv e.toModel = .ok v

It fails as soon as an operand or intermediate result has an *unsigned* C type and the
arithmetic wraps (`1u - 2` is 4294967295 in C, -1 in cffi): `unrestricted_statement_false`.
What is proved for expression trees of any depth is the statement restricted to trees in which
every operand and intermediate result has a signed type: `eval_agrees_partial`.
-/
namespace CffiVerif.C09
open CffiVerif.ConstExpr CffiVerif.CConstExpr

/-- `_c_div` is C's truncating division. -/
theorem c_div_is_tdiv (a b : Int) (hb : b ≠ 0) : cDiv a b = .ok (a.tdiv b) :=
  cDiv_eq_tdiv a b hb

/-- The same, stated on the definition translated from `Parser._c_div` on this run. -/
theorem gen_c_div_is_tdiv (a b : Int) (hb : b ≠ 0) :
    CffiVerif.Generated.ConstExprPy.c_div a b = .ok (a.tdiv b) :=
  ConstExpr.gen_c_div_is_tdiv a b hb

/-- The operator dispatch translated from `_parse_constant` on this run: each of the ten operator
strings selects the modelled Python operator (with the `right < 0` guard on shifts and the `%`
rule `left - _c_div(left, right) * right`), any other string reaches `raise FFIError`. -/
theorem gen_dispatch_is_modelled (op : BinOp) (l r : Int) :
    CffiVerif.Generated.ConstExprPy.parse_constant_binop l r op.symbol = applyBinSpec op l r ∧
    (∀ s : String, s ∉ ["+", "-", "*", "/", "%", "<<", ">>", "&", "|", "^"] →
      CffiVerif.Generated.ConstExprPy.parse_constant_binop l r s = .error .ffi) :=
  ⟨applyBin_def op l r, fun s h => other_operator_is_ffi l r s h⟩

/-- The literal rules extracted from the `Constant` block on this run are the modelled ones
(digit test, rstrip characters, leading-0 octal, 0x / 0b fall-backs failing with `CDefError`,
`_SIMPLE_ESCAPES`): the evaluator built on them has the closed form the other theorems use. -/
theorem gen_literal_rules_are_modelled (tok : List Char) (c : Char) :
    parseConst tok = parseConstSpec tok ∧ simpleEscape c = simpleEscapeSpec c ∧
    isSuffixChar c = (c == 'u' || c == 'U' || c == 'l' || c == 'L') :=
  ⟨parseConst_def tok, simpleEscape_def c, isSuffixChar_def c⟩

/-- `left - _c_div(left, right) * right` is C's remainder (sign of the dividend). -/
theorem c_mod_is_tmod (a b : Int) (hb : b ≠ 0) : applyBin .mod a b = .ok (a.tmod b) :=
  cMod_eq_tmod a b hb

/-- Error branch: division and remainder by zero raise `CDefError`. -/
theorem c_div_by_zero (a : Int) : cDiv a 0 = .error .cdef ∧ applyBin .mod a 0 = .error .cdef := by
  simp [cDiv_def, cDivSpec, applyBin_def, applyBinSpec, bind, Except.bind]

/-- Error branch: a negative shift count raises `CDefError` (both directions). -/
theorem shift_negative_count (a b : Int) (hb : b < 0) :
    applyBin .shl a b = .error .cdef ∧ applyBin .shr a b = .error .cdef := by
  simp [applyBin_def, applyBinSpec, hb]

/-- Error branch: a left shift by more than `shiftBound` (4096) bits is not materialised: the model
answers `overflow` (CPython: OverflowError / MemoryError) without building `2 ^ count`.  No other
theorem is affected: where C defines a shift the count is below 64. -/
theorem huge_left_shift (a b : Int) (hb : b > shiftBound) : applyBin .shl a b = .error .overflow := by
  have h0 : ¬ b < 0 := by unfold shiftBound at hb; omega
  simp [applyBin_def, applyBinSpec, h0, hb]

/-- Error branch: nodes outside the grammar and unknown names raise `FFIError`. -/
theorem unsupported_is_ffi_error (env : ConstExpr.Env) (n : String) (h : env n = none) :
    ConstExpr.eval env .unsupported = .error .ffi ∧ ConstExpr.eval env (.ref n) = .error .ffi := by
  simp [ConstExpr.eval, h]

/-- Error branch: a binary operator outside the ten (`<`, `==`, `&&`, `||` …) raises `FFIError`
only after both operands were evaluated -- an error inside an operand wins. -/
theorem other_binary_operator (env : ConstExpr.Env) (l r : Expr) :
    (∀ a b, ConstExpr.eval env l = .ok a → ConstExpr.eval env r = .ok b →
      ConstExpr.eval env (.binOther l r) = .error .ffi) ∧
    (∀ e, ConstExpr.eval env l = .error e → ConstExpr.eval env (.binOther l r) = .error e) ∧
    (∀ a e, ConstExpr.eval env l = .ok a → ConstExpr.eval env r = .error e →
      ConstExpr.eval env (.binOther l r) = .error e) := by
  refine ⟨?_, ?_, ?_⟩
  · intro a b h1 h2; simp [ConstExpr.eval, h1, h2, bind, Except.bind]
  · intro e h1; simp [ConstExpr.eval, h1, bind, Except.bind]
  · intro a e h1 h2; simp [ConstExpr.eval, h1, h2, bind, Except.bind]

/-- Every well-formed C integer literal (decimal, octal, hex, binary; any valid `u`/`l`/`ll`
suffix; any magnitude) is read by cffi to its mathematical value: `rstrip('uUlL')`, the
leading-`0` octal rule and the `0x`/`0b` fall-backs lose nothing. -/
theorem literal_agrees (l : IntLit) (n : Nat) (h : l.value? = some n) :
    ConstExpr.eval penv (CExpr.int l).toModel = .ok (n : Int) := by
  simp only [CExpr.toModel, ConstExpr.eval]
  exact parseConst_render l n h

/-- `#define NAME literal` and `static const T NAME = literal;` (both go through `_r_int_literal`
and `_add_integer_constant`): every well-formed decimal, octal or hexadecimal C literal, with any
valid suffix and an optional leading `-`, is accepted and bound to its C value.  (Binary
literals, a GNU extension, match the regular expression but are then rejected: `CDefError`.) -/
theorem define_literal_agrees (l : IntLit) (n : Nat) (h : l.value? = some n) (hbin : l.base ≠ .bin) :
    literalConstant l.render = some (.ok (n : Int)) ∧
    literalConstant ('-' :: l.render) = some (.ok (-(n : Int))) := by
  have hm := matchIntLiteral_render l n h hbin
  have ha := addIntegerConstant_render l n h hbin
  simp [literalConstant, hm.1, hm.2, ha.1, ha.2]

/-- Plain and simply-escaped character constants have their C value. -/
theorem char_agrees (c : Char) (t : CType) (v : Int) :
    (plainChar c = some (t, v) → parseConst ['\'', c, '\''] = .ok v) ∧
    (escapeChar c = some (t, v) → parseConst ['\'', '\\', c, '\''] = .ok v) :=
  char_agrees_aux c t v

/-- **C09, restricted to signed-typed operands.**  For every expression tree (any depth) over the
property's grammar in which every operand and intermediate result has a signed C type: if C
defines the value, cffi accepts the expression and computes exactly that value.
(The unrestricted statement is false: `unrestricted_statement_false`.) -/
theorem eval_agrees_partial (cenv : CConstExpr.Env) (penv : ConstExpr.Env)
    (hag : EnvAgree cenv penv) (hok : EnvOk cenv) (e : CExpr)
    (hs : allSigned cenv e = true) (t : CType) (v : Int)
    (h : CConstExpr.eval cenv e = some (t, v)) :
    ConstExpr.eval penv e.toModel = .ok v :=
  (eval_agrees_aux cenv penv hag hok e hs t v h).1

/-- **C09 for every expression without wrap-around** (stronger than `eval_agrees_partial`:
unsigned operands are allowed).  If at every operator node the usual arithmetic conversions
preserve the operand values and the mathematical result is representable in the result type
(`noWrap`), then whenever C defines the value cffi computes exactly that value.  So cffi and
C can differ only where an unsigned operation wraps around or a negative value is converted
to an unsigned type -- the known finding C09/unsigned-typed-operand. -/
theorem eval_agrees_nowrap (cenv : CConstExpr.Env) (penv : ConstExpr.Env)
    (hag : EnvAgree cenv penv) (e : CExpr) (hn : noWrap cenv e = true) (t : CType) (v : Int)
    (h : CConstExpr.eval cenv e = some (t, v)) :
    ConstExpr.eval penv e.toModel = .ok v :=
  eval_agrees_nowrap_aux cenv penv hag e hn t v h

/-- Every value C's typed evaluation yields is representable in its type (sanity of the
specification: unsigned results are reduced, signed overflow is `none`). -/
theorem spec_value_in_range (cenv : CConstExpr.Env) (hok : EnvOk cenv) (e : CExpr) (t : CType) (v : Int)
    (h : CConstExpr.eval cenv e = some (t, v)) : t.inRange v = true :=
  eval_inRange cenv hok e t v h

/-- `1u - 2`. -/
def witness1 : CExpr :=
  .bin .sub (.int ⟨.dec, false, ['1'], ['u']⟩) (.int ⟨.dec, false, ['2'], []⟩)

/-- `0xFFFFFFFF + 1`. -/
def witness2 : CExpr :=
  .bin .add (.int ⟨.hex, false, ['F', 'F', 'F', 'F', 'F', 'F', 'F', 'F'], []⟩) (.int ⟨.dec, false, ['1'], []⟩)

theorem witness1_c : CConstExpr.eval CConstExpr.Env.empty witness1 = some (CType.uint, 4294967295) := by decide
theorem witness1_cffi : ConstExpr.eval ConstExpr.Env.empty witness1.toModel = .ok (-1) := by decide
theorem witness2_c : CConstExpr.eval CConstExpr.Env.empty witness2 = some (CType.uint, 0) := by decide
theorem witness2_cffi : ConstExpr.eval ConstExpr.Env.empty witness2.toModel = .ok 4294967296 := by decide

/-- **Known finding C09/unsigned-typed-operand**: the unrestricted statement does not hold. -/
theorem unrestricted_statement_false :
    ¬ (∀ (e : CExpr) (t : CType) (v : Int),
        CConstExpr.eval CConstExpr.Env.empty e = some (t, v) →
        ConstExpr.eval ConstExpr.Env.empty e.toModel = .ok v) := by
  intro h
  have h1 := h witness1 _ _ witness1_c
  rw [witness1_cffi] at h1
  revert h1
  decide

/-- The witnesses are outside `noWrap`, as they must be. -/
theorem witnesses_wrap :
    noWrap CConstExpr.Env.empty witness1 = false ∧ noWrap CConstExpr.Env.empty witness2 = false := by decide

-- Non-vacuity of `eval_agrees_nowrap`: `(0x80000000 + 1u) * 2 / 3u | 0xF0u` has unsigned operands throughout,
-- does not wrap, and is 1431655926 in C and in cffi.
def exUnsigned : CExpr :=
  .bin .bor
    (.bin .div (.bin .mul (.bin .add (.int ⟨.hex, false, ['8', '0', '0', '0', '0', '0', '0', '0'], []⟩)
                                     (.int ⟨.dec, false, ['1'], ['u']⟩))
                          (.int ⟨.dec, false, ['2'], ['L']⟩))
               (.int ⟨.dec, false, ['3'], ['u']⟩))
    (.int ⟨.hex, false, ['F', '0'], ['u']⟩)

example : noWrap CConstExpr.Env.empty exUnsigned = true := by decide
example : allSigned CConstExpr.Env.empty exUnsigned = false := by decide
example : CConstExpr.eval CConstExpr.Env.empty exUnsigned = some (CType.long, 1431655926) := by decide
example : ConstExpr.eval ConstExpr.Env.empty exUnsigned.toModel = .ok 1431655926 :=
  eval_agrees_nowrap CConstExpr.Env.empty ConstExpr.Env.empty
    (by intro n t v h; change none = some (t, v) at h; cases h) exUnsigned (by decide) CType.long _ (by decide)

-- Non-vacuity of `eval_agrees_partial`: `-7 / 2 + (0x10 << 3) % 'a'` is all-signed, defined in C
-- (value -3 + 128 % 97 = 28) and uses literals of three bases, a character constant and four operators.
def exExpr : CExpr :=
  .bin .add
    (.bin .div (.neg (.int ⟨.dec, false, ['7'], []⟩)) (.int ⟨.dec, false, ['2'], ['L']⟩))
    (.bin .mod (.bin .shl (.int ⟨.hex, false, ['1', '0'], []⟩) (.int ⟨.oct, false, ['3'], []⟩)) (.chr 'a'))

example : allSigned CConstExpr.Env.empty exExpr = true := by decide
example : CConstExpr.eval CConstExpr.Env.empty exExpr = some (CType.long, 28) := by decide
example : EnvAgree CConstExpr.Env.empty ConstExpr.Env.empty := by intro n t v h; change none = some (t, v) at h; cases h
example : EnvOk CConstExpr.Env.empty := by intro n t v h; change none = some (t, v) at h; cases h
example : ConstExpr.eval ConstExpr.Env.empty exExpr.toModel = .ok 28 :=
  eval_agrees_partial CConstExpr.Env.empty ConstExpr.Env.empty (by intro n t v h; change none = some (t, v) at h; cases h)
    (by intro n t v h; change none = some (t, v) at h; cases h) exExpr (by decide) CType.long _ (by decide)
-- `define_literal_agrees`: `#define N 0X1FuL` binds 31, `#define N -0X1FuL` binds -31; a binary literal is refused
example : literalConstant "0X1FuL".toList = some (.ok 31) ∧ literalConstant "-0X1FuL".toList = some (.ok (-31)) :=
  define_literal_agrees ⟨.hex, true, ['1', 'F'], ['u', 'L']⟩ 31 (by decide) (by decide)
example : literalConstant ['0', 'b', '1', '0', '1'] = some (.error .cdef) := by decide
-- the hypotheses of `c_div_is_tdiv`: negative dividend, the rounding that differs from Python's `//`
example : cDiv (-7) 2 = .ok (-3) := c_div_is_tdiv (-7) 2 (by decide)
example : applyBin .mod (-7) 2 = .ok (-1) := c_mod_is_tmod (-7) 2 (by decide)

end CffiVerif.C09
