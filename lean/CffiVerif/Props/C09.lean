import CffiVerif.Proofs.ConstExpr

/-!
C09 — integer constant expressions in a cdef evaluate as C evaluates them.

`ConstExpr.eval` is the model of `Parser._parse_constant` (unbounded Python integers, token
texts as pycparser delivers them); `CConstExpr.eval` is C11's typed evaluation on LP64.

Full-strength statement (kept here, it is **false** on the unchanged tree):

    ∀ e t v, CConstExpr.eval cenv e = some (t, v) → ConstExpr.eval penv e.toModel = .ok v

It fails as soon as an operand or intermediate result has an *unsigned* C type and the
arithmetic wraps (`1u - 2` is 4294967295 in C, -1 in cffi): `unrestricted_statement_false`.
What is proved for expression trees of any depth is the statement restricted to trees in which
every operand and intermediate result has a signed type: `eval_agrees_partial`.
-/
namespace CffiVerif.C09
open CffiVerif.ConstExpr CffiVerif.CConstExpr

/-- `_c_div` is C's truncating division. -/
theorem c_div_is_tdiv (a b : Int) (hb : b ≠ 0) : cDiv a b = .ok (a.tdiv b) :=
  cDiv_eq_tdiv a b hb

/-- `left - _c_div(left, right) * right` is C's remainder (sign of the dividend). -/
theorem c_mod_is_tmod (a b : Int) (hb : b ≠ 0) : applyBin .mod a b = .ok (a.tmod b) :=
  cMod_eq_tmod a b hb

/-- Error branch: division and remainder by zero raise `CDefError`. -/
theorem c_div_by_zero (a : Int) : cDiv a 0 = .error .cdef ∧ applyBin .mod a 0 = .error .cdef := by
  simp [cDiv, applyBin, bind, Except.bind]

/-- Error branch: a negative shift count raises `CDefError` (both directions). -/
theorem shift_negative_count (a b : Int) (hb : b < 0) :
    applyBin .shl a b = .error .cdef ∧ applyBin .shr a b = .error .cdef := by
  simp [applyBin, hb]

/-- Error branch: nodes outside the grammar and unknown names raise `FFIError`. -/
theorem unsupported_is_ffi_error (env : ConstExpr.Env) (n : String) (h : env n = none) :
    ConstExpr.eval env .unsupported = .error .ffi ∧ ConstExpr.eval env (.ref n) = .error .ffi := by
  simp [ConstExpr.eval, h]

/-- Every well-formed C integer literal (decimal, octal, hex, binary; any valid `u`/`l`/`ll`
suffix; any magnitude) is read by cffi to its mathematical value: `rstrip('uUlL')`, the
leading-`0` octal rule and the `0x`/`0b` fall-backs lose nothing. -/
theorem literal_agrees (l : IntLit) (n : Nat) (h : l.value? = some n) :
    ConstExpr.eval penv (CExpr.int l).toModel = .ok (n : Int) := by
  simp only [CExpr.toModel, ConstExpr.eval]
  exact parseConst_render l n h

/-- Plain and simply-escaped character constants have their C value. -/
theorem char_agrees (c : Char) (t : CType) (v : Int) :
    (plainChar c = some (t, v) → parseConst ['\'', c, '\''] = .ok v) ∧
    (escapeChar c = some (t, v) → parseConst ['\'', '\\', c, '\''] = .ok v) := by
  constructor
  · intro h
    unfold plainChar at h
    split at h
    · simp only [Option.some.injEq, Prod.mk.injEq] at h
      obtain ⟨_, rfl⟩ := h
      simp [parseConst]
    · cases h
  · intro h
    rw [escape_eq] at h
    cases hse : simpleEscape c with
    | none => simp [hse] at h
    | some n =>
      simp only [hse] at h
      obtain ⟨_, rfl⟩ := h
      simp [parseConst, hse]

/-- cffi's table of names agrees with C's scope on the names C knows. -/
def EnvAgree (cenv : CConstExpr.Env) (penv : ConstExpr.Env) : Prop :=
  ∀ n t v, cenv n = some (t, v) → penv n = some v

/-- Values bound in C's scope are representable in their types. -/
def EnvOk (cenv : CConstExpr.Env) : Prop :=
  ∀ n t v, cenv n = some (t, v) → t.inRange v = true

theorem eval_agrees_aux (cenv : CConstExpr.Env) (penv : ConstExpr.Env)
    (hag : EnvAgree cenv penv) (hok : EnvOk cenv) (e : CExpr) :
    allSigned cenv e = true → ∀ t v, CConstExpr.eval cenv e = some (t, v) →
      ConstExpr.eval penv e.toModel = .ok v ∧ t.signed = true ∧ t.inRange v = true := by
  induction e with
  | int l =>
    intro hs t v h
    have hsg : t.signed = true := by simpa [allSigned, sgn, h] using hs
    simp only [CConstExpr.eval] at h
    obtain ⟨n, hv, rfl, hr⟩ := typed_some h
    exact ⟨literal_agrees l n hv, hsg, hr⟩
  | chr c =>
    intro hs t v h
    have hsg : t.signed = true := by simpa [allSigned, sgn, h] using hs
    simp only [CConstExpr.eval] at h
    refine ⟨(char_agrees c t v).1 h, hsg, ?_⟩
    unfold plainChar at h
    split at h
    · simp only [Option.some.injEq, Prod.mk.injEq] at h
      obtain ⟨rfl, rfl⟩ := h
      simp [CType.inRange, CType.minVal, CType.maxVal, CType.int, CType.width]; omega
    · cases h
  | esc c =>
    intro hs t v h
    have hsg : t.signed = true := by simpa [allSigned, sgn, h] using hs
    simp only [CConstExpr.eval] at h
    refine ⟨(char_agrees c t v).2 h, hsg, ?_⟩
    rw [escape_eq] at h
    cases hse : simpleEscape c with
    | none => simp [hse] at h
    | some n =>
      simp only [hse] at h
      obtain ⟨rfl, rfl⟩ := h
      have := simpleEscape_le c n hse
      simp [CType.inRange, CType.minVal, CType.maxVal, CType.int, CType.width]; omega
  | pos e ih =>
    intro hs t v h
    simp only [allSigned, Bool.and_eq_true] at hs
    simp only [CConstExpr.eval] at h
    exact ih hs.1 t v h
  | neg e ih =>
    intro hs t v h
    simp only [allSigned, Bool.and_eq_true] at hs
    simp only [CConstExpr.eval] at h
    cases he : CConstExpr.eval cenv e with
    | none => simp [he] at h
    | some x =>
      obtain ⟨t1, v1⟩ := x
      simp only [he] at h
      obtain ⟨hm, hs1, _⟩ := ih hs.1 t1 v1 he
      obtain ⟨rfl, rfl, hr⟩ := arith_signed' hs1 h
      refine ⟨?_, hs1, hr⟩
      simp [CExpr.toModel, ConstExpr.eval, hm, bind, Except.bind, pure, Except.pure]
  | ref n =>
    intro hs t v h
    have hsg : t.signed = true := by simpa [allSigned, sgn, h] using hs
    simp only [CConstExpr.eval] at h
    refine ⟨?_, hsg, hok n t v h⟩
    simp [CExpr.toModel, ConstExpr.eval, hag n t v h]
  | bin op l r ihl ihr =>
    intro hs t v h
    simp only [allSigned, Bool.and_eq_true] at hs
    simp only [CConstExpr.eval] at h
    cases hl : CConstExpr.eval cenv l with
    | none => simp [hl] at h
    | some x =>
      cases hr : CConstExpr.eval cenv r with
      | none => simp [hl, hr] at h
      | some y =>
        obtain ⟨t1, v1⟩ := x
        obtain ⟨t2, v2⟩ := y
        simp only [hl, hr] at h
        obtain ⟨m1, s1, r1⟩ := ihl hs.1.1 t1 v1 hl
        obtain ⟨m2, s2, r2⟩ := ihr hs.1.2 t2 v2 hr
        have hb := binop_agrees op s1 s2 r1 r2 h
        have hsr := binop_signed_inRange op s1 s2 h
        refine ⟨?_, hsr.1, hsr.2⟩
        simp [CExpr.toModel, ConstExpr.eval, m1, m2, bind, Except.bind, hb]

/-- **C09, restricted to signed-typed operands.**  For every expression tree (any depth) over the
property's grammar in which every operand and intermediate result has a signed C type: if C
defines the value, cffi accepts the expression and computes exactly that value.
(The unrestricted statement is false: `unrestricted_statement_false`.) -/
theorem eval_agrees_partial (cenv : CConstExpr.Env) (penv : ConstExpr.Env)
    (hag : EnvAgree cenv penv) (hok : EnvOk cenv) (e : CExpr)
    (hs : allSigned cenv e = true) (t : CType) (v : Int)
    (h : CConstExpr.eval cenv e = some (t, v)) :
    ConstExpr.eval penv e.toModel = .ok v :=
  (eval_agrees_aux cenv penv hag hok e hs t v h).1

/-- `1u - 2`. -/
def witness1 : CExpr :=
  .bin .sub (.int ⟨.dec, false, ['1'], ['u']⟩) (.int ⟨.dec, false, ['2'], []⟩)

/-- `0xFFFFFFFF + 1`. -/
def witness2 : CExpr :=
  .bin .add (.int ⟨.hex, false, ['F', 'F', 'F', 'F', 'F', 'F', 'F', 'F'], []⟩) (.int ⟨.dec, false, ['1'], []⟩)

theorem witness1_c : CConstExpr.eval CConstExpr.Env.empty witness1 = some (CType.uint, 4294967295) := by decide
theorem witness1_cffi : ConstExpr.eval ConstExpr.Env.empty witness1.toModel = .ok (-1) := by decide
theorem witness2_c : CConstExpr.eval CConstExpr.Env.empty witness2 = some (CType.uint, 0) := by decide
theorem witness2_cffi : ConstExpr.eval ConstExpr.Env.empty witness2.toModel = .ok 4294967296 := by decide

/-- **Known finding C09/unsigned-typed-operand**: the unrestricted statement does not hold. -/
theorem unrestricted_statement_false :
    ¬ (∀ (e : CExpr) (t : CType) (v : Int),
        CConstExpr.eval CConstExpr.Env.empty e = some (t, v) →
        ConstExpr.eval ConstExpr.Env.empty e.toModel = .ok v) := by
  intro h
  have h1 := h witness1 _ _ witness1_c
  rw [witness1_cffi] at h1
  revert h1
  decide

-- Non-vacuity of `eval_agrees_partial`: `-7 / 2 + (0x10 << 3) % 'a'` is all-signed, defined in C
-- (value -3 + 128 % 97 = 28) and uses literals of three bases, a character constant and four operators.
def exExpr : CExpr :=
  .bin .add
    (.bin .div (.neg (.int ⟨.dec, false, ['7'], []⟩)) (.int ⟨.dec, false, ['2'], ['L']⟩))
    (.bin .mod (.bin .shl (.int ⟨.hex, false, ['1', '0'], []⟩) (.int ⟨.oct, false, ['3'], []⟩)) (.chr 'a'))

example : allSigned CConstExpr.Env.empty exExpr = true := by decide
example : CConstExpr.eval CConstExpr.Env.empty exExpr = some (CType.long, 28) := by decide
example : EnvAgree CConstExpr.Env.empty ConstExpr.Env.empty := by intro n t v h; change none = some (t, v) at h; cases h
example : EnvOk CConstExpr.Env.empty := by intro n t v h; change none = some (t, v) at h; cases h
example : ConstExpr.eval ConstExpr.Env.empty exExpr.toModel = .ok 28 :=
  eval_agrees_partial CConstExpr.Env.empty ConstExpr.Env.empty (by intro n t v h; change none = some (t, v) at h; cases h)
    (by intro n t v h; change none = some (t, v) at h; cases h) exExpr (by decide) CType.long _ (by decide)
-- the hypotheses of `c_div_is_tdiv`: negative dividend, the rounding that differs from Python's `//`
example : cDiv (-7) 2 = .ok (-3) := c_div_is_tdiv (-7) 2 (by decide)
example : applyBin .mod (-7) 2 = .ok (-1) := c_mod_is_tmod (-7) 2 (by decide)

end CffiVerif.C09
