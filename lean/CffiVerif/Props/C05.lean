import CffiVerif.Proofs.FloatStore

/-!
C05 — floating-point and complex stores round-trip with C conversion semantics
(partial: the FPU is external).

What is proved: properties of the *specification* of the two C conversions
(`Ieee.narrow` = `(float)d`, `Ieee.widen` = `(double)f`, on bit patterns) and
of the model of cffi's store/read paths built on them.  That the hardware
computes `Ieee.narrow`/`Ieee.widen`, and that cffi's paths behave as the model,
is checked by running (`harness/corr_C05.py`), not proved.
-/
namespace CffiVerif.C05
open CffiVerif.Ieee CffiVerif.FloatStore

/-! ## the conversions -/

/-- A `float` read from memory (widened) and stored again (narrowed) is
bit-stable, for every non-NaN pattern of the 2^32. -/
theorem narrow_widen (b : UInt32) (h : ¬ isNaN b) : narrow (widen b) = b := by
  apply UInt32.toNat_inj.mp
  rw [narrow_toNat, widen_toNat, narrowNat_widenNat b.toNat b.toNat_lt]
  exact if_neg h

/-- A NaN stays a NaN (same sign, same low 22 payload bits, quiet bit set). -/
theorem narrow_widen_nan (b : UInt32) (h : isNaN b) :
    isNaN (narrow (widen b)) ∧
    (narrow (widen b)).toNat = sign32 b.toNat * 2 ^ 31 + (qnan32 + man32 b.toNat % 2 ^ 22) := by
  have e : (narrow (widen b)).toNat = sign32 b.toNat * 2 ^ 31 + (qnan32 + man32 b.toNat % 2 ^ 22) := by
    rw [narrow_toNat, widen_toNat, narrowNat_widenNat b.toNat b.toNat_lt]
    exact if_pos h
  refine ⟨?_, e⟩
  obtain ⟨hd, hs, hE, hf⟩ := decomp32 b.toNat b.toNat_lt
  unfold isNaN isNaN32
  rw [e]
  unfold exp32 man32 qnan32
  omega

/-- Widening is exact: the binary64 result has the same rational value. -/
theorem widen_exact (b : UInt32) (hfin : exp32 b.toNat ≠ 255) :
    value64 (widen b).toNat = value32 b.toNat ∧ (value32 b.toNat).isSome := by
  obtain ⟨h1, h2⟩ := scaled_widenNat b.toNat b.toNat_lt hfin
  rw [widen_toNat]
  unfold value64 value32
  rw [if_neg h1, if_neg hfin, h2]
  exact ⟨rfl, rfl⟩

/-- ±∞ widens to ±∞ and NaN to NaN. -/
theorem widen_preserves_class (b : UInt32) :
    sign64 (widen b).toNat = sign32 b.toNat ∧
    (isInf32 b.toNat → isInf64 (widen b).toNat) ∧
    (isNaN32 b.toNat → isNaN64 (widen b).toNat) := by
  obtain ⟨hd, hs, hE, hf⟩ := decomp32 b.toNat b.toNat_lt
  have hlt := widenMag_lt (exp32 b.toNat) (man32 b.toNat) hE hf
  rw [widen_toNat]
  refine ⟨?_, ?_, ?_⟩
  · unfold widenNat sign64; omega
  · intro ⟨h255, h0⟩
    unfold widenNat
    rw [h255, h0, widenMag_inf]
    obtain ⟨a, b', c⟩ := fields64 (sign32 b.toNat) 2047 0 hs (by omega) (by omega)
    exact ⟨b', c⟩
  · intro ⟨h255, h0⟩
    unfold widenNat
    rw [h255, widenMag_nan _ h0]
    obtain ⟨a, b', c⟩ := fields64 (sign32 b.toNat) 2047 (2 ^ 51 + man32 b.toNat % 2 ^ 22 * 2 ^ 29) hs
      (by omega) (by omega)
    exact ⟨b', by rw [c]; omega⟩

/-- Narrowing keeps the sign; ∞ stays ∞; the result is a NaN exactly when the
argument is (no finite value or ∞ becomes a NaN, no NaN becomes a number). -/
theorem narrow_preserves_class (x : UInt64) :
    sign32 (narrow x).toNat = sign64 x.toNat ∧
    (isInf64 x.toNat → isInf32 (narrow x).toNat) ∧
    (isNaN32 (narrow x).toNat ↔ isNaN64 x.toNat) := by
  obtain ⟨hd, hs, he, hm⟩ := decomp64 x.toNat x.toNat_lt
  have hlt := narrowMag_lt (exp64 x.toNat) (man64 x.toNat) he hm
  rw [narrow_toNat]
  refine ⟨?_, ?_, ?_⟩
  · unfold narrowNat sign32; omega
  · intro ⟨h2047, h0⟩
    unfold narrowNat
    rw [h2047, h0, narrowMag_inf]
    unfold isInf32 exp32 man32 inf32
    omega
  · unfold narrowNat
    constructor
    · intro ⟨hE, hf⟩
      by_cases hfin : exp64 x.toNat = 2047
      · refine ⟨hfin, ?_⟩
        intro h0
        rw [hfin, h0, narrowMag_inf] at hf
        unfold man32 inf32 at hf
        omega
      · have := narrowMag_finite_le (exp64 x.toNat) (man64 x.toNat) (by omega) hm
        unfold exp32 at hE
        unfold man32 at hf
        unfold inf32 at this
        omega
    · intro ⟨h2047, h0⟩
      rw [h2047, narrowMag_nan _ h0]
      unfold isNaN32 exp32 man32 qnan32
      omega

/-- Overflow goes to ∞ and underflow to zero: a finite binary64 at or beyond
2^128 narrows to ±∞, a binary64 zero or subnormal to ±0. -/
theorem narrow_overflow_underflow (x : UInt64) :
    (1151 ≤ exp64 x.toNat → exp64 x.toNat < 2047 → isInf32 (narrow x).toNat) ∧
    (exp64 x.toNat = 0 → (narrow x).toNat = sign64 x.toNat * 2 ^ 31) := by
  obtain ⟨hd, hs, he, hm⟩ := decomp64 x.toNat x.toNat_lt
  rw [narrow_toNat]
  unfold narrowNat
  constructor
  · intro h1 h2
    rw [narrowMag_normal _ _ (by omega) h2]
    have := rne29_bounds (man64 x.toNat) hm
    unfold isInf32 exp32 man32 inf32
    omega
  · intro h0
    rw [h0, narrowMag_zero]
    omega

/-- Narrowing is monotone (round-to-nearest never reorders), ∞ included. -/
theorem narrow_monotone (x y : UInt64) (hx : ¬ isNaNd x) (hy : ¬ isNaNd y)
    (hle : key64 x.toNat ≤ key64 y.toNat) :
    key32 (narrow x).toNat ≤ key32 (narrow y).toNat := by
  obtain ⟨hdx, hsx, hex, hmx⟩ := decomp64 x.toNat x.toNat_lt
  obtain ⟨hdy, hsy, hey, hmy⟩ := decomp64 y.toNat y.toNat_lt
  have hltx := narrowMag_lt (exp64 x.toNat) (man64 x.toNat) hex hmx
  have hlty := narrowMag_lt (exp64 y.toNat) (man64 y.toNat) hey hmy
  have hnx : exp64 x.toNat < 2047 ∨ (exp64 x.toNat = 2047 ∧ man64 x.toNat = 0) := by
    unfold isNaNd isNaN64 at hx; omega
  have hny : exp64 y.toNat < 2047 ∨ (exp64 y.toNat = 2047 ∧ man64 y.toNat = 0) := by
    unfold isNaNd isNaN64 at hy; omega
  -- magnitudes of arguments and results
  have mx : x.toNat % 2 ^ 63 = exp64 x.toNat * 2 ^ 52 + man64 x.toNat := by omega
  have my : y.toNat % 2 ^ 63 = exp64 y.toNat * 2 ^ 52 + man64 y.toNat := by omega
  have rx : sign32 (narrow x).toNat = sign64 x.toNat ∧
      (narrow x).toNat % 2 ^ 31 = narrowMag (exp64 x.toNat) (man64 x.toNat) := by
    rw [narrow_toNat]; unfold narrowNat sign32; omega
  have ry : sign32 (narrow y).toNat = sign64 y.toNat ∧
      (narrow y).toNat % 2 ^ 31 = narrowMag (exp64 y.toNat) (man64 y.toNat) := by
    rw [narrow_toNat]; unfold narrowNat sign32; omega
  unfold key32
  rw [rx.1, rx.2, ry.1, ry.2]
  unfold key64 at hle
  rw [mx, my] at hle
  by_cases sx : sign64 x.toNat = 1 <;> by_cases sy : sign64 y.toNat = 1
  · -- both negative: the magnitude order is reversed
    rw [if_pos sx, if_pos sy] at hle
    rw [if_pos sx, if_pos sy]
    have := narrowMag_mono (exp64 y.toNat) (man64 y.toNat) (exp64 x.toNat) (man64 x.toNat) hmy hmx
      (by omega) hnx
    omega
  · rw [if_pos sx, if_neg sy]; omega
  · -- x ≥ 0 ≥ y forces both magnitudes to be zero
    rw [if_neg sx, if_pos sy] at hle
    rw [if_neg sx, if_pos sy]
    have h1 : exp64 x.toNat = 0 := by omega
    have h2 : exp64 y.toNat = 0 := by omega
    rw [h1, h2, narrowMag_zero, narrowMag_zero]; omega
  · rw [if_neg sx, if_neg sy] at hle
    rw [if_neg sx, if_neg sy]
    have := narrowMag_mono (exp64 x.toNat) (man64 x.toNat) (exp64 y.toNat) (man64 y.toNat) hmx hmy
      (by omega) hny
    omega

/-- The order key is the order of the represented values: `key64 x ≤ key64 y`
exactly when `value(x) ≤ value(y)` (`scaled64` = value·2^1074, which extends to
±∞ as ±2^1024·2^1074), −0 = +0 … -/
theorem key64_orders_like_value (x y : UInt64) :
    key64 x.toNat ≤ key64 y.toNat ↔ scaled64 x.toNat ≤ scaled64 y.toNat := by
  obtain ⟨hdx, hsx, hex, hmx⟩ := decomp64 x.toNat x.toNat_lt
  obtain ⟨hdy, hsy, hey, hmy⟩ := decomp64 y.toNat y.toNat_lt
  have mx : x.toNat % 2 ^ 63 = exp64 x.toNat * 2 ^ 52 + man64 x.toNat := by omega
  have my : y.toNat % 2 ^ 63 = exp64 y.toNat * 2 ^ 52 + man64 y.toNat := by omega
  have h1 := scaledMag64_le_iff (exp64 x.toNat) _ (exp64 y.toNat) _ hmx hmy
  have h2 := scaledMag64_le_iff (exp64 y.toNat) _ (exp64 x.toNat) _ hmy hmx
  have z1 := scaledMag64_zero_iff (exp64 x.toNat) _ hmx
  have z2 := scaledMag64_zero_iff (exp64 y.toNat) _ hmy
  unfold key64 scaled64
  rw [mx, my]
  generalize scaledMag64 (exp64 x.toNat) (man64 x.toNat) = Sx at *
  generalize scaledMag64 (exp64 y.toNat) (man64 y.toNat) = Sy at *
  by_cases sx : sign64 x.toNat = 1 <;> by_cases sy : sign64 y.toNat = 1 <;>
    simp only [sx, sy, if_true, if_false] <;> omega

/-- … and the same for binary32. -/
theorem key32_orders_like_value (a b : UInt32) :
    key32 a.toNat ≤ key32 b.toNat ↔ scaled32 a.toNat ≤ scaled32 b.toNat := by
  obtain ⟨hda, hsa, hEa, hfa⟩ := decomp32 a.toNat a.toNat_lt
  obtain ⟨hdb, hsb, hEb, hfb⟩ := decomp32 b.toNat b.toNat_lt
  have ma : a.toNat % 2 ^ 31 = exp32 a.toNat * 2 ^ 23 + man32 a.toNat := by omega
  have mb : b.toNat % 2 ^ 31 = exp32 b.toNat * 2 ^ 23 + man32 b.toNat := by omega
  have h1 := scaledMag32_le_iff (exp32 a.toNat) _ (exp32 b.toNat) _ hfa hfb
  have h2 := scaledMag32_le_iff (exp32 b.toNat) _ (exp32 a.toNat) _ hfb hfa
  have z1 := scaledMag32_zero_iff (exp32 a.toNat) _ hfa
  have z2 := scaledMag32_zero_iff (exp32 b.toNat) _ hfb
  unfold key32 scaled32
  rw [ma, mb]
  generalize scaledMag32 (exp32 a.toNat) (man32 a.toNat) = Sa at *
  generalize scaledMag32 (exp32 b.toNat) (man32 b.toNat) = Sb at *
  by_cases sa : sign32 a.toNat = 1 <;> by_cases sb : sign32 b.toNat = 1 <;>
    simp only [sa, sb, if_true, if_false] <;> omega

/-- Monotonicity in terms of values: `value(x) ≤ value(y)` implies
`value((float)x) ≤ value((float)y)` for non-NaN arguments (∞ ordered as above). -/
theorem narrow_monotone_value (x y : UInt64) (hx : ¬ isNaNd x) (hy : ¬ isNaNd y)
    (hle : scaled64 x.toNat ≤ scaled64 y.toNat) :
    scaled32 (narrow x).toNat ≤ scaled32 (narrow y).toNat :=
  (key32_orders_like_value _ _).mp (narrow_monotone x y hx hy ((key64_orders_like_value x y).mpr hle))

/-! ## cffi's store and read paths -/

/-- `p[0] = x` then `p[0]` for `float`: the C narrowing followed by the exact
widening; for `double` the bits come back unchanged. -/
theorem store_read (x : UInt64) :
    (writeRawFloat x 4 >>= fun bs => readRawFloat bs 4) = .ok (widen (narrow x)) ∧
    (writeRawFloat x 8 >>= fun bs => readRawFloat bs 8) = .ok x := by
  constructor
  · simp only [writeRawFloat_eq, readRawFloat_eq, bind, Except.bind, toLE_length, and_self, if_true]
    rw [ofLE_toLE, Nat.mod_eq_of_lt (by exact (narrow x).toNat_lt), UInt32.ofNat_toNat]
  · have h48 : ¬ (8 = 4) := by decide
    simp only [writeRawFloat_eq, readRawFloat_eq, bind, Except.bind, toLE_length, and_self, if_true,
      h48, if_false]
    rw [ofLE_toLE, Nat.mod_eq_of_lt (by exact x.toNat_lt), UInt64.ofNat_toNat]

/-- The stored object representation of a `float` is the little-endian image of
`narrow x`, and reading a `float` object then storing the result writes the
same 4 bytes back (non-NaN). -/
theorem read_store_stable (bs : Bytes) (hlen : bs.length = 4)
    (hnn : ¬ isNaN (UInt32.ofNat (ofLE bs))) :
    (readRawFloat bs 4 >>= fun v => writeRawFloat v 4) = .ok bs := by
  simp only [readRawFloat_eq, writeRawFloat_eq, bind, Except.bind, hlen, and_self, if_true]
  rw [narrow_widen _ hnn, UInt32.toNat_ofNat']
  have hlt := ofLE_lt bs
  rw [hlen] at hlt
  rw [Nat.mod_eq_of_lt (by omega)]
  have := toLE_ofLE bs
  rw [hlen] at this
  rw [this]

/-- Any other size is the fatal error of the C code, never a silent store. -/
theorem bad_size (x : UInt64) (size : Nat) (h4 : size ≠ 4) (h8 : size ≠ 8) :
    writeRawFloat x size = .error .fatalBadSize := by
  simp [writeRawFloat_eq, h4, h8]

/-- `ffi.cast("double", b"A")` / `ffi.cast("float", "é")`: the double made from
a character ordinal is a finite non-negative number whose value is that integer
(`scaled64` = value·2^1074); storing it then goes through the same paths. -/
theorem ordinal_cast_exact (n : Nat) (hn : n < 0x110000) :
    value64 (natToDouble n) = some (((n * 2 ^ 1074 : Nat) : Int) / (2 : Rat) ^ 1074) := by
  obtain ⟨h1, h2, h3⟩ := natToDouble_exact n (by omega)
  have hs : sign64 (natToDouble n) = 0 := by unfold sign64; omega
  unfold value64 scaled64
  rw [if_neg h2, hs, if_neg (by decide), h3]

/-- `float _Complex` / `double _Complex`: the real part is stored at the start
and the imaginary part right behind it, each exactly as a `float`/`double`
store of that part; everything else in the buffer is untouched; reading gives
each part as the `float`/`double` read of what was stored (`store_read`). -/
theorem complex_is_pairwise (buf : Bytes) (off : Nat) (re im : UInt64) (size : Nat)
    (hsz : size = 8 ∨ size = 16) (hfit : off + size ≤ buf.length) :
    ∃ r i out, writeRawFloat re (size / 2) = .ok r ∧ writeRawFloat im (size / 2) = .ok i ∧
      writeRawComplex buf off re im size = .ok (some out) ∧
      out = buf.take off ++ r ++ i ++ buf.drop (off + size) ∧
      readRawComplex out off size =
        (do let a ← readRawFloat r (size / 2); let b ← readRawFloat i (size / 2); pure (some (a, b))) := by
  have key : ∀ (half : Nat) (r i : Bytes), r.length = half → i.length = half → size = 2 * half →
      (blit buf off r).bind (fun b => blit b (off + half) i)
        = some (buf.take off ++ r ++ i ++ buf.drop (off + size)) ∧
      slice (buf.take off ++ r ++ i ++ buf.drop (off + size)) off half = some r ∧
      slice (buf.take off ++ r ++ i ++ buf.drop (off + size)) (off + half) half = some i ∧
      slice (buf.take off ++ r ++ i ++ buf.drop (off + size)) off size = some (r ++ i) := by
    intro half r i hr hi hs
    have htake : (buf.take off).length = off := by rw [List.length_take]; omega
    refine ⟨?_, ?_, ?_, ?_⟩
    · have := blit_blit buf off r i (by omega)
      rw [hr, hi] at this
      rw [this]
      congr 3; omega
    · rw [List.append_assoc (buf.take off ++ r)]
      exact slice_mid _ _ _ _ _ htake hr
    · exact slice_mid (buf.take off ++ r) i _ _ _ (by rw [List.length_append, htake, hr]) hi
    · rw [List.append_assoc (buf.take off) r i]
      exact slice_mid _ _ _ _ _ htake (by rw [List.length_append, hr, hi]; omega)
  rcases hsz with h | h <;> subst h
  · obtain ⟨k1, k2, k3, _⟩ := key 4 (toLE 4 (narrow re).toNat) (toLE 4 (narrow im).toNat)
      (toLE_length _ _) (toLE_length _ _) rfl
    refine ⟨toLE 4 (narrow re).toNat, toLE 4 (narrow im).toNat, _, ?_, ?_, ?_, rfl, ?_⟩
    · rw [writeRawFloat_eq]; rfl
    · rw [writeRawFloat_eq]; rfl
    · rw [writeRawComplex_eq8, k1]
    · rw [readRawComplex_eq8 _ _ _ _ k2 k3, readRawFloat_toLE4, readRawFloat_toLE4]; rfl
  · obtain ⟨k1, k2, k3, k4⟩ := key 8 (toLE 8 re.toNat) (toLE 8 im.toNat)
      (toLE_length _ _) (toLE_length _ _) rfl
    refine ⟨toLE 8 re.toNat, toLE 8 im.toNat, _, ?_, ?_, ?_, rfl, ?_⟩
    · rw [writeRawFloat_eq]; rfl
    · rw [writeRawFloat_eq]; rfl
    · rw [writeRawComplex_eq16, k1]
    · rw [readRawComplex_eq16 _ _ _ k4]
      have t1 : (toLE 8 re.toNat ++ toLE 8 im.toNat).take 8 = toLE 8 re.toNat :=
        take_app _ _ 8 (toLE_length _ _)
      have t2 : (toLE 8 re.toNat ++ toLE 8 im.toNat).drop 8 = toLE 8 im.toNat := by
        have := drop_app (toLE 8 re.toNat) (toLE 8 im.toNat) 8 0 (toLE_length _ _)
        simpa using this
      rw [t1, t2, readRawFloat_toLE8, readRawFloat_toLE8]; rfl

/-- Any other size is the fatal error, for the store and for the read. -/
theorem complex_bad_size (buf : Bytes) (off : Nat) (re im : UInt64) (size : Nat) (h8 : size ≠ 8) (h16 : size ≠ 16) :
    writeRawComplex buf off re im size = .error .fatalBadSize ∧
    readRawComplex buf off size = .error .fatalBadSize :=
  ⟨writeRawComplex_bad buf off re im size h8 h16, readRawComplex_bad buf off size h8 h16⟩

/-- A `long double` copied by any of the three code paths that special-case it
(`convert_to_object`: read of an item/field; `convert_from_object`:
`ffi.new`/item/field store of a cdata; `do_cast`) keeps its 10 value bytes,
whatever the padding bytes of the temporaries hold. -/
theorem longdouble_copy_identity (src junk junk' : Bytes) (hlen : src.length = ldSize) :
    (∃ o, ldConvertToObject src junk = some o ∧ o.length = ldSize ∧ ldValue o = ldValue src) ∧
    (∃ o, ldConvertFromObject src junk = some o ∧ o.length = ldSize ∧ ldValue o = ldValue src) ∧
    (∃ o, ldCast src junk junk' = some o ∧ o.length = ldSize ∧ ldValue o = ldValue src) := by
  have hw : ∀ (v j : Bytes), v.length = ldValueBytes →
      (writeRawLongDouble v j).length = ldSize ∧ ldValue (writeRawLongDouble v j) = v := by
    intro v j hv
    unfold ldValueBytes at hv
    constructor
    · simp only [writeRawLongDouble, ldSize_eq, ldWriteSize_eq, ldValueBytes, List.length_append, List.length_take,
        List.length_replicate, hv]
      omega
    · simp only [ldValue, writeRawLongDouble, ldValueBytes]
      rw [List.take_append_of_le_length (by omega), List.take_of_length_le (by omega)]
  have hv : (ldValue src).length = ldValueBytes := by
    rw [ldSize_eq] at hlen
    simp only [ldValue, ldValueBytes, List.length_take]; omega
  have hr : readRawLongDouble src = some (ldValue src) := by simp [readRawLongDouble, hlen]
  obtain ⟨w1, w2⟩ := hw (ldValue src) junk hv
  refine ⟨⟨_, by simp only [ldConvertToObject, hr, Option.map], w1, w2⟩,
          ⟨_, by simp only [ldConvertFromObject, hr, Option.map], w1, w2⟩, ?_⟩
  obtain ⟨v1, v2⟩ := hw (ldValue src) junk' hv
  refine ⟨writeRawLongDouble (ldValue src) junk', ?_, v1, v2⟩
  have hr2 : readRawLongDouble (writeRawLongDouble (ldValue src) junk) = some (ldValue src) := by
    simp only [readRawLongDouble, w1, if_true, w2]
  simp only [ldCast, ldConvertToObject, hr, Option.map, Option.bind, hr2]

/-- An object of the wrong size is rejected, not copied. -/
theorem longdouble_bad_size (src junk : Bytes) (hlen : src.length ≠ ldSize) :
    ldConvertToObject src junk = none ∧ ldConvertFromObject src junk = none := by
  simp [ldConvertToObject, ldConvertFromObject, readRawLongDouble, hlen]

/-! ## the float branches of `convert_to_object`, `convert_from_object`, `do_cast`

These go through the flag tests and result codes re-extracted from the C source. -/

/-- The `CT_IS_LONGDOUBLE` tests of the three functions: the copy path is taken
exactly when target type and cdata source are both `long double`; a target that
is not `long double` always goes through `write_raw_float_data` /
`read_raw_float_data`. -/
theorem generated_ld_tests_meaning (ct : Nat) (c : Bool) (f : Nat) :
    Generated.FloatExprs.toObjectViaDouble ct = (!hasLD ct) ∧
    Generated.FloatExprs.fromObjectCopiesLongDouble ct c f = (hasLD ct && c && hasLD f) ∧
    Generated.FloatExprs.fromObjectViaFloatStore ct = (!hasLD ct) ∧
    Generated.FloatExprs.castCopiesLongDouble ct c f = (hasLD ct && c && hasLD f) ∧
    Generated.FloatExprs.castViaFloatStore ct = (!hasLD ct) := ld_tests_meaning ct c f

/-- `do_cast` reads the result codes of `check_bytes_for_float_compatible` the
way that function reports them, and only a 1-byte `bytes` is accepted. -/
theorem cast_codes_consistent :
    Generated.FloatExprs.castResCannot Generated.FloatExprs.cbfError = true ∧
    Generated.FloatExprs.castResCannot Generated.FloatExprs.cbfGotValue = false ∧
    Generated.FloatExprs.castResCannot Generated.FloatExprs.cbfNoValue = false ∧
    Generated.FloatExprs.castResNoValue Generated.FloatExprs.cbfNoValue = true ∧
    Generated.FloatExprs.castResNoValue Generated.FloatExprs.cbfGotValue = false ∧
    (∀ n, Generated.FloatExprs.cbfBytesLenBad n = true ↔ n ≠ 1) := by
  refine ⟨by decide, by decide, by decide, by decide, by decide, ?_⟩
  intro n; simp [Generated.FloatExprs.cbfBytesLenBad]

/-- Storing a Python number into a `float`/`double` (not `long double`) item,
through `convert_from_object` or `ffi.cast`, is `write_raw_float_data` of
`PyFloat_AsDouble(ob)`; reading the item is `read_raw_float_data`; an object
that is not a number is a `TypeError`. -/
theorem float_paths_dispatch (ct sz : Nat) (hct : hasLD ct = false) (a : FArg) (ext : UInt64 → Bytes)
    (junk data : Bytes) :
    (∀ v, a.asDouble = some v → convertFromObjectFloat ct sz a ext junk = writeRawFloat v sz) ∧
    (a.asDouble = none → convertFromObjectFloat ct sz a ext junk = .error .typeError) ∧
    (∀ v, a.asDouble = some v → castToFloat ct sz false 0 (.other a) ext junk = writeRawFloat v sz) ∧
    (a.asDouble = none → castToFloat ct sz false 0 (.other a) ext junk = .error .typeError) ∧
    convertToObjectFloat ct sz data junk = (readRawFloat data sz).map .pyfloat := by
  obtain ⟨m1, m2, m3, m4, m5⟩ := ld_tests_meaning ct a.isCData a.flags
  refine ⟨?_, ?_, ?_, ?_, ?_⟩
  · intro v hv
    simp [convertFromObjectFloat, m2, m3, hct, hv]
  · intro hv
    simp [convertFromObjectFloat, m2, hct, hv]
  · intro v hv
    simp [castToFloat, checkBytesForFloat, cast_codes_consistent, m4, m5, hct, hv]
  · intro hv
    simp [castToFloat, checkBytesForFloat, cast_codes_consistent, m4, hct, hv]
  · simp [convertToObjectFloat, m1, hct]

/-- `ffi.cast("float", b"A")`, `ffi.cast("double", "é")`: the ordinal as a
double goes through `write_raw_float_data`; `bytes`/`str` of another length
cannot be cast. -/
theorem cast_char_dispatch (ct sz : Nat) (hct : hasLD ct = false) (n len : Nat) (ext : UInt64 → Bytes) (junk : Bytes) :
    castToFloat ct sz false 0 (.bytes 1 n) ext junk = writeRawFloat (UInt64.ofNat (natToDouble n)) sz ∧
    castToFloat ct sz false 0 (.str true n) ext junk = writeRawFloat (UInt64.ofNat (natToDouble n)) sz ∧
    (len ≠ 1 → castToFloat ct sz false 0 (.bytes len n) ext junk = .error .typeError) ∧
    castToFloat ct sz false 0 (.str false n) ext junk = .error .typeError := by
  obtain ⟨_, _, _, _, m5⟩ := ld_tests_meaning ct false 0
  obtain ⟨c1, c2, c3, c4, c5, c6⟩ := cast_codes_consistent
  have b1 : Generated.FloatExprs.cbfBytesLenBad 1 = false := by
    cases h : Generated.FloatExprs.cbfBytesLenBad 1
    · rfl
    · exact absurd rfl ((c6 1).mp h)
  refine ⟨?_, ?_, ?_, ?_⟩
  · simp [castToFloat, checkBytesForFloat, b1, c2, c5, m5, hct]
  · simp [castToFloat, checkBytesForFloat, c2, c5, m5, hct]
  · intro hl
    simp [castToFloat, checkBytesForFloat, (c6 len).mpr hl, c1]
  · simp [castToFloat, checkBytesForFloat, c1]

/-- A cdata that is not a primitive cannot be cast to a float type. -/
theorem cast_rejects_nonprimitive (ct sz srcflags : Nat) (io : CastArg) (ext : UInt64 → Bytes) (junk : Bytes)
    (h : srcflags &&& Generated.FloatExprs.CT_PRIMITIVE_ANY = 0) :
    castToFloat ct sz true srcflags io ext junk = .error .typeError := by
  simp [castToFloat, Generated.FloatExprs.castSourceRejected, h]

/-- The `long double` copy through the three dispatching functions: when the
target type is `long double` and the source is a `long double` cdata, the 10
value bytes are kept whatever the padding of the temporaries holds. -/
theorem longdouble_dispatch_identity (ct f sz : Nat) (hct : hasLD ct = true) (hf : hasLD f = true)
    (a : FArg) (ha : a.isCData = true) (haf : a.flags = f) (hlen : a.data.length = ldSize)
    (ext : UInt64 → Bytes) (junk : Bytes) :
    (∃ o, convertFromObjectFloat ct sz a ext junk = .ok o ∧ ldValue o = ldValue a.data) ∧
    (∃ o, castToFloat ct sz false 0 (.other a) ext junk = .ok o ∧ ldValue o = ldValue a.data) ∧
    (∃ o, convertToObjectFloat ct sz a.data junk = .ok (.ldcdata o) ∧ ldValue o = ldValue a.data) := by
  subst haf
  obtain ⟨m1, m2, m3, m4, m5⟩ := ld_tests_meaning ct true a.flags
  obtain ⟨⟨o1, e1, _, v1⟩, ⟨o2, e2, _, v2⟩, _⟩ := longdouble_copy_identity a.data junk junk hlen
  have hr : readRawLongDouble a.data = some (ldValue a.data) := by simp [readRawLongDouble, hlen]
  have c2 : Generated.FloatExprs.fromObjectCopiesLongDouble ct true a.flags = true := by rw [m2, hct, hf]; rfl
  have c4 : Generated.FloatExprs.castCopiesLongDouble ct true a.flags = true := by rw [m4, hct, hf]; rfl
  refine ⟨⟨o2, ?_, v2⟩, ⟨o2, ?_, v2⟩, ⟨o1, ?_, v1⟩⟩
  · simp [convertFromObjectFloat, ha, c2, e2, ofOpt]
  · simp only [ldConvertFromObject, hr, Option.map] at e2
    simp [castToFloat, checkBytesForFloat, cast_codes_consistent, ha, c4, hr, ofOpt, e2]
  · simp [convertToObjectFloat, m1, hct, e1, ofOpt, Except.map]

/-! ## non-vacuity -/

-- 1.0f, the smallest subnormal, the largest finite, −∞ are non-NaN; a NaN is a NaN
example : ¬ isNaN 0x3f800000 := by decide
example : ¬ isNaN 0x00000001 := by decide
example : ¬ isNaN 0x7f7fffff := by decide
example : ¬ isNaN 0xff800000 := by decide
example : isNaN 0x7f800001 := by decide
example : narrow (widen 0x00000001) = 0x00000001 := narrow_widen _ (by decide)
-- widen_exact applies to a subnormal
example : exp32 (0x00000003 : UInt32).toNat ≠ 255 := by decide
-- narrow_monotone: 1.0 ≤ 1.0 + 2^-52 (both non-NaN); the two narrow to the same float
example : ¬ isNaNd 0x3ff0000000000000 ∧ ¬ isNaNd 0x3ff0000000000001 ∧
    key64 (0x3ff0000000000000 : UInt64).toNat ≤ key64 (0x3ff0000000000001 : UInt64).toNat := by decide
-- a tie rounds to even, an overflowing finite value goes to ∞ (0x47efffffffffffff = the largest
-- double below 2^128), 2^-150 (a tie with 0) goes to 0 and anything above it to the smallest subnormal
example : narrowNat 0x3ff0000010000000 = 0x3f800000 := by decide
example : narrowNat 0x3ff0000030000000 = 0x3f800002 := by decide
example : narrowNat 0x47efffffffffffff = 0x7f800000 := by decide
example : narrowNat 0x47efffffefffffff = 0x7f7fffff := by decide
example : narrowNat 0x3690000000000000 = 0 := by decide
example : narrowNat 0x3690000000000001 = 1 := by decide
example : narrowNat 0x7ff0000000000001 = 0x7fc00000 := by decide
-- complex_is_pairwise and longdouble_copy_identity hypotheses are satisfiable
example : (8 = 8 ∨ 8 = 16) ∧ 4 + 8 ≤ (List.replicate 16 (0 : UInt8)).length := by decide
example : (List.replicate 16 (7 : UInt8)).length = ldSize := by decide
example : natToDouble 65 = 0x4050400000000000 := by decide
-- the flag hypotheses of the dispatch theorems are met by the real type flags
example : hasLD (Generated.FloatExprs.CT_PRIMITIVE_FLOAT ||| Generated.FloatExprs.CT_IS_LONGDOUBLE) = true ∧
    hasLD Generated.FloatExprs.CT_PRIMITIVE_FLOAT = false := by decide

end CffiVerif.C05
