import CffiVerif.Proofs.OpcodeRealize

/-!
C11 — the out-of-line ABI module is equivalent to the in-line FFI.

What is proved here is the serialisation half of the property, on `Model/Opcode.lean`:
whatever `emit_python_code()` writes (4-byte opcodes, the records of globals, struct/unions and
their fields, enums, typenames, and the `_types` table laid out by `collect_type_table`) is read
back by `ffiobj_init` / `realize_c_type_or_func` as what was declared.  Every number the model
uses is regenerated from the working tree (`Generated/Opcodes.lean`); the agreement of the model
with the real emitter and the real backend, and the in-line ≡ out-of-line statement itself on
the real implementation, are checked by `harness/corr_C11.py`.
-/
namespace CffiVerif.C11
open CffiVerif.Opcode CffiVerif.Generated.Opcodes

/-! ### the numbers of `cffi_opcode.py` and of `parse_c_type.h` -/

/-- The emitter's and the backend's opcode, primitive and flag numbers are the same tables
(and they are the tables the translator expects: 21 opcodes, `_NUM_PRIM` primitives). -/
theorem opcode_tables_agree :
    pyOps = cOps ∧ pyPrims = cPrims ∧ pyFlags = cFlags ∧ pyNumPrim = cNumPrim ∧
    pyOps.length = 21 ∧ pyPrims.length = pyNumPrim := by decide

/-- Every opcode fits in the low byte, so `(arg << 8) | op` is `arg * 2^8 + op`; and the emitter
and the reader shift by the same amount. -/
theorem ops_fit_in_a_byte :
    (∀ e ∈ pyOps, e.2 < 2 ^ cGetopBits) ∧ pyArgShift = cGetargShift ∧ pyArgShift = cOpShift ∧
    cGetopBits = pyArgShift := by decide

/-- The individual constants the model uses are the entries of the two tables. -/
theorem model_constants_are_table_entries :
    pyOps.lookup "PRIMITIVE" = some Py.OP_PRIMITIVE ∧ cOps.lookup "PRIMITIVE" = some C.OP_PRIMITIVE ∧
    pyOps.lookup "POINTER" = some Py.OP_POINTER ∧ cOps.lookup "POINTER" = some C.OP_POINTER ∧
    pyOps.lookup "ARRAY" = some Py.OP_ARRAY ∧ cOps.lookup "ARRAY" = some C.OP_ARRAY ∧
    pyOps.lookup "OPEN_ARRAY" = some Py.OP_OPEN_ARRAY ∧ cOps.lookup "OPEN_ARRAY" = some C.OP_OPEN_ARRAY ∧
    pyOps.lookup "STRUCT_UNION" = some Py.OP_STRUCT_UNION ∧ cOps.lookup "STRUCT_UNION" = some C.OP_STRUCT_UNION ∧
    pyOps.lookup "ENUM" = some Py.OP_ENUM ∧ cOps.lookup "ENUM" = some C.OP_ENUM ∧
    pyOps.lookup "FUNCTION" = some Py.OP_FUNCTION ∧ cOps.lookup "FUNCTION" = some C.OP_FUNCTION ∧
    pyOps.lookup "FUNCTION_END" = some Py.OP_FUNCTION_END ∧ cOps.lookup "FUNCTION_END" = some C.OP_FUNCTION_END ∧
    pyOps.lookup "NOOP" = some Py.OP_NOOP ∧ cOps.lookup "NOOP" = some C.OP_NOOP ∧
    pyOps.lookup "BITFIELD" = some Py.OP_BITFIELD ∧ cOps.lookup "BITFIELD" = some C.OP_BITFIELD ∧
    cOps.lookup "CONSTANT_INT" = some C.OP_CONSTANT_INT ∧ cOps.lookup "TYPENAME" = some C.OP_TYPENAME ∧
    cFlags.lookup "OPAQUE" = some C.F_OPAQUE ∧ cFlags.lookup "EXTERNAL" = some C.F_EXTERNAL ∧
    pyPrims.lookup "VOID" = some Py.PRIM_VOID := by decide

/-! ### four bytes -/

/-- `cdl_opcode` + `_CFFI_GETOP/_CFFI_GETARG` invert `CffiOp(op, arg).as_python_bytes()`. -/
theorem decode4_encode4 (op : Nat) (arg : Int) (hop : op < 256) (h1 : -2 ^ 23 ≤ arg) (h2 : arg < 2 ^ 23) :
    decode4 (encode4 op arg) = some (op, arg) := by
  unfold decode4 encode4
  have := cdl4_fourBytes_append (opWord op arg) (opWord_inRange op arg hop h1 h2) []
  rw [List.append_nil] at this
  rw [this]
  simp [getOp_opWord _ _ hop, getArg_opWord _ _ hop]

example : decode4 (encode4 13 (-1)) = some (13, -1) := decode4_encode4 13 (-1) (by decide) (by decide) (by decide)

/-- A raw number (`LEN` slot) below `2^31` is read back by `cdl_4bytes`; from `2^31` on the
emitter refuses (`OverflowError`). -/
theorem raw_roundtrip (n : Nat) :
    (n < 2 ^ 31 → ∃ b, encodeRaw n = some b ∧ cdl4 b = some (n : Int)) ∧ (2 ^ 31 ≤ n → encodeRaw n = none) := by
  constructor
  · intro h
    have hn : ¬ (n ≥ 2 ^ pyRawLimitLog2) := by unfold pyRawLimitLog2; omega
    refine ⟨fourBytes n, by simp [encodeRaw, hn], ?_⟩
    have := cdl4_fourBytes_append (n : Int) ⟨by omega, by omega⟩ []
    rwa [List.append_nil] at this
  · intro h
    have hn : n ≥ 2 ^ pyRawLimitLog2 := by unfold pyRawLimitLog2; omega
    simp [encodeRaw, hn]

/-- The `_types` string is read back word for word (words that fit in 32 bits). -/
theorem types_bytes_roundtrip (ws : List Int) (h : ∀ w ∈ ws, InRange32 w) :
    decodeTypes (typesBytes ws) = ws := decodeTypes_typesBytes ws h

/-! ### integer constants -/

/-- An integer constant in `[-2^63, 2^64)` written as `(value, …)` in `_globals` comes back
unchanged through `PyLong_AsUnsignedLongLongMask`, the `<= 0` flag and `realize_global_int`. -/
theorem const_roundtrip (v : Int) (h1 : -2 ^ 63 ≤ v) (h2 : v < 2 ^ 64) : constRoundTrip v = some v :=
  realizeInt_roundtrip v h1 h2

example : constRoundTrip (-9223372036854775808) = some (-9223372036854775808) :=
  const_roundtrip _ (by decide) (by decide)
example : constRoundTrip 18446744073709551615 = some 18446744073709551615 :=
  const_roundtrip _ (by decide) (by decide)

/- Full statement, NOT a theorem of the current code (finding C11/const-outside-64-bit):
     theorem const_roundtrip_all (v : Int) : constRoundTrip v = some v
   Outside `[-2^63, 2^64)` the value is masked; the model predicts what the out-of-line module
   returns (`#define BIG 99999999999999999999999` reads back as 200376420520689663). -/
theorem const_roundtrip_fails_outside :
    constRoundTrip 99999999999999999999999 = some 200376420520689663 ∧
    constRoundTrip (2 ^ 64) = some 0 ∧ constRoundTrip (-2 ^ 63 - 1) = some (2 ^ 63 - 1) := by decide

/-! ### the records of `_globals`, `_struct_unions`, `_enums`, `_typenames` -/

/-- What one emitted module declares besides its types. -/
structure Records where
  globals : List GlobalRec
  structs : List StructRec
  enums : List EnumRec
  typenames : List TypenameRec

def GlobalOk (g : GlobalRec) : Prop :=
  g.op < 256 ∧ -2 ^ 23 ≤ g.arg ∧ g.arg < 2 ^ 23 ∧ NoNul g.name ∧
  (if isIntGlobalOp g.op = true then (-2 ^ 63 ≤ g.value ∧ g.value < 2 ^ 64) else g.value = 0)

def EnumOk (e : EnumRec) : Prop :=
  (enumPrim e.size e.signed).isSome = true ∧ InRange32 e.typeIndex ∧ NoNul e.name ∧
  ∀ x ∈ e.enumerators, EnumNameOk x

def TypenameOk (t : TypenameRec) : Prop := InRange32 t.typeIndex ∧ NoNul t.name

/-- Indexes and flags fit their 4-byte fields, names are NUL-free identifiers, enumerator names
are non-empty and comma-free, integer constants are in `[-2^63, 2^64)`, other globals carry 0,
fields are plain (`NOOP`, size -1) or bit-fields, opaque/external structs have no fields. -/
def Records.Bounds (R : Records) : Prop :=
  (∀ g ∈ R.globals, GlobalOk g) ∧ (∀ s ∈ R.structs, StructOk s) ∧
  (∀ e ∈ R.enums, EnumOk e) ∧ (∀ t ∈ R.typenames, TypenameOk t)

/-- `ffiobj_init` (+ `realize_global_int`, + the enumerator splitting of `realize_c_type`) reads
back exactly the records `as_python_expr` wrote: every global (with its constant value), the
struct/union array together with the shared field array regrouped by `first_field_index` /
`num_fields`, every enum with its base primitive and enumerator names, every typename. -/
theorem decode_encode_records (R : Records) (hb : R.Bounds) :
    (∀ g ∈ R.globals, (decodeGlobal (encodeGlobal g).1 (encodeGlobal g).2).bind viewGlobal = some g) ∧
    (∃ encs, mapOpt encodeStruct R.structs = some encs ∧
      ∃ cs fs, decodeStructs 0 encs = some (cs, fs) ∧ cs.map (viewStruct fs) = R.structs) ∧
    (∀ e ∈ R.enums, ∃ b c p, encodeEnum e = some b ∧ decodeEnum b = some c ∧
      enumPrim e.size e.signed = some p ∧ c.typeIndex = e.typeIndex ∧ c.typePrim = (p : Int) ∧
      c.name = e.name ∧ splitEnumerators c.enumerators = e.enumerators) ∧
    (∀ t ∈ R.typenames, decodeTypename (encodeTypename t) = some t) := by
  obtain ⟨hg, hs, he, ht⟩ := hb
  refine ⟨?_, ?_, ?_, ?_⟩
  · intro g hm
    obtain ⟨h1, h2, h3, h4, h5⟩ := hg g hm
    exact decode_encode_global g h1 h2 h3 h4 h5
  · obtain ⟨encs, e1, e2⟩ := structs_roundtrip R.structs hs
    obtain ⟨cs, fs, d1, d2⟩ := e2 []
    exact ⟨encs, e1, cs, fs, by simpa using d1, by simpa using d2⟩
  · intro e hm
    obtain ⟨h1, h2, h3, h4⟩ := he e hm
    cases hp : enumPrim e.size e.signed with
    | none => simp [hp] at h1
    | some p =>
      obtain ⟨b, c, r1, r2, r3, r4, r5, r6⟩ := enum_roundtrip e p hp h2 h3 h4
      exact ⟨b, c, p, r1, r2, rfl, r3, r4, r5, r6⟩
  · intro t hm
    exact typename_roundtrip t (ht t hm).1 (ht t hm).2

/-- Non-vacuity: the records of
`struct S { int a; unsigned b:3; }; struct opq; enum E { A, B=5 }; typedef struct S S_t; #define K -3`. -/
def exRecords : Records where
  globals := [⟨11, -1, [65], 0⟩, ⟨11, -1, [66], 5⟩, ⟨31, -1, [75], -3⟩, ⟨35, 0, [102], 0⟩]
  structs := [⟨7, 0, [83], [⟨17, 1, -1, [97]⟩, ⟨19, 8, 3, [98]⟩]⟩, ⟨9, 16, [111, 112, 113], []⟩]
  enums := [⟨3, 4, 0, [69], [[65], [66]]⟩]
  typenames := [⟨7, [83, 95, 116]⟩]

example : exRecords.Bounds := by
  refine ⟨?_, ?_, ?_, ?_⟩ <;>
    simp [exRecords, GlobalOk, StructOk, FieldOk, EnumOk, TypenameOk, EnumNameOk, NoNul, InRange32,
      isIntGlobalOp, isOpaqueFlags, testFlag, enumPrim, enumPrims, C.OP_CONSTANT_INT, C.OP_ENUM,
      C.F_OPAQUE, C.F_EXTERNAL, Py.OP_NOOP, Py.OP_BITFIELD]

/-! ### the `_types` table -/

/-- **Realising what was emitted.**  If `collect_type_table` succeeds on the type set `S` (no
assertion fails, no `KeyError`, no `OverflowError`), then every realisable type `T` of `S` has an
index, and `realize_c_type_or_func` at that index of the emitted words rebuilds `T` (up to the
Python-side pointer discriminators, which the table does not carry), for every recursion budget
of at least `T.size` levels.  FUNCTION sequences with their argument slots (own slot, repeated
primitive, `NOOP` indirection) and `FUNCTION_END` flags, arrays with their `LEN` slot, open
arrays, pointers, struct/union/enum references are all covered; `S` is closed under "refers to"
because emission looked every referenced type up. -/
theorem realize_emit (S : List Ty) (ws : List Int) (idx : Ty → Option Nat)
    (h : emitWords S = some (ws, idx)) (T : Ty) (hT : T ∈ S) (hwf : T.wf = true) :
    ∃ i, idx T = some i ∧ ∀ fuel, T.size ≤ fuel → realize fuel ws (i : Int) = .ok T.erase := by
  obtain ⟨slots, E, hall⟩ := emitWords_emitted S ws idx h
  cases hi : idx T with
  | none => have := hall T hT; simp [hi] at this
  | some i =>
    exact ⟨i, rfl, fun fuel hf => realize_emitted E T.size T i fuel (Nat.le_refl _) hi hwf hf⟩

/-- The same through the bytes: `emitTable` written by `format_four_bytes`, read by `cdl_4bytes`
in `ffiobj_init`, realised with the backend's limit of 1000 nested levels. -/
theorem realize_emitTable (S : List Ty) (ws : List Int) (idx : Ty → Option Nat)
    (h : emitWords S = some (ws, idx)) (hr : ∀ w ∈ ws, InRange32 w)
    (T : Ty) (hT : T ∈ S) (hwf : T.wf = true) (hsz : T.size ≤ 1000) :
    ∃ bytes i, emitTable S = some bytes ∧ index S T = some i ∧
      realizeC (decodeTypes bytes) (i : Int) = .ok T.erase := by
  obtain ⟨i, hi, hre⟩ := realize_emit S ws idx h T hT hwf
  refine ⟨typesBytes ws, i, by simp [emitTable, h], by simp [index, h, hi], ?_⟩
  rw [decodeTypes_typesBytes ws hr]
  exact hre 1000 hsz

/-- Emission only succeeds on a set in which every type a declared type refers to has an index
(the `KeyError`-freedom of `_emit_bytecode_*`), i.e. the table is self-contained. -/
theorem emitted_refs_have_index (S : List Ty) (ws : List Int) (idx : Ty → Option Nat)
    (h : emitWords S = some (ws, idx)) (T : Ty) (hT : T ∈ S) :
    ∃ i w, idx T = some i ∧ ws[i]? = some w ∧ ownWord idx T = some w := by
  obtain ⟨slots, E, hall⟩ := emitWords_emitted S ws idx h
  cases hi : idx T with
  | none => have := hall T hT; simp [hi] at this
  | some i =>
    obtain ⟨w, a1, a2⟩ := own_slot E hi
    exact ⟨i, w, rfl, a1, a2⟩

/-- Non-vacuity: `int`, `int *`, `const int *` (a second Python-side pointer object), `int *[5]`,
`struct #3`, `int f(int *, struct #3, ...)` and the pointer to it, `void`, `void (*)(int)` -- the set is
emitted, its words fit in 32 bits, and every member is realisable. -/
def exS : List Ty :=
  [.prim 7, .ptr 0 (.prim 7), .ptr 1 (.prim 7), .array (.ptr 0 (.prim 7)) 5, .su 3,
   .func (.prim 7) [.ptr 0 (.prim 7), .su 3] 1, .ptr 0 (.func (.prim 7) [.ptr 0 (.prim 7), .su 3] 1),
   .prim 0, .func (.prim 0) [.prim 7] 0, .ptr 0 (.func (.prim 0) [.prim 7] 0)]

example : ((emitWords exS).map (·.1)) =
    some [1293, 1283, 777, 271, 2829, 1793, 15, 1283, 261, 5, 3, 1, 1027] := by decide
example : exS.map (index exS) = [some 5, some 1, some 7, some 8, some 2, some 0, some 10, some 11, some 4, some 12] := by
  decide
example : ∀ T ∈ exS, T.wf = true ∧ T.size ≤ 1000 := by decide
/-- `const int *` (index 7) is realised as the plain pointer type the table describes. -/
example : ((emitTable exS).map fun b => match realizeC (decodeTypes b) 7 with
    | .ok t => decide (t = .ptr 0 (.prim 7)) | .error _ => false) = some true := by decide

end CffiVerif.C11
