import CffiVerif.Proofs.Tokenizer
import CffiVerif.Proofs.DefineLiteral
import CffiVerif.Proofs.ConstErr

/-!
C30 — declaration and type-string errors are reported as cffi errors; `typeof` on a
compiled FFI never reads outside the string.

* `tokenizer_reads_in_bounds`, `token_stream_in_bounds`,
  `search_standard_typename_reads_inside_token`: on a buffer that consists of the string and
  its terminator and *nothing else* (a read at any larger index answers `none`), the four
  functions through which `parse_c_type` reads the input never answer `none`, and
  `next_token` keeps the token inside the string — by induction over the scanning loops.
  When `s` has no NUL byte, `s.length` is the terminator's index.
* `bad_type_buffer_exact`: `_ffi_bad_type` stores exactly as many bytes as it allocates.
* `define_literal_ok_iff`, `define_errors_are_cdef_errors`, `dfa_is_the_regex`: what
  `#define NAME value` does with a value that `_r_int_literal` accepts.
* `const_errors_are_cffi_errors_partial`: the exception kinds of `_parse_constant`
  (known finding: huge left shifts).
-/
namespace CffiVerif.C30
open CffiVerif.Tokenizer CffiVerif.Generated.C30Tables

/-- **No read beyond the terminator.**  `s ++ [0]` is all the memory the model can read.  For
every token state inside the string (`tok.p + tok.size ≤ s.length`; the initial state is one):
`next_token` completes and its result is again inside the string, `get_following_char` and
`number_of_commas` complete, and `search_standard_typename(tok->p, tok->size)` completes. -/
theorem tokenizer_reads_in_bounds (s : List UInt8) (tok : Tok) (h : tok.p + tok.size ≤ s.length) :
    (∃ tok', nextToken (s ++ [0]) tok = some tok' ∧ tok'.p + tok'.size ≤ s.length) ∧
    (∃ c, getFollowingChar (s ++ [0]) tok = some c) ∧
    (∃ n, numberOfCommas (s ++ [0]) tok = some n) ∧
    (∃ r, searchStd (s ++ [0]) tok.p tok.size = some r) := by
  refine ⟨?_, ?_, ?_, ?_⟩
  · unfold nextToken
    by_cases he : tok.kind = .error
    · exact ⟨tok, by simp [he], h⟩
    · simp only [he, if_false]
      have hd := drop_terminated s (tok.p + tok.size) h
      obtain ⟨t, ht, hb, _⟩ := nextFrom_ok (s ++ [0]) (s.drop (tok.p + tok.size)) (tok.p + tok.size) hd
      refine ⟨t, ht, ?_⟩
      rw [List.length_drop] at hb; omega
  · unfold getFollowingChar
    by_cases he : tok.kind = .error
    · exact ⟨0, by simp [he]⟩
    · simp only [he, if_false]
      rw [drop_terminated s _ h]
      exact Option.isSome_iff_exists.mp (followFrom_ok _)
  · unfold numberOfCommas
    rw [drop_terminated s _ (by omega)]
    exact Option.isSome_iff_exists.mp (commasFrom_ok _ 0 0)
  · exact searchStd_ok _ _ _ (by simp; omega)

-- non-vacuity: the initial state of `parse_c_type_from` is inside any string
example (s : List UInt8) : Tok.init.p + Tok.init.size ≤ s.length := by simp [Tok.init]
-- and the theorem's functions do real work on "int[0x1F] ..." : tokens int [ 0x1F ] ...
example : tokens ([105, 110, 116, 91, 48, 120, 49, 70, 93, 32, 46, 46, 46] ++ [0]) 10 Tok.init =
    some [⟨0, 3, .kw "TOK_INT"⟩, ⟨3, 1, .punct 91⟩, ⟨4, 4, .integer⟩, ⟨8, 1, .punct 93⟩,
          ⟨10, 3, .dotdotdot⟩, ⟨13, 0, .eof⟩] := by decide

/-- The whole token stream (any number of `next_token` calls from the initial state) is read
without leaving the buffer, and every token lies inside the string. -/
theorem token_stream_in_bounds (s : List UInt8) (fuel : Nat) (tok : Tok) (h : tok.p + tok.size ≤ s.length) :
    ∃ ts, tokens (s ++ [0]) fuel tok = some ts ∧ ∀ t ∈ ts, t.p + t.size ≤ s.length := by
  induction fuel generalizing tok with
  | zero => exact ⟨[], rfl, by simp⟩
  | succ n ih =>
    obtain ⟨⟨t', ht', hb'⟩, _⟩ := tokenizer_reads_in_bounds s tok h
    simp only [tokens, ht']
    by_cases he : t'.kind = .eof
    · simp only [he, if_true]
      exact ⟨[t'], rfl, by simpa using hb'⟩
    · simp only [he, if_false]
      obtain ⟨ts, hts, hall⟩ := ih t' hb'
      rw [hts]
      refine ⟨t' :: ts, rfl, ?_⟩
      intro t ht
      rcases List.mem_cons.mp ht with rfl | ht
      · exact hb'
      · exact hall t ht

/-- `parse_error` reports a location inside the string (≤ the terminator's index), so the
caret line of `_ffi_bad_type` is at most `strlen` spaces long. -/
theorem error_location_in_string (s : List UInt8) (tok : Tok) (h : tok.p + tok.size ≤ s.length) :
    (parseError tok).2 ≤ s.length := by
  simp only [parseError]; omega

/-- `search_standard_typename(p, size)` reads only `p[0 .. size)`: on a buffer that is
exactly the token it completes.  (Stated over the regenerated tables: every `memcmp` length
is at most the `size ==` it is guarded by, `p[4]`/`p[10]` are guarded by `size < 6`/`size >= 12`.) -/
theorem search_standard_typename_reads_inside_token (token : List UInt8) :
    ∃ r, searchStd token 0 token.length = some r :=
  searchStd_ok token 0 token.length (by omega)

-- non-vacuity: "uint_least16_t" is found (prim 33), "xint_least16_t" is not, both without a terminator
example : searchStd [117, 105, 110, 116, 95, 108, 101, 97, 115, 116, 49, 54, 95, 116] 0 14 = some (some 33) := by decide
example : searchStd [120, 105, 110, 116, 95, 108, 101, 97, 115, 116, 49, 54, 95, 116] 0 14 = some none := by decide

/-- **`_ffi_bad_type` fills its buffer exactly**: no store is beyond the `alloca`ed
`length + num_spaces + 4` bytes, and all of them are written (including the final NUL). -/
theorem bad_type_buffer_exact (input : List UInt8) (numSpaces : Nat) :
    ∃ o, badType input numSpaces = some o ∧ o.data.length = o.cap := by
  unfold badType
  by_cases hc : input.length > badTypeCutoff
  · simp only [hc, if_true]; exact ⟨⟨0, []⟩, rfl, rfl⟩
  · simp only [hc, if_false]
    have hs : badTypeSlack = 4 := rfl
    -- '\n'
    rw [put_ok _ 10 (by simp only [List.length_nil]; omega)]
    simp only [Option.bind_some, List.nil_append]
    -- the sanitized text
    obtain ⟨o1, e1, c1, d1⟩ := putAll_ok ⟨input.length + numSpaces + badTypeSlack, [10]⟩ (input.map sanitize)
      (by simp only [List.length_cons, List.length_nil, List.length_map]; omega)
    rw [e1]; simp only [Option.bind_some]
    -- '\n'
    rw [put_ok o1 10 (by rw [c1, d1]; simp only [List.length_append, List.length_cons, List.length_nil, List.length_map]; omega)]
    simp only [Option.bind_some]
    -- memset
    obtain ⟨o2, e2, c2, d2⟩ := putAll_ok { o1 with data := o1.data ++ [10] } (List.replicate numSpaces 32)
      (by simp only [c1, d1, List.length_append, List.length_cons, List.length_nil, List.length_map, List.length_replicate]; omega)
    rw [e2]; simp only [Option.bind_some]
    -- '^'
    rw [put_ok o2 94 (by rw [c2, d2]; simp only [c1, d1, List.length_append, List.length_cons, List.length_nil, List.length_map, List.length_replicate]; omega)]
    simp only [Option.bind_some]
    -- NUL
    rw [put_ok _ 0 (by simp only [c2, d2, c1, d1, List.length_append, List.length_cons, List.length_nil, List.length_map, List.length_replicate]; omega)]
    refine ⟨_, rfl, ?_⟩
    simp only [c2, d2, c1, d1, List.length_append, List.length_cons, List.length_nil, List.length_map, List.length_replicate]
    omega

-- non-vacuity: typeof("in\tt[") with the error at offset 5
example : badType [105, 110, 9, 116, 91] 5 =
    some ⟨14, [10, 105, 110, 32, 116, 91, 10, 32, 32, 32, 32, 32, 94, 0]⟩ := by decide

/-! ### `#define NAME value` -/
section Define
open CffiVerif.DefineLiteral

/-- The DFA of the model is the regular expression `-?0?x?[0-9a-f]+[lu]*$` (IGNORECASE). -/
theorem dfa_is_the_regex (value : List Char) : dfaAccepts value = true ↔ RegexMatches value :=
  dfaAccepts_iff_regex value

/-- **For a value that `_r_int_literal` accepts**, `_add_integer_constant` binds an integer
exactly when the lower-cased text without sign and `u`/`l` suffix is a C literal (`0`, decimal
without leading zero and of at most 4300 digits, `0x` + hex digits, `0` + octal digits);
that is exactly when `int(int_str, 0)` accepts; in every other case -- `abc`, `08`, `x1`,
`0b1`, `1a` … -- the outcome is `CDefError`. -/
theorem define_literal_ok_iff (value : List Char) (h : dfaAccepts value = true) :
    ((∃ n, addIntegerConstant value = .ok n) ↔ isCBody (body value).2 = true) ∧
    ((pyInt 0 (octalRewrite (body value).2) = none) ↔ addIntegerConstant value = .error .cdefError) := by
  have hs := pyInt0_isSome_eq _ (body_shape value h)
  unfold addIntegerConstant
  cases hp : pyInt 0 (octalRewrite (body value).2) with
  | none =>
    rw [hp] at hs
    simp only [Option.isSome_none] at hs
    constructor
    · constructor
      · rintro ⟨n, hn⟩; cases hn
      · intro hb; rw [hb] at hs; cases hs
    · exact ⟨fun _ => rfl, fun _ => rfl⟩
  | some v =>
    rw [hp] at hs
    simp only [Option.isSome_some] at hs
    constructor
    · exact ⟨fun _ => hs.symm, fun _ => ⟨_, rfl⟩⟩
    · constructor
      · intro hn; cases hn
      · intro hn; cases hn

/-- **No `ValueError` escapes `_process_macros`**: whatever the (stripped) value of a
`#define`, the only error is `CDefError`. -/
theorem define_errors_are_cdef_errors (value : List Char) (e : Exc)
    (h : processMacro value = .error e) : e = .cdefError := by
  unfold processMacro at h
  split at h
  · unfold addIntegerConstant at h
    split at h <;> simp only [Except.map] at h <;> cases h
    rfl
  · split at h <;> cases h
    rfl

-- non-vacuity: accepted values on both sides of `define_literal_ok_iff`
example : dfaAccepts ['-', '0', 'x', '1', 'F', 'u', 'L'] = true := by decide
example : addIntegerConstant ['-', '0', 'x', '1', 'F', 'u', 'L'] = .ok (-31) := by rfl
example : dfaAccepts ['0', '1', '0'] = true ∧ addIntegerConstant ['0', '1', '0'] = .ok 8 := ⟨by decide, by rfl⟩
example : dfaAccepts ['a', 'b', 'c'] = true ∧ addIntegerConstant ['a', 'b', 'c'] = .error .cdefError := ⟨by decide, by rfl⟩
example : dfaAccepts ['0', '8'] = true ∧ addIntegerConstant ['0', '8'] = .error .cdefError := ⟨by decide, by rfl⟩
example : dfaAccepts ['0', 'x'] = false ∧ processMacro ['0', 'x'] = .error .cdefError := ⟨by decide, by rfl⟩
end Define

/-! ### constant expressions -/
section Const
open CffiVerif.ConstErr

/-- **The errors of `_parse_constant` are cffi errors** (`CDefError` or `FFIError`) for every
expression tree, every table of known constants and both values of `partial_length_ok` --
*provided* no `Constant` token is empty (pycparser produces none), and no `<<` with a non-zero
left operand has a count beyond what Python can materialise (`shlLimit`).

Full statement (no `ShiftsOk` hypothesis) is FALSE on the unchanged tree:
`huge_shift_escapes_as_overflow_error` below is its counterexample (known finding
C30/huge-shift-overflowerror).  Hexadecimal floating constants, which used to escape as
ValueError, are `CDefError` since the `fix:` commit 153798b (`hex_float_is_cdef_error`). -/
theorem const_errors_are_cffi_errors_partial (shlLimit : Nat) (env : Env) (partialOk : Bool) (e : Expr)
    (ht : TokensOk e) (hs : ShiftsOk shlLimit env e) (x : Exc)
    (h : eval shlLimit env partialOk e = .error x) : x.isCffi = true := by
  rcases eval_err shlLimit env partialOk e ht hs x h with rfl | rfl <;> rfl

/-- Division and modulo by zero are `CDefError` (repaired by the `fix:` commit 5c1f477). -/
theorem division_by_zero_is_cdef_error (shlLimit : Nat) (l : Int) :
    applyBin shlLimit "/" l 0 = .error .cdefError ∧ applyBin shlLimit "%" l 0 = .error .cdefError := by
  constructor <;> simp [applyBin, cDiv, Except.map]

/-- A negative shift count is `CDefError` (same commit). -/
theorem negative_shift_is_cdef_error (shlLimit : Nat) (l r : Int) (hr : r < 0) :
    applyBin shlLimit "<<" l r = .error .cdefError ∧ applyBin shlLimit ">>" l r = .error .cdefError := by
  constructor <;> simp [applyBin, hr]

/-- A hexadecimal floating constant (`int a[0x1p3];`, `0x1.8p1`) is `CDefError` ("invalid
constant"; repaired by the `fix:` commit 153798b -- it used to escape as ValueError). -/
theorem hex_float_is_cdef_error :
    eval 64 (fun _ => none) false (.const ['0', 'x', '1', 'p', '3']) = .error .cdefError ∧
    eval 64 (fun _ => none) false (.const ['0', 'x', '1', '.', '8', 'p', '1']) = .error .cdefError := by
  constructor <;> rfl

/-- Known finding: `1 << 99999999999999999999` leaves the evaluator as `OverflowError`
-- the counterexample to the statement without `ShiftsOk` (for any limit below the count). -/
theorem huge_shift_escapes_as_overflow_error :
    eval (2 ^ 64) (fun _ => none) false
      (.binop "<<" (.const ['1']) (.const (List.replicate 20 '9'))) = .error .overflowError := by rfl

-- non-vacuity of `const_errors_are_cffi_errors_partial`: `(5 / (3 - 3)) << 2` meets both
-- hypotheses and its evaluation is an error (`CDefError`)
def exExpr : Expr := .binop "<<" (.binop "/" (.const ['5']) (.binop "-" (.const ['3']) (.const ['3']))) (.const ['2'])
example : TokensOk exExpr := by
  simp only [exExpr, TokensOk]
  refine ⟨⟨by simp, by simp, by simp⟩, by simp⟩
example : eval 64 (fun _ => none) false exExpr = .error .cdefError := by rfl
example : ShiftsOk 64 (fun _ => none) exExpr := by
  simp only [exExpr, ShiftsOk]
  refine ⟨⟨trivial, ⟨trivial, trivial, fun h => by simp at h⟩, fun h => by simp at h⟩, trivial, ?_⟩
  intro _ a b ha hb
  have : evalInt 64 (fun _ => none) (.const ['2']) = .ok 2 := by rfl
  rw [this] at hb; cases hb; right; decide

end Const
end CffiVerif.C30
