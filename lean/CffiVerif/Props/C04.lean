import CffiVerif.Proofs.IntCast

/-!
C04 — `ffi.cast` to integer and character types follows C conversion rules.

Statement on the model `CInt.cast` / `CInt.castInt` (= `int(ffi.cast(T, x))`, Model/IntCast.lean).
The arithmetic of the model is *not* hand-written: every expression assigned to `value` in
`cast_to_integer_or_char`, `!!value`, the truncation of `write_raw_integer_data`, the raw and
character reads of `cdata_int`, the guards and CPython calls of `_my_PyLong_AsUnsignedLongLong` /
`_my_PyObject_AsBool` come from `Generated/CastExprs.lean`, re-extracted from the C source on every
run, so each theorem below is re-checked by the kernel against the current source.

`T` ranges over every integer or character primitive (1/2/4/8 bytes; signed, unsigned, _Bool, char
kinds; `T.CharWF`: a signed wchar_t is 4 bytes, there is no 8-byte character type).  Sources: Python
int / bool / float, bytes, str, pointer-like cdata and built-in functions, integer / character /
float cdata, instances of Python classes with `__int__` / `__float__` / `__index__`, other objects.
`src.trunc` is the source truncated toward zero and is `none` exactly for the sources the
property's "succeeds" clause excludes (non-finite floats, non-single bytes/str, non-numbers).
-/
namespace CffiVerif.C04
open CffiVerif.CInt CffiVerif.Generated

/-! ### the regenerated pieces mean what the model of C03 says by hand -/

/-- the branches of `cast_to_integer_or_char` are the ones `castValue` follows, in this order;
the integer conversions are the non-strict ones; the raw read/write type lists cover sizes 1,2,4,8 -/
theorem generated_shape :
    CastExprs.castBranches = modelledBranches ∧ CastExprs.castStrict = false ∧ CastExprs.ptrCastStrict = false ∧
    CastExprs.ullCalls = ("PyLong_AsUnsignedLongLong", "PyLong_AsUnsignedLongLongMask") ∧
    CastExprs.writeRawTypes = [(1, 8, false), (2, 16, false), (4, 32, false), (8, 64, false)] ∧
    CastExprs.readSignedTypes = [(1, 8, true), (2, 16, true), (4, 32, true), (8, 64, true)] ∧
    CastExprs.readUnsignedTypes = [(1, 8, false), (2, 16, false), (4, 32, false), (8, 64, false)] := by
  decide

/-- `write_raw_integer_data` as extracted keeps the low `size` bytes -/
theorem generated_write_is_truncation (v : BitVec 64) (w : Width) : writeRawGen v w = writeRaw (v.toNat : Int) w :=
  writeRawGen_eq v w

/-- `int(cdata)` as extracted is the signed / unsigned / character read of the object -/
theorem generated_read_is_readInt (T : IntType) (hT : T.CharWF) (data : List UInt8) (hl : T.bytes ≤ data.length) :
    cdataToInt T data = readInt T data :=
  cdataToInt_eq_readInt T hT data hl

/-- every type of the table is well formed -/
theorem castTypes_wf : (∀ T ∈ castTypes, T.CharWF) ∧ castTypes.length = 46 ∧
    (castTypes.filter (·.kind = .bool)).length = 1 := by decide

/-! ### the property -/

/-- **the cast succeeds and yields the wrapped truncation** (non-`_Bool`):
`int(ffi.cast(T, x)) = T.wrap (trunc x)`. -/
theorem cast_eq_wrap (T : IntType) (hb : T.kind ≠ .bool) (hT : T.CharWF) (src : CastSrc) (hwf : src.WF)
    (x : Int) (hx : src.trunc = some x) : castInt T src = .ok (T.wrap x) :=
  castInt_eq_wrap T hb hT src hwf x hx

/-- `T.wrap x` lies in `T`'s range … -/
theorem wrap_in_range (T : IntType) (hb : T.kind ≠ .bool) (x : Int) : T.InRange (T.wrap x) := by
  rcases T with ⟨n, w, k⟩
  cases k <;> cases w <;>
    simp [IntType.InRange, IntType.lo, IntType.hi, IntType.wrap, CInt.wrap, IntType.readsSigned, IntType.bits,
      Width.bits, Width.bytes, wrapS, wrapU] at hb ⊢ <;> omega

/-- … is congruent to `x` modulo `2^(8·sizeof T)` … -/
theorem wrap_congr_mod (T : IntType) (x : Int) : (T.wrap x - x) % 2 ^ T.bits = 0 := by
  rcases T with ⟨n, w, k⟩
  cases k <;> cases w <;>
    simp [IntType.wrap, CInt.wrap, IntType.readsSigned, IntType.bits, Width.bits, Width.bytes, wrapS, wrapU] <;>
    omega

/-- … and is the only such value: range + congruence pin the result down. -/
theorem wrap_unique (T : IntType) (hb : T.kind ≠ .bool) (x r : Int)
    (hr : T.InRange r) (hc : (r - x) % 2 ^ T.bits = 0) : r = T.wrap x := by
  rcases T with ⟨n, w, k⟩
  cases k <;> cases w <;>
    simp [IntType.InRange, IntType.lo, IntType.hi, IntType.wrap, CInt.wrap, IntType.readsSigned, IntType.bits,
      Width.bits, Width.bytes, wrapS, wrapU] at hb hr hc ⊢ <;> omega

/-- **cast range**: whatever the source, a cast that succeeds yields a value of `T` (`_Bool` included). -/
theorem cast_in_range (T : IntType) (hT : T.CharWF) (src : CastSrc) (r : Int) (h : castInt T src = .ok r) :
    T.InRange r := by
  cases hv : castValue T src with
  | error e => simp [castInt, CInt.cast, hv] at h
  | ok value =>
    by_cases hb : T.kind = .bool
    · rw [castInt_bool_of_value T hb src value hv] at h
      cases h
      by_cases h0 : value = 0#64 <;> simp [h0, IntType.InRange, IntType.lo, IntType.hi, hb]
    · rw [castInt_of_value T hb hT src value hv] at h
      cases h
      exact wrap_in_range T hb _

/-- **cast congruence**: `int(ffi.cast(T, x)) ≡ trunc x (mod 2^(8·sizeof T))`. -/
theorem cast_congr (T : IntType) (hb : T.kind ≠ .bool) (hT : T.CharWF) (src : CastSrc) (hwf : src.WF)
    (x : Int) (hx : src.trunc = some x) :
    ∃ r, castInt T src = .ok r ∧ (r - x) % 2 ^ T.bits = 0 :=
  ⟨_, castInt_eq_wrap T hb hT src hwf x hx, wrap_congr_mod T x⟩

/-- hence, wherever C defines the conversion by "the value is unchanged" (the truncated source is
representable in `T`), the cast yields exactly that value. -/
theorem cast_preserves_representable (T : IntType) (hb : T.kind ≠ .bool) (hT : T.CharWF) (src : CastSrc)
    (hwf : src.WF) (x : Int) (hx : src.trunc = some x) (hr : T.InRange x) : castInt T src = .ok x := by
  rw [castInt_eq_wrap T hb hT src hwf x hx, ← wrap_unique T hb x x hr (by simp)]

example : castInt (mk "signed char" .w8 .signed) (.int 200) = .ok (-56) := by rfl
example : castInt (mk "wchar_t" .w32 .swchar) (.str [0x1F600]) = .ok 0x1F600 := by rfl
example : castInt (mk "char" .w8 .char) (.str [0x1234]) = .ok 0x34 := by rfl
example : castInt (mk "int" .w32 .signed) (.float (.finite (-7) (-1))) = .ok (-3) := by rfl      -- -3.5
example : castInt (mk "unsigned short" .w16 .unsigned) (.int (-(2 ^ 100) - 1)) = .ok 65535 := by rfl
example : castInt (mk "long" .w64 .signed) (.cdataInt (mk "unsigned char" .w8 .unsigned) [200]) = .ok 200 := by rfl
example : castInt (mk "signed char" .w8 .signed) (.obj true (some (.int 300)) none) = .ok 44 := by rfl
example : (CastSrc.str [0x1F600]).WF := by simp [CastSrc.WF]
example : (CastSrc.ptr (2 ^ 64 - 1)).WF := by simp [CastSrc.WF]
example : (CastSrc.cdataInt (mk "int" .w32 .signed) [0xfb, 0xff, 0xff, 0xff]).trunc = some (-5) := by rfl

/-- `int(float)` is truncation toward zero: for a negative exponent the result `q` is the
integer of largest magnitude with `|q| · 2^-e ≤ |m|`, with the sign of `m`. -/
theorem floatTrunc_toward_zero (m e : Int) (he : e < 0) :
    (0 ≤ m → floatTrunc m e * 2 ^ (-e).toNat ≤ m ∧ m < (floatTrunc m e + 1) * 2 ^ (-e).toNat) ∧
    (m < 0 → (floatTrunc m e - 1) * 2 ^ (-e).toNat < m ∧ m ≤ floatTrunc m e * 2 ^ (-e).toNat) := by
  have hne : ¬ e ≥ 0 := by omega
  simp only [floatTrunc, hne, if_false]
  have hd : (0 : Int) < 2 ^ (-e).toNat := Int.pow_pos (by decide)
  generalize (2 : Int) ^ (-e).toNat = d at hd
  constructor
  · intro hm
    rw [Int.tdiv_eq_ediv_of_nonneg hm]
    have h1 := Int.emod_add_mul_ediv m d
    have h2 := Int.emod_nonneg m (Int.ne_of_gt hd)
    have h3 := Int.emod_lt_of_pos m hd
    constructor
    · calc m / d * d = d * (m / d) := Int.mul_comm _ _
        _ ≤ m := by omega
    · calc m = m % d + d * (m / d) := h1.symm
        _ < d + d * (m / d) := by omega
        _ = (m / d + 1) * d := by rw [Int.add_mul, Int.one_mul, Int.mul_comm, Int.add_comm]
  · intro hm
    have hneg : m.tdiv d = -((-m).tdiv d) := by rw [Int.neg_tdiv, Int.neg_neg]
    rw [hneg, Int.tdiv_eq_ediv_of_nonneg (by omega : 0 ≤ -m)]
    have h1 := Int.emod_add_mul_ediv (-m) d
    have h2 := Int.emod_nonneg (-m) (Int.ne_of_gt hd)
    have h3 := Int.emod_lt_of_pos (-m) hd
    have e1 : (-(-m / d) - 1) * d = -(d * (-m / d)) - d := by
      rw [Int.sub_mul, Int.neg_mul, Int.one_mul, Int.mul_comm]
    have e2 : -(-m / d) * d = -(d * (-m / d)) := by rw [Int.neg_mul, Int.mul_comm]
    rw [e1, e2]
    constructor <;> omega

example : floatTrunc (-7) (-1) = -3 ∧ floatTrunc 7 (-1) = 3 ∧ floatTrunc 3 70 = 3 * 2 ^ 70 := by decide

/-- **`_Bool`**: the result is 0/1 by non-zeroness of the source itself (`0.5`, `inf`, `nan` are true;
for an object, of what `__float__` returns if defined, else `__int__`). -/
theorem cast_bool (T : IntType) (hb : T.kind = .bool) (src : CastSrc) (hwf : src.WF) (b : Bool)
    (hn : src.nonzero = some b) : castInt T src = .ok (if b then 1 else 0) := by
  have key : ∀ value : BitVec 64, castValue T src = .ok value → (value = 0#64 ↔ b = false) →
      castInt T src = .ok (if b then 1 else 0) := by
    intro value hv hz
    rw [castInt_bool_of_value T hb src value hv]
    cases b <;> simp_all
  have viaAsBool : src.viaObject = true → castInt T src = .ok (if b then 1 else 0) := by
    intro hs
    have ha := asBool_eq src b hn hs
    refine key (CastExprs.boolResValue (if b = false then 0#32 else 1#32)) ?_ ?_
    · cases src <;> first | (simp [CastSrc.viaObject] at hs; done) | simp [castValue, hb, ha]
    · rw [boolResValue_ite]; cases b <;> simp
  cases src with
  | bytes bs =>
    match bs, hn with
    | [x], hn =>
      cases hn
      refine key _ rfl ?_
      have := x.toNat_lt
      rw [← BitVec.toNat_inj]
      simp [CastExprs.bytesValue]
      try omega
  | str cps =>
    match cps, hn with
    | [cp], hn =>
      cases hn
      have hcp : cp ≤ 0x10FFFF := hwf cp (by simp)
      have hk : ¬ T.kind = .swchar := by rw [hb]; simp
      refine key (CastExprs.charValue (BitVec.ofNat 32 cp)) (by simp [castValue, hk]) ?_
      rw [← BitVec.toNat_inj]
      simp [CastExprs.charValue]
      omega
  | ptr a =>
    cases hn
    simp [CastSrc.WF] at hwf
    refine key _ rfl ?_
    rw [← BitVec.toNat_inj]
    simp [CastExprs.ptrValue]
    omega
  | int v => exact viaAsBool rfl
  | bool c => exact viaAsBool rfl
  | float f => exact viaAsBool rfl
  | cdataInt S bs => exact viaAsBool rfl
  | cdataFloat f => exact viaAsBool rfl
  | cdataOther => exact viaAsBool rfl
  | obj h i f => exact viaAsBool rfl
  | noNumber => exact viaAsBool rfl

example : castInt (mk "_Bool" .w8 .bool) (.float (.finite 1 (-1))) = .ok 1 := by rfl      -- 0.5
example : castInt (mk "_Bool" .w8 .bool) (.int (2 ^ 64)) = .ok 1 := by rfl                 -- not masked first
example : castInt (mk "_Bool" .w8 .bool) (.ptr 0) = .ok 0 := by rfl
example : castInt (mk "_Bool" .w8 .bool) (.obj false (some (.int 0)) (some (.float (.finite 1 (-1))))) = .ok 1 := by rfl

/-! ### what the "succeeds" clause excludes, and which objects are accepted -/

/-- **non-finite floats** (Python float or float cdata): OverflowError for an infinity, ValueError for
a nan — except to `_Bool`, where both are simply non-zero. -/
theorem cast_nonfinite (T : IntType) (hb : T.kind ≠ .bool) (n : Bool) :
    castInt T (.float (.inf n)) = .error .overflow ∧ castInt T (.float .nan) = .error .valueError ∧
    castInt T (.cdataFloat (.inf n)) = .error .overflow ∧ castInt T (.cdataFloat .nan) = .error .valueError := by
  simp [castInt, CInt.cast, castValue, hb, asULL, CastExprs.ullRefuses, CastExprs.castStrict, CastSrc.nbInt,
    CastSrc.isCDataOrFloat, FloatVal.toInt, Except.map]

/-- **which objects are accepted**: `__index__` is never consulted; without `__int__` (or with an
`__int__` that does not return an int) only `_Bool` is possible, through `__float__`; an object
with neither, a struct cdata, None … is a TypeError for every target. -/
theorem cast_object_protocol (T : IntType) (i f : Option PyRes) :
    castInt T (.obj true i f) = castInt T (.obj false i f) ∧
    (T.kind ≠ .bool → ∀ h, castInt T (.obj h none f) = .error .typeError ∧
      castInt T (.obj h (some .other) f) = .error .typeError ∧
      ∀ g, castInt T (.obj h (some (.float g)) f) = .error .typeError) ∧
    (∀ h, castInt T (.obj h none none) = .error .typeError) ∧
    castInt T .noNumber = .error .typeError ∧ castInt T .cdataOther = .error .typeError := by
  refine ⟨rfl, fun hb h => ⟨?_, ?_, fun g => ?_⟩, fun h => ?_, ?_, ?_⟩
  all_goals
    by_cases hb' : T.kind = .bool <;>
    simp_all [castInt, CInt.cast, castValue, asULL, asBool, CastExprs.ullRefuses, CastExprs.castStrict, CastSrc.nbInt,
      CastSrc.nbFloat, CastSrc.isCDataOrFloat, CastSrc.isCData, CastExprs.asBoolRefuses, CastExprs.asBoolUsesFloat]

/-- a bytes / str source that is not a single character is a TypeError -/
theorem cast_rejects_non_single (T : IntType) :
    (∀ bs : List UInt8, bs.length ≠ 1 → castInt T (.bytes bs) = .error .typeError) ∧
    (∀ cps : List Nat, cps.length ≠ 1 → castInt T (.str cps) = .error .typeError) := by
  constructor
  · intro bs h
    match bs, h with
    | [], _ => rfl
    | _ :: _ :: _, _ => rfl
  · intro cps h
    match cps, h with
    | [], _ => rfl
    | _ :: _ :: _, _ => rfl

/-! ### pointer ↔ integer -/

theorem toptr_of_int (r : Int) : castToPointer r = .ok (r % 2 ^ 64).toNat := by
  simp [castToPointer, castToPointerSrc, asULL, CastExprs.ptrCastStrict, pyLongToULL_mask, CastExprs.intToPtr,
    BitVec.toNat_ofInt]

/-- **pointer → `intptr_t` / `uintptr_t` → pointer** is the identity on addresses, whether the
integer goes back as a Python int or directly as the cdata. -/
theorem ptr_int_ptr (n : String) (k : Kind) (hk : k = .signed ∨ k = .unsigned) (a : Nat) (ha : a < 2 ^ 64) :
    ∃ r bs, castInt ⟨n, .w64, k⟩ (.ptr a) = .ok r ∧ castToPointer r = .ok a ∧
      cast ⟨n, .w64, k⟩ (.ptr a) = .ok bs ∧ castToPointerSrc (.cdataInt ⟨n, .w64, k⟩ bs) = .ok a := by
  have hb : (⟨n, .w64, k⟩ : IntType).kind ≠ .bool := by rcases hk with rfl | rfl <;> simp
  have hT : (⟨n, .w64, k⟩ : IntType).CharWF := by
    rcases hk with rfl | rfl <;> constructor <;> intro h <;> cases h
  have hc := castInt_eq_wrap ⟨n, .w64, k⟩ hb hT (.ptr a) ha a rfl
  have hw : ((⟨n, .w64, k⟩ : IntType).wrap a % 2 ^ 64).toNat = a := by
    rcases hk with rfl | rfl <;>
      simp [IntType.wrap, CInt.wrap, IntType.readsSigned, IntType.bits, Width.bits, Width.bytes, wrapS, wrapU] <;> omega
  refine ⟨_, writeRawGen (CastExprs.ptrValue (BitVec.ofNat 64 a)) .w64, hc, by rw [toptr_of_int, hw], ?_, ?_⟩
  · simp [CInt.cast, castValue, hb]
  · have hread : cdataToInt ⟨n, .w64, k⟩ (writeRawGen (CastExprs.ptrValue (BitVec.ofNat 64 a)) .w64) =
        .ok ((⟨n, .w64, k⟩ : IntType).wrap a) := by
      have := hc
      simp only [castInt, CInt.cast, castValue, hb, if_false] at this
      exact this
    have hsrc : (CastSrc.cdataInt ⟨n, .w64, k⟩ (writeRawGen (CastExprs.ptrValue (BitVec.ofNat 64 a)) .w64)).nbInt =
        some (.ok (.int ((⟨n, .w64, k⟩ : IntType).wrap a))) := by
      simp [CastSrc.nbInt, hread, Except.map]
    simp [castToPointerSrc, asULL, CastExprs.ptrCastStrict, CastExprs.ullRefuses, hsrc, CastSrc.isCDataOrFloat,
      pyLongToULL_mask, CastExprs.intToPtr, BitVec.toNat_ofInt]
    omega

example : castInt (mk "intptr_t" .w64 .signed) (.ptr (2 ^ 64 - 1)) = .ok (-1) ∧ castToPointer (-1) = .ok (2 ^ 64 - 1) :=
  ⟨by rfl, by rfl⟩

end CffiVerif.C04
