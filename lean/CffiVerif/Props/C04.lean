import CffiVerif.Proofs.CInt

/-!
C04 — `ffi.cast` to integer and character types follows C conversion rules.

Statement on the model (`CInt.cast`, `CInt.castInt` = `int(ffi.cast(T, x))`,
mirroring `cast_to_integer_or_char`).  `T` ranges over *every* integer or
character primitive `(width ∈ {1,2,4,8} bytes, kind ∈ {signed, unsigned, _Bool,
char, signed wchar_t})`; sources: every Python int, bool, finite float
`m·2^e`, one byte, one code point ≤ 0x10FFFF, every address < 2^64
(`CastSrc.WF`).  `src.trunc` is the source truncated toward zero (code point,
byte, address), `T.wrap` the value of `T`'s range congruent modulo `2^bits`.
-/
namespace CffiVerif.C04
open CffiVerif.CInt

/-- **the cast never fails and yields the wrapped truncation** (non-`_Bool`): in one equation,
`int(ffi.cast(T, x)) = T.wrap (trunc x)`. -/
theorem cast_eq_wrap (T : IntType) (hb : T.kind ≠ .bool) (src : CastSrc) (hwf : src.WF) :
    ∃ x, src.trunc = some x ∧ castInt T src = .ok (T.wrap x) :=
  castInt_eq_wrap T hb src hwf

/-- `T.wrap x` lies in `T`'s range … -/
theorem wrap_in_range (T : IntType) (hb : T.kind ≠ .bool) (x : Int) : T.InRange (T.wrap x) := by
  rcases T with ⟨n, w, k⟩
  cases k <;> cases w <;>
    simp [IntType.InRange, IntType.lo, IntType.hi, IntType.wrap, CInt.wrap, IntType.readsSigned, IntType.bits,
      Width.bits, Width.bytes, wrapS, wrapU] at hb ⊢ <;> omega

/-- … is congruent to `x` modulo `2^(8·sizeof T)` … -/
theorem wrap_congr_mod (T : IntType) (x : Int) : (T.wrap x - x) % 2 ^ T.bits = 0 := by
  rcases T with ⟨n, w, k⟩
  cases k <;> cases w <;>
    simp [IntType.wrap, CInt.wrap, IntType.readsSigned, IntType.bits, Width.bits, Width.bytes, wrapS, wrapU] <;>
    omega

/-- … and is the only such value: range + congruence pin the result down. -/
theorem wrap_unique (T : IntType) (hb : T.kind ≠ .bool) (x r : Int)
    (hr : T.InRange r) (hc : (r - x) % 2 ^ T.bits = 0) : r = T.wrap x := by
  rcases T with ⟨n, w, k⟩
  cases k <;> cases w <;>
    simp [IntType.InRange, IntType.lo, IntType.hi, IntType.wrap, CInt.wrap, IntType.readsSigned, IntType.bits,
      Width.bits, Width.bytes, wrapS, wrapU] at hb hr hc ⊢ <;> omega

/-- **cast range**: the result is a value of `T` (all kinds, `_Bool` included). -/
theorem cast_in_range (T : IntType) (src : CastSrc) (r : Int) (h : castInt T src = .ok r) : T.InRange r := by
  by_cases hb : T.kind = .bool
  · -- `!!value` is 0 or 1
    simp only [castInt, CInt.cast, hb, if_true] at h
    cases hv : castValue T src with
    | error e => simp [hv] at h
    | ok value =>
      simp only [hv] at h
      rcases T with ⟨n, w, k⟩
      simp only at hb; subst hb
      by_cases h0 : value = 0 <;> simp only [h0, ne_eq, not_true_eq_false, not_false_eq_true, if_true, if_false] at h <;>
        cases w <;> (simp [readInt, IntType.bytes, Width.bytes, writeRaw, wrapU, toLE, readRawUnsigned, fromLE] at h) <;>
        subst h <;> simp [IntType.InRange, IntType.lo, IntType.hi]
  · simp only [castInt, CInt.cast, hb, if_false] at h
    cases hv : castValue T src with
    | error e => simp [hv] at h
    | ok value =>
      simp only [hv, readInt_writeRaw_wrap T hb] at h
      cases h
      exact wrap_in_range T hb value

/-- **cast congruence**: `int(ffi.cast(T, x)) ≡ trunc x (mod 2^(8·sizeof T))`. -/
theorem cast_congr (T : IntType) (hb : T.kind ≠ .bool) (src : CastSrc) (hwf : src.WF) :
    ∃ x r, src.trunc = some x ∧ castInt T src = .ok r ∧ (r - x) % 2 ^ T.bits = 0 := by
  obtain ⟨x, hx, hc⟩ := castInt_eq_wrap T hb src hwf
  exact ⟨x, _, hx, hc, wrap_congr_mod T x⟩

/-- hence, wherever C defines the conversion by "the value is unchanged" (the truncated source is
representable in `T`), the cast yields exactly that value. -/
theorem cast_preserves_representable (T : IntType) (hb : T.kind ≠ .bool) (src : CastSrc) (hwf : src.WF)
    (x : Int) (hx : src.trunc = some x) (hr : T.InRange x) : castInt T src = .ok x := by
  obtain ⟨x', hx', hc⟩ := castInt_eq_wrap T hb src hwf
  rw [hx] at hx'; cases hx'
  rw [hc, ← wrap_unique T hb x x hr (by simp)]

example : castInt (mk "signed char" .w8 .signed) (.int 200) = .ok (-56) := by rfl
example : castInt (mk "wchar_t" .w32 .swchar) (.str [0x1F600]) = .ok 0x1F600 := by rfl
example : castInt (mk "char" .w8 .char) (.str [0x1234]) = .ok 0x34 := by rfl
example : castInt (mk "int" .w32 .signed) (.float (-7) (-1)) = .ok (-3) := by rfl      -- -3.5
example : castInt (mk "unsigned short" .w16 .unsigned) (.int (-(2 ^ 100) - 1)) = .ok 65535 := by rfl
example : (CastSrc.str [0x1F600]).WF := ⟨_, rfl, by decide⟩
example : (CastSrc.ptr (2 ^ 64 - 1)).WF := by simp [CastSrc.WF]

/-- `int(float)` is truncation toward zero: for a negative exponent the result `q` is the
integer of largest magnitude with `|q| · 2^-e ≤ |m|`, with the sign of `m`. -/
theorem floatTrunc_toward_zero (m e : Int) (he : e < 0) :
    (0 ≤ m → floatTrunc m e * 2 ^ (-e).toNat ≤ m ∧ m < (floatTrunc m e + 1) * 2 ^ (-e).toNat) ∧
    (m < 0 → (floatTrunc m e - 1) * 2 ^ (-e).toNat < m ∧ m ≤ floatTrunc m e * 2 ^ (-e).toNat) := by
  have hne : ¬ e ≥ 0 := by omega
  simp only [floatTrunc, hne, if_false]
  have hd : (0 : Int) < 2 ^ (-e).toNat := Int.pow_pos (by decide)
  generalize (2 : Int) ^ (-e).toNat = d at hd
  constructor
  · intro hm
    rw [Int.tdiv_eq_ediv_of_nonneg hm]
    have h1 := Int.emod_add_mul_ediv m d
    have h2 := Int.emod_nonneg m (Int.ne_of_gt hd)
    have h3 := Int.emod_lt_of_pos m hd
    constructor
    · calc m / d * d = d * (m / d) := Int.mul_comm _ _
        _ ≤ m := by omega
    · calc m = m % d + d * (m / d) := h1.symm
        _ < d + d * (m / d) := by omega
        _ = (m / d + 1) * d := by rw [Int.add_mul, Int.one_mul, Int.mul_comm, Int.add_comm]
  · intro hm
    have hneg : m.tdiv d = -((-m).tdiv d) := by rw [Int.neg_tdiv, Int.neg_neg]
    rw [hneg, Int.tdiv_eq_ediv_of_nonneg (by omega : 0 ≤ -m)]
    have h1 := Int.emod_add_mul_ediv (-m) d
    have h2 := Int.emod_nonneg (-m) (Int.ne_of_gt hd)
    have h3 := Int.emod_lt_of_pos (-m) hd
    have e1 : (-(-m / d) - 1) * d = -(d * (-m / d)) - d := by
      rw [Int.sub_mul, Int.neg_mul, Int.one_mul, Int.mul_comm]
    have e2 : -(-m / d) * d = -(d * (-m / d)) := by rw [Int.neg_mul, Int.mul_comm]
    rw [e1, e2]
    constructor <;> omega

example : floatTrunc (-7) (-1) = -3 ∧ floatTrunc 7 (-1) = 3 ∧ floatTrunc 3 70 = 3 * 2 ^ 70 := by decide

/-- **`_Bool`**: the result is 0/1 by non-zeroness of the source itself (`0.5` is true). -/
theorem cast_bool (T : IntType) (hb : T.kind = .bool) (src : CastSrc) (hwf : src.WF) :
    ∃ b, src.nonzero = some b ∧ castInt T src = .ok (if b then 1 else 0) := by
  rcases T with ⟨n, w, k⟩
  simp only at hb; subst hb
  have key : ∀ c : Bool, (match (Except.ok (writeRaw (if c then 1 else 0) w) : Except ErrKind (List UInt8)) with
      | .error e => (.error e : Except ErrKind Int) | .ok bs => readInt ⟨n, w, .bool⟩ bs) = .ok (if c then 1 else 0) := by
    intro c
    cases c <;> cases w <;> simp [readInt, IntType.bytes, Width.bytes, writeRaw, wrapU, toLE, readRawUnsigned, fromLE]
  cases src with
  | int v =>
    refine ⟨v != 0, rfl, ?_⟩
    have := key (v != 0)
    by_cases h0 : v = 0 <;> simp [castInt, CInt.cast, castValue, h0] at this ⊢ <;> exact this
  | bool b =>
    refine ⟨b, rfl, ?_⟩
    have := key b
    cases b <;> simp [castInt, CInt.cast, castValue] at this ⊢ <;> exact this
  | float m e =>
    refine ⟨m != 0, rfl, ?_⟩
    have := key (m != 0)
    by_cases h0 : m = 0 <;> simp [castInt, CInt.cast, castValue, h0] at this ⊢ <;> exact this
  | bytes bs =>
    match bs, hwf with
    | [b], _ =>
      refine ⟨b.toNat != 0, rfl, ?_⟩
      have := key (b.toNat != 0)
      by_cases h0 : b.toNat = 0 <;> simp [castInt, CInt.cast, castValue, h0] at this ⊢ <;> exact this
  | str cps =>
    obtain ⟨cp, rfl, hcp⟩ := hwf
    refine ⟨cp != 0, rfl, ?_⟩
    have := key (cp != 0)
    have hw : wrapU 32 (cp : Int) = cp := by simp [wrapU]; omega
    by_cases h0 : cp = 0 <;> simp [castInt, CInt.cast, castValue, h0, hw] at this ⊢ <;> exact this
  | ptr a =>
    refine ⟨a != 0, rfl, ?_⟩
    simp [CastSrc.WF] at hwf
    have := key (a != 0)
    have hw : wrapU 64 (wrapS 64 (a : Int)) = a := by simp [wrapU, wrapS]; omega
    by_cases h0 : a = 0 <;> simp [castInt, CInt.cast, castValue, h0, hw] at this ⊢ <;> exact this

example : castInt (mk "_Bool" .w8 .bool) (.float 1 (-1)) = .ok 1 := by rfl      -- 0.5
example : castInt (mk "_Bool" .w8 .bool) (.int (2 ^ 64)) = .ok 1 := by rfl      -- not masked to 64 bits first
example : castInt (mk "_Bool" .w8 .bool) (.ptr 0) = .ok 0 := by rfl

/-- **pointer → `intptr_t` → pointer** is the identity on addresses. -/
theorem ptr_intptr_ptr (n : String) (a : Nat) (ha : a < 2 ^ 64) :
    ∃ r, castInt ⟨n, .w64, .signed⟩ (.ptr a) = .ok r ∧ castToPointer r = a := by
  obtain ⟨x, hx, hc⟩ := castInt_eq_wrap ⟨n, .w64, .signed⟩ (by simp) (.ptr a) ha
  cases hx
  refine ⟨_, hc, ?_⟩
  simp [castToPointer, myAsUnsignedLongLong, pyLongAsUnsignedLongLongMask, IntType.wrap, CInt.wrap,
    IntType.readsSigned, IntType.bits, Width.bits, Width.bytes, wrapS, wrapU]
  omega

/-- **pointer → `uintptr_t` → pointer** is the identity on addresses. -/
theorem ptr_uintptr_ptr (n : String) (a : Nat) (ha : a < 2 ^ 64) :
    ∃ r, castInt ⟨n, .w64, .unsigned⟩ (.ptr a) = .ok r ∧ castToPointer r = a := by
  obtain ⟨x, hx, hc⟩ := castInt_eq_wrap ⟨n, .w64, .unsigned⟩ (by simp) (.ptr a) ha
  cases hx
  refine ⟨_, hc, ?_⟩
  simp [castToPointer, myAsUnsignedLongLong, pyLongAsUnsignedLongLongMask, IntType.wrap, CInt.wrap,
    IntType.readsSigned, IntType.bits, Width.bits, Width.bytes, wrapS, wrapU]
  omega

example : castInt (mk "intptr_t" .w64 .signed) (.ptr (2 ^ 64 - 1)) = .ok (-1) ∧ castToPointer (-1) = 2 ^ 64 - 1 :=
  ⟨by rfl, by decide⟩

/-- the error branch: a bytes / str source that is not a single character is a TypeError -/
theorem cast_rejects_non_single (T : IntType) :
    (∀ bs : List UInt8, bs.length ≠ 1 → castInt T (.bytes bs) = .error .typeError) ∧
    (∀ cps : List Nat, cps.length ≠ 1 → castInt T (.str cps) = .error .typeError) := by
  constructor
  · intro bs h
    match bs, h with
    | [], _ => rfl
    | _ :: _ :: _, _ => rfl
  · intro cps h
    match cps, h with
    | [], _ => rfl
    | _ :: _ :: _, _ => rfl

/-- the table the correspondence runs over consists of such types (42 integer + 4 character) -/
theorem castTypes_count : castTypes.length = 46 ∧ (castTypes.filter (·.kind = .bool)).length = 1 := by decide

end CffiVerif.C04
