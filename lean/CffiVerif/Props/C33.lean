import CffiVerif.Proofs.GenConst

/-!
C33 — `verify()` produces the same library behaviour as `set_source()` (partial).

Proved on terms regenerated from the sources every run: the integer conversion macros that
`vengine_cpy.py` embeds are the ones of `_cffi_include.h` (text and denotation), they return the
C value / select the helper of the right width and signedness, and the constant protocols of the
two verify() engines decode to the compiler's value — the same value `realize_global_int`
produces for a `set_source()` module (C12).  Everything beyond this conversion layer is C code
compiled by gcc and is covered by the correspondence run only.
-/
namespace CffiVerif.C33
open CffiVerif CffiVerif.CheckIntOps CffiVerif.GenConst CffiVerif.Generated.VerifyMacros

/-- The macro texts embedded in `vengine_cpy.py` equal the originals (whitespace-normalised). -/
theorem macros_text_equal :
    cpyFromCIntText = incFromCIntText ∧ cpyToCIntText = incToCIntText := ⟨rfl, rfl⟩

example : cpyFromCIntText.take 4 = [40, 40, 40, 116] ∧ cpyToCIntText.take 3 = [40, 40, 116] := by decide

/-- … and so do their denotations as functions of (signedness, size, value). -/
theorem cpy_macros_eq_include_macros :
    (∀ u size x, cpyFromCInt u size x = incFromCInt u size x) ∧
    (∀ u size, cpyToCInt u size = incToCInt u size) :=
  ⟨fun _ _ _ => rfl, fun _ _ => rfl⟩

/-- `x` is a value of the integer type of `size` bytes (unsigned iff `u ≠ 0`): casting keeps it. -/
def InType (u size x : Int) : Prop := castT u size x = x
instance (u size x : Int) : Decidable (InType u size x) := by unfold InType; exact inferInstance

/-- `_cffi_from_c_int(x, type)` hands the C value itself to the `PyLong_From…` constructor it
    selects, for every integer type of 1, 2, 4 or 8 bytes. -/
theorem from_c_int_returns_value (u size x : Int) (hu : u = 0 ∨ u = 1)
    (hs : size = 1 ∨ size = 2 ∨ size = 4 ∨ size = 8) (hx : InType u size x) :
    cpyFromCInt u size x = x := by
  unfold InType at hx
  unfold cpyFromCInt cLong cULong
  rcases hs with rfl | rfl | rfl | rfl
  · rw [castT_eq u 1 _ 256 (by decide)] at hx ⊢
    rcases hu with rfl | rfl
    · simp at hx; simp [cGt, cLt, cEq, cLe, cBool]; apply cLL_small <;> omega
    · simp at hx; simp [cGt, cLt, cEq, cLe, cBool]; apply cLL_small <;> omega
  · rw [castT_eq u 2 _ 65536 (by decide)] at hx ⊢
    rcases hu with rfl | rfl
    · simp at hx; simp [cGt, cLt, cEq, cLe, cBool]; apply cLL_small <;> omega
    · simp at hx; simp [cGt, cLt, cEq, cLe, cBool]; apply cLL_small <;> omega
  · rw [castT_eq u 4 _ 4294967296 (by decide)] at hx ⊢
    rcases hu with rfl | rfl
    · simp at hx; simp [cGt, cLt, cEq, cLe, cBool]; apply cLL_small <;> omega
    · simp at hx; simp [cGt, cLt, cEq, cLe, cBool]; apply cLL_small <;> omega
  · rw [castT_eq u 8 _ 18446744073709551616 (by decide)] at hx ⊢
    rcases hu with rfl | rfl
    · simp at hx; simp [cGt, cLt, cEq, cLe, cBool]; apply cLL_small <;> omega
    · simp at hx; simp [cGt, cLt, cEq, cLe, cBool]; unfold two64; omega

example : InType 0 2 (-32768) ∧ ¬ InType 0 2 32768 := by decide
example : cpyFromCInt 0 2 (-32768) = -32768 := from_c_int_returns_value 0 2 _ (by decide) (by decide) (by decide)
example : cpyFromCInt 1 8 18446744073709551615 = 18446744073709551615 :=
  from_c_int_returns_value 1 8 _ (by decide) (by decide) (by decide)

/-- `_cffi_to_c_int(o, type)` dispatches to the helper of the type's width and signedness. -/
theorem to_c_int_selects (u size : Int) (hu : u = 0 ∨ u = 1)
    (hs : size = 1 ∨ size = 2 ∨ size = 4 ∨ size = 8) :
    cpyToCInt u size = some (decide (u = 1), (8 * size).toNat) := by
  rcases hu with rfl | rfl <;> rcases hs with rfl | rfl | rfl | rfl <;> decide

/-- CPython engine: `_cffi_from_c_int_const(NAME)` is the C value, on all of [-2^63, 2^64). -/
theorem cpy_const_decodes_value (x : Int) (hx : CheckInt.InRange x) : cpyFromCIntConst x = x := by
  unfold CheckInt.InRange two63 two64 at hx
  have e1 : cULL longMax = 9223372036854775807 := by decide
  have e2 : cLL longMin = -9223372036854775808 := by decide
  unfold cpyFromCIntConst
  rw [e1, e2]
  unfold cLong
  by_cases h1 : 0 < x
  · rw [cULL_nonneg x (by omega) hx.2]
    by_cases h2 : x < 9223372036854775808
    · rw [cLL_small x (by omega) h2]; simp [cGt, cLe, cBool, h1]
    · simp [cGt, cLe, cBool, h1]; omega
  · rw [cLL_small x hx.1 (by omega)]
    simp [cGt, cGe, cBool, h1]

/-- Generic engine: the flag+value protocol (`(long long)(NAME)`, `(NAME) <= 0`, `_load_constant`)
    returns the C value for every value in [-2^63, 2^64). -/
theorem gen_const_decodes_value (x : Int) (hx : CheckInt.InRange x) : genConst x = x := by
  unfold CheckInt.InRange two63 two64 at hx
  unfold genConst loadConstant genOutValue genNegative
  by_cases h2 : x < 9223372036854775808
  · rw [cLL_small x hx.1 h2]
    simp [cLe, cBool, two64]; omega
  · rw [cLL_big x (by omega) hx.2]
    simp [cLe, cBool, two64]; omega

example : genConst 18446744073709551615 = 18446744073709551615 := gen_const_decodes_value _ (by decide)
example : genConst (-1) = -1 := gen_const_decodes_value _ (by decide)

/-- The check both engines generate when the cdef gives a value fires iff the C value differs. -/
theorem gen_enum_check_iff (a e : Int) (ha : CheckInt.InRange a) (he : CheckInt.InRange e) :
    genCheckFires e a = true ↔ a ≠ e := by
  unfold CheckInt.InRange two63 two64 at ha he
  unfold genCheckFires genCheckNonpos genCheckPos cLong
  by_cases h1 : e ≤ 0
  · by_cases h2 : 0 < a
    · simp [h1, cOrL, cGt, cBool, h2]; omega
    · rw [cLL_small a ha.1 (by omega)]
      simp [h1, cOrL, cGt, cNe, cBool, h2]
  · by_cases h2 : a ≤ 0
    · simp [h1, cOrL, cLe, cBool, h2]; omega
    · rw [show cULong a = a from cULL_nonneg a (by omega) ha.2]
      simp [h1, cOrL, cLe, cNe, cBool, h2]

theorem cpy_enum_check_iff (a e : Int) (ha : CheckInt.InRange a) (he : CheckInt.InRange e) :
    cpyCheckFires e a = true ↔ a ≠ e :=
  gen_enum_check_iff a e ha he

example : genCheckFires 18446744073709551615 (-1) = true :=
  (gen_enum_check_iff _ _ (by decide) (by decide)).mpr (by decide)

/-- Consequence: for matching declarations the three builds publish the same constant —
    `set_source()` (`CheckInt.libConst`, C12), `verify()` CPython engine, `verify()` generic engine. -/
theorem three_builds_agree_on_constants (k : CheckInt.Kind) (x : Int) (hx : CheckInt.InRange x)
    (cdefValue : Option Int) (hm : ∀ e, cdefValue = some e → e = x) :
    CheckInt.libConst k cdefValue x = .ok x ∧ genLib cdefValue x = .ok x ∧ cpyLib cdefValue x = .ok x := by
  cases cdefValue with
  | none =>
    refine ⟨?_, ?_, ?_⟩
    · cases k <;> exact CheckInt.realize_unchecked x hx
    · simp [genLib, gen_const_decodes_value x hx]
    · simp [cpyLib, cpy_const_decodes_value x hx]
  | some e =>
    have he : e = x := hm e rfl
    subst he
    have hnf : genCheckFires e e = false := by
      cases h : genCheckFires e e with
      | false => rfl
      | true => exact absurd rfl ((gen_enum_check_iff e e hx hx).mp h)
    refine ⟨?_, ?_, ?_⟩
    · unfold CheckInt.libConst CheckInt.declCheck
      cases k <;> simp only [] <;> split <;>
        first | exact CheckInt.realize_checked_agree e hx | exact CheckInt.realize_unchecked e hx
    · simp [genLib, hnf]
    · have : cpyCheckFires e e = false := hnf
      simp [cpyLib, this, cpy_const_decodes_value e hx]

end CffiVerif.C33
