import CffiVerif.Proofs.Primitives

/-!
C06 — primitive type facts agree with the compiler and across all type tables.

Every table below is re-extracted from the cffi source (`Generated/Primitives.lean`)
and from a gcc-compiled program (`Generated/Platform.lean`) on every check run; the
theorems are kernel evaluations (`decide +kernel`) over the *complete* tables, so a
change to any one table that breaks the agreement makes the corresponding theorem
fail to check.  Each theorem also pins the table lengths to one another (and to a
lower bound), so an extractor that found nothing cannot make a statement vacuous.

Known scope note (not a theorem): cffi gives plain `char` no signedness
(`int(ffi.cast("char", -1)) == 255` whatever the compiler's `char` is); the
signedness statement therefore skips the entry named "char".
-/
namespace CffiVerif.C06
open CffiVerif.Primitives
open CffiVerif.Generated.Primitives
open CffiVerif.Generated

/-- `_CFFI_PRIM_i = PRIM_i = position in primitive_name[]`:
the C header and cffi_opcode.py define the same symbols with the same values in the
same order, the values are exactly the positions `0 … n-1`, `n = _CFFI__NUM_PRIM =
_NUM_PRIM = |primitive_name[]|`; slot 0 (`VOID`) is the only `NULL`; for every name,
`primitive_name[PRIMITIVE_TO_INDEX[name]] = name`, and every named slot `i` is reached
from its own name (`PRIMITIVE_TO_INDEX[primitive_name[i]] = i`). -/
theorem index_tables_aligned :
    (cPrimDefs.length : Int) = cNumPrim ∧ (pyPrimDefs.length : Int) = pyNumPrim ∧ cNumPrim = pyNumPrim ∧
    (primitiveName.length : Int) = cNumPrim ∧ 52 ≤ cNumPrim ∧
    cPrimDefs = pyPrimDefs ∧
    cPrimDefs.map (·.2) = (List.range cPrimDefs.length).map Int.ofNat ∧
    (cPrimDefs.map (·.1)).Nodup ∧
    cUnknown = pyUnknown ∧ cUnknown.Nodup ∧ (∀ u ∈ cUnknown, u < 0) ∧
    cPrim "VOID" = some 0 ∧ primitiveName.head? = some none ∧ (∀ x ∈ primitiveName.tail, x.isSome = true) ∧
    (primitiveToIndex.map (·.1)).Nodup ∧
    primitiveToIndex.length + 1 = primitiveName.length ∧
    (∀ p ∈ primitiveToIndex, (primitiveIndex p.1).bind nameOfIndex = some p.1) ∧
    (∀ x ∈ primitiveName.zipIdx, (x.1.all fun n => primitiveIndex n == some (x.2 : Int)) = true) := by
  decide +kernel

/-- The three name sets coincide: every name of `ALL_PRIMITIVE_TYPES` (model.py) has
exactly one row in the backend's list and an index in `PRIMITIVE_TO_INDEX`, no list has
a duplicate or an extra name, and `new_primitive_type` accepts each row (a libffi type
exists for its size / name), so no declared primitive name can raise `KeyError` or
`NotImplementedError`. -/
theorem backend_covers_all_names :
    backendTypes.length = allPrimitiveTypes.length ∧ primitiveToIndex.length = allPrimitiveTypes.length ∧
    51 ≤ allPrimitiveTypes.length ∧
    (backendTypes.map (·.name)).Nodup ∧ (allPrimitiveTypes.map (·.1)).Nodup ∧
    (∀ p ∈ allPrimitiveTypes, (backendEntry p.1).isSome = true ∧ (primitiveIndex p.1).isSome = true) ∧
    (∀ e ∈ backendTypes, (assoc allPrimitiveTypes e.name).isSome = true ∧
      ((rowFlags e).bind fun fl => (rowSize e).map fun sz => ffiSupported e fl sz) = some true) := by
  decide +kernel

/-- model.py's kind letter (`c`har / `i`nteger / `f`loat / complex `j`) is the one the
backend's flags give (`CT_PRIMITIVE_CHAR` / `_SIGNED`,`_UNSIGNED` / `_FLOAT` / `_COMPLEX`,
exactly one of them), and it is the class gcc assigns to the C type of that name. -/
theorem kind_consistent :
    allPrimitiveTypes.length = backendTypes.length ∧ Platform.byName.length = allPrimitiveTypes.length ∧
    51 ≤ allPrimitiveTypes.length ∧
    (∀ p ∈ allPrimitiveTypes,
      ((backendEntry p.1).bind rowFlags).bind kindOfFlags = some p.2 ∧
      (gccClassOfKind p.2).isSome = true ∧
      (factOfName p.1).map (fun f => some f.cls) = some (gccClassOfKind p.2)) := by
  decide +kernel

/-- Signedness: a row flagged `CT_PRIMITIVE_SIGNED` names a type gcc reports as signed
(`(T)-1 < 0`), `CT_PRIMITIVE_UNSIGNED` one it reports as unsigned, and for the wide
character types `CT_IS_SIGNED_WCHAR` is set exactly when gcc says the type is signed
(plain `char` is skipped, see the header). -/
theorem signedness_matches_gcc :
    51 ≤ backendTypes.length ∧ Platform.byName.length = backendTypes.length ∧
    (∀ e ∈ backendTypes, (rowFlags e).isSome = true ∧ (factOfName e.name).isSome = true ∧
      ∀ fl ∈ rowFlags e, ∀ f ∈ factOfName e.name,
        (has fl "CT_PRIMITIVE_SIGNED" = true → f.neg = true) ∧
        (has fl "CT_PRIMITIVE_UNSIGNED" = true → f.neg = false) ∧
        (has fl "CT_PRIMITIVE_CHAR" = true → e.name ≠ "char" → has fl "CT_IS_SIGNED_WCHAR" = f.neg) ∧
        (has fl "CT_IS_SIGNED_WCHAR" = true → has fl "CT_PRIMITIVE_CHAR" = true)) := by
  decide +kernel

-- non-vacuity
example : (backendEntry "wchar_t").bind rowFlags = some ["CT_PRIMITIVE_CHAR", "CT_IS_SIGNED_WCHAR"] := by decide +kernel

/-- `ct_size = sizeof(T)` and `ct_length = offsetof(struct {char x; T y;}, y)` for the
backend's C type `T` of each name equal gcc's `sizeof` and `_Alignof` of the C type the
name denotes (`ssize_t` vs `Py_ssize_t`, `char16_t` vs `cffi_char16_t`,
`float _Complex` vs `float[2]`, …). -/
theorem size_align_matches_gcc :
    51 ≤ backendTypes.length ∧ Platform.byName.length = backendTypes.length ∧
    (∀ e ∈ backendTypes, (factOfName e.name).isSome = true ∧
      ∀ f ∈ factOfName e.name, rowSize e = some f.size ∧ rowAlign e = some f.align ∧ 0 < f.size) := by
  decide +kernel

/-- For every integer-kind row, the range the backend derives from (flags, size) —
`_Bool`: 0..1, signed: −2^(8s−1)..2^(8s−1)−1, unsigned: 0..2^(8s)−1 — is the range of
values gcc's type of that name holds. -/
theorem range_matches_gcc :
    51 ≤ backendTypes.length ∧
    40 ≤ (backendTypes.filter fun e => (rowFlags e).bind kindOfFlags == some 'i').length ∧
    (∀ e ∈ backendTypes, ∀ fl ∈ rowFlags e, kindOfFlags fl = some 'i' →
      (rowSize e).isSome = true ∧ (factOfName e.name).isSome = true ∧
      ∀ sz ∈ rowSize e, ∀ f ∈ factOfName e.name, intRange fl sz = some (f.min, f.max)) := by
  decide +kernel

-- non-vacuity
example : ((backendEntry "_Bool").bind rowFlags).bind kindOfFlags = some 'i' ∧
    ((backendEntry "_Bool").bind rowFlags).bind (fun fl => intRange fl 1) = some (0, 1) := by decide +kernel

/-- `CT_PRIMITIVE_FITS_LONG` is set exactly for the integer and character rows whose
gcc range lies within gcc's range of `long`, and never for float / complex rows. -/
theorem fits_long_flag_correct :
    51 ≤ backendTypes.length ∧ 2 ≤ fitsLongRules.length ∧ (factOfName "long").isSome = true ∧
    (∀ e ∈ backendTypes, ∀ fl ∈ rowFlags e, ∀ sz ∈ rowSize e, ∀ f ∈ factOfName e.name, ∀ lg ∈ factOfName "long",
      (fitsLong fl sz).isSome = true ∧
      ((kindOfFlags fl = some 'i' ∨ kindOfFlags fl = some 'c') →
        fitsLong fl sz = some (decide (lg.min ≤ f.min ∧ f.max ≤ lg.max))) ∧
      ((kindOfFlags fl = some 'f' ∨ kindOfFlags fl = some 'j') → fitsLong fl sz = some false)) := by
  decide +kernel

-- non-vacuity
example : ((backendEntry "unsigned long").bind rowFlags).bind (fun fl => fitsLong fl 8) = some false ∧
    ((backendEntry "unsigned int").bind rowFlags).bind (fun fl => fitsLong fl 4) = some true := by decide +kernel

/-- Every arm of `search_standard_typename` is exact and reachable: `size == |lit| + 2`,
the `memcmp` covers the whole literal, the arm sits under the `case` labels (`p[4]`,
`p[10]`) and `size >=` guard of its own name `lit ++ "_t"`, its macro is defined, no two
arms share a literal, the function maps each arm's own name to the arm's result (no
earlier arm shadows it), and `primitive_name[result]` is that name.  The suffix guard
reads only inside the string. -/
theorem arms_exact :
    30 ≤ stdArms.length ∧
    stdArms.length = (primitiveToIndex.filter fun p => endsT p.1.toList).length ∧
    (∀ dc ∈ stdSuffix, 1 ≤ dc.1 ∧ dc.1 ≤ stdMinSize) ∧
    (∀ a ∈ stdArms, armWF a = true) ∧
    (stdArms.map (·.lit)).Nodup ∧
    (∀ a ∈ stdArms, standardTypename (armName a) = cPrim a.result ∧
      (cPrim a.result).bind nameOfIndex = some (String.ofList (armName a))) := by
  decide +kernel

/-- **For every string**: `search_standard_typename` answers `i` exactly when the
string is the name `lit ++ "_t"` of one of its arms and `i` is that arm's result —
an arm matches one string only. -/
theorem standardTypename_exact (s : List Char) (i : Int) :
    standardTypename s = some i ↔ ∃ a ∈ stdArms, s = armName a ∧ cPrim a.result = some i := by
  have hwf := arms_exact.2.2.2.1
  have hreach := arms_exact.2.2.2.2.2
  constructor
  · intro h
    unfold standardTypename at h
    by_cases hg : guardOk s = true
    · simp only [hg, if_true] at h
      cases hf : stdArms.find? (armMatches s) with
      | none => simp [hf] at h
      | some a =>
        simp only [hf, Option.bind_some] at h
        have hmem : a ∈ stdArms := List.mem_of_find?_eq_some hf
        have hm : armMatches s a = true := List.find?_some hf
        refine ⟨a, hmem, ?_, h⟩
        have wf := hwf a hmem
        simp only [armWF, Bool.and_eq_true, decide_eq_true_eq] at wf
        obtain ⟨⟨⟨⟨⟨hsz, hcl⟩, _⟩, _⟩, _⟩, _⟩ := wf
        simp only [armMatches, Bool.and_eq_true, decide_eq_true_eq, beq_iff_eq] at hm
        obtain ⟨⟨⟨_, _⟩, hlen⟩, htake⟩ := hm
        simp only [guardOk, stdSuffix, List.all_cons, List.all_nil, Bool.and_true, Bool.and_eq_true,
          decide_eq_true_eq, beq_iff_eq] at hg
        obtain ⟨_, ⟨_, h1⟩, ⟨_, h2⟩⟩ := hg
        rw [hcl] at htake
        have hl : a.lit.toList.length = a.lit.length := String.length_toList
        rw [← hl] at htake hsz
        rw [List.take_length] at htake
        exact eq_append_of_parts s a.lit.toList '_' 't' (by omega) htake h1 h2
    · simp [hg] at h
  · rintro ⟨a, hmem, rfl, hi⟩
    rw [(hreach a hmem).1, hi]

-- non-vacuity
example : ∃ a ∈ stdArms, "ssize_t".toList = armName a ∧ cPrim a.result = some 29 :=
  (standardTypename_exact _ _).mp (by decide +kernel)

/-- The C parser resolves every `_t` name to the index the code generator emits for
it: `search_standard_typename(name) = PRIMITIVE_TO_INDEX[name]`; names that do not end
in `_t` are left to the keyword parser (`-1`). -/
theorem c_parser_names_resolve :
    51 ≤ primitiveToIndex.length ∧
    30 ≤ (primitiveToIndex.filter fun p => endsT p.1.toList).length ∧
    (∀ p ∈ primitiveToIndex,
      (primitiveIndex p.1).isSome = true ∧
      (endsT p.1.toList = true → standardTypename p.1.toList = primitiveIndex p.1) ∧
      (endsT p.1.toList = false → standardTypename p.1.toList = none)) := by
  decide +kernel

-- non-vacuity
example : ("uint_least16_t", "UINT_LEAST16") ∈ primitiveToIndex ∧ endsT "uint_least16_t".toList = true ∧
    standardTypename "uint_least16_t".toList = some 33 := by decide +kernel
example : ("unsigned long", "ULONG") ∈ primitiveToIndex ∧ endsT "unsigned long".toList = false := by decide +kernel
example : standardTypename "ssize_x".toList = none ∧ standardTypename "size_t_t".toList = none := by decide +kernel

/-- Keyword tests of `next_token` are exact (`size == |lit|`, full-length `memcmp`, under
the `case` of their own first character) and each keyword gets its own token kind. -/
theorem keywords_exact :
    16 ≤ keywords.length ∧ (keywords.map (·.lit)).Nodup ∧
    (∀ k ∈ keywords, k.size = k.lit.length ∧ k.cmpLen = k.lit.length ∧
      k.lit.toList.head? = some k.first ∧ tokKind k.lit.toList = k.tok) := by
  decide +kernel

/-- The whole type-string path of the C parser (`next_token` keywords, the
short/long/signed/unsigned counters of `parse_complete`, base keyword, standard
names) maps **every** primitive name — keyword spellings like `unsigned long long`
and `_t` names alike — to `PRIMITIVE_TO_INDEX[name]`. -/
theorem keyword_names_resolve :
    51 ≤ primitiveToIndex.length ∧
    15 ≤ (primitiveToIndex.filter fun p => !endsT p.1.toList).length ∧
    (∀ p ∈ primitiveToIndex, (primitiveIndex p.1).map Spec.prim = some (cTypeOfString p.1)) := by
  decide +kernel

-- non-vacuity
example : cTypeOfString "long unsigned int" = .prim 10 ∧ cTypeOfString "int long" = .error ∧
    cTypeOfString "long long long" = .error ∧ cTypeOfString "FILE" = .other := by decide +kernel

/-- The common-type spellings agree: every `COMMON_TYPES['k'] = 'v'` of commontypes.py
names a primitive type `v`, the C parser reads `k` as exactly that primitive
(`bool`, `float _Complex`, `double _Complex`), and the C table `common_simple_types[]`
maps a shared key to the same replacement. -/
theorem common_types_agree :
    3 ≤ commonTypesPy.length ∧ 1 ≤ commonTypesC.length ∧
    (∀ p ∈ commonTypesPy, (assoc allPrimitiveTypes p.2).isSome = true ∧
      (primitiveIndex p.2).map Spec.prim = some (cTypeOfString p.1)) ∧
    (∀ c ∈ commonTypesC, ∀ v ∈ assoc commonTypesPy c.1, v = c.2) ∧
    (assoc commonTypesC "bool").isSome = true := by
  decide +kernel

end CffiVerif.C06
