import CffiVerif.Proofs.Include

/-!
C34 — `ffi.include()` shares declarations instead of copying them.

On the model of the run-time delegations of generated modules (`Model/Include.lean`), for every
table of modules whose include graph has no chain longer than the code's own bound (101 edges:
`recursion > 100` raises) — by induction over the include depth:

* a struct/union that a module got through `ffi.include()` resolves to the ctype object of the
  module that defines it, however many modules lie in between, so all modules see one object;
* an integer constant of any transitively included module is returned by `ffi.integer_const`;
* a `lib` attribute missing in a module is the first definition in depth-first include order.

Enum ctypes are *not* shared between generated modules (each module builds its own): finding
class C34/enum-ctype-per-generated-module, see `enum_ctype_per_module_witness`.
-/
namespace CffiVerif.C34
open CffiVerif.Include

open CffiVerif.Generated in
/-- The order of steps the model implements is the order in the C source (regenerated every run), and the
    recursion bounds are the source's: own table first, then every include in order and recursively, the early
    exit for recursive frames only AFTER that scan, AttributeError last; self-calls add 1, the guards are
    `recursion > 100` — hence the fuels 101 used below. -/
theorem lookup_order_is_source :
    IncludeSteps.libSteps = modelLibSteps ∧
    IncludeSteps.fetchStructSteps = modelFetchStructSteps ∧
    IncludeSteps.fetchConstSteps = modelFetchConstSteps ∧
    IncludeSteps.libRecursionStep = 1 ∧ IncludeSteps.fetchStructRecursionStep = 1 ∧
    IncludeSteps.fetchConstRecursionStep = 1 ∧
    libFuel = 101 ∧ structFuel = 101 ∧ constFuel = 101 := by decide

/-- An external struct/union entry resolves to its origin's ctype object. -/
theorem external_resolves_to_origin (mods : Mods) (name : String) (isUnion : Bool) (o : ObjId)
    (wf : WF mods name isUnion o) (k : Nat) (hd : depthOk mods structFuel k = true)
    (m : Module) (hm : mods[k]? = some m) (s : SDecl) (hs : m.structs.lookup name = some s) :
    realizeStruct mods k name = .ok o := by
  unfold realizeStruct
  simp only [hm, hs]
  cases hext : s.external with
  | false => simp [wf.origin k m s hm hs hext]
  | true =>
    have hk := wf.kind k m s hm hs
    rw [hk]
    simp [fetch_origin mods name isUnion o wf structFuel k m s hd hm hs hext]

/-- Hence any two modules that know the tag — the defining one, a direct includer, an includer of
    an includer, two branches of a diamond — hold the *same* ctype object. -/
theorem shared_struct_identity (mods : Mods) (name : String) (isUnion : Bool) (o : ObjId)
    (wf : WF mods name isUnion o) (k1 k2 : Nat)
    (hd1 : depthOk mods structFuel k1 = true) (hd2 : depthOk mods structFuel k2 = true)
    (m1 m2 : Module) (hm1 : mods[k1]? = some m1) (hm2 : mods[k2]? = some m2)
    (s1 s2 : SDecl) (hs1 : m1.structs.lookup name = some s1) (hs2 : m2.structs.lookup name = some s2) :
    realizeStruct mods k1 name = realizeStruct mods k2 name := by
  rw [external_resolves_to_origin mods name isUnion o wf k1 hd1 m1 hm1 s1 hs1,
      external_resolves_to_origin mods name isUnion o wf k2 hd2 m2 hm2 s2 hs2]

/-- An integer constant defined (once, or with one value) anywhere below `k` in the include graph
    is what `ffi.integer_const(name)` of module `k` returns. -/
theorem constants_visible (mods : Mods) (name : String) (k : Nat) (v : Int)
    (hd : depthOk mods constFuel k = true) (hno : NoOther mods name (dfs mods constFuel k))
    (hex : ∃ j ∈ dfs mods constFuel k, ownConst mods name j = some v)
    (hone : ∀ j ∈ dfs mods constFuel k, ∀ w, ownConst mods name j = some w → w = v) :
    fetchConst mods name constFuel k = .ok (some v) := by
  rw [fetchConst_spec mods name constFuel k hd hno, findSome_unique (ownConst mods name) _ v hex hone]

/-- `lib.name` of module `k` is the module's own global or, failing that, the first definition
    met in depth-first order over the included libs (in `ffi.include()` order). -/
theorem lib_delegation_finds_first (mods : Mods) (name : String) (k : Nat)
    (hd : depthOk mods libFuel k = true) :
    libLookup mods name libFuel k = .ok (firstDef mods name (dfs mods libFuel k)) :=
  libLookup_spec mods name libFuel k hd

/-- … so `getattr(lib, name)` succeeds iff some reachable module defines the name, and then yields
    that module's object; otherwise `AttributeError`. -/
theorem lib_getattr (mods : Mods) (name : String) (k : Nat) (hd : depthOk mods libFuel k = true) :
    libGetattr mods k name =
      match firstDef mods name (dfs mods libFuel k) with
      | some r => .ok r
      | none => .error .attributeError := by
  unfold libGetattr
  rw [lib_delegation_finds_first mods name k hd]
  cases firstDef mods name (dfs mods libFuel k) <;> rfl

/-! ### Non-vacuity: a diamond 3 → {1, 2} → 0 with a longer arm 3 → 4 → 1.
Module 0 defines `struct s` (object 7), constant `K = 42` and function `f`; module 2 defines `g`
and also its own `f`. -/
def m0 : Module := ⟨[("s", ⟨false, false, 7⟩)], [("e", 100)], [("K", .intConst 42), ("f", .other 1)], []⟩
def m1 : Module := ⟨[("s", ⟨false, true, 0⟩)], [("e", 101)], [], [0]⟩
def m2 : Module := ⟨[("s", ⟨false, true, 0⟩)], [("e", 102)], [("g", .other 2), ("f", .other 3)], [0]⟩
def m3 : Module := ⟨[("s", ⟨false, true, 0⟩)], [("e", 103)], [], [4, 2]⟩
def m4 : Module := ⟨[("s", ⟨false, true, 0⟩)], [("e", 104)], [], [1]⟩
def exMods : Mods := [m0, m1, m2, m3, m4]

example : wfCheck exMods "s" false 7 = true := by decide
example : depthOk exMods structFuel 3 = true := by decide
example : realizeStruct exMods 3 "s" = .ok 7 :=
  external_resolves_to_origin exMods "s" false 7 (wf_of_check _ _ _ _ (by decide)) 3 (by decide) m3 rfl _ rfl
example : realizeStruct exMods 3 "s" = realizeStruct exMods 0 "s" :=
  shared_struct_identity exMods "s" false 7 (wf_of_check _ _ _ _ (by decide)) 3 0 (by decide) (by decide)
    m3 m0 rfl rfl _ _ rfl rfl
example : dfs exMods libFuel 3 = [3, 4, 1, 0, 2, 0] := by decide
example : fetchConst exMods "K" constFuel 3 = .ok (some 42) := by decide
-- `f` is defined by modules 0 and 2: through 3 → 4 → 1 → 0 the first one met is module 0's
example : libGetattr exMods 3 "f" = .ok (0, .other 1) := by decide
example : libGetattr exMods 3 "g" = .ok (2, .other 2) := by decide
example : libGetattr exMods 3 "nope" = .error .attributeError := by decide

/-- The depth bound is the code's: a chain with 102 include edges overflows. -/
def chain : Nat → Mods
  | 0 => [⟨[], [], [("K", .intConst 1)], []⟩]
  | n + 1 => chain n ++ [⟨[], [], [], [n]⟩]
example : fetchConst (chain 101) "K" constFuel 101 = .ok (some 1) := by decide +kernel
example : fetchConst (chain 102) "K" constFuel 102 = .error .recursionOverflow := by decide +kernel

/-- Full-strength statement "every shared declaration kind is one ctype object in all modules"
    fails for enums in generated modules: the including module re-emits the enum and
    `realize_c_type` builds a second ctype with `b_new_enum_type`
    (finding class C34/enum-ctype-per-generated-module).  Witness on the diamond above: -/
theorem enum_ctype_per_module_witness :
    realizeEnum exMods 1 "e" ≠ realizeEnum exMods 0 "e" := by decide

/-- The shared-identity statement restricted to the kinds for which it holds (`…_partial`):
    structs and unions. -/
theorem shared_ctype_partial (mods : Mods) (name : String) (isUnion : Bool) (o : ObjId)
    (wf : WF mods name isUnion o) (k : Nat) (hd : depthOk mods structFuel k = true)
    (m : Module) (hm : mods[k]? = some m) (hk : (m.structs.lookup name).isSome = true) :
    realizeStruct mods k name = .ok o := by
  cases hs : m.structs.lookup name with
  | none => simp [hs] at hk
  | some s => exact external_resolves_to_origin mods name isUnion o wf k hd m hm s hs

end CffiVerif.C34
