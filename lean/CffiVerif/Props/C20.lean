import CffiVerif.Proofs.Init

/-!
C20 — `ffi.new` zero-fills and initialises exactly like assignment.

All statements are about the model in `CffiVerif/Model/Init.lean`
(`newp` = `direct_newp`, `convert` = `convert_from_object`, `plan` = the list of
stores a conversion performs).  Types (with their layout as data) and
initialisers are arbitrary; nothing is bounded.
-/
namespace CffiVerif.C20
open CffiVerif.Init

/-- `convert` performs exactly the stores listed by `plan`, in order, and stops at the first
failure: the list is a faithful account of "where `init` writes". -/
theorem convert_is_exec_of_plan (m : Mem) (off : Nat) (ty : Ty) (fc : FieldCtx) (init : Init) :
    convert m off ty fc init = execOps m (plan off ty fc init) :=
  convert_eq_exec m off ty fc init

/-- A successful conversion never changes the size of the block. -/
theorem assignment_preserves_size {m m' : Mem} {off : Nat} {ty : Ty} {fc : FieldCtx} {init : Init}
    (h : convert m off ty fc init = .ok m') : m'.length = m.length :=
  convert_length h

/-- **new(T, init) = (zero-filled block; assign init).**  When `ffi.new("T *", init)` succeeds,
assigning `init` (the `p[0] = init` path: `convert_from_object` at offset 0) into *any*
zero-filled block at least as large as the allocation leaves exactly the bytes of the new
object, followed by zeros: nothing depends on the allocation beyond its being zero, and nothing
is written past it. -/
theorem new_eq_zero_then_assign (limit : Nat) (ty : Ty) (init : Init) (o : Owned)
    (h : newp limit true ty (some init) = .ok o) (extra : Nat) :
    convert (zeros (o.data.length + extra)) 0 ty .plain init = .ok (o.data ++ zeros extra) := by
  obtain ⟨datasize, _, hc, hl⟩ := newp_ptr_ok h
  rw [hl, ← zeros_append]
  rw [convert_eq_exec] at hc ⊢
  exact execOps_append (zeros extra) hc

example : newp 1000 true (.agg 4 (.cons ⟨1, 0, none, false⟩ (.prim (.int 4 true))
      (.cons ⟨2, 4, none, false⟩ (.arr (.prim (.int 2 true)) 2 none) .nil)))
    (some (.seq (.cons (.int 1) (.cons (.seq (.cons (.int 258) (.cons (.int 3) .nil))) .nil))))
    = .ok ⟨[1, 0, 0, 0, 2, 1, 3, 0], some 8⟩ := by decide

/-- For a type without a var-sized part -- and, for every type, when the whole initialiser is a
cdata (`direct_newp` skips the size pre-pass for a cdata) -- the size does not depend on the
initialiser, so `ffi.new("T *", init)` is literally `p = ffi.new("T *"); p[0] = init` (same bytes,
same exception type when `init` is rejected). -/
theorem new_eq_new_then_assign_fixed (limit : Nat) (ty : Ty) (init : Init)
    (hfix : ty.withVar = false ∨ init.isCData = true) :
    newp limit true ty (some init) =
      (match newp limit true ty none with
       | .ok o0 =>
          (match convert o0.data 0 ty .plain init with
           | .ok m => .ok ⟨m, o0.length⟩
           | .error e => .error e)
       | .error e => .error e) := by
  have halloc : allocPtr ty (some init) = allocPtr ty none := by
    rw [allocPtr_eq_ref, allocPtr_eq_ref]
    unfold allocPtrRef
    cases ty with
    | prim p => rfl
    | arr item isz len => rfl
    | agg size fs =>
      rcases hfix with hfix | hfix
      · simp only [Ty.withVar] at hfix
        simp only [hfix]
        rfl
      · simp only [hfix, if_true]
  simp only [newp, if_true, halloc]
  cases allocPtr ty none with
  | error e => rfl
  | ok p =>
    obtain ⟨datasize, length⟩ := p
    simp only
    split
    · rfl
    · rfl

/-- **A cdata of the struct itself as the whole initialiser of a var-sized struct** behaves exactly
like the assignment `p = ffi.new("T *"); p[0] = cd`: the block has the fixed size and the fixed
part is copied (repaired in /repo, commit ff94e40; before, the size pre-pass raised `SystemError`). -/
theorem varsize_toplevel_cdata_like_assignment (limit size : Nat) (fs : Fields) (data : List UInt8)
    (hsz : size ≤ limit) (hd : size ≤ data.length) :
    newp limit true (.agg size fs) (some (.cdata true data)) =
      .ok ⟨data.take size ++ zeros 0, if fs.anyVar then some size else none⟩ := by
  have hw : write (zeros size) 0 (data.take size) = .ok (data.take size) := by
    unfold write
    have hl : (List.take size data).length = size := by simp [List.length_take]; omega
    simp only [hl, zeros_length, Nat.zero_add, Nat.le_refl, if_true, List.take_zero, List.nil_append]
    simp [zeros]
  have hlim : ¬ size > limit := by omega
  have hw' : write (List.replicate size (0 : UInt8)) 0 (List.take size data) = .ok (List.take size data) := hw
  cases hv : fs.anyVar <;>
    simp [newp, allocPtr_eq_ref, allocPtrRef, Ty.size?, Ty.isCharPrim, Init.isCData, hv, hlim, convert, hd, zeros, hw']

example : newp 1000 true (.agg 4 (.cons ⟨1, 0, none, false⟩ (.prim (.int 4 true))
      (.cons ⟨2, 4, none, false⟩ (.arr (.prim (.int 2 true)) 2 none) .nil)))
    (some (.cdata true [5, 0, 0, 0])) = .ok ⟨[5, 0, 0, 0], some 4⟩ := by decide

-- non-vacuity: struct { int a; char b; } has no var-sized part; both sides are the same 8 bytes
example : (Ty.agg 8 (.cons ⟨1, 0, none, false⟩ (.prim (.int 4 true))
      (.cons ⟨2, 4, none, false⟩ (.prim .char) .nil))).withVar = false := by decide
example : newp 1000 true (.agg 8 (.cons ⟨1, 0, none, false⟩ (.prim (.int 4 true))
      (.cons ⟨2, 4, none, false⟩ (.prim .char) .nil)))
    (some (.seq (.cons (.int (-2)) (.cons (.bytes [65]) .nil)))) = .ok ⟨[254, 255, 255, 255, 65, 0, 0, 0], none⟩ := by
  decide

/-- The same for a fixed-length array type `T[n]`. -/
theorem new_array_eq_new_then_assign (limit : Nat) (item : Ty) (isz l : Nat) (init : Init) :
    newp limit false (.arr item isz (some l)) (some init) =
      (match newp limit false (.arr item isz (some l)) none with
       | .ok o0 =>
          (match convert o0.data 0 (.arr item isz (some l)) .plain init with
           | .ok m => .ok ⟨m, o0.length⟩
           | .error e => .error e)
       | .error e => .error e) := by
  simp only [newp, Bool.false_eq_true, if_false, allocArr_eq_ref, allocArrRef]
  split
  · rfl
  · rfl

/-- A list initialiser of an array is the item assignments `a[0] = x0; a[1] = x1; …`. -/
theorem array_seq_eq_itemwise (item : Ty) (isz : Nat) : ∀ (items : Inits) (m : Mem) (k : Nat),
    convertItems m (k * isz) item isz items = assignItems m k item isz items
  | .nil, m, k => rfl
  | .cons x xs, m, k => by
    simp only [convertItems, assignItems]
    cases convert m (k * isz) item .plain x with
    | error e => rfl
    | ok m' =>
      simp only
      have : k * isz + isz = (k + 1) * isz := by rw [Nat.add_mul, Nat.one_mul]
      rw [this]
      exact array_seq_eq_itemwise item isz xs m' (k + 1)

/-- **Zero everywhere else.**  In the result of `ffi.new(T, init)` every byte that is not
covered by one of the stores `init` performs is zero. -/
theorem untouched_bytes_zero (limit : Nat) (isPtr : Bool) (ty : Ty) (init : Init) (o : Owned)
    (h : newp limit isPtr ty (some init) = .ok o) (i : Nat) (hi : i < o.data.length)
    (hc : ∀ op ∈ plan 0 ty .plain init, op.covers i = false) : o.data[i]? = some 0 := by
  have key : ∀ (n : Nat) (m : Mem), convert (zeros n) 0 ty .plain init = .ok m → i < m.length →
      m[i]? = some 0 := by
    intro n m hcv hlt
    have hl := convert_length hcv
    rw [convert_eq_exec] at hcv
    rw [execOps_outside hcv i hc]
    rw [hl, zeros_length] at hlt
    exact zeros_get n i hlt
  cases isPtr with
  | true =>
    obtain ⟨datasize, _, hcv, _⟩ := newp_ptr_ok h
    exact key datasize o.data hcv hi
  | false =>
    simp only [newp, Bool.false_eq_true, if_false] at h
    cases ty with
    | prim p => cases h
    | agg size fs => cases h
    | arr item isz len =>
      simp only at h
      cases ha : allocArr isz len (some init) with
      | error e => rw [ha] at h; cases h
      | ok p =>
        obtain ⟨datasize, length, init'⟩ := p
        rw [ha] at h
        simp only at h
        split at h
        · cases h
        · cases init' with
          | none =>
            cases h
            simp only [zeros_length] at hi
            exact zeros_get datasize i hi
          | some i' =>
            -- the initialiser left is the original one
            have hi' : i' = init := by
              rw [allocArr_eq_ref] at ha
              unfold allocArrRef at ha
              cases len with
              | some l => simp only [Except.ok.injEq, Prod.mk.injEq, Option.some.injEq] at ha; exact ha.2.2.symm
              | none =>
                simp only at ha
                cases hn : newArrayLength init with
                | error e => rw [hn] at ha; cases ha
                | ok q =>
                  obtain ⟨n, wasInt⟩ := q
                  rw [hn] at ha
                  simp only at ha
                  split at ha
                  · cases ha
                  · simp only [Except.ok.injEq, Prod.mk.injEq] at ha
                    cases wasInt
                    · simpa using ha.2.2.symm
                    · simp at ha
            subst hi'
            simp only at h
            cases hcv : convert (zeros datasize) 0 (.arr item isz len) .plain i' with
            | error e => rw [hcv] at h; cases h
            | ok m =>
              rw [hcv] at h
              cases h
              exact key datasize m hcv hi

-- non-vacuity: in struct in_ {int n; short v[];} built from [1, [258, 3]] … (see the example above),
-- a dict initialiser {v: [7]} leaves bytes 0..3 untouched: they are zero
example : newp 1000 true (.agg 4 (.cons ⟨1, 0, none, false⟩ (.prim (.int 4 true))
      (.cons ⟨2, 4, none, false⟩ (.arr (.prim (.int 2 true)) 2 none) .nil)))
    (some (.dict (.cons 2 (.seq (.cons (.int 7) .nil)) .nil))) = .ok ⟨[0, 0, 0, 0, 7, 0], some 6⟩ := by decide
example : plan 0 (.agg 4 (.cons ⟨1, 0, none, false⟩ (.prim (.int 4 true))
      (.cons ⟨2, 4, none, false⟩ (.arr (.prim (.int 2 true)) 2 none) .nil))) .plain
    (.dict (.cons 2 (.seq (.cons (.int 7) .nil)) .nil)) = [.store 4 [7, 0]] := by decide

/-- Without an initialiser the block is all zeros. -/
theorem new_without_init_is_zero (limit : Nat) (isPtr : Bool) (ty : Ty) (o : Owned)
    (h : newp limit isPtr ty none = .ok o) : o.data = zeros o.data.length := by
  cases isPtr with
  | true =>
    simp only [newp, if_true] at h
    cases ha : allocPtr ty none with
    | error e => rw [ha] at h; cases h
    | ok p =>
      obtain ⟨datasize, length⟩ := p
      rw [ha] at h
      simp only at h
      split at h
      · cases h
      · cases h; simp only [zeros_length]
  | false =>
    simp only [newp, Bool.false_eq_true, if_false] at h
    cases ty with
    | prim p => cases h
    | agg size fs => cases h
    | arr item isz len =>
      cases len with
      | none => simp [allocArr_eq_ref, allocArrRef] at h
      | some l =>
        simp only [allocArr_eq_ref, allocArrRef] at h
        split at h
        · cases h
        · cases h; simp only [zeros_length]

/-! ### the allocation is large enough -/

/-- Every store of a successful or failing `ffi.new("T *", init)` lies inside the block that
was allocated: for a var-sized struct the pre-pass (`convert_struct_from_object(NULL, …,
&optvarsize)` → `add_varsize_length`) reserved `offset + n·itemsize` for every open array
reached through the initialiser, also through nested var-sized structs.

Hypotheses: the type description is well formed (`wf`, checked on every real type by the
correspondence run) and no array has var-sized structs as items (`noVarItems`).  Without the
second one the statement is FALSE for the code as it is (see `varsize_struct_as_array_item_overflows`);
the full statement would be the same without `hnv`. -/
theorem varsize_stores_fit_partial (ty : Ty) (init : Init) (datasize : Nat) (length : Option Nat)
    (hwf : ty.wf = true) (hnv : ty.noVarItems = true)
    (ha : allocPtr ty (some init) = .ok (datasize, length)) :
    ∀ op ∈ plan 0 ty .plain init, op.fitsIn datasize = true := by
  rw [allocPtr_eq_ref] at ha
  unfold allocPtrRef at ha
  cases hs : ty.size? with
  | none => rw [hs] at ha; cases ha
  | some sz0 =>
    rw [hs] at ha
    simp only at ha
    have hfixed : ty.withVar = false → sz0 ≤ datasize →
        ∀ op ∈ plan 0 ty .plain init, op.fitsIn datasize = true := by
      intro hv hle
      exact plan_fits_fixed datasize init 0 ty .plain sz0 hwf hnv hv hs (by omega)
    cases ty with
    | prim p =>
      simp only [Except.ok.injEq, Prod.mk.injEq] at ha
      refine hfixed rfl ?_
      rw [← ha.1]; split <;> omega
    | arr item isz len =>
      simp only [Except.ok.injEq, Prod.mk.injEq] at ha
      refine hfixed rfl ?_
      rw [← ha.1]; simp [Ty.isCharPrim]
    | agg size fs =>
      simp only [Ty.size?, Option.some.injEq] at hs
      subst hs
      simp only [Ty.isCharPrim, Bool.false_eq_true, if_false] at ha
      by_cases hv : fs.anyVar = true
      · simp only [hv, if_true] at ha
        have hok := agg_facts hwf hnv
        cases init with
        | seq items =>
          simp only [Init.isCData, Bool.false_eq_true, if_false, prepassStruct] at ha
          cases hp : prepassSeq fs items size with
          | error e => rw [hp] at ha; cases ha
          | ok d =>
            rw [hp] at ha
            simp only [Except.ok.injEq, Prod.mk.injEq] at ha
            have hm := prepassSeq_mono items fs size d hp
            simp only [plan]
            rw [← ha.1]
            exact planSeq_fits_var d items 0 fs size size d hok hp (by omega) (by omega)
        | dict kvs =>
          simp only [Init.isCData, Bool.false_eq_true, if_false, prepassStruct] at ha
          cases hp : prepassDict fs kvs size with
          | error e => rw [hp] at ha; cases ha
          | ok d =>
            rw [hp] at ha
            simp only [Except.ok.injEq, Prod.mk.injEq] at ha
            have hm := prepassDict_mono kvs fs size d hp
            simp only [plan]
            rw [← ha.1]
            exact planDict_fits_var d kvs 0 fs size size d hok hp (by omega) (by omega)
        | int v => simp [Init.isCData, prepassStruct] at ha
        | bytes b => simp [Init.isCData, prepassStruct] at ha
        | cdata same data =>
          -- no pre-pass for a cdata: the block has the fixed size, the copy is the fixed part
          simp only [Init.isCData, if_true, Except.ok.injEq, Prod.mk.injEq] at ha
          rw [← ha.1]
          cases same
          · simp [plan]
          · simp only [plan]
            split
            · intro op hop
              simp only [List.mem_singleton] at hop
              subst hop
              simp only [Op.fitsIn, decide_eq_true_eq, List.length_take]
              omega
            · simp
        | other => simp [Init.isCData, prepassStruct] at ha
      · have hv' : fs.anyVar = false := by simpa using hv
        simp only [hv', Bool.false_eq_true, if_false, Except.ok.injEq, Prod.mk.injEq] at ha
        refine hfixed (by simpa [Ty.withVar] using hv') ?_
        omega

/-- **varsize_fits.**  `ffi.new` never writes outside the block it allocated (the undefined-behaviour
outcome of the model), for every well-formed type in which no array has var-sized structs as items
and for every initialiser (open arrays of zero-size items included: since commit 5e115e5
`add_varsize_length` does not divide by the item size then, and the model has no division outcome
left).  The statement without `hnv` / `hwf` is false for the code as it is: see the witnesses
`varsize_struct_as_array_item_overflows` and `packed_bitfield_unit_overruns`. -/
theorem varsize_fits_partial (limit : Nat) (ty : Ty) (init : Option Init)
    (hwf : ty.wf = true) (hnv : ty.noVarItems = true) :
    newp limit true ty init ≠ .error .oob := by
  have halloc_err : ∀ i e, allocPtr ty i = .error e → e ≠ .oob := by
    intro i e ha
    rw [allocPtr_eq_ref] at ha
    unfold allocPtrRef at ha
    cases hs : ty.size? with
    | none => rw [hs] at ha; cases ha; decide
    | some sz0 =>
      rw [hs] at ha
      cases ty with
      | prim p => cases ha
      | arr _ _ _ => cases ha
      | agg size fs =>
        simp only [Ty.isCharPrim, Bool.false_eq_true, if_false] at ha
        split at ha
        · cases i with
          | none => cases ha
          | some init =>
            simp only at ha
            split at ha
            · cases ha
            · cases init with
              | seq items =>
                simp only [prepassStruct] at ha
                cases hp : prepassSeq fs items sz0 with
                | ok d => rw [hp] at ha; cases ha
                | error e' => rw [hp] at ha; cases ha; exact prepassSeq_errOk items fs sz0 e hp
              | dict kvs =>
                simp only [prepassStruct] at ha
                cases hp : prepassDict fs kvs sz0 with
                | ok d => rw [hp] at ha; cases ha
                | error e' => rw [hp] at ha; cases ha; exact prepassDict_errOk kvs fs sz0 e hp
              | int v => simp only [prepassStruct] at ha; cases ha; decide
              | bytes b => simp only [prepassStruct] at ha; cases ha; decide
              | cdata same data => cases same <;> (simp only [prepassStruct] at ha; cases ha; decide)
              | other => simp only [prepassStruct] at ha; cases ha; decide
        · cases ha
  simp only [newp, if_true]
  cases ha : allocPtr ty init with
  | error e =>
    simp only [ne_eq, Except.error.injEq]
    exact halloc_err init e ha
  | ok p =>
    obtain ⟨datasize, length⟩ := p
    simp only
    split
    · simp
    · cases init with
      | none => simp
      | some init =>
        simp only
        have hfit := varsize_stores_fit_partial ty init datasize length hwf hnv ha
        have := execOps_fits (m := zeros datasize) (ops := plan 0 ty .plain init)
          (by intro op hop; rw [zeros_length]; exact hfit op hop)
        rw [← convert_eq_exec] at this
        cases hc : convert (zeros datasize) 0 ty .plain init with
        | ok m => simp
        | error e =>
          rw [hc] at this
          simpa using this

/-- struct in_ { int n; short v[]; } -/
def exIn : Ty := .agg 4 (.cons ⟨1, 0, none, false⟩ (.prim (.int 4 true))
  (.cons ⟨2, 4, none, false⟩ (.arr (.prim (.int 2 true)) 2 none) .nil))

/-- struct out_ { char c; struct in_ s; } — a nested var-sized struct as last field -/
def exOut : Ty := .agg 8 (.cons ⟨3, 0, none, false⟩ (.prim .char) (.cons ⟨4, 4, none, false⟩ exIn .nil))

-- non-vacuity: a nested var-sized struct satisfies the hypotheses and gets 4 + 4 + 3·2 bytes
example : exOut.wf = true ∧ exOut.noVarItems = true := by decide
example : newp 1000 true exOut
    (some (.seq (.cons (.bytes [120]) (.cons (.seq (.cons (.int 1)
      (.cons (.seq (.cons (.int 1) (.cons (.int 2) (.cons (.int 3) .nil)))) .nil))) .nil))))
    = .ok ⟨[120, 0, 0, 0, 1, 0, 0, 0, 1, 0, 2, 0, 3, 0], some 14⟩ := by decide

/-- Witness that `noVarItems` is needed — the code as it is: `ffi.new("struct in_[2]", [[1, [1,2,3]],
[2, [5,6,7]]])` allocates `2 * sizeof(struct in_)` = 8 bytes and stores the second item's array at
bytes 8..13 (`free(): invalid next size` on the real implementation).  Finding
`C20/varsize-struct-as-array-item`. -/
theorem varsize_struct_as_array_item_overflows :
    newp 1000 false (.arr exIn 4 (some 2))
      (some (.seq (.cons (.seq (.cons (.int 1) (.cons (.seq (.cons (.int 1) (.cons (.int 2) (.cons (.int 3) .nil)))) .nil)))
        (.cons (.seq (.cons (.int 2) (.cons (.seq (.cons (.int 5) (.cons (.int 6) (.cons (.int 7) .nil)))) .nil))) .nil))))
      = .error .oob := by decide

/-- **Open arrays of zero-size items take no space**: `struct z_ { int n; int a[][0]; }`,
`ffi.new("struct z_ *", [1, 3])` gives the fixed size (repaired in /repo, commit 5e115e5; before,
`add_varsize_length` divided by the item size 0).  In general, for an item size of 0 the pre-pass step
leaves `max cur offset`: `add_varsize_overflow_exact` with `itemsize = 0`. -/
theorem zero_size_open_array_items_take_no_space (offset n cur : Nat) (ho : offset < 2^63) :
    addVarsize offset 0 n cur = .ok (if offset > cur then offset else cur) := by
  have := addVarsize_exact offset 0 n cur ho
  simp only [Nat.zero_mul, Nat.add_zero] at this
  rw [this, if_pos ho]

example : newp 1000 true (.agg 4 (.cons ⟨1, 0, none, false⟩ (.prim (.int 4 true))
        (.cons ⟨2, 4, none, false⟩ (.arr (.arr (.prim (.int 4 true)) 4 (some 0)) 0 none) .nil)))
      (some (.seq (.cons (.int 1) (.cons (.int 3) .nil)))) = .ok ⟨[1, 0, 0, 0], some 4⟩ := by decide

/-- `add_varsize_length` succeeds only with a result that covers the array: the new
`*optvarsize` is at least the old one and at least `offset + itemsize * n` (its wrap-around test
never lets a wrapped size through). -/
theorem add_varsize_sound (offset itemsize n cur r : Nat) (ho : offset < 2^63)
    (h : addVarsize offset itemsize n cur = .ok r) : cur ≤ r ∧ offset + itemsize * n ≤ r :=
  addVarsize_sound ho h

/-- The wrap-around test of `add_varsize_length` is exact, for every item size including 0: the
call succeeds precisely when `offset + itemsize * n` fits a `Py_ssize_t`, and then yields the maximum
of the old size and that value; otherwise it is an `OverflowError`. -/
theorem add_varsize_overflow_exact (offset itemsize n cur : Nat) (ho : offset < 2^63) :
    addVarsize offset itemsize n cur =
      if offset + itemsize * n < 2^63 then
        .ok (if offset + itemsize * n > cur then offset + itemsize * n else cur)
      else .error .overflow :=
  addVarsize_exact offset itemsize n cur ho

example : addVarsize 4 2 3 4 = .ok 10 := by decide
example : addVarsize 4 4 (2^62) 4 = .error .overflow := by decide

/-! ### sizeof -/

/-- **sizeof_reports_allocated.**  For `p = ffi.new("T *", init)` with `T` a struct or union,
`ffi.sizeof(p[0])` (and `len(ffi.buffer(p))`) is the number of bytes allocated — for a var-sized
`T` the size computed by the pre-pass, stored in the `length` slot. -/
theorem sizeof_reports_allocated (limit size : Nat) (fs : Fields) (init : Option Init) (o : Owned)
    (h : newp limit true (.agg size fs) init = .ok o) :
    sizeofDeref (.agg size fs) o = some o.data.length := by
  have hsz : ∃ datasize, allocPtr (.agg size fs) init = .ok (datasize, o.length) ∧ o.data.length = datasize := by
    cases init with
    | some i =>
      obtain ⟨d, h1, _, h3⟩ := newp_ptr_ok h
      exact ⟨d, h1, h3⟩
    | none =>
      simp only [newp, if_true] at h
      cases ha : allocPtr (.agg size fs) none with
      | error e => rw [ha] at h; cases h
      | ok p =>
        obtain ⟨datasize, length⟩ := p
        rw [ha] at h
        simp only at h
        split at h
        · cases h
        · cases h; exact ⟨datasize, rfl, zeros_length _⟩
  obtain ⟨datasize, ha, hl⟩ := hsz
  simp only [allocPtr_eq_ref, allocPtrRef, Ty.size?, Ty.isCharPrim, Bool.false_eq_true, if_false] at ha
  simp only [sizeofDeref_eq_ref, sizeofDerefRef]
  split at ha
  · rename_i hv
    simp only [hv, if_true]
    cases init with
    | none =>
      simp only [Except.ok.injEq, Prod.mk.injEq] at ha
      rw [← ha.2, hl, ← ha.1]
    | some i =>
      simp only at ha
      split at ha
      · simp only [Except.ok.injEq, Prod.mk.injEq] at ha
        rw [← ha.2, hl, ← ha.1]
      · cases hp : prepassStruct fs i size with
        | error e => rw [hp] at ha; cases ha
        | ok d =>
          rw [hp] at ha
          simp only [Except.ok.injEq, Prod.mk.injEq] at ha
          rw [← ha.2, hl, ← ha.1]
  · rename_i hv
    simp only [hv, Bool.false_eq_true, if_false]
    simp only [Except.ok.injEq, Prod.mk.injEq] at ha
    rw [hl, ← ha.1]

example : (match newp 1000 true exIn (some (.seq (.cons (.int 1) (.cons (.int 3) .nil)))) with
    | .ok o => sizeofDeref exIn o
    | .error _ => none) = some 10 := by decide

/-- For `a = ffi.new("T[n]", …)` / `ffi.new("T[]", …)`, `ffi.sizeof(a)` (= `len(ffi.buffer(a))`:
`get_array_length(cd) * itemsize`) is the number of bytes allocated; in particular the
multiplication overflow test of `direct_newp` never lets a wrapped size through. -/
theorem sizeof_array_reports_allocated (limit : Nat) (item : Ty) (isz : Nat) (len : Option Nat)
    (init : Option Init) (o : Owned)
    (h : newp limit false (.arr item isz len) init = .ok o) :
    sizeofArr isz len o = some o.data.length := by
  simp only [newp, Bool.false_eq_true, if_false] at h
  cases ha : allocArr isz len init with
  | error e => rw [ha] at h; cases h
  | ok p =>
    obtain ⟨datasize, length, init'⟩ := p
    rw [ha] at h
    simp only at h
    split at h
    · cases h
    · have hdata : o.data.length = datasize ∧ o.length = length := by
        cases init' with
        | none => cases h; exact ⟨zeros_length _, rfl⟩
        | some i' =>
          simp only at h
          cases hc : convert (zeros datasize) 0 (.arr item isz len) .plain i' with
          | error e => rw [hc] at h; cases h
          | ok m =>
            rw [hc] at h
            cases h
            exact ⟨by rw [convert_length hc, zeros_length], rfl⟩
      cases len with
      | some l =>
        simp only [allocArr_eq_ref, allocArrRef, Except.ok.injEq, Prod.mk.injEq] at ha
        simp only [sizeofArr_eq_ref, sizeofArrRef]
        rw [hdata.1, ← ha.1, Nat.mul_comm]
      | none =>
        cases init with
        | none => simp [allocArr_eq_ref, allocArrRef] at ha
        | some i =>
          obtain ⟨n, hl, hs⟩ := allocArr_open_size ha
          simp only [sizeofArr_eq_ref, sizeofArrRef, hdata.2, hl, Option.map_some]
          rw [hdata.1, hs]

example : (match newp 1000 false (.arr (.prim (.int 4 true)) 4 none) (some (.int 3)) with
    | .ok o => sizeofArr 4 none o
    | .error _ => none) = some 12 := by decide


/-! ### unions, too many initialisers -/

/-- **union_seq_sets_first_member.**  A union's field list is its first member followed by
members flagged `BF_IGNORE_IN_CTOR`: a one-element list/tuple initialiser converts that element
into the first member (and nothing else), a longer one is rejected — after converting the first
element — with `ValueError`. -/
theorem union_seq_sets_first_member (m : Mem) (off : Nat) (i0 : FieldInfo) (t0 : Ty) (rest : Fields)
    (h0 : i0.ignore = false) (hr : Fields.allIgnored rest = true) (x : Init) :
    convertSeq m off (.cons i0 t0 rest) (.cons x .nil) = convert m (off + i0.off) t0 (.field i0.bits) x
    ∧ ∀ y ys, convertSeq m off (.cons i0 t0 rest) (.cons x (.cons y ys)) =
        (match convert m (off + i0.off) t0 (.field i0.bits) x with
         | .ok _ => .error .value
         | .error e => .error e) := by
  constructor
  · simp only [convertSeq, Fields.skipIgnored, h0, Bool.false_eq_true, if_false]
    cases convert m (off + i0.off) t0 (.field i0.bits) x <;> rfl
  · intro y ys
    simp only [convertSeq, Fields.skipIgnored, h0, Bool.false_eq_true, if_false,
      skipIgnored_allIgnored rest hr]
    cases convert m (off + i0.off) t0 (.field i0.bits) x <;> rfl

-- union u_ { int a; char b[8]; short c; }: [7] sets `a`; [7, 1] is a ValueError
example : convert (zeros 8) 0 (.agg 8 (.cons ⟨1, 0, none, false⟩ (.prim (.int 4 true))
      (.cons ⟨2, 0, none, true⟩ (.arr (.prim .char) 1 (some 8)) (.cons ⟨3, 0, none, true⟩ (.prim (.int 2 true)) .nil))))
    .plain (.seq (.cons (.int 7) .nil)) = .ok [7, 0, 0, 0, 0, 0, 0, 0] := by decide

/-- **too_many_initialisers_rejected.**  A list/tuple with more items than the struct has
constructor fields is never accepted by `ffi.new` (nor by assignment: `convertSeq_too_many`);
a list/tuple or `bytes` longer than a fixed-length array is an `IndexError`. -/
theorem too_many_initialisers_rejected (limit size : Nat) (fs : Fields) (items : Inits)
    (h : Fields.ctorCount fs < items.length) :
    ∀ o, newp limit true (.agg size fs) (some (.seq items)) ≠ .ok o := by
  intro o ho
  obtain ⟨d, _, hc, _⟩ := newp_ptr_ok ho
  simp only [convert] at hc
  exact convertSeq_too_many items _ 0 fs h _ hc

theorem too_many_array_items_rejected (m : Mem) (off : Nat) (item : Ty) (isz l : Nat) (items : Inits)
    (h : l < items.length) :
    convert m off (.arr item isz (some l)) .plain (.seq items) = .error .index := by
  have : tooMany (some l) items.length = true := by simp [tooMany_eq_ref, tooManyRef, h]
  simp only [convert, this, if_true]

theorem too_long_bytes_rejected (m : Mem) (off : Nat) (item : Ty) (isz l : Nat) (b : List UInt8)
    (hb : item.isByteLike = true) (h : l < b.length) :
    convert m off (.arr item isz (some l)) .plain (.bytes b) = .error .index := by
  have : tooMany (some l) b.length = true := by simp [tooMany_eq_ref, tooManyRef, h]
  simp only [convert, hb, this, if_true]

-- struct { int a; char b; } with three initialisers; int[2] with three; char[3] with b"abcd"
example : newp 1000 true (.agg 8 (.cons ⟨1, 0, none, false⟩ (.prim (.int 4 true))
      (.cons ⟨2, 4, none, false⟩ (.prim .char) .nil)))
    (some (.seq (.cons (.int 1) (.cons (.bytes [65]) (.cons (.int 3) .nil))))) = .error .value := by decide
example : newp 1000 false (.arr (.prim (.int 4 true)) 4 (some 2))
    (some (.seq (.cons (.int 1) (.cons (.int 2) (.cons (.int 3) .nil))))) = .error .index := by decide
example : newp 1000 false (.arr (.prim .char) 1 (some 3)) (some (.bytes [97, 98, 99, 100]))
    = .error .index := by decide

/-- The same on the assignment path: `p[0] = [more items than fields]` never succeeds. -/
theorem too_many_struct_items_rejected_on_assignment (m : Mem) (off size : Nat) (fs : Fields) (items : Inits)
    (fc : FieldCtx) (hfc : fc = .plain ∨ fc = .field none)
    (h : Fields.ctorCount fs < items.length) :
    ∀ m', convert m off (.agg size fs) fc (.seq items) ≠ .ok m' := by
  intro m' hm
  rcases hfc with rfl | rfl <;> simp only [convert] at hm <;> exact convertSeq_too_many items m off fs h m' hm

example : Fields.ctorCount (.cons ⟨1, 0, none, false⟩ (.prim (.int 4 true))
    (.cons ⟨2, 0, none, true⟩ (.prim (.int 2 true)) .nil)) = 1 := by decide

/-- **Sequence initialisers fill the leading fields in order**: the first item goes to the first
field that is not flagged `BF_IGNORE_IN_CTOR`, the remaining items to the fields after it. -/
theorem seq_fills_leading_fields (m : Mem) (off : Nat) (info : FieldInfo) (ty : Ty) (rest : Fields)
    (x : Init) (xs : Inits) (h : info.ignore = false) :
    convertSeq m off (.cons info ty rest) (.cons x xs) =
      (match convert m (off + info.off) ty (.field info.bits) x with
       | .ok m' => convertSeq m' off rest xs
       | .error e => .error e) := by
  simp only [convertSeq, Fields.skipIgnored, h, Bool.false_eq_true, if_false]
  cases convert m (off + info.off) ty (.field info.bits) x <;> rfl

/-- **Dict initialisers set the named fields** (in iteration order); a key that is not a field
name is a `KeyError`. -/
theorem dict_sets_named_fields (m : Mem) (off : Nat) (fs : Fields) (k : Nat) (v : Init) (rest : KVs) :
    convertDict m off fs (.cons k v rest) =
      (match fs.find k with
       | none => .error .key
       | some (info, ty) =>
          (match convert m (off + info.off) ty (.field info.bits) v with
           | .ok m' => convertDict m' off fs rest
           | .error e => .error e)) := by
  simp only [convertDict]
  cases fs.find k with
  | none => rfl
  | some p =>
    obtain ⟨info, ty⟩ := p
    simp only
    cases convert m (off + info.off) ty (.field info.bits) v <;> rfl

-- struct { int a; short b; } initialised with {b: 2}: only `b` is stored, `a` stays zero
example : convert (zeros 8) 0 (.agg 8 (.cons ⟨1, 0, none, false⟩ (.prim (.int 4 true))
      (.cons ⟨2, 4, none, false⟩ (.prim (.int 2 true)) .nil)))
    .plain (.dict (.cons 2 (.int 2) .nil)) = .ok [0, 0, 0, 0, 2, 0, 0, 0] := by decide
example : convert (zeros 8) 0 (.agg 8 (.cons ⟨1, 0, none, false⟩ (.prim (.int 4 true)) .nil))
    .plain (.dict (.cons 9 (.int 2) .nil)) = .error .key := by decide

/-- The code as it is, packed layouts: `struct __attribute__((packed)) { char a; unsigned long long b:3; }`
has size 2 and `b` at offset 1 with an 8-byte storage unit; `convert_from_object_bitfield` reads and
rewrites all 8 bytes, 7 of them outside the block.  The type description is not `wf`, so the
memory-safety theorem does not apply.  Finding `C20/packed-bitfield-unit-past-struct-end`. -/
theorem packed_bitfield_unit_overruns :
    let ty : Ty := .agg 2 (.cons ⟨1, 0, none, false⟩ (.prim .char)
      (.cons ⟨2, 1, some (0, 3), false⟩ (.prim (.int 8 false)) .nil))
    ty.wf = false ∧
    newp 1000 true ty (some (.seq (.cons (.bytes [120]) (.cons (.int 1) .nil)))) = .error .oob := by decide

end CffiVerif.C20
