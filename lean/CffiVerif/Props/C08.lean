import CffiVerif.Proofs.CName
import CffiVerif.Proofs.TypeParser
import CffiVerif.Props.C07

/-!
C08 — C type names round-trip through `getctype` and `typeof`.

On the models of the backend's name printer (`Model/CName.lean`) and of the C
type-string parser (`Model/TypeParser.lean`):

* `position_in_bounds`: the name position never exceeds the name length, so the
  `memcpy`s of `b_getcname` / `_combine_type_name_l` / `ctypedescr_new_on_top`
  stay inside their buffers, for every type tree (function types included);
* `py_and_c_getctype_agree`: `FFI.getctype` (api.py, the `'&['` test) and
  `ffi_getctype` (ffi_obj.c, the CT_ARRAY test) build the same string;
* `getctype_roundtrip` (= `parse_cname_partial` of C07): `typeof(getctype(T)) = T` on the
  primitive/pointer/array/struct/union/enum fragment; the full statement with function pointer
  types (`∀ ctx T, WF ctx T → parseType ctx (getctypeC T []) = .ok T`) is covered by the
  correspondence run only;
* `getctype_decl`: `typeof(getctype(T, x)) = x applied to T` for declarator texts
  `*…*`, `[N]…[M]` and their combination `*…*[N]…[M]`, on the
  primitive/pointer/array/struct/union/enum fragment.
-/
namespace CffiVerif.C08
open CffiVerif.CName CffiVerif.TypeParser

/-- `0 ≤ ct_name_position ≤ strlen(ct_name)` for every type. -/
theorem position_in_bounds (T : Ty) : (cname T).2 ≤ (cname T).1.length := by
  rw [cname_eq]; simp

/-- Inserting text at the name position keeps head and tail of the name: the result of
`b_getcname` has exactly `strlen(name) + strlen(text)` characters. -/
theorem getcname_length (T : Ty) (x : Str) :
    (getcname (cname T) x).length = (cname T).1.length + x.length := by
  rw [getcname_eq, cname_eq]; simp; omega

/-- The Python and the C implementation of `getctype` produce the same string for every type
(function types included) and every replacement text, provided the type's name has no `&`. -/
theorem py_and_c_getctype_agree (T : Ty) (x : Str) (h : '&' ∉ (cname T).1) :
    getctypePy T x = getctypeC T x := by
  unfold getctypePy getctypeC
  simp only [ampBracket_iff_isArr T h]
  cases hs : decide ((strip x).head? = some '*') <;> cases hT : T.isArr <;>
    simp_all <;> (split <;> simp_all)

-- non-vacuity: `int(*)[3]`-style names have no `&`
example : '&' ∉ (cname (.ptr (.arr (.prim "int".toList) (some 3)))).1 := by decide
example : getctypeC (.arr (.prim "int".toList) (some 3)) " * ".toList = "int(*)[3]".toList := by decide
example : getctypePy (.arr (.prim "int".toList) (some 3)) " * ".toList = "int(*)[3]".toList := by decide

/-- **`typeof(getctype(T)) = T`** on the fragment without function types: the text
`ffi.getctype(T)` produces is read back by the C parser as `T`, over every context in which
`T`'s leaf is declared. -/
theorem getctype_roundtrip (ctx : Ctx) (F : FTy) (hleaf : WFLeaf ctx F.leaf) (hlens : F.LensOK) :
    parseType ctx (getctypeC F.toTy []) = .ok F.toTy := by
  have := getctype_decl_F ctx F hleaf hlens 0 [] (by simp)
  simpa [declText, applyDecl, applySfx, ptrN] using this

/-- **`getctype(T, x)` re-parses to the type `x` denotes on top of `T`** for the declarator
texts `x = *…*[N]…[M]` (`k ≥ 0` stars followed by any list of bracketed lengths, `[]`
included): the result is `array N of … array M of k-fold pointer to T`.  The parentheses that
`ffi_getctype` adds when a `*` is put on an array type are exactly what makes this hold. -/
theorem getctype_decl (ctx : Ctx) (F : FTy) (hleaf : WFLeaf ctx F.leaf) (hlens : F.LensOK)
    (k : Nat) (lens : List (Option Nat)) (hl : ∀ n, some n ∈ lens → n ≤ maxSsize) :
    parseType ctx (getctypeC F.toTy (declText k lens)) = .ok (applyDecl k lens F.toTy) :=
  getctype_decl_F ctx F hleaf hlens k lens hl

-- non-vacuity and what the statement says at concrete points
def exCtx : Ctx := { typedefs := [], aggs := [("s".toList, .struct, true)], enums := [], consts := [] }
def exArr : FTy := .arr (.prim "int".toList) (some 3)
example : WFLeaf exCtx exArr.leaf := WFLeaf.kwPrim ["int".toList] (by decide)
example : exArr.LensOK := ⟨trivial, by intro n h; cases h; decide⟩
example : declText 1 [some 5] = "*[5]".toList := by decide
example : getctypeC exArr.toTy (declText 1 [some 5]) = "int(*[5])[3]".toList := by decide
example : applyDecl 1 [some 5] exArr.toTy = .arr (.ptr (.arr (.prim "int".toList) (some 3))) (some 5) := rfl
example : parseType exCtx "int(*[5])[3]".toList =
    .ok (.arr (.ptr (.arr (.prim "int".toList) (some 3))) (some 5)) :=
  getctype_decl exCtx exArr (WFLeaf.kwPrim ["int".toList] (by decide))
    ⟨trivial, by intro n h; cases h; decide⟩ 1 [some 5] (by intro n h; simp at h; subst h; decide)

/-- Without the parentheses the text denotes another type: `int *[3]` is an array of pointers,
not a pointer to `int[3]` (why `add_paren` is needed). -/
theorem paren_needed :
    C07.nameOf (parseType exCtx "int *[3]".toList) = some "int *[3]".toList ∧
    (cname (.ptr (.arr (.prim "int".toList) (some 3)))).1 = "int(*)[3]".toList := by decide +kernel

end CffiVerif.C08
