import CffiVerif.Proofs.CName
import CffiVerif.Proofs.TypeParserFull
import CffiVerif.Props.C07

/-!
C08 — C type names round-trip through `getctype` and `typeof`.

On the models of the backend's name printer (`Model/CName.lean`) and of the C
type-string parser (`Model/TypeParser.lean`):

* `position_in_bounds`: the name position never exceeds the name length, so the
  `memcpy`s of `b_getcname` / `_combine_type_name_l` / `ctypedescr_new_on_top`
  stay inside their buffers, for every type tree (function types included);
* `py_and_c_getctype_agree`: `FFI.getctype` (api.py, the `'&['` test) and
  `ffi_getctype` (ffi_obj.c, the CT_ARRAY test) build the same string;
* `getctype_roundtrip` (= `parse_cname` of C07): `typeof(getctype(T)) = T` for every
  well-formed type of the full language, function pointer types included;
* `getctype_decl`: `typeof(getctype(T, x)) = x applied to T` for every well-formed `T` and
  every declarator text `x` built from `*`, `[N]`, grouping parentheses and function suffixes
  `(*…)(args)`; `getctype_decl_py` the same through the Python implementation;
  `…_partial` / `getctype_decl_stars_brackets` are the earlier forms, now corollaries.
-/
namespace CffiVerif.C08
open CffiVerif.CName CffiVerif.TypeParser

/-- `0 ≤ ct_name_position ≤ strlen(ct_name)` for every type. -/
theorem position_in_bounds (T : Ty) : (cname T).2 ≤ (cname T).1.length := by
  rw [cname_eq]; simp

/-- Inserting text at the name position keeps head and tail of the name: the result of
`b_getcname` has exactly `strlen(name) + strlen(text)` characters. -/
theorem getcname_length (T : Ty) (x : Str) :
    (getcname (cname T) x).length = (cname T).1.length + x.length := by
  rw [getcname_eq, cname_eq]; simp; omega

/-- The Python and the C implementation of `getctype` produce the same string for every type
(function types included) and every replacement text, provided the type's name has no `&`. -/
theorem py_and_c_getctype_agree (T : Ty) (x : Str) (h : '&' ∉ (cname T).1) :
    getctypePy T x = getctypeC T x := by
  unfold getctypePy getctypeC
  simp only [ampBracket_iff_isArr T h]
  cases hs : decide ((strip x).head? = some '*') <;> cases hT : T.isArr <;>
    simp_all <;> (split <;> simp_all)

-- non-vacuity: `int(*)[3]`-style names have no `&`
example : '&' ∉ (cname (.ptr (.arr (.prim "int".toList) (some 3)))).1 := by decide
example : getctypeC (.arr (.prim "int".toList) (some 3)) " * ".toList = "int(*)[3]".toList := by decide
example : getctypePy (.arr (.prim "int".toList) (some 3)) " * ".toList = "int(*)[3]".toList := by decide

/-- **`typeof(getctype(T)) = T`** for every well-formed type of the full language (function
pointer types included), over every context in which `T`'s leaves are declared. -/
theorem getctype_roundtrip (ctx : Ctx) (T : Ty) (hT : WF ctx T) :
    parseType ctx (getctypeC T []) = .ok T := by
  have := getctype_decl_full ctx T hT (.flat 0 []) (by simp [DeclWF, ArrOnly])
  simpa [dstr, sfxStr, Decl.apply, applySfx, ptrN] using this

/-- **`getctype(T, x)` re-parses to the type `x` denotes on top of `T`**, for every well-formed
`T` and every declarator `d` with text `x = dstr d`: stars, bracketed lengths (`[]` included),
grouping parentheses and function suffixes `(*…)(args)` with well-formed parameter lists
(fixed, empty, variadic), in any nesting — `*`, `[N]`, `(*)(int)`, `(*[4])(void)`,
`*(*(*)(char))[2]`, ….  The parentheses `ffi_getctype` adds when a `*` is put on an array type
are exactly what makes this hold. -/
theorem getctype_decl (ctx : Ctx) (T : Ty) (hT : WF ctx T) (d : Decl) (hd : DeclWF ctx d) :
    parseType ctx (getctypeC T (dstr d)) = .ok (d.apply T) :=
  getctype_decl_full ctx T hT d hd

/-- The same through the Python implementation of `getctype` (names have no `&`). -/
theorem getctype_decl_py (ctx : Ctx) (T : Ty) (hT : WF ctx T) (d : Decl) (hd : DeclWF ctx d)
    (h : '&' ∉ (cname T).1) : parseType ctx (getctypePy T (dstr d)) = .ok (d.apply T) := by
  rw [py_and_c_getctype_agree T _ h]; exact getctype_decl ctx T hT d hd

/-- Earlier forms, now corollaries: stars and bracketed lengths, on any well-formed type … -/
theorem getctype_decl_stars_brackets (ctx : Ctx) (T : Ty) (hT : WF ctx T)
    (k : Nat) (lens : List (Option Nat)) (hl : ∀ n, some n ∈ lens → n ≤ maxSsize) :
    parseType ctx (getctypeC T (declText k lens)) = .ok (applyDecl k lens T) := by
  rw [declText_eq_dstr]
  exact getctype_decl ctx T hT (.flat k (lens.map Suffix.arr)) (arrOnly_map lens hl)

/-- … and on the fragment without function types. -/
theorem getctype_roundtrip_partial (ctx : Ctx) (F : FTy) (hleaf : WFLeaf ctx F.leaf) (hlens : F.LensOK) :
    parseType ctx (getctypeC F.toTy []) = .ok F.toTy :=
  getctype_roundtrip ctx F.toTy (wf_of_frag ctx F hleaf hlens)

theorem getctype_decl_partial (ctx : Ctx) (F : FTy) (hleaf : WFLeaf ctx F.leaf) (hlens : F.LensOK)
    (k : Nat) (lens : List (Option Nat)) (hl : ∀ n, some n ∈ lens → n ≤ maxSsize) :
    parseType ctx (getctypeC F.toTy (declText k lens)) = .ok (applyDecl k lens F.toTy) :=
  getctype_decl_stars_brackets ctx F.toTy (wf_of_frag ctx F hleaf hlens) k lens hl

-- non-vacuity and what the statements say at concrete points
def exCtx : Ctx := { typedefs := [], aggs := [("s".toList, .struct, true)], enums := [], consts := [] }
def exInt : Ty := .prim "int".toList
theorem exInt_wf : WF exCtx exInt := WF.leaf (.prim "int".toList) (WFLeaf.kwPrim ["int".toList] (by decide))
def exArr : Ty := .arr exInt (some 3)
theorem exArr_wf : WF exCtx exArr := WF.arr _ _ exInt_wf (by intro n h; cases h; decide)
/-- the declarator `(*[4])(int, ...)`: array 4 of pointer to variadic function taking int -/
def exD : Decl := .group 0 (.flat 1 [.arr (some 4)]) [.fn [exInt] true]
example : dstr exD = "(*[4])(int, ...)".toList := by decide +kernel
theorem exD_wf : DeclWF exCtx exD := by
  refine ⟨⟨by decide, trivial⟩, Or.inl (by decide), ⟨?_, ?_, ?_, trivial⟩⟩
  · intro A hA; simp only [List.mem_cons, List.not_mem_nil, or_false] at hA; subst hA; exact exInt_wf
  · intro A hA; simp only [List.mem_cons, List.not_mem_nil, or_false] at hA; subst hA; rfl
  · intro h; cases h.2
example : getctypeC C07.exFn (dstr exD) =
    "struct s *(*(*(*[4])(int, ...))(char *, int(*)(), ...))[3]".toList := by decide +kernel
example : parseType C07.exCtx (getctypeC C07.exFn (dstr exD)) = .ok (exD.apply C07.exFn) :=
  getctype_decl C07.exCtx C07.exFn C07.exFn_wf exD (by
    refine ⟨⟨by decide, trivial⟩, Or.inl (by decide), ⟨?_, ?_, ?_, trivial⟩⟩
    · intro A hA; simp only [List.mem_cons, List.not_mem_nil, or_false] at hA; subst hA; exact C07.exWFInt
    · intro A hA; simp only [List.mem_cons, List.not_mem_nil, or_false] at hA; subst hA; rfl
    · intro h; cases h.2)
example : declText 1 [some 5] = "*[5]".toList := by decide
example : getctypeC exArr (declText 1 [some 5]) = "int(*[5])[3]".toList := by decide
example : applyDecl 1 [some 5] exArr = .arr (.ptr (.arr exInt (some 3))) (some 5) := rfl
example : parseType exCtx "int(*[5])[3]".toList = .ok (.arr (.ptr (.arr exInt (some 3))) (some 5)) :=
  getctype_decl_stars_brackets exCtx exArr exArr_wf 1 [some 5] (by intro n h; simp at h; subst h; decide)

/-- Without the parentheses the text denotes another type: `int *[3]` is an array of pointers,
not a pointer to `int[3]` (why `add_paren` is needed). -/
theorem paren_needed :
    C07.nameOf (parseType exCtx "int *[3]".toList) = some "int *[3]".toList ∧
    (cname (.ptr (.arr (.prim "int".toList) (some 3)))).1 = "int(*)[3]".toList := by decide +kernel

end CffiVerif.C08
