import CffiVerif.Proofs.AtomicWrite

/-!
C23 — generated source is deterministic, idempotent and replaced atomically.

On the model of `_make_c_or_py_source` (`Model/AtomicWrite.lean`):
* at every crash point (= after any prefix of the I/O operations) the target path
  holds the complete old file or the complete new text (`crash_safe`), and a run
  that is not interrupted installs the new text (`complete_run_installs_new`);
* when the old text equals the new one, no mutating operation is issued, the file
  system (content *and* mtime) is unchanged at every point and the function
  returns `False` (`same_content_no_ops`);
* the generated text, being `render ∘ sortByKey`, does not depend on the order in
  which the declarations (distinct keys) were inserted (`render_perm_invariant`).
-/
namespace CffiVerif.C23
open CffiVerif.AtomicWrite

/-- **Crash safety** (POSIX `rename`): whatever prefix of the operation sequence
was executed, `target` holds either exactly what it held before (same content,
same mtime; possibly "absent") or the complete new output.  For every chunking of
the output into `write` calls. -/
theorem crash_safe (fs : FS) (tmp target : Path) (output : Text) (chunks : List Text)
    (hne : tmp ≠ target) (hch : chunks.flatten = output) (k : Nat) :
    (run fs ((plan fs tmp target output chunks).1.take k)).files target = fs.files target ∨
    ∃ t, (run fs ((plan fs tmp target output chunks).1.take k)).files target = some ⟨output, t⟩ := by
  unfold plan
  by_cases hu : upToDate fs target output = true
  · simp only [hu, if_true]
    left
    rw [run_not_mutating _ fs (fun op h => readOps_not_mutating fs target op (List.mem_of_mem_take h))]
  · simp only [hu]
    simp only [writeOps_eq, if_true, Bool.false_eq_true, if_false]
    rw [← List.append_assoc]
    rcases take_append_singleton
        (readOps fs target ++ ([Op.openTrunc tmp] ++ chunks.map (Op.write tmp) ++ [Op.closeWrite tmp]))
        (Op.rename tmp target) k with h | h
    · left
      rw [h]
      exact run_not_touching _ fs target
        (fun op hop => prefix_not_touching fs tmp target chunks hne op (List.mem_of_mem_take hop))
    · right
      rw [h, run_append]
      obtain ⟨_, t, ht⟩ := before_rename fs tmp target chunks hne
      refine ⟨t, ?_⟩
      simp only [run, List.foldl_cons, List.foldl_nil, apply] at ht ⊢
      rw [ht]
      simp [FS.set, hne.symm, hch]

/-- An uninterrupted run that found the target absent or different installs exactly
the new output, removes the temporary file and reports `True`. -/
theorem complete_run_installs_new (fs : FS) (tmp target : Path) (output : Text) (chunks : List Text)
    (hne : tmp ≠ target) (hch : chunks.flatten = output) (hu : upToDate fs target output = false) :
    (plan fs tmp target output chunks).2 = some true ∧
    (∃ t, (run fs (plan fs tmp target output chunks).1).files target = some ⟨output, t⟩) ∧
    (run fs (plan fs tmp target output chunks).1).files tmp = none := by
  unfold plan
  simp only [hu, Bool.false_eq_true, if_false, writeOps_eq, handlerRet_eq, if_true, true_and]
  rw [← List.append_assoc, run_append]
  obtain ⟨_, t, ht⟩ := before_rename fs tmp target chunks hne
  simp only [run, List.foldl_cons, List.foldl_nil, apply] at ht ⊢
  rw [ht]
  exact ⟨⟨t, by simp [FS.set, hne.symm, hch]⟩, by simp [FS.set]⟩

/-- **Idempotence**: when the comparison finds the target up to date, the function
returns `False`, issues no mutating operation, and the file system -- content and
mtime of every path -- is the initial one at every point of the run. -/
theorem same_content_no_ops (fs : FS) (tmp target : Path) (output : Text) (chunks : List Text)
    (hu : upToDate fs target output = true) :
    (plan fs tmp target output chunks).2 = some false ∧
    (∀ op ∈ (plan fs tmp target output chunks).1, op.mutates = false) ∧
    ∀ k, run fs ((plan fs tmp target output chunks).1.take k) = fs := by
  unfold plan
  simp only [hu, if_true, tryRet_eq, true_and]
  exact ⟨readOps_not_mutating fs target,
    fun k => run_not_mutating _ fs (fun op h => readOps_not_mutating fs target op (List.mem_of_mem_take h))⟩

/-- What the comparison `f1.read(len(output)+1) != output` decides: the old file, read
in text mode, is the new output. -/
theorem up_to_date_iff (fs : FS) (target : Path) (output : Text) :
    upToDate fs target output = true ↔ ∃ f, fs.files target = some f ∧ univNewlines f.content = output := by
  rw [upToDate_eq]
  cases h : fs.files target with
  | none => simp
  | some f =>
    show ((univNewlines f.content).take (output.length + 1) == output) = true ↔ _
    rw [take_succ_length_beq]
    constructor
    · intro h; exact ⟨f, rfl, h⟩
    · rintro ⟨g, hg, h⟩; cases hg; exact h

/-- A target that already holds the identical text is up to date -- provided the text
contains no carriage return.

Full statement (false for this code): `fs.files target = some ⟨output, t⟩ → upToDate fs target output = true`.
With a `\r` in the output (it can only come from the user's C preamble) the text read back
has `\n` in its place, the comparison fails and the file is rewritten on every call;
see `identical_with_cr_not_up_to_date`. -/
theorem identical_is_up_to_date_partial (fs : FS) (target : Path) (output : Text) (t : Nat)
    (hcr : ∀ c ∈ output, c ≠ 13) (h : fs.files target = some ⟨output, t⟩) :
    upToDate fs target output = true := by
  rw [up_to_date_iff]
  exact ⟨⟨output, t⟩, h, univNewlines_noCR output hcr⟩

def exFS (c : Text) : FS := ⟨fun p => if p = 0 then some ⟨c, 5⟩ else none, 6⟩

/-- Witness of the known finding C23/carriage-return-in-output: identical content `"a\r\n"`, not up to date. -/
theorem identical_with_cr_not_up_to_date :
    (exFS [97, 13, 10]).files 0 = some ⟨[97, 13, 10], 5⟩ ∧ upToDate (exFS [97, 13, 10]) 0 [97, 13, 10] = false := by
  decide

/-- The `except OSError: os.unlink(target); os.rename(tmp, target)` fallback (taken where
`rename` refuses to replace an existing file, i.e. Windows) is *not* crash safe: after the
`unlink` the target is absent although it existed before. -/
theorem fallback_not_crash_safe :
    ∃ k, (exFS [1]).files 0 ≠ none ∧
      (run (exFS [1]) ((plan (exFS [1]) 1 0 [2] [[2]] false).1.take k)).files 0 = none := by
  exact ⟨8, by decide, by decide⟩

/-- The temporary file is never the target: the name extracted from the source is the target's
name followed by a non-empty suffix (`'%s.~%d' % (target_file, os.getpid())`), which justifies
the hypothesis `tmp ≠ target` of the theorems above. -/
theorem tmp_name_differs_from_target :
    Generated.AtomicWriteOps.tmpPattern = "%s.~%d" ∧
    ∀ (target suffix : List Char), suffix ≠ [] → target ++ suffix ≠ target := by
  refine ⟨by decide, ?_⟩
  intro t s hs h
  have := congrArg List.length h
  simp only [List.length_append] at this
  have : s.length = 0 := by omega
  exact hs (List.length_eq_zero_iff.mp this)

/-- **Determinism w.r.t. insertion order**: for declarations with distinct keys, the
generated text does not depend on the order in which they were added. -/
theorem render_perm_invariant {α β : Type} (render : List α → β) (key : α → Key)
    (ds ds' : List α) (hperm : ds'.Perm ds) (hd : (ds.map key).Nodup) :
    gen render key ds' = gen render key ds := by
  unfold gen sortByKey
  congr 1
  apply List.Perm.eq_of_pairwise (le := fun a b => keyLe (key a) (key b) = true)
  · intro a b ha hb hab hba
    have ha' : a ∈ ds := hperm.subset (List.mem_mergeSort.mp ha)
    have hb' : b ∈ ds := List.mem_mergeSort.mp hb
    exact eq_of_key_eq key ds hd a b ha' hb' (keyLe_antisymm _ _ hab hba)
  · exact List.pairwise_mergeSort (fun a b c => keyLe_trans (key a) (key b) (key c))
      (fun a b => keyLe_total (key a) (key b)) ds'
  · exact List.pairwise_mergeSort (fun a b c => keyLe_trans (key a) (key b) (key c))
      (fun a b => keyLe_total (key a) (key b)) ds
  · exact (List.mergeSort_perm ds' _).trans (hperm.trans (List.mergeSort_perm ds _).symm)

/-- The sorted list is sorted by key and holds exactly the declarations. -/
theorem sortByKey_sorted_perm {α : Type} (key : α → Key) (ds : List α) :
    (sortByKey key ds).Pairwise (fun a b => key a ≤ key b) ∧ (sortByKey key ds).Perm ds := by
  refine ⟨?_, List.mergeSort_perm ds _⟩
  have := List.pairwise_mergeSort (le := fun a b => keyLe (key a) (key b))
    (fun a b c => keyLe_trans (key a) (key b) (key c)) (fun a b => keyLe_total (key a) (key b)) ds
  unfold sortByKey
  simpa [keyLe] using this

-- Non-vacuity.
-- crash_safe / complete_run: an existing different target, two chunks.
example : (1 : Path) ≠ 0 ∧ [[2], [3]].flatten = ([2, 3] : Text) ∧ upToDate (exFS [1]) 0 [2, 3] = false := by decide
example : (run (exFS [1]) (plan (exFS [1]) 1 0 [2, 3] [[2], [3]]).1).files 0 = some ⟨[2, 3], 8⟩ := by decide
example : (run (exFS [1]) ((plan (exFS [1]) 1 0 [2, 3] [[2], [3]]).1.take 6)).files 0 = some ⟨[1], 5⟩ := by decide
-- same_content_no_ops: an existing identical target; also one that differs only by CRLF line ends.
example : upToDate (exFS [2, 10]) 0 [2, 10] = true := by decide
example : upToDate (exFS [2, 13, 10]) 0 [2, 10] = true := by decide
-- render_perm_invariant: two insertion orders of three declarations.
example : (([([102, 32, 98], 1), ([102, 32, 97], 2), ([115], 3)] : List (Key × Nat)).map Prod.fst).Nodup := by decide
example : gen (fun l => l.map Prod.snd) Prod.fst ([([102, 32, 98], 1), ([102, 32, 97], 2), ([115], 3)] : List (Key × Nat))
    = gen (fun l => l.map Prod.snd) Prod.fst [([115], 3), ([102, 32, 97], 2), ([102, 32, 98], 1)] :=
  render_perm_invariant _ _ _ _ (by decide) (by decide)
example : sortByKey Prod.fst ([([102, 32, 98], 1), ([102, 32, 97], 2), ([115], 3)] : List (Key × Nat))
    = [([102, 32, 97], 2), ([102, 32, 98], 1), ([115], 3)] := by
  have h := render_perm_invariant (fun l => l) Prod.fst
    ([([102, 32, 97], 2), ([102, 32, 98], 1), ([115], 3)] : List (Key × Nat))
    [([102, 32, 98], 1), ([102, 32, 97], 2), ([115], 3)] (by decide) (by decide)
  have h2 : sortByKey Prod.fst ([([102, 32, 97], 2), ([102, 32, 98], 1), ([115], 3)] : List (Key × Nat))
      = [([102, 32, 97], 2), ([102, 32, 98], 1), ([115], 3)] :=
    List.mergeSort_of_pairwise (by decide)
  exact h.trans h2

end CffiVerif.C23
