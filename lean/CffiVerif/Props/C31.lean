import CffiVerif.Proofs.Preprocess
import CffiVerif.Generated.PreprocessRegex

/-!
C31 — comments, spacing and line directives do not change a cdef's meaning (partial).

What is proved, on the model of the comment / `#define` stage of `cparser._preprocess`
(`Model/Preprocess.lean`): a comment inserted at a point that is outside comments is
replaced by exactly one space plus the newlines it contained, and nothing else in the
text is affected (`block_comment_is_space`, `line_comment_is_space`,
`line_comment_at_eof_is_space`); an unterminated `/*` is left as text
(`unclosed_block_is_text`); the value of a `#define` is unchanged by a comment without
newline before or after it and by a backslash-newline continuation
(`define_value_unchanged_by_inline_comment_partial`, `define_value_continuation`).
That white space between tokens is insignificant is pycparser's business (not modelled);
the harness checks it on the real implementation.
-/
namespace CffiVerif.C31
open CffiVerif.Preprocess

/-- **A block comment is one space plus its newlines.**  `pre` ends outside comments,
the body `c` does not contain `*/`. -/
theorem block_comment_is_space (pre c post : Text) (hpre : Closed pre) (hc : closes false c = false) :
    stripComments (pre ++ [47, 42] ++ c ++ [42, 47] ++ post)
      = stripComments pre ++ [32] ++ newlines c ++ stripComments post := by
  unfold stripComments
  have e : pre ++ [47, 42] ++ c ++ [42, 47] ++ post = pre ++ (47 :: 42 :: (c ++ 42 :: 47 :: post)) := by simp
  rw [e, go_append_closed pre _ .code hpre]
  simp only [go, if_true, closes_body c post false, go_block_body c post false hc]
  simp

/-- **A `//` comment is one space plus its (escaped) newlines**; the newline that ends it
stays.  `c` is a body in the regex's sense: no unescaped newline, no dangling backslash. -/
theorem line_comment_is_space (pre c post : Text) (hpre : Closed pre) (hc : lineBody false c = true) :
    stripComments (pre ++ [47, 47] ++ c ++ [10] ++ post)
      = stripComments pre ++ [32] ++ newlines c ++ [10] ++ stripComments post := by
  unfold stripComments
  have e : pre ++ [47, 47] ++ c ++ [10] ++ post = pre ++ (47 :: 47 :: (c ++ 10 :: post)) := by simp
  rw [e, go_append_closed pre _ .code hpre]
  have h42 : ¬ ((47 : Nat) = 42) := by decide
  simp only [go, if_true, h42, if_false, lineOk_body c post false hc, go_line_body c post false hc]
  simp

/-- A `//` comment that runs to the end of the text. -/
theorem line_comment_at_eof_is_space (pre c : Text) (hpre : Closed pre) (hc : lineBody false c = true) :
    stripComments (pre ++ [47, 47] ++ c) = stripComments pre ++ [32] ++ newlines c := by
  unfold stripComments
  have e : pre ++ [47, 47] ++ c = pre ++ (47 :: 47 :: c) := by simp
  rw [e, go_append_closed pre _ .code hpre]
  have h42 : ¬ ((47 : Nat) = 42) := by decide
  simp only [go, if_true, h42, if_false, lineOk_body_eof c false hc, go_line_body_eof c false hc]
  simp

/-- The rejecting branch of the first alternative: `/*` without a later `*/` is ordinary
text (both characters stay, scanning resumes after them). -/
theorem unclosed_block_is_text (pre rest : Text) (hpre : Closed pre) (h : closes false rest = false) :
    stripComments (pre ++ 47 :: 42 :: rest) = stripComments pre ++ 47 :: 42 :: stripComments rest := by
  unfold stripComments
  rw [go_append_closed pre _ .code hpre]
  simp [go, h]

/-- Text without `/` is untouched. -/
theorem no_slash_untouched (t : Text) (h : ∀ c ∈ t, c ≠ 47) : stripComments t = t :=
  (go_code_noSlash t h).1

/-- **The value of a `#define` does not see a one-line comment placed before or after it.**
`a`, `b` are the parts of the line (after the macro name) around the comment: no newline,
backslash or `/`; one of them is white space only; the body `c` has no `*/` and no newline.

Full statement (false for this code): the same without `hcn`.  A block comment containing
a newline splits the `#define` line -- the value is cut at the comment and the rest of the
value lands on a line of its own; see `multiline_comment_in_define_breaks_value`. -/
theorem define_value_unchanged_by_inline_comment_partial (a b c post : Text)
    (ha : ∀ x ∈ a, x ≠ 10 ∧ x ≠ 92 ∧ x ≠ 47) (hb : ∀ x ∈ b, x ≠ 10 ∧ x ≠ 92 ∧ x ≠ 47)
    (hc : closes false c = false) (hcn : ∀ x ∈ c, x ≠ 10)
    (hsp : (∀ x ∈ a, isSpace x = true) ∨ (∀ x ∈ b, isSpace x = true)) :
    (rawValue false (stripComments (a ++ [47, 42] ++ c ++ [42, 47] ++ (b ++ 10 :: post)))).map macroValue
      = some (trim (a ++ b)) ∧
    (rawValue false (stripComments (a ++ b ++ 10 :: post))).map macroValue = some (trim (a ++ b)) := by
  have hac := go_code_noSlash a (fun x hx => (ha x hx).2.2)
  have hbc := go_code_noSlash b (fun x hx => (hb x hx).2.2)
  have hnl : newlines c = [] := by
    unfold newlines
    rw [List.filter_eq_nil_iff]
    intro x hx; simp [hcn x hx]
  have hpost : stripComments (b ++ 10 :: post) = b ++ 10 :: stripComments post := by
    unfold stripComments
    rw [go_append_closed b _ .code hbc.2, hbc.1]
    simp [go]
  constructor
  · rw [block_comment_is_space a c _ hac.2 hc, hnl, hpost, no_slash_untouched a (fun x hx => (ha x hx).2.2)]
    have e : a ++ [32] ++ [] ++ (b ++ 10 :: stripComments post) = (a ++ 32 :: b) ++ 10 :: stripComments post := by simp
    rw [e, rawValue_plain (a ++ 32 :: b) _ (by
      intro x hx
      rcases List.mem_append.mp hx with h | h
      · exact ⟨(ha x h).1, (ha x h).2.1⟩
      · rcases List.mem_cons.mp h with rfl | h
        · decide
        · exact ⟨(hb x h).1, (hb x h).2.1⟩)]
    simp only [Option.map_some, macroValue]
    rw [removeCont_plain _ (by
      intro x hx
      rcases List.mem_append.mp hx with h | h
      · exact (ha x h).2.1
      · rcases List.mem_cons.mp h with rfl | h
        · decide
        · exact (hb x h).2.1)]
    rcases hsp with hs | hs
    · rw [trim_allSpace_append a _ hs, trim_allSpace_append a _ hs]
      exact congrArg some (trim_allSpace_append [32] b (by intro x hx; simp at hx; subst hx; decide))
    · rw [trim_append_allSpace a (32 :: b) (by
        intro x hx
        rcases List.mem_cons.mp hx with rfl | h
        · decide
        · exact hs x h), trim_append_allSpace a b hs]
  · have e : a ++ b ++ 10 :: post = a ++ (b ++ 10 :: post) := by simp
    rw [e]
    have : stripComments (a ++ (b ++ 10 :: post)) = (a ++ b) ++ 10 :: stripComments post := by
      unfold stripComments
      rw [go_append_closed a _ .code hac.2, hac.1]
      have := hpost
      unfold stripComments at this
      rw [this]; simp
    rw [this, rawValue_plain (a ++ b) _ (by
      intro x hx
      rcases List.mem_append.mp hx with h | h
      · exact ⟨(ha x h).1, (ha x h).2.1⟩
      · exact ⟨(hb x h).1, (hb x h).2.1⟩)]
    simp only [Option.map_some, macroValue]
    rw [removeCont_plain _ (by
      intro x hx
      rcases List.mem_append.mp hx with h | h
      · exact (ha x h).2.1
      · exact (hb x h).2.1)]

/-- **A backslash-newline inside a `#define` value disappears**: the value of
`a \⏎ b` is the value of `a b` joined (both parts free of newline and backslash). -/
theorem define_value_continuation (a b post : Text)
    (ha : ∀ x ∈ a, x ≠ 10 ∧ x ≠ 92) (hb : ∀ x ∈ b, x ≠ 10 ∧ x ≠ 92) :
    (rawValue false (a ++ 92 :: 10 :: (b ++ 10 :: post))).map macroValue = some (trim (a ++ b)) := by
  have hraw : rawValue false (a ++ 92 :: 10 :: (b ++ 10 :: post)) = some (a ++ 92 :: 10 :: b) := by
    induction a with
    | nil =>
      simp only [List.nil_append, rawValue]
      have : ¬ ((92 : Nat) = 10) := by decide
      have e : ((92 : Nat) == 92) = true := by decide
      simp only [this, if_false, e, rawValue]
      rw [rawValue_plain b post hb]
      rfl
    | cons x r ih =>
      have hx := ha x List.mem_cons_self
      have hx' : (x == 92) = false := by simp [hx.2]
      simp only [List.cons_append, rawValue, hx.1, if_false, hx']
      rw [ih (fun c hc => ha c (List.mem_cons_of_mem _ hc))]; rfl
  rw [hraw]
  simp only [Option.map_some, macroValue]
  rw [removeCont_continuation a b (fun x hx => (ha x hx).2) (fun x hx => (hb x hx).2)]

/-- `#define FOO /* a ⏎ b */ 5` -/
def exMultiline : Text :=
  [35, 100, 101, 102, 105, 110, 101, 32, 70, 79, 79, 32, 47, 42, 32, 97, 32, 10, 32, 98, 32, 42, 47, 32, 53]
/-- `#define FOO /* a b */ 5` -/
def exInline : Text :=
  [35, 100, 101, 102, 105, 110, 101, 32, 70, 79, 79, 32, 47, 42, 32, 97, 32, 32, 98, 32, 42, 47, 32, 53]

/-- Witness of the known finding C31/multiline-comment-in-define: with a newline inside the
comment the macro gets the empty value (and ` 5` is left over as C source), while the same
comment on one line gives `5`. -/
theorem multiline_comment_in_define_breaks_value :
    (macros exMultiline).toOption = some [([70, 79, 79], [])] ∧
    (macros exInline).toOption = some [([70, 79, 79], [53])] := by
  decide

/-! ### The regular expressions of the source

`Generated/PreprocessRegex.lean` is recompiled from `_r_comment` and `_r_define` of cparser.py on
every run.  The transducer of `Model/Preprocess.lean` was written for one particular shape of
these expressions; the theorems below pin that shape and the meaning of every character class, and
identify the scanning functions of the model with the generic unit loop run on the extracted classes.
They stop checking as soon as one of the expressions changes. -/
section Source
open CffiVerif.Regex CffiVerif.Generated.PreprocessRegex

/-- `_r_comment` is `/\*` any`*?` `\*/` `|` `//` `([^\n\\] | \\ any)*?` `$`, DOTALL and MULTILINE. -/
theorem comment_regex_shape :
    commentShape =
      { blockOpen := [47, 42], blockBody := ⟨true, []⟩, blockLazy := true, blockClose := [42, 47],
        lineOpen := [47, 47],
        lineBody := { plain := ⟨true, [.range 10 10, .range 92 92]⟩, esc := 92, escAny := ⟨true, []⟩, lazy := true },
        lineEnd := .eol true } := by decide

/-- `_r_define` is `^ \s* # \s* define \s+ ([A-Za-z_][A-Za-z_0-9]*) \b (([^\n\\] | \\ any)*?) $`. -/
theorem define_regex_shape :
    defineShape =
      { start := .bol true, lead := ⟨false, [.cat .space false]⟩, hash := 35, gap1 := ⟨false, [.cat .space false]⟩,
        keyword := [100, 101, 102, 105, 110, 101], gap2 := ⟨false, [.cat .space false]⟩,
        nameStart := ⟨false, [.range 65 90, .range 97 122, .range 95 95]⟩,
        nameRest := ⟨false, [.range 65 90, .range 97 122, .range 95 95, .range 48 57]⟩,
        afterName := .wordb,
        value := { plain := ⟨true, [.range 10 10, .range 92 92]⟩, esc := 92, escAny := ⟨true, []⟩, lazy := true },
        stop := .eol true } := by decide

/-- Meaning of the classes of `_r_comment`: the block body and the escaped character are "any code
point" (DOTALL: newline included), a plain character of a `//` body is anything but newline and backslash. -/
theorem comment_classes (c : Nat) :
    commentShape.blockBody.mem c = true ∧ commentShape.lineBody.escAny.mem c = true ∧
    commentShape.lineBody.plain.mem c = (c != 10 && c != 92) ∧ commentShape.lineBody.esc = 92 := by
  refine ⟨rfl, rfl, ?_, rfl⟩
  simp only [commentShape, CC.mem, List.any_cons, List.any_nil, Item.mem, Bool.or_false]
  by_cases h10 : c = 10
  · subst h10; decide
  · by_cases h92 : c = 92
    · subst h92; decide
    · have a : (decide (10 ≤ c) && decide (c ≤ 10)) = false := by
        simp only [Bool.and_eq_false_iff, decide_eq_false_iff_not]; omega
      have b : (decide (92 ≤ c) && decide (c ≤ 92)) = false := by
        simp only [Bool.and_eq_false_iff, decide_eq_false_iff_not]; omega
      simp [a, b, h10, h92]

/-- Meaning of the classes of `_r_define` (ASCII meaning of `\s`): exactly the tests of `matchDefine`. -/
theorem define_classes (c : Nat) :
    defineShape.lead.mem c = isSpace c ∧ defineShape.gap1.mem c = isSpace c ∧ defineShape.gap2.mem c = isSpace c ∧
    defineShape.nameStart.mem c = isIdentStart c ∧ defineShape.nameRest.mem c = isIdentChar c ∧
    defineShape.value = commentShape.lineBody := by
  refine ⟨?_, ?_, ?_, ?_, ?_, by decide⟩
  · simp [defineShape, CC.mem, Item.mem, Cat.mem, isSpace]
  · simp [defineShape, CC.mem, Item.mem, Cat.mem, isSpace]
  · simp [defineShape, CC.mem, Item.mem, Cat.mem, isSpace]
  · have h95 : (decide (95 ≤ c) && decide (c ≤ 95)) = (c == 95) := by
      rw [Bool.eq_iff_iff]
      simp only [Bool.and_eq_true, decide_eq_true_eq, beq_iff_eq]
      omega
    simp [defineShape, CC.mem, Item.mem, isIdentStart, h95, Bool.or_assoc]
  · have h95 : (decide (95 ≤ c) && decide (c ≤ 95)) = (c == 95) := by
      rw [Bool.eq_iff_iff]
      simp only [Bool.and_eq_true, decide_eq_true_eq, beq_iff_eq]
      omega
    simp [defineShape, CC.mem, Item.mem, isIdentChar, isIdentStart, h95, Bool.or_assoc]

/-- The value capture of the model is the unit loop of `_r_define` run up to the `$`. -/
theorem rawValue_is_regex_loop (esc : Bool) (t : Text) :
    rawValue esc t = defineShape.value.scan (· == 10) esc t := by
  induction t generalizing esc with
  | nil => cases esc <;> rfl
  | cons c r ih =>
    have hcl := comment_classes c
    have hv : defineShape.value = commentShape.lineBody := (define_classes c).2.2.2.2.2
    cases esc with
    | true =>
      simp only [rawValue, UnitLoop.scan, hv, hcl.2.1, if_true]
      rw [ih false, hv]
    | false =>
      simp only [rawValue, UnitLoop.scan, hv, hcl.2.2.1, hcl.2.2.2]
      by_cases h10 : c = 10
      · subst h10; rfl
      · have e10 : (c == 10) = false := by simp [h10]
        simp only [h10, if_false, e10, Bool.false_eq_true]
        by_cases h92 : c = 92
        · subst h92
          have := ih true
          rw [hv] at this
          simp [this]
        · have e92 : (c == 92) = false := by simp [h92]
          have := ih false
          rw [hv] at this
          simp [h10, h92, e92, this]

/-- The look-ahead of a `//` comment is "the unit loop of `_r_comment` reaches a `$`". -/
theorem lineOk_is_regex_loop (esc : Bool) (t : Text) :
    lineOk esc t = (commentShape.lineBody.scan (· == 10) esc t).isSome := by
  induction t generalizing esc with
  | nil => cases esc <;> rfl
  | cons c r ih =>
    have hcl := comment_classes c
    cases esc with
    | true =>
      simp only [lineOk, UnitLoop.scan, hcl.2.1, if_true, Option.isSome_map]
      exact ih false
    | false =>
      simp only [lineOk, UnitLoop.scan, hcl.2.2.1, hcl.2.2.2]
      by_cases h10 : c = 10
      · subst h10; rfl
      · have e10 : (c == 10) = false := by simp [h10]
        simp only [e10, Bool.false_eq_true, if_false]
        by_cases h92 : c = 92
        · subst h92
          simp [ih true]
        · have e92 : (c == 92) = false := by simp [h92]
          simp [h10, h92, e92, ih false]

end Source

-- Non-vacuity.
-- `int a; /* x */` is closed; `int a; /` and `/* x` are not.
example : Closed [105, 110, 116, 32, 97, 59, 32, 47, 42, 32, 120, 32, 42, 47] := by decide
example : ¬ Closed [97, 47] ∧ ¬ Closed [47, 42, 32, 120] := by decide
-- a body with `*`, `/` and newlines but no `*/`; a `//` body with an escaped newline
example : closes false [42, 42, 10, 47, 32, 47, 42, 10] = false := by decide
example : lineBody false [97, 92, 10, 98, 92, 92] = true := by decide
example : stripComments ([105, 59] ++ [47, 42] ++ [42, 10, 47] ++ [42, 47] ++ [106, 59]) = [105, 59, 32, 10, 106, 59] := by decide
example : stripComments ([105, 59] ++ [47, 47] ++ [97, 92, 10, 98] ++ [10] ++ [106]) = [105, 59, 32, 10, 10, 106] := by decide
-- the hypotheses of the define theorem: `a` = "  ", `b` = "5 ", `c` = " x "
example : (rawValue false (stripComments ([32, 32] ++ [47, 42] ++ [32, 120, 32] ++ [42, 47] ++ ([53, 32] ++ 10 :: [])))).map macroValue
    = some [53] := by decide

end CffiVerif.C31
