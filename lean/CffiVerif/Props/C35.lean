import CffiVerif.Proofs.PkgConfig

/-!
C35 — pkg-config output is translated to build keywords without loss.

On the model of src/cffi/pkgconfig.py (`Model/PkgConfig.lean`): every
whitespace-separated token of the `--cflags` / `--libs` output lands in exactly
one of the three lists its prefix designates, in order, with the two-character
prefix removed (`every_token_exactly_once`: the token list is rebuilt from the
three lists and the sequence of prefix classes; the three lengths add up);
`-Dname=value` is cut at the first `=` (`macro_split_first_eq`); merging
concatenates per key in call order (`merge_is_concat_in_call_order`,
`result_is_concat_over_libs`); the run fails with `PkgConfigError` exactly when
one of the `pkg-config` calls cannot be started, exits non-zero, prints bytes
that are not UTF-8 or prints a backslash (`error_iff_fail`).
-/
namespace CffiVerif.C35
open CffiVerif.PkgConfig
open CffiVerif.GenSrcIO (utf8Decode)

/-- **Every token exactly once, in order, prefix stripped** — for the `--cflags`
tokens (`-I` → include_dirs, `-D` → define_macros, rest → extra_compile_args)
and the `--libs` tokens (`-L` → library_dirs, `-l` → libraries, rest →
extra_link_args): walking along the prefix classes of the tokens and taking the
next element of the list each class designates (putting `-I`/`-L`/`-l` or
`-D…[=…]` back in front) gives the token list back and uses up all three lists. -/
theorem every_token_exactly_once (ts : List Str) :
    reassembleC (ts.map cclass) (includeDirs ts) (macros ts) (otherCflags ts) = some ts ∧
    (includeDirs ts).length + (macros ts).length + (otherCflags ts).length = ts.length ∧
    reassembleL (ts.map lclass) (libraryDirs ts) (libraries ts) (otherLibs ts) = some ts ∧
    (libraryDirs ts).length + (libraries ts).length + (otherLibs ts).length = ts.length :=
  ⟨reassembleC_spec ts, count_cflags ts, reassembleL_spec ts, count_libs ts⟩

-- "-Ia -DX=1=2 -O2 -I -Dy" : two include dirs (one empty), two macros, one other flag
example : includeDirs [[45, 73, 97], [45, 68, 88, 61, 49, 61, 50], [45, 79, 50], [45, 73], [45, 68, 121]]
    = [[97], []] := by decide
example : macros [[45, 73, 97], [45, 68, 88, 61, 49, 61, 50], [45, 79, 50], [45, 73], [45, 68, 121]]
    = [([88], some [49, 61, 50]), ([121], none)] := by decide
-- the reassembly refuses lists that do not fit (it is not a constant function)
example : reassembleC [.inc, .other] [[97]] [] [] = none := by decide

/-- **`-Dname=value` is split at the first `=`**; without `=` the value is `None`. -/
theorem macro_split_first_eq (x : Str) :
    (∀ n v, macroOf x = (n, some v) → x.drop 2 = n ++ 61 :: v ∧ 61 ∉ n) ∧
    (∀ n, macroOf x = (n, none) → x.drop 2 = n ∧ 61 ∉ n) := by
  unfold macroOf
  constructor
  · intro n v h
    cases hs : splitEq (x.drop 2) with
    | none => simp [hs] at h
    | some p =>
      obtain ⟨a, b⟩ := p
      simp only [hs, Prod.mk.injEq, Option.some.injEq] at h
      obtain ⟨rfl, rfl⟩ := h
      exact splitEq_some _ _ _ hs
  · intro n h
    cases hs : splitEq (x.drop 2) with
    | none =>
      simp only [hs, Prod.mk.injEq, and_true] at h
      subst h
      exact ⟨rfl, splitEq_none _ hs⟩
    | some p => obtain ⟨a, b⟩ := p; simp [hs] at h

example : macroOf [45, 68, 97, 61, 61, 98] = ([97], some [61, 98]) := by decide

/-- **`merge_flags` concatenates per key in call order**: after merging a
sequence of dicts into `init` (keys of `init` distinct, as in any dict), the
list under each key is `init`'s followed by each dict's, in order; keys stay
distinct. -/
theorem merge_is_concat_in_call_order {κ α : Type} [DecidableEq κ] (init : Cfg κ α)
    (cfgs : List (Cfg κ α)) (h : NodupKeys init) (k : κ) :
    vals (cfgs.foldl mergeFlags init) k = vals init k ++ cfgs.flatMap (fun c => vals c k) ∧
    NodupKeys (cfgs.foldl mergeFlags init) :=
  ⟨(foldl_mergeFlags init cfgs h k).2, (foldl_mergeFlags init cfgs h k).1⟩

example : NodupKeys ([] : Cfg Nat Nat) := by simp [NodupKeys]
example : mergeFlags [(1, [10]), (2, [20])] [(2, [21]), (3, [30])] = [(1, [10]), (2, [20, 21]), (3, [30])] := by
  decide

/-- **`PkgConfigError` iff a call fails**: `flags_from_pkgconfig(libs)` raises
exactly when, for some requested library, the `--cflags` or the `--libs` run
cannot be started, exits non-zero, prints undecodable bytes or a backslash. -/
theorem error_iff_fail (env : Str → Flag → Proc) (libs : List Str) :
    flagsFromPkgconfig env libs = .error .pkgConfigError ↔
      ∃ lib ∈ libs, CallFails (env lib .cflags) ∨ CallFails (env lib .libs) :=
  flagsLoop_error_iff env libs []

-- both branches occur
example : CallFails ⟨true, 1, []⟩ := by unfold CallFails; simp
example : CallFails ⟨true, 0, [0xff]⟩ := by
  unfold CallFails; right; right; left; decide
example : ¬ CallFails ⟨true, 0, [45, 73, 97]⟩ := by
  unfold CallFails
  have : utf8Decode [45, 73, 97] = some [45, 73, 97] := by decide
  simp [this]

/-- **The result is the concatenation over the requested libraries**: when no
call fails, the list under every keyword is the concatenation, in the order of
`libs`, of what each library's two outputs contribute. -/
theorem result_is_concat_over_libs (env : Str → Flag → Proc) (libs : List Str) (r : Cfg KeyName Item)
    (h : flagsFromPkgconfig env libs = .ok r) :
    ∃ cfgs, perLib env libs = some cfgs ∧ ∀ k, vals r k = cfgs.flatMap (fun c => vals c k) := by
  obtain ⟨cfgs, hf, hr⟩ := flagsLoop_ok env libs [] r h
  refine ⟨cfgs, hf, ?_⟩
  intro k
  rw [hr, (merge_is_concat_in_call_order [] cfgs (by simp [NodupKeys]) k).1]
  simp [vals]

/-- **The model is the Python source.**  `Generated/PkgConfigPy.lean` is
re-translated from src/cffi/pkgconfig.py on every run (translate/c35_py.py): the
six getters with their prefix tests and `x[2:]`, `_macro`, the dict literal of
`kwargs` (which getter on which output feeds which keyword, in which order) and
the loop body of `merge_flags`.  The model's functions, about which the theorems
above speak, are equal to those translations. -/
theorem model_is_the_translated_source :
    (∀ tc tl : List Str,
      includeDirs tc = Generated.PkgConfigPy.kw_include_dirs tc tl ∧
      libraryDirs tl = Generated.PkgConfigPy.kw_library_dirs tc tl ∧
      libraries tl = Generated.PkgConfigPy.kw_libraries tc tl ∧
      macros tc = Generated.PkgConfigPy.kw_define_macros tc tl ∧
      otherCflags tc = Generated.PkgConfigPy.kw_extra_compile_args tc tl ∧
      otherLibs tl = Generated.PkgConfigPy.kw_extra_link_args tc tl) ∧
    (∀ x, macroOf x = Generated.PkgConfigPy.macro_ x) ∧
    (∀ (cfg : Cfg KeyName Item) k v, mergeKey cfg k v = Generated.PkgConfigPy.merge_step cfg k v) ∧
    (∀ cf lb, (kwargsOf cf lb).map (fun kv => kv.1.name) = Generated.PkgConfigPy.kwargs_keys) := by
  refine ⟨?_, macroOf_eq_macro_, fun cfg k v => mergeKey_eq_merge_step cfg k v, fun _ _ => rfl⟩
  intro tc tl
  have hm : (fun x => Generated.PkgConfigPy.macro_ x) = macroOf := by
    funext x; exact (macroOf_eq_macro_ x).symm
  simp only [includeDirs, libraryDirs, libraries, macros, otherCflags, otherLibs, isI, isD, isL, isl,
    Generated.PkgConfigPy.kw_include_dirs, Generated.PkgConfigPy.kw_library_dirs,
    Generated.PkgConfigPy.kw_libraries, Generated.PkgConfigPy.kw_define_macros,
    Generated.PkgConfigPy.kw_extra_compile_args, Generated.PkgConfigPy.kw_extra_link_args,
    Generated.PkgConfigPy.get_include_dirs, Generated.PkgConfigPy.get_library_dirs,
    Generated.PkgConfigPy.get_libraries, Generated.PkgConfigPy.get_macros,
    Generated.PkgConfigPy.get_other_cflags, Generated.PkgConfigPy.get_other_libs,
    startsWith_eq_starts2, hm, List.map_id', and_self]
  trivial

end CffiVerif.C35
