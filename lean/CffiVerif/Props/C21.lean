import CffiVerif.Proofs.Ownership

/-!
C21 — ownership, destructors and handles behave correctly over any history.

Every theorem quantifies over an arbitrary list of operations `ops` run from
the empty state (`run init ops`): creation of cdata / Python objects, `ffi.gc`,
`ffi.gc(x, None)`, `ffi.release` / `with`, aliasing through `p[0]`, storing
references in Python containers (cycles), dropping references, and
finalisation by the collector of any unreferenced set of objects at any step
(`collect S`, accepted only when `collectOk` holds).  Operations the
implementation rejects leave the state unchanged, so they are covered too.

Destructor and free-function calls are activations with an extent: `release`,
`withExit`, `finalize` (the collector's `tp_finalize`) and `collect` start one,
`ret` ends the innermost.  Everything between is issued from inside the
callback (or by another thread while the first one is inside it): the
histories the theorems quantify over contain arbitrary operations nested in
callbacks, to any depth.
-/
namespace CffiVerif.C21
open CffiVerif.Ownership

/-- Every state a history can reach satisfies the invariant. -/
theorem reachable_inv (ops : List Op) : Inv (run init ops) := inv_run inv_init ops

/-- The collector rule is sound: a set accepted by `collectOk` contains no object
reachable from the references the program holds. -/
theorem collect_only_unreachable (ops : List Op) (S : List Nat)
    (hok : collectOk (run init ops) S = true) (x : Nat) (hx : x ∈ S) : ¬ Reach (run init ops) x := by
  have hinv := reachable_inv ops
  generalize run init ops = s at *
  unfold collectOk at hok
  simp only [Bool.and_eq_true, List.all_eq_true, List.mem_range] at hok
  obtain ⟨c1, c2⟩ := hok
  intro hr
  induction hr with
  | root x o hl hext =>
    have := c1 x hx
    simp [hl] at this
    omega
  | edge y x oy _ hl hmem ih =>
    have hlt : y < s.next := lt_next hinv (objs_of_live hl)
    have := c2 y hlt
    simp only [hl, Bool.or_eq_true, decide_eq_true_eq, List.all_eq_true, Bool.not_eq_eq_eq_not,
      Bool.not_true, decide_eq_false_iff_not] at this
    rcases this with hin | hout
    · exact ih hin
    · exact hout x hmem hx

/-- **A destructor (or free function) is never called twice for one wrapper.** -/
theorem destructor_at_most_once (ops : List Op) (x : Nat) : (run init ops).calls x ≤ 1 := by
  unfold State.calls
  split
  · rename_i o ho; exact gcpInv_le_one ((reachable_inv ops).ghost x o ho)
  · omega

/-- The three clauses about one wrapper in a reachable state. -/
theorem wrapper_calls (ops : List Op) (x : Nat) (o : Obj) (d orig : Option Nat)
    (ho : (run init ops).objs x = some o) (hk : o.kind = .gcp d orig)
    (hd : o.hadDtor = true) (hn : o.noned = false) :
    ((o.alive = false ∨ o.released = true) → o.calls = 1) ∧
    (o.calls = 1 → o.alive = false ∨ o.released = true) := by
  have g := (reachable_inv ops).ghost x o ho
  simp only [GcpInv, hk] at g
  cases d with
  | some dd =>
    have := g.1 rfl
    constructor
    · intro h; rcases h with h | h <;> simp_all
    · intro h; omega
  | none =>
    constructor
    · intro _; rw [g.2.1 rfl]; simp [hd, hn]
    · intro _; exact g.2.2 rfl hd hn

/-- **`ffi.gc(p, d)`: at any later point of any history the destructor of the new
wrapper has run exactly once if the wrapper has been released or deallocated
(and `ffi.gc(g, None)` did not disarm it first), and has not run before that.** -/
theorem destructor_exactly_once_when_dead_or_released (ops1 ops2 : List Op) (p d g : Nat)
    (hgc : (step (run init ops1) (.gc p d)).2 = .ok [g]) :
    ∃ o, (run (step (run init ops1) (.gc p d)).1 ops2).objs g = some o ∧ o.isAlloc = false ∧
      o.calls ≤ 1 ∧
      (o.noned = false → (o.alive = false ∨ o.released = true) → o.calls = 1) ∧
      (o.calls = 1 → o.alive = false ∨ o.released = true) := by
  have hinv := reachable_inv ops1
  generalize hs : run init ops1 = s at *
  -- the object created by the operation
  have hnew : ∃ o0, (step s (.gc p d)).1.objs g = some o0 ∧ o0.kind = .gcp (some d) (some p) ∧
      o0.hadDtor = true ∧ o0.isAlloc = false := by
    simp only [step, opGc] at hgc ⊢
    split at hgc
    · split at hgc
      · simp at hgc; subst hgc
        simp [*, mkObj]
      · simp at hgc
    · simp at hgc
  obtain ⟨o0, h0, hk0, hd0, ha0⟩ := hnew
  have hinv1 := inv_step hinv (.gc p d)
  obtain ⟨o, ho, ev⟩ := run_evolve hinv1 ops2 g o0 h0
  obtain ⟨d', orig', hk⟩ := ev.gcp _ _ hk0
  have hd' : o.hadDtor = true := by rw [ev.flags.1, hd0]
  have hreach : run (step s (.gc p d)).1 ops2 = run init (ops1 ++ [.gc p d] ++ ops2) := by
    simp [run, List.foldl_append, ← hs]
  refine ⟨o, ho, by rw [ev.flags.2, ha0], ?_, ?_, ?_⟩
  · rw [hreach] at ho
    exact gcpInv_le_one ((reachable_inv _).ghost g o ho)
  · intro hn
    rw [hreach] at ho
    exact (wrapper_calls _ g o d' orig' ho hk hd' hn).1
  · intro hc
    rw [hreach] at ho
    by_cases hn : o.noned = false
    · exact (wrapper_calls _ g o d' orig' ho hk hd' hn).2 hc
    · -- disarmed first: the count is 0, not 1
      have g' := (reachable_inv _).ghost g o ho
      simp only [GcpInv, hk] at g'
      cases d' with
      | some dd => have := g'.1 rfl; omega
      | none => have := g'.2.1 rfl; simp at hn; simp [hn] at this; omega

/-- **After `ffi.gc(g, None)` the destructor of `g` is never called**, whatever
follows (release, `with`, collection, ...): the call count stays what it was. -/
theorem never_after_gc_none (ops1 ops2 : List Op) (g : Nat)
    (hok : (step (run init ops1) (.gcNone g)).2 = .ok []) :
    (run (step (run init ops1) (.gcNone g)).1 ops2).calls g = (run init ops1).calls g := by
  have hinv := reachable_inv ops1
  generalize run init ops1 = s at *
  have hnew : ∃ o0 orig, (step s (.gcNone g)).1.objs g = some o0 ∧ o0.kind = .gcp none orig ∧
      o0.calls = s.calls g := by
    simp only [step, opGcNone] at hok ⊢
    split at hok
    · rename_i o hl
      split at hok
      · rename_i d orig hk
        refine ⟨{ o with kind := .gcp none orig, noned := o.noned || d.isSome }, orig, by simp, rfl, ?_⟩
        simp [State.calls, objs_of_live hl]
      · simp at hok
    · simp at hok
  obtain ⟨o0, orig, h0, hk0, hc0⟩ := hnew
  obtain ⟨o, ho, ev⟩ := run_evolve (inv_step hinv (.gcNone g)) ops2 g o0 h0
  have h1 := (ev.gcpNone orig hk0).2
  have h2 : (run (step s (.gcNone g)).1 ops2).calls g = o.calls := by simp [State.calls, ho]
  rw [h2, h1, hc0]

/-- **An allocation made by `new_allocator(alloc, free)`**: `free` is called at
most once, exactly once when the allocation has been released or deallocated
(unless `ffi.gc(x, None)` removed it), and not before. -/
theorem free_fn_exactly_once (ops1 ops2 : List Op) (free g raw : Nat)
    (hal : (step (run init ops1) (.allocPlain (some free))).2 = .ok [g, raw]) :
    ∃ o, (run (step (run init ops1) (.allocPlain (some free))).1 ops2).objs g = some o ∧
      o.isAlloc = true ∧ o.calls ≤ 1 ∧
      (o.noned = false → (o.alive = false ∨ o.released = true) → o.calls = 1) ∧
      (o.calls = 1 → o.alive = false ∨ o.released = true) := by
  have hinv := reachable_inv ops1
  generalize hs : run init ops1 = s at *
  have hnew : ∃ o0, (step s (.allocPlain (some free))).1.objs g = some o0 ∧
      o0.kind = .gcp (some free) (some raw) ∧ o0.hadDtor = true ∧ o0.isAlloc = true := by
    simp only [step, opAllocPlain] at hal ⊢
    split at hal
    · simp at hal; obtain ⟨rfl, rfl⟩ := hal
      simp [*, mkObj]
    · simp at hal
  obtain ⟨o0, h0, hk0, hd0, ha0⟩ := hnew
  have hinv1 := inv_step hinv (.allocPlain (some free))
  obtain ⟨o, ho, ev⟩ := run_evolve hinv1 ops2 g o0 h0
  obtain ⟨d', orig', hk⟩ := ev.gcp _ _ hk0
  have hd' : o.hadDtor = true := by rw [ev.flags.1, hd0]
  have hreach : run (step s (.allocPlain (some free))).1 ops2 =
      run init (ops1 ++ [.allocPlain (some free)] ++ ops2) := by
    simp [run, List.foldl_append, ← hs]
  refine ⟨o, ho, by rw [ev.flags.2, ha0], ?_, ?_, ?_⟩
  · rw [hreach] at ho
    exact gcpInv_le_one ((reachable_inv _).ghost g o ho)
  · intro hn
    rw [hreach] at ho
    exact (wrapper_calls _ g o d' orig' ho hk hd' hn).1
  · intro hc
    rw [hreach] at ho
    by_cases hn : o.noned = false
    · exact (wrapper_calls _ g o d' orig' ho hk hd' hn).2 hc
    · have g' := (reachable_inv _).ghost g o ho
      simp only [GcpInv, hk] at g'
      cases d' with
      | some dd => have := g'.1 rfl; omega
      | none => have := g'.2.1 rfl; simp at hn; simp [hn] at this; omega

/-- The struct flavour (`allocator("struct s *")`): the wrapper is the struct
object `sobj` behind the returned pointer; same guarantee. -/
theorem free_fn_exactly_once_struct (ops1 ops2 : List Op) (free p sobj raw : Nat)
    (hal : (step (run init ops1) (.allocStruct (some free))).2 = .ok [p, sobj, raw]) :
    ∃ o, (run (step (run init ops1) (.allocStruct (some free))).1 ops2).objs sobj = some o ∧
      o.isAlloc = true ∧ o.calls ≤ 1 ∧
      (o.noned = false → (o.alive = false ∨ o.released = true) → o.calls = 1) ∧
      (o.calls = 1 → o.alive = false ∨ o.released = true) := by
  have hinv := reachable_inv ops1
  generalize hs : run init ops1 = s at *
  have hnew : ∃ o0, (step s (.allocStruct (some free))).1.objs sobj = some o0 ∧
      o0.kind = .gcp (some free) (some raw) ∧ o0.hadDtor = true ∧ o0.isAlloc = true := by
    simp only [step, opAllocStruct] at hal ⊢
    split at hal
    · simp at hal; obtain ⟨rfl, rfl, rfl⟩ := hal
      simp [*, mkObj]
    · simp at hal
  obtain ⟨o0, h0, hk0, hd0, ha0⟩ := hnew
  have hinv1 := inv_step hinv (.allocStruct (some free))
  obtain ⟨o, ho, ev⟩ := run_evolve hinv1 ops2 sobj o0 h0
  obtain ⟨d', orig', hk⟩ := ev.gcp _ _ hk0
  have hd' : o.hadDtor = true := by rw [ev.flags.1, hd0]
  have hreach : run (step s (.allocStruct (some free))).1 ops2 =
      run init (ops1 ++ [.allocStruct (some free)] ++ ops2) := by
    simp [run, List.foldl_append, ← hs]
  refine ⟨o, ho, by rw [ev.flags.2, ha0], ?_, ?_, ?_⟩
  · rw [hreach] at ho
    exact gcpInv_le_one ((reachable_inv _).ghost sobj o ho)
  · intro hn
    rw [hreach] at ho
    exact (wrapper_calls _ sobj o d' orig' ho hk hd' hn).1
  · intro hc
    rw [hreach] at ho
    by_cases hn : o.noned = false
    · exact (wrapper_calls _ sobj o d' orig' ho hk hd' hn).2 hc
    · have g' := (reachable_inv _).ghost sobj o ho
      simp only [GcpInv, hk] at g'
      cases d' with
      | some dd => have := g'.1 rfl; omega
      | none => have := g'.2.1 rfl; simp at hn; simp [hn] at this; omega

/-- **`ffi.release()` is idempotent, also re-entrantly**: the state after a successful
`ffi.release(x)` has the wrapper already emptied and marked and — if a destructor was called — that
call still in progress (no `ret` yet).  A second `ffi.release(x)` / `with x:` issued in that state,
i.e. from inside the destructor or the free callback, or by another thread while the first one
is inside it, changes nothing and calls nothing. -/
theorem release_idempotent (ops : List Op) (x : Nat) (l : List Nat)
    (hok : (step (run init ops) (.release x)).2 = .ok l) :
    step (step (run init ops) (.release x)).1 (.release x) = ((step (run init ops) (.release x)).1, .ok []) ∧
    step (step (run init ops) (.release x)).1 (.withExit x) = ((step (run init ops) (.release x)).1, .ok []) := by
  have hinv := reachable_inv ops
  generalize run init ops = s at *
  have key : opRelease (opRelease s x).1 x = ((opRelease s x).1, .ok []) := by
    simp only [step] at hok
    unfold opRelease at hok
    -- the plain part of the first release succeeded
    have hok' : ∃ l', (release s x).2 = .ok l' := by
      cases hr : (release s x).2 with
      | error e => simp [hr] at hok
      | ok l' => exact ⟨l', rfl⟩
    obtain ⟨l', hl'⟩ := hok'
    have core := release_idem_core s x l' hl'
    have hx : ∃ ox, s.live x = some ox := by
      cases hlx : s.live x with
      | none => simp [release, hlx] at hl'
      | some ox => exact ⟨ox, rfl⟩
    obtain ⟨ox, hlx⟩ := hx
    have hxlt : x < s.next := lt_next hinv (objs_of_live hlx)
    have second : ∀ pins, opRelease ((release s x).1.pushFrame pins) x = ((release s x).1.pushFrame pins, .ok []) := by
      intro pins
      have hc := release_pushFrame (inv_release hinv x) x pins (by rw [release_next]; exact hxlt)
      rw [core] at hc
      unfold opRelease
      rw [hc]
    have hcase : (∃ pins, (opRelease s x).1 = (release s x).1.pushFrame pins) ∨
        (opRelease s x).1 = (release s x).1 := by
      unfold opRelease
      split
      · split
        · exact Or.inl ⟨_, rfl⟩
        · exact Or.inr rfl
      · exact Or.inr rfl
    rcases hcase with ⟨pins, hp⟩ | hp
    · rw [hp]; exact second pins
    · rw [hp]; unfold opRelease; rw [core]
  exact ⟨by simpa only [step] using key, by simpa only [step] using key⟩

/-- **A `from_buffer` cdata keeps its source alive and export-locked** until it is
released or deallocated: in every reachable state, if `f` is a live cdata with
an unreleased view on `b`, then `b` is alive and resizing `b` raises BufferError. -/
theorem frombuf_export_until_release (ops : List Op) (f b : Nat) (of : Obj)
    (hf : (run init ops).objs f = some of) (ha : of.alive = true) (hk : of.kind = .frombuf b false) :
    Alive (run init ops) b ∧ (step (run init ops) (.resize b)).2 = .error .BufferError := by
  have hinv := reachable_inv ops
  generalize run init ops = s at *
  have hb : Alive s b := hinv.nd f of hf ha b (by simp [edges, hk])
  refine ⟨hb, ?_⟩
  obtain ⟨ob, hob, hba⟩ := hb
  obtain ⟨ob', fl, hob', hbk⟩ := hinv.fb f of b false hf hk
  rw [hob] at hob'; simp at hob'; subst hob'
  have hl : s.live b = some ob := (live_def s b ob).mpr ⟨hob, hba⟩
  have hany : (List.range s.next).any (exportsOn s b) = true := by
    rw [List.any_eq_true]
    refine ⟨f, List.mem_range.mpr (lt_next hinv hf), ?_⟩
    have : s.live f = some of := (live_def s f of).mpr ⟨hf, ha⟩
    simp [exportsOn, this, hk]
  simp [step, opResize, hl, hbk, hany]

/-- ... and the lock is gone as soon as no live unreleased view remains (after
`ffi.release`, `with`, or deallocation of every view). -/
theorem frombuf_resize_ok_iff_no_live_view (ops : List Op) (b : Nat) (ob : Obj) (fl : List Nat)
    (hb : (run init ops).live b = some ob) (hk : ob.kind = .py .buf fl) :
    (step (run init ops) (.resize b)).2 = .ok [] ↔
      ¬ ∃ f of, (run init ops).live f = some of ∧ of.kind = .frombuf b false := by
  have hinv := reachable_inv ops
  generalize run init ops = s at *
  simp only [step, opResize, hb, hk]
  constructor
  · intro h ⟨f, of, hf, hfk⟩
    have hany : (List.range s.next).any (exportsOn s b) = true := by
      rw [List.any_eq_true]
      exact ⟨f, List.mem_range.mpr (lt_next hinv (objs_of_live hf)), by simp [exportsOn, hf, hfk]⟩
    simp [hany] at h
  · intro h
    have hany : (List.range s.next).any (exportsOn s b) = false := by
      rw [Bool.eq_false_iff]
      intro hc
      rw [List.any_eq_true] at hc
      obtain ⟨f, _, hf⟩ := hc
      unfold exportsOn at hf
      split at hf
      · rename_i o ho
        exact h ⟨f, o, ho, by simpa using hf⟩
      · simp at hf
    simp [hany]

/-- **Releasing a view unlocks**: after `ffi.release(f)` the cdata `f` holds no export. -/
theorem release_drops_export (ops : List Op) (f b : Nat) (l : List Nat)
    (hok : (step (run init ops) (.release f)).2 = .ok l) :
    exportsOn (step (run init ops) (.release f)).1 b f = false := by
  have hinv := reachable_inv ops
  generalize run init ops = s at *
  simp only [step] at hok ⊢
  unfold opRelease at hok ⊢
  have hok' : ∃ l', (release s f).2 = .ok l' := by
    cases hr : (release s f).2 with
    | error e => simp [hr] at hok
    | ok l' => exact ⟨l', rfl⟩
  obtain ⟨l', hl'⟩ := hok'
  have core := release_drops_export_core s f b l' hl'
  split
  · split
    · -- a destructor call is in progress: the frame object is a new identity, `f` is unchanged
      have hx : ∃ ox, s.live f = some ox := by
        cases hlx : s.live f with
        | none => simp [release, hlx] at hl'
        | some ox => exact ⟨ox, rfl⟩
      obtain ⟨ox, hlx⟩ := hx
      have hlt : f < (release s f).1.next := by rw [release_next]; exact lt_next hinv (objs_of_live hlx)
      simp only [exportsOn] at core ⊢
      rw [live_pushFrame_old _ _ _ (by omega)]
      exact core
    · exact core
  · exact core

/-- **Memory from `ffi.new("struct s *")` stays valid while `p` or `p[0]` is
alive**: in every reachable state a live struct pointer `p` refers to a live
struct object, and the collector rule refuses to finalise that struct object as
long as `p` survives or the program holds a reference to it (`p[0]`). -/
theorem struct_memory_valid_while_either_alive (ops : List Op) (p sid : Nat) (op : Obj)
    (hp : (run init ops).live p = some op) (hk : op.kind = .structptr sid) :
    (∃ os, (run init ops).live sid = some os ∧ isStructTarget os.kind) ∧
    (∀ S, sid ∈ S → p ∉ S → (step (run init ops) (.collect S)).2 = .error .Reachable) ∧
    (∀ S os, (run init ops).live sid = some os → 0 < os.ext → sid ∈ S →
        (step (run init ops) (.collect S)).2 = .error .Reachable) := by
  have hinv := reachable_inv ops
  generalize run init ops = s at *
  have hpo := (live_def s p op).mp hp
  obtain ⟨os, hos, hosa⟩ := hinv.nd p op hpo.1 hpo.2 sid (by simp [edges, hk])
  obtain ⟨os', hos', ht⟩ := hinv.sk p op sid hpo.1 hk
  rw [hos] at hos'; simp at hos'; subst hos'
  refine ⟨⟨os, (live_def s sid os).mpr ⟨hos, hosa⟩, ht⟩, ?_, ?_⟩
  · intro S hs hpS
    have : collectOk s S = false := by
      rw [Bool.eq_false_iff]
      intro hc
      unfold collectOk at hc
      simp only [Bool.and_eq_true, List.all_eq_true, List.mem_range] at hc
      have := hc.2 p (lt_next hinv hpo.1)
      simp only [hp, Bool.or_eq_true, decide_eq_true_eq, List.all_eq_true, Bool.not_eq_eq_eq_not,
        Bool.not_true, decide_eq_false_iff_not] at this
      rcases this with h1 | h1
      · exact hpS h1
      · exact h1 sid (by simp [edges, hk]) hs
    simp [step, opCollect, this]
  · intro S os2 hl hext hs
    have : collectOk s S = false := by
      rw [Bool.eq_false_iff]
      intro hc
      unfold collectOk at hc
      simp only [Bool.and_eq_true, List.all_eq_true, List.mem_range] at hc
      have := hc.1 sid hs
      simp [hl] at this
      omega
    simp [step, opCollect, this]

/-- **Live handles have pairwise distinct addresses.** -/
theorem handles_distinct (ops : List Op) (h1 h2 x1 x2 a : Nat) (o1 o2 : Obj)
    (l1 : (run init ops).live h1 = some o1) (l2 : (run init ops).live h2 = some o2)
    (k1 : o1.kind = .handle x1 a) (k2 : o2.kind = .handle x2 a) : h1 = h2 := by
  have e1 := (live_def _ _ _).mp l1
  have e2 := (live_def _ _ _).mp l2
  exact (reachable_inv ops).hd h1 h2 o1 o2 x1 x2 a e1.1 e2.1 e1.2 e2.2 k1 k2

/-- **`ffi.from_handle(h)` returns the object given to the `new_handle()` call
that produced `h`**, at any later point of any history at which `h` is alive. -/
theorem from_handle_returns_original (ops1 ops2 : List Op) (x a h : Nat)
    (hnew : (step (run init ops1) (.newHandle x a)).2 = .ok [h])
    (halive : Alive (run (step (run init ops1) (.newHandle x a)).1 ops2) h) :
    (step (run (step (run init ops1) (.newHandle x a)).1 ops2) (.fromHandle a)).2 = .ok [x] := by
  have hinv := reachable_inv ops1
  generalize run init ops1 = s at *
  have hcreated : ∃ o0, (step s (.newHandle x a)).1.objs h = some o0 ∧ o0.kind = .handle x a := by
    simp only [step, opNewHandle] at hnew ⊢
    split at hnew
    · split at hnew
      · simp at hnew
      · simp at hnew; subst hnew
        simp [*, mkObj]
    · simp at hnew
  obtain ⟨o0, h0, hk0⟩ := hcreated
  have hinv1 := inv_step hinv (.newHandle x a)
  obtain ⟨o, ho, ev⟩ := run_evolve hinv1 ops2 h o0 h0
  obtain ⟨o', ho', hoa⟩ := halive
  rw [ho] at ho'; simp at ho'; subst ho'
  exact fromHandle_live (inv_run hinv1 ops2) h x a o ((live_def _ _ _).mpr ⟨ho, hoa⟩) (ev.handle x a hk0)

/-! ### Tie to the statement order of the C source (`Generated/OwnershipSteps.lean`, re-extracted
from `_cffi_backend.c` by `translate/c21_steps.py` on every run) -/

open CffiVerif.Generated.OwnershipSteps in
/-- **The model's "empty the slots and mark, then call" is the order of the source**: executing the
statements of `cdatagcp_finalize` as they stand in `_cffi_backend.c` on a wrapper with full slots
makes exactly one call of `gcp_finalize`, with the original destructor and origobj, at a moment when
both slots are already empty; `cdatagcp_dealloc` makes its one call after the wrapper is
deallocated, with the values saved before; and `cdata_exit` dispatches per cdata type to what
`release` does for that kind. -/
theorem release_order_is_source :
    finRun cdatagcp_finalize = modelReleaseRun ∧
    finRun cdatagcp_dealloc = modelDeallocRun ∧
    (∀ t, sourceDispatch t = some (modelDispatch t)) := by
  refine ⟨by decide, by decide, ?_⟩
  intro t; cases t <;> decide

/-- ... and the model really has that order: after the part of `ffi.release(x)` that precedes the
destructor call, the wrapper `w` whose destructor is about to run is already emptied and marked. -/
theorem model_release_marks_then_calls (s : State) (x w : Nat) (l : List Nat)
    (h : (release s x).2 = .ok (w :: l)) :
    ∃ o, (release s x).1.objs w = some o ∧ o.kind = .gcp none none ∧ o.released = true :=
  release_marks h

/-- **The collector sees exactly the references the model gives a wrapper**: the members visited by
`cdatagcp_traverse` in the source are the model's `edges` of a wrapper (destructor and origobj), so the
sets the model lets the collector finalise (`collectOk`: closed under the model's edges) are the ones the
real collector can recognise as garbage. -/
theorem traverse_visits_model_edges (d o : Nat) (e : Nat) :
    traversed d o = edges (mkObj (.gcp (some d) (some o)) e) := by
  simp [traversed, CffiVerif.Generated.OwnershipSteps.gcp_traverse, edges, mkObj]

open CffiVerif.Generated.OwnershipSteps in
/-- `ffi.gc(x, None)`, handle deallocation, `new_handle`, `from_handle`: the statements the model
relies on, in the order of the source (type check before `Py_CLEAR`; the handle's address is the
handle object and `from_handle` reads the stored object back after checking the handle is live). -/
theorem handle_and_gc_none_steps_are_source :
    gc_none = [.typeCheckWrapperElseTypeError, .clearDestructor, .returnNone] ∧
    handle_dealloc = [.untrack, .decrefStored, .dealloc] ∧
    new_handle = [.allocHandle, .addressIsObject, .increfStored, .storeObject, .returnHandle] ∧
    from_handle = [.addressToObject, .checkLiveHandleElseFatal, .returnStored] := by
  decide

/-! ### Non-vacuity: concrete histories that exercise the hypotheses -/

-- ids: 0 = plain cdata, 1 = destructor object, 2 = the gc wrapper
def exGc : List Op := [.newPlain, .newPy .dtor, .gc 0 1]

-- the wrapper in a cycle with its destructor (d.fields = [g]), references dropped, then collected:
-- the collector runs tp_finalize (destructor called, activation 3), later deallocates
def exCyc : List Op := exGc ++ [.store 1 2, .dropRef 2, .dropRef 1, .dropRef 0]
example : (step (run init [.newPlain, .newPy .dtor]) (.gc 0 1)).2 = .ok [2] := by decide
example : (run init exCyc).calls 2 = 0 := by decide
example : (step (run init exCyc) (.finalize 2 [0, 1, 2])).2 = .ok [2] := by decide
-- ... the destructor, still running, releases its own wrapper (it can reach it): nothing happens
example : (step (run init (exCyc ++ [.finalize 2 [0, 1, 2]])) (.release 2)).2 = .ok [] := by decide
example : (run init (exCyc ++ [.finalize 2 [0, 1, 2], .release 2, .withExit 2, .ret, .collect [0, 1, 2]])).calls 2 = 1 := by
  decide
-- nothing of the set can be deallocated while the destructor call is in progress
example : (step (run init (exCyc ++ [.finalize 2 [0, 1, 2]])) (.collect [0, 1, 2])).2 = .error .Reachable := by decide
-- deallocation without a finalizer pass (reference counting): the call happens at the deallocation
example : (step (run init exCyc) (.collect [0, 1, 2])).2 = .ok [2] := by decide
example : (run init (exCyc ++ [.collect [0, 1, 2], .ret])).calls 2 = 1 := by decide
-- the collector may not take the wrapper while the program still holds it
example : (step (run init exGc) (.collect [2])).2 = .error .Reachable := by decide
-- release; from inside the destructor: release again, with-exit, drop the reference, collect;
-- return; release again; collection: still one call
example : (step (run init exGc) (.release 2)).2 = .ok [2] := by decide
example : (step (run init (exGc ++ [.release 2])) (.release 2)).2 = .ok [] := by decide
example : (step (run init (exGc ++ [.release 2, .dropRef 2])) (.collect [2])).2 = .error .Reachable := by decide
example : (run init (exGc ++ [.release 2, .release 2, .withExit 2, .dropRef 2, .ret, .release 2, .collect [2]])).calls 2
    = 1 := by decide
-- a destructor that releases another wrapper (ids 3 = second destructor, 4 = second wrapper, 5, 6 = activations)
example : (run init (exGc ++ [.newPy .dtor, .gc 0 3, .release 2, .release 4, .release 2, .ret, .ret])).calls 4 = 1 := by
  decide
example : (run init (exGc ++ [.newPy .dtor, .gc 0 3, .release 2, .release 4, .release 2, .ret, .ret])).calls 2 = 1 := by
  decide
example : (step (run init exGc) .ret).2 = .error .NoFrame := by decide
-- gc(g, None) first: never called
example : (step (run init exGc) (.gcNone 2)).2 = .ok [] := by decide
example : (run init (exGc ++ [.gcNone 2, .release 2, .dropRef 2, .collect [2]])).calls 2 = 0 := by decide
-- allocator: ids 0 = free function, 1 = raw memory, 2 = allocation
example : (step (run init [.newPy .dtor]) (.allocPlain (some 0))).2 = .ok [2, 1] := by decide
example : (run init [.newPy .dtor, .allocPlain (some 0), .dropRef 2, .collect [2], .ret, .collect [1]]).calls 2 = 1 := by
  decide
-- the free callback does `with arr:` on the allocation being released
example : (run init [.newPy .dtor, .allocPlain (some 0), .release 2, .withExit 2, .ret, .release 2]).calls 2 = 1 := by
  decide
-- allocator("struct s *"): 0 free, 1 raw, 2 struct wrapper, 3 pointer; release(p) frees, collection does not free again
example : (step (run init [.newPy .dtor]) (.allocStruct (some 0))).2 = .ok [3, 2, 1] := by decide
example : (run init [.newPy .dtor, .allocStruct (some 0), .release 3, .release 3, .ret, .dropRef 3, .collect [3, 2]]).calls 2
    = 1 := by decide
-- from_buffer: 0 = bytearray, 1 = view
example : (step (run init [.newPy .buf, .fromBuffer 0]) (.resize 0)).2 = .error .BufferError := by decide
example : (step (run init [.newPy .buf, .fromBuffer 0, .release 1]) (.resize 0)).2 = .ok [] := by decide
example : (step (run init [.newPy .buf, .fromBuffer 0, .dropRef 1, .collect [1]]) (.resize 0)).2 = .ok [] := by decide
example : (step (run init [.newPy .buf, .fromBuffer 0, .dropRef 0]) (.collect [0])).2 = .error .Reachable := by decide
-- struct pointer: 0 = struct object, 1 = pointer; p[0] keeps the struct after p is gone
example : (step (run init [.newStruct]) (.alias 1)).2 = .ok [0] := by decide
example : (step (run init [.newStruct, .alias 1, .dropRef 1, .collect [1]]) (.collect [0])).2 = .error .Reachable := by
  decide
example : (step (run init [.newStruct]) (.collect [0])).2 = .error .Reachable := by decide
-- handles: 0 = object, 1, 2 = handles at addresses 100, 200; a cycle object -> handle -> object
example : (step (run init [.newPy .box, .newHandle 0 100]) (.newHandle 0 100)).2 = .error .AddrInUse := by decide
example : (step (run init [.newPy .box, .newHandle 0 100, .newHandle 0 200]) (.fromHandle 200)).2 = .ok [0] := by
  decide
example : (step (run init [.newPy .box, .newHandle 0 100, .store 0 1, .dropRef 0, .dropRef 1]) (.collect [0, 1])).2
    = .ok [] := by decide
-- address reuse after the first handle died
example : (step (run init [.newPy .box, .newHandle 0 100, .dropRef 1, .collect [1]]) (.newHandle 0 100)).2
    = .ok [2] := by decide

end CffiVerif.C21
