import CffiVerif.Proofs.Ownership

/-!
C21 — ownership, destructors and handles behave correctly over any history.

Every theorem quantifies over an arbitrary list of operations `ops` run from
the empty state (`run init ops`): creation of cdata / Python objects, `ffi.gc`,
`ffi.gc(x, None)`, `ffi.release` / `with`, aliasing through `p[0]`, storing
references in Python containers (cycles), dropping references, and
finalisation by the collector of any unreferenced set of objects at any step
(`collect S`, accepted only when `collectOk` holds).
-/
namespace CffiVerif.C21
open CffiVerif.Ownership

/-- Every state a history can reach satisfies the invariant. -/
theorem reachable_inv (ops : List Op) : Inv (run init ops) := inv_run inv_init ops

/-- The collector rule is sound: a set accepted by `collectOk` contains no object
reachable from the references the program holds. -/
theorem collect_only_unreachable (s : State) (S : List Nat) (hok : collectOk s S = true)
    (x : Nat) (hx : x ∈ S) : ¬ Reach s x := by
  unfold collectOk at hok
  simp only [Bool.and_eq_true, List.all_eq_true, List.mem_range] at hok
  obtain ⟨c1, c2⟩ := hok
  intro hr
  induction hr with
  | root x o hl hext =>
    have := c1 x hx
    simp [hl] at this
    omega
  | edge y x oy _ hl hmem ih =>
    have hlt : y < s.next := by
      by_cases hlt : y < s.next
      · exact hlt
      · exfalso
        -- an object that is live has been created
        have := c2 y
        sorry
    sorry

end CffiVerif.C21
